import ZCV.Gen.CodeSubstitution
import ZCV.Model.Subst
import ZCV.Lemmas.PyPrims
import ZCV.Lemmas.NameRx
/-!
# The generated code of `ZConfig/substitution.py` equals the hand-written model

`Gen.Code.isname`, `Gen.Code._split`, `Gen.Code.substitute` (translated from the Python source by `harness/zcv/pytrans.py`
on every run) against `Subst.isname`, `Subst.split`, `Subst.substitute`, for ALL arguments.  `embedS*` only re-tag:
the models' error type (`Subst.Err`, which numbers the raise sites) becomes the exception CLASS of the generated code
(`SubstitutionSyntaxError`; `SubstitutionReplacementError` with its `source` and `name`), and `_split`'s Python 5-tuple
`(prefix, name, namecase, suffix, vtype)` is rebuilt from the model's `(prefix, (namecase, vtype)?, suffix)`.
-/
set_option linter.unusedSimpArgs false
namespace ZCV.CodeEq
open ZCV ZCV.Py ZCV.Gen.Code ZCV.Subst

/-- exception re-tagging: the class, and for a missing name its two arguments (the raise-site number is dropped:
    it stands for the message, which is not an observable) -/
def embedSErr : Subst.Err → PyExc
  | .syntax _ => .SubstitutionSyntaxError
  | .missing src name => .SubstitutionReplacementError src (some name)

def embedS {α} : Except Subst.Err α → Except PyExc α
  | .ok v => .ok v
  | .error e => .error (embedSErr e)

@[simp] theorem embedS_ok {α} (v : α) : embedS (.ok v : Except Subst.Err α) = .ok v := rfl
@[simp] theorem embedS_error {α} (e : Subst.Err) : embedS (.error e : Except Subst.Err α) = .error (embedSErr e) := rfl

/-- `embedS` forgets only the raise-site number of a syntax error -/
theorem embedS_injective_upto {α} (a b : Except Subst.Err α) (h : embedS a = embedS b) :
    a = b ∨ ∃ i j, a = .error (.syntax i) ∧ b = .error (.syntax j) := by
  cases a with
  | ok v => cases b with
    | ok w => simp [embedS] at h; exact Or.inl (by rw [h])
    | error e => simp [embedS] at h
  | error e => cases b with
    | ok w => simp [embedS] at h
    | error e' =>
      cases e <;> cases e' <;> simp [embedS, embedSErr] at h
      · exact Or.inr ⟨_, _, rfl, rfl⟩
      · exact Or.inl (by rw [h.1, h.2])

/-- the value `vtype` has in the Python tuple -/
def vtStr : VT → Str
  | .define => ['d', 'e', 'f', 'i', 'n', 'e']
  | .env => ['e', 'n', 'v']

/-- `_split`'s result tuple rebuilt from the model's: `name = namecase.lower()`; the suffix is `None` exactly when the
    text has no `$` (the model writes `[]` there; the only consumer tests `while rest:`) -/
def embedSplit (hasDollar : Bool) : Except Subst.Err (Str × Option (Str × VT) × Str) →
    Except PyExc (Str × Option Str × Option Str × Option Str × Option Str)
  | .error e => .error (embedSErr e)
  | .ok (p, none, r) => .ok (p, none, none, if hasDollar then some r else none, none)
  | .ok (p, some (n, vt), r) => .ok (p, some (lower n), some n, some r, some (vtStr vt))

/-- `_name_match(s, pos)` as the model's `nameMatchAt` -/
theorem nameMatch_pair (s : Str) (x : Int) (pos : Nat) (hx : x = pos) :
    (Py.reMatchAt Gen.nameRx s x).map (fun m => (m.group, m.stop)) = nameMatchAt s pos := by
  rw [Py.reMatchAt_pair _ _ _ _ hx]; rfl

theorem code_isname_eq (s : Str) : Gen.Code.isname s = .ok (Subst.isname s) := by
  unfold Gen.Code.isname Subst.isname
  rw [← nameMatch_pair s 0 0 rfl]
  unfold Py.reMatch
  cases Py.reMatchAt Gen.nameRx s 0 <;> rfl

theorem code_split_eq (s : Str) : Gen.Code._split s = embedSplit (s.contains '$') (Subst.split s) := by
  unfold Gen.Code._split Subst.split
  by_cases hd : s.contains '$' = true
  · simp only [hd, ↓reduceIte, Py.find1_of_contains _ _ hd]
    generalize s.findIdx (· == '$') = i
    have e1 : Py.slice s (some ((i : Int) + 1)) (some ((i : Int) + 2)) = (s.drop (i + 1)).take 1 := by
      rw [Py.slice_nat' s _ _ (i + 1) (i + 2) (by omega) (by omega)]
      congr 1; omega
    have e2 : Py.slice s none (some ((i : Int) + 1)) = s.take (i + 1) := Py.slice_to_nat' s _ (i + 1) (by omega)
    have e3 : Py.slice s (some ((i : Int) + 2)) none = s.drop (i + 2) := Py.slice_from_nat' s _ (i + 2) (by omega)
    have e4 : Py.slice s none (some (i : Int)) = s.take i := Py.slice_to_nat' s _ i rfl
    simp only [e1, e2, e3, e4]
    generalize List.take 1 (List.drop (i + 1) s) = c
    have eb : ∀ (m : Py.Match) (cl : Char), Py.startsWithAt s [cl] (m.end_ + 1 - 1) = ((s.drop (m.stop + 1 - 1)).take 1 == [cl]) := by
      intro m cl; exact Py.startsWithAt_one s cl _ _ (by simp only [Py.Match.end_]; omega)
    have es : ∀ (m : Py.Match), Py.slice s (some (m.end_ + 1)) none = s.drop (m.stop + 1) := by
      intro m; exact Py.slice_from_nat' s _ _ (by simp only [Py.Match.end_]; omega)
    have es0 : ∀ (m : Py.Match), Py.slice s (some m.end_) none = s.drop m.stop := by
      intro m; exact Py.slice_from_nat' s _ _ rfl
    by_cases h0 : (c == []) = true
    · simp only [h0, ↓reduceIte]; rfl
    simp only [h0, Bool.false_eq_true, ↓reduceIte]
    by_cases h1 : (c == ['$']) = true
    · simp only [h1, ↓reduceIte]; rfl
    simp only [h1, Bool.false_eq_true, ↓reduceIte]
    by_cases h2 : (c == ['{']) = true
    · simp only [h2, ↓reduceIte, braced]
      rw [← nameMatch_pair s ((i : Int) + 2) (i + 2) (by omega)]
      cases Py.reMatchAt Gen.nameRx s ((i : Int) + 2) with
      | none => rfl
      | some m =>
        simp only [Option.map_some, eb, es]
        split <;> rfl
    simp only [h2, Bool.false_eq_true, ↓reduceIte]
    by_cases h3 : (c == ['(']) = true
    · simp only [h3, ↓reduceIte, braced]
      rw [← nameMatch_pair s ((i : Int) + 2) (i + 2) (by omega)]
      cases Py.reMatchAt Gen.nameRx s ((i : Int) + 2) with
      | none => rfl
      | some m =>
        simp only [Option.map_some, eb, es]
        split <;> rfl
    simp only [h3, Bool.false_eq_true, ↓reduceIte]
    rw [← nameMatch_pair s ((i : Int) + 1) (i + 1) (by omega)]
    cases Py.reMatchAt Gen.nameRx s ((i : Int) + 1) with
    | none => rfl
    | some m => simp only [Option.map_some, es0]; rfl
  · simp only [hd, Bool.false_eq_true, ↓reduceIte]
    rfl

/-! ## `substitute` -/

/-- a name matched by `_name_match` is never empty (so the code's `if name:` is always taken after a reference) -/
theorem nameMatchAt_nonempty (s : Str) (pos : Nat) (g : Str) (e : Nat) (h : nameMatchAt s pos = some (g, e)) : g ≠ [] := by
  by_cases hp : pos ≤ s.length
  · have hs : s = s.take pos ++ s.drop pos := (List.take_append_drop pos s).symm
    have hl : (s.take pos).length = pos := by simp [Nat.min_eq_left hp]
    have := nameMatchAt_eq (s.take pos) (s.drop pos)
    rw [← hs, hl] at this
    rw [this] at h
    cases hd : s.drop pos with
    | nil => rw [hd] at h; simp [SubstSpec.nameSplit] at h
    | cons c t =>
      rw [hd] at h
      simp only [SubstSpec.nameSplit] at h
      split at h
      · simp at h; intro hg; rw [hg] at h; simp at h
      · simp at h
  · exfalso
    unfold nameMatchAt Rx.pyMatchAt at h
    rw [List.drop_eq_nil_of_le (by omega), nameRx_shape] at h
    simp [Rx.m] at h

theorem split_name_nonempty (t p n r : Str) (vt : VT) (h : Subst.split t = .ok (p, some (n, vt), r)) : n ≠ [] := by
  unfold Subst.split at h
  split at h
  · dsimp only at h
    split at h
    · simp at h
    split at h
    · simp at h
    split at h
    · unfold braced at h
      split at h
      · simp at h
      · next name mend hm =>
        dsimp only at h
        split at h
        · simp at h; rw [← h.2.1.1]; exact nameMatchAt_nonempty _ _ _ _ hm
        · simp at h
    split at h
    · unfold braced at h
      split at h
      · simp at h
      · next name mend hm =>
        dsimp only at h
        split at h
        · simp at h; rw [← h.2.1.1]; exact nameMatchAt_nonempty _ _ _ _ hm
        · simp at h
    · split at h
      · simp at h
      · next name mend hm =>
        simp at h; rw [← h.2.1.1]; exact nameMatchAt_nonempty _ _ _ _ hm
  · simp at h

theorem substLoop_nil (defs env : Str → Option Str) (src : Str) (fuel : Nat) (acc : Str) :
    substLoop defs env src fuel [] acc = .ok acc := by
  cases fuel <;> simp [substLoop]

theorem lower_ne_nil (n : Str) (h : n ≠ []) : lower n ≠ [] := by
  cases n with
  | nil => exact absurd rfl h
  | cons c t => simp [lower]

theorem code_substLoop_eq (defs env : Str → Option Str) (src : Str) :
    ∀ (fuel : Nat) (rest acc : Str),
      substitute_loop env src defs fuel (some rest) acc = embedS (substLoop defs env src fuel rest acc) := by
  intro fuel
  induction fuel with
  | zero => intro rest acc; simp [substitute_loop, substLoop]
  | succ fuel ih =>
    intro rest acc
    rw [substitute_loop, substLoop]
    by_cases hr : rest = []
    · simp [hr]
    have hr1 : (rest != []) = true := by simpa using hr
    have hr2 : (rest == []) = false := by simpa using hr
    simp only [hr1, hr2, ↓reduceIte, Bool.false_eq_true, code_split_eq]
    cases hs : Subst.split rest with
    | error e => rfl
    | ok v =>
      obtain ⟨p, o, r⟩ := v
      cases o with
      | none =>
        simp only [embedSplit]
        by_cases hd : rest.contains '$' = true
        · simp only [hd, ↓reduceIte]; exact ih r (acc ++ p)
        · simp only [hd, Bool.false_eq_true, ↓reduceIte]
          have : r = [] := by
            unfold Subst.split at hs; simp only [hd, Bool.false_eq_true, ↓reduceIte] at hs
            simp at hs; exact hs.2
          subst this
          rw [substLoop_nil]
          cases fuel <;> simp [substitute_loop]
      | some nv =>
        obtain ⟨n, vt⟩ := nv
        have hn : (lower n != []) = true := by
          simpa using lower_ne_nil n (split_name_nonempty _ _ _ _ _ hs)
        simp only [embedSplit, hn, ↓reduceIte]
        cases vt with
        | define =>
          simp only [vtStr]
          cases hv : defs (lower n) with
          | none => simp [embedSErr]
          | some v => simp; exact ih r (acc ++ (p ++ v))
        | env =>
          simp only [vtStr]
          cases hv : env n with
          | none => simp [hv, embedSErr]
          | some v => simp [hv]; exact ih r (acc ++ (p ++ v))

/-- `substitute(s, mapping)` with `mapping.get` = `defs` and `os.getenv` = `env` -/
theorem code_substitute_eq (defs env : Str → Option Str) (s : Str) :
    Gen.Code.substitute env s defs = embedS (Subst.substitute defs env s) := by
  unfold Gen.Code.substitute Subst.substitute
  split
  · exact code_substLoop_eq defs env s _ s []
  · rfl

end ZCV.CodeEq
