import ZCV.Lemmas.Handlers
/-!
C16, spec side: facts about `ownHandlers` / `handlersOf` / `docHandlers` that do not mention the loader —
the entries' values are the attribute values of the section value `denote` builds, and their number is the number
of handler-bearing schema items instantiated.
-/
namespace ZCV.Conf
open ZCV ZCV.Cfg

/-! ### `omap` returning `some` -/

theorem omap_cons_some {α β} (F : α → Option β) (a : α) (l : List α) (r : List β) (h : omap F (a :: l) = some r) :
    ∃ b bs, F a = some b ∧ omap F l = some bs ∧ r = b :: bs := by
  rw [omap] at h
  cases hfa : F a with
  | none => rw [hfa] at h; cases h
  | some b =>
    rw [hfa] at h
    simp only at h
    cases hl : omap F l with
    | none => rw [hl] at h; cases h
    | some bs =>
      rw [hl] at h
      simp only [Option.some.injEq] at h
      exact ⟨b, bs, rfl, rfl, h.symm⟩

section generic
variable {α : Type} (f : α → Option Val) (g : α → Str) (hd : α → Option Str)

/-- the entries, from per-child values -/
def entriesOf (l : List α) : List (Str × Val) :=
  l.filterMap fun c =>
    match hd c, f c with
    | some h, some v => some (h, v)
    | _, _ => none

theorem omap_attrs_keys : ∀ (l : List α) (r : List (Str × Val)),
    omap (fun c => (f c).map fun v => (g c, v)) l = some r → r.map (·.1) = l.map g := by
  intro l
  induction l with
  | nil => intro r h; rw [omap] at h; cases h; rfl
  | cons a l ih =>
    intro r h
    obtain ⟨b, bs, h1, h2, h3⟩ := omap_cons_some _ a l r h
    subst h3
    cases hfa : f a with
    | none => rw [hfa] at h1; cases h1
    | some v =>
      rw [hfa] at h1
      simp only [Option.map_some, Option.some.injEq] at h1
      subst h1
      rw [List.map_cons, List.map_cons, ih bs h2]

theorem omap_entries_zip : ∀ (l : List α) (r : List (Str × Val)),
    omap (fun c => (f c).map fun v => (g c, v)) l = some r →
    entriesOf f hd l = (l.zip r).filterMap fun ca => (hd ca.1).map fun h => (h, ca.2.2) := by
  intro l
  induction l with
  | nil => intro r h; rw [omap] at h; cases h; rfl
  | cons a l ih =>
    intro r h
    obtain ⟨b, bs, h1, h2, h3⟩ := omap_cons_some _ a l r h
    subst h3
    cases hfa : f a with
    | none => rw [hfa] at h1; cases h1
    | some v =>
      rw [hfa] at h1
      simp only [Option.map_some, Option.some.injEq] at h1
      subst h1
      unfold entriesOf at ih ⊢
      rw [List.zip_cons_cons, List.filterMap_cons, List.filterMap_cons, ih bs h2, hfa]
      cases hd a <;> rfl

theorem omap_entries_length : ∀ (l : List α) (r : List (Str × Val)),
    omap (fun c => (f c).map fun v => (g c, v)) l = some r →
    (entriesOf f hd l).length = (l.filter fun c => (hd c).isSome).length := by
  intro l
  induction l with
  | nil => intro r _; rfl
  | cons a l ih =>
    intro r h
    obtain ⟨b, bs, h1, h2, h3⟩ := omap_cons_some _ a l r h
    cases hfa : f a with
    | none => rw [hfa] at h1; cases h1
    | some v =>
      unfold entriesOf at ih ⊢
      rw [List.filterMap_cons, List.filter_cons, hfa]
      cases hd a with
      | none => exact ih bs h2
      | some x =>
        simp only [Option.isSome_some, if_true, List.length_cons]
        rw [ih bs h2]

theorem omap_lookup : ∀ (l : List α) (r : List (Str × Val)),
    omap (fun c => (f c).map fun v => (g c, v)) l = some r → (l.map g).Nodup →
    ∀ c ∈ l, r.lookup (g c) = f c := by
  intro l
  induction l with
  | nil => intro r _ _ c hc; cases hc
  | cons a l ih =>
    intro r h hn c hc
    obtain ⟨b, bs, h1, h2, h3⟩ := omap_cons_some _ a l r h
    subst h3
    simp only [List.map_cons, List.nodup_cons] at hn
    cases hfa : f a with
    | none => rw [hfa] at h1; cases h1
    | some v =>
      rw [hfa] at h1
      simp only [Option.map_some, Option.some.injEq] at h1
      subst h1
      rcases List.mem_cons.mp hc with rfl | hc'
      · rw [List.lookup_cons, beq_self_eq_true, hfa]
      · have hne : (g c == g a) = false := by
          rw [beq_eq_false_iff_ne]
          intro he
          apply hn.1
          rw [← he]
          exact List.mem_map_of_mem hc'
        rw [List.lookup_cons, hne]
        exact ih bs h2 hn.2 c hc'

end generic

/-! ### a conforming container -/

theorem containerVal_some_inv (conv : Conv) (s : Schema) (t : SType) (nm : Option Str) (items : List Item)
    (sv : List (Option Val)) (v : Val) (h : containerVal conv s t nm items sv = some v) :
    ∃ attrs, v = Val.sect (t.name.getD []) nm attrs ∧
      omap (fun c => (childVal conv s t (keyLines conv t items) (subsOf items sv) c).map fun v => (c.2.attr, v))
        t.children = some attrs ∧
      (subsOf items sv).all (fun sb => sb.val.isSome) = true := by
  rw [containerVal_eq] at h
  by_cases h1 : chk1 t (keyLines conv t items) = true
  · by_cases h2 : nodupB (subNames (subsOf items sv)) = true
    · by_cases h3 : chk3 s t (subsOf items sv) = true
      · simp only [h1, h2, h3, Bool.not_true, Bool.false_eq_true, if_false] at h
        rw [Option.map_eq_some_iff] at h
        obtain ⟨attrs, ha, hv⟩ := h
        unfold attrsVal at ha
        rw [mapM_eq_omap] at ha
        exact ⟨attrs, hv.symm, ha, ((chk3_iff _ _ _).mp h3).2⟩
      · simp [h1, h2, h3] at h
    · simp [h1, h2] at h
  · simp [h1] at h

theorem ownHandlers_entries (conv : Conv) (s : Schema) (t : SType) (items : List Item) :
    ownHandlers conv s t items =
      entriesOf (childVal conv s t (keyLines conv t items) (subsOf items (itemVals conv s items))) (fun c => c.2.handler)
        t.children := rfl

/-- **the entries of a conforming section are read off its value**: position by position, the handler-bearing
    children of the type in schema order, each with the value stored at the same position of the section value
    (whose attribute names are the children's, in schema order) -/
theorem ownHandlers_of_value (conv : Conv) (s : Schema) (t : SType) (nm : Option Str) (items : List Item) (v : Val)
    (h : containerVal conv s t nm items (itemVals conv s items) = some v) :
    ∃ attrs, v = Val.sect (t.name.getD []) nm attrs ∧ attrs.map (·.1) = t.children.map (·.2.attr) ∧
      ownHandlers conv s t items =
        (t.children.zip attrs).filterMap fun ca => ca.1.2.handler.map fun h => (h, ca.2.2) := by
  obtain ⟨attrs, hv, ha, _⟩ := containerVal_some_inv conv s t nm items _ v h
  refine ⟨attrs, hv, omap_attrs_keys _ _ _ _ ha, ?_⟩
  rw [ownHandlers_entries]
  exact omap_entries_zip _ _ _ _ _ ha

/-- the same by attribute NAME (a well-formed type has distinct attribute names): the entry of a handler-bearing
    child holds the value found under the child's attribute in the section value -/
theorem ownHandlers_lookup (conv : Conv) (s : Schema) (t : SType) (hT : STypeOK s t) (nm : Option Str)
    (items : List Item) (v : Val) (h : containerVal conv s t nm items (itemVals conv s items) = some v) :
    ∃ attrs, v = Val.sect (t.name.getD []) nm attrs ∧
      ownHandlers conv s t items =
        t.children.filterMap fun c => c.2.handler.bind fun h => (attrs.lookup c.2.attr).map fun x => (h, x) := by
  obtain ⟨attrs, hv, ha, _⟩ := containerVal_some_inv conv s t nm items _ v h
  refine ⟨attrs, hv, ?_⟩
  rw [ownHandlers_entries]
  unfold entriesOf
  apply filterMap_congr'
  intro c hc
  rw [omap_lookup _ _ _ _ ha hT.attrs c hc]
  simp only
  cases c.2.handler with
  | none => rfl
  | some x => cases childVal conv s t (keyLines conv t items) (subsOf items (itemVals conv s items)) c <;> rfl

/-- a conforming section has one own entry per handler-bearing child of its type -/
theorem ownHandlers_length (conv : Conv) (s : Schema) (t : SType) (nm : Option Str) (items : List Item) (v : Val)
    (h : containerVal conv s t nm items (itemVals conv s items) = some v) :
    (ownHandlers conv s t items).length = nOwn t := by
  obtain ⟨attrs, _, ha, _⟩ := containerVal_some_inv conv s t nm items _ v h
  rw [ownHandlers_entries]
  exact omap_entries_length _ _ _ _ _ ha

/-! ### counting -/

mutual
theorem handlersOfItem_length (conv : Conv) (s : Schema) :
    ∀ (i : Item), (itemVal conv s i).isSome = true → (handlersOfItem conv s i).length = nHandledItem s i
  | .kv _ _ _, _ => by rw [handlersOfItem, nHandledItem]; rfl
  | .sect ty nm items, h => by
    rw [handlersOfItem, nHandledItem]
    rw [itemVal] at h
    cases hg : s.gettype ty with
    | none => rfl
    | some te =>
      cases te with
      | abstract_ n subs => rfl
      | concrete t =>
        rw [hg] at h
        simp only at h ⊢
        cases hc : containerVal conv s t nm items (itemVals conv s items) with
        | none => rw [hc] at h; cases h
        | some v =>
          obtain ⟨_, _, _, hall⟩ := containerVal_some_inv conv s t nm items _ v hc
          rw [List.length_append, handlersOfItems_length conv s items hall, ownHandlers_length conv s t nm items v hc]
theorem handlersOfItems_length (conv : Conv) (s : Schema) :
    ∀ (l : List Item), (subsI conv s l).all (fun sb => sb.val.isSome) = true →
      (handlersOfItems conv s l).length = nHandledItems s l
  | [], _ => by rw [handlersOfItems, nHandledItems]; rfl
  | .kv k v p :: r, h => by
    rw [subsI_kv] at h
    rw [handlersOfItems, nHandledItems, handlersOfItem, nHandledItem, List.nil_append, Nat.zero_add]
    exact handlersOfItems_length conv s r h
  | .sect ty nm items :: r, h => by
    rw [subsI_sect, List.all_cons, Bool.and_eq_true] at h
    rw [handlersOfItems, nHandledItems, List.length_append, handlersOfItem_length conv s (.sect ty nm items) h.1,
      handlersOfItems_length conv s r h.2]
end

/-- a conforming document has one entry per handler-bearing schema item it instantiates -/
theorem docHandlers_length (conv : Conv) (s : Schema) (items : List Item) (v : Val)
    (h : denote conv s items = some v) : (docHandlers conv s items).length = nHandled s items := by
  unfold docHandlers handlersOf nHandled
  rw [h]
  unfold denote at h
  cases hc : containerVal conv s s.top none items (itemVals conv s items) with
  | none => rw [hc] at h; cases h
  | some v0 =>
    obtain ⟨_, _, _, hall⟩ := containerVal_some_inv conv s s.top none items _ v0 hc
    rw [List.length_append, List.length_append, handlersOfItems_length conv s items hall,
      ownHandlers_length conv s s.top none items v0 hc]
    cases s.handler <;> rfl

end ZCV.Conf
