import ZCV.Lemmas.ElabExpandSim
/-!
C11 (`extends` = written-out expansion), step 4: the children of `<key>`, `<multikey>`, `<section>`, `<multisection>`
are character-data elements that only act on the frame on top of the stack, whatever the rest of the state.
-/
namespace ZCV.Elab
open ZCV ZCV.Cfg

/-- frames that character data acts on without looking at the schema state -/
def Frame.isLocal : Frame → Bool
  | .key _ => true
  | .sect _ _ => true
  | _ => false

/-- what a character-data element does to a key / section frame -/
def localStep (isC : Bool) (tag : Str) (attrs : Attrs) (data : Str) : Frame → EM Frame
  | .key k =>
    if tag == "default".toList then
      if k.minOccurs != 0 then serr "required key cannot have default values"
      else (addDefault k data (attr attrs "key")).map Frame.key
    else if tag == "description".toList then
      if k.hasDesc && !isC then serr "at most one <description> may be used for each element"
      else .ok (.key { k with hasDesc := true })
    else if tag == "example".toList then
      if k.hasEx then serr "at most one <example> may be used for each element" else .ok (.key { k with hasEx := true })
    else if tag == "metadefault".toList then .ok (.key k)
    else .error (.internal "AttributeError")
  | .sect d e =>
    if tag == "default".toList then .error (.internal "AttributeError")
    else if tag == "description".toList then
      if d && !isC then serr "at most one <description> may be used for each element" else .ok (.sect true e)
    else if tag == "example".toList then
      if e then serr "at most one <example> may be used for each element" else .ok (.sect d true)
    else if tag == "metadefault".toList then .ok (.sect d e)
    else .error (.internal "AttributeError")
  | f => .ok f

theorem charactersTag_eq_local {isC : Bool} {tag : Str} {attrs : Attrs} {data : Str} {st : PSt} {f : Frame}
    {rest : List Frame} (hs : st.stack = f :: rest) (hf : f.isLocal = true) :
    charactersTag isC tag attrs data st =
      (localStep isC tag attrs data f).map (fun f' => { st with stack := f' :: rest }) := by
  unfold charactersTag localStep markDesc markExample
  rw [hs]
  cases f with
  | key k =>
    dsimp only
    by_cases h1 : (tag == "default".toList) = true
    · simp only [h1, ↓reduceIte]
      by_cases hm : (k.minOccurs != 0) = true
      · simp only [hm, ↓reduceIte]; rfl
      · simp only [hm, Bool.false_eq_true, ↓reduceIte]
        cases addDefault k data (attr attrs "key") <;> rfl
    · simp only [h1, Bool.false_eq_true, ↓reduceIte]
      by_cases h2 : (tag == "description".toList) = true
      · simp only [h2, ↓reduceIte]
        by_cases hd : (k.hasDesc && !isC) = true
        · simp only [hd, ↓reduceIte]; rfl
        · simp only [hd, Bool.false_eq_true, ↓reduceIte]; rfl
      · simp only [h2, Bool.false_eq_true, ↓reduceIte]
        by_cases h3 : (tag == "example".toList) = true
        · simp only [h3, ↓reduceIte]
          by_cases hd : k.hasEx = true
          · simp only [hd, ↓reduceIte]; rfl
          · simp only [hd, Bool.false_eq_true, ↓reduceIte]; rfl
        · simp only [h3, Bool.false_eq_true, ↓reduceIte]
          by_cases h4 : (tag == "metadefault".toList) = true
          · simp only [h4, ↓reduceIte]
            show Except.ok st = Except.ok { st with stack := Frame.key k :: rest }
            rw [← hs]
          · simp only [h4, Bool.false_eq_true, ↓reduceIte]; rfl
  | sect d e =>
    dsimp only
    by_cases h1 : (tag == "default".toList) = true
    · simp only [h1, ↓reduceIte]; rfl
    · simp only [h1, Bool.false_eq_true, ↓reduceIte]
      by_cases h2 : (tag == "description".toList) = true
      · simp only [h2, ↓reduceIte]
        by_cases hd : (d && !isC) = true
        · simp only [hd, ↓reduceIte]; rfl
        · simp only [hd, Bool.false_eq_true, ↓reduceIte]; rfl
      · simp only [h2, Bool.false_eq_true, ↓reduceIte]
        by_cases h3 : (tag == "example".toList) = true
        · simp only [h3, ↓reduceIte]
          by_cases hd : e = true
          · simp only [hd, ↓reduceIte]; rfl
          · simp only [hd, Bool.false_eq_true, ↓reduceIte]; rfl
        · simp only [h3, Bool.false_eq_true, ↓reduceIte]
          by_cases h4 : (tag == "metadefault".toList) = true
          · simp only [h4, ↓reduceIte]
            show Except.ok st = Except.ok { st with stack := Frame.sect d e :: rest }
            rw [← hs]
          · simp only [h4, Bool.false_eq_true, ↓reduceIte]; rfl
  | schema => cases hf
  | stype n => cases hf
  | atype n => cases hf

theorem localStep_isLocal {isC : Bool} {tag : Str} {attrs : Attrs} {data : Str} {f f' : Frame} (hf : f.isLocal = true)
    (h : localStep isC tag attrs data f = .ok f') : f'.isLocal = true := by
  unfold localStep at h
  cases f with
  | key k =>
    dsimp only at h
    (repeat' split at h) <;> first | (cases h; done) | (injection h with h; subst h; rfl) | skip
    cases hd : addDefault k data (attr attrs "key") with
    | error e => simp [hd, Except.map] at h
    | ok k1 => simp only [hd, Except.map, Except.ok.injEq] at h; subst h; rfl
  | sect d e =>
    dsimp only at h
    (repeat' split at h) <;> first | (cases h; done) | (injection h with h; subst h; rfl)
  | schema => cases hf
  | stype n => cases hf
  | atype n => cases hf

set_option linter.unusedSimpArgs false in
theorem cdata_of_compat {pk : PK} {ck : CK} {t : Str} (hpk : pk = .key ∨ pk = .sect) (hc : compat pk ck = true)
    (ht : (t, ck) ∈ ckTable) (d : DocKind) :
    Gen.cdataTags.contains t = true ∧ t ≠ d.topLevel ∧ d.handled.contains t = false := by
  simp only [ckTable, List.mem_cons, Prod.mk.injEq, List.not_mem_nil, or_false] at ht
  rcases hpk with rfl | rfl <;>
  rcases ht with ⟨rfl, rfl⟩ | ⟨rfl, rfl⟩ | ⟨rfl, rfl⟩ | ⟨rfl, rfl⟩ | ⟨rfl, rfl⟩ | ⟨rfl, rfl⟩ | ⟨rfl, rfl⟩ | ⟨rfl, rfl⟩ |
      ⟨rfl, rfl⟩ | ⟨rfl, rfl⟩ | ⟨rfl, rfl⟩ <;>
  first
    | (simp [compat, CK.container, CK.decl] at hc; done)
    | (refine ⟨by decide, ?_, ?_⟩ <;> cases d <;> simp only [DocKind.topLevel, DocKind.handled] <;> decide)

/-- the children of `<key>` / `<multikey>` / `<section>` / `<multisection>` act on the frame on top of the stack only,
    and in the same way whatever the rest of the state -/
theorem localChildren {env : Env} {h : Hooks} {d : DocKind} {parent : Str}
    (hp : pkOfB (isComp d) parent = some .key ∨ pkOfB (isComp d) parent = some .sect) :
    ∀ (c : List Node) (st st' : PSt) (f : Frame) (rest : List Frame), st.stack = f :: rest → f.isLocal = true →
      visitChildren env h d parent st c = .ok st' →
      ∃ f', f'.isLocal = true ∧ st' = { st with stack := f' :: rest } ∧
        ∀ (sd : PSt) (rest' : List Frame), sd.stack = f :: rest' →
          visitChildren env h d parent sd c = .ok { sd with stack := f' :: rest' }
  | [], st, st', f, rest, hs, hf, hv => by
    unfold visitChildren at hv
    injection hv with hv
    subst hv
    refine ⟨f, hf, by rw [← hs], ?_⟩
    intro sd rest' hsd
    unfold visitChildren
    rw [← hsd]
  | .text s :: r, st, st', f, rest, hs, hf, hv => by
    unfold visitChildren at hv
    rcases ite_ok hv with ⟨hb, hv⟩ | ⟨_, hv⟩
    · obtain ⟨f', hf', e1, e2⟩ := localChildren hp r st st' f rest hs hf hv
      refine ⟨f', hf', e1, ?_⟩
      intro sd rest' hsd
      unfold visitChildren
      simp only [hb, ↓reduceIte]
      exact e2 sd rest' hsd
    · cases hv
  | .elem t a c0 :: r, st, st', f, rest, hs, hf, hv => by
    unfold visitChildren at hv
    cases he : visitElem env h d (some parent) st (.elem t a c0) with
    | error e => simp only [he] at hv; cases hv
    | ok st1 =>
      simp only [he] at hv
      obtain ⟨hchk, _⟩ := visitElem_cases he
      have hn := hchk parent rfl
      have hcd : Gen.cdataTags.contains t = true ∧ t ≠ d.topLevel ∧ d.handled.contains t = false := by
        rcases hp with hp | hp
        · obtain ⟨ck, hck, hcomp⟩ := nesting_compat hn hp
          exact cdata_of_compat (Or.inl rfl) hcomp (ckOf_tag hck) d
        · obtain ⟨ck, hck, hcomp⟩ := nesting_compat hn hp
          exact cdata_of_compat (Or.inr rfl) hcomp (ckOf_tag hck) d
      rw [visitElem_cdata_eq hn hcd.2.1 hcd.2.2 hcd.1, bind_ok] at he
      obtain ⟨data, hcol, hch⟩ := he
      rw [charactersTag_eq_local hs hf] at hch
      cases hl : localStep (isComp d) t a (strip data) f with
      | error e => simp [hl, Except.map] at hch
      | ok f1 =>
        simp only [hl, Except.map, Except.ok.injEq] at hch
        have hf1 := localStep_isLocal hf hl
        subst hch
        obtain ⟨f', hf', e1, e2⟩ := localChildren hp r _ st' f1 rest rfl hf1 hv
        refine ⟨f', hf', e1, ?_⟩
        intro sd rest' hsd
        unfold visitChildren
        rw [visitElem_cdata_eq hn hcd.2.1 hcd.2.2 hcd.1, hcol]
        simp only [bind, Except.bind]
        rw [charactersTag_eq_local hsd hf, hl]
        simp only [Except.map]
        exact e2 _ rest' rfl

end ZCV.Elab
