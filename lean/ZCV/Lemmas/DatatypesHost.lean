import ZCV.Model.Host
import ZCV.Lemmas.Datatypes2Total
import ZCV.Lemmas.Timedelta
/-!
Lemmas on the host-parameterised stock datatypes (`ZCV/Model/Host.lean`): `posixpath.dirname` characterised, the four
`existing-*` functions and `check_locale` as iff-statements over the host's answers, `MemoizedConversion` transparent
for every call sequence, and totality of the complete 26-name table `stockValH`.
-/
namespace ZCV.DT
open ZCV ZCV.Cfg

/-! ## `posixpath.dirname` -/

theorem dh_dropWhile_append_all {α} (p : α → Bool) (l r : List α) (h : ∀ x ∈ l, p x = true) :
    (l ++ r).dropWhile p = r.dropWhile p := by
  induction l with
  | nil => rfl
  | cons a l ih =>
    have ha : p a = true := h a (List.mem_cons_self ..)
    simp only [List.cons_append, List.dropWhile_cons, ha, if_true]
    exact ih (fun x hx => h x (List.mem_cons_of_mem _ hx))

theorem dh_dropWhile_all {α} (p : α → Bool) (l : List α) (h : ∀ x ∈ l, p x = true) : l.dropWhile p = [] := by
  have := dh_dropWhile_append_all p l [] h
  simpa using this

/-- a text without a slash has no head -/
theorem dh_upto_noslash (p : Str) (h : '/' ∉ p) : uptoLastSlash p = [] := by
  unfold uptoLastSlash
  rw [dh_dropWhile_all _ _ (fun x hx => ?_)]
  · rfl
  · have : x ≠ '/' := fun e => h (e ▸ List.mem_reverse.mp hx)
    simpa using this

/-- `p[:p.rfind('/')+1]` of `d/b`, `b` without a slash, is `d/` -/
theorem dh_upto_split (d b : Str) (h : '/' ∉ b) : uptoLastSlash (d ++ '/' :: b) = d ++ ['/'] := by
  unfold uptoLastSlash
  rw [List.reverse_append, List.reverse_cons, List.append_assoc,
    dh_dropWhile_append_all _ _ _ (fun x hx => ?_)]
  · simp
  · have : x ≠ '/' := fun e => h (e ▸ List.mem_reverse.mp hx)
    simpa using this

/-- a text containing a slash splits at its LAST slash -/
theorem dh_split_last (p : Str) (h : '/' ∈ p) : ∃ d b, p = d ++ '/' :: b ∧ '/' ∉ b := by
  induction p with
  | nil => cases h
  | cons c p ih =>
    by_cases hp : '/' ∈ p
    · obtain ⟨d, b, rfl, hb⟩ := ih hp
      exact ⟨c :: d, b, rfl, hb⟩
    · have hc : c = '/' := by
        rcases List.mem_cons.mp h with e | e
        · exact e.symm
        · exact absurd e hp
      exact ⟨[], p, by rw [hc]; rfl, hp⟩

theorem dh_rstripSlash_snoc (d : Str) : rstripSlash (d ++ ['/']) = rstripSlash d := by
  unfold rstripSlash
  simp [List.reverse_append]

theorem dh_rstripSlash_allslash (d : Str) (h : d.all (· == '/') = true) : rstripSlash d = [] := by
  unfold rstripSlash
  rw [dh_dropWhile_all _ _ (fun x hx => ?_)]
  · rfl
  · exact List.all_eq_true.mp h x (List.mem_reverse.mp hx)

theorem dh_dropWhile_slash_spec (r : Str) :
    ∃ k, r = List.replicate k '/' ++ r.dropWhile (· == '/') ∧ (r.dropWhile (· == '/')).head? ≠ some '/' := by
  induction r with
  | nil => exact ⟨0, rfl, by simp⟩
  | cons c r ih =>
    by_cases hc : c = '/'
    · subst hc
      obtain ⟨k, hk, hl⟩ := ih
      refine ⟨k + 1, ?_, by simpa [List.dropWhile] using hl⟩
      simp only [List.dropWhile_cons, beq_self_eq_true, if_true, List.replicate_succ, List.cons_append]
      rw [← hk]
    · have hb : (c == '/') = false := by simpa using hc
      refine ⟨0, by simp [hb], by simp [hb, hc]⟩

/-- `rstrip('/')` removes a run of slashes at the end and nothing else -/
theorem dh_rstripSlash_spec (d : Str) :
    ∃ k, d = rstripSlash d ++ List.replicate k '/' ∧ (rstripSlash d).getLast? ≠ some '/' := by
  obtain ⟨k, hk, hl⟩ := dh_dropWhile_slash_spec d.reverse
  refine ⟨k, ?_, ?_⟩
  · have := congrArg List.reverse hk
    rw [List.reverse_reverse, List.reverse_append, List.reverse_replicate] at this
    exact this
  · unfold rstripSlash
    rw [List.getLast?_reverse]
    exact hl

theorem dh_rstripSlash_nonempty (d : Str) (h : d.all (· == '/') = false) : rstripSlash d ≠ [] := by
  intro e
  obtain ⟨k, hk, _⟩ := dh_rstripSlash_spec d
  rw [e, List.nil_append] at hk
  rw [hk] at h
  simp at h

theorem dh_replicate_ne (d : Str) :
    (d ++ ['/'] != List.replicate (d ++ ['/']).length '/') = !d.all (· == '/') := by
  cases hd : d.all (· == '/') with
  | true =>
    have : d = List.replicate d.length '/' := by
      apply List.eq_replicate_iff.mpr
      exact ⟨rfl, fun x hx => by simpa using List.all_eq_true.mp hd x hx⟩
    rw [this]
    simp [← List.replicate_succ']
  | false =>
    simp only [Bool.not_false, bne_iff_ne, ne_eq]
    intro e
    have : ∀ x ∈ d, x = '/' := fun x hx => by
      have hx' : x ∈ d ++ ['/'] := List.mem_append_left _ hx
      rw [e] at hx'
      exact (List.mem_replicate.mp hx').2
    have : d.all (· == '/') = true := List.all_eq_true.mpr (fun x hx => by simpa using this x hx)
    rw [this] at hd
    cases hd

/-- the directory portion of `d/b`: `d` without the slashes at its end — unless `d` is empty or made of slashes only
    (the root), which gives `d/` -/
def dirPortion (d : Str) : Str := if d.all (· == '/') then d ++ ['/'] else rstripSlash d

theorem dh_dirname_noslash (p : Str) (h : '/' ∉ p) : dirname p = [] := by
  simp [dirname, dh_upto_noslash p h]

/-- **`os.path.dirname` characterised**: for `d/b` with `b` free of slashes it is the directory portion of `d` -/
theorem dh_dirname_split (d b : Str) (h : '/' ∉ b) : dirname (d ++ '/' :: b) = dirPortion d := by
  unfold dirname dirPortion
  simp only [dh_upto_split d b h, dh_replicate_ne, dh_rstripSlash_snoc]
  cases hd : d.all (· == '/') <;> simp

theorem dh_dirPortion_ne_nil (d : Str) : dirPortion d ≠ [] := by
  unfold dirPortion
  cases hd : d.all (· == '/') with
  | true => simp
  | false => simpa using dh_rstripSlash_nonempty d hd

/-- `dirname` is empty exactly for a text without a slash ("relative pathname with no directory component") -/
theorem dh_dirname_eq_nil_iff (p : Str) : dirname p = [] ↔ '/' ∉ p := by
  constructor
  · intro e hp
    obtain ⟨d, b, rfl, hb⟩ := dh_split_last p hp
    rw [dh_dirname_split d b hb] at e
    exact dh_dirPortion_ne_nil d e
  · exact dh_dirname_noslash p

/-! ## the `existing-*` functions -/

/-- an outcome that is `ok v` exactly when `P v`, and otherwise a `ValueError`: its failure condition -/
theorem dh_err_iff {α} (r : R α) (P : α → Prop) (hok : ∀ v, r = .ok v ↔ P v)
    (hv : ∀ e, r = .error e → e = .valueError) (e : ConvErr) :
    r = .error e ↔ e = .valueError ∧ ¬ ∃ v, P v := by
  constructor
  · intro he
    refine ⟨hv e he, ?_⟩
    rintro ⟨v, hp⟩
    rw [(hok v).mpr hp] at he
    cases he
  · rintro ⟨rfl, hn⟩
    cases hr : r with
    | ok v => exact absurd ⟨v, (hok v).mp hr⟩ hn
    | error e' => rw [hv e' hr]

theorem dh_existingDirectory_ok (h : Host) (s r : Str) :
    existingDirectory h s = .ok r ↔ h.expanduser s = some r ∧ h.isdir r = true := by
  unfold existingDirectory
  cases he : h.expanduser s with
  | none => simp
  | some nv =>
    simp only [Option.some.injEq]
    cases hd : h.isdir nv with
    | true => simp only [if_true, Except.ok.injEq]
              constructor
              · rintro rfl; exact ⟨rfl, hd⟩
              · exact fun e => e.1
    | false => simp only [Bool.false_eq_true, if_false]
               constructor
               · intro e; cases e
               · rintro ⟨rfl, e⟩; rw [hd] at e; cases e

theorem dh_existingDirectory_only (h : Host) (s : Str) (e : ConvErr) (he : existingDirectory h s = .error e) : e = .valueError := by
  unfold existingDirectory at he
  split at he
  · cases he; rfl
  · split at he
    · cases he
    · cases he; rfl

theorem dh_existingDirectory_err (h : Host) (s : Str) (e : ConvErr) :
    existingDirectory h s = .error e ↔ e = .valueError ∧ ¬ ∃ r, h.expanduser s = some r ∧ h.isdir r = true :=
  dh_err_iff _ _ (dh_existingDirectory_ok h s) (dh_existingDirectory_only h s) e

theorem dh_existingPath_ok (h : Host) (s r : Str) :
    existingPath h s = .ok r ↔ h.expanduser s = some r ∧ h.exists_ r = true := by
  unfold existingPath
  cases he : h.expanduser s with
  | none => simp
  | some nv =>
    simp only [Option.some.injEq]
    cases hd : h.exists_ nv with
    | true => simp only [if_true, Except.ok.injEq]
              constructor
              · rintro rfl; exact ⟨rfl, hd⟩
              · exact fun e => e.1
    | false => simp only [Bool.false_eq_true, if_false]
               constructor
               · intro e; cases e
               · rintro ⟨rfl, e⟩; rw [hd] at e; cases e

theorem dh_existingPath_only (h : Host) (s : Str) (e : ConvErr) (he : existingPath h s = .error e) : e = .valueError := by
  unfold existingPath at he
  split at he
  · cases he; rfl
  · split at he
    · cases he
    · cases he; rfl

theorem dh_existingPath_err (h : Host) (s : Str) (e : ConvErr) :
    existingPath h s = .error e ↔ e = .valueError ∧ ¬ ∃ r, h.expanduser s = some r ∧ h.exists_ r = true :=
  dh_err_iff _ _ (dh_existingPath_ok h s) (dh_existingPath_only h s) e

/-- the code of `existing_file` is the code of `existing_path` -/
theorem dh_existingFile_eq_path (h : Host) (s : Str) : existingFile h s = existingPath h s := rfl

theorem dh_existingDirpath_ok (h : Host) (s r : Str) :
    existingDirpath h s = .ok r ↔ h.expanduser s = some r ∧ (dirname r = [] ∨ h.isdir (dirname r) = true) := by
  unfold existingDirpath
  cases he : h.expanduser s with
  | none => simp
  | some nv =>
    simp only [Option.some.injEq]
    cases hn : (dirname nv).isEmpty with
    | true =>
      have hn' : dirname nv = [] := List.isEmpty_iff.mp hn
      simp only [if_true, Except.ok.injEq]
      constructor
      · rintro rfl; exact ⟨rfl, Or.inl hn'⟩
      · exact fun e => e.1
    | false =>
      have hn' : dirname nv ≠ [] := fun e => by rw [e] at hn; cases hn
      cases hd : h.isdir (dirname nv) with
      | true => simp only [Bool.false_eq_true, if_false, if_true, Except.ok.injEq]
                constructor
                · rintro rfl; exact ⟨rfl, Or.inr hd⟩
                · exact fun e => e.1
      | false => simp only [Bool.false_eq_true, if_false]
                 constructor
                 · intro e; cases e
                 · rintro ⟨rfl, e | e⟩
                   · exact absurd e hn'
                   · rw [hd] at e; cases e

theorem dh_existingDirpath_only (h : Host) (s : Str) (e : ConvErr) (he : existingDirpath h s = .error e) :
    e = .valueError := by
  unfold existingDirpath at he
  split at he
  · cases he; rfl
  · simp only at he
    split at he
    · cases he
    · split at he
      · cases he
      · cases he; rfl

theorem dh_existingDirpath_err (h : Host) (s : Str) (e : ConvErr) :
    existingDirpath h s = .error e ↔
      e = .valueError ∧ ¬ ∃ r, h.expanduser s = some r ∧ (dirname r = [] ∨ h.isdir (dirname r) = true) :=
  dh_err_iff _ _ (dh_existingDirpath_ok h s) (dh_existingDirpath_only h s) e

/-! ## `check_locale` -/

theorem dh_checkLocale_ok (h : Host) (s r : Str) : checkLocale h s = .ok r ↔ r = s ∧ h.localeOk s = true := by
  unfold checkLocale
  cases hl : h.localeOk s <;> simp [eq_comm]

theorem dh_checkLocale_err (h : Host) (s : Str) (e : ConvErr) :
    checkLocale h s = .error e ↔ e = .valueError ∧ h.localeOk s = false := by
  unfold checkLocale
  cases hl : h.localeOk s <;> simp [eq_comm]

/-- when the locale in force can be set again, `check_locale` leaves the process locale as it found it and answers
    as `checkLocale` does -/
theorem dh_checkLocaleSt (h : Host) (cur s : Str) (hc : h.localeOk cur = true) :
    checkLocaleSt h cur s = (cur, checkLocale h s) := by
  unfold checkLocaleSt checkLocale setlocale
  cases hl : h.localeOk s <;> simp [hc]

/-! ## `MemoizedConversion` -/

/-- every remembered pair is a successful conversion -/
def MemoOK {α : Type} (conv : Str → R α) (memo : Memo α) : Prop := ∀ k v, (k, v) ∈ memo → conv k = .ok v

theorem dh_lookup_mem {α : Type} (memo : Memo α) (k : Str) (v : α) (h : memo.lookup k = some v) : (k, v) ∈ memo := by
  induction memo with
  | nil => cases h
  | cons p memo ih =>
    obtain ⟨k', v'⟩ := p
    rw [List.lookup_cons] at h
    cases hk : (k == k') with
    | true =>
      rw [hk] at h
      have : k = k' := by simpa using hk
      cases h
      rw [this]
      exact List.mem_cons_self ..
    | false =>
      rw [hk] at h
      exact List.mem_cons_of_mem _ (ih h)

theorem dh_memoOK_nil {α : Type} (conv : Str → R α) : MemoOK conv [] := fun _ _ h => by cases h

/-- one call: the wrapper answers what the conversion answers, and the memo stays sound -/
theorem dh_memoized_step {α : Type} (conv : Str → R α) (memo : Memo α) (s : Str) (hm : MemoOK conv memo) :
    (memoized conv memo s).2 = conv s ∧ MemoOK conv (memoized conv memo s).1 := by
  unfold memoized
  cases hl : memo.lookup s with
  | some v => exact ⟨(hm s v (dh_lookup_mem memo s v hl)).symm, hm⟩
  | none =>
    cases hc : conv s with
    | ok v =>
      refine ⟨rfl, ?_⟩
      intro k w hk
      rcases List.mem_cons.mp hk with e | e
      · cases e; exact hc
      · exact hm k w e
    | error e => exact ⟨rfl, hm⟩

/-- a failure is not remembered: the memo after a failing call is the memo before it -/
theorem dh_memoized_failure {α : Type} (conv : Str → R α) (memo : Memo α) (s : Str) (e : ConvErr)
    (hm : MemoOK conv memo) (hc : conv s = .error e) : memoized conv memo s = (memo, .error e) := by
  unfold memoized
  cases hl : memo.lookup s with
  | some v =>
    have := hm s v (dh_lookup_mem memo s v hl)
    rw [hc] at this
    cases this
  | none => simp only [hc]

/-- a success is remembered: afterwards the value is replayed without consulting the conversion — ANY conversion
    `conv'` in its place gives the same answer and leaves the memo alone -/
theorem dh_memoized_hit {α : Type} (conv conv' : Str → R α) (memo : Memo α) (s : Str) (v : α)
    (hc : (memoized conv memo s).2 = .ok v) :
    memoized conv' (memoized conv memo s).1 s = ((memoized conv memo s).1, .ok v) := by
  have key : (memoized conv memo s).1.lookup s = some v := by
    unfold memoized at hc ⊢
    cases hl : memo.lookup s with
    | some w => rw [hl] at hc; simp only at hc ⊢; cases hc; exact hl
    | none =>
      rw [hl] at hc
      cases hcs : conv s with
      | ok w => rw [hcs] at hc; simp only at hc ⊢; cases hc; simp
      | error e => rw [hcs] at hc; cases hc
  generalize (memoized conv memo s).1 = m at key ⊢
  unfold memoized
  rw [key]

theorem dh_memoRun {α : Type} (conv : Str → R α) (memo : Memo α) (calls : List Str) (hm : MemoOK conv memo) :
    (memoRun conv memo calls).2 = calls.map conv ∧ MemoOK conv (memoRun conv memo calls).1 := by
  induction calls generalizing memo with
  | nil => exact ⟨rfl, hm⟩
  | cons s rest ih =>
    obtain ⟨h1, h2⟩ := dh_memoized_step conv memo s hm
    obtain ⟨h3, h4⟩ := ih _ h2
    simp only [memoRun, List.map_cons]
    exact ⟨by rw [h1, h3], h4⟩

/-! ## the complete table -/

theorem dh_stockValH_old (h : Host) (dt : Str) (hd : dt ∈ dt2Modelled) (s : Str) : stockValH h dt s = stockVal dt s := by
  simp only [dt2Modelled, List.mem_cons, List.not_mem_nil, or_false] at hd
  rcases hd with rfl | rfl | rfl | rfl | rfl | rfl | rfl | rfl | rfl | rfl | rfl | rfl | rfl | rfl | rfl | rfl |
    rfl | rfl | rfl | rfl <;> rfl

theorem dh_stockValH_locale (h : Host) (s : Str) : stockValH h "locale".toList s = (checkLocale h s).map .str := rfl
theorem dh_stockValH_directory (h : Host) (s : Str) :
    stockValH h "existing-directory".toList s = (existingDirectory h s).map .str := rfl
theorem dh_stockValH_path (h : Host) (s : Str) :
    stockValH h "existing-path".toList s = (existingPath h s).map .str := rfl
theorem dh_stockValH_file (h : Host) (s : Str) :
    stockValH h "existing-file".toList s = (existingFile h s).map .str := rfl
theorem dh_stockValH_dirpath (h : Host) (s : Str) :
    stockValH h "existing-dirpath".toList s = (existingDirpath h s).map .str := rfl
theorem dh_stockValH_timedelta (h : Host) (s : Str) :
    stockValH h "timedelta".toList s = (timedeltaChecked h.tdFits s).map timedeltaToVal := rfl

/-- value or `ValueError` -/
theorem dh_total_of_cases {α} (r : R α) (h : ∀ e, r = .error e → e = .valueError) : dt2Total r := by
  cases r with
  | ok v => exact Or.inl ⟨v, rfl⟩
  | error e => rw [h e rfl]; exact Or.inr rfl

theorem dh_existingDirectory_total (h : Host) (s : Str) : dt2Total (existingDirectory h s) :=
  dh_total_of_cases _ fun e he => ((dh_existingDirectory_err h s e).mp he).1
theorem dh_existingPath_total (h : Host) (s : Str) : dt2Total (existingPath h s) :=
  dh_total_of_cases _ fun e he => ((dh_existingPath_err h s e).mp he).1
theorem dh_existingDirpath_total (h : Host) (s : Str) : dt2Total (existingDirpath h s) :=
  dh_total_of_cases _ fun e he => ((dh_existingDirpath_err h s e).mp he).1
theorem dh_checkLocale_total (h : Host) (s : Str) : dt2Total (checkLocale h s) :=
  dh_total_of_cases _ fun e he => ((dh_checkLocale_err h s e).mp he).1

/-- the stateful table agrees with the pure one as long as the memo is sound, and keeps it sound -/
theorem dh_stockValHS (h : Host) (memo : Memo Val) (dt s : Str)
    (hm : MemoOK (fun v => (checkLocale h v).map Val.str) memo) :
    (stockValHS h memo dt s).2 = stockValH h dt s ∧
      MemoOK (fun v => (checkLocale h v).map Val.str) (stockValHS h memo dt s).1 := by
  unfold stockValHS
  split
  · next heq =>
    have : stockValH h dt s = (checkLocale h s).map Val.str := by
      unfold stockValH
      simp only [heq]
    rw [this]
    exact dh_memoized_step _ memo s hm
  · exact ⟨rfl, hm⟩

/-- a stock name is one of the twenty of `stockVal` or one of the six host-dependent ones -/
theorem dh_stock_cases (dt : Str) (h : dt ∈ Gen.stockNames) : dt ∈ dt2Modelled ∨ dt ∈ dt2Unmodelled := by
  by_cases hn : dt ∈ dt2Unmodelled
  · exact Or.inr hn
  · exact Or.inl (dt2_modelled_of_stock dt h hn)

/-- the range check of the constructor never produces a `TypeError`: that outcome is the loop's -/
theorem dh_timedeltaChecked_typeError (fits : TimedeltaVal → Bool) (s : Str) :
    timedeltaChecked fits s = .error .typeError ↔ timedelta s = .error .typeError := by
  unfold timedeltaChecked
  cases ht : timedelta s with
  | ok v => cases hf : fits v <;> simp [hf]
  | error e => simp

theorem dh_map_ok {α β} (f : α → β) (r : R α) (w : β) : r.map f = .ok w ↔ ∃ v, r = .ok v ∧ f v = w := by
  cases r with
  | ok v => simp [Except.map]
  | error e => simp [Except.map]

theorem dh_map_err {α β} (f : α → β) (r : R α) (e : ConvErr) : r.map f = .error e ↔ r = .error e := by
  cases r with
  | ok v => simp [Except.map]
  | error e => simp [Except.map]

/-- none of the 25 names other than `timedelta` ever ends in `TypeError` -/
theorem dh_typeError_timedelta (h : Host) (dt : Str) (hd : dt ∈ Gen.stockNames) (s : Str)
    (he : stockValH h dt s = .error .typeError) : dt = "timedelta".toList := by
  have no {α} (r : R α) (ht : dt2Total r) (f : α → Val) : r.map f ≠ .error .typeError := by
    rcases ht with ⟨v, rfl⟩ | rfl <;> simp [Except.map]
  rcases dh_stock_cases dt hd with hm | hu
  · rw [dh_stockValH_old h dt hm s] at he
    rcases dt2_stockVal_total dt hm s with ⟨v, hv⟩ | hv <;> rw [hv] at he <;> cases he
  · simp only [dt2Unmodelled, List.mem_cons, List.not_mem_nil, or_false] at hu
    rcases hu with rfl | rfl | rfl | rfl | rfl | rfl
    · exact absurd he (no _ (dh_checkLocale_total h s) _)
    · exact absurd he (no _ (dh_existingDirectory_total h s) _)
    · exact absurd he (no _ (dh_existingPath_total h s) _)
    · exact absurd he (no _ (dh_existingPath_total h s) _)
    · exact absurd he (no _ (dh_existingDirpath_total h s) _)
    · rfl

/-- value, `ValueError` or `TypeError` for each of the 26 names -/
theorem dh_stockValH_total (h : Host) (dt : Str) (hd : dt ∈ Gen.stockNames) (s : Str) :
    (∃ v, stockValH h dt s = .ok v) ∨ stockValH h dt s = .error .valueError ∨
      stockValH h dt s = .error .typeError := by
  have lift {α} (r : R α) (ht : dt2Total r) (f : α → Val) :
      (∃ v, r.map f = .ok v) ∨ r.map f = .error .valueError ∨ r.map f = .error .typeError := by
    rcases ht with ⟨v, rfl⟩ | rfl
    · exact Or.inl ⟨f v, rfl⟩
    · exact Or.inr (Or.inl rfl)
  rcases dh_stock_cases dt hd with hm | hu
  · rw [dh_stockValH_old h dt hm s]
    rcases dt2_stockVal_total dt hm s with hv | hv
    · exact Or.inl hv
    · exact Or.inr (Or.inl hv)
  · simp only [dt2Unmodelled, List.mem_cons, List.not_mem_nil, or_false] at hu
    rcases hu with rfl | rfl | rfl | rfl | rfl | rfl
    · exact lift _ (dh_checkLocale_total h s) _
    · exact lift _ (dh_existingDirectory_total h s) _
    · exact lift _ (dh_existingPath_total h s) _
    · exact lift _ (dh_existingPath_total h s) _
    · exact lift _ (dh_existingDirpath_total h s) _
    · rw [dh_stockValH_timedelta]
      unfold timedeltaChecked
      cases ht : timedelta s with
      | ok v =>
        cases hf : h.tdFits v
        · exact Or.inr (Or.inl (by simp [Except.map, hf]))
        · exact Or.inl ⟨timedeltaToVal v, by simp [Except.map, hf]⟩
      | error e =>
        rcases td_isTimedelta_total s _ ((td_timedelta_spec s _).mp ht) with ⟨v, hv⟩ | hv | hv
        · cases hv
        · cases hv; exact Or.inr (Or.inl rfl)
        · cases hv; exact Or.inr (Or.inr rfl)

/-! ## a small concrete host (for the non-vacuity examples of `Props/C09.lean`)

`/`, `/srv` and `/home/u` are directories, `/srv/a.conf` is a file, `/srv/dangling` a symbolic link to nothing (it
"exists" for nobody), the home directory is `/home/u` and there is no other user; the locales `C`, `POSIX` and the
empty specifier are accepted; every timedelta fits. -/
def dhExHost : Host where
  isdir p := p == "/".toList || p == "/srv".toList || p == "/home/u".toList
  isfile p := p == "/srv/a.conf".toList
  exists_ p := p == "/".toList || p == "/srv".toList || p == "/home/u".toList || p == "/srv/a.conf".toList
  expanduser p :=
    if p == "~".toList then some "/home/u".toList
    else if startsWith p "~/".toList then some ("/home/u".toList ++ p.drop 1)
    else some p
  localeOk v := v == "C".toList || v == "POSIX".toList || v == []
  tdFits _ := true

end ZCV.DT
