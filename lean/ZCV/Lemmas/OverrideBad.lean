import ZCV.Lemmas.OverrideCor
/-!
An override with a section component (any component but the last) that the `basic-key` datatype refuses makes the load
fail, at whatever depth the component stands: the override travels down the sections its earlier components select, or
stays pending; in both cases the section holding it cannot be finished, and the first sub-section opened next to it
raises a syntax error.
-/
namespace ZCV.Conf
open ZCV ZCV.Cfg

/-- some section component of the override is not a basic key -/
def BadOv (o : OptItem) : Prop := ∃ c ∈ o.path.dropLast, ∃ e, DT.basicKey c = .error e

/-- the bag holds, pending, an override with a bad section component -/
def BadBagD (b : Bag) : Prop := ∃ o ∈ b.sectitems, BadOv o

theorem bsiStep_ok (ty : Str) (nm : Option Str) (acc acc' : List OptItem × List OptItem) (o : OptItem)
    (h : bsiStep ty nm acc o = .ok acc') :
    ∃ p0 more r0, o.path = p0 :: more ∧ DT.basicKey p0 = .ok r0 ∧
      ((acc' = (acc.1 ++ [dropHead o], acc.2)) ∨ (acc' = (acc.1, acc.2 ++ [o]))) := by
  unfold bsiStep at h
  split at h
  · cases h
  · rename_i p0 more hp
    split at h
    · cases h
    · rename_i bk hbk
      refine ⟨p0, more, bk, hp, hbk, ?_⟩
      have hd : dropHead o = { o with path := more } := by
        unfold dropHead
        rw [hp]
        rfl
      split at h
      · cases h; exact Or.inl (by rw [hd])
      · split at h
        · cases h; exact Or.inl (by rw [hd])
        · cases h; exact Or.inr rfl

theorem bsi_fold_track (ty : Str) (nm : Option Str) : ∀ (si : List OptItem) (acc lr : List OptItem × List OptItem),
    si.foldlM (bsiStep ty nm) acc = .ok lr →
      (∀ o ∈ acc.1, o ∈ lr.1) ∧ (∀ o ∈ acc.2, o ∈ lr.2) ∧
      ∀ o ∈ si, (∃ p0 more r0, o.path = p0 :: more ∧ DT.basicKey p0 = .ok r0) ∧ (o ∈ lr.2 ∨ dropHead o ∈ lr.1)
  | [], acc, lr, h => by
    cases h
    exact ⟨fun _ h => h, fun _ h => h, fun _ h => by cases h⟩
  | it :: si, acc, lr, h => by
    rw [List.foldlM_cons] at h
    cases hstep : bsiStep ty nm acc it with
    | error e => rw [hstep] at h; cases h
    | ok acc' =>
      rw [hstep] at h
      obtain ⟨p0, more, r0, hp, hbk, hacc⟩ := bsiStep_ok ty nm acc acc' it hstep
      obtain ⟨ih1, ih2, ih3⟩ := bsi_fold_track ty nm si acc' lr h
      have h1 : ∀ o ∈ acc.1, o ∈ acc'.1 := by
        rcases hacc with rfl | rfl
        · exact fun o ho => List.mem_append_left _ ho
        · exact fun o ho => ho
      have h2 : ∀ o ∈ acc.2, o ∈ acc'.2 := by
        rcases hacc with rfl | rfl
        · exact fun o ho => ho
        · exact fun o ho => List.mem_append_left _ ho
      refine ⟨fun o ho => ih1 o (h1 o ho), fun o ho => ih2 o (h2 o ho), ?_⟩
      intro o ho
      cases ho with
      | head =>
        refine ⟨⟨p0, more, r0, hp, hbk⟩, ?_⟩
        rcases hacc with rfl | rfl
        · exact Or.inr (ih1 _ (List.mem_append_right _ List.mem_cons_self))
        · exact Or.inl (ih2 _ (List.mem_append_right _ List.mem_cons_self))
      | tail _ ho => exact ih3 o ho

/-- a bad override whose first component is fine is bad below it, and still goes further down -/
theorem badOv_dropHead (o : OptItem) (p0 : Str) (more : List Str) (r0 : Str) (hp : o.path = p0 :: more)
    (hbk : DT.basicKey p0 = .ok r0) (hbad : BadOv o) : BadOv (dropHead o) ∧ 2 ≤ (dropHead o).path.length := by
  obtain ⟨c, hc, e, he⟩ := hbad
  have hd : (dropHead o).path = more := by unfold dropHead; rw [hp]; rfl
  rw [hp] at hc
  cases more with
  | nil => simp at hc
  | cons p1 more =>
    rw [List.dropLast_cons_cons, List.mem_cons] at hc
    rcases hc with rfl | hc
    · rw [hbk] at he; cases he
    · refine ⟨⟨c, by rw [hd]; exact hc, e, he⟩, ?_⟩
      rw [hd]
      cases more with
      | nil => simp at hc
      | cons p2 more => simp

theorem finishMatcher_badD (conv : Conv) (s : Schema) (m : Matcher) (b : Bag) (hb : m.bag = some b) (hbad : BadBagD b) :
    ∃ e, finishMatcher conv s m = .error e := by
  rw [finishMatcher_split, finishBag_some conv m b hb]
  cases List.foldlM (bagOuter conv) m b.keypairs with
  | error e => exact ⟨e, rfl⟩
  | ok m3 =>
    obtain ⟨o, ho, _⟩ := hbad
    cases hss : b.sectitems with
    | nil => rw [hss] at ho; cases ho
    | cons x ss => exact ⟨_, rfl⟩

theorem mkBag_keeps (conv : Conv) (t : SType) (l : List OptItem) (child : Bag) (o : OptItem) (ho : o ∈ l)
    (ho2 : 2 ≤ o.path.length) (h : mkBag conv t l = .ok child) : o ∈ child.sectitems := by
  have hmk := mkBag_spec conv t l
  cases hs : splitOvs (conv.key t.keytype) l with
  | error r =>
    rw [hs] at hmk
    obtain ⟨e, he⟩ := hmk
    rw [he] at h
    cases h
  | ok p =>
    obtain ⟨ks, ss⟩ := p
    rw [hs] at hmk
    simp only at hmk
    rw [hmk] at h
    cases h
    exact splitOvs_mem_ss (conv.key t.keytype) o ho2 l ks ss ho hs

/-- what the bag step does to a bag holding a bad override: the override stays with the parent or goes to the child -/
theorem bagStep_badD (conv : Conv) (s : Schema) (m : Matcher) (b : Bag) (hb : m.bag = some b) (hbad : BadBagD b)
    (ty : Str) (nm : Option Str) (m1 : Matcher) (cb : Option Bag) (h : bagStep conv s m ty nm = .ok (m1, cb)) :
    (∃ b', m1 = withBag m (some b') ∧ BadBagD b') ∨ (∃ child, cb = some child ∧ BadBagD child) := by
  unfold bagStep at h
  rw [hb] at h
  simp only at h
  cases hbs : bagSectionInfo conv s b ty nm with
  | error e => rw [hbs] at h; cases h
  | ok bc =>
    obtain ⟨b', cb'⟩ := bc
    rw [hbs] at h
    simp only at h
    obtain ⟨h1, h2⟩ := Prod.mk.inj (Except.ok.inj h)
    subst h1 h2
    rw [bagSectionInfo_fold] at hbs
    cases hf : b.sectitems.foldlM (bsiStep ty nm) ([], []) with
    | error e => rw [hf] at hbs; cases hbs
    | ok lr =>
      rw [hf] at hbs
      obtain ⟨_, _, htr⟩ := bsi_fold_track ty nm b.sectitems ([], []) lr hf
      obtain ⟨o, ho, hob⟩ := hbad
      obtain ⟨⟨p0, more, r0, hp, hbk⟩, hwhere⟩ := htr o ho
      change (if lr.1.isEmpty then pure (b, none) else _) = _ at hbs
      by_cases he : lr.1.isEmpty = true
      · rw [if_pos he] at hbs
        cases hbs
        rcases hwhere with hw | hw
        · exact Or.inl ⟨b, rfl, o, ho, hob⟩
        · rw [List.isEmpty_iff] at he
          rw [he] at hw
          cases hw
      · rw [if_neg he] at hbs
        cases hg : s.gettype ty with
        | none => rw [hg] at hbs; cases hbs
        | some te =>
          cases te with
          | abstract_ n subs => rw [hg] at hbs; cases hbs
          | concrete t =>
            rw [hg] at hbs
            simp only at hbs
            cases hmk : mkBag conv t lr.1 with
            | error e => rw [hmk] at hbs; cases hbs
            | ok child =>
              rw [hmk] at hbs
              cases hbs
              rcases hwhere with hw | hw
              · exact Or.inl ⟨_, rfl, o, hw, hob⟩
              · obtain ⟨hbd, hlen⟩ := badOv_dropHead o p0 more r0 hp hbk hob
                exact Or.inr ⟨child, rfl, dropHead o, mkBag_keeps conv t lr.1 child _ hw hlen hmk, hbd⟩

mutual
theorem evalItemB_badD (conv : Conv) (s : Schema) :
    ∀ (i : Item) (m m' : Matcher) (b : Bag), m.bag = some b → BadBagD b → evalItemB conv s m i = .ok m' →
      ∃ b', m'.bag = some b' ∧ BadBagD b'
  | .kv k v p, m, m', b, hb, hbad, h => by
    rw [evalItemB] at h
    unfold addValue at h
    split at h
    · cases h
    · rw [hb] at h
      simp only at h
      split at h
      · cases h; exact ⟨b, hb, hbad⟩
      · exact ⟨b, by rw [addValueCore_bag _ _ _ _ _ _ h, hb], hbad⟩
  | .sect ty nm sub, m, m', b, hb, hbad, h => by
    rw [evalItemB] at h
    split at h
    · cases h
    · rename_i t hsc
      split at h
      · cases h
      · rename_i m1 cb hbs
        split at h
        · cases h
        · rename_i child hev
          split at h
          · cases h
          · rename_i v hs hfin
            rcases bagStep_badD conv s m b hb hbad _ nm m1 cb hbs with ⟨b', rfl, hb'⟩ | ⟨cbag, rfl, hcb⟩
            · rw [addSection_withBag] at h
              cases ha : addSection s m ty nm v with
              | error e => rw [ha] at h; cases h
              | ok m2 =>
                rw [ha] at h
                cases h
                exact ⟨b', rfl, hb'⟩
            · obtain ⟨cb', hcb1, hcb2⟩ := evalItemsB_badD conv s sub (newMatcher t nm (some cbag)) child cbag rfl hcb hev
              obtain ⟨e, he⟩ := finishMatcher_badD conv s child cb' hcb1 hcb2
              rw [he] at hfin
              cases hfin
theorem evalItemsB_badD (conv : Conv) (s : Schema) :
    ∀ (l : List Item) (m m' : Matcher) (b : Bag), m.bag = some b → BadBagD b → evalItemsB conv s m l = .ok m' →
      ∃ b', m'.bag = some b' ∧ BadBagD b'
  | [], m, m', b, hb, hbad, h => by
    rw [evalItemsB] at h
    cases h
    exact ⟨b, hb, hbad⟩
  | i :: r, m, m', b, hb, hbad, h => by
    rw [evalItemsB] at h
    split at h
    · cases h
    · rename_i m1 h1
      obtain ⟨b1, hb1, hbad1⟩ := evalItemB_badD conv s i m m1 b hb hbad h1
      exact evalItemsB_badD conv s r m1 m' b1 hb1 hbad1 h
end

/-- **any depth**: an override with a section component that is not a basic key makes the load fail -/
theorem loadTreeOv_badOv (conv : Conv) (s : Schema) (items : List Item) (ovs : List OptItem) (o : OptItem)
    (ho : o ∈ ovs) (hbad : BadOv o) : ∃ e, loadTreeOv conv s items ovs = .error e := by
  cases ovs with
  | nil => cases ho
  | cons o1 ovs =>
    rw [loadTreeOv_body]
    unfold bodyOv
    show ∃ e, ((mkBag conv s.top (o1 :: ovs) >>= fun child =>
      evalItemsB conv s (withBag (newMatcher s.top none none) (some child)) items >>= finishMatcher conv s) >>=
        topPost conv s) = .error e
    cases hmk : mkBag conv s.top (o1 :: ovs) with
    | error e => exact ⟨e, rfl⟩
    | ok b =>
      have ho2 : 2 ≤ o.path.length := by
        obtain ⟨c, hc, _⟩ := hbad
        cases hp : o.path with
        | nil => rw [hp] at hc; simp at hc
        | cons p0 more =>
          cases more with
          | nil => rw [hp] at hc; simp at hc
          | cons p1 more => simp
      have hmem := mkBag_keeps conv s.top (o1 :: ovs) b o ho ho2 hmk
      have hbb : BadBagD b := ⟨o, hmem, hbad⟩
      show ∃ e, ((evalItemsB conv s (withBag (newMatcher s.top none none) (some b)) items >>= finishMatcher conv s) >>=
        topPost conv s) = .error e
      cases hev : evalItemsB conv s (withBag (newMatcher s.top none none) (some b)) items with
      | error e => exact ⟨e, rfl⟩
      | ok m2 =>
        obtain ⟨b2, hb2, hbad2⟩ := evalItemsB_badD conv s items _ m2 b rfl hbb hev
        obtain ⟨e, he⟩ := finishMatcher_badD conv s m2 b2 hb2 hbad2
        exact ⟨e, by show (finishMatcher conv s m2 >>= topPost conv s) = _; rw [he]; rfl⟩

end ZCV.Conf
