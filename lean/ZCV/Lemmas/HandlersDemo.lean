import ZCV.Lemmas.Handlers
import ZCV.Lemmas.HandlersCall
import ZCV.Lemmas.Datatypes
/-!
A concrete instance for the non-vacuity examples of C16: a schema with handlers at every level (schema, key,
multisection, key of the section type), a conforming text instantiating them, and a handler list with case-variant
handler maps.  (The loader model is defined by well-founded recursion and does not evaluate in the kernel; the examples
in `ZCV/Props/C16.lean` go through the theorems and evaluate the SPEC side.)
-/
namespace ZCV.Demo16
open ZCV ZCV.Cfg ZCV.Conf

/-- every name is its own key; every value is kept as a string; sections are kept as they are -/
def demoConv : Conv := { key := fun _ k => .ok k, val := fun _ v => .ok (.str v), sect := fun _ v => .ok v }

def demoSrv : SType :=
  { name := some ['s', 'r', 'v'], keytype := [], datatype := [],
    children := [(some ['p'], .key { name := ['p'], attr := ['p'], multi := false, minOccurs := 0, dt := [],
                                     dflt := .none, handler := some ['h', 'p'] })] }

def demoSchema : Schema :=
  { types := [(['s', 'r', 'v'], .concrete demoSrv)],
    top := { name := none, keytype := [], datatype := [],
             children := [(some ['k'], .key { name := ['k'], attr := ['k'], multi := false, minOccurs := 0, dt := [],
                                              dflt := .none, handler := some ['h', 'k'] }),
                          (none, .sect { name := ['*'], attr := ['s', 's'], multi := true, minOccurs := 0,
                                         ty := ['s', 'r', 'v'], handler := some ['h', 's'] })] },
    handler := some ['h', 'a'], components := [] }

/-- `k v`, `<srv a> p 1 </srv>`, `<srv b/>` -/
def demoItems : List Item :=
  [.kv ['k'] ['v'] { line := 1, url := none },
   .sect ['s', 'r', 'v'] (some ['a']) [.kv ['p'] ['1'] { line := 3, url := none }],
   .sect ['s', 'r', 'v'] (some ['b']) []]

/-- the demo schema is well-formed -/
theorem demo_schemaOK : schemaOK demoSchema = true := by decide
theorem demo_gettype : demoSchema.gettype ['s', 'r', 'v'] = some (.concrete demoSrv) := by rfl
/-- the demo text spells its section types as the schema stores them -/
theorem demo_tyCanon : tyCanon demoSchema demoItems = true := by
  simp [tyCanon, demoItems, demo_gettype, demoSrv]


/-- a handler list with a repeated handler name -/
def demoList : List (Str × Val) := [(['h', 'p'], .int 1), (['h', 'k'], .int 2), (['h', 'p'], .int 3)]
theorem bk1 : DT.basicKey ['H', 'p'] = .ok ['h', 'p'] := by rw [DT.basicKey_eq_spec]; rfl
theorem bk2 : DT.basicKey ['h', 'K'] = .ok ['h', 'k'] := by rw [DT.basicKey_eq_spec]; rfl
theorem bk3 : DT.basicKey ['h', 'P'] = .ok ['h', 'p'] := by rw [DT.basicKey_eq_spec]; rfl


end ZCV.Demo16
