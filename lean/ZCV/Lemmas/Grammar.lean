import ZCV.Lemmas.Regex
import ZCV.Lemmas.RegexAll
import ZCV.Lemmas.Chars
import ZCV.Model.Parser
import ZCV.Spec.Grammar
/-! The two generated cfgparser patterns and the dispatch of `parse` against `ZCV.Grammar`. -/
namespace ZCV.Cfg
open ZCV ZCV.Rx

/-- the model's classification in the spec's vocabulary -/
def toSpec : LineShape → Grammar.Shape
  | .skip => .skip
  | .open_ ty nm e => .open_ ty nm e
  | .close ty => .close ty
  | .define a => .define a
  | .import_ a => .import_ a
  | .include_ a => .include_ a
  | .kv k v => .kv k v
  | .bad _ => .bad
  | .internal _ => .bad

/-! ### the classes and the shape of the two generated terms -/

def keyCls : Cls := ⟨true, [.range 40 41, .space]⟩
def spCls : Cls := ⟨false, [.space]⟩
def nspCls : Cls := ⟨true, [.space]⟩
/-- `(?P<i>[^\s()]+)` -/
def wordGrp (i : Nat) : RE := .cap i (.seq (.cls keyCls) (.star (.cls keyCls)))
/-- `\s*(?P<value>[^\s].*)?$` -/
def kvTail : RE := .seq (.star (.cls spCls)) (.seq (.opt (.cap 2 (.seq (.cls nspCls) (.star .any)))) .eol)
/-- `(?:\s+(?P<name>[^\s()]+))?$` -/
def hdrTail : RE := .seq (.opt (.seq (.seq (.cls spCls) (.star (.cls spCls))) (wordGrp 2))) .eol

/-- the obligations an edit of the two patterns breaks -/
theorem keyvalueRx_shape : Gen.keyvalueRx = .seq (wordGrp 1) kvTail := rfl
theorem sectionStartRx_shape : Gen.sectionStartRx = .seq (wordGrp 1) hdrTail := rfl

theorem spCls_test (c : Char) : spCls.test c = pySpace c := by
  simp [spCls, Cls.test, Item.test]
theorem nspCls_test (c : Char) : nspCls.test c = !pySpace c := by
  simp [nspCls, Cls.test, Item.test]
theorem keyCls_test (c : Char) : keyCls.test c = Grammar.isWord c := by
  cases hsp : pySpace c
  · simp only [keyCls, Grammar.isWord, Cls.test, Item.test, List.any_cons, List.any_nil, hsp, cne,
      Char.reduceToNat]
    generalize c.toNat = n
    rw [Bool.eq_iff_iff]
    simp
    omega
  · simp [keyCls, Grammar.isWord, Cls.test, Item.test, hsp]

theorem pySpace_nl : pySpace '\n' = true := by decide

theorem isWord_not_space {c : Char} (h : Grammar.isWord c = true) : pySpace c = false := by
  unfold Grammar.isWord at h
  cases hsp : pySpace c <;> simp_all

theorem not_space_ne_nl {c : Char} (h : pySpace c = false) : c ≠ '\n' := by
  intro e; subst e; rw [pySpace_nl] at h; cases h

theorem eol_nonl (w f : Nat) (s : Str) (cs : Caps) (hn : '\n' ∉ s) :
    m w .eol f (s, cs) = if s = [] then [(s, cs)] else [] := by
  cases s with
  | nil => simp [m]
  | cons c t =>
    have : ¬ (c = '\n' ∧ t = []) := by
      rintro ⟨rfl, _⟩; exact hn (List.mem_cons_self)
    simp [m, this]

/-! ### `_keyvalue_rx` -/

theorem kvTail_head (w f : Nat) (r1 : Str) (cs : Caps) (hf : r1.length ≤ f) (hn : '\n' ∉ r1) :
    (m w kvTail f (r1, cs)).head? =
      some ([], if r1.dropWhile pySpace = [] then cs else (2, r1.dropWhile pySpace) :: cs) := by
  unfold kvTail
  simp only [m]
  have h1 := star_cls_head w spCls cs f r1 hf
  rw [dropWhile_congr spCls_test] at h1
  refine head_flatMap h1 ?_
  generalize hr2 : r1.dropWhile pySpace = r2
  have hlen : r2.length ≤ f := by
    rw [← hr2]; exact Nat.le_trans (length_dropWhile_le _ _) hf
  cases r2 with
  | nil => simp [m]
  | cons x xs =>
    have hx : pySpace x = false := dropWhile_head_not _ _ _ _ hr2
    have hnx : '\n' ∉ xs := by
      intro h; apply hn; apply mem_of_dropWhile (p := pySpace); rw [hr2]; exact List.mem_cons_of_mem _ h
    have hstar := star_any_head w cs f xs (by simp at hlen; omega) hnx
    simp only [m]
    refine head_flatMap (x := ([], (2, x :: xs) :: cs)) ?_ (by simp [m])
    apply head_append
    simp only [nspCls_test, hx, Bool.not_false, ↓reduceIte, List.flatMap_cons, List.flatMap_nil,
      List.append_nil, List.head?_map]
    rw [hstar]; simp

theorem kvMatch_eq_keyValue (s : Str) (hn : '\n' ∉ s) : kvMatch s = Grammar.keyValue s := by
  unfold kvMatch Grammar.keyValue pyMatch
  rw [keyvalueRx_shape, m]
  have hkey := capplus_head s.length 1 keyCls [] s.length s (Nat.le_refl _)
  unfold wordGrp
  rw [takeWhile_congr keyCls_test, dropWhile_congr keyCls_test] at hkey
  by_cases hk : s.takeWhile Grammar.isWord = []
  · rw [if_pos hk, List.head?_eq_none_iff] at hkey
    simp [hkey, hk]
  · rw [if_neg hk] at hkey
    have hn1 : '\n' ∉ s.dropWhile Grammar.isWord := fun h => hn (mem_of_dropWhile h)
    have htail := kvTail_head s.length s.length (s.dropWhile Grammar.isWord)
      [(1, s.takeWhile Grammar.isWord)] (length_dropWhile_le _ _) hn1
    rw [head_flatMap hkey htail]
    simp only [hk, ↓reduceIte, Option.map_some]
    by_cases hr : List.dropWhile pySpace (List.dropWhile Grammar.isWord s) = []
    · simp [hr, group, Gen.keyvalueRx_key, Gen.keyvalueRx_value]
    · simp [hr, group, Gen.keyvalueRx_key, Gen.keyvalueRx_value]

/-! ### `_section_start_rx` -/

theorem m_seq (w : Nat) (a b : RE) (f : Nat) (st : St) :
    m w (.seq a b) f st = (m w a f st).flatMap (m w b f) := by rw [m]
theorem m_opt (w : Nat) (a : RE) (f : Nat) (st : St) : m w (.opt a) f st = m w a f st ++ [st] := by rw [m]

theorem eol_word (w f : Nat) (c : Char) (t : Str) (cs : Caps) (hc : keyCls.test c = true) :
    m w .eol f (c :: t, cs) = [] := by
  rw [keyCls_test] at hc
  have := not_space_ne_nl (isWord_not_space hc)
  simp [m, this]

/-- `(?P<i>[^\s()]+)$` from `r` -/
theorem word_eol (w i f : Nat) (r : Str) (cs : Caps) (hf : r.length ≤ f) (hn : '\n' ∉ r) :
    (m w (wordGrp i) f (r, cs)).flatMap (m w .eol f) =
      if r.takeWhile Grammar.isWord = [] then []
      else if r.dropWhile Grammar.isWord = [] then [([], (i, r.takeWhile Grammar.isWord) :: cs)]
      else [] := by
  unfold wordGrp
  rw [capplus_flatMap w i keyCls cs f r hf (m w .eol f) (fun c t cs' hc _ => eol_word w f c t cs' hc),
    takeWhile_congr keyCls_test, dropWhile_congr keyCls_test,
    eol_nonl _ _ _ _ (fun h => hn (mem_of_dropWhile h))]
  by_cases h1 : r.takeWhile Grammar.isWord = []
  · simp [h1]
  · by_cases h2 : r.dropWhile Grammar.isWord = []
    · simp [h1, h2]
    · simp [h1, h2]

/-- everything `(?:\s+(?P<name>[^\s()]+))?$` can do from `r` -/
theorem hdrTail_all (w f : Nat) (r : Str) (cs : Caps) (hf : r.length ≤ f) (hn : '\n' ∉ r) :
    m w hdrTail f (r, cs) =
      if r = [] then [([], cs)]
      else if r.takeWhile pySpace = [] then []
      else
        let r2 := r.dropWhile pySpace
        if r2.takeWhile Grammar.isWord = [] then []
        else if r2.dropWhile Grammar.isWord = [] then [([], (2, r2.takeWhile Grammar.isWord) :: cs)]
        else [] := by
  cases r with
  | nil => simp [hdrTail, m]
  | cons x xs =>
    have hE : m w .eol f (x :: xs, cs) = [] := by rw [eol_nonl _ _ _ _ hn]; simp
    have hg : ∀ c t, spCls.test c = true → (c :: t).length ≤ (x :: xs).length →
        (fun st => (m w (wordGrp 2) f st).flatMap (m w .eol f)) (c :: t, cs) = [] := by
      intro c t hc hl
      have hcw : keyCls.test c = false := by
        rw [spCls_test] at hc
        rw [keyCls_test]; unfold Grammar.isWord; simp [hc]
      show (m w (wordGrp 2) f (c :: t, cs)).flatMap (m w .eol f) = []
      unfold wordGrp
      rw [capplus_flatMap w 2 keyCls cs f (c :: t) (Nat.le_trans hl hf) (m w .eol f)
        (fun c t cs' hc _ => eol_word w f c t cs' hc)]
      simp [hcw]
    have hA : (m w (.seq (.seq (.cls spCls) (.star (.cls spCls))) (wordGrp 2)) f (x :: xs, cs)).flatMap
        (m w .eol f) =
        if (x :: xs).takeWhile pySpace = [] then []
        else
          let r2 := (x :: xs).dropWhile pySpace
          if r2.takeWhile Grammar.isWord = [] then []
          else if r2.dropWhile Grammar.isWord = [] then [([], (2, r2.takeWhile Grammar.isWord) :: cs)]
          else [] := by
      rw [m_seq, List.flatMap_assoc, plus_flatMap w spCls cs f (x :: xs) hf _ hg,
        takeWhile_congr spCls_test, dropWhile_congr spCls_test]
      by_cases hs : (x :: xs).takeWhile pySpace = []
      · rw [if_pos hs, if_pos hs]
      · rw [if_neg hs, if_neg hs]
        exact word_eol w 2 f _ cs (Nat.le_trans (length_dropWhile_le _ _) hf)
          (fun h => hn (mem_of_dropWhile h))
    unfold hdrTail
    rw [m_seq, m_opt, List.flatMap_append, hA]
    simp [hE]

theorem hdrTail_word (w f : Nat) (c : Char) (t : Str) (cs : Caps) (hc : keyCls.test c = true) :
    m w hdrTail f (c :: t, cs) = [] := by
  have hE := eol_word w f c t cs hc
  rw [keyCls_test] at hc
  have hsp := isWord_not_space hc
  unfold hdrTail
  rw [m_seq, m_opt, List.flatMap_append]
  simp [m, spCls_test, hsp, hE]

theorem hdrMatch_eq_header (s : Str) (hn : '\n' ∉ s) : hdrMatch s = Grammar.header s := by
  unfold hdrMatch Grammar.header pyMatch
  rw [sectionStartRx_shape, m_seq]
  unfold wordGrp
  rw [capplus_flatMap s.length 1 keyCls [] s.length s (Nat.le_refl _) (m s.length hdrTail s.length)
    (fun c t cs' hc _ => hdrTail_word _ _ c t cs' hc),
    takeWhile_congr keyCls_test, dropWhile_congr keyCls_test]
  by_cases hk : s.takeWhile Grammar.isWord = []
  · simp [hk]
  · rw [if_neg hk, hdrTail_all _ _ _ _ (length_dropWhile_le _ _) (fun h => hn (mem_of_dropWhile h))]
    simp only [hk, ↓reduceIte]
    generalize s.dropWhile Grammar.isWord = r
    generalize s.takeWhile Grammar.isWord = ty
    by_cases hr : r = []
    · simp [hr, group, Gen.sectionStartRx_type, Gen.sectionStartRx_name]
    · simp only [hr, ↓reduceIte]
      have hlen := len_take_drop pySpace r
      by_cases hs : r.takeWhile pySpace = []
      · have : (r.dropWhile pySpace).length = r.length := by
          rw [hs] at hlen; simpa using hlen
        simp [hs, this]
      · have : (r.dropWhile pySpace).length ≠ r.length := by
          have : (r.takeWhile pySpace).length ≠ 0 := by simpa using hs
          omega
        simp only [hs, this, ↓reduceIte]
        generalize r.dropWhile pySpace = r2
        by_cases h1 : r2.takeWhile Grammar.isWord = []
        · simp [h1]
        · by_cases h2 : r2.dropWhile Grammar.isWord = []
          · simp [h1, h2, group, Gen.sectionStartRx_type, Gen.sectionStartRx_name]
          · simp [h1, h2]

/-! ### the dispatch of `parse` -/

theorem mem_rstrip {a : Char} {s : Str} (h : a ∈ rstrip s) : a ∈ s := by
  unfold rstrip at h
  rw [List.mem_reverse] at h
  simpa using mem_of_dropWhile h
theorem mem_strip {a : Char} {s : Str} (h : a ∈ strip s) : a ∈ s :=
  mem_of_dropWhile (mem_rstrip h)
theorem mem_dropLast {a : Char} {s : Str} (h : a ∈ Grammar.dropLast s) : a ∈ s :=
  List.mem_of_mem_take h

theorem dropLastN_one (x : Str) : dropLastN x 1 = Grammar.dropLast x := rfl

theorem lastN_one (l : Str) : lastN l 1 = l.getLast?.toList := by
  rcases List.eq_nil_or_concat l with rfl | ⟨L, b, rfl⟩
  · simp [lastN]
  · simp [lastN]

theorem lastN_one_beq (l : Str) (c : Char) : (lastN l 1 == [c]) = decide (l.getLast? = some c) := by
  rw [lastN_one, Bool.eq_iff_iff]; cases l.getLast? <;> simp

theorem lastN_one_bne (l : Str) (c : Char) : (lastN l 1 != [c]) = !decide (l.getLast? = some c) := by
  rw [bne, lastN_one_beq]

theorem getLast_cons_ne (a c : Char) (l : Str) (h : a ≠ c) :
    ((a :: l).getLast? = some c) ↔ (l.getLast? = some c) := by
  cases l with
  | nil => simp [h]
  | cons b t => rw [List.getLast?_cons_cons]

theorem directives_eq : Gen.directives = ["define".toList, "import".toList, "include".toList] := by rfl

theorem header_nm_ne {s ty nm : Str} (h : Grammar.header s = some (ty, some nm)) : nm ≠ [] := by
  unfold Grammar.header at h
  simp only [] at h
  split at h
  · simp at h
  · split at h
    · simp at h
    · split at h
      · simp at h
      · split at h
        · simp at h
        · split at h
          · simp at h; obtain ⟨_, rfl⟩ := h; assumption
          · simp at h

theorem keyValue_arg_ne {s k a : Str} (h : Grammar.keyValue s = some (k, some a)) : a ≠ [] := by
  unfold Grammar.keyValue at h
  simp only [] at h
  split at h
  · simp at h
  · split at h
    · simp at h
    · simp at h; obtain ⟨_, rfl⟩ := h; assumption

theorem lineShape_eq_classify (line : Str) (hn : '\n' ∉ line) :
    toSpec (lineShape (strip line)) = Grammar.classify line := by
  have hl : '\n' ∉ strip line := fun h => hn (mem_strip h)
  unfold Grammar.classify
  simp only []
  generalize strip line = l at hl ⊢
  split
  · simp [lineShape, toSpec]
  · simp [lineShape, toSpec]
  · rename_i rest
    have e : (('/' :: rest).getLast? = some '>') ↔ (rest.getLast? = some '>') :=
      getLast_cons_ne _ _ _ (by decide)
    by_cases h : rest.getLast? = some '>'
    · simp [lineShape, toSpec, lastN_one_bne, e, h, dropLastN_one]
    · simp [lineShape, toSpec, lastN_one_bne, e, h]
  · rename_i rest hne
    have hr : '\n' ∉ rest := fun h => hl (List.mem_cons_of_mem _ h)
    have ht : rest.take 1 ≠ ['/'] := by
      cases rest with
      | nil => simp
      | cons d u =>
        have : d ≠ '/' := fun e => hne u (by rw [e])
        simp [this]
    have e : (('<' :: rest).getLast? = some '>') ↔ (rest.getLast? = some '>') :=
      getLast_cons_ne _ _ _ (by decide)
    by_cases h : rest.getLast? = some '>'
    · by_cases hempty : (Grammar.dropLast rest).getLast? = some '/'
      · simp [lineShape, lastN_one_bne, lastN_one_beq, e, h, dropLastN_one, ht, hempty]
        have hnt : '\n' ∉ rstrip (Grammar.dropLast (Grammar.dropLast rest)) :=
          fun h => hr (mem_dropLast (mem_dropLast (mem_rstrip h)))
        rw [hdrMatch_eq_header _ hnt]
        generalize hh : Grammar.header (rstrip (Grammar.dropLast (Grammar.dropLast rest))) = o
        cases o with
        | none => simp [toSpec]
        | some p =>
          obtain ⟨ty, nm⟩ := p
          cases nm with
          | none => simp [toSpec]
          | some n => have := header_nm_ne hh; simp [toSpec, this]
      · simp [lineShape, lastN_one_bne, lastN_one_beq, e, h, dropLastN_one, ht, hempty]
        have hnt : '\n' ∉ rstrip (Grammar.dropLast rest) :=
          fun h => hr (mem_dropLast (mem_rstrip h))
        rw [hdrMatch_eq_header _ hnt]
        generalize hh : Grammar.header (rstrip (Grammar.dropLast rest)) = o
        cases o with
        | none => simp [toSpec]
        | some p =>
          obtain ⟨ty, nm⟩ := p
          cases nm with
          | none => simp [toSpec]
          | some n => have := header_nm_ne hh; simp [toSpec, this]
    · simp [lineShape, toSpec, lastN_one_bne, e, h, ht]
  · rename_i rest
    have hr : '\n' ∉ rest := fun h => hl (List.mem_cons_of_mem _ h)
    unfold lineShape
    rw [directives_eq]
    generalize "define".toList = sd
    generalize "import".toList = si
    generalize "include".toList = sn
    simp [kvMatch_eq_keyValue rest hr]
    generalize hk : Grammar.keyValue rest = o
    cases o with
    | none => simp [toSpec]
    | some p =>
      obtain ⟨name, a⟩ := p
      cases a with
      | none =>
        by_cases h0 : ¬name = sd ∧ ¬name = si ∧ ¬name = sn
        · simp [toSpec, h0]
        · simp [toSpec, h0]
      | some arg =>
        have := keyValue_arg_ne hk
        by_cases h1 : name = sd
        · subst h1; simp [toSpec, this]
        · by_cases h2 : name = si
          · subst h2; simp [toSpec, this, h1]
          · by_cases h3 : name = sn
            · subst h3; simp [toSpec, this, h1, h2]
            · simp [toSpec, h1, h2, h3]
  · have h1 : l.take 1 ≠ [] := by
      cases l with
      | nil => simp_all
      | cons c t => simp
    have h2 : l.take 1 ≠ ['#'] := by
      cases l with
      | nil => simp
      | cons c t => rename_i h _ _ _; intro e; simp at e; exact h t (by rw [e])
    have h3 : l.take 1 ≠ ['<'] := by
      cases l with
      | nil => simp
      | cons c t => rename_i h _; intro e; simp at e; exact h t (by rw [e])
    have h4 : l.take 1 ≠ ['%'] := by
      cases l with
      | nil => simp
      | cons c t => rename_i h; intro e; simp at e; exact h t (by rw [e])
    have h5 : l.take 2 ≠ ['<', '/'] := by
      intro e
      apply h3
      have := congrArg (List.take 1) e
      simpa [List.take_take] using this
    simp [lineShape, h1, h2, h3, h4, h5, kvMatch_eq_keyValue l hl]
    generalize Grammar.keyValue l = o
    cases o with
    | none => simp [toSpec]
    | some p =>
      obtain ⟨key, v⟩ := p
      cases v <;> simp [toSpec]

end ZCV.Cfg
