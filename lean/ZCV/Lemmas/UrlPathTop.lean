import ZCV.Lemmas.UrlPathLevel
/-! The path-level statements about `pathToUrl`, `join`, `urlToPath` in terms of the specification. -/
namespace ZCV.UrlPath
open ZCV
open ZCV.UrlPathSpec (step normalize resolve isName render segments absDir relFileRef urlNeutral neutralChar)

theorem up_splitOn_mem (c : Char) (s : Str) : ∀ p ∈ splitOn c s, ∀ x ∈ p, x ∈ s := by
  induction s with
  | nil => intro p hp x hx; simp only [splitOn, List.mem_cons, List.not_mem_nil, or_false] at hp; subst hp; exact hx
  | cons a t ih =>
    by_cases ha : a = c
    · subst ha
      rw [up_splitOn_cons_sep]
      intro p hp x hx
      simp only [List.mem_cons] at hp
      rcases hp with rfl | hp
      · simp at hx
      · exact List.mem_cons_of_mem _ (ih p hp x hx)
    · obtain ⟨hd, tl, h1, h2⟩ := up_splitOn_cons_ne c a t ha
      rw [h2]
      rw [h1] at ih
      intro p hp x hx
      simp only [List.mem_cons] at hp
      rcases hp with rfl | hp
      · simp only [List.mem_cons] at hx
        rcases hx with rfl | hx
        · simp
        · exact List.mem_cons_of_mem _ (ih hd (by simp) x hx)
      · exact List.mem_cons_of_mem _ (ih p (by simp [hp]) x hx)

/-- the directory and file part of a base path -/
theorem up_pathToUrl_segments (dir file : Str) (hd : absDir dir) (hf : '/' ∉ file) :
    ∃ ds, segments dir = [] :: ds ∧ (∀ d ∈ ds, '/' ∉ d) ∧
      pathToUrl (dir ++ '/' :: file) = fileSlashes ++ joinWith '/' (([] :: ds.map quote) ++ [quote file]) := by
  have hseg : ∃ ds, splitOn '/' dir = [] :: ds := by
    rcases hd with rfl | hd
    · exact ⟨[], rfl⟩
    · cases dir with
      | nil => simp at hd
      | cons c t =>
        simp only [List.head?_cons, Option.some.injEq] at hd
        subst hd
        exact ⟨splitOn '/' t, up_splitOn_cons_sep '/' t⟩
  obtain ⟨ds, hds⟩ := hseg
  refine ⟨ds, by rw [up_segments_eq, hds], ?_, ?_⟩
  · intro d hd'
    exact up_splitOn_pieces '/' dir d (by rw [hds]; simp [hd'])
  · unfold pathToUrl
    congr 1
    have e := up_joinWith_splitOn '/' (dir ++ '/' :: file)
    rw [up_splitOn_concat '/' dir file hf, hds] at e
    rw [← e, up_quote_joinWith]
    simp [up_quote_nil]

/-- a relative reference to a file: its segments end with a name -/
theorem up_ref_decompose (ref : Str) (h : relFileRef ref) :
    ∃ rinit l, splitOn '/' ref = rinit ++ [l] ∧ isName l = true ∧ segments ref = rinit ++ [l] := by
  obtain ⟨_, l, hl, hn⟩ := h
  rw [up_segments_eq] at hl
  obtain ⟨ys, hys⟩ := List.getLast?_eq_some_iff.1 hl
  exact ⟨ys, l, hys, hn, by rw [up_segments_eq]; exact hys⟩

theorem up_map_unquote_quote (l : List Str) : (l.map quote).map unquote = l := by
  rw [List.map_map]
  have : unquote ∘ quote = id := by funext x; exact up_unquote_quote x
  rw [this, List.map_id]

/-- head of a quoted reference that does not start with a slash -/
theorem up_quote_head (ref : Str) (h : ref.head? ≠ some '/') :
    ∀ c, (quote ref).head? = some c → c0OrSpace c = false ∧ c ≠ '/' := by
  intro c hc
  have hm : c ∈ quote ref := by
    cases hq : quote ref with
    | nil => rw [hq] at hc; simp at hc
    | cons x w => rw [hq] at hc; simp only [List.head?_cons, Option.some.injEq] at hc; subst hc; simp
  refine ⟨(up_quotedChar_clean c (up_quote_chars ref c hm)).2.1, ?_⟩
  cases ref with
  | nil => simp [up_quote_nil] at hm
  | cons a t =>
    have ha : a ≠ '/' := by
      intro e; apply h; rw [e]; rfl
    rw [up_quote_cons] at hc
    have hne : quote [a] ≠ [] := by
      intro e
      have := (up_quote_eq_nil [a]).1 e
      simp at this
    cases hq : quote [a] with
    | nil => exact absurd hq hne
    | cons x w =>
      rw [hq] at hc
      simp only [List.cons_append, List.head?_cons, Option.some.injEq] at hc
      subst hc
      intro e
      exact up_quote_single_noslash a ha (by rw [hq, e]; simp)

theorem up_quote_nocolon (ref : Str) : ∀ c ∈ (quote ref).takeWhile (· != '/'), c ≠ ':' := by
  intro c hc
  exact (up_quotedChar_clean c (up_quote_chars ref c ((List.takeWhile_sublist _).subset hc))).2.2

theorem up_isName_quote (l : Str) : isName (quote l) = isName l := up_isName_map quote l (up_respects_quote l)

/-- `r` is the URL text of a relative reference to a file whose URL segments are `rinit ++ [l]` and whose path
    segments (what the segments decode to) are `pinit ++ [pl]` -/
structure RefForm (r : Str) (rinit : List Str) (l : Str) (pinit : List Str) (pl : Str) : Prop where
  text : r = joinWith '/' (rinit ++ [l])
  good : ∀ u ∈ rinit ++ [l], GoodSeg u
  name : isName l = true
  head : ∀ c, r.head? = some c → c0OrSpace c = false ∧ c ≠ '/'
  nocolon : ∀ c ∈ r.takeWhile (· != '/'), c ≠ ':'
  pinit_eq : rinit.map unquote = pinit
  pl_eq : unquote l = pl

/-- a quoted relative reference to a file -/
theorem up_refForm_quote (ref : Str) (hr : relFileRef ref) :
    ∃ rinit l, RefForm (quote ref) (rinit.map quote) (quote l) rinit l ∧ segments ref = rinit ++ [l] := by
  obtain ⟨rinit, l, hsp, hl, hseg⟩ := up_ref_decompose ref hr
  refine ⟨rinit, l, ⟨?_, ?_, ?_, up_quote_head ref hr.1, up_quote_nocolon ref, up_map_unquote_quote rinit,
    up_unquote_quote l⟩, hseg⟩
  · have e := up_joinWith_splitOn '/' ref
    rw [← e, up_quote_joinWith, hsp]
    simp
  · intro u hu
    simp only [List.mem_append, List.mem_map, List.mem_cons, List.not_mem_nil, or_false] at hu
    rcases hu with ⟨p, hp, rfl⟩ | rfl
    · exact up_goodSeg_quote p (up_splitOn_pieces '/' ref p (by rw [hsp]; simp [hp]))
    · exact up_goodSeg_quote l (up_splitOn_pieces '/' ref l (by rw [hsp]; simp))
  · rw [up_isName_quote]; exact hl

theorem up_neutral_clean (c : Char) (h : neutralChar c = true) : cleanChar c = true ∧ c ≠ '%' := by
  unfold neutralChar at h
  unfold cleanChar tabCrLf
  simp only [Bool.and_eq_true, bne_iff_ne, ne_eq] at h
  simp only [Bool.and_eq_true, bne_iff_ne, ne_eq, Bool.not_eq_true', Bool.or_eq_false_iff, beq_eq_false_iff_ne]
  exact ⟨⟨⟨h.1.1.1.1.2, h.1.1.1.2⟩, ⟨h.1.1.2, h.1.2⟩, h.2⟩, h.1.1.1.1.1⟩

/-- a relative reference to a file written with URL-neutral characters, used as it is -/
theorem up_refForm_raw (ref : Str) (hr : relFileRef ref) (hn : urlNeutral ref) :
    ∃ rinit l, RefForm ref rinit l rinit l ∧ segments ref = rinit ++ [l] := by
  obtain ⟨rinit, l, hsp, hl, hseg⟩ := up_ref_decompose ref hr
  obtain ⟨hn1, hn2, hn3⟩ := hn
  have hgood : ∀ u ∈ rinit ++ [l], GoodSeg u ∧ unquote u = u := by
    intro u hu
    have hmem : ∀ x ∈ u, x ∈ ref := up_splitOn_mem '/' ref u (by rw [hsp]; exact hu)
    have hns : '/' ∉ u := up_splitOn_pieces '/' ref u (by rw [hsp]; exact hu)
    have hp : '%' ∉ u := fun hm => (up_neutral_clean _ (hn1 _ (hmem _ hm))).2 rfl
    refine ⟨up_goodSeg_raw u ?_ hp, up_unquote_raw u hp⟩
    intro c hc
    unfold segChar
    rw [(up_neutral_clean c (hn1 c (hmem c hc))).1, Bool.true_and]
    simp only [bne_iff_ne, ne_eq]
    intro e; subst e; exact hns hc
  refine ⟨rinit, l, ⟨?_, fun u hu => (hgood u hu).1, hl, ?_, hn3, ?_, (hgood l (by simp)).2⟩, hseg⟩
  · rw [← hsp, up_joinWith_splitOn]
  · intro c hc
    refine ⟨?_, fun e => hr.1 (by rw [hc, e])⟩
    have := hn2 c hc
    unfold c0OrSpace
    simp only [decide_eq_false_iff_not]
    omega
  · conv => rhs; rw [← List.map_id rinit]
    apply List.map_congr_left
    intro u hu
    exact (hgood u (by simp [hu])).2

/-- joining for any reference in `RefForm` -/
theorem up_join_form (dir file r : Str) (rinit : List Str) (l : Str) (pinit : List Str) (pl : Str)
    (hd : absDir dir) (hf : '/' ∉ file) (hr : RefForm r rinit l pinit pl) :
    urlToPath (join (pathToUrl (dir ++ '/' :: file)) r) = render (resolve (segments dir) (pinit ++ [pl])) := by
  obtain ⟨ds, hds, hdsl, hbase⟩ := up_pathToUrl_segments dir file hd hf
  have hfq := (up_goodSeg_quote file hf).2.1
  have h0 := hr.head
  have hns := hr.nocolon
  rw [hr.text] at h0 hns
  rw [hbase, hr.text, up_join_paths (ds.map quote) (quote file) rinit l
    (by intro u hu; simp only [List.mem_map] at hu; obtain ⟨p, hp, rfl⟩ := hu; exact up_goodSeg_quote p (hdsl p hp))
    hfq hr.good hr.name h0 hns]
  rw [hds, List.map_cons, up_map_unquote_quote, List.map_append, hr.pinit_eq, List.map_cons, hr.pl_eq]
  rfl

/-- nested joining for any two references in `RefForm` -/
theorem up_join_nested_form (dir file r1 r2 : Str) (r1init : List Str) (l1 : Str) (p1init : List Str) (pl1 : Str)
    (r2init : List Str) (l2 : Str) (p2init : List Str) (pl2 : Str)
    (hd : absDir dir) (hf : '/' ∉ file) (hr1 : RefForm r1 r1init l1 p1init pl1)
    (hr2 : RefForm r2 r2init l2 p2init pl2) :
    urlToPath (join (join (pathToUrl (dir ++ '/' :: file)) r1) r2) =
      render (resolve (segments dir ++ p1init) (p2init ++ [pl2])) := by
  obtain ⟨ds, hds, hdsl, hbase⟩ := up_pathToUrl_segments dir file hd hf
  have hfq := (up_goodSeg_quote file hf).2.1
  have h01 := hr1.head
  have hns1 := hr1.nocolon
  rw [hr1.text] at h01 hns1
  have h02 := hr2.head
  have hns2 := hr2.nocolon
  rw [hr2.text] at h02 hns2
  rw [hbase, hr1.text, hr2.text, up_join_nested_paths (ds.map quote) (quote file) r1init l1 r2init l2
    (by intro u hu; simp only [List.mem_map] at hu; obtain ⟨p, hp, rfl⟩ := hu; exact up_goodSeg_quote p (hdsl p hp))
    hfq hr1.good hr1.name h01 hns1 hr2.good hr2.name h02 hns2]
  rw [hds, List.map_cons, up_map_unquote_quote, hr1.pinit_eq, List.map_append, hr2.pinit_eq, List.map_cons, hr2.pl_eq]
  rfl

/-- **C18, joining = resolving** (quoted reference), see `ZCV.Props.C18.C18_join_eq_resolve` -/
theorem up_join_eq_resolve (dir file ref : Str) (hd : absDir dir) (hf : '/' ∉ file) (hr : relFileRef ref) :
    urlToPath (join (pathToUrl (dir ++ '/' :: file)) (quote ref)) =
      render (resolve (segments dir) (segments ref)) := by
  obtain ⟨rinit, l, hform, hseg⟩ := up_refForm_quote ref hr
  rw [up_join_form dir file _ _ _ _ _ hd hf hform, hseg]

/-- the same for a reference of URL-neutral characters used as it is (what `%include` and `src=` do) -/
theorem up_join_raw_eq_resolve (dir file ref : Str) (hd : absDir dir) (hf : '/' ∉ file) (hr : relFileRef ref)
    (hn : urlNeutral ref) :
    urlToPath (join (pathToUrl (dir ++ '/' :: file)) ref) = render (resolve (segments dir) (segments ref)) := by
  obtain ⟨rinit, l, hform, hseg⟩ := up_refForm_raw ref hr hn
  rw [up_join_form dir file _ _ _ _ _ hd hf hform, hseg]

theorem up_join_nested (dir file r1 r2 : Str) (hd : absDir dir) (hf : '/' ∉ file) (hr1 : relFileRef r1)
    (hr2 : relFileRef r2) :
    urlToPath (join (join (pathToUrl (dir ++ '/' :: file)) (quote r1)) (quote r2)) =
      render (resolve (segments dir ++ (segments r1).dropLast) (segments r2)) := by
  obtain ⟨r1init, l1, hform1, hseg1⟩ := up_refForm_quote r1 hr1
  obtain ⟨r2init, l2, hform2, hseg2⟩ := up_refForm_quote r2 hr2
  rw [up_join_nested_form dir file _ _ _ _ _ _ _ _ _ _ hd hf hform1 hform2, hseg1, hseg2, List.dropLast_concat]

theorem up_join_nested_raw (dir file r1 r2 : Str) (hd : absDir dir) (hf : '/' ∉ file) (hr1 : relFileRef r1)
    (hn1 : urlNeutral r1) (hr2 : relFileRef r2) (hn2 : urlNeutral r2) :
    urlToPath (join (join (pathToUrl (dir ++ '/' :: file)) r1) r2) =
      render (resolve (segments dir ++ (segments r1).dropLast) (segments r2)) := by
  obtain ⟨r1init, l1, hform1, hseg1⟩ := up_refForm_raw r1 hr1 hn1
  obtain ⟨r2init, l2, hform2, hseg2⟩ := up_refForm_raw r2 hr2 hn2
  rw [up_join_nested_form dir file _ _ _ _ _ _ _ _ _ _ hd hf hform1 hform2, hseg1, hseg2, List.dropLast_concat]

end ZCV.UrlPath
