import ZCV.Lemmas.HistoryRun
import ZCV.Lemmas.SlotsEx
/-!
C13 / C12 (faithful histories): a closed world for the examples.  The schema of `SlotsEx` (one abstract type `ab`, a `*`
slot for it) and four packages:
  `p`  one type `leak` implementing `ab`;
  `q`  a type of the same name `leak` that implements nothing;
  `b`  a type `x` implementing `ab`, then a type named `ab` – which the schema has: the component breaks off after `x`
       was registered;
  `c`  the same two types in the other order: the component breaks off at once, `x` is never reached.
-/
namespace ZCV.Cfg.HEx
open ZCV ZCV.Cfg ZCV.Conf

def xT : SType := { name := some "x".toList, keytype := "basic-key".toList, datatype := "null".toList, children := [] }

def pkgsH : Str → Pkg := fun n =>
  if n == "p".toList then .component "u".toList [("leak".toList, .concrete Ex.leak)] [("leak".toList, "ab".toList)]
  else if n == "q".toList then .component "v".toList [("leak".toList, .concrete Ex.leak)] []
  else if n == "b".toList then
    .component "w".toList [("x".toList, .concrete xT), ("ab".toList, .concrete xT)] [("x".toList, "ab".toList)]
  else if n == "c".toList then
    .component "z".toList [("ab".toList, .concrete xT), ("x".toList, .concrete xT)] [("x".toList, "ab".toList)]
  else .notImportable

/-- the application's schema object after a load that imported `p`: only the table of `ab` has changed -/
def schemaL : Schema := { Ex.schema with types := [("ab".toList, .abstract_ "ab".toList ["leak".toList])] }
/-- … after a load whose import of `b` broke off -/
def schemaX : Schema := { Ex.schema with types := [("ab".toList, .abstract_ "ab".toList ["x".toList])] }

def qP : LoadReq := ⟨none, ["%import p".toList], []⟩
def qB : LoadReq := ⟨none, ["%import b".toList], []⟩
def qC : LoadReq := ⟨none, ["%import c".toList], []⟩
def qUse : LoadReq := ⟨none, ["<leak/>".toList], []⟩
def qTwin : LoadReq := ⟨none, ["%import q".toList, "<leak/>".toList], []⟩

/-- the loader at the start of a load -/
def h0 (s : Schema) : LS :=
  { schema := s, privateSchema := false, handlers := [], stack := [newMatcher s.top none none], pkgs := pkgsH, conv := Ex.conv }

theorem shape_imp (n : String) (h1 : '\n' ∉ ("%import " ++ n).toList)
    (h2 : Grammar.classify ("%import " ++ n).toList = toSpec (.import_ n.toList)) :
    lineShape (strip ("%import " ++ n).toList) = .import_ n.toList :=
  shape_of_classify _ h1 (.import_ n.toList) (by simp) h2

theorem shape_p : lineShape (strip "%import p".toList) = .import_ "p".toList := shape_imp "p" (by decide) (by decide)
theorem shape_q : lineShape (strip "%import q".toList) = .import_ "q".toList := shape_imp "q" (by decide) (by decide)
theorem shape_b : lineShape (strip "%import b".toList) = .import_ "b".toList := shape_imp "b" (by decide) (by decide)
theorem shape_c : lineShape (strip "%import c".toList) = .import_ "c".toList := shape_imp "c" (by decide) (by decide)
theorem shape_leak : lineShape (strip "<leak/>".toList) = .open_ "leak".toList none true :=
  shape_of_classify _ (by decide) (.open_ "leak".toList none true) (by simp) (by decide)

theorem init_ex (s : Schema) : loadInit Ex.conv Ex.pkgs s [] =
    .ok { ctx := { schema := s, privateSchema := false, handlers := [], stack := [newMatcher s.top none none],
                   pkgs := Ex.pkgs, conv := Ex.conv }, stack := [], defs := [] } := rfl
theorem init_h (s : Schema) : loadInit Ex.conv pkgsH s [] = .ok { ctx := h0 s, stack := [], defs := [] } := rfl

/-! ### `%import p` in the world of `SlotsEx`: where the load stops, and the application's schema object afterwards -/

theorem importStop_p : importStop Ex.st0 "p".toList =
    { schema := Ex.schema', regs := [("leak".toList, "ab".toList)], imports := ["p".toList], broken := none } := rfl

theorem step_import_p : stepLine 64 Ex.env loaderCtx [] none 1 (strip "%import p".toList)
    { ctx := Ex.st0, stack := [], defs := [] } = .ok { ctx := Ex.st1, stack := [], defs := [] } := by
  rw [stepLine_import _ _ _ _ _ _ _ _ _ shape_p]
  unfold impStep
  rw [replace_nodollar _ _ _ _ _ (by decide), show strip "p".toList = "p".toList by decide]
  rfl

theorem loadStop_p : loadStop Ex.conv Ex.env Ex.pkgs Ex.schema none ["%import p".toList] [] =
    { schema := Ex.schema', regs := [("leak".toList, "ab".toList)], imports := ["p".toList], broken := none } := by
  unfold loadStop
  rw [init_ex]
  simp only [activeOf]
  rw [linesStop_cons]
  have hst : ({ ctx := { schema := Ex.schema, privateSchema := false, handlers := [], stack := [newMatcher Ex.schema.top none none], pkgs := Ex.pkgs, conv := Ex.conv }, stack := [], defs := [] } : PS LS) = { ctx := Ex.st0, stack := [], defs := [] } := rfl
  rw [hst, step_import_p]
  simp only
  rw [linesStop_nil, stepStop_import _ _ _ _ _ _ _ _ shape_p]
  unfold impStop
  rw [replace_nodollar _ _ _ _ _ (by decide), show strip "p".toList = "p".toList by decide]
  simp only
  rw [importStop_p]
  rfl

theorem appAfterLoad_p : appAfterLoad Ex.conv Ex.env Ex.pkgs Ex.schema qP = schemaL := by
  rw [appAfterLoad_eq]
  show Ex.schema.withImplementers (loadStop Ex.conv Ex.env Ex.pkgs Ex.schema none ["%import p".toList] []).regs = schemaL
  rw [loadStop_p]
  rfl

/-! ### the next load: `<leak/>` without `%import` -/

/-- the loader at the start of a load on the OLD history's schema (the first load's whole private schema) -/
def o1 : LS := { Ex.st0 with schema := Ex.schema' }
def o2 : LS := { o1 with stack := newMatcher Ex.leak none none :: newMatcher Ex.top none none :: [] }
def o3 : LS := { o1 with stack := [Ex.mTop'] }

theorem start_o : lsStart o1 "leak".toList none = .ok o2 :=
  lsStart_admitted_unnamed o1 "leak".toList none (newMatcher Ex.top none none) [] Ex.leak Ex.slot [] [] rfl rfl rfl rfl rfl
    (fun _ h => by cases h) (fun _ h => by cases h) (by decide) (by decide) (by decide)

theorem stop_o : lsStop o2 "leak".toList none = .ok o3 := by
  unfold lsStop
  simp only [o2, o1, Ex.st0, bind, Except.bind, Ex.fin_leak]
  rw [addSection_eq]
  simp only [newName, List.any_nil, Bool.false_eq_true, if_false]
  rw [show (newMatcher Ex.top none none).ty = Ex.top from rfl, Ex.gsi_leak]
  rfl

/-- on the old history's schema the next load may use the imported type without importing it -/
theorem load_old_use : ∃ r, load Ex.conv Ex.env Ex.pkgs Ex.schema' none ["<leak/>".toList] [] = .ok r := by
  unfold load
  simp only [List.mapM_nil, pure, Except.pure, bind, Except.bind, List.isEmpty_nil, if_true, Option.map_none]
  rw [parseLines, stepLine]
  simp only [shape_leak, openSection, loaderCtx]
  rw [show lsStart { schema := Ex.schema', privateSchema := false, handlers := [], stack := [newMatcher Ex.schema'.top none none], pkgs := Ex.pkgs, conv := Ex.conv } "leak".toList none = _ from start_o]
  simp only [stop_o, closeFixup, Except.map, if_true, bind, Except.bind]
  rw [parseLines]
  simp only [bne_self_eq_false, Bool.false_eq_true, if_false, o3, o1, Ex.st0]
  rw [Ex.fin_top]
  exact ⟨⟨_, _, _⟩, rfl⟩

/-- on the application's schema object as the first load really leaves it, the type is unknown -/
theorem load_app_use : load Ex.conv Ex.env Ex.pkgs schemaL none ["<leak/>".toList] [] =
    .error (synErr none 1 "start:unknown type name") := by
  have hstart : lsStart { Ex.st0 with schema := schemaL } "leak".toList none =
      .error (.cfg { kind := .schema, tag := "unknown type name" }) := rfl
  unfold load
  simp only [List.mapM_nil, pure, Except.pure, bind, Except.bind, List.isEmpty_nil, if_true, Option.map_none]
  rw [parseLines, stepLine]
  simp only [shape_leak, openSection, loaderCtx]
  rw [show lsStart { schema := schemaL, privateSchema := false, handlers := [], stack := [newMatcher schemaL.top none none], pkgs := Ex.pkgs, conv := Ex.conv } "leak".toList none = _ from hstart]
  rfl

/-! ### components that break off -/

theorem importStop_b : importStop (h0 Ex.schema) "b".toList =
    { schema := { types := [("ab".toList, .abstract_ "ab".toList ["x".toList]), ("x".toList, .concrete xT)],
                  top := Ex.top, handler := none, components := ["w".toList] },
      regs := [("x".toList, "ab".toList)], imports := [], broken := some "b".toList } := rfl

theorem importStop_c : importStop (h0 Ex.schema) "c".toList =
    { schema := { Ex.schema with components := ["z".toList] }, regs := [], imports := [], broken := some "c".toList } := rfl

theorem lsImport_b : lsImport (h0 Ex.schema) "b".toList =
    .error (.cfg { kind := .schema, tag := "type name cannot be redefined" }) := rfl
theorem lsImport_c : lsImport (h0 Ex.schema) "c".toList =
    .error (.cfg { kind := .schema, tag := "type name cannot be redefined" }) := rfl

theorem step_fail (n : String) (hs : lineShape (strip ("%import " ++ n).toList) = .import_ n.toList)
    (hd : '$' ∉ strip n.toList) (hstrip : strip n.toList = n.toList) (f : Fail)
    (hi : lsImport (h0 Ex.schema) n.toList = .error f) :
    stepLine 64 Ex.env loaderCtx [] none 1 (strip ("%import " ++ n).toList) { ctx := h0 Ex.schema, stack := [], defs := [] } =
      .error f := by
  rw [stepLine_import _ _ _ _ _ _ _ _ _ hs]
  unfold impStep
  rw [replace_nodollar _ _ _ _ _ hd, hstrip]
  show Except.map _ (lsImport (h0 Ex.schema) n.toList) = _
  rw [hi]
  rfl

theorem loadStop_fail (n : String) (hs : lineShape (strip ("%import " ++ n).toList) = .import_ n.toList)
    (hd : '$' ∉ strip n.toList) (hstrip : strip n.toList = n.toList) (f : Fail)
    (hi : lsImport (h0 Ex.schema) n.toList = .error f) :
    loadStop Ex.conv Ex.env pkgsH Ex.schema none [("%import " ++ n).toList] [] = importStop (h0 Ex.schema) n.toList := by
  unfold loadStop
  rw [init_h]
  simp only [activeOf]
  rw [linesStop_cons, step_fail n hs hd hstrip f hi]
  simp only
  rw [stepStop_import _ _ _ _ _ _ _ _ hs]
  unfold impStop
  rw [replace_nodollar _ _ _ _ _ hd, hstrip]

theorem loadStop_b : loadStop Ex.conv Ex.env pkgsH Ex.schema none ["%import b".toList] [] = importStop (h0 Ex.schema) "b".toList :=
  loadStop_fail "b" shape_b (by decide) (by decide) _ lsImport_b

theorem loadStop_c : loadStop Ex.conv Ex.env pkgsH Ex.schema none ["%import c".toList] [] = importStop (h0 Ex.schema) "c".toList :=
  loadStop_fail "c" shape_c (by decide) (by decide) _ lsImport_c

theorem load_fail (n : String) (hs : lineShape (strip ("%import " ++ n).toList) = .import_ n.toList)
    (hd : '$' ∉ strip n.toList) (hstrip : strip n.toList = n.toList) (f : Fail)
    (hi : lsImport (h0 Ex.schema) n.toList = .error f) :
    load Ex.conv Ex.env pkgsH Ex.schema none [("%import " ++ n).toList] [] = .error f := by
  unfold load
  simp only [List.mapM_nil, pure, Except.pure, bind, Except.bind, List.isEmpty_nil, if_true, Option.map_none]
  rw [parseLines]
  have := step_fail n hs hd hstrip f hi
  simp only [h0] at this
  simp only [bind, Except.bind, this]

theorem appAfterLoad_b : appAfterLoad Ex.conv Ex.env pkgsH Ex.schema qB = schemaX := by
  rw [appAfterLoad_eq]
  show Ex.schema.withImplementers (loadStop Ex.conv Ex.env pkgsH Ex.schema none ["%import b".toList] []).regs = schemaX
  rw [loadStop_b, importStop_b]
  rfl

theorem appAfterLoad_c : appAfterLoad Ex.conv Ex.env pkgsH Ex.schema qC = Ex.schema := by
  rw [appAfterLoad_eq]
  show Ex.schema.withImplementers (loadStop Ex.conv Ex.env pkgsH Ex.schema none ["%import c".toList] []).regs = Ex.schema
  rw [loadStop_c, importStop_c]
  rfl

/-! ### the same-named non-implementer: `%import q` / `<leak/>` on the used schema object and on a fresh one -/

/-- the private schema after `%import q` on the application's schema object that lists `leak` already -/
def schemaLq : Schema :=
  { types := [("ab".toList, .abstract_ "ab".toList ["leak".toList]), ("leak".toList, .concrete Ex.leak)],
    top := Ex.top, handler := none, components := ["v".toList] }
/-- … and on the fresh one -/
def schemaQ : Schema :=
  { types := [("ab".toList, .abstract_ "ab".toList []), ("leak".toList, .concrete Ex.leak)],
    top := Ex.top, handler := none, components := ["v".toList] }

def u1 : LS := { h0 schemaL with schema := schemaLq, privateSchema := true }
def u2 : LS := { u1 with stack := newMatcher Ex.leak none none :: newMatcher Ex.top none none :: [] }
def u3 : LS := { u1 with stack := [Ex.mTop'] }
def f1 : LS := { h0 Ex.schema with schema := schemaQ, privateSchema := true }

theorem import_q_used : lsImport (h0 schemaL) "q".toList = .ok u1 := rfl
theorem import_q_fresh : lsImport (h0 Ex.schema) "q".toList = .ok f1 := rfl

theorem gsi_used : getsectioninfo schemaLq Ex.top "leak".toList none = .ok Ex.slot := by
  unfold getsectioninfo
  rw [show Ex.top.children = [] ++ (none, .sect Ex.slot) :: [] from rfl,
    go_skip _ _ _ _ _ (fun _ h => by cases h) (fun _ h => by cases h),
    go_at_unnamed_abstract _ _ _ _ _ (by decide) (by decide)]
  rw [show isSubtype schemaLq Ex.slot.ty "leak".toList = true by decide, if_pos rfl]

theorem start_used : lsStart u1 "leak".toList none = .ok u2 :=
  lsStart_admitted_unnamed u1 "leak".toList none (newMatcher Ex.top none none) [] Ex.leak Ex.slot [] [] rfl rfl rfl rfl rfl
    (fun _ h => by cases h) (fun _ h => by cases h) (by decide) (by decide) (by decide)

theorem fin_leak_used : finishMatcher Ex.conv schemaLq (newMatcher Ex.leak none none) = .ok (Ex.vLeak, []) := rfl

theorem stop_used : lsStop u2 "leak".toList none = .ok u3 := by
  unfold lsStop
  simp only [u2, u1, h0, bind, Except.bind, fin_leak_used]
  rw [addSection_eq]
  simp only [newName, List.any_nil, Bool.false_eq_true, if_false]
  rw [show (newMatcher Ex.top none none).ty = Ex.top from rfl, gsi_used]
  rfl

theorem fin_top_used : finishMatcher Ex.conv schemaLq Ex.mTop' = .ok (.sect [] none [("s".toList, .list [Ex.vLeak])], []) := rfl

theorem start_fresh : lsStart f1 "leak".toList none = .error (plainErr "no matching section defined") :=
  lsStart_unclaimed_refused f1 "leak".toList none (newMatcher Ex.top none none) [] Ex.leak rfl rfl rfl
    (by
      intro c hc
      have : c = (none, .sect Ex.slot) := by simpa [newMatcher, Ex.top] using hc
      subst this
      unfold keyShapeOK
      exact ⟨fun k h => (by cases h), fun _ => ⟨Ex.slot, rfl⟩, fun ki h => (by cases h)⟩)
    (by
      intro c hc
      have : c = (none, .sect Ex.slot) := by simpa [newMatcher, Ex.top] using hc
      subst this
      decide)

/-- on the application's schema object that an earlier `%import p` left behind, `%import q` / `<leak/>` is ACCEPTED:
    `q`'s type `leak` implements nothing, but the name stands in `ab`'s table -/
theorem load_twin_used : ∃ r, load Ex.conv Ex.env pkgsH schemaL none ["%import q".toList, "<leak/>".toList] [] = .ok r ∧
    r.value = .sect [] none [("s".toList, .list [Ex.vLeak])] := by
  have hstrip : strip "q".toList = "q".toList := by decide
  unfold load
  simp only [List.mapM_nil, pure, Except.pure, bind, Except.bind, List.isEmpty_nil, if_true, Option.map_none]
  rw [parseLines, stepLine_import _ _ _ _ _ _ _ _ _ shape_q]
  unfold impStep
  rw [replace_nodollar _ _ _ _ _ (by decide), hstrip]
  simp only [bind, Except.bind, loaderCtx]
  rw [show lsImport { schema := schemaL, privateSchema := false, handlers := [], stack := [newMatcher schemaL.top none none], pkgs := pkgsH, conv := Ex.conv } "q".toList = _ from import_q_used]
  simp only [Except.map]
  rw [parseLines, stepLine]
  simp only [shape_leak, openSection, start_used, stop_used, closeFixup, Except.map, if_true, bind, Except.bind]
  rw [parseLines]
  simp only [bne_self_eq_false, Bool.false_eq_true, if_false, u3, u1, h0]
  rw [fin_top_used]
  exact ⟨⟨_, _, _⟩, rfl, rfl⟩

/-- on a fresh schema object the same text is REJECTED at line 2 -/
theorem load_twin_fresh : load Ex.conv Ex.env pkgsH Ex.schema none ["%import q".toList, "<leak/>".toList] [] =
    .error (synErr none 2 "start:no matching section defined") := by
  have hstrip : strip "q".toList = "q".toList := by decide
  unfold load
  simp only [List.mapM_nil, pure, Except.pure, bind, Except.bind, List.isEmpty_nil, if_true, Option.map_none]
  rw [parseLines, stepLine_import _ _ _ _ _ _ _ _ _ shape_q]
  unfold impStep
  rw [replace_nodollar _ _ _ _ _ (by decide), hstrip]
  simp only [bind, Except.bind, loaderCtx]
  rw [show lsImport { schema := Ex.schema, privateSchema := false, handlers := [], stack := [newMatcher Ex.schema.top none none], pkgs := pkgsH, conv := Ex.conv } "q".toList = _ from import_q_fresh]
  simp only [Except.map]
  rw [parseLines, stepLine]
  simp only [shape_leak, openSection, start_fresh]
  rfl

/-- `%import p` in the world `pkgsH` -/
theorem importStop_pH : importStop (h0 Ex.schema) "p".toList =
    { schema := Ex.schema', regs := [("leak".toList, "ab".toList)], imports := ["p".toList], broken := none } := rfl

theorem step_import_pH : stepLine 64 Ex.env loaderCtx [] none 1 (strip "%import p".toList)
    { ctx := h0 Ex.schema, stack := [], defs := [] } =
      .ok { ctx := { h0 Ex.schema with schema := Ex.schema', privateSchema := true }, stack := [], defs := [] } := by
  rw [stepLine_import _ _ _ _ _ _ _ _ _ shape_p]
  unfold impStep
  rw [replace_nodollar _ _ _ _ _ (by decide), show strip "p".toList = "p".toList by decide]
  rfl

theorem loadStop_pH : loadStop Ex.conv Ex.env pkgsH Ex.schema none ["%import p".toList] [] =
    { schema := Ex.schema', regs := [("leak".toList, "ab".toList)], imports := ["p".toList], broken := none } := by
  unfold loadStop
  rw [init_h]
  simp only [activeOf]
  rw [linesStop_cons, step_import_pH]
  simp only
  rw [linesStop_nil, stepStop_import _ _ _ _ _ _ _ _ shape_p]
  unfold impStop
  rw [replace_nodollar _ _ _ _ _ (by decide), show strip "p".toList = "p".toList by decide]
  simp only
  rw [importStop_pH]
  rfl

theorem appAfterLoad_pH : appAfterLoad Ex.conv Ex.env pkgsH Ex.schema qP = schemaL := by
  rw [appAfterLoad_eq]
  show Ex.schema.withImplementers (loadStop Ex.conv Ex.env pkgsH Ex.schema none ["%import p".toList] []).regs = schemaL
  rw [loadStop_pH]
  rfl

theorem load_pH : ∃ r, load Ex.conv Ex.env pkgsH Ex.schema none ["%import p".toList] [] = .ok r := by
  unfold load
  simp only [List.mapM_nil, pure, Except.pure, bind, Except.bind, List.isEmpty_nil, if_true, Option.map_none]
  rw [parseLines]
  have := step_import_pH
  simp only [h0] at this
  simp only [bind, Except.bind, this]
  rw [parseLines]
  simp only [bne_self_eq_false, Bool.false_eq_true, if_false]
  exact ⟨⟨_, _, _⟩, rfl⟩

end ZCV.Cfg.HEx
