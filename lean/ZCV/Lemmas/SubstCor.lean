import ZCV.Lemmas.SubstExtra
/-!
Corollaries of C04 (`substitute` = the documented function), one `$` construct at a time.

* `Construct`, `firstConstruct` — what the text after a `$` starts with (malformed / `$$` / a reference);
* `substcor_spec_step` — the documented function unfolds one construct at a time;
* `withSource` — the replacement error of a sub-text, re-attributed to the whole source;
* `substcor_spec_src` — the source text only matters for the replacement error;
* `substcor_model_step` — the same unfolding for the MODEL (`Subst.substitute`), transported with the main theorem;
* `Malformed`, `Replaced`, `Unresolved` — the three possible fates of a `$` construct, in plain list terms, and their
  equivalence with `firstConstruct`.
-/
namespace ZCV.Subst
open ZCV ZCV.SubstSpec

/-! ### what follows a `$` -/

/-- the `$` construct at the head of a text (the `$` itself removed) -/
inductive Construct where
  | malformed (code : Nat)
  | esc (rest : Str)                          -- `$$`
  | ref (name : Str) (vt : VT) (rest : Str)   -- `$name`, `${name}` (vt = define), `$(NAME)` (vt = env)
deriving Repr, DecidableEq

def bracedConstruct (r : Str) (close : Char) (vt : VT) (e1 e2 : Nat) : Construct :=
  match nameSplit r with
  | none => .malformed e1
  | some (name, x :: r') => if x = close then .ref name vt r' else .malformed e2
  | some (_, []) => .malformed e2

def firstConstruct : Str → Construct
  | [] => .malformed 0
  | c :: r =>
    if c = '$' then .esc r
    else if c = '{' then bracedConstruct r '}' .define 1 2
    else if c = '(' then bracedConstruct r ')' .env 3 4
    else match nameSplit (c :: r) with
      | none => .malformed 5
      | some (name, r') => .ref name .define r'

/-- mapping lookups are lower-cased, environment lookups are not -/
def lookupRef (defs env : Str → Option Str) : VT → Str → Option Str
  | .define, n => defs (lower n)
  | .env, n => env n

/-- the documented function, one construct at a time -/
theorem substcor_spec_step (defs env : Str → Option Str) (src t : Str) :
    spec defs env src ('$' :: t) =
      match firstConstruct t with
      | .malformed c => .error (.syntax c)
      | .esc r => (spec defs env src r).map ('$' :: ·)
      | .ref name vt r =>
        match lookupRef defs env vt name with
        | none => .error (.missing src name)
        | some v => (spec defs env src r).map (v ++ ·) := by
  cases t with
  | nil => rw [spec]; rfl
  | cons d r =>
    by_cases h1 : d = '$'
    · subst h1; rw [spec]; rfl
    · by_cases h2 : d = '{'
      · subst h2
        rw [spec]
        simp only [firstConstruct, h1, ↓reduceIte, bracedConstruct]
        split
        · rename_i hn; rw [hn]
        · rename_i name r' hn; rw [hn]; simp only [↓reduceIte, lookupRef]; cases defs (lower name) <;> rfl
        · rename_i name r' hne hn
          rw [hn]
          cases r' with
          | nil => rfl
          | cons x xs =>
            have : x ≠ '}' := fun hx => hne xs (by rw [hx])
            simp only [this, ↓reduceIte]
      · by_cases h3 : d = '('
        · subst h3
          rw [spec]
          simp only [firstConstruct, h1, h2, ↓reduceIte, bracedConstruct]
          split
          · rename_i hn; rw [hn]
          · rename_i name r' hn; rw [hn]; simp only [↓reduceIte, lookupRef]; cases env name <;> rfl
          · rename_i name r' hne hn
            rw [hn]
            cases r' with
            | nil => rfl
            | cons x xs =>
              have : x ≠ ')' := fun hx => hne xs (by rw [hx])
              simp only [this, ↓reduceIte]
        · rw [spec]
          · simp only [firstConstruct, h1, h2, h3, ↓reduceIte]
            split
            · rename_i hn; rw [hn]
            · rename_i name r' hn; rw [hn]; simp only [lookupRef]; cases defs (lower name) <;> rfl
          all_goals (intros; simp_all)

/-! ### names -/

theorem substcor_all_takeWhile (p : Char → Bool) (l : Str) : (l.takeWhile p).all p = true := by
  induction l with
  | nil => rfl
  | cons a t ih =>
    simp only [List.takeWhile_cons]
    by_cases h : p a = true
    · simp only [h, ↓reduceIte, List.all_cons, ih, Bool.and_self]
    · simp only [h, Bool.false_eq_true, ↓reduceIte, List.all_nil]

theorem substcor_head_dropWhile (p : Char → Bool) (l : Str) : ∀ c ∈ (l.dropWhile p).head?, p c = false := by
  induction l with
  | nil => intro c hc; simp at hc
  | cons a t ih =>
    simp only [List.dropWhile_cons]
    by_cases h : p a = true
    · simp only [h, ↓reduceIte]; exact ih
    · simp only [h, Bool.false_eq_true, ↓reduceIte, List.head?_cons, Option.mem_def, Option.some.injEq]
      intro c hc; subst hc; simpa using h

theorem substcor_takeWhile_append (p : Char → Bool) (n r : Str) (hn : n.all p = true)
    (hr : ∀ c ∈ r.head?, p c = false) : (n ++ r).takeWhile p = n ∧ (n ++ r).dropWhile p = r := by
  induction n with
  | nil =>
    cases r with
    | nil => simp
    | cons a l =>
      have := hr a (by simp)
      simp [this]
  | cons a l ih =>
    simp only [List.all_cons, Bool.and_eq_true] at hn
    have := ih hn.2
    simp only [List.cons_append, List.takeWhile_cons, List.dropWhile_cons, hn.1, ↓reduceIte, this.1, this.2, and_self]

/-- `nameSplit` splits off a legal name, maximal: what follows does not start with a name character -/
theorem substcor_nameSplit_some (t name rest : Str) :
    nameSplit t = some (name, rest) ↔
      isnameSpec name = true ∧ (∀ c ∈ rest.head?, isNameChar c = false) ∧ t = name ++ rest := by
  constructor
  · intro h
    cases t with
    | nil => simp [nameSplit] at h
    | cons c r =>
      simp only [nameSplit] at h
      split at h
      · rename_i hc
        simp only [Option.some.injEq, Prod.mk.injEq] at h
        obtain ⟨h1, h2⟩ := h
        subst h1 h2
        refine ⟨?_, substcor_head_dropWhile _ _, ?_⟩
        · simp only [isnameSpec, hc, substcor_all_takeWhile, Bool.and_self]
        · simp only [List.cons_append, List.takeWhile_append_dropWhile]
      · cases h
  · rintro ⟨hn, hr, rfl⟩
    cases name with
    | nil => simp [isnameSpec] at hn
    | cons c l =>
      simp only [isnameSpec, Bool.and_eq_true] at hn
      have := substcor_takeWhile_append isNameChar l rest hn.2 hr
      simp only [List.cons_append, nameSplit, hn.1, ↓reduceIte, this.1, this.2]

theorem substcor_nameSplit_none (t : Str) :
    nameSplit t = none ↔ ∀ c ∈ t.head?, isNameStart c = false := by
  cases t with
  | nil => simp [nameSplit]
  | cons c r =>
    simp only [nameSplit, List.head?_cons, Option.mem_def, Option.some.injEq, forall_eq']
    by_cases hc : isNameStart c = true <;> simp [hc]

theorem substcor_isNameStart_ne {c : Char} (hc : isNameStart c = true) : c ≠ '$' ∧ c ≠ '{' ∧ c ≠ '(' := by
  refine ⟨?_, ?_, ?_⟩ <;> (intro h; subst h; revert hc; decide)

theorem substcor_isNameStart_char {c : Char} (hc : isNameStart c = true) : isNameChar c = true := by
  unfold isNameStart at hc
  unfold isNameChar
  simp only [Bool.or_eq_true] at hc ⊢
  rcases hc with h | h
  · exact .inl (.inl h)
  · exact .inr h

/-! ### the three fates of a `$` construct, in plain list terms -/

/-- `t` (the text after a `$`) starts with a reference to `name`, of kind `vt`, followed by `rest` -/
inductive IsRef : Str → Str → VT → Str → Prop
  /-- `$name`: the name is maximal — `rest` does not go on with a letter, digit or underscore -/
  | bare (n r : Str) : isnameSpec n = true → (∀ c ∈ r.head?, isNameChar c = false) → IsRef (n ++ r) n .define r
  /-- `${name}` -/
  | brace (n r : Str) : isnameSpec n = true → IsRef ('{' :: (n ++ '}' :: r)) n .define r
  /-- `$(NAME)` -/
  | paren (n r : Str) : isnameSpec n = true → IsRef ('(' :: (n ++ ')' :: r)) n .env r

/-- the construct `$t…` is replaced by `v`, and `rest` is the text after it: `$$` gives `$`, a reference gives the value
    found for its name (mapping: lower-cased name; environment: name as written) -/
inductive Replaced (defs env : Str → Option Str) : Str → Str → Str → Prop
  | esc (r : Str) : Replaced defs env ('$' :: r) ['$'] r
  | ref {t name : Str} {vt : VT} {r v : Str} : IsRef t name vt r → lookupRef defs env vt name = some v →
      Replaced defs env t v r

/-- the construct `$t…` is malformed; `code` is the raise site in `_split` (0: trailing lone `$`; 5: `$` followed by
    something that is not `$`, `{`, `(`, a letter or an underscore; 1/3: `${` / `$(` not followed by a name, i.e. empty or
    illegal name; 2/4: the name after `${` / `$(` is not followed by `}` / `)`, i.e. unterminated or an illegal character
    inside the braces) -/
inductive Malformed : Str → Nat → Prop
  | lone : Malformed [] 0
  | other (c : Char) (r : Str) : c ≠ '$' → c ≠ '{' → c ≠ '(' → isNameStart c = false → Malformed (c :: r) 5
  | braceName (r : Str) : (∀ c ∈ r.head?, isNameStart c = false) → Malformed ('{' :: r) 1
  | braceClose (n r : Str) : isnameSpec n = true → (∀ c ∈ r.head?, isNameChar c = false ∧ c ≠ '}') →
      Malformed ('{' :: (n ++ r)) 2
  | parenName (r : Str) : (∀ c ∈ r.head?, isNameStart c = false) → Malformed ('(' :: r) 3
  | parenClose (n r : Str) : isnameSpec n = true → (∀ c ∈ r.head?, isNameChar c = false ∧ c ≠ ')') →
      Malformed ('(' :: (n ++ r)) 4

theorem substcor_braced_malformed (r : Str) (close : Char) (vt : VT) (e1 e2 c : Nat) :
    bracedConstruct r close vt e1 e2 = .malformed c ↔
      ((∀ ch ∈ r.head?, isNameStart ch = false) ∧ c = e1) ∨
      (∃ n r', r = n ++ r' ∧ isnameSpec n = true ∧ (∀ ch ∈ r'.head?, isNameChar ch = false ∧ ch ≠ close) ∧ c = e2) := by
  unfold bracedConstruct
  constructor
  · intro h
    split at h
    · rename_i hn
      cases h
      exact .inl ⟨(substcor_nameSplit_none r).1 hn, rfl⟩
    · rename_i name x r' hn
      obtain ⟨h1, h2, h3⟩ := (substcor_nameSplit_some _ _ _).1 hn
      split at h
      · cases h
      · rename_i hx
        cases h
        refine .inr ⟨name, x :: r', h3, h1, ?_, rfl⟩
        intro ch hch
        simp only [List.head?_cons, Option.mem_def, Option.some.injEq] at hch
        subst hch
        exact ⟨h2 x (by simp), hx⟩
    · rename_i name hn
      obtain ⟨h1, h2, h3⟩ := (substcor_nameSplit_some _ _ _).1 hn
      cases h
      exact .inr ⟨name, [], h3, h1, by simp, rfl⟩
  · rintro (⟨h, rfl⟩ | ⟨n, r', rfl, hn, hr, rfl⟩)
    · rw [(substcor_nameSplit_none r).2 h]
    · have := (substcor_nameSplit_some (n ++ r') n r').2 ⟨hn, fun ch hch => (hr ch hch).1, rfl⟩
      rw [this]
      cases r' with
      | nil => rfl
      | cons x xs =>
        have hx : x ≠ close := (hr x (by simp)).2
        simp only [hx, ↓reduceIte]

theorem substcor_braced_ref (r : Str) (close : Char) (vt vt' : VT) (e1 e2 : Nat) (name rest : Str)
    (hclose : isNameChar close = false) :
    bracedConstruct r close vt e1 e2 = .ref name vt' rest ↔
      vt' = vt ∧ isnameSpec name = true ∧ r = name ++ close :: rest := by
  unfold bracedConstruct
  constructor
  · intro h
    split at h
    · cases h
    · rename_i name' x r' hn
      obtain ⟨h1, h2, h3⟩ := (substcor_nameSplit_some _ _ _).1 hn
      split at h
      · rename_i hx
        cases h
        subst hx
        exact ⟨rfl, h1, h3⟩
      · cases h
    · cases h
  · rintro ⟨rfl, hn, rfl⟩
    have := (substcor_nameSplit_some (name ++ close :: rest) name (close :: rest)).2
      ⟨hn, by intro c hc; simp only [List.head?_cons, Option.mem_def, Option.some.injEq] at hc; subst hc; exact hclose, rfl⟩
    rw [this]
    simp only [↓reduceIte]

theorem substcor_first_esc (t r : Str) : firstConstruct t = .esc r ↔ t = '$' :: r := by
  cases t with
  | nil => simp [firstConstruct]
  | cons d l =>
    simp only [firstConstruct]
    by_cases h1 : d = '$'
    · subst h1; simp
    · simp only [h1, ↓reduceIte, List.cons.injEq, false_and, iff_false]
      by_cases h2 : d = '{'
      · simp only [h2, ↓reduceIte]
        unfold bracedConstruct
        split <;> (try split) <;> simp
      · simp only [h2, ↓reduceIte]
        by_cases h3 : d = '('
        · simp only [h3, ↓reduceIte]
          unfold bracedConstruct
          split <;> (try split) <;> simp
        · simp only [h3, ↓reduceIte]
          split <;> simp

theorem substcor_first_ref (t name : Str) (vt : VT) (r : Str) :
    firstConstruct t = .ref name vt r ↔ IsRef t name vt r := by
  constructor
  · intro h
    cases t with
    | nil => simp [firstConstruct] at h
    | cons d l =>
      simp only [firstConstruct] at h
      by_cases h1 : d = '$'
      · simp [h1] at h
      · simp only [h1, ↓reduceIte] at h
        by_cases h2 : d = '{'
        · simp only [h2, ↓reduceIte] at h
          obtain ⟨rfl, hn, rfl⟩ := (substcor_braced_ref _ _ _ _ _ _ _ _ (by decide)).1 h
          subst h2
          exact .brace _ _ hn
        · simp only [h2, ↓reduceIte] at h
          by_cases h3 : d = '('
          · simp only [h3, ↓reduceIte] at h
            obtain ⟨rfl, hn, rfl⟩ := (substcor_braced_ref _ _ _ _ _ _ _ _ (by decide)).1 h
            subst h3
            exact .paren _ _ hn
          · simp only [h3, ↓reduceIte] at h
            split at h
            · cases h
            · rename_i name' r' hn
              cases h
              obtain ⟨k1, k2, k3⟩ := (substcor_nameSplit_some _ _ _).1 hn
              rw [k3]
              exact .bare _ _ k1 k2
  · intro h
    cases h with
    | bare n r hn hr =>
      cases name with
      | nil => simp [isnameSpec] at hn
      | cons c l =>
        have hc : isNameStart c = true := by
          simp only [isnameSpec, Bool.and_eq_true] at hn; exact hn.1
        obtain ⟨h1, h2, h3⟩ := substcor_isNameStart_ne hc
        simp only [List.cons_append, firstConstruct, h1, h2, h3, ↓reduceIte]
        have := (substcor_nameSplit_some ((c :: l) ++ r) (c :: l) r).2 ⟨hn, hr, rfl⟩
        simp only [List.cons_append] at this
        rw [this]
    | brace n r hn =>
      simp only [firstConstruct, ↓reduceIte, show ¬ ('{' = '$') by decide]
      exact (substcor_braced_ref _ _ _ _ _ _ _ _ (by decide)).2 ⟨rfl, hn, rfl⟩
    | paren n r hn =>
      simp only [firstConstruct, ↓reduceIte, show ¬ ('(' = '$') by decide, show ¬ ('(' = '{') by decide]
      exact (substcor_braced_ref _ _ _ _ _ _ _ _ (by decide)).2 ⟨rfl, hn, rfl⟩

theorem substcor_first_malformed (t : Str) (c : Nat) : firstConstruct t = .malformed c ↔ Malformed t c := by
  constructor
  · intro h
    cases t with
    | nil => simp only [firstConstruct, Construct.malformed.injEq] at h; subst h; exact .lone
    | cons d l =>
      simp only [firstConstruct] at h
      by_cases h1 : d = '$'
      · simp [h1] at h
      · simp only [h1, ↓reduceIte] at h
        by_cases h2 : d = '{'
        · simp only [h2, ↓reduceIte] at h
          subst h2
          rcases (substcor_braced_malformed _ _ _ _ _ _).1 h with ⟨k, rfl⟩ | ⟨n, r', rfl, hn, hr, rfl⟩
          · exact .braceName _ k
          · exact .braceClose _ _ hn hr
        · simp only [h2, ↓reduceIte] at h
          by_cases h3 : d = '('
          · simp only [h3, ↓reduceIte] at h
            subst h3
            rcases (substcor_braced_malformed _ _ _ _ _ _).1 h with ⟨k, rfl⟩ | ⟨n, r', rfl, hn, hr, rfl⟩
            · exact .parenName _ k
            · exact .parenClose _ _ hn hr
          · simp only [h3, ↓reduceIte] at h
            split at h
            · rename_i hn
              cases h
              have := (substcor_nameSplit_none _).1 hn d (by simp)
              exact .other _ _ h1 h2 h3 this
            · cases h
  · intro h
    cases h with
    | lone => rfl
    | other d r h1 h2 h3 h4 =>
      simp only [firstConstruct, h1, h2, h3, ↓reduceIte]
      have : nameSplit (d :: r) = none := (substcor_nameSplit_none _).2 (by simpa using h4)
      rw [this]
    | braceName r k =>
      simp only [firstConstruct, ↓reduceIte, show ¬ ('{' = '$') by decide]
      exact (substcor_braced_malformed _ _ _ _ _ _).2 (.inl ⟨k, rfl⟩)
    | braceClose n r hn hr =>
      simp only [firstConstruct, ↓reduceIte, show ¬ ('{' = '$') by decide]
      exact (substcor_braced_malformed _ _ _ _ _ _).2 (.inr ⟨n, r, rfl, hn, hr, rfl⟩)
    | parenName r k =>
      simp only [firstConstruct, ↓reduceIte, show ¬ ('(' = '$') by decide, show ¬ ('(' = '{') by decide]
      exact (substcor_braced_malformed _ _ _ _ _ _).2 (.inl ⟨k, rfl⟩)
    | parenClose n r hn hr =>
      simp only [firstConstruct, ↓reduceIte, show ¬ ('(' = '$') by decide, show ¬ ('(' = '{') by decide]
      exact (substcor_braced_malformed _ _ _ _ _ _).2 (.inr ⟨n, r, rfl, hn, hr, rfl⟩)

theorem substcor_isRef_len {t name : Str} {vt : VT} {r : Str} (h : IsRef t name vt r) : r.length < t.length := by
  cases h with
  | bare n r hn _ =>
    cases name with
    | nil => simp [isnameSpec] at hn
    | cons c l => simp only [List.cons_append, List.length_cons, List.length_append]; omega
  | brace n r _ => simp only [List.length_cons, List.length_append]; omega
  | paren n r _ => simp only [List.length_cons, List.length_append]; omega

/-! ### the source text only matters for the replacement error -/

/-- the result of substituting into a sub-text, as reported for the whole text `src`: the replacement error quotes the
    whole source; everything else is unchanged -/
def withSource (src : Str) : Except Err Str → Except Err Str
  | .error (.missing _ n) => .error (.missing src n)
  | r => r

/-- `withSource` on the spec side -/
def withSourceS (src : Str) : Except SubstSpec.Err Str → Except SubstSpec.Err Str
  | .error (.missing _ n) => .error (.missing src n)
  | r => r

theorem substcor_withSourceS_map (src : Str) (x : Except SubstSpec.Err Str) (f : Str → Str) :
    withSourceS src (x.map f) = (withSourceS src x).map f := by
  cases x with
  | ok v => rfl
  | error e => cases e <;> rfl

theorem substcor_withSource_map (src : Str) (x : Except Err Str) (f : Str → Str) :
    withSource src (x.map f) = (withSource src x).map f := by
  cases x with
  | ok v => rfl
  | error e => cases e <;> rfl

theorem substcor_conv_withSource (src : Str) (x : Except Err Str) :
    conv (withSource src x) = withSourceS src (conv x) := by
  cases x with
  | ok v => rfl
  | error e => cases e <;> rfl

theorem substcor_conv_map (x : Except Err Str) (f : Str → Str) : conv (x.map f) = (conv x).map f := by
  cases x <;> rfl

theorem substcor_conv_inj {x y : Except Err Str} (h : conv x = conv y) : x = y := by
  cases x with
  | ok a =>
    cases y with
    | ok b => simp only [conv, Except.ok.injEq] at h; rw [h]
    | error e => simp [conv] at h
  | error e =>
    cases y with
    | ok b => simp [conv] at h
    | error e' =>
      cases e <;> cases e' <;> simp_all [conv, toSpecErr]

/-- substituting into `t` as part of `src'` or as part of `src` differs only in the source quoted by the error -/
theorem substcor_spec_src (defs env : Str → Option Str) (src src' : Str) :
    ∀ (n : Nat) (t : Str), t.length ≤ n → spec defs env src' t = withSourceS src' (spec defs env src t) := by
  intro n
  induction n with
  | zero =>
    intro t hl
    have : t = [] := by cases t <;> simp_all
    subst this
    rw [spec_nil, spec_nil]; rfl
  | succ n ih =>
    intro t hl
    cases t with
    | nil => rw [spec_nil, spec_nil]; rfl
    | cons c r =>
      have hr : r.length ≤ n := by simp only [List.length_cons] at hl; omega
      by_cases hc : c = '$'
      · subst hc
        rw [substcor_spec_step, substcor_spec_step]
        cases hf : firstConstruct r with
        | malformed k => rfl
        | esc r' =>
          have := (substcor_first_esc r r').1 hf
          have hl' : r'.length ≤ n := by subst this; simp only [List.length_cons] at hr; omega
          simp only
          rw [ih r' hl', substcor_withSourceS_map]
        | ref name vt r' =>
          have hlen := substcor_isRef_len ((substcor_first_ref _ _ _ _).1 hf)
          simp only
          cases lookupRef defs env vt name with
          | none => rfl
          | some v =>
            simp only
            rw [ih r' (by omega), substcor_withSourceS_map]
      · rw [spec_lit _ _ _ _ _ hc, spec_lit _ _ _ _ _ hc, ih r hr, substcor_withSourceS_map]

/-- the main theorem of C04 (restated here so that this file does not depend on the property file) -/
theorem substcor_conv_main (defs env : Str → Option Str) (r : Str) :
    conv (substitute defs env r) = spec defs env r r := by
  have h := loop_eq defs env r (r.length + 1) r [] (by omega)
  unfold substitute
  by_cases hd : '$' ∈ r
  · have : r.contains '$' = true := by simpa using hd
    simp only [this, ↓reduceIte]
    rw [h]
    cases spec defs env r r <;> simp
  · have : r.contains '$' = false := by simpa using hd
    simp only [this, Bool.false_eq_true, ↓reduceIte]
    have := spec_prefix defs env r r [] hd
    simp only [List.append_nil, spec_nil, map_ok] at this
    simp [conv, this]

/-- the model in terms of the documented function, with the source re-attributed -/
theorem substcor_conv_sub (defs env : Str → Option Str) (src r : Str) :
    withSourceS src (conv (substitute defs env r)) = spec defs env src r := by
  rw [substcor_conv_main]
  exact (substcor_spec_src defs env r src r.length r (Nat.le_refl _)).symm

/-- **one construct at a time, for the model**: `substitute` on a text whose first `$` is followed by `t` -/
theorem substcor_model_step (defs env : Str → Option Str) (pre t : Str) (hp : '$' ∉ pre) :
    substitute defs env (pre ++ '$' :: t) =
      match firstConstruct t with
      | .malformed c => .error (.syntax c)
      | .esc r => withSource (pre ++ '$' :: t) ((substitute defs env r).map (pre ++ '$' :: ·))
      | .ref name vt r =>
        match lookupRef defs env vt name with
        | none => .error (.missing (pre ++ '$' :: t) name)
        | some v => withSource (pre ++ '$' :: t) ((substitute defs env r).map (pre ++ v ++ ·)) := by
  apply substcor_conv_inj
  rw [substcor_conv_main, spec_prefix _ _ _ _ _ hp, substcor_spec_step]
  cases firstConstruct t with
  | malformed c => rfl
  | esc r =>
    simp only
    rw [substcor_conv_withSource, substcor_conv_map, substcor_withSourceS_map, substcor_conv_sub, map_map]
    rfl
  | ref name vt r =>
    simp only
    cases lookupRef defs env vt name with
    | none => rfl
    | some v =>
      simp only
      rw [substcor_conv_withSource, substcor_conv_map, substcor_withSourceS_map, substcor_conv_sub, map_map]
      congr 1
      funext x
      simp only [Function.comp, List.append_assoc]

/-! ### the fates, for the model -/

theorem substcor_replaced_iff (defs env : Str → Option Str) (t v r : Str) :
    Replaced defs env t v r ↔
      (firstConstruct t = .esc r ∧ v = ['$']) ∨
      (∃ name vt, firstConstruct t = .ref name vt r ∧ lookupRef defs env vt name = some v) := by
  constructor
  · intro h
    cases h with
    | esc r => exact .inl ⟨(substcor_first_esc _ _).2 rfl, rfl⟩
    | ref h1 h2 => exact .inr ⟨_, _, (substcor_first_ref _ _ _ _).2 h1, h2⟩
  · rintro (⟨h, rfl⟩ | ⟨name, vt, h1, h2⟩)
    · rw [(substcor_first_esc _ _).1 h]; exact .esc r
    · exact .ref ((substcor_first_ref _ _ _ _).1 h1) h2

theorem substcor_withSource_syntax (src : Str) (x : Except Err Str) (f : Str → Str) (c : Nat) :
    withSource src (x.map f) = .error (.syntax c) ↔ x = .error (.syntax c) := by
  cases x with
  | ok v => simp [withSource, Except.map]
  | error e => cases e <;> simp [withSource, Except.map]

/-- a `$` construct that is replaced: the value is spliced in and substitution goes on with the text AFTER the
    construct — the value is never rescanned -/
theorem substcor_replaced (defs env : Str → Option Str) (pre t v r : Str) (hp : '$' ∉ pre)
    (h : Replaced defs env t v r) :
    substitute defs env (pre ++ '$' :: t) =
      withSource (pre ++ '$' :: t) ((substitute defs env r).map (pre ++ v ++ ·)) := by
  rw [substcor_model_step _ _ _ _ hp]
  rcases (substcor_replaced_iff _ _ _ _ _).1 h with ⟨h1, rfl⟩ | ⟨name, vt, h1, h2⟩
  · rw [h1]
    simp only
    congr 2
    funext x
    simp only [List.append_assoc, List.singleton_append]
  · rw [h1]
    simp only [h2]

/-- a reference whose name has no value: the replacement error carries the name as written and the whole source -/
theorem substcor_unresolved (defs env : Str → Option Str) (pre t name : Str) (vt : VT) (r : Str) (hp : '$' ∉ pre)
    (h : IsRef t name vt r) (hv : lookupRef defs env vt name = none) :
    substitute defs env (pre ++ '$' :: t) = .error (.missing (pre ++ '$' :: t) name) := by
  rw [substcor_model_step _ _ _ _ hp, (substcor_first_ref _ _ _ _).2 h]
  simp only [hv]

theorem substcor_malformed (defs env : Str → Option Str) (pre t : Str) (c : Nat) (hp : '$' ∉ pre)
    (h : Malformed t c) : substitute defs env (pre ++ '$' :: t) = .error (.syntax c) := by
  rw [substcor_model_step _ _ _ _ hp, (substcor_first_malformed _ _).2 h]

/-- when the result is the syntax error `c`: the first construct is malformed (at raise site `c`), or it is replaced and
    the rest of the text gives the syntax error `c` -/
theorem substcor_syntax_iff (defs env : Str → Option Str) (pre t : Str) (c : Nat) (hp : '$' ∉ pre) :
    substitute defs env (pre ++ '$' :: t) = .error (.syntax c) ↔
      Malformed t c ∨ ∃ v r, Replaced defs env t v r ∧ substitute defs env r = .error (.syntax c) := by
  rw [substcor_model_step _ _ _ _ hp]
  cases hf : firstConstruct t with
  | malformed k =>
    simp only [Except.error.injEq, Err.syntax.injEq]
    constructor
    · rintro rfl
      exact .inl ((substcor_first_malformed _ _).1 hf)
    · rintro (h | ⟨v, r, h, _⟩)
      · have := (substcor_first_malformed _ _).2 h
        rw [hf] at this
        cases this; rfl
      · rcases (substcor_replaced_iff _ _ _ _ _).1 h with ⟨h1, _⟩ | ⟨name, vt, h1, _⟩ <;> (rw [hf] at h1; cases h1)
  | esc r =>
    simp only
    rw [substcor_withSource_syntax]
    constructor
    · intro h
      exact .inr ⟨['$'], r, (substcor_replaced_iff _ _ _ _ _).2 (.inl ⟨hf, rfl⟩), h⟩
    · rintro (h | ⟨v, r', h, h'⟩)
      · have := (substcor_first_malformed _ _).2 h
        rw [hf] at this
        cases this
      · rcases (substcor_replaced_iff _ _ _ _ _).1 h with ⟨h1, _⟩ | ⟨name, vt, h1, _⟩
        · rw [hf] at h1; cases h1; exact h'
        · rw [hf] at h1; cases h1
  | ref name vt r =>
    simp only
    cases hv : lookupRef defs env vt name with
    | none =>
      simp only
      constructor
      · intro h; cases h
      · rintro (h | ⟨v, r', h, h'⟩)
        · have := (substcor_first_malformed _ _).2 h
          rw [hf] at this
          cases this
        · rcases (substcor_replaced_iff _ _ _ _ _).1 h with ⟨h1, _⟩ | ⟨name', vt', h1, h2⟩
          · rw [hf] at h1; cases h1
          · rw [hf] at h1; cases h1; rw [hv] at h2; cases h2
    | some v =>
      simp only
      rw [substcor_withSource_syntax]
      constructor
      · intro h
        exact .inr ⟨v, r, (substcor_replaced_iff _ _ _ _ _).2 (.inr ⟨name, vt, hf, hv⟩), h⟩
      · rintro (h | ⟨v', r', h, h'⟩)
        · have := (substcor_first_malformed _ _).2 h
          rw [hf] at this
          cases this
        · rcases (substcor_replaced_iff _ _ _ _ _).1 h with ⟨h1, _⟩ | ⟨name', vt', h1, h2⟩
          · rw [hf] at h1; cases h1
          · rw [hf] at h1; cases h1; exact h'

/-- every construct has exactly one of the three fates -/
theorem substcor_fates (defs env : Str → Option Str) (t : Str) :
    (∃ c, Malformed t c) ∨ (∃ v r, Replaced defs env t v r) ∨
      (∃ name vt r, IsRef t name vt r ∧ lookupRef defs env vt name = none) := by
  cases hf : firstConstruct t with
  | malformed k => exact .inl ⟨k, (substcor_first_malformed _ _).1 hf⟩
  | esc r => exact .inr (.inl ⟨_, r, (substcor_replaced_iff _ _ _ _ _).2 (.inl ⟨hf, rfl⟩)⟩)
  | ref name vt r =>
    cases hv : lookupRef defs env vt name with
    | none => exact .inr (.inr ⟨name, vt, r, (substcor_first_ref _ _ _ _).1 hf, hv⟩)
    | some v => exact .inr (.inl ⟨v, r, (substcor_replaced_iff _ _ _ _ _).2 (.inr ⟨name, vt, hf, hv⟩)⟩)

theorem substcor_isRef_suffix {t name : Str} {vt : VT} {r : Str} (h : IsRef t name vt r) : ∃ x, t = x ++ r := by
  cases h with
  | bare n r _ _ => exact ⟨_, rfl⟩
  | brace n r _ => exact ⟨'{' :: (name ++ ['}']), by simp⟩
  | paren n r _ => exact ⟨'(' :: (name ++ [')']), by simp⟩

/-- where a replacement error comes from: a reference, somewhere in the text, whose lookup fails; the error quotes its
    name as written -/
theorem substcor_spec_missing (defs env : Str → Option Str) (src : Str) :
    ∀ (n : Nat) (t a b : Str), t.length ≤ n → spec defs env src t = .error (.missing a b) →
      ∃ pre u vt rest, t = pre ++ '$' :: u ∧ IsRef u b vt rest ∧ lookupRef defs env vt b = none := by
  intro n
  induction n with
  | zero =>
    intro t a b hl h
    have : t = [] := by cases t <;> simp_all
    subst this; simp [spec_nil] at h
  | succ n ih =>
    intro t a b hl h
    cases t with
    | nil => simp [spec_nil] at h
    | cons c r =>
      have hr : r.length ≤ n := by simp only [List.length_cons] at hl; omega
      by_cases hc : c = '$'
      · subst hc
        rw [substcor_spec_step] at h
        cases hf : firstConstruct r with
        | malformed k => rw [hf] at h; cases h
        | esc r' =>
          rw [hf] at h
          have hr' := (substcor_first_esc r r').1 hf
          subst hr'
          obtain ⟨pre, u, vt, rest, h1, h2, h3⟩ := ih r' a b (by simp only [List.length_cons] at hr; omega) (map_error_inv h)
          exact ⟨'$' :: '$' :: pre, u, vt, rest, by rw [h1]; rfl, h2, h3⟩
        | ref name vt r' =>
          rw [hf] at h
          have href := (substcor_first_ref _ _ _ _).1 hf
          have hlen := substcor_isRef_len href
          cases hv : lookupRef defs env vt name with
          | none =>
            simp only [hv, Except.error.injEq, SubstSpec.Err.missing.injEq] at h
            obtain ⟨_, rfl⟩ := h
            exact ⟨[], r, vt, r', rfl, href, hv⟩
          | some v =>
            simp only [hv] at h
            obtain ⟨pre, u, vt', rest, h1, h2, h3⟩ := ih r' a b (by omega) (map_error_inv h)
            obtain ⟨x, hx⟩ := substcor_isRef_suffix href
            exact ⟨'$' :: x ++ pre, u, vt', rest, by rw [hx, h1]; simp, h2, h3⟩
      · rw [spec_lit _ _ _ _ _ hc] at h
        obtain ⟨pre, u, vt, rest, h1, h2, h3⟩ := ih r a b hr (map_error_inv h)
        exact ⟨c :: pre, u, vt, rest, by rw [h1]; rfl, h2, h3⟩

theorem substcor_model_missing (defs env : Str → Option Str) (s a b : Str)
    (h : substitute defs env s = .error (.missing a b)) :
    a = s ∧ ∃ pre u vt rest, s = pre ++ '$' :: u ∧ IsRef u b vt rest ∧ lookupRef defs env vt b = none := by
  have h1 := substcor_conv_main defs env s
  rw [h] at h1
  simp only [conv, toSpecErr] at h1
  exact ⟨spec_missing_source defs env s s.length s a b (Nat.le_refl _) h1.symm,
    substcor_spec_missing defs env s s.length s a b (Nat.le_refl _) h1.symm⟩

/-- results can be compared (used by the closed examples of the property file) -/
instance substcor_decEqResult : DecidableEq (Except Err Str) := fun x y =>
  match x, y with
  | .ok a, .ok b => if h : a = b then isTrue (by rw [h]) else isFalse (by intro h'; cases h'; exact h rfl)
  | .error a, .error b => if h : a = b then isTrue (by rw [h]) else isFalse (by intro h'; cases h'; exact h rfl)
  | .ok _, .error _ => isFalse (by intro h; cases h)
  | .error _, .ok _ => isFalse (by intro h; cases h)

/-! ### an evaluator that reduces (structural recursion on fuel), for closed examples -/

def substcorEval (defs env : Str → Option Str) (src : Str) : Nat → Str → Except Err Str
  | 0, _ => .ok []
  | _ + 1, [] => .ok []
  | n + 1, c :: t =>
    if c = '$' then
      match firstConstruct t with
      | .malformed k => .error (.syntax k)
      | .esc r => (substcorEval defs env src n r).map ('$' :: ·)
      | .ref name vt r =>
        match lookupRef defs env vt name with
        | none => .error (.missing src name)
        | some v => (substcorEval defs env src n r).map (v ++ ·)
    else (substcorEval defs env src n t).map (c :: ·)

theorem substcor_eval_spec (defs env : Str → Option Str) (src : Str) :
    ∀ (n : Nat) (t : Str), t.length < n → conv (substcorEval defs env src n t) = spec defs env src t := by
  intro n
  induction n with
  | zero => intro t h; omega
  | succ n ih =>
    intro t hl
    cases t with
    | nil => rw [spec_nil]; rfl
    | cons c r =>
      have hr : r.length < n := by simp only [List.length_cons] at hl; omega
      by_cases hc : c = '$'
      · subst hc
        rw [substcor_spec_step]
        simp only [substcorEval, ↓reduceIte]
        cases hf : firstConstruct r with
        | malformed k => rfl
        | esc r' =>
          have := (substcor_first_esc r r').1 hf
          have hl' : r'.length < n := by subst this; simp only [List.length_cons] at hr; omega
          simp only
          rw [substcor_conv_map, ih r' hl']
        | ref name vt r' =>
          have hlen := substcor_isRef_len ((substcor_first_ref _ _ _ _).1 hf)
          simp only
          cases lookupRef defs env vt name with
          | none => rfl
          | some v =>
            simp only
            rw [substcor_conv_map, ih r' (by omega)]
      · rw [spec_lit _ _ _ _ _ hc]
        simp only [substcorEval, hc, ↓reduceIte]
        rw [substcor_conv_map, ih r hr]

/-- the model computes what the reducing evaluator computes -/
theorem substcor_eval_eq (defs env : Str → Option Str) (s : Str) :
    substitute defs env s = substcorEval defs env s (s.length + 1) s := by
  apply substcor_conv_inj
  rw [substcor_conv_main, substcor_eval_spec defs env s (s.length + 1) s (by omega)]

/-- `isname` accepts exactly the legal names (as `C04_isname_spec`; restated for the lemma files) -/
theorem substcor_isname (s : Str) : isname s = isnameSpec s := by
  unfold isname isnameSpec
  have := nameMatchAt_eq [] s
  simp only [List.nil_append, List.length_nil, Nat.zero_add] at this
  rw [this]
  cases s with
  | nil => simp [nameSplit]
  | cons c t =>
    simp only [nameSplit]
    by_cases hc : isNameStart c
    · simp only [hc, ↓reduceIte, Option.map_some, Bool.true_and, ← takeWhile_eq_self_iff]
      rw [Bool.eq_iff_iff]; simp
    · simp [hc]

end ZCV.Subst
