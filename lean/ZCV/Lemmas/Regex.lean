import ZCV.Model.Regex
/-! General lemmas about the first match of the backtracking semantics. -/
namespace ZCV.Rx

theorem head_flatMap {α β} {l : List α} {f : α → List β} {x : α} {y : β}
    (hl : l.head? = some x) (hf : (f x).head? = some y) : (l.flatMap f).head? = some y := by
  cases l with
  | nil => simp at hl
  | cons a as =>
    simp at hl; subst hl
    cases hfa : f a with
    | nil => simp [hfa] at hf
    | cons b bs => simp [hfa] at hf; subst hf; simp [List.flatMap_cons, hfa]

theorem head_append {α} {l l' : List α} {y : α} (h : l.head? = some y) : (l ++ l').head? = some y := by
  cases l with
  | nil => simp at h
  | cons a as => simpa using h

theorem length_dropWhile_le {α} (p : α → Bool) (l : List α) : (l.dropWhile p).length ≤ l.length := by
  induction l with
  | nil => simp
  | cons a l ih => simp only [List.dropWhile_cons]; split <;> simp <;> omega

theorem len_take_drop {α} (p : α → Bool) (t : List α) :
    (t.takeWhile p).length + (t.dropWhile p).length = t.length := by
  induction t with
  | nil => simp
  | cons a l ih => simp only [List.takeWhile_cons, List.dropWhile_cons]; split <;> simp <;> omega

theorem take_len_takeWhile {α} (p : α → Bool) (t : List α) :
    t.take (t.takeWhile p).length = t.takeWhile p := by
  induction t with
  | nil => simp
  | cons a l ih => simp only [List.takeWhile_cons]; split <;> simp [ih]

theorem dropWhile_head_not {α} (p : α → Bool) (s : List α) (x : α) (xs : List α)
    (h : s.dropWhile p = x :: xs) : p x = false := by
  induction s with
  | nil => simp at h
  | cons c t ih =>
    simp only [List.dropWhile_cons] at h
    split at h
    · exact ih h
    · rename_i hc; injection h with h1 _; subst h1; simpa using hc

theorem mem_of_dropWhile {α} {p : α → Bool} {s : List α} {a : α} (h : a ∈ s.dropWhile p) : a ∈ s := by
  induction s with
  | nil => simpa using h
  | cons c t ih =>
    simp only [List.dropWhile_cons] at h
    split at h
    · exact List.mem_cons_of_mem _ (ih h)
    · exact h

theorem dropWhile_congr {α} {p q : α → Bool} (h : ∀ c, p c = q c) (s : List α) :
    s.dropWhile p = s.dropWhile q := by
  have : p = q := funext h
  rw [this]

theorem takeWhile_congr {α} {p q : α → Bool} (h : ∀ c, p c = q c) (s : List α) :
    s.takeWhile p = s.takeWhile q := by
  have : p = q := funext h
  rw [this]

/-- greedy star over a one-character class: the first result is the maximal run -/
theorem star_cls_head (w : Nat) (k : Cls) (cs : Caps) : ∀ (f : Nat) (s : Str), s.length ≤ f →
    (m w (.star (.cls k)) f (s, cs)).head? = some (s.dropWhile k.test, cs) := by
  intro f
  induction f with
  | zero => intro s h; cases s <;> simp_all [m]
  | succ f ih =>
    intro s h
    cases s with
    | nil => simp [m]
    | cons c t =>
      simp only [m]
      by_cases hc : k.test c
      · simp only [hc, ↓reduceIte, List.filter_cons, List.length_cons, Nat.lt_add_one, decide_true,
          List.filter_nil, List.dropWhile_cons]
        apply head_append
        exact head_flatMap (x := (t, cs)) rfl (ih t (by simp at h; omega))
      · simp [hc]

theorem star_any_head (w : Nat) (cs : Caps) : ∀ (f : Nat) (s : Str), s.length ≤ f → '\n' ∉ s →
    (m w (.star .any) f (s, cs)).head? = some ([], cs) := by
  intro f
  induction f with
  | zero => intro s h _; cases s <;> simp_all [m]
  | succ f ih =>
    intro s h hn
    cases s with
    | nil => simp [m]
    | cons c t =>
      have hc : (c != '\n') = true := by
        simp only [List.mem_cons, not_or] at hn; simpa using fun h => hn.1 h.symm
      have ht : '\n' ∉ t := by simp only [List.mem_cons, not_or] at hn; exact hn.2
      simp only [m, hc, ↓reduceIte, List.filter_cons, List.length_cons, Nat.lt_add_one, decide_true,
          List.filter_nil]
      apply head_append
      exact head_flatMap (x := (t, cs)) rfl (ih t (by simp at h; omega) ht)

/-- `[k1][k2]*` (the shape of every "name" pattern): first match = head in k1, then the maximal k2-run -/
theorem cls_star_head (w : Nat) (k1 k2 : Cls) (cs : Caps) (f : Nat) (s : Str) (hf : s.length ≤ f) :
    (m w (.seq (.cls k1) (.star (.cls k2))) f (s, cs)).head? =
      match s with
      | c :: t => if k1.test c then some (t.dropWhile k2.test, cs) else none
      | [] => none := by
  cases s with
  | nil => simp [m]
  | cons c t =>
    by_cases hc : k1.test c
    · simp only [hc, ↓reduceIte]
      rw [m]
      refine head_flatMap (x := (t, cs)) (by simp [m, hc]) ?_
      exact star_cls_head w k2 cs f t (by simp at hf; omega)
    · simp [m, hc]

end ZCV.Rx
