import ZCV.Lemmas.ElabInv
/-!
A closed instance for the `example`s next to the end-to-end theorems: the schema document of `Elab.Example`
(`ZCV/Lemmas/ElabInv.lean`; it extends a base schema and imports a component) is accepted with the stock key types.
-/
namespace ZCV.DischargeEx
open ZCV ZCV.Cfg

/-- the schema document of `Elab.Example` is accepted (with the stock key types) -/
theorem dis_ex_doc_accepted : ∃ S, Elab.elabSchema Elab.Example.env 1 Elab.Example.doc = .ok S := by
  have h : (Elab.elabSchema Elab.Example.env 1 Elab.Example.doc).toOption.isSome = true := by decide +kernel
  cases hS : Elab.elabSchema Elab.Example.env 1 Elab.Example.doc with
  | ok S => exact ⟨S, rfl⟩
  | error e => rw [hS] at h; cases h

/-- … and the schema it yields declares nothing at top level -/
theorem dis_ex_doc_accepted_empty :
    ∃ S, Elab.elabSchema Elab.Example.env 1 Elab.Example.doc = .ok S ∧ S.top.children = [] := by
  have h : (Elab.elabSchema Elab.Example.env 1 Elab.Example.doc).toOption.map (fun S => S.top.children.isEmpty) = some true := by
    decide +kernel
  cases hS : Elab.elabSchema Elab.Example.env 1 Elab.Example.doc with
  | ok S =>
    rw [hS] at h
    simp only [Except.toOption, Option.map_some, Option.some.injEq, List.isEmpty_iff] at h
    exact ⟨S, rfl, h⟩
  | error e => rw [hS] at h; cases h

theorem dis_ex_env_stock : Elab.Example.env.conv = stockConv := rfl

end ZCV.DischargeEx
