import ZCV.Lemmas.OverrideEval
import ZCV.Spec.Edit
/-!
The option bag (`mkBag`, `bagSectionInfo`, `finishBag`) in the vocabulary of the edit specification
(`splitOvs` / `collect`, `addresses` / `dropHead`, `newLines`).
-/
namespace ZCV.Conf
open ZCV ZCV.Cfg

/-! ### operations of the matcher do not look at the bag -/

theorem addValueCore_withBag (m : Matcher) (b : Option Bag) (key rk v : Str) (pos : Pos) :
    addValueCore (withBag m b) key rk v pos = (addValueCore m key rk v pos).map (withBag · b) := by
  unfold addValueCore withBag
  simp only [getSlot, setSlot]
  repeat' split
  all_goals rfl

theorem addValueCore_key_irrel (m : Matcher) (k1 k2 rk v : Str) (pos : Pos) :
    addValueCore m k1 rk v pos = addValueCore m k2 rk v pos := rfl

theorem addValueCore_ty (m m' : Matcher) (key rk v : Str) (pos : Pos)
    (h : addValueCore m key rk v pos = .ok m') : m'.ty = m.ty := by
  unfold addValueCore at h
  split_hyp h
  all_goals first | (cases h; rfl) | cases h

theorem addSection_withBag (s : Schema) (m : Matcher) (b : Option Bag) (ty : Str) (nm : Option Str) (v : Val) :
    addSection s (withBag m b) ty nm v = (addSection s m ty nm v).map (withBag · b) := by
  rw [addSection_eq, addSection_eq]
  unfold withBag
  simp only [getSlot, setSlot]
  repeat' split
  all_goals rfl

theorem addSection_ty (s : Schema) (m m' : Matcher) (ty : Str) (nm : Option Str) (v : Val)
    (h : addSection s m ty nm v = .ok m') : m'.ty = m.ty := by
  rw [addSection_eq] at h
  split_hyp h
  all_goals first | (cases h; rfl) | cases h

/-- `addValue` on a matcher without bag -/
theorem addValue_nobag (conv : Conv) (m : Matcher) (hb : m.bag = none) (k v : Str) (pos : Pos) :
    addValue conv m k v pos =
      match conv.key m.ty.keytype k with
      | .error e => .error (convFail e (some k) pos "key")
      | .ok rk => addValueCore m k rk v pos := by
  unfold addValue
  rw [hb]
  cases conv.key m.ty.keytype k <;> rfl

/-- `addValue` on a matcher with a bag: a line for an overridden key is ignored -/
theorem addValue_bag_eq (conv : Conv) (m : Matcher) (b : Bag) (k v : Str) (pos : Pos) :
    addValue conv (withBag m (some b)) k v pos =
      match conv.key m.ty.keytype k with
      | .error e => .error (convFail e (some k) pos "key")
      | .ok rk =>
        if b.keypairs.any (·.1 == rk) then .ok (withBag m (some b))
        else (addValueCore m k rk v pos).map (withBag · (some b)) := by
  unfold addValue
  show (match conv.key m.ty.keytype k with
    | .error e => _
    | .ok rk => _) = _
  cases conv.key m.ty.keytype k with
  | error e => rfl
  | ok rk =>
    show (if b.keypairs.any (·.1 == rk) then _ else addValueCore (withBag m (some b)) k rk v pos) = _
    rw [addValueCore_withBag]

/-! ### what evaluation preserves -/

theorem bagStep_ty (conv : Conv) (s : Schema) (m : Matcher) (ty : Str) (nm : Option Str) (m1 : Matcher) (cb : Option Bag)
    (h : bagStep conv s m ty nm = .ok (m1, cb)) : m1.ty = m.ty ∧ (m.bag = none → m1.bag = none) := by
  unfold bagStep at h
  split at h
  · cases h; exact ⟨rfl, fun hb => hb⟩
  · rename_i b hb
    split at h
    · cases h
    · cases h; exact ⟨rfl, fun hn => by rw [hb] at hn; cases hn⟩

theorem evalItemB_pres (conv : Conv) (s : Schema) (m m' : Matcher) (i : Item)
    (h : evalItemB conv s m i = .ok m') : m'.ty = m.ty ∧ (m.bag = none → m'.bag = none) := by
  cases i with
  | kv k v p =>
    rw [evalItemB] at h
    refine ⟨?_, fun hb => addValue_bag conv m m' k v p hb h⟩
    unfold addValue at h
    split at h
    · cases h
    · split at h
      · split at h
        · cases h; rfl
        · exact addValueCore_ty _ _ _ _ _ _ h
      · exact addValueCore_ty _ _ _ _ _ _ h
  | sect ty nm items =>
    rw [evalItemB] at h
    split at h
    · cases h
    · split at h
      · cases h
      · rename_i m1 cb hbs
        split at h
        · cases h
        · split at h
          · cases h
          · have h1 := bagStep_ty _ _ _ _ _ _ _ hbs
            refine ⟨by rw [addSection_ty _ _ _ _ _ _ h, h1.1], fun hb => ?_⟩
            exact addSection_bag _ _ _ _ _ _ (h1.2 hb) h

theorem evalItemsB_pres (conv : Conv) (s : Schema) : ∀ (l : List Item) (m m' : Matcher),
    evalItemsB conv s m l = .ok m' → m'.ty = m.ty ∧ (m.bag = none → m'.bag = none)
  | [], m, m', h => by
    rw [evalItemsB_nil] at h
    cases h
    exact ⟨rfl, fun hb => hb⟩
  | i :: r, m, m', h => by
    rw [evalItemsB_cons] at h
    cases h1 : evalItemB conv s m i with
    | error e => rw [h1] at h; cases h
    | ok m1 =>
      rw [h1] at h
      have p1 := evalItemB_pres conv s m m1 i h1
      have p2 := evalItemsB_pres conv s r m1 m' h
      exact ⟨by rw [p2.1, p1.1], fun hb => p2.2 (p1.2 hb)⟩

/-! ### `finishMatcher` = `finishBag`, then the rest -/

def finishRest (conv : Conv) (s : Schema) (m : Matcher) : M (Val × List (Str × Val)) := do
  let slots ← m.ty.children.mapM fun (_, ci) =>
    match getSlot m ci.attr with
    | some sl => (finishChild ci sl).map fun r => (ci, r)
    | Option.none => .error (.internal "KeyError")
  let vals ← slots.mapM fun (ci, sl) => (constructChild conv s ci sl).map fun v => (ci, v)
  let attrs := vals.map fun (ci, v) => (ci.attr, v)
  let hs := vals.filterMap fun (ci, v) => ci.handler.map fun h => (h, v)
  pure (.sect (m.ty.name.getD []) m.name attrs, hs)

theorem finishMatcher_split (conv : Conv) (s : Schema) (m : Matcher) :
    finishMatcher conv s m = finishBag conv m >>= finishRest conv s := rfl

theorem finishBag_nobag (conv : Conv) (m : Matcher) (hb : m.bag = none) : finishBag conv m = .ok m := by
  unfold finishBag
  rw [hb]

theorem finishMatcher_nobag (conv : Conv) (s : Schema) (m : Matcher) (hb : m.bag = none) :
    finishMatcher conv s m = finishRest conv s m := by
  rw [finishMatcher_split, finishBag_nobag conv m hb]
  rfl

/-! ### `mkBag` is `splitOvs` + `collect` -/

/-- one step of `collect` -/
def cstep {α : Type} (acc : List (Str × List α)) (kv : Str × α) : List (Str × List α) :=
  if acc.any (·.1 == kv.1) then acc.map (fun p => if p.1 == kv.1 then (p.1, p.2 ++ [kv.2]) else p)
  else acc ++ [(kv.1, [kv.2])]

theorem collect_eq {α : Type} (l : List (Str × α)) : collect l = l.foldl cstep [] := rfl

/-- the bag keeps the values only -/
def strip (G : List (Str × List (Str × Str))) : List (Str × List Str) := G.map fun g => (g.1, g.2.map (·.2))

theorem strip_keys (G : List (Str × List (Str × Str))) : (strip G).map (·.1) = G.map (·.1) := by
  unfold strip
  rw [List.map_map]
  rfl

theorem strip_any (G : List (Str × List (Str × Str))) (n : Str) :
    (strip G).any (·.1 == n) = G.any (·.1 == n) := by
  unfold strip
  rw [List.any_map]
  rfl

theorem strip_cstep (G : List (Str × List (Str × Str))) (n k v : Str) :
    strip (cstep G (n, (k, v))) =
      if (strip G).any (·.1 == n) then (strip G).map (fun p => if p.1 == n then (p.1, p.2 ++ [v]) else p)
      else strip G ++ [(n, [v])] := by
  rw [strip_any]
  unfold cstep
  by_cases h : G.any (·.1 == n) = true
  · simp only [h, if_true]
    unfold strip
    rw [List.map_map, List.map_map]
    apply List.map_congr_left
    intro g _
    simp only [Function.comp]
    by_cases hg : (g.1 == n) = true
    · simp only [hg, if_true, List.map_append, List.map_cons, List.map_nil]
    · simp only [hg, Bool.false_eq_true, if_false]
  · simp only [h, Bool.false_eq_true, if_false]
    unfold strip
    rw [List.map_append]
    rfl

def mkBagStep (conv : Conv) (t : SType) (b : Bag) (it : OptItem) : M Bag :=
  match it.path with
  | [] => .error (.internal "IndexError")
  | [k] =>
    match conv.key t.keytype k with
    | .ok name =>
      let kp := if b.keypairs.any (·.1 == name)
        then b.keypairs.map (fun p => if p.1 == name then (p.1, p.2 ++ [it.val]) else p)
        else b.keypairs ++ [(name, [it.val])]
      .ok { b with keypairs := kp }
    | .error e => .error (convFail e (some k) { line := -1, url := some "<command-line option>".toList } "override key")
  | _ => .ok { b with sectitems := b.sectitems ++ [it] }

theorem mkBag_eq_fold (conv : Conv) (t : SType) (items : List OptItem) :
    mkBag conv t items = items.foldlM (mkBagStep conv t) { keypairs := [], sectitems := [] } := rfl

/-- the pair fed to `collect` for one key override -/
def kvOf (x : KeyOv) : Str × (Str × Str) := (x.norm, (x.key, x.val))

theorem groupsOf_eq (ks : List KeyOv) : groupsOf ks = (ks.map kvOf).foldl cstep [] := rfl

theorem mkBag_fold_spec (conv : Conv) (t : SType) : ∀ (items : List OptItem) (G : List (Str × List (Str × Str)))
    (ss0 : List OptItem),
    match splitOvs (conv.key t.keytype) items with
    | .error _ => ∃ e, items.foldlM (mkBagStep conv t) { keypairs := strip G, sectitems := ss0 } = .error e
    | .ok (ks, ss) =>
      items.foldlM (mkBagStep conv t) { keypairs := strip G, sectitems := ss0 } =
        .ok { keypairs := strip ((ks.map kvOf).foldl cstep G), sectitems := ss0 ++ ss }
  | [], G, ss0 => by
    rw [splitOvs]
    simp [pure, Except.pure]
  | o :: r, G, ss0 => by
    rw [splitOvs, List.foldlM_cons]
    obtain ⟨path, val⟩ := o
    cases path with
    | nil => exact ⟨_, rfl⟩
    | cons k more =>
      cases more with
      | nil =>
        simp only [mkBagStep]
        cases hk : conv.key t.keytype k with
        | error e => exact ⟨_, rfl⟩
        | ok n =>
          simp only
          have ih := mkBag_fold_spec conv t r (cstep G (n, (k, val))) ss0
          rw [strip_cstep] at ih
          cases hs : splitOvs (conv.key t.keytype) r with
          | error e =>
            rw [hs] at ih
            exact ih
          | ok p =>
            obtain ⟨ks, ss⟩ := p
            rw [hs] at ih
            simp only at ih ⊢
            exact ih
      | cons k2 more2 =>
        simp only [mkBagStep]
        have ih := mkBag_fold_spec conv t r G (ss0 ++ [{ path := k :: k2 :: more2, val := val }])
        cases hs : splitOvs (conv.key t.keytype) r with
        | error e =>
          rw [hs] at ih
          exact ih
        | ok p =>
          obtain ⟨ks, ss⟩ := p
          rw [hs] at ih
          simp only at ih ⊢
          rw [List.append_assoc] at ih
          exact ih

/-- **`mkBag`** in the words of the specification -/
theorem mkBag_spec (conv : Conv) (t : SType) (ovs : List OptItem) :
    match splitOvs (conv.key t.keytype) ovs with
    | .error _ => ∃ e, mkBag conv t ovs = .error e
    | .ok (ks, ss) => mkBag conv t ovs = .ok { keypairs := strip (groupsOf ks), sectitems := ss } := by
  have h := mkBag_fold_spec conv t ovs [] []
  rw [mkBag_eq_fold]
  cases hs : splitOvs (conv.key t.keytype) ovs with
  | error e => rw [hs] at h; exact h
  | ok p =>
    obtain ⟨ks, ss⟩ := p
    rw [hs] at h
    simp only [List.nil_append] at h
    exact h

/-- what `splitOvs` returns: the key overrides normalise as recorded; the others are overrides of the list with a
    path of length two or more -/
theorem splitOvs_inv (norm : Str → Except ConvErr Str) : ∀ (ovs : List OptItem) (ks : List KeyOv) (ss : List OptItem),
    splitOvs norm ovs = .ok (ks, ss) →
      (∀ x ∈ ks, norm x.key = .ok x.norm) ∧ (∀ o ∈ ss, o ∈ ovs ∧ 2 ≤ o.path.length)
  | [], ks, ss, h => by
    rw [splitOvs] at h
    cases h
    exact ⟨by simp, by simp⟩
  | o :: r, ks, ss, h => by
    rw [splitOvs] at h
    split at h
    · cases h
    · rename_i k hp
      split at h
      · cases h
      · rename_i n hn
        split at h
        · cases h
        · rename_i ks' ss' hs
          obtain ⟨h1, h2⟩ := Prod.mk.inj (Except.ok.inj h)
          subst h1 h2
          have ih := splitOvs_inv norm r ks' ss' hs
          refine ⟨?_, fun o' ho' => ⟨List.mem_cons_of_mem _ (ih.2 o' ho').1, (ih.2 o' ho').2⟩⟩
          intro x hx
          cases hx with
          | head => exact hn
          | tail _ hx => exact ih.1 x hx
    · rename_i k1 k2 more hp
      split at h
      · cases h
      · rename_i ks' ss' hs
        obtain ⟨h1, h2⟩ := Prod.mk.inj (Except.ok.inj h)
        subst h1 h2
        have ih := splitOvs_inv norm r ks' ss' hs
        refine ⟨ih.1, ?_⟩
        intro o' ho'
        cases ho' with
        | head => exact ⟨List.mem_cons_self, by rw [hp]; simp⟩
        | tail _ ho' => exact ⟨List.mem_cons_of_mem _ (ih.2 o' ho').1, (ih.2 o' ho').2⟩

/-- every entry of a group was fed to `collect` under the group's key -/
theorem cstep_fold_mem {α : Type} : ∀ (l : List (Str × α)) (G : List (Str × List α)),
    ∀ g ∈ l.foldl cstep G, ∀ a ∈ g.2, (g.1, a) ∈ l ∨ ∃ g0 ∈ G, g0.1 = g.1 ∧ a ∈ g0.2
  | [], G, g, hg, a, ha => Or.inr ⟨g, hg, rfl, ha⟩
  | kv :: r, G, g, hg, a, ha => by
    rw [List.foldl_cons] at hg
    rcases cstep_fold_mem r (cstep G kv) g hg a ha with h | ⟨g0, hg0, h1, h2⟩
    · exact Or.inl (List.mem_cons_of_mem _ h)
    · unfold cstep at hg0
      split at hg0
      · rw [List.mem_map] at hg0
        obtain ⟨p, hp, hpe⟩ := hg0
        by_cases hpk : (p.1 == kv.1) = true
        · rw [if_pos hpk] at hpe
          subst hpe
          simp only at h1 h2
          rw [List.mem_append] at h2
          rcases h2 with h2 | h2
          · exact Or.inr ⟨p, hp, h1, h2⟩
          · left
            simp only [List.mem_singleton] at h2
            subst h2
            have : p.1 = kv.1 := by simpa using hpk
            rw [← h1, this]
            exact List.mem_cons_self
        · rw [if_neg hpk] at hpe
          subst hpe
          exact Or.inr ⟨p, hp, h1, h2⟩
      · rw [List.mem_append] at hg0
        rcases hg0 with hg0 | hg0
        · exact Or.inr ⟨g0, hg0, h1, h2⟩
        · simp only [List.mem_singleton] at hg0
          subst hg0
          simp only [List.mem_singleton] at h2
          simp only at h1
          subst h2
          left
          rw [← h1]
          exact List.mem_cons_self

/-- in the groups of a section, every entry's key (as given) normalises to the key of its group -/
theorem groupsOf_norm (norm : Str → Except ConvErr Str) (ks : List KeyOv) (hks : ∀ x ∈ ks, norm x.key = .ok x.norm) :
    ∀ g ∈ groupsOf ks, ∀ kv ∈ g.2, norm kv.1 = .ok g.1 := by
  intro g hg kv hkv
  rw [groupsOf_eq] at hg
  rcases cstep_fold_mem (ks.map kvOf) [] g hg kv hkv with h | ⟨g0, hg0, _⟩
  · rw [List.mem_map] at h
    obtain ⟨x, hx, hxe⟩ := h
    have := hks x hx
    unfold kvOf at hxe
    obtain ⟨h1, h2⟩ := Prod.mk.inj hxe
    rw [← h1, ← h2]
    exact this
  · cases hg0

/-! ### `bagSectionInfo` hands a child the overrides that address it -/

/-- overrides pending in a section: they go further down, through components that are basic keys -/
def PendOK (pend : List OptItem) : Prop :=
  ∀ o ∈ pend, 2 ≤ o.path.length ∧ ∀ c ∈ o.path.dropLast, ∃ r, DT.basicKey c = .ok r

theorem basicKey_ok (c r : Str) (h : DT.basicKey c = .ok r) : r = lower c := by
  unfold DT.basicKey DT.regexConv at h
  split at h
  · cases h; rfl
  · cases h

def bsiStep (ty : Str) (name : Option Str) (acc : List OptItem × List OptItem) (it : OptItem) :
    M (List OptItem × List OptItem) :=
  match it.path with
  | [] => .error (.internal "IndexError")
  | p0 :: more =>
    match DT.basicKey p0 with
    | .error _ => .error (.cfg { kind := .syntax, line := some (-1), url := some "<command-line option>".toList, tag := "override basic-key" })
    | .ok bk =>
      if name.isSome && some (lower p0) == name then .ok (acc.1 ++ [{ it with path := more }], acc.2)
      else if bk == ty then .ok (acc.1 ++ [{ it with path := more }], acc.2)
      else .ok (acc.1, acc.2 ++ [it])

theorem selects_eq (p0 ty : Str) (nm : Option Str) :
    ((nm.isSome && some (lower p0) == nm) || lower p0 == ty) = selects p0 ty nm := by
  unfold selects
  have a : (lower p0 == ty) = (ty == lower p0) := by
    rw [Bool.eq_iff_iff, beq_iff_eq, beq_iff_eq]
    exact eq_comm
  have b : (nm.isSome && some (lower p0) == nm) = (nm == some (lower p0)) := by
    cases nm with
    | none => rfl
    | some n =>
      rw [Option.isSome_some, Bool.true_and, Bool.eq_iff_iff, beq_iff_eq, beq_iff_eq]
      exact eq_comm
  rw [a, b]

theorem bsi_fold (ty : Str) (nm : Option Str) : ∀ (si l0 r0 : List OptItem), PendOK si →
    si.foldlM (bsiStep ty nm) (l0, r0) =
      .ok (l0 ++ (si.filter (addresses · ty nm)).map dropHead, r0 ++ si.filter (fun o => !addresses o ty nm))
  | [], l0, r0, _ => by simp [pure, Except.pure]
  | it :: si, l0, r0, h => by
    have hit := h it List.mem_cons_self
    have hsi : PendOK si := fun o ho => h o (List.mem_cons_of_mem _ ho)
    obtain ⟨path, val⟩ := it
    cases path with
    | nil => simp at hit
    | cons p0 more =>
      cases more with
      | nil => simp at hit
      | cons p1 more =>
        obtain ⟨r, hr⟩ := hit.2 p0 (by simp [List.dropLast])
        have hr' := basicKey_ok p0 r hr
        subst hr'
        rw [List.foldlM_cons]
        have hsel := selects_eq p0 ty nm
        have hadr : addresses { path := p0 :: p1 :: more, val := val } ty nm = selects p0 ty nm := rfl
        by_cases hs : selects p0 ty nm = true
        · have hstep : bsiStep ty nm (l0, r0) { path := p0 :: p1 :: more, val := val } =
              .ok (l0 ++ [dropHead { path := p0 :: p1 :: more, val := val }], r0) := by
            unfold bsiStep
            simp only [hr]
            rw [hs, Bool.or_eq_true] at hsel
            rcases hsel with h1 | h1
            · rw [if_pos h1]; rfl
            · by_cases h0 : (nm.isSome && some (lower p0) == nm) = true
              · rw [if_pos h0]; rfl
              · rw [if_neg h0, if_pos h1]; rfl
          rw [hstep]
          show si.foldlM (bsiStep ty nm) (l0 ++ [dropHead { path := p0 :: p1 :: more, val := val }], r0) = _
          rw [bsi_fold ty nm si _ _ hsi, List.filter_cons, List.filter_cons, hadr, hs]
          simp
        · have hs' : selects p0 ty nm = false := by simpa using hs
          have hstep : bsiStep ty nm (l0, r0) { path := p0 :: p1 :: more, val := val } =
              .ok (l0, r0 ++ [{ path := p0 :: p1 :: more, val := val }]) := by
            unfold bsiStep
            simp only [hr]
            rw [hs', Bool.or_eq_false_iff] at hsel
            rw [if_neg (by rw [hsel.1]; simp), if_neg (by rw [hsel.2]; simp)]
          rw [hstep]
          show si.foldlM (bsiStep ty nm) (l0, r0 ++ [{ path := p0 :: p1 :: more, val := val }]) = _
          rw [bsi_fold ty nm si _ _ hsi, List.filter_cons, List.filter_cons, hadr, hs']
          simp

/-- **`bagSectionInfo`** in the words of the specification -/
theorem bagSectionInfo_spec (conv : Conv) (s : Schema) (b : Bag) (ty : Str) (nm : Option Str) (h : PendOK b.sectitems) :
    bagSectionInfo conv s b ty nm =
      if (b.sectitems.filter (addresses · ty nm)).isEmpty then .ok (b, none)
      else
        match s.gettype ty with
        | some (.concrete t) =>
          match mkBag conv t ((b.sectitems.filter (addresses · ty nm)).map dropHead) with
          | .error e => .error e
          | .ok child => .ok ({ b with sectitems := b.sectitems.filter (fun o => !addresses o ty nm) }, some child)
        | none => .error (.cfg { kind := .schema, tag := "unknown type name" })
        | _ => .error (.internal "AttributeError") := by
  have e : bagSectionInfo conv s b ty nm =
      b.sectitems.foldlM (bsiStep ty nm) ([], []) >>= fun lr =>
        if lr.1.isEmpty then pure (b, none)
        else
          match s.gettype ty with
          | some (.concrete t) => mkBag conv t lr.1 >>= fun child => pure ({ b with sectitems := lr.2 }, some child)
          | none => throw (Fail.cfg { kind := .schema, tag := "unknown type name" })
          | _ => throw (Fail.internal "AttributeError") := rfl
  rw [e, bsi_fold ty nm b.sectitems [] [] h]
  simp only [bind, Except.bind, pure, Except.pure, throw, throwThe, MonadExceptOf.throw, List.nil_append, List.isEmpty_map]
  by_cases he : (b.sectitems.filter (addresses · ty nm)).isEmpty = true
  · rw [if_pos he, if_pos he]
  · rw [if_neg he, if_neg he]
    cases s.gettype ty with
    | none => rfl
    | some te =>
      cases te with
      | abstract_ n subs => rfl
      | concrete t =>
        simp only
        cases mkBag conv t ((b.sectitems.filter (addresses · ty nm)).map dropHead) <;> rfl

/-- the tails of the overrides handed to a child are overrides of a section again -/
theorem pendOK_filter (pend : List OptItem) (p : OptItem → Bool) (h : PendOK pend) : PendOK (pend.filter p) :=
  fun o ho => h o (List.mem_filter.mp ho).1

/-! ### `finishBag` supplies the lines of the specification -/

def bagInner (conv : Conv) (n : Str) (m : Matcher) (v : Str) : M Matcher :=
  match conv.key m.ty.keytype n with
  | .error e => .error (convFail e (some n) { line := -1, url := some "<command-line option>".toList } "key")
  | .ok rk => addValueCore m n rk v { line := -1, url := some "<command-line option>".toList }

def bagOuter (conv : Conv) (m : Matcher) (kv : Str × List Str) : M Matcher := kv.2.foldlM (bagInner conv kv.1) m

theorem finishBag_some (conv : Conv) (m : Matcher) (b : Bag) (hb : m.bag = some b) :
    finishBag conv m =
      b.keypairs.foldlM (bagOuter conv) m >>= fun m' =>
        if b.sectitems.isEmpty then .ok { m' with bag := none }
        else .error (plainErr "not all command line options were consumed") := by
  have key : ∀ (r : M Matcher),
      (r >>= fun m' => (do
        if !b.sectitems.isEmpty then throw (plainErr "not all command line options were consumed")
        pure { m' with bag := none } : M Matcher)) =
      (r >>= fun m' =>
        if b.sectitems.isEmpty then .ok { m' with bag := none }
        else .error (plainErr "not all command line options were consumed")) := by
    intro r
    cases r with
    | error e => rfl
    | ok m' => cases b.sectitems.isEmpty <;> simp [bind, Except.bind, pure, Except.pure, throw, throwThe, MonadExceptOf.throw]
  unfold finishBag
  rw [hb]
  exact key _

/-- one supplied line does to the plain matcher what the bag does at the end of the section -/
theorem bagInner_eq (conv : Conv) (asGiven : Bool) (n k v : Str) (m' : Matcher) (B : Option Bag) (hb : m'.bag = none)
    (H : asGiven = true → conv.key m'.ty.keytype k = .ok n ∧ conv.key m'.ty.keytype n = .ok n) :
    bagInner conv n (withBag m' B) v =
      (addValue conv m' (if asGiven then k else n) v cmdPos).map (withBag · B) := by
  rw [addValue_nobag conv m' hb]
  unfold bagInner
  show (match conv.key m'.ty.keytype n with
    | .error e => _
    | .ok rk => addValueCore (withBag m' B) n rk v cmdPos) = _
  cases asGiven with
  | false =>
    simp only [Bool.false_eq_true, if_false]
    cases conv.key m'.ty.keytype n with
    | error e => rfl
    | ok rk => exact addValueCore_withBag m' B n rk v cmdPos
  | true =>
    obtain ⟨h1, h2⟩ := H rfl
    simp only [if_true]
    rw [h1, h2]
    exact addValueCore_withBag m' B n n v cmdPos

theorem bagInner_fold (conv : Conv) (s : Schema) (asGiven : Bool) (kt n : Str) (B : Option Bag) :
    ∀ (entries : List (Str × Str)) (m' : Matcher), m'.bag = none → m'.ty.keytype = kt →
      (asGiven = true → ∀ kv ∈ entries, conv.key kt kv.1 = .ok n ∧ conv.key kt n = .ok n) →
      (entries.map (·.2)).foldlM (bagInner conv n) (withBag m' B) =
        (evalItemsB conv s m' (entries.map fun kv => Item.kv (if asGiven then kv.1 else n) kv.2 cmdPos)).map (withBag · B)
  | [], m', _, _, _ => by
    rw [List.map_nil, List.map_nil, evalItemsB_nil]
    rfl
  | kv :: r, m', hb, hkt, H => by
    rw [List.map_cons, List.map_cons, List.foldlM_cons, evalItemsB_cons, evalItemB]
    rw [bagInner_eq conv asGiven n kv.1 kv.2 m' B hb (fun ha => by rw [hkt]; exact H ha kv List.mem_cons_self)]
    cases hav : addValue conv m' (if asGiven then kv.1 else n) kv.2 cmdPos with
    | error e => rfl
    | ok m2 =>
      have hp := evalItemB_pres conv s m' m2 (.kv (if asGiven then kv.1 else n) kv.2 cmdPos) (by rw [evalItemB]; exact hav)
      show (r.map (·.2)).foldlM (bagInner conv n) (withBag m2 B) = _
      rw [bagInner_fold conv s asGiven kt n B r m2 (hp.2 hb) (by rw [hp.1, hkt])
        (fun ha kv' hkv' => H ha kv' (List.mem_cons_of_mem _ hkv'))]
      rfl

/-- the hypothesis under which the supplied lines may carry the key as given -/
def GroupsOK (conv : Conv) (asGiven : Bool) (kt : Str) (G : List (Str × List (Str × Str))) : Prop :=
  asGiven = true → ∀ g ∈ G, ∀ kv ∈ g.2, conv.key kt kv.1 = .ok g.1 ∧ conv.key kt g.1 = .ok g.1

theorem newLines_cons (asGiven : Bool) (g : Str × List (Str × Str)) (G : List (Str × List (Str × Str))) :
    newLines asGiven (g :: G) =
      (g.2.map fun kv => Item.kv (if asGiven then kv.1 else g.1) kv.2 cmdPos) ++ newLines asGiven G := by
  unfold newLines
  rw [List.flatMap_cons]

theorem bagOuter_fold (conv : Conv) (s : Schema) (asGiven : Bool) (kt : Str) (B : Option Bag) :
    ∀ (G : List (Str × List (Str × Str))) (m' : Matcher), m'.bag = none → m'.ty.keytype = kt →
      GroupsOK conv asGiven kt G →
      (strip G).foldlM (bagOuter conv) (withBag m' B) =
        (evalItemsB conv s m' (newLines asGiven G)).map (withBag · B)
  | [], m', _, _, _ => by
    show (pure (withBag m' B) : M Matcher) = _
    rw [show newLines asGiven [] = [] from rfl, evalItemsB_nil]
    rfl
  | g :: G, m', hb, hkt, H => by
    rw [newLines_cons, evalItemsB_append]
    show ((g.1, g.2.map (·.2)) :: strip G).foldlM (bagOuter conv) (withBag m' B) = _
    rw [List.foldlM_cons]
    show ((g.2.map (·.2)).foldlM (bagInner conv g.1) (withBag m' B) >>= fun m2 => (strip G).foldlM (bagOuter conv) m2) = _
    rw [bagInner_fold conv s asGiven kt g.1 B g.2 m' hb hkt (fun ha kv hkv => H ha g List.mem_cons_self kv hkv)]
    cases hev : evalItemsB conv s m' (g.2.map fun kv => Item.kv (if asGiven then kv.1 else g.1) kv.2 cmdPos) with
    | error e => rfl
    | ok m2 =>
      have hp := evalItemsB_pres conv s _ m' m2 hev
      show (strip G).foldlM (bagOuter conv) (withBag m2 B) = _
      rw [bagOuter_fold conv s asGiven kt B G m2 (hp.2 hb) (by rw [hp.1, hkt])
        (fun ha g' hg' => H ha g' (List.mem_cons_of_mem _ hg'))]
      rfl

theorem withBag_none_of (m : Matcher) (B : Option Bag) (hb : m.bag = none) : { withBag m B with bag := none } = m := by
  obtain ⟨ty, name, values, used, bag⟩ := m
  simp only at hb
  subst hb
  rfl

/-- **`finishBag`** in the words of the specification: the lines for the grouped key overrides are supplied to the
    matcher; overrides still waiting for their section are refused -/
theorem finishBag_groups (conv : Conv) (s : Schema) (asGiven : Bool) (G : List (Str × List (Str × Str)))
    (ss : List OptItem) (m' : Matcher) (hb : m'.bag = none) (H : GroupsOK conv asGiven m'.ty.keytype G) :
    finishBag conv (withBag m' (some { keypairs := strip G, sectitems := ss })) =
      evalItemsB conv s m' (newLines asGiven G) >>= fun m2 =>
        if ss.isEmpty then .ok m2 else .error (plainErr "not all command line options were consumed") := by
  rw [finishBag_some conv _ { keypairs := strip G, sectitems := ss } rfl]
  simp only
  rw [bagOuter_fold conv s asGiven m'.ty.keytype _ G m' hb rfl H]
  cases hev : evalItemsB conv s m' (newLines asGiven G) with
  | error e => rfl
  | ok m2 =>
    have hp := evalItemsB_pres conv s _ m' m2 hev
    show (if ss.isEmpty then (.ok { withBag m2 _ with bag := none } : M Matcher) else _) = _
    rw [withBag_none_of m2 _ (hp.2 hb)]
    rfl

end ZCV.Conf
