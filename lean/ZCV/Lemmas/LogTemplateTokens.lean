import ZCV.Lemmas.LogTemplate
/-!
`scan` computes exactly the declarative tokenisation `Tokens` of `ZCV/Spec/LogTemplate.lean` (C20, template formats).
-/
namespace ZCV.LogTemplateLemmas
open ZCV ZCV.LogFormat ZCV.LogTemplate ZCV.LogTemplateSpec

theorem lt_idStart_dollar : isIdStart '$' = false := by decide
theorem lt_idStart_lbrace : isIdStart '{' = false := by decide
theorem lt_idChar_rbrace : isIdChar '}' = false := by decide

theorem lt_idStart_ne_dollar {c : Char} (h : isIdStart c = true) : (c == '$') = false := by
  cases hc : c == '$' with
  | false => rfl
  | true =>
    simp only [beq_iff_eq] at hc
    subst hc
    rw [lt_idStart_dollar] at h
    cases h

theorem lt_mem_takeWhile (p : Char → Bool) (l : Str) : ∀ x ∈ l.takeWhile p, p x = true := by
  induction l with
  | nil => intro x hx; cases hx
  | cons a l ih =>
    intro x hx
    rw [List.takeWhile_cons] at hx
    split at hx
    · rename_i ha
      rcases List.mem_cons.mp hx with h | h
      · subst h; exact ha
      · exact ih x h
    · cases hx

theorem lt_dropWhile_head (p : Char → Bool) (l : Str) (x : Char) (y : Str) (h : l.dropWhile p = x :: y) : p x = false := by
  induction l with
  | nil => cases h
  | cons a l ih =>
    rw [List.dropWhile_cons] at h
    split at h
    · exact ih h
    · rename_i ha
      injection h with h1 _
      subst h1
      simpa using ha

theorem lt_takeWhile_stop (p : Char → Bool) (l rest : Str) (hl : ∀ c ∈ l, p c = true)
    (hr : ∀ c t, rest = c :: t → p c = false) : (l ++ rest).takeWhile p = l ∧ (l ++ rest).dropWhile p = rest := by
  have h0 : rest.takeWhile p = [] ∧ rest.dropWhile p = rest := by
    cases rest with
    | nil => exact ⟨rfl, rfl⟩
    | cons c t =>
      have := hr c t rfl
      simp [this]
  rw [List.takeWhile_append_of_pos hl, List.dropWhile_append_of_pos hl, h0.1, h0.2, List.append_nil]
  exact ⟨rfl, rfl⟩

/-- what `scanDollar` finds, by the shape of the text after the `$` -/
theorem lt_scanDollar_escaped (rest : Str) : scanDollar ('$' :: rest) = (.escaped, rest) := by
  simp [scanDollar]

theorem lt_scanDollar_named (n rest : Str) (hn : isIdent n = true) (hr : NoIdCharAhead rest) :
    scanDollar (n ++ rest) = (.named n, rest) := by
  cases n with
  | nil => cases hn
  | cons c n' =>
    simp only [isIdent, Bool.and_eq_true, List.all_eq_true] at hn
    obtain ⟨h1, h2⟩ := hn
    obtain ⟨ht, hd⟩ := lt_takeWhile_stop isIdChar n' rest h2 hr
    simp only [scanDollar, List.cons_append, lt_idStart_ne_dollar h1, Bool.false_eq_true, if_false, h1, if_true, ht, hd]

theorem lt_scanDollar_braced (n rest : Str) (hn : isIdent n = true) :
    scanDollar ('{' :: (n ++ '}' :: rest)) = (.braced n, rest) := by
  cases n with
  | nil => cases hn
  | cons c n' =>
    simp only [isIdent, Bool.and_eq_true, List.all_eq_true] at hn
    obtain ⟨h1, h2⟩ := hn
    obtain ⟨ht, hd⟩ := lt_takeWhile_stop isIdChar n' ('}' :: rest) h2
      (fun c t h => by injection h with h _; subst h; exact lt_idChar_rbrace)
    have hb : ('{' == '$') = false := by decide
    simp only [scanDollar, List.cons_append, hb, Bool.false_eq_true, if_false, lt_idStart_lbrace, beq_self_eq_true, if_true,
      h1, hd, ht]

theorem lt_scanDollar_invalid (rest : Str) (h : NoPlaceholderAhead rest) : scanDollar rest = (.invalid, rest) := by
  obtain ⟨h1, h2⟩ := h
  unfold scanDollar
  split
  · rfl
  · rename_i c t'
    obtain ⟨hc1, hc2⟩ := h1 c t' rfl
    have hb : (c == '$') = false := by simp [hc1]
    simp only [hb, Bool.false_eq_true, if_false, hc2]
    split
    · rename_i hbr
      simp only [beq_iff_eq] at hbr
      subst hbr
      split
      · rfl
      · rename_i c2 t2
        split
        · rename_i hs
          split
          · rename_i c3 t3 hd
            split
            · rename_i h3
              simp only [beq_iff_eq] at h3
              subst h3
              exfalso
              refine h2 (c2 :: t2.takeWhile isIdChar) t3 ?_ ?_
              · simp only [isIdent, hs, Bool.true_and, List.all_eq_true]
                intro x hx
                exact lt_mem_takeWhile _ _ x hx
              · rw [List.cons_append, ← hd, lt_takeDrop]
            · rfl
          · rfl
        · rfl
    · rfl

/-- a derivation of `Tokens` is what `scan` computes -/
theorem lt_tokens_scan {s : Str} {ps : List Piece} (h : Tokens s ps) : scan s = ps := by
  induction h with
  | nil => rfl
  | lit l rest ps hl hd hr _ ih =>
    cases l with
    | nil => exact absurd rfl hl
    | cons c l' =>
      have hc : c ≠ '$' := hd c (List.mem_cons_self)
      obtain ⟨ht, hdw⟩ := lt_takeWhile_stop (· != '$') l' rest
        (fun x hx => by simp [bne, hd x (List.mem_cons_of_mem _ hx)])
        (fun x t hx => by simp [bne, hr x t hx])
      rw [List.cons_append, lt_scan_lit c _ hc, ht, hdw, ih]
  | escaped rest ps _ ih => rw [lt_scan_dollar, lt_scanDollar_escaped, ih]
  | named n rest ps hn hr _ ih => rw [lt_scan_dollar, lt_scanDollar_named n rest hn hr, ih]
  | braced n rest ps hn _ ih => rw [lt_scan_dollar, lt_scanDollar_braced n rest hn, ih]
  | invalid rest ps hr _ ih => rw [lt_scan_dollar, lt_scanDollar_invalid rest hr, ih]

/-- the text after a `$` is of exactly one of the four shapes of the pattern -/
theorem lt_dollar_cases (t : Str) :
    (∃ rest, t = '$' :: rest) ∨
    (∃ n rest, t = n ++ rest ∧ isIdent n = true ∧ NoIdCharAhead rest) ∨
    (∃ n rest, t = '{' :: (n ++ '}' :: rest) ∧ isIdent n = true) ∨
    NoPlaceholderAhead t := by
  cases t with
  | nil => exact .inr (.inr (.inr ⟨fun c t h => (by cases h), fun n t _ h => (by cases h)⟩))
  | cons c t' =>
    by_cases hc : c = '$'
    · subst hc; exact .inl ⟨t', rfl⟩
    by_cases hs : isIdStart c = true
    · refine .inr (.inl ⟨c :: t'.takeWhile isIdChar, t'.dropWhile isIdChar, ?_, ?_, ?_⟩)
      · rw [List.cons_append, lt_takeDrop]
      · simp only [isIdent, hs, Bool.true_and, List.all_eq_true]
        exact lt_mem_takeWhile _ _
      · exact fun x y hxy => lt_dropWhile_head isIdChar t' x y hxy
    have hs' : isIdStart c = false := by simpa using hs
    -- from here on: `c` is neither `$` nor the start of an identifier
    have hfirst : ∀ c' t'', c :: t' = c' :: t'' → c' ≠ '$' ∧ isIdStart c' = false := by
      intro c' t'' h
      injection h with h1 _
      subst h1
      exact ⟨hc, hs'⟩
    by_cases hb : c = '{'
    · subst hb
      cases t' with
      | nil =>
        refine .inr (.inr (.inr ⟨hfirst, fun n t hn h => ?_⟩))
        injection h with _ h2
        cases n <;> cases h2
      | cons c2 t2 =>
        by_cases hs2 : isIdStart c2 = true
        · cases hd : t2.dropWhile isIdChar with
          | nil =>
            refine .inr (.inr (.inr ⟨hfirst, fun n t hn h => ?_⟩))
            injection h with _ h2
            cases n with
            | nil => cases hn
            | cons a n' =>
              simp only [isIdent, Bool.and_eq_true, List.all_eq_true] at hn
              injection h2 with _ h3
              have := (lt_takeWhile_stop isIdChar n' ('}' :: t) hn.2
                (fun c t h => by injection h with h _; subst h; exact lt_idChar_rbrace)).2
              have h3' : t2 = n' ++ '}' :: t := h3
              rw [h3', this] at hd
              cases hd
          | cons c3 t3 =>
            by_cases h3 : c3 = '}'
            · subst h3
              refine .inr (.inr (.inl ⟨c2 :: t2.takeWhile isIdChar, t3, ?_, ?_⟩))
              · rw [List.cons_append, ← hd, lt_takeDrop]
              · simp only [isIdent, hs2, Bool.true_and, List.all_eq_true]
                exact lt_mem_takeWhile _ _
            · refine .inr (.inr (.inr ⟨hfirst, fun n t hn h => ?_⟩))
              injection h with _ h2
              cases n with
              | nil => cases hn
              | cons a n' =>
                simp only [isIdent, Bool.and_eq_true, List.all_eq_true] at hn
                injection h2 with _ h4
                have := (lt_takeWhile_stop isIdChar n' ('}' :: t) hn.2
                  (fun c t h => by injection h with h _; subst h; exact lt_idChar_rbrace)).2
                have h4' : t2 = n' ++ '}' :: t := h4
                rw [h4', this] at hd
                injection hd with h5 _
                exact h3 h5.symm
        · refine .inr (.inr (.inr ⟨hfirst, fun n t hn h => ?_⟩))
          injection h with _ h2
          cases n with
          | nil => cases hn
          | cons a n' =>
            simp only [isIdent, Bool.and_eq_true] at hn
            injection h2 with h3 _
            subst h3
            exact hs2 hn.1
    · refine .inr (.inr (.inr ⟨hfirst, fun n t _ h => ?_⟩))
      injection h with h1 _
      exact hb h1

/-- `scan` produces a derivation of `Tokens` -/
theorem lt_scan_tokens : ∀ (k : Nat) (s : Str), s.length ≤ k → Tokens s (scan s) := by
  intro k
  induction k with
  | zero =>
    intro s hs
    have : s = [] := List.eq_nil_of_length_eq_zero (by omega)
    subst this
    exact Tokens.nil
  | succ k ih =>
    intro s hs
    cases s with
    | nil => exact Tokens.nil
    | cons c t =>
      simp only [List.length_cons] at hs
      by_cases hc : c = '$'
      · subst hc
        rw [lt_scan_dollar]
        rcases lt_dollar_cases t with ⟨rest, rfl⟩ | ⟨n, rest, rfl, hn, hr⟩ | ⟨n, rest, rfl, hn⟩ | hr
        · rw [lt_scanDollar_escaped]
          exact Tokens.escaped rest _ (ih rest (by simp only [List.length_cons] at hs; omega))
        · rw [lt_scanDollar_named n rest hn hr]
          exact Tokens.named n rest _ hn hr (ih rest (by simp only [List.length_append] at hs; omega))
        · rw [lt_scanDollar_braced n rest hn]
          exact Tokens.braced n rest _ hn
            (ih rest (by simp only [List.length_cons, List.length_append] at hs; omega))
        · rw [lt_scanDollar_invalid t hr]
          exact Tokens.invalid t _ hr (ih t (by omega))
      · rw [lt_scan_lit c t hc]
        have hp : (c != '$') = true := by simp [bne, hc]
        have := Tokens.lit (c :: t.takeWhile (· != '$')) (t.dropWhile (· != '$')) (scan (t.dropWhile (· != '$')))
          (by simp)
          (by
            intro x hx
            rcases List.mem_cons.mp hx with h | h
            · subst h; exact hc
            · have := lt_mem_takeWhile (· != '$') t x h
              simpa [bne] using this)
          (by
            intro x y hxy
            have := lt_dropWhile_head (· != '$') t x y hxy
            simpa [bne] using this)
          (ih _ (by have := lt_dropWhile_length_le (· != '$') t; omega))
        rw [List.cons_append, lt_takeDrop] at this
        exact this

end ZCV.LogTemplateLemmas
