import ZCV.Lemmas.RoundtripPrint
/-!
Running the schema-less loader over the printed lines (C17): every printed line does to the loader's state
what the tree says, so the whole text rebuilds `canon t`.
-/
namespace ZCV.Roundtrip
open ZCV ZCV.Cfg

abbrev PSt := PS SL

/-- the environment `slLoad` parses in -/
abbrev envOf (getenv : Str → Option Str) : Env := { noEnv with getenv := getenv }

/-- one stripped line -/
def stepS (getenv : Str → Option Str) (url : Option Str) (n : Nat) (l : Str) (st : PSt) : M PSt :=
  stepLine 8 (envOf getenv) schemalessCtx [] url n l st

/-- the lines take the parser from `st` to `st'`, whatever their line numbers -/
def Runs (getenv : Str → Option Str) (url : Option Str) : List Str → PSt → PSt → Prop
  | [], st, st' => st' = st
  | l :: ls, st, st' => ∃ st1, (∀ n, stepS getenv url n l st = .ok st1) ∧ Runs getenv url ls st1 st'

theorem runs_append {getenv url} : ∀ (a b : List Str) (st st1 st2 : PSt),
    Runs getenv url a st st1 → Runs getenv url b st1 st2 → Runs getenv url (a ++ b) st st2
  | [], _, _, _, _, h1, h2 => by
    simp only [Runs] at h1
    subst h1
    exact h2
  | l :: a, b, st, st1, st2, h1, h2 => by
    obtain ⟨s, hs, hr⟩ := h1
    exact ⟨s, hs, runs_append a b s st1 st2 hr h2⟩

theorem runs_one {getenv url} (l : Str) (st st1 : PSt) (h : ∀ n, stepS getenv url n l st = .ok st1) :
    Runs getenv url [l] st st1 := ⟨st1, h, rfl⟩

theorem step_blank (fuel : Nat) (env : Env) (c : PCtx SL) (active : List Str) (url : Option Str) (n : Nat) (st : PSt) :
    stepLine fuel env c active url n [] st = .ok st := by
  unfold stepLine
  rfl

/-- blank lines are skipped, the others are stripped: the parse of `lines` is the run over `ess lines` -/
theorem parse_of_runs {getenv url} : ∀ (lines : List Str) (n : Nat) (st st' : PSt),
    Runs getenv url (ess lines) st st' → st'.stack = [] →
    parseLines 8 (envOf getenv) schemalessCtx [] url lines n st = .ok st'
  | [], n, st, st', h, hs => by
    simp only [ess, List.map_nil, List.filter_nil, Runs] at h
    subst h
    rw [parseLines, hs]
    rfl
  | l :: rest, n, st, st', h, hs => by
    rw [parseLines]
    rw [ess_cons] at h
    by_cases hb : strip l = []
    · rw [hb, step_blank]
      rw [if_pos hb] at h
      exact parse_of_runs rest (n + 1) st st' h hs
    · rw [if_neg hb] at h
      obtain ⟨s, hstep, hr⟩ := h
      have := hstep (n + 1)
      unfold stepS at this
      rw [this]
      exact parse_of_runs rest (n + 1) s st' hr hs

/-! ### one printed line -/

def setStack (st : PSt) (s : List Sec) : PSt := { st with ctx := { st.ctx with stack := s } }

theorem step_kv {getenv url} (n : Nat) (k v : Str) (st : PSt) (t : Str) (nm : Option Str) (kvs : List (Str × List Str))
    (ss rest : List Sec) (hk : keyOK k = true) (hv : cleanVal v = true) (hst : st.ctx.stack = Sec.mk t nm kvs ss :: rest) :
    stepS getenv url n (kvLine k v) st = .ok (setStack st (Sec.mk t nm (secAddValue kvs k v) ss :: rest)) := by
  unfold stepS stepLine
  rw [lineShape_kvLine k v hk hv]
  simp only
  unfold Cfg.keyValue
  by_cases he : v = []
  · subst he
    simp only [esc_nil, beq_self_eq_true, ↓reduceIte, bind, Except.bind, pure, Except.pure, schemalessCtx, slValue, hst]
    rfl
  · have : (escDollar v == []) = false := by
      rw [beq_eq_false_iff_ne]; exact fun e => he (esc_eq_nil.1 e)
    simp only [this, Bool.false_eq_true, ↓reduceIte, replace_esc, bind, Except.bind, schemalessCtx, slValue, hst]
    rfl

theorem step_open {getenv url} (n : Nat) (ty : Str) (nm : Option Str) (st : PSt)
    (hty : tyOK ty = true) (hnm : nameOK nm = true) :
    stepS getenv url n (hdrLine ty nm) st =
      .ok { st with ctx := { st.ctx with stack := Sec.mk ty nm [] [] :: st.ctx.stack }, stack := (ty, nm) :: st.stack } := by
  unfold stepS stepLine
  rw [lineShape_hdrLine ty nm hty hnm]
  rfl

theorem step_close {getenv url} (n : Nat) (ty : Str) (nm : Option Str) (st : PSt) (pstack : List (Str × Option Str))
    (child : Sec) (t : Str) (pn : Option Str) (kvs : List (Str × List Str)) (ss rest : List Sec)
    (hty : tyOK ty = true) (hps : st.stack = (ty, nm) :: pstack)
    (hst : st.ctx.stack = child :: Sec.mk t pn kvs ss :: rest) :
    stepS getenv url n (closeLine ty) st =
      .ok { st with ctx := { st.ctx with stack := Sec.mk t pn kvs (ss ++ [child]) :: rest }, stack := pstack } := by
  unfold stepS stepLine
  rw [lineShape_closeLine ty hty]
  simp only
  unfold closeSection
  rw [hps]
  simp only [bne_self_eq_false, Bool.false_eq_true, ↓reduceIte, schemalessCtx, slStop, hst, closeFixup]
  rfl

theorem step_import {getenv url} (n : Nat) (p : Str) (st : PSt) (hne : p ≠ []) (hp : cleanVal p = true) :
    stepS getenv url n (impLine p) st =
      .ok { st with ctx := (if st.ctx.imports.contains p then st.ctx else { st.ctx with imports := st.ctx.imports ++ [p] }) } := by
  unfold stepS stepLine
  rw [lineShape_impLine p hne hp]
  simp only
  have hs : strip (escDollar p) = escDollar p := by
    apply strip_clean
    · intro c hc; exact cleanVal_head hp c (esc_head p c hc)
    · intro c hc; exact cleanVal_last hp c (esc_last p c hc)
  rw [hs, replace_esc]
  rfl

/-! ### the key lines of one section -/

theorem runs_pairs {getenv url} : ∀ (pairs : List (Str × Str)) (st : PSt) (t : Str) (nm : Option Str)
    (kvs : List (Str × List Str)) (ss rest : List Sec),
    (∀ q ∈ pairs, keyOK q.1 = true ∧ cleanVal q.2 = true) → st.ctx.stack = Sec.mk t nm kvs ss :: rest →
    Runs getenv url (pairs.map (fun q => kvLine q.1 q.2)) st (setStack st (Sec.mk t nm (addAll kvs pairs) ss :: rest))
  | [], st, t, nm, kvs, ss, rest, _, hst => by
    simp only [List.map_nil, Runs, addAll, List.foldl_nil, setStack]
    rw [← hst]
  | q :: r, st, t, nm, kvs, ss, rest, hq, hst => by
    have h1 := hq q List.mem_cons_self
    refine ⟨_, fun n => step_kv n q.1 q.2 st t nm kvs ss rest h1.1 h1.2 hst, ?_⟩
    have := runs_pairs (getenv := getenv) (url := url) r (setStack st (Sec.mk t nm (secAddValue kvs q.1 q.2) ss :: rest))
      t nm (secAddValue kvs q.1 q.2) ss rest (fun x hx => hq x (List.mem_cons_of_mem _ hx)) rfl
    exact this

theorem runs_kvLines {getenv url} (kvs : List (Str × List Str)) (h : kvsOK kvs = true) (st : PSt) (t : Str)
    (nm : Option Str) (ss rest : List Sec) (hst : st.ctx.stack = Sec.mk t nm [] ss :: rest) :
    Runs getenv url (kvLines kvs) st (setStack st (Sec.mk t nm (sortKeys kvs) ss :: rest)) := by
  have hs := kvsOK_sort h
  have := runs_pairs (getenv := getenv) (url := url) (pairsOf (sortKeys kvs)) st t nm [] ss rest (by
    intro q hq
    obtain ⟨p, hp, e1, e2⟩ := mem_pairsOf hq
    have := kvsOK_all hs p hp
    rw [e1]
    exact ⟨this.1, this.2.2 _ e2⟩) hst
  rw [addAll_sorted kvs h] at this
  exact this

/-! ### sections -/

theorem canonL_eq_map (l : List Sec) : canonL l = l.map canon := by
  induction l with
  | nil => rfl
  | cons s r ih => rw [canonL, ih]; rfl

mutual
theorem runs_sec {getenv url} : ∀ (s : Sec) (st : PSt) (t : Str) (pn : Option Str) (pk : List (Str × List Str))
    (ps rest : List Sec), wfSub s = true → st.ctx.stack = Sec.mk t pn pk ps :: rest →
    Runs getenv url (essSec s) st (setStack st (Sec.mk t pn pk (ps ++ [canon s]) :: rest))
  | .mk ty nm kvs ss, st, t, pn, pk, ps, rest, h, hst => by
    obtain ⟨hty, hnm, hkv, hss⟩ := wfSub_parts h
    rw [essSec]
    -- header
    let st1 : PSt := { st with ctx := { st.ctx with stack := Sec.mk ty nm [] [] :: st.ctx.stack }, stack := (ty, nm) :: st.stack }
    refine ⟨st1, fun n => step_open n ty nm st hty hnm, ?_⟩
    -- keys
    have hst1 : st1.ctx.stack = Sec.mk ty nm [] [] :: (Sec.mk t pn pk ps :: rest) := by
      show Sec.mk ty nm [] [] :: st.ctx.stack = _
      rw [hst]
    have hk := runs_kvLines (getenv := getenv) (url := url) kvs hkv st1 ty nm [] _ hst1
    refine runs_append _ _ _ _ _ hk ?_
    -- sub-sections
    have hsub := runs_secs (getenv := getenv) (url := url) ss
      (setStack st1 (Sec.mk ty nm (sortKeys kvs) [] :: (Sec.mk t pn pk ps :: rest))) ty nm (sortKeys kvs) []
      (Sec.mk t pn pk ps :: rest) hss rfl
    refine runs_append _ _ _ _ _ hsub ?_
    -- end
    apply runs_one
    intro n
    rw [step_close n ty nm _ st.stack (Sec.mk ty nm (sortKeys kvs) ([] ++ canonL ss)) t pn pk ps rest hty rfl rfl]
    rw [canon]
    rfl
theorem runs_secs {getenv url} : ∀ (l : List Sec) (st : PSt) (t : Str) (pn : Option Str) (pk : List (Str × List Str))
    (ps rest : List Sec), wfSubs l = true → st.ctx.stack = Sec.mk t pn pk ps :: rest →
    Runs getenv url (essSecs l) st (setStack st (Sec.mk t pn pk (ps ++ canonL l) :: rest))
  | [], st, t, pn, pk, ps, rest, _, hst => by
    simp only [essSecs, Runs, canonL, List.append_nil, setStack]
    rw [← hst]
  | s :: r, st, t, pn, pk, ps, rest, h, hst => by
    obtain ⟨h1, h2⟩ := wfSubs_cons h
    rw [essSecs, canonL]
    have a := runs_sec (getenv := getenv) (url := url) s st t pn pk ps rest h1 hst
    have b := runs_secs (getenv := getenv) (url := url) r (setStack st (Sec.mk t pn pk (ps ++ [canon s]) :: rest))
      t pn pk (ps ++ [canon s]) rest h2 rfl
    have e : ps ++ canon s :: canonL r = (ps ++ [canon s]) ++ canonL r := by simp
    rw [e]
    exact runs_append _ _ _ _ _ a b
end

/-! ### imports -/

theorem runs_imports {getenv url} : ∀ (l : List Str) (st : PSt), (∀ p ∈ l, p ≠ [] ∧ cleanVal p = true) →
    (st.ctx.imports ++ l).Nodup →
    Runs getenv url (l.map impLine) st { st with ctx := { st.ctx with imports := st.ctx.imports ++ l } }
  | [], st, _, _ => by
    simp only [List.map_nil, Runs, List.append_nil]
  | p :: r, st, hl, hnd => by
    have hp := hl p List.mem_cons_self
    have hnot : st.ctx.imports.contains p = false := by
      rw [Bool.eq_false_iff]
      intro hc
      rw [List.contains_iff_mem] at hc
      have := (List.nodup_append.1 hnd).2.2 p hc p List.mem_cons_self
      exact this rfl
    refine ⟨_, fun n => step_import n p st hp.1 hp.2, ?_⟩
    rw [hnot]
    simp only [Bool.false_eq_true, ↓reduceIte]
    have := runs_imports (getenv := getenv) (url := url) r
      { st with ctx := { st.ctx with imports := st.ctx.imports ++ [p] } }
      (fun x hx => hl x (List.mem_cons_of_mem _ hx)) (by simpa using hnd)
    simpa using this

/-! ### the whole text -/

def st0 : PSt := { ctx := { stack := [Sec.mk [] none [] []], imports := [] }, stack := [], defs := [] }

theorem runs_top {getenv url} (t : Sec) (imps : List Str) (h : WF t imps) :
    Runs getenv url (essTop t imps) st0
      { ctx := { stack := [canon t], imports := imps }, stack := [], defs := [] } := by
  obtain ⟨ty, nm, kvs, ss⟩ := t
  obtain ⟨hty, hnm, hkv, hss, himp⟩ := h
  simp only [Sec.type, Sec.name, Sec.kvs, Sec.sections] at hty hnm hkv hss
  subst hty hnm
  unfold essTop
  have h1 := runs_imports (getenv := getenv) (url := url) imps st0 (impsOK_all himp) (by simpa [st0] using impsOK_nodup himp)
  refine runs_append _ _ _ _ _ h1 ?_
  have h2 := runs_kvLines (getenv := getenv) (url := url) kvs hkv
    { st0 with ctx := { st0.ctx with imports := st0.ctx.imports ++ imps } } [] none [] [] rfl
  refine runs_append _ _ _ _ _ h2 ?_
  have h3 := runs_secs (getenv := getenv) (url := url) ss
    (setStack { st0 with ctx := { st0.ctx with imports := st0.ctx.imports ++ imps } } [Sec.mk [] none (sortKeys kvs) []])
    [] none (sortKeys kvs) [] [] hss rfl
  rw [canon]
  exact h3

/-- re-reading `str(config)` rebuilds the configuration, keys in `sorted()` order -/
theorem slLoad_slStr (getenv : Str → Option Str) (url : Option Str) (t : Sec) (imps : List Str) (h : WF t imps) :
    slLoad getenv url (linesOf (slStr t imps)) = .ok (canon t, imps) := by
  have hr := runs_top (getenv := getenv) (url := url) t imps h
  rw [← essOf_slStr t imps h, ← ess_linesOf] at hr
  have := parse_of_runs (linesOf (slStr t imps)) 0 st0 _ hr rfl
  unfold slLoad
  unfold envOf st0 at this
  rw [this]
  rfl

end ZCV.Roundtrip
