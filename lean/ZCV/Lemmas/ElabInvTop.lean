import ZCV.Lemmas.ElabInvKey
/-!
The container on top of the stack: reading its children, appending a child (`_add_child`), writing the finished key
back (`replaceLastChild`), all keeping the invariant.
-/
namespace ZCV.Elab
open ZCV ZCV.Cfg

/-- `topChildren` as a function of the two fields it reads -/
def topOf (es : ES) (stack : List Frame) : EM (List (Option Str × EInfo)) :=
  match stack with
  | .schema :: _ => .ok es.top.children
  | .stype n :: _ =>
    match es.types.find? (·.1 == n) with
    | some (_, .concrete t) => .ok t.children
    | _ => .error (.internal "AttributeError")
  | [] => .error (.internal "IndexError")
  | _ => .error (.internal "AttributeError")

def setTopOf (es : ES) (stack : List Frame) (ch : List (Option Str × EInfo)) : ES :=
  match stack with
  | .schema :: _ => { es with top := { es.top with children := ch } }
  | .stype n :: _ => es.updType n fun t => { t with children := ch }
  | _ => es

theorem topChildren_eq (st : PSt) : topChildren st = topOf st.es st.stack := by
  unfold topChildren topOf; rfl

theorem setTopChildren_eq (st : PSt) (ch : List (Option Str × EInfo)) :
    setTopChildren st ch = { st with es := setTopOf st.es st.stack ch } := by
  obtain ⟨es, p, stack, bk, bd⟩ := st
  unfold setTopChildren setTopOf
  cases stack with
  | nil => rfl
  | cons f r => cases f <;> rfl

theorem find_map_key (tys : List (Str × EEntry)) (g : Str × EEntry → Str × EEntry) (hk : ∀ p, (g p).1 = p.1) (n : Str) :
    (tys.map g).find? (·.1 == n) = (tys.find? (·.1 == n)).map g := by
  rw [List.find?_map]
  congr 2
  funext p
  simp only [Function.comp, hk]

/-- replacing the children of the container on top of the stack -/
theorem setTopOf_inv {es : ES} {stack : List Frame} {ch ch' : List (Option Str × EInfo)} (hinv : ESInv es)
    (ht : topOf es stack = .ok ch) (hc : ChildrenOK es.types ch → ChildrenOK es.types ch') :
    ESInv (setTopOf es stack ch') ∧ topOf (setTopOf es stack ch') stack = .ok ch' := by
  unfold topOf at ht
  split at ht
  · simp only [Except.ok.injEq] at ht
    subst ht
    exact ⟨hinv.set_top_children ch' (hc hinv.top), rfl⟩
  · rename_i n rest
    split at ht
    · rename_i n' t hf
      simp only [Except.ok.injEq] at ht
      subst ht
      obtain ⟨hmem, hn'⟩ := find_key_mem hf
      simp only at hn'
      subst hn'
      let g : Str × EEntry → Str × EEntry := fun p =>
        if p.1 == n' then (p.1, match p.2 with | .concrete t => .concrete { t with children := ch' } | a => a) else (p.1, p.2)
      have hg : setTopOf es (.stype n' :: rest) ch' = { es with types := es.types.map g } := rfl
      have hk : ∀ p, (g p).1 = p.1 := by intro p; simp only [g]; split <;> rfl
      refine ⟨?_, ?_⟩
      · rw [hg]
        refine hinv.map g hk ?_
        intro p hp hpe
        by_cases hpn : p.1 = n'
        · have := find_key_unique hinv.keys hf hp hpn
          subst this
          simp only [g, beq_self_eq_true, ↓reduceIte]
          exact ⟨hpe.1, hc hpe.2⟩
        · have : (p.1 == n') = false := by simpa using hpn
          simp only [g, this, Bool.false_eq_true, ↓reduceIte]
          exact hpe
      · rw [hg]
        unfold topOf
        simp only
        rw [find_map_key _ g hk, hf]
        simp [g]
    · cases ht
  · cases ht
  · cases ht

theorem ChildrenOK.snoc {tys : List (Str × EEntry)} {ch : List (Option Str × EInfo)} (h : ChildrenOK tys ch)
    (key : Option Str) (info : EInfo) (ha : ∀ c ∈ ch, c.2.attr ≠ info.attr) (hk : ∀ c ∈ ch, ∀ k, key = some k → c.1 ≠ some k)
    (hc : ChildOK tys (key, info)) : ChildrenOK tys (ch ++ [(key, info)]) := by
  refine ⟨?_, ?_, ?_⟩
  · rw [List.map_append, List.nodup_append]
    refine ⟨h.attrs, by simp, ?_⟩
    intro a ha' b hb
    simp only [List.map_cons, List.map_nil, List.mem_singleton] at hb
    subst hb
    simp only [List.mem_map] at ha'
    obtain ⟨c, hc', rfl⟩ := ha'
    exact ha c hc'
  · rw [List.filterMap_append, List.nodup_append]
    refine ⟨h.keys, ?_, ?_⟩
    · cases key <;> simp
    · intro a ha' b hb
      cases key with
      | none => simp at hb
      | some k =>
        simp only [List.filterMap_cons, List.filterMap_nil, List.mem_singleton] at hb
        subst hb
        simp only [List.mem_filterMap] at ha'
        obtain ⟨c, hc', hca⟩ := ha'
        intro hab
        subst hab
        exact hk c hc' a rfl hca
  · intro c hc'
    rcases List.mem_append.mp hc' with hc' | hc'
    · exact h.child c hc'
    · simp only [List.mem_singleton] at hc'
      subst hc'
      exact hc

/-- `_add_child` -/
theorem addChild_inv {st st' : PSt} {key : Option Str} {info : EInfo} (hinv : ESInv st.es)
    (h : addChild st key info = .ok st') (hattr : info.attr ≠ []) (hkey : ∀ k, key = some k → k ≠ [])
    (hc : ChildOK st.es.types (key, info)) :
    ESInv st'.es ∧ st'.stack = st.stack ∧ st'.prefixes = st.prefixes ∧
      ∃ ch, topOf st'.es st.stack = .ok (ch ++ [(key, info)]) := by
  unfold addChild at h
  rw [topChildren_eq] at h
  cases ht : topOf st.es st.stack with
  | error e => simp [ht, bind, Except.bind] at h
  | ok ch =>
    simp only [ht, bind, Except.bind, pure, Except.pure] at h
    split at h
    · cases h
    · rename_i hdup1
      split at h
      · cases h
      · rename_i hdup2
        · have hk1 := hdup1
          have hk2 := hdup2
          · simp only [Except.ok.injEq] at h
            subst h
            rw [setTopChildren_eq]
            have := setTopOf_inv (ch' := ch ++ [(key, info)]) hinv ht ?_
            · exact ⟨this.1, rfl, rfl, ch, this.2⟩
            · intro hch
              refine hch.snoc key info ?_ ?_ hc
              · intro c hcm heq
                have hne : info.attr.isEmpty = false := by
                  cases hi : info.attr with
                  | nil => exact absurd hi hattr
                  | cons a b => rfl
                simp only [hne, Bool.not_false, Bool.true_and, Bool.not_eq_true] at hk2
                rw [List.any_eq_false] at hk2
                exact hk2 c hcm (by simpa using heq)
              · intro c hcm k hkk heq
                subst hkk
                have hkne := hkey k rfl
                have htk : truthyKey (some k) = true := by
                  cases k with
                  | nil => exact absurd rfl hkne
                  | cons a b => rfl
                simp only [htk, Bool.true_and, Bool.not_eq_true] at hk1
                rw [List.any_eq_false] at hk1
                have := hk1 c hcm
                rw [heq] at this
                simp [htk] at this

theorem setTopOf_grows (es : ES) (stack : List Frame) (ch : List (Option Str × EInfo)) : Grows es (setTopOf es stack ch) := by
  unfold setTopOf
  split
  · exact Grows.of_types_eq rfl
  · exact Grows.updType es _ _
  · exact Grows.refl es

theorem addChild_grows {st st' : PSt} {key : Option Str} {info : EInfo} (h : addChild st key info = .ok st') :
    Grows st.es st'.es := by
  unfold addChild at h
  cases ht : topChildren st with
  | error e => simp [ht, bind, Except.bind] at h
  | ok ch =>
    simp only [ht, bind, Except.bind, pure, Except.pure] at h
    split at h
    · cases h
    · split at h
      · cases h
      · simp only [Except.ok.injEq] at h
        subst h
        rw [setTopChildren_eq]
        exact setTopOf_grows _ _ _

theorem replaceLastChild_grows {st st' : PSt} {k : EKey} (h : replaceLastChild st k = .ok st') : Grows st.es st'.es := by
  unfold replaceLastChild at h
  cases ht : topChildren st with
  | error e => simp [ht, bind, Except.bind] at h
  | ok ch =>
    simp only [ht, bind, Except.bind, pure, Except.pure] at h
    split at h
    · simp only [Except.ok.injEq] at h
      subst h
      rw [setTopChildren_eq]
      exact setTopOf_grows _ _ _
    · cases h

end ZCV.Elab
