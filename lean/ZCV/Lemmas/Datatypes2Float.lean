import ZCV.Lemmas.Datatypes2Int
import ZCV.Model.Datatypes
/-! `float(str)` acceptance: the model `floatOk` against the grammar `DTSpec.FloatLit`. -/
namespace ZCV.DT
open ZCV ZCV.DTSpec

/-! ## the greedy digit scanner -/

/-- the scanner stops in front of `r` -/
def dt2Stop (r : Str) : Prop := r = [] ∨ ∃ c t, r = c :: t ∧ pyDigit c = false ∧ c ≠ '_'

theorem dt2_go_digit (d : Char) (t : Str) (h : pyDigit d = true) : digitPart.go (d :: t) = digitPart.go t := by
  rw [digitPart.go.eq_3 d t (fun _ _ e _ => dt2_digit_ne_underscore d h e), if_pos h]

theorem dt2_go_under (d : Char) (t : Str) (h : pyDigit d = true) :
    digitPart.go ('_' :: d :: t) = digitPart.go t := by
  rw [digitPart.go.eq_2, if_pos h]

theorem dt2_go_stop (r : Str) (h : dt2Stop r) : digitPart.go r = r := by
  rcases h with rfl | ⟨c, t, rfl, hc, hu⟩
  · rfl
  · rw [digitPart.go.eq_3 c t (fun _ _ e _ => hu e), if_neg (by simp [hc])]

theorem dt2_go_body (b : Str) (ds : List Nat) (h : IntBody b ds) (r : Str) (hr : dt2Stop r) :
    ∀ c t, b = c :: t → digitPart.go (t ++ r) = r := by
  induction h with
  | one c v hv => intro c' t' e; injection e with _ e; subst e; exact dt2_go_stop r hr
  | cons c v t ds hv ht ih =>
    intro c' t' e; injection e with _ e; subst e
    obtain ⟨d, t'', rfl, hd⟩ := dt2_intBody_head t ds ht
    rw [List.cons_append, dt2_go_digit d _ hd]
    exact ih d t'' rfl
  | under c v t ds hv ht ih =>
    intro c' t' e; injection e with _ e; subst e
    obtain ⟨d, t'', rfl, hd⟩ := dt2_intBody_head t ds ht
    rw [List.cons_append, List.cons_append, dt2_go_under d _ hd]
    exact ih d t'' rfl

/-- the scanner consumes a digit group in front of a stop -/
theorem dt2_digitPart_digits (d r : Str) (hd : Digits d) (hr : dt2Stop r) : digitPart (d ++ r) = some r := by
  obtain ⟨ds, hb⟩ := hd
  obtain ⟨c, t, rfl, hc⟩ := dt2_intBody_head d ds hb
  rw [List.cons_append, digitPart, if_pos hc, dt2_go_body _ ds hb r hr c t rfl]

/-- a continuation of a digit group -/
def dt2Cont (m : Str) : Prop := ∀ c v, pyDigitVal c = some v → ∃ ds, IntBody (c :: m) ds

theorem dt2_go_decomp (t : Str) : ∃ m, t = m ++ digitPart.go t ∧ dt2Cont m := by
  induction t using digitPart.go.induct with
  | case1 => exact ⟨[], rfl, fun c v hv => ⟨[v], IntBody.one c v hv⟩⟩
  | case2 d t hd ih =>
    obtain ⟨m, hm, hc⟩ := ih
    obtain ⟨vd, hvd⟩ := (dt2_pyDigit_val d).mp hd
    refine ⟨'_' :: d :: m, by rw [dt2_go_under d t hd]; simp [← hm], ?_⟩
    intro c v hv
    obtain ⟨ds, hb⟩ := hc d vd hvd
    exact ⟨v :: ds, IntBody.under c v _ ds hv hb⟩
  | case3 d t hd =>
    refine ⟨[], ?_, fun c v hv => ⟨[v], IntBody.one c v hv⟩⟩
    rw [digitPart.go.eq_2, if_neg hd]; rfl
  | case4 d t hne hd ih =>
    obtain ⟨m, hm, hc⟩ := ih
    obtain ⟨vd, hvd⟩ := (dt2_pyDigit_val d).mp hd
    refine ⟨d :: m, by rw [dt2_go_digit d t hd]; simp [← hm], ?_⟩
    intro c v hv
    obtain ⟨ds, hb⟩ := hc d vd hvd
    exact ⟨v :: ds, IntBody.cons c v _ ds hv hb⟩
  | case5 d t hne hd =>
    refine ⟨[], ?_, fun c v hv => ⟨[v], IntBody.one c v hv⟩⟩
    rw [digitPart.go.eq_3 d t hne, if_neg hd]; rfl

/-- whatever the scanner consumed is a digit group -/
theorem dt2_digitPart_some (s r : Str) (h : digitPart s = some r) : ∃ d, Digits d ∧ s = d ++ r := by
  cases s with
  | nil => cases h
  | cons c t =>
    rw [digitPart] at h
    split at h
    · rename_i hc
      injection h with h
      obtain ⟨m, hm, hcont⟩ := dt2_go_decomp t
      obtain ⟨v, hv⟩ := (dt2_pyDigit_val c).mp hc
      exact ⟨c :: m, hcont c v hv, by rw [← h, List.cons_append, ← hm]⟩
    · cases h

theorem dt2_digitPart_none (c : Char) (t : Str) (h : pyDigit c = false) : digitPart (c :: t) = none := by
  rw [digitPart, if_neg (by simp [h])]

/-! ## the number -/

/-- removing one leading sign -/
def dt2Unsign (r : Str) : Str :=
  match r with
  | '+' :: x => x
  | '-' :: x => x
  | x => x

/-- `afterExp` of `floatBody` -/
def dt2AfterExp (r : Str) : Bool :=
  match r with
  | [] => true
  | e :: r1 =>
    if e == 'e' || e == 'E' then
      match digitPart (dt2Unsign r1) with | some [] => true | _ => false
    else false

theorem dt2_floatBody_eq (s : Str) :
    floatBody s =
      match digitPart s with
      | some r =>
        (match r with
        | '.' :: r1 => (match digitPart r1 with | some r2 => dt2AfterExp r2 | none => dt2AfterExp r1)
        | _ => dt2AfterExp r)
      | none =>
        (match s with
        | '.' :: r1 => (match digitPart r1 with | some r2 => dt2AfterExp r2 | none => false)
        | _ => false) := rfl

theorem dt2_unsign_sign (sg d : Str) (hs : IsSign sg) (hd : Digits d) : dt2Unsign (sg ++ d) = d := by
  obtain ⟨ds, hb⟩ := hd
  obtain ⟨c, t, rfl, hc⟩ := dt2_intBody_head d ds hb
  rcases hs with rfl | rfl | rfl
  · have h1 : c ≠ '-' := by rintro rfl; rw [dt2_minus_not_digit] at hc; cases hc
    have h2 : c ≠ '+' := by rintro rfl; rw [dt2_plus_not_digit] at hc; cases hc
    rw [List.nil_append]
    unfold dt2Unsign
    split
    · rename_i heq; injection heq with h _; exact absurd h h2
    · rename_i heq; injection heq with h _; exact absurd h h1
    · rfl
  · rfl
  · rfl

theorem dt2_unsign_decomp (r : Str) : ∃ sg, IsSign sg ∧ r = sg ++ dt2Unsign r := by
  unfold dt2Unsign
  split
  · exact ⟨['+'], Or.inr (Or.inl rfl), rfl⟩
  · exact ⟨['-'], Or.inr (Or.inr rfl), rfl⟩
  · exact ⟨[], Or.inl rfl, rfl⟩

theorem dt2_afterExp_iff (r : Str) : dt2AfterExp r = true ↔ Exponent r := by
  constructor
  · intro h
    cases r with
    | nil => exact Exponent.none
    | cons e r1 =>
      simp only [dt2AfterExp] at h
      split at h
      · rename_i he
        split at h
        · rename_i hd
          obtain ⟨d, hdig, hd2⟩ := dt2_digitPart_some _ _ hd
          rw [List.append_nil] at hd2
          obtain ⟨sg, hsg, hr1⟩ := dt2_unsign_decomp r1
          rw [hr1, hd2]
          exact Exponent.exp e sg d (by simpa using he) hsg hdig
        · cases h
      · cases h
  · intro h
    cases h with
    | none => rfl
    | exp e sg d he hs hd =>
      have he' : (e == 'e' || e == 'E') = true := by simpa using he
      simp only [dt2AfterExp, he', ↓reduceIte, dt2_unsign_sign sg d hs hd]
      have := dt2_digitPart_digits d [] hd (Or.inl rfl)
      rw [List.append_nil] at this
      rw [this]

theorem dt2_dot_not_digit : pyDigit '.' = false := by decide
theorem dt2_e_not_digit : pyDigit 'e' = false := by decide
theorem dt2_E_not_digit : pyDigit 'E' = false := by decide

theorem dt2_exponent_stop (ex : Str) (h : Exponent ex) : dt2Stop ex := by
  cases h with
  | none => exact Or.inl rfl
  | exp e sg d he hs hd =>
    refine Or.inr ⟨e, _, rfl, ?_, ?_⟩
    · rcases he with rfl | rfl
      · exact dt2_e_not_digit
      · exact dt2_E_not_digit
    · rcases he with rfl | rfl <;> decide

theorem dt2_exponent_no_dot (ex r1 : Str) (h : Exponent ex) : ex ≠ '.' :: r1 := by
  cases h with
  | none => simp
  | exp e sg d he hs hd =>
    intro heq
    injection heq with h1 _
    rcases he with rfl | rfl <;> cases h1

theorem dt2_exponent_digitPart (ex : Str) (h : Exponent ex) : digitPart ex = none := by
  cases h with
  | none => rfl
  | exp e sg d he hs hd =>
    apply dt2_digitPart_none
    rcases he with rfl | rfl
    · exact dt2_e_not_digit
    · exact dt2_E_not_digit

theorem dt2_dot_stop (r : Str) : dt2Stop ('.' :: r) :=
  Or.inr ⟨'.', r, rfl, dt2_dot_not_digit, by decide⟩

/-- **the number grammar**: the model's scanner accepts exactly mantissa + exponent -/
theorem dt2_floatBody_iff (s : Str) : floatBody s = true ↔ FloatNum s := by
  rw [dt2_floatBody_eq]
  constructor
  · intro h
    split at h
    · rename_i r hr
      obtain ⟨a, ha, rfl⟩ := dt2_digitPart_some _ _ hr
      split at h
      · rename_i r1
        split at h
        · rename_i r2 hr2
          obtain ⟨b, hb, rfl⟩ := dt2_digitPart_some _ _ hr2
          exact ⟨a ++ '.' :: b, r2, by simp, Mantissa.intDotFrac a b ha hb, (dt2_afterExp_iff _).mp h⟩
        · exact ⟨a ++ ['.'], r1, by simp, Mantissa.intDot a ha, (dt2_afterExp_iff _).mp h⟩
      · exact ⟨a, r, rfl, Mantissa.int a ha, (dt2_afterExp_iff _).mp h⟩
    · split at h
      · rename_i r1
        split at h
        · rename_i r2 hr2
          obtain ⟨b, hb, rfl⟩ := dt2_digitPart_some _ _ hr2
          exact ⟨'.' :: b, r2, by simp, Mantissa.dotFrac b hb, (dt2_afterExp_iff _).mp h⟩
        · cases h
      · cases h
  · rintro ⟨mant, ex, rfl, hm, hex⟩
    have hstop := dt2_exponent_stop ex hex
    have hae := (dt2_afterExp_iff ex).mpr hex
    cases hm with
    | int _ ha =>
      rw [dt2_digitPart_digits mant ex ha hstop]
      simp only
      split
      · rename_i r1; exact absurd rfl (dt2_exponent_no_dot _ r1 hex)
      · exact hae
    | intDot a ha =>
      rw [List.append_assoc, List.singleton_append, dt2_digitPart_digits a _ ha (dt2_dot_stop ex)]
      simp only [dt2_exponent_digitPart ex hex]
      exact hae
    | dotFrac b hb =>
      rw [List.cons_append, dt2_digitPart_none '.' _ dt2_dot_not_digit]
      simp only [dt2_digitPart_digits b ex hb hstop]
      exact hae
    | intDotFrac a b ha hb =>
      rw [List.append_assoc, List.cons_append, dt2_digitPart_digits a _ ha (dt2_dot_stop _)]
      simp only [dt2_digitPart_digits b ex hb hstop]
      exact hae

/-! ## the literal -/

/-- starts with a character that is neither whitespace nor a sign, ends with a non-whitespace character -/
def dt2Solid (t : Str) : Prop :=
  (∃ c r, t = c :: r ∧ pySpace c = false ∧ c ≠ '+' ∧ c ≠ '-') ∧ ∃ l, t.getLast? = some l ∧ pySpace l = false

theorem dt2_tbl_space_letter : Gen.spaceTbl.all (fun n => !(decide (65 ≤ n ∧ n ≤ 90) || decide (97 ≤ n ∧ n ≤ 122))) = true := by
  decide

theorem dt2_letter_not_space (c : Char) (h : isAsciiLetter c = true) : pySpace c = false := by
  cases hs : pySpace c with
  | false => rfl
  | true =>
    have := List.all_eq_true.mp dt2_tbl_space_letter _ ((dt2_pySpace_iff c).mp hs)
    simp only [isAsciiLetter, inRange, Char.reduceToNat, Bool.or_eq_true, Bool.and_eq_true, decide_eq_true_eq] at h
    simp only [Bool.not_eq_true', Bool.or_eq_false_iff, decide_eq_false_iff_not] at this
    omega

theorem dt2_letters_solid (t : Str) (hne : t ≠ []) (h : t.all isAsciiLetter = true) : dt2Solid t := by
  have hall := List.all_eq_true.mp h
  constructor
  · cases t with
    | nil => exact absurd rfl hne
    | cons c r =>
      have hc := hall c (by simp)
      refine ⟨c, r, rfl, dt2_letter_not_space c hc, ?_, ?_⟩ <;> (rintro rfl; revert hc; decide)
  · cases hl : t.getLast? with
    | none => rw [List.getLast?_eq_none_iff] at hl; exact absurd hl hne
    | some l =>
      exact ⟨l, rfl, dt2_letter_not_space l (hall l (List.mem_of_getLast? hl))⟩

theorem dt2_floatWord_solid (t : Str) (h : FloatWord t) : dt2Solid t := by
  have key : ∀ w : Str, w ≠ [] → w.all isAsciiLetter = true → asciiLower t = w → dt2Solid t := by
    intro w hw hall he
    apply dt2_letters_solid
    · rintro rfl; exact hw he.symm
    · rw [← he] at hall
      unfold asciiLower at hall
      rw [List.all_map] at hall
      rw [← hall]
      congr 1
      funext c
      exact (isAsciiLetter_lower c).symm
  rcases h with h | h | h
  · exact key _ (by decide) (by decide) h
  · exact key _ (by decide) (by decide) h
  · exact key _ (by decide) (by decide) h

theorem dt2_dot_not_space : pySpace '.' = false := by decide

theorem dt2_digits_last (d : Str) (h : Digits d) : ∃ l, d.getLast? = some l ∧ pySpace l = false := by
  obtain ⟨ds, hb⟩ := h
  obtain ⟨l, hl, hd⟩ := dt2_intBody_last d ds hb
  exact ⟨l, hl, dt2_digit_not_space l hd⟩

theorem dt2_digits_head (d : Str) (h : Digits d) :
    ∃ c r, d = c :: r ∧ pySpace c = false ∧ c ≠ '+' ∧ c ≠ '-' := by
  obtain ⟨ds, hb⟩ := h
  obtain ⟨c, r, rfl, hc⟩ := dt2_intBody_head d ds hb
  refine ⟨c, r, rfl, dt2_digit_not_space c hc, ?_, ?_⟩
  · rintro rfl; rw [dt2_plus_not_digit] at hc; cases hc
  · rintro rfl; rw [dt2_minus_not_digit] at hc; cases hc

theorem dt2_getLast?_append_ne {α} (l t : List α) (h : t ≠ []) : (l ++ t).getLast? = t.getLast? := by
  cases t with
  | nil => exact absurd rfl h
  | cons a t => exact dt2_getLast?_append_cons l a t

theorem dt2_mantissa_solid (m : Str) (h : Mantissa m) : dt2Solid m := by
  cases h with
  | int _ ha => exact ⟨dt2_digits_head m ha, dt2_digits_last m ha⟩
  | intDot a ha =>
    obtain ⟨c, r, rfl, h1, h2, h3⟩ := dt2_digits_head a ha
    exact ⟨⟨c, r ++ ['.'], rfl, h1, h2, h3⟩, '.', by rw [dt2_getLast?_append_ne _ _ (by simp)]; rfl,
      dt2_dot_not_space⟩
  | dotFrac b hb =>
    obtain ⟨l, hl, hl2⟩ := dt2_digits_last b hb
    obtain ⟨c, r, rfl, _⟩ := dt2_digits_head b hb
    exact ⟨⟨'.', _, rfl, dt2_dot_not_space, by decide, by decide⟩, l, by rw [List.getLast?_cons_cons]; exact hl, hl2⟩
  | intDotFrac a b ha hb =>
    obtain ⟨c, r, rfl, h1, h2, h3⟩ := dt2_digits_head a ha
    obtain ⟨l, hl, hl2⟩ := dt2_digits_last b hb
    obtain ⟨c', r', rfl, _⟩ := dt2_digits_head b hb
    refine ⟨⟨c, _, rfl, h1, h2, h3⟩, l, ?_, hl2⟩
    rw [dt2_getLast?_append_ne _ _ (by simp), List.getLast?_cons_cons]; exact hl

theorem dt2_floatNum_solid (t : Str) (h : FloatNum t) : dt2Solid t := by
  obtain ⟨m, ex, rfl, hm, hex⟩ := h
  obtain ⟨⟨c, r, rfl, h1, h2, h3⟩, l, hl, hl2⟩ := dt2_mantissa_solid m hm
  refine ⟨⟨c, r ++ ex, rfl, h1, h2, h3⟩, ?_⟩
  cases hex with
  | none => rw [List.append_nil]; exact ⟨l, hl, hl2⟩
  | exp e sg d he hs hd =>
    obtain ⟨l', hl', hl2'⟩ := dt2_digits_last d hd
    obtain ⟨c', r', rfl, _⟩ := dt2_digits_head d hd
    refine ⟨l', ?_, hl2'⟩
    rw [dt2_getLast?_append_ne _ _ (by simp)]
    have : e :: (sg ++ c' :: r') = (e :: sg) ++ c' :: r' := rfl
    rw [this, dt2_getLast?_append_cons]
    exact hl'

/-- the three special words, as the model tests them -/
def dt2WordB (t : Str) : Bool :=
  asciiLower t == "inf".toList || asciiLower t == "infinity".toList || asciiLower t == "nan".toList

theorem dt2_wordB_iff (t : Str) : dt2WordB t = true ↔ FloatWord t := by
  simp only [dt2WordB, FloatWord, Bool.or_eq_true, beq_iff_eq, or_assoc]

theorem dt2_floatOk_eq0 (s : Str) :
    floatOk s = (if dt2WordB (dt2Unsign (stripInt s)) = true then true else floatBody (dt2Unsign (stripInt s))) := rfl

theorem dt2_floatOk_eq (s : Str) :
    floatOk s = (dt2WordB (dt2Unsign (stripInt s)) || floatBody (dt2Unsign (stripInt s))) := by
  rw [dt2_floatOk_eq0]
  cases dt2WordB (dt2Unsign (stripInt s)) <;> rfl

theorem dt2_unsign_solid (sg t : Str) (hs : IsSign sg) (ht : dt2Solid t) : dt2Unsign (sg ++ t) = t := by
  obtain ⟨⟨c, r, rfl, _, h2, h3⟩, _⟩ := ht
  rcases hs with rfl | rfl | rfl
  · rw [List.nil_append]
    unfold dt2Unsign
    split
    · rename_i heq; injection heq with h _; exact absurd h h2
    · rename_i heq; injection heq with h _; exact absurd h h3
    · rfl
  · rfl
  · rfl

theorem dt2_signed_solid_ends (sg t : Str) (hs : IsSign sg) (ht : dt2Solid t) :
    (∃ c r, sg ++ t = c :: r ∧ pySpace c = false) ∧ ∃ l, (sg ++ t).getLast? = some l ∧ pySpace l = false := by
  obtain ⟨⟨c, r, rfl, h1, _, _⟩, l, hl, hl2⟩ := ht
  refine ⟨?_, l, by rw [dt2_getLast?_append_cons]; exact hl, hl2⟩
  rcases hs with rfl | rfl | rfl
  · exact ⟨c, r, rfl, h1⟩
  · exact ⟨'+', c :: r, rfl, dt2_plus_not_space⟩
  · exact ⟨'-', c :: r, rfl, dt2_minus_not_space⟩

/-- **`float(str)` acceptance**: the model accepts exactly the float literals of the grammar -/
theorem dt2_floatOk_iff (s : Str) : floatOk s = true ↔ FloatLit s := by
  rw [dt2_floatOk_eq, Bool.or_eq_true, dt2_wordB_iff, dt2_floatBody_iff]
  constructor
  · intro h
    obtain ⟨pre, post, hs, hpre, hpost⟩ := dt2_stripInt_decomp s
    obtain ⟨sg, hsg, hu⟩ := dt2_unsign_decomp (stripInt s)
    refine ⟨pre, sg, dt2Unsign (stripInt s), post, ?_, hpre, hpost, hsg, h⟩
    rw [List.append_assoc pre, ← hu]; exact hs
  · rintro ⟨pre, sg, t, post, rfl, hpre, hpost, hsg, ht⟩
    have hsolid : dt2Solid t := by
      rcases ht with h | h
      · exact dt2_floatWord_solid t h
      · exact dt2_floatNum_solid t h
    have hstrip : stripInt (pre ++ sg ++ t ++ post) = sg ++ t := by
      rw [List.append_assoc pre sg t]
      exact dt2_stripInt_mid' pre (sg ++ t) post hpre hpost (dt2_signed_solid_ends sg t hsg hsolid)
    rw [hstrip, dt2_unsign_solid sg t hsg hsolid]
    exact ht

/-- every integer literal is a float literal -/
theorem dt2_intLit_floatLit (s : Str) (n : Int) (h : IntLit s n) : FloatLit s := by
  obtain ⟨pre, sg, body, post, ds, rfl, hpre, hpost, hb, hn⟩ := h
  refine ⟨pre, sg, body, post, rfl, hpre, hpost, ?_, Or.inr ⟨body, [], by simp, Mantissa.int body ⟨ds, hb⟩, Exponent.none⟩⟩
  rcases hn with ⟨h | h, _⟩ | ⟨h, _⟩
  · exact Or.inl h
  · exact Or.inr (Or.inl h)
  · exact Or.inr (Or.inr h)

theorem dt2_floatLit_ne_nil : ¬ FloatLit [] := by
  intro h
  have := (dt2_floatOk_iff []).mpr h
  revert this
  decide

end ZCV.DT
