import ZCV.Lemmas.ElabNoIntEx
/-!
C11 (`extends` = written-out expansion), step 1: `computedefault` is idempotent, so deriving a section type under the
SAME key type copies the base's children unchanged (`deriveChildren_same_keytype`).
-/
namespace ZCV.Elab
open ZCV ZCV.Cfg

/-- `b` is `a` with (at most) another default -/
def OnlyDflt (a b : EKey) : Prop := b = { a with dflt := b.dflt }

theorem OnlyDflt.refl (a : EKey) : OnlyDflt a a := rfl
theorem OnlyDflt.trans {a b c : EKey} (h1 : OnlyDflt a b) (h2 : OnlyDflt b c) : OnlyDflt a c := by
  unfold OnlyDflt at *
  rw [h2, h1]

/-- `add_valueinfo` only touches the default -/
theorem addValueInfo_onlyDflt {k k' : EKey} {vi : VI} {key : Option Str} (h : addValueInfo k vi key = .ok k') :
    OnlyDflt k k' := by
  unfold addValueInfo at h
  unfold OnlyDflt
  dsimp only at h
  (repeat' split at h) <;> first | (cases h; done) | (injection h with h; rw [← h])

/-- `add_valueinfo` does not look at the `finished` flag -/
theorem addValueInfo_finished (k : EKey) (vi : VI) (key : Option Str) (b : Bool) :
    addValueInfo { k with finished := b } vi key = (addValueInfo k vi key).map (fun r => { r with finished := b }) := by
  unfold addValueInfo
  dsimp only
  (repeat' split) <;> rfl

theorem foldlM_congr_map {ε α β} (u : β → β) (f : β → α → Except ε β)
    (hf : ∀ b a, f (u b) a = (f b a).map u) : ∀ (l : List α) (b : β), l.foldlM f (u b) = (l.foldlM f b).map u := by
  intro l
  induction l with
  | nil => intro b; rfl
  | cons a l ih =>
    intro b
    rw [List.foldlM_cons, List.foldlM_cons, hf]
    cases f b a with
    | error e => rfl
    | ok b1 => exact ih b1

/-- the loop of `computedefault`, from a given accumulator -/
def cdFold (env : Env) (kt : Str) (raw : Default) (acc : EKey) : EM EKey :=
  match raw with
  | .keyed m =>
    m.foldlM (fun (acc : EKey) (p : Str × VI) => do
      let key ← convDefaultKey env kt p.1
      addValueInfo acc p.2 (some key)) acc
  | .keyedMany m =>
    m.foldlM (fun (acc : EKey) (p : Str × List VI) => do
      let key ← convDefaultKey env kt p.1
      p.2.foldlM (fun (a : EKey) (vi : VI) => addValueInfo a vi (some key)) acc) acc
  | _ => .error (.internal "AttributeError")

def emptyLike : Default → Default
  | .keyed _ => .keyed []
  | .keyedMany _ => .keyedMany []
  | d => d

theorem computeDefault_eq_fold (env : Env) (kt : Str) (k : EKey) (hp : k.name = ['+']) :
    computeDefault env kt k =
      cdFold env kt (k.raw.getD k.dflt) { k with raw := some (k.raw.getD k.dflt), dflt := emptyLike (k.raw.getD k.dflt) } := by
  unfold computeDefault cdFold
  have : (k.name != ['+']) = false := by simp [hp]
  simp only [this, Bool.false_eq_true, ↓reduceIte]
  cases k.raw.getD k.dflt <;> rfl

theorem cdFold_onlyDflt {env : Env} {kt : Str} {raw : Default} {acc k' : EKey} (h : cdFold env kt raw acc = .ok k') :
    OnlyDflt acc k' := by
  unfold cdFold at h
  split at h
  · refine foldlM_inv (OnlyDflt acc) _ ?_ _ _ k' (OnlyDflt.refl _) h
    intro b a b' hb hstep
    rw [bind_ok] at hstep
    obtain ⟨key, _, hstep⟩ := hstep
    exact hb.trans (addValueInfo_onlyDflt hstep)
  · refine foldlM_inv (OnlyDflt acc) _ ?_ _ _ k' (OnlyDflt.refl _) h
    intro b a b' hb hstep
    rw [bind_ok] at hstep
    obtain ⟨key, _, hstep⟩ := hstep
    exact foldlM_inv (OnlyDflt acc) _ (fun b1 vi b2 hb1 hs1 => hb1.trans (addValueInfo_onlyDflt hs1)) a.2 b b' hb hstep
  · cases h

theorem cdFold_finished (env : Env) (kt : Str) (raw : Default) (acc : EKey) (b : Bool) :
    cdFold env kt raw { acc with finished := b } = (cdFold env kt raw acc).map (fun r => { r with finished := b }) := by
  unfold cdFold
  split
  · refine foldlM_congr_map (fun r : EKey => { r with finished := b }) _ ?_ _ acc
    intro a p
    cases convDefaultKey env kt p.1 with
    | error e => rfl
    | ok key => exact addValueInfo_finished a p.2 (some key) b
  · refine foldlM_congr_map (fun r : EKey => { r with finished := b }) _ ?_ _ acc
    intro a p
    cases convDefaultKey env kt p.1 with
    | error e => rfl
    | ok key =>
      exact foldlM_congr_map (fun r : EKey => { r with finished := b }) _
        (fun a' vi => addValueInfo_finished a' vi (some key) b) p.2 a
  · rfl

/-- **`computedefault` is idempotent** (under the same key type): recomputing the defaults of a `+` key from its raw
    defaults gives the same key object again — also after the key has been finished in between. -/
theorem computeDefault_idem {env : Env} {kt : Str} {k k1 : EKey} (hp : k.name = ['+'])
    (h : computeDefault env kt k = .ok k1) (b : Bool) :
    computeDefault env kt { k1 with finished := b } = .ok { k1 with finished := b } := by
  rw [computeDefault_eq_fold env kt k hp] at h
  have hod := cdFold_onlyDflt h
  unfold OnlyDflt at hod
  have hraw : k1.raw = some (k.raw.getD k.dflt) := by rw [hod]
  have hname : k1.name = ['+'] := by rw [hod]; exact hp
  rw [computeDefault_eq_fold env kt { k1 with finished := b } hname]
  simp only [hraw, Option.getD_some]
  have hacc : ({ k1 with finished := b, raw := some (k.raw.getD k.dflt), dflt := emptyLike (k.raw.getD k.dflt) } : EKey) =
      { ({ k with raw := some (k.raw.getD k.dflt), dflt := emptyLike (k.raw.getD k.dflt) } : EKey) with finished := b } := by
    rw [hod]
  rw [hacc, cdFold_finished, h, ← hraw]
  rfl

theorem mapM_fix {ε α} (f : α → Except ε α) : ∀ (l : List α), (∀ a ∈ l, f a = .ok a) → l.mapM f = .ok l := by
  intro l
  induction l with
  | nil => intro _; rfl
  | cons a l ih =>
    intro h
    rw [List.mapM_cons, h a List.mem_cons_self, ih (fun a' ha' => h a' (List.mem_cons_of_mem _ ha'))]
    rfl

/-- every `+` key of the list has defaults that were computed under `kt` -/
def ComputedUnder (env : Env) (kt : Str) (ch : List (Option Str × EInfo)) : Prop :=
  ∀ c ∈ ch, ∀ k, c.2 = EInfo.key k → k.name = ['+'] → computeDefault env kt k = .ok k

/-- **Deriving under the same key type copies the children unchanged.** -/
theorem deriveChildren_same_keytype {env : Env} {kt : Str} {ch : List (Option Str × EInfo)}
    (h : ComputedUnder env kt ch) : deriveChildren env kt ch = .ok ch := by
  unfold deriveChildren
  refine mapM_fix _ ch ?_
  intro ⟨key, info⟩ hmem
  dsimp only
  cases info with
  | sect si => rfl
  | key k =>
    dsimp only
    by_cases hp : k.name = ['+']
    · have : (k.name == ['+']) = true := by simp [hp]
      simp only [this, ↓reduceIte, h _ hmem k rfl hp]
      rfl
    · have : (k.name == ['+']) = false := by simp [hp]
      simp only [this, Bool.false_eq_true, ↓reduceIte]
      rfl

end ZCV.Elab
