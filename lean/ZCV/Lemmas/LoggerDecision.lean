import ZCV.Model.Logger
/-!
C20 — `FileHandlerFactory.__init__`: the complete decision table of `fileHandlerKind`.
-/
namespace ZCV.Log
open ZCV

/-- no rotation option, no `delay`, no `encoding`: what a standard stream accepts -/
def FileOpts.plainStd (o : FileOpts) : Prop :=
  o.maxBytes = 0 ∧ o.oldFiles = 0 ∧ truthy o.when = false ∧ o.delay = false ∧ truthy o.encoding = false

instance (o : FileOpts) : Decidable o.plainStd := by unfold FileOpts.plainStd; infer_instance

/-- the path names one of the two standard streams -/
def FileOpts.isStd (o : FileOpts) : Prop := o.path = "STDERR".toList ∨ o.path = "STDOUT".toList

instance (o : FileOpts) : Decidable o.isStd := by unfold FileOpts.isStd; infer_instance

/-- the `interval` handed to `TimedRotatingFileHandler`: `if not interval: interval = 1` -/
def FileOpts.effInterval (o : FileOpts) : Nat := if o.interval = 0 then 1 else o.interval

theorem logdec_stderr_ne_stdout : "STDERR".toList ≠ "STDOUT".toList := by decide

/-- the decision of `FileHandlerFactory.__init__` as a table: first the path, then the option combination -/
def fileHandlerTable (o : FileOpts) : Except ConvErr HandlerKind :=
  if o.path = "STDERR".toList then (if o.plainStd then .ok .stderr else .error .valueError)
  else if o.path = "STDOUT".toList then (if o.plainStd then .ok .stdout else .error .valueError)
  else if o.oldFiles = 0 then
    (if truthy o.when = false ∧ o.maxBytes = 0 ∧ o.interval = 0 then .ok .plainFile else .error .valueError)
  else if truthy o.when = true then
    (if o.maxBytes = 0 then .ok (.timedRotating o.effInterval) else .error .valueError)
  else if o.maxBytes = 0 then .error .valueError
  else .ok .rotating

macro "logdec_cases" o:ident : tactic => `(tactic|
  (by_cases a : FileOpts.maxBytes $o = 0 <;> by_cases b : FileOpts.oldFiles $o = 0 <;> by_cases c : truthy (FileOpts.when $o) = true <;>
    by_cases g : FileOpts.interval $o = 0 <;> by_cases d : FileOpts.delay $o = true <;> by_cases e : truthy (FileOpts.encoding $o) = true <;> simp [*]))

theorem logdec_table (o : FileOpts) : fileHandlerKind o = fileHandlerTable o := by
  unfold fileHandlerKind fileHandlerTable FileOpts.plainStd FileOpts.effInterval
  by_cases h1 : o.path = "STDERR".toList
  · simp only [h1, beq_self_eq_true, ↓reduceIte, Except.map]
    logdec_cases o
  · have h1' : (o.path == "STDERR".toList) = false := by simpa using h1
    simp only [h1', h1, Bool.false_eq_true, ↓reduceIte]
    by_cases h2 : o.path = "STDOUT".toList
    · simp only [h2, beq_self_eq_true, ↓reduceIte, Except.map]
      logdec_cases o
    · have h2' : (o.path == "STDOUT".toList) = false := by simpa using h2
      simp only [h2', h2, Bool.false_eq_true, ↓reduceIte]
      logdec_cases o

macro "logdec_table_cases" o:ident : tactic => `(tactic|
  (rw [logdec_table]
   unfold fileHandlerTable
   try unfold FileOpts.isStd
   have hne := logdec_stderr_ne_stdout
   generalize "STDERR".toList = se at hne ⊢
   generalize "STDOUT".toList = so at hne ⊢
   by_cases h1 : FileOpts.path $o = se
   · have h2 : FileOpts.path $o ≠ so := h1 ▸ hne
     by_cases hp : FileOpts.plainStd $o <;> simp [*] <;> try exact eq_comm
   · by_cases h2 : FileOpts.path $o = so
     · have hne' : so ≠ se := Ne.symm hne
       by_cases hp : FileOpts.plainStd $o <;> simp [*] <;> try exact eq_comm
     · by_cases b : FileOpts.oldFiles $o = 0 <;> by_cases c : truthy (FileOpts.when $o) = true <;>
         by_cases a : FileOpts.maxBytes $o = 0 <;> by_cases g : FileOpts.interval $o = 0 <;> simp [*] <;> try exact eq_comm))

theorem logdec_iff_stderr (o : FileOpts) : fileHandlerKind o = .ok .stderr ↔ o.path = "STDERR".toList ∧ o.plainStd := by
  logdec_table_cases o

theorem logdec_iff_stdout (o : FileOpts) : fileHandlerKind o = .ok .stdout ↔ o.path = "STDOUT".toList ∧ o.plainStd := by
  logdec_table_cases o

theorem logdec_iff_plainFile (o : FileOpts) :
    fileHandlerKind o = .ok .plainFile ↔
      ¬ o.isStd ∧ truthy o.when = false ∧ o.maxBytes = 0 ∧ o.oldFiles = 0 ∧ o.interval = 0 := by
  logdec_table_cases o

theorem logdec_iff_rotating (o : FileOpts) :
    fileHandlerKind o = .ok .rotating ↔ ¬ o.isStd ∧ truthy o.when = false ∧ o.maxBytes ≠ 0 ∧ o.oldFiles ≠ 0 := by
  logdec_table_cases o

theorem logdec_iff_timedRotating (o : FileOpts) (n : Nat) :
    fileHandlerKind o = .ok (.timedRotating n) ↔
      ¬ o.isStd ∧ truthy o.when = true ∧ o.maxBytes = 0 ∧ o.oldFiles ≠ 0 ∧ n = o.effInterval := by
  logdec_table_cases o

theorem logdec_iff_error (o : FileOpts) (e : ConvErr) :
    fileHandlerKind o = .error e ↔
      e = .valueError ∧
      ((o.isStd ∧ ¬ o.plainStd) ∨
       (¬ o.isStd ∧ o.oldFiles = 0 ∧ (truthy o.when = true ∨ o.maxBytes ≠ 0 ∨ o.interval ≠ 0)) ∨
       (¬ o.isStd ∧ o.oldFiles ≠ 0 ∧ truthy o.when = true ∧ o.maxBytes ≠ 0) ∨
       (¬ o.isStd ∧ o.oldFiles ≠ 0 ∧ truthy o.when = false ∧ o.maxBytes = 0)) := by
  logdec_table_cases o

end ZCV.Log
