import ZCV.Lemmas.TextLoad
import ZCV.Lemmas.LayoutLoad
import ZCV.Lemmas.IncludeGen
import ZCV.Lemmas.NoInternalLower
/-!
C06 at the level of the loader.

The value `Cfg.load` returns for a text (no `%import`, no overrides) is a FUNCTION OF THE EVENT STREAM the parser delivers
to the position-free recording context `rec0`:

* `evStack` replays a list of events on the tree builder's stack (every position replaced by `pos0`);
* `evSim`: the tree-building context `treeCtx` is simulated by `rec0` — after the same lines, the tree builder's stack,
  positions erased, is `evStack` of the events recorded, and the tree builder accepts exactly when `rec0` does;
* `treeOf_events`, `load_value_events`: hence `treeOf` (positions erased) and the value of `load` factor through the
  outcome of the `rec0` parse (`denote_erase`: the schema's value ignores positions; `loadTree_eq_denote`; `load_eq_loadTree`).

Every statement of the form "these two texts give `rec0` the same events" (C06: `%include` = textual inclusion) therefore
transfers to `load` with no new induction over the texts.
-/
namespace ZCV.Conf
open ZCV ZCV.Cfg

/-- one level of the tree builder's stack: type, name, items so far (most recent first) -/
abbrev Lvl := Str × Option Str × List Item

/-- what one event does to the tree builder's stack (positions are `pos0`) -/
def evStep (stk : List Lvl) : Ev0 → List Lvl
  | .start ty nm => (ty, nm, []) :: stk
  | .stop _ _ =>
    match stk with
    | (ty, nm, items) :: (pty, pnm, pitems) :: rest => (pty, pnm, Item.sect ty nm items.reverse :: pitems) :: rest
    | _ => stk
  | .value k v =>
    match stk with
    | (ty, nm, items) :: rest => (ty, nm, Item.kv k v pos0 :: items) :: rest
    | [] => []
  | .imp _ => stk

/-- the tree builder's stack after the events, starting from the empty document -/
def evStack (evs : List Ev0) : List Lvl := evs.foldl evStep [([], none, [])]

theorem evStack_snoc (evs : List Ev0) (e : Ev0) : evStack (evs ++ [e]) = evStep (evStack evs) e := by
  unfold evStack
  rw [List.foldl_append]
  rfl

/-- the tree (positions erased) a complete event stream describes -/
def itemsOfEvents (evs : List Ev0) : Option (List Item) :=
  match evStack evs with
  | [(_, _, items)] => some items.reverse
  | _ => none

/-- the configuration the schema defines for an event stream -/
def valueOfEvents (conv : Conv) (s : Schema) (evs : List Ev0) : Option Val :=
  (itemsOfEvents evs).bind (denote conv s)

/-- the tree builder's stack, positions erased, is what the events say; its height is that of the open sections + 1 -/
def EvR (F : List (Str × Option Str)) (evs : List Ev0) (tb : TB) : Prop :=
  tb.stack.map eraseLevel = evStack evs ∧ tb.stack.length = F.length + 1

theorem eraseItems_nil : eraseItems [] = [] := by rw [eraseItems]

theorem evSim : CtxSim rec0 treeCtx EvR (fun _ => False) where
  canInc := rfl
  canDef := rfl
  dead :=
    { start := by intro _ _ _ _ _ h _; exact h
      stop := by intro _ _ _ _ _ h _; exact h
      value := by intro _ _ _ _ _ _ h _; exact h
      imp := by intro _ _ _ _ h _; exact h }
  start := by
    intro F evs tb ty nm h
    obtain ⟨h1, h2⟩ := h
    show SimO _ _ (some (evs ++ [Ev0.start ty nm])) (some ({ stack := (ty, nm, []) :: tb.stack } : TB))
    refine SimO.some_some ⟨?_, ?_⟩
    · rw [evStack_snoc, ← h1]
      simp only [List.map_cons, eraseLevel, evStep, eraseItems_nil]
    · simp only [List.length_cons, h2]
  stop := by
    intro F evs tb ty nm h
    obtain ⟨h1, h2⟩ := h
    show SimO _ _ (some (evs ++ [Ev0.stop ty nm])) (tbStop tb ty nm).toOption
    unfold tbStop
    cases hst : tb.stack with
    | nil => rw [hst] at h2; simp at h2
    | cons x r =>
      cases r with
      | nil => rw [hst] at h2; simp at h2
      | cons y rest =>
        obtain ⟨ty1, nm1, its⟩ := x
        obtain ⟨pty, pnm, pits⟩ := y
        rw [hst] at h1 h2
        refine SimO.some_some ⟨?_, ?_⟩
        · rw [evStack_snoc, ← h1]
          simp only [List.map_cons, eraseLevel, evStep, eraseItems_cons, eraseItem, eraseItems_reverse]
        · simp only [List.length_cons] at h2 ⊢
          omega
  value := by
    intro F evs tb k v p h
    obtain ⟨h1, h2⟩ := h
    show SimO _ _ (some (evs ++ [Ev0.value k v])) (tbValue tb k v p).toOption
    unfold tbValue
    cases hst : tb.stack with
    | nil => rw [hst] at h2; simp at h2
    | cons x rest =>
      obtain ⟨ty1, nm1, its⟩ := x
      rw [hst] at h1 h2
      refine SimO.some_some ⟨?_, ?_⟩
      · rw [evStack_snoc, ← h1]
        simp only [List.map_cons, eraseLevel, evStep, eraseItems_cons, eraseItem]
      · simpa using h2

/-- the state in which the recording parse of a whole text starts -/
def recSt0 : PS (List Ev0) := { ctx := [], stack := [], defs := [] }

/-- the outcome of the recording parse of a whole text, as `load` would read it (fuel, active resources, line 0) -/
def recOutcome (env : Env) (url : Option Str) (lines : List Str) :
    Option (List Ev0 × List (Str × Str) × List (Str × Option Str)) :=
  outcome (parseLines 64 env rec0 (activeOf url) url lines 0 recSt0)

/-- **the tree of a text, positions erased, is a function of the events**; and the tree builder rejects exactly the
    texts the recording parser rejects (texts without `%import`) -/
theorem treeOf_events (env : Env) (url : Option Str) (lines : List Str)
    (hni : ∀ l ∈ lines, NoImportLine l)
    (hres : ∀ u ls, env.res u = some ls → ∀ l ∈ ls, NoImportLine l) :
    (treeOf env url lines).toOption.map eraseItems = (recOutcome env url lines).bind (fun o => itemsOfEvents o.1) := by
  have hsim := parse_sim rec0 treeCtx EvR (fun _ => False) evSim env hres 64 (activeOf url) url lines 0
    recSt0 { ctx := { stack := [([], none, [])] }, stack := [], defs := [] } [] hni
    ⟨rfl, rfl, rfl, rfl⟩
  rw [treeOf_eq, toOption_bind]
  unfold recOutcome
  cases hR : parseLines 64 env rec0 (activeOf url) url lines 0 recSt0 with
  | error e =>
    rw [hR] at hsim
    cases hT : parseLines 64 env treeCtx (activeOf url) url lines 0
        { ctx := { stack := [([], none, [])] }, stack := [], defs := [] } with
    | error e' => rfl
    | ok psT => exact (hsim psT (by rw [hT]; rfl)).elim
  | ok psR =>
    rw [hR] at hsim
    obtain ⟨psT, hT, ⟨_, _, hstk, hlen⟩, hnil⟩ := hsim
    rw [toOption_eq_some] at hT
    rw [hT]
    simp only [toOption_ok, Option.bind_some, outcome]
    rw [hnil] at hlen
    unfold itemsOfEvents
    rw [← hstk]
    cases hs : psT.ctx.stack with
    | nil => rw [hs] at hlen; simp at hlen
    | cons x r =>
      cases r with
      | cons y r' => rw [hs] at hlen; simp at hlen
      | nil =>
        obtain ⟨ty0, nm0, its⟩ := x
        simp only [pure, Except.pure, toOption_ok, Option.map_some, List.map_cons, List.map_nil, eraseLevel,
          eraseItems_reverse]

/-- `treeOf_tyCanon` with idempotence of `lower` discharged -/
theorem treeOf_tyCanon' (env : Env) (url : Option Str) (lines : List Str) (s : Schema) (items : List Item)
    (hs : schemaOK s = true) (h : treeOf env url lines = .ok items) : tyCanon s items = true := by
  rw [treeOf_eq] at h
  obtain ⟨ps, hps, h⟩ := bind_ok_inv h
  have hinv := parse_inv treeCtx (fun _ tb => TBok s tb.stack) (tbokInv s hs ZCV.lower_idem) env 64 (activeOf url) url
    lines 0 _ ps [] (by show TBok s [([], none, [])]; rw [TBok]; exact tyCanon_nil s) hps
  split at h
  · rename_i ty0 nm0 its hstk
    cases h
    rw [hstk, TBok] at hinv
    rw [tyCanon_reverse]
    exact hinv
  · cases h

/-- **the configuration `load` returns is a function of the events** the parser delivers (and of nothing else in the
    text): `load` accepts iff the recording parse does and the schema gives the event stream a value, and then returns that
    value.  Texts without `%import` (here and in everything that can be included), no overrides, any `schemaOK` schema. -/
theorem load_value_events (conv : Conv) (env : Env) (pkgs : Str → Pkg) (s : Schema) (url : Option Str) (lines : List Str)
    (hs : schemaOK s = true)
    (hni : ∀ l ∈ lines, NoImportLine l)
    (hres : ∀ u ls, env.res u = some ls → ∀ l ∈ ls, NoImportLine l) :
    (load conv env pkgs s url lines []).toOption.map (·.value) =
      (recOutcome env url lines).bind (fun o => valueOfEvents conv s o.1) := by
  have hev := treeOf_events env url lines hni hres
  rw [load_eq_loadTree conv env pkgs s url lines hni hres]
  unfold valueOfEvents
  rw [← Option.bind_assoc, ← hev]
  cases hT : treeOf env url lines with
  | error e => rfl
  | ok items =>
    have hc := treeOf_tyCanon' env url lines s items hs hT
    simp only [toOption_ok, Option.bind_some, Option.map_some]
    rw [loadTree_eq_denote conv s items hs hc, denote_erase]

/-- two texts that give the recording context the same events (or are both rejected by the parser) are loaded alike -/
theorem load_value_congr (conv : Conv) (env : Env) (pkgs : Str → Pkg) (s : Schema) (url : Option Str) (L L' : List Str)
    (hs : schemaOK s = true)
    (hni : ∀ l ∈ L, NoImportLine l) (hni' : ∀ l ∈ L', NoImportLine l)
    (hres : ∀ u ls, env.res u = some ls → ∀ l ∈ ls, NoImportLine l)
    (h : recOutcome env url L = recOutcome env url L') :
    (load conv env pkgs s url L []).toOption.map (·.value) = (load conv env pkgs s url L' []).toOption.map (·.value) := by
  rw [load_value_events conv env pkgs s url L hs hni hres, load_value_events conv env pkgs s url L' hs hni' hres, h]

/-- equal values-or-rejections: one load fails iff the other does -/
theorem load_rejected_iff_of_value_eq {x y : M LoadResult}
    (h : x.toOption.map (·.value) = y.toOption.map (·.value)) : (∃ e, x = .error e) ↔ (∃ e, y = .error e) := by
  cases x with
  | error e =>
    cases y with
    | error e' => exact ⟨fun _ => ⟨e', rfl⟩, fun _ => ⟨e, rfl⟩⟩
    | ok b => cases h
  | ok a =>
    cases y with
    | error e' => cases h
    | ok b =>
      constructor
      · intro h'; obtain ⟨_, h'⟩ := h'; cases h'
      · intro h'; obtain ⟨_, h'⟩ := h'; cases h'

/-- if `load` accepts a text (no `%import`), the recording parse accepted it -/
theorem recOutcome_of_load_ok (conv : Conv) (env : Env) (pkgs : Str → Pkg) (s : Schema) (url : Option Str) (lines : List Str)
    (r : LoadResult) (hs : schemaOK s = true)
    (hni : ∀ l ∈ lines, NoImportLine l)
    (hres : ∀ u ls, env.res u = some ls → ∀ l ∈ ls, NoImportLine l)
    (h : load conv env pkgs s url lines [] = .ok r) :
    ∃ ps, parseLines 64 env rec0 (activeOf url) url lines 0 recSt0 = .ok ps := by
  have := load_value_events conv env pkgs s url lines hs hni hres
  rw [h] at this
  unfold recOutcome at this
  cases hp : parseLines 64 env rec0 (activeOf url) url lines 0 recSt0 with
  | ok ps => exact ⟨ps, rfl⟩
  | error e => rw [hp] at this; cases this

/-! ### the two texts of C06 contain no `%import` when their parts do not -/

theorem noImport_of_include (inc arg : Str) (h : lineShape (strip inc) = .include_ arg) : NoImportLine inc := by
  intro a ha
  rw [h] at ha
  cases ha

theorem noImport_include_text (A B : List Str) (inc arg : Str) (h : lineShape (strip inc) = .include_ arg)
    (hA : ∀ l ∈ A, NoImportLine l) (hB : ∀ l ∈ B, NoImportLine l) : ∀ l ∈ A ++ [inc] ++ B, NoImportLine l := by
  intro l hl
  simp only [List.mem_append, List.mem_singleton] at hl
  rcases hl with (hl | hl) | hl
  · exact hA l hl
  · subst hl; exact noImport_of_include l arg h
  · exact hB l hl

theorem noImport_inline_text (A F B : List Str)
    (hA : ∀ l ∈ A, NoImportLine l) (hF : ∀ l ∈ F, NoImportLine l) (hB : ∀ l ∈ B, NoImportLine l) :
    ∀ l ∈ A ++ F ++ B, NoImportLine l := by
  intro l hl
  simp only [List.mem_append] at hl
  rcases hl with (hl | hl) | hl
  · exact hA l hl
  · exact hF l hl
  · exact hB l hl

/-! ### `%include` = textual inclusion, for `load` -/

section inline
variable (conv : Conv) (env : Env) (pkgs : Str → Pkg) (s : Schema) (url : Option Str) (A F B : List Str) (inc arg u : Str)
  (hs : schemaOK s = true)
  (hniA : ∀ l ∈ A, NoImportLine l) (hniB : ∀ l ∈ B, NoImportLine l)
  (hresNI : ∀ u ls, env.res u = some ls → ∀ l ∈ ls, NoImportLine l)
  (hshape : lineShape (strip inc) = .include_ arg)
  (hfile : env.res u = some F)
include hs hniA hniB hresNI hshape hfile

/-- transfer: equal outcomes of the two recording parses give equal loads -/
theorem load_include_of_outcome
    (h : recOutcome env url (A ++ [inc] ++ B) = recOutcome env url (A ++ F ++ B)) :
    (load conv env pkgs s url (A ++ [inc] ++ B) []).toOption.map (·.value) =
      (load conv env pkgs s url (A ++ F ++ B) []).toOption.map (·.value) :=
  load_value_congr conv env pkgs s url _ _ hs (noImport_include_text A B inc arg hshape hniA hniB)
    (noImport_inline_text A F B hniA (hresNI u F hfile) hniB) hresNI h

theorem load_include_eq_inline_subst
    (hprep : ∀ sA, runLines 64 env rec0 (activeOf url) url A 0 recSt0 = .ok sA →
      ∃ a, replace env sA.defs url (A.length + 1) (strip arg) = .ok a ∧ env.resolve url a = .url u)
    (hact : u ∉ activeOf url)
    (hbal : Balanced F) (hni : NoInclude F) :
    (load conv env pkgs s url (A ++ [inc] ++ B) []).toOption.map (·.value) =
      (load conv env pkgs s url (A ++ F ++ B) []).toOption.map (·.value) := by
  apply load_include_of_outcome conv env pkgs s url A F B inc arg u hs hniA hniB hresNI hshape hfile
  exact incgen_inline_subst 63 env (activeOf url) url A F B inc arg u 0 recSt0 hshape
    (fun sA h => by rw [Nat.zero_add]; exact hprep sA h) hfile hact hbal hni

theorem load_include_eq_inline
    (hnodollar : '$' ∉ strip arg)
    (hres : env.resolve url (strip arg) = .url u)
    (hact : u ∉ activeOf url)
    (hbal : Balanced F) (hni : NoInclude F) :
    (load conv env pkgs s url (A ++ [inc] ++ B) []).toOption.map (·.value) =
      (load conv env pkgs s url (A ++ F ++ B) []).toOption.map (·.value) :=
  load_include_eq_inline_subst conv env pkgs s url A F B inc arg u hs hniA hniB hresNI hshape hfile
    (fun _ _ => ⟨strip arg, replace_nodollar _ _ _ _ _ hnodollar, hres⟩) hact hbal hni

theorem load_include_eq_inline_nested
    (hprep : ∀ sA, runLines 64 env rec0 (activeOf url) url A 0 recSt0 = .ok sA →
      ∃ a, replace env sA.defs url (A.length + 1) (strip arg) = .ok a ∧ env.resolve url a = .url u)
    (hact : u ∉ activeOf url)
    (hbal : Balanced F)
    (hrel : ∀ l ∈ F, ∀ arg', lineShape (strip l) = .include_ arg' → ∀ a, env.resolve (some u) a = env.resolve url a)
    (hnl : incgenNoLimit (parseLines 64 env rec0 (activeOf url) url (A ++ [inc] ++ B) 0 recSt0)) :
    (load conv env pkgs s url (A ++ [inc] ++ B) []).toOption.map (·.value) =
      (load conv env pkgs s url (A ++ F ++ B) []).toOption.map (·.value) := by
  apply load_include_of_outcome conv env pkgs s url A F B inc arg u hs hniA hniB hresNI hshape hfile
  exact incgen_inline_nested 63 env (activeOf url) url A F B inc arg u 0 recSt0 hshape
    (fun sA h => by rw [Nat.zero_add]; exact hprep sA h) hfile hact hbal hrel hnl

/-- if the text with the `%include` line is accepted by `load`, the inlined text is accepted with the same configuration -/
theorem load_include_eq_inline_nested_ok (r : LoadResult)
    (hprep : ∀ sA, runLines 64 env rec0 (activeOf url) url A 0 recSt0 = .ok sA →
      ∃ a, replace env sA.defs url (A.length + 1) (strip arg) = .ok a ∧ env.resolve url a = .url u)
    (hact : u ∉ activeOf url)
    (hbal : Balanced F)
    (hrel : ∀ l ∈ F, ∀ arg', lineShape (strip l) = .include_ arg' → ∀ a, env.resolve (some u) a = env.resolve url a)
    (hok : load conv env pkgs s url (A ++ [inc] ++ B) [] = .ok r) :
    (load conv env pkgs s url (A ++ F ++ B) []).toOption.map (·.value) = some r.value := by
  obtain ⟨ps, hps⟩ := recOutcome_of_load_ok conv env pkgs s url _ r hs
    (noImport_include_text A B inc arg hshape hniA hniB) hresNI hok
  rw [← load_include_eq_inline_nested conv env pkgs s url A F B inc arg u hs hniA hniB hresNI hshape hfile hprep hact hbal hrel
    (by rw [hps]; exact incgenNoLimit_ok _), hok]
  rfl

/-- from the inlined text: if, read with `u` counted among the resources being read and one unit of fuel less, the inlined
    text meets neither the recursion limit nor an include cycle, the two texts are loaded alike -/
theorem load_include_eq_inline_nested_rev
    (hprep : ∀ sA, runLines 63 env rec0 (u :: activeOf url) url A 0 recSt0 = .ok sA →
      ∃ a, replace env sA.defs url (A.length + 1) (strip arg) = .ok a ∧ env.resolve url a = .url u)
    (hact : u ∉ activeOf url)
    (hbal : Balanced F)
    (hrel : ∀ l ∈ F, ∀ arg', lineShape (strip l) = .include_ arg' → ∀ a, env.resolve (some u) a = env.resolve url a)
    (hnl : incgenNoLimit (parseLines 63 env rec0 (u :: activeOf url) url (A ++ F ++ B) 0 recSt0)) :
    (load conv env pkgs s url (A ++ [inc] ++ B) []).toOption.map (·.value) =
      (load conv env pkgs s url (A ++ F ++ B) []).toOption.map (·.value) := by
  apply load_include_of_outcome conv env pkgs s url A F B inc arg u hs hniA hniB hresNI hshape hfile
  have hsub : ∀ w, w ∈ activeOf url → w ∈ u :: activeOf url := fun w hw => List.mem_cons.2 (.inr hw)
  have h1 := incgen_inline_nested_rev 62 env (activeOf url) url A F B inc arg u 0 recSt0 hshape
    (fun sA h => by rw [Nat.zero_add]; exact hprep sA h) hfile hact hbal hrel hnl
  have h64 := incgen_mono env rec0 63 64 (u :: activeOf url) (activeOf url) url (A ++ F ++ B) 0 recSt0 (by omega) hsub hnl
  have h63 := incgen_mono env rec0 63 63 (u :: activeOf url) (activeOf url) url (A ++ F ++ B) 0 recSt0 (by omega) hsub hnl
  unfold recOutcome
  rw [h64, ← h63]
  exact h1

end inline

end ZCV.Conf
