import ZCV.Lemmas.LoadSlot
import ZCV.Lemmas.IncludeAux
/-!
C12, slot side: what `getsectioninfo` answers at a child that is a slot of ABSTRACT type, exactly (errors included),
once the children before it have been passed over; and what that means for `lsStart`.
-/
namespace ZCV.Cfg
open ZCV ZCV.Conf

/-! ### small facts -/

theorem isSubtype_iff_mem (s : Schema) (a ty : Str) : isSubtype s a ty = true ↔ ty ∈ implementers s a := by
  rw [isSubtype_eq]; exact List.contains_iff_mem

theorem isAbstract_of_isSubtype (s : Schema) (a ty : Str) (h : isSubtype s a ty = true) : isAbstract s a = true := by
  unfold isSubtype at h
  unfold isAbstract
  split at h
  · rfl
  · cases h

/-- an abstract type and a concrete (or unknown) one never have the same name -/
theorem abstract_ne_concrete (s : Schema) (a ty : Str) (ha : isAbstract s a = true) (hc : isAbstract s ty = false) :
    (a == ty) = false := by
  cases h : a == ty with
  | false => rfl
  | true =>
    have : a = ty := by simpa using h
    rw [this, hc] at ha
    cases ha

theorem isAbstract_concrete (s : Schema) (ty : Str) (t : SType) (h : s.gettype ty = some (.concrete t)) :
    isAbstract s ty = false := by
  unfold isAbstract; rw [h]

/-! ### children that do not claim the header are passed over -/

theorem go_skip (s : Schema) (ty : Str) (nm : Option Str) :
    ∀ (pre rest : List (Option Str × Info)),
      (∀ c ∈ pre, keyShapeOK c) → (∀ c ∈ pre, claims s ty nm c = false) →
      getsectioninfo.go s ty nm (pre ++ rest) = getsectioninfo.go s ty nm rest := by
  intro pre
  induction pre with
  | nil => intro rest _ _; rfl
  | cons c pre ih =>
    intro rest hsh hcl
    have ihr := ih rest (fun c hc => hsh c (List.mem_cons_of_mem _ hc)) (fun c hc => hcl c (List.mem_cons_of_mem _ hc))
    have hc := hsh c List.mem_cons_self
    have hclc := hcl c List.mem_cons_self
    obtain ⟨key, info⟩ := c
    obtain ⟨hc1, hc2, _⟩ := hc
    rw [List.cons_append, getsectioninfo.go.eq_def]
    simp only
    cases key with
    | none =>
      obtain ⟨si, hsi⟩ := hc2 rfl
      subst hsi
      simp only [claims, Bool.or_eq_false_iff] at hclc
      obtain ⟨h1, h2⟩ := hclc
      unfold getsectioninfo.goUnkeyed
      simp only [h1, Bool.false_eq_true, if_false]
      by_cases habs : isAbstract s si.ty = true
      · have : isSubtype s si.ty ty = false := by
          rw [isSubtype_eq]
          rw [← isAbstract_eq, habs, Bool.true_and] at h2
          exact h2
        simp only [habs, if_true, this, Bool.false_eq_true, if_false]
        exact ihr
      · simp only [habs, Bool.false_eq_true, if_false]
        exact ihr
    | some k =>
      have hk : (k != []) = true := by simpa using hc1 k rfl
      simp only [claims, hk, Bool.true_and] at hclc
      simp only [hk, if_true, hclc, Bool.false_eq_true, if_false]
      exact ihr

/-- no child claims the header: "no matching section defined" -/
theorem go_none_claims (s : Schema) (ty : Str) (nm : Option Str) (l : List (Option Str × Info))
    (hsh : ∀ c ∈ l, keyShapeOK c) (hcl : ∀ c ∈ l, claims s ty nm c = false) :
    getsectioninfo.go s ty nm l = .error (plainErr "no matching section defined") := by
  have := go_skip s ty nm l [] hsh hcl
  rw [List.append_nil] at this
  rw [this, getsectioninfo.go]

/-! ### at the slot -/

/-- an unnamed (`*` / `+`) slot of abstract type: admitted iff the header's type is a recorded implementer;
    otherwise the slot is passed over -/
theorem go_at_unnamed_abstract (s : Schema) (ty : Str) (nm : Option Str) (si : SectInfo) (post : List (Option Str × Info))
    (hconc : isAbstract s ty = false) (ha : isAbstract s si.ty = true) :
    getsectioninfo.go s ty nm ((none, .sect si) :: post) =
      if isSubtype s si.ty ty then .ok si else getsectioninfo.go s ty nm post := by
  rw [getsectioninfo.go.eq_def]
  simp only
  unfold getsectioninfo.goUnkeyed
  simp only [abstract_ne_concrete s _ _ ha hconc, Bool.false_eq_true, if_false, ha, if_true]

/-- a fixed-name slot of abstract type, header carrying that name: admitted iff the header's type is a recorded
    implementer; otherwise REFUSED (later children are not consulted) -/
theorem go_at_named_abstract (s : Schema) (ty k : Str) (si : SectInfo) (post : List (Option Str × Info))
    (hk : k ≠ []) (ha : isAbstract s si.ty = true) :
    getsectioninfo.go s ty (some k) ((some k, .sect si) :: post) =
      if isSubtype s si.ty ty then .ok si else .error (plainErr "section type not allowed for name") := by
  rw [getsectioninfo.go.eq_def]
  have hk' : (k != []) = true := by simpa using hk
  simp only [hk', if_true, beq_self_eq_true, ha]

/-! ### `stypeOK` consequences -/

theorem stypeOK_shape (s : Schema) (t : SType) (h : stypeOK s t = true) : ∀ c ∈ t.children, keyShapeOK c :=
  (stypeOK_prop s t h).shape

/-- a stored key occurs once: the children before a keyed child do not carry its key -/
theorem keyed_before_not_claim (s : Schema) (t : SType) (h : stypeOK s t = true) (ty k : Str)
    (pre post : List (Option Str × Info)) (info : Info)
    (hch : t.children = pre ++ (some k, info) :: post) :
    ∀ c ∈ pre, ∀ k', c.1 = some k' → claims s ty (some k) c = false := by
  intro c hc k' hk'
  have hn := (stypeOK_prop s t h).keys
  rw [hch, List.filterMap_append, List.filterMap_cons] at hn
  simp only at hn
  have hne : k' ≠ k := by
    intro heq
    subst heq
    rw [List.nodup_append] at hn
    have hmem : k' ∈ List.filterMap (fun x => x.1) pre := List.mem_filterMap.mpr ⟨c, hc, hk'⟩
    exact hn.2.2 k' hmem k' List.mem_cons_self rfl
  obtain ⟨ck, ci⟩ := c
  simp only at hk'
  subst hk'
  simp only [claims]
  have : (some k' == some k) = false := by simpa using hne
  rw [this, Bool.and_false]

/-! ### the types of a well-formed schema -/

theorem gettype_mem (s : Schema) (ty : Str) (te : TypeEntry) (h : s.gettype ty = some te) :
    ∃ n, (n, te) ∈ s.types ∧ n = lower ty := by
  unfold Schema.gettype at h
  cases hf : s.types.find? (·.1 == lower ty) with
  | none => rw [hf] at h; cases h
  | some p =>
    rw [hf] at h
    simp only [Option.map_some, Option.some.injEq] at h
    obtain ⟨n, te'⟩ := p
    simp only at h
    subst h
    have hm := List.mem_of_find?_eq_some hf
    have hp := List.find?_some hf
    exact ⟨n, hm, by simpa using hp⟩

/-- in a well-formed schema every concrete type in the table is well-formed and named by its table key -/
theorem schemaOK_type (s : Schema) (h : schemaOK s = true) (ty : Str) (t : SType)
    (hg : s.gettype ty = some (.concrete t)) : stypeOK s t = true ∧ t.name = some (lower ty) := by
  obtain ⟨n, hm, hn⟩ := gettype_mem s ty _ hg
  unfold schemaOK at h
  simp only [Bool.and_eq_true, List.all_eq_true] at h
  have := h.2 _ hm
  simp only [Bool.and_eq_true, beq_iff_eq] at this
  exact ⟨this.2, by rw [this.1, hn]⟩

theorem schemaOK_top (s : Schema) (h : schemaOK s = true) : stypeOK s s.top = true := by
  unfold schemaOK at h
  simp only [Bool.and_eq_true] at h
  exact h.1.1

/-! ### `lsStart`, flattened (no command-line bag on the parent) -/

theorem lsStart_eq (st : LS) (ty : Str) (nm : Option Str) (parent : Matcher) (below : List Matcher) (t : SType)
    (hs : st.stack = parent :: below) (hb : parent.bag = none) (hg : st.schema.gettype ty = some (.concrete t)) :
    lsStart st ty nm =
      match getsectioninfo st.schema parent.ty (t.name.getD []) nm with
      | .error e => .error e
      | .ok ci =>
        if !isAllowedName ci nm then .error (plainErr "not an allowed name")
        else if !(nm.isSome || allowUnnamed ci) then .error (plainErr "sections may not be unnamed")
        else .ok { st with stack := newMatcher t nm none :: parent :: below } := by
  unfold lsStart
  rw [hs]
  simp only [hg, bind, Except.bind, pure, Except.pure, throw, throwThe, MonadExceptOf.throw]
  cases getsectioninfo st.schema parent.ty (t.name.getD []) nm with
  | error e => rfl
  | ok ci =>
    simp only
    by_cases h1 : (!isAllowedName ci nm) = true
    · simp only [h1, if_true]
    · simp only [h1, Bool.false_eq_true, if_false]
      by_cases h2 : (!(nm.isSome || allowUnnamed ci)) = true
      · simp only [h2, if_true]
      · simp only [h2, Bool.false_eq_true, if_false, hb]

/-- whatever the bag: a header is admitted only through `gettype` and `getsectioninfo` of the schema the load holds NOW -/
theorem lsStart_ok_inv (st st' : LS) (ty : Str) (nm : Option Str) (h : lsStart st ty nm = .ok st') :
    ∃ parent below t ci, st.stack = parent :: below ∧ st.schema.gettype ty = some (.concrete t) ∧
      getsectioninfo st.schema parent.ty (t.name.getD []) nm = .ok ci ∧
      isAllowedName ci nm = true ∧ (nm.isSome || allowUnnamed ci) = true := by
  unfold lsStart at h
  split at h
  · cases h
  · rename_i parent below hs
    split at h
    · cases h
    · cases h
    · rename_i t hg
      simp only [bind, Except.bind, pure, Except.pure, throw, throwThe, MonadExceptOf.throw] at h
      cases hgi : getsectioninfo st.schema parent.ty (t.name.getD []) nm with
      | error e => rw [hgi] at h; cases h
      | ok ci =>
        rw [hgi] at h
        simp only at h
        by_cases h1 : (!isAllowedName ci nm) = true
        · simp only [h1, if_true] at h; cases h
        · by_cases h2 : (!(nm.isSome || allowUnnamed ci)) = true
          · simp only [h1, h2, if_true, Bool.false_eq_true, if_false] at h; cases h
          · refine ⟨parent, below, t, ci, hs, hg, hgi, ?_, ?_⟩
            · simpa using h1
            · cases hb : (nm.isSome || allowUnnamed ci) with
              | true => rfl
              | false => rw [hb] at h2; exact absurd rfl h2

/-! ### the general statement: the first claiming child decides -/

theorem admits_abstract_iff (s : Schema) (ty : Str) (name : Option Str) (si : SectInfo) (c : Option Str × Info)
    (hconc : isAbstract s ty = false) (ha : isAbstract s si.ty = true) (hcl : claims s ty name c = true) :
    admits s ty name c = some si ↔ c.2 = .sect si ∧ ty ∈ implementers s si.ty := by
  obtain ⟨key, info⟩ := c
  have hne := abstract_ne_concrete s _ _ ha hconc
  cases info with
  | key ki => simp [admits]
  | sect si' =>
    constructor
    · intro h
      unfold admits at h
      cases key with
      | some k =>
        simp only at h
        by_cases hab : isAbs s si'.ty = true
        · simp only [hab, if_true] at h
          split at h
          · rename_i hc
            cases h
            exact ⟨rfl, List.contains_iff_mem.mp hc⟩
          · cases h
        · simp only [hab, Bool.false_eq_true, if_false] at h
          split at h
          · cases h
            rw [← isAbstract_eq, ha] at hab
            exact absurd rfl hab
          · cases h
      | none =>
        simp only at h
        by_cases heq : (si'.ty == ty) = true
        · simp only [heq, if_true] at h
          split at h
          · cases h
            rw [hne] at heq
            cases heq
          · cases h
        · simp only [heq, Bool.false_eq_true, if_false, Option.some.injEq] at h
          subst h
          simp only [claims, hne, Bool.false_or, Bool.and_eq_true] at hcl
          exact ⟨rfl, List.contains_iff_mem.mp hcl.2⟩
    · intro ⟨h1, h2⟩
      simp only [Info.sect.injEq] at h1
      subst h1
      have hab : isAbs s si'.ty = true := ha
      have hc : (implementers s si'.ty).contains ty = true := List.contains_iff_mem.mpr h2
      unfold admits
      cases key with
      | some k => simp only [hab, hc, if_true]
      | none => simp only [hne, Bool.false_eq_true, if_false]

/-- **which header an abstract slot admits**: `getsectioninfo` hands the header `<ty name>` (`ty` concrete) to the slot `si`
    of abstract type iff `si` is the FIRST child of the container type claiming the header and `ty` is among the
    implementers the schema records for `si`'s type -/
theorem slot_admits_iff (s : Schema) (t : SType) (hOK : stypeOK s t = true) (ty : Str) (name : Option Str) (si : SectInfo)
    (hconc : isAbstract s ty = false) (ha : isAbstract s si.ty = true) :
    getsectioninfo s t ty name = .ok si ↔
      ∃ c, t.children.find? (claims s ty name) = some c ∧ c.2 = .sect si ∧ ty ∈ implementers s si.ty := by
  rw [← toOption_eq_some, getsectioninfo_eq_slotOf s t ty name (stypeOK_prop s t hOK)]
  unfold slotOf
  cases hf : t.children.find? (claims s ty name) with
  | none => simp
  | some c =>
    simp only [Option.some.injEq, exists_eq_left']
    exact admits_abstract_iff s ty name si c hconc ha (List.find?_some hf)

/-! ### `lsStart` at an abstract slot -/

theorem stypeOK_of_schemaOK (s : Schema) (hs : schemaOK s = true) (t : SType)
    (ht : t = s.top ∨ ∃ pt, s.gettype pt = some (.concrete t)) : stypeOK s t = true := by
  rcases ht with rfl | ⟨pt, hpt⟩
  · exact schemaOK_top s hs
  · exact (schemaOK_type s hs pt t hpt).1

/-- a header of an implementing type, no earlier child claiming it, name rule satisfied: the section is opened -/
theorem lsStart_admitted_unnamed (st : LS) (ty : Str) (nm : Option Str) (parent : Matcher) (below : List Matcher)
    (tt : SType) (si : SectInfo) (pre post : List (Option Str × Info))
    (hs : st.stack = parent :: below) (hb : parent.bag = none)
    (hg : st.schema.gettype ty = some (.concrete tt)) (hcanon : tt.name = some ty)
    (hch : parent.ty.children = pre ++ (none, .sect si) :: post)
    (hshape : ∀ c ∈ pre, keyShapeOK c) (hpre : ∀ c ∈ pre, claims st.schema ty nm c = false)
    (hsub : isSubtype st.schema si.ty ty = true)
    (hname : isAllowedName si nm = true) (hun : (nm.isSome || allowUnnamed si) = true) :
    lsStart st ty nm = .ok { st with stack := newMatcher tt nm none :: parent :: below } := by
  rw [lsStart_eq st ty nm parent below tt hs hb hg, hcanon]
  have hgi : getsectioninfo st.schema parent.ty ty nm = .ok si := by
    unfold getsectioninfo
    rw [hch, go_skip _ _ _ _ _ hshape hpre,
      go_at_unnamed_abstract _ _ _ _ _ (isAbstract_concrete _ _ _ hg) (isAbstract_of_isSubtype _ _ _ hsub), hsub, if_pos rfl]
  simp only [Option.getD_some, hgi, hname, hun, Bool.not_true, Bool.false_eq_true, if_false]

/-- the same at a fixed-name slot of abstract type -/
theorem lsStart_admitted_named (st : LS) (ty k : Str) (parent : Matcher) (below : List Matcher)
    (tt : SType) (si : SectInfo) (pre post : List (Option Str × Info))
    (hs : st.stack = parent :: below) (hb : parent.bag = none)
    (hg : st.schema.gettype ty = some (.concrete tt)) (hcanon : tt.name = some ty)
    (hch : parent.ty.children = pre ++ (some k, .sect si) :: post) (hk : k ≠ [])
    (hshape : ∀ c ∈ pre, keyShapeOK c) (hpre : ∀ c ∈ pre, claims st.schema ty (some k) c = false)
    (hsub : isSubtype st.schema si.ty ty = true) (hname : isAllowedName si (some k) = true) :
    lsStart st ty (some k) = .ok { st with stack := newMatcher tt (some k) none :: parent :: below } := by
  rw [lsStart_eq st ty (some k) parent below tt hs hb hg, hcanon]
  have hgi : getsectioninfo st.schema parent.ty ty (some k) = .ok si := by
    unfold getsectioninfo
    rw [hch, go_skip _ _ _ _ _ hshape hpre,
      go_at_named_abstract _ _ _ _ _ hk (isAbstract_of_isSubtype _ _ _ hsub), hsub, if_pos rfl]
  simp only [Option.getD_some, hgi, hname, Option.isSome_some, Bool.true_or, Bool.not_true, Bool.false_eq_true, if_false]

/-- a header no child of the container claims is refused -/
theorem lsStart_unclaimed_refused (st : LS) (ty : Str) (nm : Option Str) (parent : Matcher) (below : List Matcher)
    (tt : SType) (hs : st.stack = parent :: below)
    (hg : st.schema.gettype ty = some (.concrete tt)) (hcanon : tt.name = some ty)
    (hshape : ∀ c ∈ parent.ty.children, keyShapeOK c)
    (hnone : ∀ c ∈ parent.ty.children, claims st.schema ty nm c = false) :
    lsStart st ty nm = .error (plainErr "no matching section defined") := by
  unfold lsStart
  rw [hs]
  simp only [hg, bind, Except.bind]
  have : getsectioninfo st.schema parent.ty (tt.name.getD []) nm = .error (plainErr "no matching section defined") := by
    rw [hcanon]
    exact go_none_claims _ _ _ _ hshape hnone
  rw [this]

/-- a header of a type the schema does not know (yet) is refused -/
theorem lsStart_unknown_refused (st : LS) (ty : Str) (nm : Option Str) (parent : Matcher) (below : List Matcher)
    (hs : st.stack = parent :: below) (hg : st.schema.gettype ty = none) :
    lsStart st ty nm = .error (.cfg { kind := .schema, tag := "unknown type name" }) := by
  unfold lsStart
  rw [hs]
  simp only [hg]

end ZCV.Cfg
