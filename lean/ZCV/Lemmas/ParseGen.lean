import ZCV.Lemmas.Include
/-!
Context-generic reasoning about the parser model:

* `parse_inv` — an invariant of the context state, indexed by the *full* stack of open sections (the parser's own
  stack of the resource being read, on top of those of the including resources), is preserved by a parse once it
  is preserved by the four context operations;
* `parse_sim` — two contexts driven by the same text: a relation between the context states (again indexed by the
  full stack) is carried along as long as the first context accepts, and once the first context has refused, the
  second one is (and stays) in a "dead" state.  Only acceptance is compared (`toOption`).
-/
namespace ZCV.Cfg
open ZCV

/-! ### acceptance (`toOption`) form of the parser operations -/

theorem closeFixup_toOption {σ} (url : Option Str) (line : Nat) (r : M σ) :
    (closeFixup url line r).toOption = r.toOption := by
  cases r with
  | ok s => rfl
  | error f =>
    cases f with
    | cfg e => unfold closeFixup; dsimp only; split <;> rfl
    | internal x => rfl
    | dtExc n => rfl

theorem openSection_toOption {σ} (c : PCtx σ) (url : Option Str) (line : Nat) (ty : Str) (nm : Option Str) (e : Bool)
    (st : PS σ) :
    (openSection c url line ty nm e st).toOption =
      (c.start st.ctx ty nm).toOption.bind fun ctx1 =>
        if e then (c.stop ctx1 ty nm).toOption.map (fun ctx2 => { st with ctx := ctx2 })
        else some { st with ctx := ctx1, stack := (ty, nm) :: st.stack } := by
  unfold openSection
  cases c.start st.ctx ty nm with
  | error f => cases f <;> rfl
  | ok ctx1 =>
    cases e
    · rfl
    · simp only [if_true, toOption_ok, Option.bind_some]
      rw [toOption_map, closeFixup_toOption]

theorem closeSection_toOption {σ} (c : PCtx σ) (url : Option Str) (line : Nat) (ty : Str) (st : PS σ) :
    (closeSection c url line ty st).toOption =
      match st.stack with
      | [] => none
      | (ot, name) :: T =>
        if ty != ot then none
        else (c.stop st.ctx ty name).toOption.map (fun ctx2 => { st with ctx := ctx2, stack := T }) := by
  unfold closeSection
  cases st.stack with
  | nil => rfl
  | cons p T =>
    obtain ⟨ot, name⟩ := p
    dsimp only
    split
    · rfl
    · rw [toOption_map, closeFixup_toOption]

theorem kvCore_toOption {σ} (c : PCtx σ) (url : Option Str) (line : Nat) (k v : Str) (st : PS σ) :
    (kvCore c url line k v st).toOption =
      (c.value st.ctx k v { line := line, url := url }).toOption.map (fun ctx1 => { st with ctx := ctx1 }) := by
  unfold kvCore
  cases c.value st.ctx k v { line := line, url := url } with
  | ok ctx1 => rfl
  | error f => cases f <;> rfl

theorem parseLines_ok_stack_nil {σ} (fuel : Nat) (env : Env) (c : PCtx σ) (active : List Str) (url : Option Str)
    (lines : List Str) (n : Nat) (st st' : PS σ) (h : parseLines fuel env c active url lines n st = .ok st') :
    st'.stack = [] := by
  rw [parseLines_eq_run] at h
  obtain ⟨s, _, h⟩ := bind_ok_inv h
  unfold finish at h
  split at h
  · cases h
  · rename_i hne
    cases h
    simpa using hne

/-- section headers reach the context lower-cased -/
theorem lineShape_open_lower (l ty : Str) (nm : Option Str) (e : Bool) (h : lineShape l = .open_ ty nm e) :
    ∃ ty0, ty = lower ty0 := by
  unfold lineShape at h
  split at h
  · cases h
  · split at h
    · split at h <;> cases h
    · split at h
      · split at h
        · cases h
        · dsimp only at h
          split at h
          · cases h
          · rename_i ty0 nm0 _
            cases h
            exact ⟨ty0, rfl⟩
      · split at h
        · split at h
          · cases h
          · split at h
            · cases h
            · dsimp only at h
              split at h
              · cases h
              · split at h
                · cases h
                · split at h
                  · cases h
                  · split at h
                    · cases h
                    · cases h
        · split at h <;> cases h

/-! ### invariants -/

/-- `J F a`: the context state `a` is fine when the open sections are `F` (innermost first) -/
structure CtxInv {σ} (c : PCtx σ) (J : List (Str × Option Str) → σ → Prop) : Prop where
  start : ∀ F a ty0 nm a', J F a → c.start a (lower ty0) nm = .ok a' → J ((lower ty0, nm) :: F) a'
  stop : ∀ F a ty nm a', J ((ty, nm) :: F) a → c.stop a ty nm = .ok a' → J F a'
  value : ∀ F a k v p a', J F a → c.value a k v p = .ok a' → J F a'
  imp : ∀ F a pkg a', J F a → c.imp a pkg = .ok a' → J F a'

theorem stepLine_inv {σ} (c : PCtx σ) (J : List (Str × Option Str) → σ → Prop) (hJ : CtxInv c J) (env : Env) (fuel : Nat)
    (ih : ∀ f, fuel = f + 1 → ∀ (active : List Str) (url : Option Str) (lines : List Str) (n : Nat) (st st' : PS σ)
      (S : List (Str × Option Str)), J (st.stack ++ S) st.ctx →
      parseLines f env c active url lines n st = .ok st' → J (st'.stack ++ S) st'.ctx)
    (active : List Str) (url : Option Str) (line : Nat) (l : Str) (st st' : PS σ) (S : List (Str × Option Str))
    (hj : J (st.stack ++ S) st.ctx)
    (h : stepLine fuel env c active url line l st = .ok st') : J (st'.stack ++ S) st'.ctx := by
  cases hs : lineShape l with
  | skip => rw [stepLine] at h; simp only [hs] at h; cases h; exact hj
  | bad t => rw [stepLine] at h; simp only [hs] at h; cases h
  | internal t => rw [stepLine] at h; simp only [hs] at h; cases h
  | close ty =>
    rw [stepLine] at h; simp only [hs] at h
    unfold closeSection at h
    split at h
    · cases h
    · rename_i ot name T hst
      split at h
      · cases h
      · rename_i hne
        have hty : ty = ot := by simpa using hne
        obtain ⟨c2, hc2, rfl⟩ := map_ok_inv h
        rw [closeFixup_ok_iff] at hc2
        subst hty
        rw [hst] at hj
        exact hJ.stop _ _ _ _ _ hj hc2
  | open_ ty nm e =>
    obtain ⟨ty0, rfl⟩ := lineShape_open_lower _ _ _ _ hs
    rw [stepLine] at h; simp only [hs] at h
    unfold openSection at h
    split at h
    · cases h
    · cases h
    · rename_i ctx1 h1
      have j1 := hJ.start _ _ _ _ _ hj h1
      split at h
      · obtain ⟨c2, hc2, rfl⟩ := map_ok_inv h
        rw [closeFixup_ok_iff] at hc2
        exact hJ.stop _ _ _ _ _ j1 hc2
      · cases h
        exact j1
  | kv k raw =>
    rw [stepLine] at h; simp only [hs] at h
    rw [keyValue_eq] at h
    obtain ⟨v, _, h⟩ := bind_ok_inv h
    unfold kvCore at h
    split at h
    · rename_i ctx1 h1
      cases h
      exact hJ.value _ _ _ _ _ _ hj h1
    · cases h
    · cases h
  | define a =>
    rw [stepLine_define _ _ _ _ _ _ _ _ _ hs] at h
    unfold defStep at h
    split at h
    · cases h
    · obtain ⟨d, _, rfl⟩ := map_ok_inv h
      exact hj
  | import_ a =>
    rw [stepLine_import _ _ _ _ _ _ _ _ _ hs] at h
    unfold impStep at h
    obtain ⟨v, _, h⟩ := bind_ok_inv h
    obtain ⟨d, hd, rfl⟩ := map_ok_inv h
    exact hJ.imp _ _ _ _ hj hd
  | include_ a =>
    rw [stepLine_include _ _ _ _ _ _ _ _ _ hs] at h
    unfold incStep at h
    obtain ⟨a', _, h⟩ := bind_ok_inv h
    split at h
    · cases h
    · split at h
      · cases h
      · cases h
      · split at h
        · cases h
        · split at h
          · cases h
          · split at h
            · cases h
            · obtain ⟨sub, hsub, h⟩ := bind_ok_inv h
              cases h
              have hnil := parseLines_ok_stack_nil _ _ _ _ _ _ _ _ _ hsub
              have := ih _ rfl _ _ _ _ _ _ (st.stack ++ S) (by simpa using hj) hsub
              rw [hnil] at this
              simpa using this

/-- an invariant of the context operations is an invariant of the parse -/
theorem parse_inv {σ} (c : PCtx σ) (J : List (Str × Option Str) → σ → Prop) (hJ : CtxInv c J) (env : Env) :
    ∀ (fuel : Nat) (active : List Str) (url : Option Str) (lines : List Str) (n : Nat) (st st' : PS σ)
      (S : List (Str × Option Str)), J (st.stack ++ S) st.ctx →
      parseLines fuel env c active url lines n st = .ok st' → J (st'.stack ++ S) st'.ctx := by
  have main : ∀ (fuel : Nat),
      (∀ f, fuel = f + 1 → ∀ (active : List Str) (url : Option Str) (lines : List Str) (n : Nat) (st st' : PS σ)
        (S : List (Str × Option Str)), J (st.stack ++ S) st.ctx →
        parseLines f env c active url lines n st = .ok st' → J (st'.stack ++ S) st'.ctx) →
      ∀ (active : List Str) (url : Option Str) (lines : List Str) (n : Nat) (st st' : PS σ)
        (S : List (Str × Option Str)), J (st.stack ++ S) st.ctx →
        parseLines fuel env c active url lines n st = .ok st' → J (st'.stack ++ S) st'.ctx := by
    intro fuel ihf active url lines
    induction lines with
    | nil =>
      intro n st st' S hj h
      rw [parseLines] at h
      split at h
      · cases h
      · cases h; exact hj
    | cons l rest ihl =>
      intro n st st' S hj h
      rw [parseLines] at h
      obtain ⟨s1, h1, h2⟩ := bind_ok_inv h
      exact ihl _ _ _ _ (stepLine_inv c J hJ env fuel ihf _ _ _ _ _ _ _ hj h1) h2
  intro fuel
  induction fuel with
  | zero => exact main 0 (fun f hf => by omega)
  | succ f ihf =>
    exact main (f + 1) (fun f' hf => by
      have : f = f' := by omega
      subst this; exact ihf)

/-! ### simulation of one context by another, up to acceptance -/

/-- the first computation accepted: so did the second, and the results are related; the first refused: the second
    refused too, or its result is dead -/
def SimO {α β} (Rr : α → β → Prop) (Dd : β → Prop) : Option α → Option β → Prop
  | some a, o₂ => ∃ b, o₂ = some b ∧ Rr a b
  | none, o₂ => ∀ b, o₂ = some b → Dd b

theorem SimO.none_none {α β} (Rr : α → β → Prop) (Dd : β → Prop) : SimO Rr Dd none none := by
  intro b hb; cases hb

theorem SimO.some_some {α β} {Rr : α → β → Prop} {Dd : β → Prop} {a : α} {b : β} (h : Rr a b) :
    SimO Rr Dd (some a) (some b) := ⟨b, rfl, h⟩

theorem SimO.bind {α β α' β'} {Rr : α → β → Prop} {Dd : β → Prop} {Rr' : α' → β' → Prop} {Dd' : β' → Prop}
    {o₁ : Option α} {o₂ : Option β} {f₁ : α → Option α'} {f₂ : β → Option β'}
    (h : SimO Rr Dd o₁ o₂) (hf : ∀ a b, Rr a b → SimO Rr' Dd' (f₁ a) (f₂ b))
    (hd : ∀ b b', Dd b → f₂ b = some b' → Dd' b') : SimO Rr' Dd' (o₁.bind f₁) (o₂.bind f₂) := by
  cases o₁ with
  | some a =>
    obtain ⟨b, rfl, hab⟩ := h
    exact hf a b hab
  | none =>
    intro b' hb'
    cases o₂ with
    | none => cases hb'
    | some b => exact hd b b' (h b rfl) hb'

theorem SimO.map {α β α' β'} {Rr : α → β → Prop} {Dd : β → Prop} {Rr' : α' → β' → Prop} {Dd' : β' → Prop}
    {o₁ : Option α} {o₂ : Option β} {f₁ : α → α'} {f₂ : β → β'}
    (h : SimO Rr Dd o₁ o₂) (hf : ∀ a b, Rr a b → Rr' (f₁ a) (f₂ b))
    (hd : ∀ b, Dd b → Dd' (f₂ b)) : SimO Rr' Dd' (o₁.map f₁) (o₂.map f₂) := by
  cases o₁ with
  | some a =>
    obtain ⟨b, rfl, hab⟩ := h
    exact ⟨f₂ b, rfl, hf a b hab⟩
  | none =>
    intro b' hb'
    cases o₂ with
    | none => cases hb'
    | some b => cases hb'; exact hd b (h b rfl)

/-- both sides start with the same context-free computation -/
theorem SimO.bind_same {γ α' β'} {Rr' : α' → β' → Prop} {Dd' : β' → Prop}
    (o : Option γ) {f₁ : γ → Option α'} {f₂ : γ → Option β'}
    (hf : ∀ x, o = some x → SimO Rr' Dd' (f₁ x) (f₂ x)) : SimO Rr' Dd' (o.bind f₁) (o.bind f₂) := by
  cases o with
  | none => exact SimO.none_none _ _
  | some x => exact hf x rfl

structure CtxSim {σ₁ σ₂} (c₁ : PCtx σ₁) (c₂ : PCtx σ₂) (R : List (Str × Option Str) → σ₁ → σ₂ → Prop)
    (D : σ₂ → Prop) : Prop where
  canInc : c₁.canInclude = c₂.canInclude
  canDef : c₁.canDefine = c₂.canDefine
  start : ∀ F a b ty nm, R F a b →
    SimO (R ((ty, nm) :: F)) D (c₁.start a ty nm).toOption (c₂.start b ty nm).toOption
  stop : ∀ F a b ty nm, R ((ty, nm) :: F) a b → SimO (R F) D (c₁.stop a ty nm).toOption (c₂.stop b ty nm).toOption
  value : ∀ F a b k v p, R F a b → SimO (R F) D (c₁.value a k v p).toOption (c₂.value b k v p).toOption
  dead : CtxInv c₂ (fun _ b => D b)

def PSRel {σ₁ σ₂} (R : List (Str × Option Str) → σ₁ → σ₂ → Prop) (S : List (Str × Option Str))
    (a : PS σ₁) (b : PS σ₂) : Prop :=
  a.stack = b.stack ∧ a.defs = b.defs ∧ R (a.stack ++ S) a.ctx b.ctx

def PSDead {σ₂} (D : σ₂ → Prop) (b : PS σ₂) : Prop := D b.ctx

section sim
variable {σ₁ σ₂ : Type} (c₁ : PCtx σ₁) (c₂ : PCtx σ₂) (R : List (Str × Option Str) → σ₁ → σ₂ → Prop) (D : σ₂ → Prop)
  (hC : CtxSim c₁ c₂ R D) (env : Env)
  (hres : ∀ u ls, env.res u = some ls → ∀ l ∈ ls, NoImportLine l)
include hC hres

theorem stepLine_sim (fuel : Nat)
    (ih : ∀ f, fuel = f + 1 → ∀ (active : List Str) (url : Option Str) (lines : List Str) (n : Nat) (st₁ : PS σ₁)
      (st₂ : PS σ₂) (S : List (Str × Option Str)), (∀ l ∈ lines, NoImportLine l) → PSRel R S st₁ st₂ →
      SimO (fun a b => PSRel R S a b ∧ a.stack = []) (PSDead D)
        (parseLines f env c₁ active url lines n st₁).toOption (parseLines f env c₂ active url lines n st₂).toOption)
    (active : List Str) (url : Option Str) (line : Nat) (l : Str) (st₁ : PS σ₁) (st₂ : PS σ₂)
    (S : List (Str × Option Str)) (hl : ∀ a, lineShape l ≠ .import_ a) (hrel : PSRel R S st₁ st₂) :
    SimO (PSRel R S) (PSDead D)
      (stepLine fuel env c₁ active url line l st₁).toOption (stepLine fuel env c₂ active url line l st₂).toOption := by
  obtain ⟨hstk, hdefs, hR⟩ := hrel
  cases hs : lineShape l with
  | skip =>
    rw [stepLine, stepLine]; simp only [hs]
    exact SimO.some_some ⟨hstk, hdefs, hR⟩
  | bad t => rw [stepLine, stepLine]; simp only [hs]; exact SimO.none_none _ _
  | internal t => rw [stepLine, stepLine]; simp only [hs]; exact SimO.none_none _ _
  | import_ a => exact absurd hs (hl a)
  | close ty =>
    rw [stepLine, stepLine]; simp only [hs]
    rw [closeSection_toOption, closeSection_toOption, ← hstk]
    cases hst : st₁.stack with
    | nil => exact SimO.none_none _ _
    | cons p T =>
      obtain ⟨ot, name⟩ := p
      dsimp only
      split
      · exact SimO.none_none _ _
      · rename_i hne
        have hty : ty = ot := by simpa using hne
        subst hty
        rw [hst] at hR
        refine SimO.map (hC.stop _ _ _ _ _ hR) ?_ ?_
        · intro a b hab
          exact ⟨rfl, hdefs, hab⟩
        · intro b hb
          exact hb
  | open_ ty nm e =>
    rw [stepLine, stepLine]; simp only [hs]
    rw [openSection_toOption, openSection_toOption]
    refine SimO.bind (hC.start _ _ _ ty nm hR) ?_ ?_
    · intro a b hab
      cases e
      · simp only [Bool.false_eq_true, if_false]
        refine SimO.some_some ⟨?_, hdefs, ?_⟩
        · simp only [hstk]
        · exact hab
      · simp only [if_true]
        refine SimO.map (hC.stop _ _ _ _ _ hab) ?_ ?_
        · intro a' b' hab'
          exact ⟨hstk, hdefs, hab'⟩
        · intro b' hb'
          exact hb'
    · intro b b' hb hb'
      cases e
      · simp only [Bool.false_eq_true, if_false] at hb'
        cases hb'
        exact hb
      · simp only [if_true] at hb'
        cases hstop : c₂.stop b ty nm with
        | error f => rw [hstop] at hb'; cases hb'
        | ok b2 =>
          rw [hstop] at hb'
          cases hb'
          exact hC.dead.stop [] _ _ _ _ hb hstop
  | kv k raw =>
    rw [stepLine, stepLine]; simp only [hs]
    rw [keyValue_eq, keyValue_eq, toOption_bind, toOption_bind, ← hdefs]
    refine SimO.bind_same _ ?_
    intro v _
    rw [kvCore_toOption, kvCore_toOption]
    refine SimO.map (hC.value _ _ _ _ _ _ hR) ?_ ?_
    · intro a b hab
      exact ⟨hstk, hdefs, hab⟩
    · intro b hb
      exact hb
  | define a =>
    rw [stepLine_define _ _ _ _ _ _ _ _ _ hs, stepLine_define _ _ _ _ _ _ _ _ _ hs]
    unfold defStep
    rw [← hC.canDef, ← hdefs]
    split
    · exact SimO.none_none _ _
    · rw [toOption_map, toOption_map]
      cases (define env url line a st₁.defs).toOption with
      | none => exact SimO.none_none _ _
      | some d => exact SimO.some_some ⟨hstk, rfl, hR⟩
  | include_ a =>
    rw [stepLine_include _ _ _ _ _ _ _ _ _ hs, stepLine_include _ _ _ _ _ _ _ _ _ hs]
    unfold incStep
    rw [toOption_bind, toOption_bind, ← hC.canInc, ← hdefs]
    refine SimO.bind_same _ ?_
    intro a' _
    split
    · exact SimO.none_none _ _
    · split
      · exact SimO.none_none _ _
      · exact SimO.none_none _ _
      · split
        · exact SimO.none_none _ _
        · rename_i _ u _ _ lines hlines
          split
          · exact SimO.none_none _ _
          · cases fuel with
            | zero => exact SimO.none_none _ _
            | succ f =>
              dsimp only
              rw [toOption_bind, toOption_bind]
              have hsub := ih f rfl (u :: active) (some u) lines 0
                { ctx := st₁.ctx, stack := [], defs := st₁.defs } { ctx := st₂.ctx, stack := [], defs := st₁.defs }
                (st₁.stack ++ S) (hres _ _ hlines) ⟨rfl, rfl, by simpa using hR⟩
              refine SimO.bind hsub ?_ ?_
              · intro sa sb hab
                obtain ⟨⟨_, hd', hR'⟩, hnil⟩ := hab
                rw [hnil] at hR'
                exact SimO.some_some ⟨hstk, hd', by simpa using hR'⟩
              · intro sb sb' hb hb'
                cases hb'
                exact hb

theorem parse_sim :
    ∀ (fuel : Nat) (active : List Str) (url : Option Str) (lines : List Str) (n : Nat) (st₁ : PS σ₁)
      (st₂ : PS σ₂) (S : List (Str × Option Str)), (∀ l ∈ lines, NoImportLine l) → PSRel R S st₁ st₂ →
      SimO (fun a b => PSRel R S a b ∧ a.stack = []) (PSDead D)
        (parseLines fuel env c₁ active url lines n st₁).toOption
        (parseLines fuel env c₂ active url lines n st₂).toOption := by
  have main : ∀ (fuel : Nat),
      (∀ f, fuel = f + 1 → ∀ (active : List Str) (url : Option Str) (lines : List Str) (n : Nat) (st₁ : PS σ₁)
        (st₂ : PS σ₂) (S : List (Str × Option Str)), (∀ l ∈ lines, NoImportLine l) → PSRel R S st₁ st₂ →
        SimO (fun a b => PSRel R S a b ∧ a.stack = []) (PSDead D)
          (parseLines f env c₁ active url lines n st₁).toOption (parseLines f env c₂ active url lines n st₂).toOption) →
      ∀ (active : List Str) (url : Option Str) (lines : List Str) (n : Nat) (st₁ : PS σ₁)
        (st₂ : PS σ₂) (S : List (Str × Option Str)), (∀ l ∈ lines, NoImportLine l) → PSRel R S st₁ st₂ →
        SimO (fun a b => PSRel R S a b ∧ a.stack = []) (PSDead D)
          (parseLines fuel env c₁ active url lines n st₁).toOption
          (parseLines fuel env c₂ active url lines n st₂).toOption := by
    intro fuel ihf active url lines
    induction lines with
    | nil =>
      intro n st₁ st₂ S _ hrel
      rw [parseLines, parseLines, ← hrel.1]
      split
      · exact SimO.none_none _ _
      · rename_i hne
        exact SimO.some_some ⟨hrel, by simpa using hne⟩
    | cons l rest ihl =>
      intro n st₁ st₂ S hl hrel
      rw [parseLines, parseLines, toOption_bind, toOption_bind]
      refine SimO.bind (stepLine_sim c₁ c₂ R D hC env hres fuel ihf active url (n + 1) (strip l) st₁ st₂ S
        (hl l (by simp)) hrel) ?_ ?_
      · intro a b hab
        exact ihl _ _ _ _ (fun x hx => hl x (by simp [hx])) hab
      · intro b b' hb hb'
        rw [toOption_eq_some] at hb'
        have := parse_inv c₂ (fun _ b => D b) hC.dead env fuel active url rest (n + 1) b b' [] hb hb'
        exact this
  intro fuel
  induction fuel with
  | zero => exact main 0 (fun f hf => by omega)
  | succ f ihf =>
    exact main (f + 1) (fun f' hf => by
      have : f = f' := by omega
      subst this; exact ihf)

end sim

end ZCV.Cfg
