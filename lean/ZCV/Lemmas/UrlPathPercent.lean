import ZCV.Lemmas.UrlPathQuote
/-! percent-encoding: `unquote ∘ quote = id`, the characters `quote` produces, encodings of path segments. -/
namespace ZCV.UrlPath
open ZCV

/-! ## hex digits -/

theorem up_hexDigit_toNat (n : Nat) (h : n < 16) :
    (hexDigit n).toNat = if n < 10 then 0x30 + n else 0x37 + n := by
  unfold hexDigit
  split
  · rw [up_toNat_ofNat]; left; omega
  · rw [up_toNat_ofNat]; left; omega

theorem up_hexVal_hexDigit (n : Nat) (h : n < 16) : hexVal (hexDigit n) = some n := by
  unfold hexVal
  simp only [up_hexDigit_toNat n h]
  by_cases h10 : n < 10
  · simp only [h10, ↓reduceIte]
    rw [if_pos (by omega)]
    congr 1; omega
  · simp only [h10, ↓reduceIte]
    rw [if_neg (by omega), if_pos (by omega)]
    congr 1; omega

theorem up_escByte_hex (b : Nat) (h : b < 256) (rest : Str) :
    escByte (hexDigit (b / 16) :: hexDigit (b % 16) :: rest) = some b := by
  simp only [escByte, up_hexVal_hexDigit _ (show b / 16 < 16 by omega), up_hexVal_hexDigit _ (show b % 16 < 16 by omega),
    Option.some.injEq]
  omega

theorem up_safeByte_lt (b : Nat) (h : safeByte b = true) : b < 0x80 ∧ b ≠ 0x25 := by
  unfold safeByte at h
  simp only [Bool.or_eq_true, Bool.and_eq_true, decide_eq_true_eq, beq_iff_eq] at h
  omega

theorem up_ofNat_ne_percent (b : Nat) (h : b < 0x80) (h' : b ≠ 0x25) : Char.ofNat b ≠ '%' := by
  intro e
  have := congrArg Char.toNat e
  rw [up_toNat_ofNat _ (by left; omega)] at this
  exact h' this

/-! ## `unquoteBytes ∘ quoteBytes` -/

theorem up_unquoteBytes_quoteByte (b : Nat) (h : b < 256) (rest : Str) :
    unquoteBytes (quoteByte b ++ rest) = b :: unquoteBytes rest := by
  unfold quoteByte
  by_cases hs : safeByte b = true
  · obtain ⟨h1, h2⟩ := up_safeByte_lt b hs
    simp only [hs, ↓reduceIte, List.cons_append, List.nil_append]
    rw [unquoteBytes, if_neg (up_ofNat_ne_percent b h1 h2),
      up_utf8Char_ascii _ (by rw [up_toNat_ofNat _ (by left; omega)]; exact h1), up_toNat_ofNat _ (by left; omega)]
    rfl
  · simp only [hs, Bool.false_eq_true, ↓reduceIte, List.cons_append, List.nil_append]
    rw [unquoteBytes]
    simp only [↓reduceIte, up_escByte_hex b h, List.drop_succ_cons, List.drop_zero]

theorem up_unquoteBytes_quoteBytes (bs : List Nat) (h : ∀ b ∈ bs, b < 256) (rest : Str) :
    unquoteBytes (quoteBytes bs ++ rest) = bs ++ unquoteBytes rest := by
  induction bs with
  | nil => rfl
  | cons b t ih =>
    simp only [quoteBytes, List.flatMap_cons, List.append_assoc, List.cons_append]
    rw [up_unquoteBytes_quoteByte b (h b (by simp))]
    simp only [quoteBytes] at ih
    rw [ih (fun x hx => h x (by simp [hx]))]

/-! ## encodings -/

/-- `u` is a URL spelling of the path text `p` that can be followed by anything -/
def Enc (u p : Str) : Prop := ∀ rest, unquoteBytes (u ++ rest) = utf8 p ++ unquoteBytes rest

theorem up_enc_nil : Enc [] [] := fun _ => rfl

theorem up_enc_quote (p : Str) : Enc (quote p) p := fun rest =>
  up_unquoteBytes_quoteBytes (utf8 p) (up_utf8_lt p) rest

theorem up_enc_append {u1 p1 u2 p2 : Str} (h1 : Enc u1 p1) (h2 : Enc u2 p2) : Enc (u1 ++ u2) (p1 ++ p2) := by
  intro rest
  rw [List.append_assoc, h1, h2, up_utf8_append, List.append_assoc]

/-- a string without `%` spells itself -/
theorem up_enc_raw (p : Str) (h : '%' ∉ p) : Enc p p := by
  induction p with
  | nil => exact up_enc_nil
  | cons c t ih =>
    intro rest
    have hc : c ≠ '%' := fun e => h (by simp [e])
    have ht : '%' ∉ t := fun e => h (by simp [e])
    rw [List.cons_append, unquoteBytes, if_neg hc, ih ht rest]
    simp only [utf8, List.flatMap_cons, List.append_assoc]

theorem up_enc_slash : Enc ['/'] ['/'] := up_enc_raw _ (by decide)

theorem up_unquote_eq (u : Str) : unquote u = utf8Decode (unquoteBytes u) := by
  unfold unquote
  split
  · rfl
  · rename_i h
    have hn : '%' ∉ u := by
      intro hm
      apply h
      simp only [List.contains_iff_mem, hm]
    have := up_enc_raw u hn []
    simp only [List.append_nil, unquoteBytes] at this
    rw [this, up_decode_utf8]

theorem up_unquote_of_enc {u p : Str} (h : Enc u p) : unquote u = p := by
  have := h []
  simp only [List.append_nil, unquoteBytes] at this
  rw [up_unquote_eq, this, up_decode_utf8]

/-- `unquote(quote(s)) == s` for every string -/
theorem up_unquote_quote (s : Str) : unquote (quote s) = s := up_unquote_of_enc (up_enc_quote s)

theorem up_quote_inj (s t : Str) (h : quote s = quote t) : s = t := by
  rw [← up_unquote_quote s, h, up_unquote_quote]

theorem up_quote_append (a b : Str) : quote (a ++ b) = quote a ++ quote b := by
  simp only [quote, quoteBytes, up_utf8_append, List.flatMap_append]

theorem up_quote_nil : quote [] = [] := rfl

theorem up_quote_cons (c : Char) (t : Str) : quote (c :: t) = quote [c] ++ quote t :=
  up_quote_append [c] t

/-! ## what `quote` outputs -/

/-- the characters `quote` can produce: `A-Za-z0-9`, `_.-~/` and `%` -/
def quotedChar (c : Char) : Bool := safeByte c.toNat || c == '%'

theorem up_quotedChar_hexDigit (n : Nat) (h : n < 16) : quotedChar (hexDigit n) = true := by
  unfold quotedChar safeByte
  rw [up_hexDigit_toNat n h]
  simp only [Bool.or_eq_true, Bool.and_eq_true, decide_eq_true_eq, beq_iff_eq]
  split <;> omega

theorem up_quoteByte_chars (b : Nat) (h : b < 256) : ∀ c ∈ quoteByte b, quotedChar c = true := by
  intro c hc
  unfold quoteByte at hc
  split at hc
  · rename_i hs
    simp only [List.mem_cons, List.not_mem_nil, or_false] at hc
    subst hc
    obtain ⟨h1, _⟩ := up_safeByte_lt b hs
    unfold quotedChar
    rw [up_toNat_ofNat _ (by left; omega), hs, Bool.true_or]
  · simp only [List.mem_cons, List.not_mem_nil, or_false] at hc
    rcases hc with rfl | rfl | rfl
    · rfl
    · exact up_quotedChar_hexDigit _ (by omega)
    · exact up_quotedChar_hexDigit _ (by omega)

theorem up_quote_chars (s : Str) : ∀ c ∈ quote s, quotedChar c = true := by
  intro c hc
  simp only [quote, quoteBytes, List.mem_flatMap] at hc
  obtain ⟨b, hb, hcb⟩ := hc
  exact up_quoteByte_chars b (up_utf8_lt s b hb) c hcb

/-- `/` in the output comes from `/` in the input only -/
theorem up_quoteByte_slash (b : Nat) (h : b < 256) (hm : '/' ∈ quoteByte b) : b = 0x2F := by
  unfold quoteByte at hm
  split at hm
  · rename_i hs
    obtain ⟨h1, _⟩ := up_safeByte_lt b hs
    simp only [List.mem_cons, List.not_mem_nil, or_false] at hm
    have := congrArg Char.toNat hm
    rw [up_toNat_ofNat b (by left; omega)] at this
    simp only [Char.reduceToNat] at this
    exact this.symm
  · simp only [List.mem_cons, List.not_mem_nil, or_false] at hm
    rcases hm with hm | hm | hm
    · exact absurd hm (by decide)
    · have := congrArg Char.toNat hm
      rw [up_hexDigit_toNat _ (by omega)] at this
      simp only [Char.reduceToNat] at this
      split at this <;> omega
    · have := congrArg Char.toNat hm
      rw [up_hexDigit_toNat _ (by omega)] at this
      simp only [Char.reduceToNat] at this
      split at this <;> omega

theorem up_utf8Char_slash (c : Char) (h : 0x2F ∈ utf8Char c) : c = '/' := by
  have hv := up_char_valid c
  unfold utf8Char at h
  simp only at h
  split at h
  · simp only [List.mem_cons, List.not_mem_nil, or_false] at h
    rw [← Char.toNat_inj]; exact h.symm
  · split at h
    · simp only [List.mem_cons, List.not_mem_nil, or_false] at h; omega
    · split at h
      · simp only [List.mem_cons, List.not_mem_nil, or_false] at h; omega
      · simp only [List.mem_cons, List.not_mem_nil, or_false] at h; omega

theorem up_quote_single_slash : quote ['/'] = ['/'] := by decide

theorem up_quote_single_noslash (c : Char) (h : c ≠ '/') : '/' ∉ quote [c] := by
  intro hm
  simp only [quote, utf8, quoteBytes, List.flatMap_cons, List.flatMap_nil, List.append_nil, List.mem_flatMap] at hm
  obtain ⟨b, hb, hcb⟩ := hm
  have := up_quoteByte_slash b (up_utf8Char_lt c b hb) hcb
  subst this
  exact h (up_utf8Char_slash c hb)

theorem up_quote_dot : quote dot = dot := by decide
theorem up_quote_dotdot : quote dotdot = dotdot := by decide

theorem up_quote_eq_nil (s : Str) : quote s = [] ↔ s = [] := by
  constructor
  · intro h; exact up_quote_inj s [] (by rw [h]; rfl)
  · intro h; rw [h]; rfl

theorem up_quote_eq_dot (s : Str) : quote s = dot ↔ s = dot := by
  constructor
  · intro h; exact up_quote_inj s dot (by rw [h, up_quote_dot])
  · intro h; rw [h, up_quote_dot]

theorem up_quote_eq_dotdot (s : Str) : quote s = dotdot ↔ s = dotdot := by
  constructor
  · intro h; exact up_quote_inj s dotdot (by rw [h, up_quote_dotdot])
  · intro h; rw [h, up_quote_dotdot]

end ZCV.UrlPath
