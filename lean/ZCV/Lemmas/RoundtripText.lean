import ZCV.Base
import ZCV.Model.Schemaless
import ZCV.Lemmas.Misc
import ZCV.Lemmas.Grammar
/-!
From a text to the lines the parser sees (C17).

`linesOf` is `readline()` until the end of a `StringIO`: the text is cut at every `'\n'` and a final empty
piece is not a line.  The parser strips every line and skips blank ones, so all a text contributes is
`essOf text`: its stripped non-blank lines.  The lemmas here compute `essOf` through `joinLines`, `rstrip`
and a final newline.
-/
namespace ZCV.Roundtrip
open ZCV ZCV.Cfg

/-- first line (up to the first `'\n'`), and the remaining lines -/
def splitNL' : Str → Str × List Str
  | [] => ([], [])
  | c :: t => if c = '\n' then ([], (splitNL' t).1 :: (splitNL' t).2) else (c :: (splitNL' t).1, (splitNL' t).2)

/-- `text.split('\n')` -/
def splitNL (s : Str) : List Str := (splitNL' s).1 :: (splitNL' s).2

/-- a final empty piece is not a line -/
def dropLastEmpty : List Str → List Str
  | [] => []
  | [l] => if l = [] then [] else [l]
  | l :: r => l :: dropLastEmpty r

/-- the lines `readline()` returns for the text (without their terminating `'\n'`, which `strip` removes anyway) -/
def linesOf (s : Str) : List Str := dropLastEmpty (splitNL s)

/-- stripped, non-blank -/
def ess (ls : List Str) : List Str := (ls.map strip).filter (fun l => !l.isEmpty)

def essOf (s : Str) : List Str := ess (splitNL s)

example : linesOf "a 1\n\n  b\n".toList = ["a 1".toList, [], "  b".toList] := by decide
example : linesOf "a".toList = ["a".toList] := by decide
example : linesOf [] = [] := by decide
example : linesOf "\n".toList = [[]] := by decide

/-! ### whitespace -/

theorem strip_nil : strip [] = [] := by rfl

theorem strip_all_space (w : Str) (h : w.all pySpace = true) : strip w = [] := by
  have := strip_pad w [] [] h (by rfl)
  simp only [List.append_nil] at this
  rw [this]; rfl

theorem strip_pad_right (l w : Str) (h : w.all pySpace = true) : strip (l ++ w) = strip l := by
  have := strip_pad [] l w (by rfl) h
  simpa using this

theorem strip_pad_left (w l : Str) (h : w.all pySpace = true) : strip (w ++ l) = strip l := by
  have := strip_pad w l [] h (by rfl)
  simpa using this

theorem lstrip_of_head (c : Char) (t : Str) (h : pySpace c = false) : lstrip (c :: t) = c :: t := by
  simp [lstrip, h]

theorem rstrip_of_last (t : Str) (c : Char) (h : pySpace c = false) : rstrip (t ++ [c]) = t ++ [c] := by
  simp [rstrip, h]

/-- a text that neither starts nor ends with whitespace is what `strip` leaves -/
theorem strip_clean (s : Str) (h1 : ∀ c, s.head? = some c → pySpace c = false)
    (h2 : ∀ c, s.getLast? = some c → pySpace c = false) : strip s = s := by
  cases s with
  | nil => rfl
  | cons a t =>
    unfold strip
    rw [lstrip_of_head a t (h1 a rfl)]
    rcases List.eq_nil_or_concat (a :: t) with h | ⟨L, b, h⟩
    · cases h
    · rw [h, List.concat_eq_append]
      apply rstrip_of_last
      apply h2
      rw [h]; simp

theorem mem_takeWhile_pred {p : Char → Bool} {l : Str} {c : Char} (h : c ∈ l.takeWhile p) : p c = true := by
  induction l with
  | nil => simp at h
  | cons a t ih =>
    rw [List.takeWhile_cons] at h
    split at h
    · rcases List.mem_cons.1 h with e | e
      · rw [e]; assumption
      · exact ih e
    · simp at h

theorem rstrip_decomp (s : Str) : ∃ w, w.all pySpace = true ∧ s = rstrip s ++ w := by
  refine ⟨(s.reverse.takeWhile pySpace).reverse, ?_, ?_⟩
  · rw [List.all_reverse, List.all_eq_true]
    intro c hc
    exact mem_takeWhile_pred hc
  · unfold rstrip
    rw [← List.reverse_append, List.takeWhile_append_dropWhile, List.reverse_reverse]

/-! ### cutting at newlines -/

theorem splitNL'_nonl (l : Str) (h : '\n' ∉ l) : splitNL' l = (l, []) := by
  induction l with
  | nil => rfl
  | cons c t ih =>
    have hc : c ≠ '\n' := fun e => h (by rw [e]; exact List.mem_cons_self)
    have ht : '\n' ∉ t := fun e => h (List.mem_cons_of_mem _ e)
    simp [splitNL', hc, ih ht]

theorem splitNL_nonl (l : Str) (h : '\n' ∉ l) : splitNL l = [l] := by
  simp [splitNL, splitNL'_nonl l h]

theorem splitNL_append (a b : Str) : splitNL (a ++ '\n' :: b) = splitNL a ++ splitNL b := by
  induction a with
  | nil => simp [splitNL, splitNL']
  | cons c t ih =>
    unfold splitNL at ih ⊢
    by_cases hc : c = '\n'
    · simp only [List.cons_append, splitNL', hc, ↓reduceIte]
      rw [ih]; rfl
    · simp only [List.cons_append, splitNL', hc, ↓reduceIte]
      simp only [List.cons_append, List.cons.injEq] at ih
      rw [ih.1, ih.2]

theorem ess_append (a b : List Str) : ess (a ++ b) = ess a ++ ess b := by
  simp [ess]

theorem ess_cons (l : Str) (r : List Str) : ess (l :: r) = (if strip l = [] then [] else [strip l]) ++ ess r := by
  unfold ess
  by_cases h : strip l = []
  · simp [h]
  · have : (strip l).isEmpty = false := by
      cases hs : strip l with
      | nil => exact absurd hs h
      | cons _ _ => rfl
    simp [h, this]

theorem essOf_nl (a b : Str) : essOf (a ++ '\n' :: b) = essOf a ++ essOf b := by
  unfold essOf
  rw [splitNL_append, ess_append]

theorem essOf_nil : essOf [] = [] := by rfl

/-- one line -/
theorem essOf_line (l : Str) (h : '\n' ∉ l) : essOf l = if strip l = [] then [] else [strip l] := by
  unfold essOf
  rw [splitNL_nonl l h, ess_cons]
  simp [ess]

theorem all_space_split (w : Str) (h : w.all pySpace = true) :
    (splitNL' w).1.all pySpace = true ∧ ess (splitNL' w).2 = [] := by
  induction w with
  | nil => exact ⟨rfl, rfl⟩
  | cons c t ih =>
    simp only [List.all_cons, Bool.and_eq_true] at h
    obtain ⟨ih1, ih2⟩ := ih h.2
    by_cases hc : c = '\n'
    · simp only [splitNL', hc, ↓reduceIte]
      refine ⟨rfl, ?_⟩
      rw [ess_cons, ih2, strip_all_space _ ih1]
      rfl
    · simp only [splitNL', hc, ↓reduceIte, List.all_cons, h.1, ih1, ih2]
      exact ⟨rfl, trivial⟩

/-- trailing whitespace (blank lines included) contributes nothing -/
theorem split_pad_right (a w : Str) (h : w.all pySpace = true) :
    ∃ w', w'.all pySpace = true ∧ (splitNL' (a ++ w)).1 = (splitNL' a).1 ++ w' ∧
      ess (splitNL' (a ++ w)).2 = ess (splitNL' a).2 := by
  induction a with
  | nil =>
    obtain ⟨h1, h2⟩ := all_space_split w h
    refine ⟨(splitNL' w).1, h1, by simp [splitNL'], ?_⟩
    simp only [List.nil_append, splitNL']
    rw [h2]; rfl
  | cons c t ih =>
    obtain ⟨w', hw', e1, e2⟩ := ih
    by_cases hc : c = '\n'
    · refine ⟨[], rfl, ?_, ?_⟩
      · simp [splitNL', hc]
      · simp only [List.cons_append, splitNL', hc, ↓reduceIte]
        rw [ess_cons, ess_cons, e1, e2, strip_pad_right _ _ hw']
    · refine ⟨w', hw', ?_, ?_⟩
      · simp [splitNL', hc, e1]
      · simp only [List.cons_append, splitNL', hc, ↓reduceIte]
        exact e2

theorem essOf_pad_right (a w : Str) (h : w.all pySpace = true) : essOf (a ++ w) = essOf a := by
  obtain ⟨w', hw', e1, e2⟩ := split_pad_right a w h
  unfold essOf splitNL
  rw [ess_cons, ess_cons, e1, e2, strip_pad_right _ _ hw']

theorem essOf_rstrip (s : Str) : essOf (rstrip s) = essOf s := by
  obtain ⟨w, hw, e⟩ := rstrip_decomp s
  conv => rhs; rw [e]
  rw [essOf_pad_right _ _ hw]

theorem essOf_final_nl (s : Str) : essOf (s ++ ['\n']) = essOf s :=
  essOf_pad_right s ['\n'] (by decide)

theorem ess_dropLastEmpty (ls : List Str) : ess (dropLastEmpty ls) = ess ls := by
  induction ls with
  | nil => rfl
  | cons l r ih =>
    cases r with
    | nil =>
      by_cases h : l = []
      · subst h; rfl
      · simp [dropLastEmpty, h]
    | cons l2 r2 =>
      simp only [dropLastEmpty] at ih ⊢
      rw [ess_cons, ess_cons l, ih]

theorem ess_linesOf (s : Str) : ess (linesOf s) = essOf s := ess_dropLastEmpty _

theorem joinLines_cons_cons (a b : Str) (r : List Str) : joinLines (a :: b :: r) = a ++ '\n' :: joinLines (b :: r) := by
  simp [joinLines]

/-- the lines of `'\n'.join(result)` are the lines of the members of `result` -/
theorem essOf_joinLines (ls : List Str) : essOf (joinLines ls) = ls.flatMap essOf := by
  induction ls with
  | nil => rfl
  | cons a r ih =>
    cases r with
    | nil => simp [joinLines]
    | cons b r2 =>
      rw [joinLines_cons_cons, essOf_nl, ih]
      simp

/-- the newlines of a text are what separates its lines: no line contains one -/
theorem splitNL'_no_nl (s : Str) : '\n' ∉ (splitNL' s).1 ∧ ∀ l ∈ (splitNL' s).2, '\n' ∉ l := by
  induction s with
  | nil => simp [splitNL']
  | cons c t ih =>
    by_cases hc : c = '\n'
    · simp only [splitNL', hc, ↓reduceIte]
      refine ⟨by simp, ?_⟩
      intro l hl
      rcases List.mem_cons.1 hl with e | e
      · rw [e]; exact ih.1
      · exact ih.2 l e
    · simp only [splitNL', hc, ↓reduceIte]
      refine ⟨?_, ih.2⟩
      intro h
      rcases List.mem_cons.1 h with e | e
      · exact hc e.symm
      · exact ih.1 e

theorem mem_dropLastEmpty {l : Str} {ls : List Str} (h : l ∈ dropLastEmpty ls) : l ∈ ls := by
  induction ls with
  | nil => simp [dropLastEmpty] at h
  | cons a r ih =>
    cases r with
    | nil =>
      by_cases ha : a = []
      · simp [dropLastEmpty, ha] at h
      · simpa [dropLastEmpty, ha] using h
    | cons b r2 =>
      simp only [dropLastEmpty] at h ih
      rcases List.mem_cons.1 h with e | e
      · rw [e]; exact List.mem_cons_self
      · exact List.mem_cons_of_mem _ (ih e)

theorem linesOf_no_nl (s : Str) : ∀ l ∈ linesOf s, '\n' ∉ l := by
  intro l hl
  have := mem_dropLastEmpty hl
  unfold splitNL at this
  rcases List.mem_cons.1 this with e | e
  · rw [e]; exact (splitNL'_no_nl s).1
  · exact (splitNL'_no_nl s).2 l e

end ZCV.Roundtrip
