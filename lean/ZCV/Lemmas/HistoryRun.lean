import ZCV.Lemmas.HistoryStop
/-!
C13 (faithful histories), part 3: `runHistoryApp`.

The application's schema object after one load, and after a whole history, is the schema it was with the history's
`addsubtype` calls applied (`appAfterLoad_eq`, `runHistoryApp_schema`); the calls are those of the components the loads
read (`historyRegs_source`, `historyRegs_complete`).
-/
namespace ZCV.Cfg
open ZCV ZCV.Conf

/-- **the application's schema object after ONE load, successful or not**: the schema it was, with the `addsubtype`
    calls the load made applied -/
theorem appAfterLoad_eq (conv : Conv) (env : Env) (pkgs : Str → Pkg) (s : Schema) (q : LoadReq) :
    appAfterLoad conv env pkgs s q = s.withImplementers (loadStop conv env pkgs s q.url q.lines q.specs).regs := by
  unfold appAfterLoad
  have ht := loadStop_traced conv env pkgs s q.url q.lines q.specs
  cases h : load conv env pkgs s q.url q.lines q.specs with
  | ok r =>
    simp only
    unfold appAfter
    rw [← (loadStop_ok conv env pkgs s q.url q.lines q.specs r h).1]
    exact shareInto_traced s _ ht
  | error e => exact shareInto_traced s _ ht

/-- for a successful load `appAfterLoad` is `appAfter` of its result -/
theorem appAfterLoad_ok (conv : Conv) (env : Env) (pkgs : Str → Pkg) (s : Schema) (q : LoadReq) (r : LoadResult)
    (h : load conv env pkgs s q.url q.lines q.specs = .ok r) : appAfterLoad conv env pkgs s q = appAfter s r := by
  unfold appAfterLoad
  rw [h]

theorem runHistoryApp_nil (conv : Conv) (env : Env) (pkgs : Str → Pkg) (s : Schema) :
    runHistoryApp conv env pkgs s [] = ([], s) := rfl

theorem runHistoryApp_cons (conv : Conv) (env : Env) (pkgs : Str → Pkg) (s : Schema) (q : LoadReq) (rest : List LoadReq) :
    runHistoryApp conv env pkgs s (q :: rest) =
      (load conv env pkgs s q.url q.lines q.specs :: (runHistoryApp conv env pkgs (appAfterLoad conv env pkgs s q) rest).1,
       (runHistoryApp conv env pkgs (appAfterLoad conv env pkgs s q) rest).2) := rfl

theorem historyStops_cons (conv : Conv) (env : Env) (pkgs : Str → Pkg) (s : Schema) (q : LoadReq) (rest : List LoadReq) :
    historyStops conv env pkgs s (q :: rest) =
      loadStop conv env pkgs s q.url q.lines q.specs :: historyStops conv env pkgs (appAfterLoad conv env pkgs s q) rest := rfl

theorem historyRegs_nil (conv : Conv) (env : Env) (pkgs : Str → Pkg) (s : Schema) : historyRegs conv env pkgs s [] = [] := rfl

theorem historyRegs_cons (conv : Conv) (env : Env) (pkgs : Str → Pkg) (s : Schema) (q : LoadReq) (rest : List LoadReq) :
    historyRegs conv env pkgs s (q :: rest) =
      (loadStop conv env pkgs s q.url q.lines q.specs).regs ++ historyRegs conv env pkgs (appAfterLoad conv env pkgs s q) rest := by
  unfold historyRegs
  rw [historyStops_cons, List.flatMap_cons]

theorem historyImports_cons (conv : Conv) (env : Env) (pkgs : Str → Pkg) (s : Schema) (q : LoadReq) (rest : List LoadReq) :
    historyImports conv env pkgs s (q :: rest) =
      (loadStop conv env pkgs s q.url q.lines q.specs).imports ++
        historyImports conv env pkgs (appAfterLoad conv env pkgs s q) rest := by
  unfold historyImports
  rw [historyStops_cons, List.flatMap_cons]

theorem historyBroken_cons (conv : Conv) (env : Env) (pkgs : Str → Pkg) (s : Schema) (q : LoadReq) (rest : List LoadReq) :
    historyBroken conv env pkgs s (q :: rest) =
      (loadStop conv env pkgs s q.url q.lines q.specs).broken.toList ++
        historyBroken conv env pkgs (appAfterLoad conv env pkgs s q) rest := by
  unfold historyBroken
  rw [historyStops_cons, List.flatMap_cons]

/-- **the application's schema object after a whole history**: the schema it was, with every `addsubtype` call of the
    history applied, in order – and nothing else -/
theorem runHistoryApp_schema (conv : Conv) (env : Env) (pkgs : Str → Pkg) : ∀ (hist : List LoadReq) (s : Schema),
    (runHistoryApp conv env pkgs s hist).2 = s.withImplementers (historyRegs conv env pkgs s hist) := by
  intro hist
  induction hist with
  | nil => intro s; rfl
  | cons q rest ih =>
    intro s
    rw [runHistoryApp_cons, historyRegs_cons, withImplementers_append, ← appAfterLoad_eq]
    exact ih _

/-- the outcomes of the history are the loads against the successive states of the schema object -/
theorem runHistoryApp_outcomes (conv : Conv) (env : Env) (pkgs : Str → Pkg) : ∀ (hist : List LoadReq) (s : Schema),
    (runHistoryApp conv env pkgs s hist).1 =
      List.zipWith (fun si q => load conv env pkgs si q.url q.lines q.specs) (s :: historySchemas conv env pkgs s hist) hist := by
  intro hist
  induction hist with
  | nil => intro s; rfl
  | cons q rest ih =>
    intro s
    rw [runHistoryApp_cons]
    simp only [historySchemas, List.zipWith_cons_cons]
    rw [ih]

theorem runHistoryApp_last (conv : Conv) (env : Env) (pkgs : Str → Pkg) : ∀ (hist : List LoadReq) (s : Schema),
    (runHistoryApp conv env pkgs s hist).2 = (historySchemas conv env pkgs s hist).getLastD s := by
  intro hist
  induction hist with
  | nil => intro s; rfl
  | cons q rest ih =>
    intro s
    rw [runHistoryApp_cons]
    simp only [historySchemas]
    rw [ih]
    cases historySchemas conv env pkgs (appAfterLoad conv env pkgs s q) rest <;> rfl

/-! ### where the calls come from -/

theorem mem_pkgRegs (pk : Pkg) (ia : Str × Str) (h : ia ∈ pkgRegs pk) :
    ∃ url types impls, pk = .component url types impls ∧ ia ∈ impls ∧ ia.1 ∈ types.map (·.1) := by
  cases pk with
  | component url types impls =>
    exact ⟨url, types, impls, rfl, (mem_compRegs types impls ia).mp h⟩
  | notImportable => cases h
  | notPackage => cases h
  | noComponent => cases h
  | illegalName => cases h

/-- every call a load made was declared by a component it read (to its end, or up to where it broke off) -/
theorem Sourced.source {pkgs : Str → Pkg} {x : Stop} (h : Sourced pkgs x) (ia : Str × Str) (hia : ia ∈ x.regs) :
    ∃ p ∈ x.imports ++ x.broken.toList, ia ∈ pkgRegs (pkgs p) := by
  obtain ⟨part, hr, hb⟩ := h
  rw [hr] at hia
  rcases List.mem_append.mp hia with hm | hm
  · obtain ⟨p, hp, hpi⟩ := List.mem_flatMap.mp hm
    exact ⟨p, List.mem_append_left _ hp, hpi⟩
  · cases hbr : x.broken with
    | none => rw [hbr] at hb; simp only at hb; rw [hb] at hm; cases hm
    | some b =>
      rw [hbr] at hb
      simp only at hb
      exact ⟨b, List.mem_append_right _ (by simp), hb.subset hm⟩

theorem historyStops_sourced (conv : Conv) (env : Env) (pkgs : Str → Pkg) : ∀ (hist : List LoadReq) (s : Schema),
    ∀ x ∈ historyStops conv env pkgs s hist, Sourced pkgs x := by
  intro hist
  induction hist with
  | nil => intro s x hx; cases hx
  | cons q rest ih =>
    intro s x hx
    rw [historyStops_cons] at hx
    rcases List.mem_cons.mp hx with rfl | hx
    · exact loadStop_sourced conv env pkgs s q.url q.lines q.specs
    · exact ih _ x hx

/-- **every `addsubtype` call of a history** was declared (`implements`) by a component that some load of the history
    imported, for a type that component defines -/
theorem historyRegs_source (conv : Conv) (env : Env) (pkgs : Str → Pkg) (s : Schema) (hist : List LoadReq)
    (ia : Str × Str) (hia : ia ∈ historyRegs conv env pkgs s hist) :
    ∃ p ∈ historyImports conv env pkgs s hist ++ historyBroken conv env pkgs s hist,
      ∃ url types impls, pkgs p = .component url types impls ∧ ia ∈ impls ∧ ia.1 ∈ types.map (·.1) := by
  unfold historyRegs at hia
  obtain ⟨x, hx, hxi⟩ := List.mem_flatMap.mp hia
  obtain ⟨p, hp, hpi⟩ := (historyStops_sourced conv env pkgs hist s x hx).source ia hxi
  refine ⟨p, ?_, mem_pkgRegs _ ia hpi⟩
  rcases List.mem_append.mp hp with h | h
  · exact List.mem_append_left _ (List.mem_flatMap.mpr ⟨x, hx, h⟩)
  · exact List.mem_append_right _ (List.mem_flatMap.mpr ⟨x, hx, h⟩)

theorem flatMap_complete (pkgs : Str → Pkg) : ∀ (stops : List Stop), (∀ x ∈ stops, Sourced pkgs x) →
    stops.flatMap (·.broken.toList) = [] →
    stops.flatMap (·.regs) = (stops.flatMap (·.imports)).flatMap (fun p => pkgRegs (pkgs p)) := by
  intro stops
  induction stops with
  | nil => intro _ _; rfl
  | cons x rest ih =>
    intro hs hb
    rw [List.flatMap_cons, List.append_eq_nil_iff] at hb
    obtain ⟨part, hr, hbr⟩ := hs x List.mem_cons_self
    have hnone : x.broken = none := by
      cases hx : x.broken with
      | none => rfl
      | some b => rw [hx] at hb; simp at hb
    rw [hnone] at hbr
    simp only at hbr
    subst hbr
    rw [List.flatMap_cons, List.flatMap_cons, List.flatMap_append, hr, List.append_nil,
      ih (fun y hy => hs y (List.mem_cons_of_mem _ hy)) hb.2]

/-- **when no component broke off**, the calls of the history are exactly the calls of the components its loads imported,
    in order -/
theorem historyRegs_complete (conv : Conv) (env : Env) (pkgs : Str → Pkg) (s : Schema) (hist : List LoadReq)
    (hb : historyBroken conv env pkgs s hist = []) :
    historyRegs conv env pkgs s hist = (historyImports conv env pkgs s hist).flatMap (fun p => pkgRegs (pkgs p)) :=
  flatMap_complete pkgs _ (historyStops_sourced conv env pkgs hist s) hb

/-- a history all of whose loads succeed has no component that broke off -/
theorem historyBroken_of_all_ok (conv : Conv) (env : Env) (pkgs : Str → Pkg) : ∀ (hist : List LoadReq) (s : Schema),
    (∀ o ∈ (runHistoryApp conv env pkgs s hist).1, ∃ r, o = .ok r) → historyBroken conv env pkgs s hist = [] := by
  intro hist
  induction hist with
  | nil => intro s _; rfl
  | cons q rest ih =>
    intro s h
    rw [runHistoryApp_cons] at h
    rw [historyBroken_cons]
    obtain ⟨r, hr⟩ := h _ List.mem_cons_self
    rw [(loadStop_ok conv env pkgs s q.url q.lines q.specs r hr).2, ih _ (fun o ho => h o (List.mem_cons_of_mem _ ho))]
    rfl

/-! ### membership in the table after the calls -/

/-- a name is listed after the calls iff it was listed before or a call naming this abstract type asked for it -/
theorem mem_implementers_withImplementers (s : Schema) (regs : List (Str × Str)) (x c : Str) :
    c ∈ implementers (s.withImplementers regs) x ↔
      c ∈ implementers s x ∨ (isAbstract s x = true ∧ (c, lower x) ∈ regs) := by
  rw [withImplementers_eq]
  unfold implementers isAbstract Schema.gettype
  simp only
  have hcomp : ((fun p : Str × TypeEntry => p.1 == lower x) ∘ regEntries regs) = fun p => p.1 == lower x := by
    funext p
    simp only [Function.comp, regEntries_fst]
  rw [List.find?_map, hcomp]
  cases hf : s.types.find? (fun p => p.1 == lower x) with
  | none => simp
  | some p =>
    obtain ⟨k, te⟩ := p
    have hk : k = lower x := by
      have := List.find?_some hf
      simpa using this
    subst hk
    cases te with
    | concrete t => simp [regEntries_concrete]
    | abstract_ n subs =>
      obtain ⟨add, he, h1, h2, _⟩ := regEntries_abstract regs (lower x) n subs
      simp only [Option.map_some, he, true_and]
      constructor
      · intro hm
        rcases List.mem_append.mp hm with h | h
        · exact .inl h
        · exact .inr (h1 c h).2
      · rintro (h | h)
        · exact List.mem_append_left _ h
        · exact h2 c h

end ZCV.Cfg
