import ZCV.Lemmas.NoInternalEval
/-!
Closed instances used by the counterexamples of `ZCV.Props.C07`: tiny schemas, datatype tables and include
environments, and the two "the include recursion runs out of fuel" computations.
-/
namespace ZCV.Cfg.Ex
open ZCV ZCV.Cfg

/-- datatypes that accept everything -/
def conv0 : Conv := { key := fun _ k => .ok k, val := fun _ v => .ok (.str v), sect := fun _ v => .ok v }
/-- no resource can be opened, every include argument is refused as a fragment URL -/
def env0 : Env := { res := fun _ => none, resolve := fun _ _ => .fragment, getenv := fun _ => none }
def pkgs0 : Str → Pkg := fun _ => .notImportable

def sch (children : List (Option Str × Info)) (types : List (Str × TypeEntry)) : Schema :=
  { types := types, top := { name := none, keytype := [], datatype := [], children := children }, handler := none, components := [] }
def sty (nm : Str) (children : List (Option Str × Info)) : SType :=
  { name := some nm, keytype := [], datatype := [], children := children }
def vi0 : VI := { value := [], pos := { line := 0, url := none } }
def key1 (name attr : String) (multi : Bool) (minOccurs : Nat) (dflt : Default) : KeyInfo :=
  { name := name.toList, attr := attr.toList, multi := multi, minOccurs := minOccurs, dt := [], dflt := dflt, handler := none }
def anySect (ty : String) : SectInfo :=
  { name := ['*'], attr := "s".toList, multi := false, minOccurs := 0, ty := ty.toList, handler := none }

/-- the empty schema -/
def sEmpty : Schema := sch [] []

def inc : Str := "%include y".toList

theorem shape_inc : lineShape (strip inc) = .include_ "y".toList :=
  shape_include _ _ (by decide) (by decide)

theorem strip_y : strip "y".toList = "y".toList := by decide

/-- the `%include y` line, up to the point where the resource has been resolved -/
theorem incStep_inc {σ} (fuel : Nat) (env : Env) (c : PCtx σ) (hc : c.canInclude = true) (active : List Str)
    (url : Option Str) (line : Nat) (st : PS σ) :
    stepLine fuel env c active url line (strip inc) st =
      match env.resolve url "y".toList with
      | .fragment => .error (.cfg { kind := .plain, url := none, tag := "fragment" })
      | .unknown => .error (.internal "unresolved-by-harness")
      | .url u =>
        match env.res u with
        | none => .error (.cfg { kind := .plain, url := some u, tag := "error opening" })
        | some lines =>
          if u != [] && active.contains u then .error (.cfg { kind := .plain, url := some u, tag := "resource includes itself" })
          else match fuel with
          | 0 => .error (.internal "RecursionError")
          | fuel' + 1 =>
            parseLines fuel' env c (u :: active) (some u) lines 0 { ctx := st.ctx, stack := [], defs := st.defs } >>= fun sub =>
              .ok { st with ctx := sub.ctx, defs := sub.defs } := by
  rw [stepLine_include _ _ _ _ _ _ _ _ _ shape_inc]
  unfold incStep
  rw [strip_y, replace_nodollar _ _ _ _ _ (by decide)]
  simp only [bind, Except.bind, hc, Bool.not_true, Bool.false_eq_true, if_false]
  rfl

/-! ### the empty URL is never refused as "including itself" -/

def envSelf : Env := { res := fun _ => some [inc], resolve := fun _ _ => .url [], getenv := fun _ => none }

theorem self_runs_out {σ} (c : PCtx σ) (hc : c.canInclude = true) : ∀ (fuel : Nat) (active : List Str) (url : Option Str)
    (st : PS σ), parseLines fuel envSelf c active url [inc] 0 st = .error (.internal "RecursionError") := by
  intro fuel
  induction fuel with
  | zero =>
    intro active url st
    rw [parseLines_cons, incStep_inc _ _ _ hc]
    rfl
  | succ f ih =>
    intro active url st
    rw [parseLines_cons, incStep_inc _ _ _ hc]
    have hres : envSelf.resolve url "y".toList = .url [] := rfl
    have hopen : envSelf.res [] = some [inc] := rfl
    rw [hres]
    simp only
    rw [hopen]
    simp only [bne_self_eq_false, Bool.false_and, Bool.false_eq_true, if_false]
    rw [ih]
    rfl

/-! ### a chain of 65 resources, each including the next -/

def chain : List Str := (List.range 65).map fun k => List.replicate (k + 1) 'x'

def envChain : Env :=
  { res := fun u => if chain.contains u then some [inc] else none,
    resolve := fun b _ => .url (b.getD [] ++ ['x']),
    getenv := fun _ => none }

theorem chain_mem (k : Nat) (hk : k < 65) : chain.contains (List.replicate (k + 1) 'x') = true := by
  rw [List.contains_iff_mem]
  exact List.mem_map.mpr ⟨k, List.mem_range.mpr hk, rfl⟩

theorem chain_runs_out {σ} (c : PCtx σ) (hc : c.canInclude = true) : ∀ (fuel k : Nat) (active : List Str) (st : PS σ),
    k + fuel = 64 → (∀ a ∈ active, a.length ≤ k) →
    parseLines fuel envChain c active (some (List.replicate k 'x')) [inc] 0 st = .error (.internal "RecursionError") := by
  intro fuel
  induction fuel with
  | zero =>
    intro k active st hk hact
    rw [parseLines_cons, incStep_inc _ _ _ hc]
    have hres : envChain.resolve (some (List.replicate k 'x')) "y".toList = .url (List.replicate (k + 1) 'x') := by
      simp only [envChain, Option.getD_some, List.replicate_succ']
    rw [hres]
    simp only
    have hopen : envChain.res (List.replicate (k + 1) 'x') = some [inc] := by
      simp only [envChain, chain_mem k (by omega), if_true]
    rw [hopen]
    simp only
    have hnot : active.contains (List.replicate (k + 1) 'x') = false := by
      rw [Bool.eq_false_iff]
      intro h
      have := hact _ (List.contains_iff_mem.mp h)
      simp at this
      omega
    simp only [hnot, Bool.and_false, Bool.false_eq_true, if_false]
    rfl
  | succ f ih =>
    intro k active st hk hact
    rw [parseLines_cons, incStep_inc _ _ _ hc]
    have hres : envChain.resolve (some (List.replicate k 'x')) "y".toList = .url (List.replicate (k + 1) 'x') := by
      simp only [envChain, Option.getD_some, List.replicate_succ']
    rw [hres]
    simp only
    have hopen : envChain.res (List.replicate (k + 1) 'x') = some [inc] := by
      simp only [envChain, chain_mem k (by omega), if_true]
    rw [hopen]
    simp only
    have hnot : active.contains (List.replicate (k + 1) 'x') = false := by
      rw [Bool.eq_false_iff]
      intro h
      have := hact _ (List.contains_iff_mem.mp h)
      simp at this
      omega
    simp only [hnot, Bool.and_false, Bool.false_eq_true, if_false]
    rw [ih (k + 1) _ _ (by omega) (by
      intro a ha
      rcases List.mem_cons.mp ha with rfl | ha
      · simp
      · have := hact a ha
        omega)]
    rfl

theorem envChain_ok : EnvOK envChain chain ∧ chain.length = 65 := by
  refine ⟨⟨fun b a h => (by cases h), ?_⟩, by simp [chain]⟩
  intro b a u hr ho
  simp only [envChain, Resolved.url.injEq] at hr
  constructor
  · rw [← hr]; simp
  · simp only [envChain] at ho
    split at ho
    · rename_i hc; exact List.contains_iff_mem.mp hc
    · cases ho

/-! ### an imported component with an ill-formed type -/

/-- a component whose only type has a required key with a default -/
def tBad : SType := sty "t".toList [(some "k".toList, .key (key1 "k" "k" false 1 (.one vi0)))]
def pkgsBad : Str → Pkg := fun _ => .component "u".toList [("t".toList, .concrete tBad)] []
/-- the application schema accepts one section of (the not yet known) type `t` -/
def sHost : Schema := sch [(none, .sect (anySect "t"))] []

def impLine : Str := "%import p".toList
def tLine : Str := "<t/>".toList
theorem shape_imp : lineShape (strip impLine) = .import_ "p".toList := shape_import _ _ (by decide) (by decide)
theorem shape_t : lineShape (strip tLine) = .open_ "t".toList none true := shape_open _ _ _ _ (by decide) (by decide)
theorem strip_p : strip "p".toList = "p".toList := by decide

def stHost0 : LS := { schema := sHost, privateSchema := false, handlers := [], stack := [newMatcher sHost.top none none], pkgs := pkgsBad, conv := conv0 }
def sHost1 : Schema := { sHost with types := [("t".toList, .concrete tBad)], components := ["u".toList] }
def stHost1 : LS := { stHost0 with schema := sHost1, privateSchema := true }

theorem host_import (fuel : Nat) (active : List Str) (url : Option Str) (n : Nat) :
    stepLine fuel env0 loaderCtx active url n (strip impLine) { ctx := stHost0, stack := [], defs := [] } =
      .ok { ctx := stHost1, stack := [], defs := [] } := by
  rw [stepLine_import _ _ _ _ _ _ _ _ _ shape_imp]
  unfold impStep
  rw [strip_p, replace_nodollar _ _ _ _ _ (by decide)]
  rfl

theorem host_open (fuel : Nat) (active : List Str) (url : Option Str) (n : Nat) :
    stepLine fuel env0 loaderCtx active url n (strip tLine) { ctx := stHost1, stack := [], defs := [] } =
      .error (.internal "TypeError") := by
  rw [stepLine_open _ _ _ _ _ _ _ _ _ _ _ shape_t]
  have hg : getsectioninfo sHost1 (newMatcher sHost.top none none).ty "t".toList none = .ok (anySect "t") := by
    simp [getsectioninfo, getsectioninfo.go, getsectioninfo.goUnkeyed, newMatcher, sHost, sch, anySect, allowUnnamed]
  have h2 : sHost1.gettype "t".toList = some (.concrete tBad) := rfl
  have h1 : lsStart stHost1 "t".toList none =
      .ok { stHost1 with stack := [newMatcher tBad none none, newMatcher sHost.top none none] } := by
    simp only [lsStart, stHost1, stHost0, h2, tBad, sty, Option.getD_some, hg]
    rfl
  simp only [openSection, loaderCtx, h1]
  rfl

theorem pkg_counterexample :
    load conv0 env0 pkgsBad sHost none [impLine, tLine] [] = .error (.internal "TypeError") := by
  rw [load_no_overrides]
  unfold loadTail
  simp only [Option.map_none, parseLines_cons]
  have := host_import 64 [] none (0 + 1)
  unfold stHost0 at this
  rw [this]
  simp only [bind, Except.bind]
  rw [parseLines_cons, host_open]
  rfl

/-! ### a concrete type stored under a name that is not its own -/

def absSect : SectInfo := { name := ['*'], attr := "s".toList, multi := false, minOccurs := 0, ty := "abs".toList, handler := none }
def tB : SType := sty "b".toList []
/-- the type table maps `a` to a type that calls itself `b` -/
def sMisnamed : Schema :=
  sch [(none, .sect absSect)]
    [("a".toList, .concrete tB), ("abs".toList, .abstract_ "abs".toList ["a".toList, "b".toList])]

def aLine : Str := "<a/>".toList
theorem shape_aLine : lineShape (strip aLine) = .open_ "a".toList none true := shape_open _ _ _ _ (by decide) (by decide)

def topM : Matcher := newMatcher sMisnamed.top none none
def stM0 : LS := { schema := sMisnamed, privateSchema := false, handlers := [], stack := [topM], pkgs := pkgs0, conv := conv0 }
def vB : Val := .sect "b".toList none []
def topM' : Matcher := setSlot topM "s".toList (.sect vB)
def stM2 : LS := { stM0 with stack := [topM'] }

theorem misnamed_open (fuel : Nat) (active : List Str) (url : Option Str) (n : Nat) :
    stepLine fuel env0 loaderCtx active url n (strip aLine) { ctx := stM0, stack := [], defs := [] } =
      .ok { ctx := stM2, stack := [], defs := [] } := by
  rw [stepLine_open _ _ _ _ _ _ _ _ _ _ _ shape_aLine]
  have hg1 : getsectioninfo sMisnamed topM.ty "b".toList none = .ok absSect := by
    simp [getsectioninfo, getsectioninfo.go, getsectioninfo.goUnkeyed, topM, newMatcher, sMisnamed, sch, absSect,
      isAbstract, isSubtype, Schema.gettype]
    rfl
  have hg2 : getsectioninfo sMisnamed topM.ty "a".toList none = .ok absSect := by
    simp [getsectioninfo, getsectioninfo.go, getsectioninfo.goUnkeyed, topM, newMatcher, sMisnamed, sch, absSect,
      isAbstract, isSubtype, Schema.gettype]
    rfl
  have h2 : sMisnamed.gettype "a".toList = some (.concrete tB) := rfl
  have h1 : lsStart stM0 "a".toList none = .ok { stM0 with stack := [newMatcher tB none none, topM] } := by
    simp only [lsStart, stM0, h2, tB, sty, Option.getD_some, hg1]
    rfl
  have ha : addSection sMisnamed topM "a".toList none vB = .ok topM' := by
    simp only [addSection, bind, Except.bind, pure, Except.pure, hg2]
    rfl
  have h3 : lsStop { stM0 with stack := [newMatcher tB none none, topM] } "a".toList none = .ok stM2 := by
    simp only [lsStop, stM0]
    have hf : finishMatcher conv0 sMisnamed (newMatcher tB none none) = .ok (vB, []) := rfl
    simp only [bind, Except.bind, hf, ha]
    rfl
  simp only [openSection, loaderCtx, h1, h3]
  rfl

theorem misnamed_counterexample :
    load conv0 env0 pkgs0 sMisnamed none [aLine] [] = .error (.internal "AttributeError") := by
  rw [load_no_overrides]
  unfold loadTail
  simp only [Option.map_none, parseLines_cons]
  have := misnamed_open 64 [] none (0 + 1)
  unfold stM0 topM at this
  rw [this]
  simp only [bind, Except.bind, parseLines_nil]
  rfl

/-! ### a well-formed schema with some variety -/

/-- a schema with a wildcard multikey with defaults, a required key, and a section type used through an abstract type -/
def sNice : Schema :=
  sch [ (some "k".toList, .key (key1 "k" "k" false 1 .none)),
        (some ['+'], .key (key1 "+" "m" true 0 (.keyedMany []))),
        (none, .sect { name := ['+'], attr := "s".toList, multi := true, minOccurs := 0, ty := "abs".toList, handler := none }) ]
      [ ("abs".toList, .abstract_ "abs".toList ["t".toList]),
        ("t".toList, .concrete (sty "t".toList [(some "d".toList, .key (key1 "d" "d" false 0 (.one vi0)))])) ]


/-! ### a key child stored without its key -/

/-- the top-level type holds a key child under no key -/
def sWrongKey : Schema := sch [(none, .key (key1 "k" "k" false 0 .none))] [("a".toList, .concrete (sty "a".toList []))]

theorem shape_a : lineShape (strip "<a/>".toList) = .open_ "a".toList none true :=
  shape_open _ _ _ _ (by decide) (by decide)

theorem wrongKey_counterexample :
    load conv0 env0 pkgs0 sWrongKey none ["<a/>".toList] [] = .error (.internal "AttributeError") := by
  rw [load_no_overrides]
  unfold loadTail
  simp only [Option.map_none, parseLines_cons, stepLine_open _ _ _ _ _ _ _ _ _ _ _ shape_a]
  have hg : getsectioninfo sWrongKey sWrongKey.top "a".toList none = .error (.internal "AttributeError") := by
    simp [getsectioninfo, getsectioninfo.go, getsectioninfo.goUnkeyed, sWrongKey, sch]
  have h2 : sWrongKey.gettype "a".toList = some (.concrete (sty "a".toList [])) := rfl
  have h1 : lsStart { schema := sWrongKey, privateSchema := false, handlers := [], stack := [newMatcher sWrongKey.top none none], pkgs := pkgs0, conv := conv0 } "a".toList none
        = .error (.internal "AttributeError") := by
    simp only [lsStart, h2, newMatcher, sty, Option.getD_some, hg]
    rfl
  simp only [openSection, loaderCtx, h1]
  rfl

end ZCV.Cfg.Ex
