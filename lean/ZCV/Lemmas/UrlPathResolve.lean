import ZCV.Lemmas.UrlPathParse
/-! `urljoin`'s segment loop against the specification's lexical resolution. -/
namespace ZCV.UrlPath
open ZCV
open ZCV.UrlPathSpec (step normalize resolve isName)

/-! ## the specification's walk -/

theorem up_step_nil (st : List Str) : step st [] = st := by
  unfold step
  rw [if_neg (by decide), if_pos (Or.inr rfl)]

theorem up_step_name (st : List Str) (x : Str) (h : isName x = true) : step st x = st ++ [x] := by
  unfold isName at h
  simp only [Bool.and_eq_true, bne_iff_ne, ne_eq] at h
  unfold step
  rw [if_neg h.2, if_neg (by intro hh; rcases hh with hh | hh; exact h.1.2 hh; exact h.1.1 hh)]

/-- empty segments do not matter -/
theorem up_foldl_step_filter (st : List Str) (xs : List Str) :
    (xs.filter (· != [])).foldl step st = xs.foldl step st := by
  induction xs generalizing st with
  | nil => rfl
  | cons x t ih =>
    by_cases hx : x = []
    · subst hx
      rw [List.filter_cons_of_neg (by simp), List.foldl_cons, up_step_nil, ih]
    · rw [List.filter_cons_of_pos (by simpa using hx), List.foldl_cons, List.foldl_cons, ih]

/-- what remains are names of the input (or of the starting stack) -/
theorem up_foldl_step_mem (st xs : List Str) :
    ∀ x ∈ xs.foldl step st, x ∈ st ∨ (x ∈ xs ∧ isName x = true) := by
  induction xs generalizing st with
  | nil => intro x hx; exact Or.inl hx
  | cons a t ih =>
    intro x hx
    rw [List.foldl_cons] at hx
    rcases ih (step st a) x hx with h | h
    · unfold step at h
      split at h
      · exact Or.inl (List.dropLast_subset _ h)
      · split at h
        · exact Or.inl h
        · rename_i h1 h2
          simp only [List.mem_append, List.mem_cons, List.not_mem_nil, or_false] at h
          rcases h with h | h
          · exact Or.inl h
          · subst h
            refine Or.inr ⟨by simp, ?_⟩
            unfold isName
            simp only [Bool.and_eq_true, bne_iff_ne, ne_eq]
            exact ⟨⟨fun e => h2 (Or.inr e), fun e => h2 (Or.inl e)⟩, h1⟩
    · exact Or.inr ⟨by simp [h.1], h.2⟩

theorem up_normalize_names (xs : List Str) : ∀ x ∈ normalize xs, x ∈ xs ∧ isName x = true := by
  intro x hx
  rcases up_foldl_step_mem [] xs x hx with h | h
  · simp at h
  · exact h

/-- a stack of names is already normal -/
theorem up_foldl_step_names (st xs : List Str) (h : ∀ x ∈ xs, isName x = true) : xs.foldl step st = st ++ xs := by
  induction xs generalizing st with
  | nil => simp
  | cons a t ih =>
    rw [List.foldl_cons, up_step_name st a (h a (by simp)), ih _ (fun x hx => h x (by simp [hx]))]
    simp

theorem up_normalize_idem (xs : List Str) : normalize (normalize xs) = normalize xs := by
  have := up_foldl_step_names [] (normalize xs) (fun x hx => (up_normalize_names xs x hx).2)
  simpa [normalize] using this

theorem up_normalize_append (a b : List Str) : normalize (a ++ b) = b.foldl step (normalize a) := by
  simp only [normalize, List.foldl_append]

/-- resolving against an already resolved directory = resolving against the directory as given -/
theorem up_resolve_normalize (a b : List Str) : resolve (normalize a) b = resolve a b := by
  unfold resolve
  rw [up_normalize_append, up_normalize_idem, ← up_normalize_append]

theorem up_resolve_name_last (a b : List Str) (l : Str) (h : isName l = true) :
    resolve a (b ++ [l]) = resolve a b ++ [l] := by
  unfold resolve normalize
  rw [← List.append_assoc, List.foldl_append, List.foldl_cons, List.foldl_nil, up_step_name _ _ h]

theorem up_resolve_nil_cons (a b : List Str) : resolve ([] :: a) b = resolve a b := by
  unfold resolve normalize
  rw [List.cons_append, List.foldl_cons, up_step_nil]

/-! ## the model's loop -/

theorem up_dotStep_nil_nil : dotStep [] [] = [[]] := by decide

/-- model stack vs. specification stack: equal, except that the model may still carry the root marker `''` -/
def StackRel (m s : List Str) : Prop := m = [] :: s ∨ m = s

theorem up_stackRel_step (m s : List Str) (x : Str) (hx : x ≠ []) (h : StackRel m s) :
    StackRel (dotStep m x) (step s x) := by
  unfold dotStep step dotdot dot
  by_cases h1 : x = ['.', '.']
  · rw [if_pos h1, if_pos h1]
    rcases h with h | h
    · subst h
      cases s with
      | nil => right; rfl
      | cons a t => left; rfl
    · subst h; right; rfl
  · rw [if_neg h1, if_neg h1]
    by_cases h2 : x = ['.']
    · rw [if_pos h2, if_pos (Or.inl h2)]; exact h
    · rw [if_neg h2, if_neg (by intro hh; rcases hh with hh | hh; exact h2 hh; exact hx hh)]
      rcases h with h | h
      · subst h; left; rfl
      · subst h; right; rfl

theorem up_stackRel_foldl (m s : List Str) (xs : List Str) (hx : ∀ x ∈ xs, x ≠ []) (h : StackRel m s) :
    StackRel (xs.foldl dotStep m) (xs.foldl step s) := by
  induction xs generalizing m s with
  | nil => exact h
  | cons a t ih =>
    rw [List.foldl_cons, List.foldl_cons]
    exact ih _ _ (fun x hx' => hx x (by simp [hx'])) (up_stackRel_step m s a (hx a (by simp)) h)

/-! ## `filterMiddle` -/

theorem up_filterMiddle (a : Str) (mid : List Str) (l : Str) :
    filterMiddle (a :: (mid ++ [l])) = a :: (mid.filter (· != []) ++ [l]) := by
  cases mid with
  | nil => rfl
  | cons b t =>
    show a :: (((b :: t) ++ [l]).dropLast.filter (· != []) ++ [((b :: t) ++ [l]).getLast (by simp)]) = _
    rw [List.dropLast_concat, List.getLast_concat]

end ZCV.UrlPath
