import ZCV.Base
/-!
`str.lower` (the model `lower`, driven by the generated table `Gen.lowerTbl`) is idempotent.  The table part is one
closed computation over the table (every image of every entry is a fixed point of the table, or a non-uppercase ASCII
character); it is re-checked whenever the table is regenerated.
-/
namespace ZCV.LowerTbl
open ZCV

abbrev LEnt := Nat × Nat × Nat × Int

/-- entry `e'` does not apply to code point `n` (the test of `uniLowerNat`, in kernel-accelerated primitives) -/
def noMatch (e : LEnt) (n : Nat) : Bool :=
  !(Nat.ble e.1 n && Nat.blt n (e.1 + e.2.1 * e.2.2.1) && Nat.beq ((n - e.1) % e.2.2.1) 0)

/-- the image of the `k`-th code point of entry `e` -/
def img (e : LEnt) (k : Nat) : Nat := (Int.ofNat (e.1 + k * e.2.2.1) + e.2.2.2).toNat

def notUpper (n : Nat) : Bool := !(Nat.ble 65 n && Nat.ble n 90)

/-- no image of `e` (they lie between `lo` and `hi`) is in the domain of `e'`: by intervals if possible, else one by one -/
def pairOK (e : LEnt) (lo hi : Nat) (e' : LEnt) : Bool :=
  Nat.blt hi e'.1 || Nat.ble (e'.1 + e'.2.1 * e'.2.2.1) lo || (List.range e.2.1).all (fun k => noMatch e' (img e k))

def entryOK (e : LEnt) : Bool :=
  (List.range e.2.1).all (fun k => notUpper (img e k)) && Gen.lowerTbl.all (pairOK e (img e 0) (img e (e.2.1 - 1)))

/-- every image of every table entry is left alone by the table, and is not an upper-case ASCII letter -/
def lowerTblOK : Bool := Gen.lowerTbl.all entryOK

theorem lowerTblOK_true : lowerTblOK = true := by decide +kernel

theorem img_mono (e : LEnt) (k k' : Nat) (h : k ≤ k') : img e k ≤ img e k' := by
  unfold img
  have h1 : e.1 + k * e.2.2.1 ≤ e.1 + k' * e.2.2.1 := Nat.add_le_add_left (Nat.mul_le_mul_right _ h) _
  generalize e.1 + k * e.2.2.1 = a at h1 ⊢
  generalize e.1 + k' * e.2.2.1 = b at h1 ⊢
  generalize e.2.2.2 = d
  simp only [Int.ofNat_eq_natCast]
  omega

theorem tbl_img (e : LEnt) (he : e ∈ Gen.lowerTbl) (k : Nat) (hk : k < e.2.1) :
    notUpper (img e k) = true ∧ ∀ e' ∈ Gen.lowerTbl, noMatch e' (img e k) = true := by
  have hall := lowerTblOK_true
  unfold lowerTblOK at hall
  rw [List.all_eq_true] at hall
  have h1 := hall e he
  unfold entryOK at h1
  rw [Bool.and_eq_true, List.all_eq_true, List.all_eq_true] at h1
  refine ⟨h1.1 k (List.mem_range.mpr hk), ?_⟩
  intro e' he'
  have h2 := h1.2 e' he'
  unfold pairOK at h2
  rw [Bool.or_eq_true, Bool.or_eq_true] at h2
  have hlo : img e 0 ≤ img e k := img_mono e 0 k (Nat.zero_le _)
  have hhi : img e k ≤ img e (e.2.1 - 1) := img_mono e k _ (by omega)
  rcases h2 with (h2 | h2) | h2
  · have : img e (e.2.1 - 1) < e'.1 := by simpa [Nat.blt_eq] using h2
    unfold noMatch
    have : Nat.ble e'.1 (img e k) = false := by
      rw [Bool.eq_false_iff]; intro hb
      have := Nat.le_of_ble_eq_true hb
      omega
    simp [this]
  · have h3 : e'.1 + e'.2.1 * e'.2.2.1 ≤ img e 0 := Nat.le_of_ble_eq_true h2
    unfold noMatch
    have : Nat.blt (img e k) (e'.1 + e'.2.1 * e'.2.2.1) = false := by
      rw [Bool.eq_false_iff]; intro hb
      have : img e k < e'.1 + e'.2.1 * e'.2.2.1 := by simpa [Nat.blt_eq] using hb
      omega
    simp [this]
  · rw [List.all_eq_true] at h2
    exact h2 k (List.mem_range.mpr hk)

theorem uniLower_fix (n : Nat) (h : ∀ e' ∈ Gen.lowerTbl, noMatch e' n = true) : uniLowerNat n = n := by
  unfold uniLowerNat
  have : Gen.lowerTbl.find? (fun e => e.1 ≤ n && n < e.1 + e.2.1 * e.2.2.1 && (n - e.1) % e.2.2.1 == 0) = none := by
    rw [List.find?_eq_none]
    intro e' he'
    have := h e' he'
    unfold noMatch at this
    intro hp
    simp only [Bool.and_eq_true, decide_eq_true_eq, beq_iff_eq] at hp
    obtain ⟨⟨h1, h2⟩, h3⟩ := hp
    have b1 : Nat.ble e'.1 n = true := Nat.ble_eq_true_of_le h1
    have b2 : Nat.blt n (e'.1 + e'.2.1 * e'.2.2.1) = true := by simpa [Nat.blt_eq] using h2
    have b3 : Nat.beq ((n - e'.1) % e'.2.2.1) 0 = true := by rw [h3]; rfl
    rw [b1, b2, b3] at this
    cases this
  rw [this]

/-- a code point that lower-casing leaves alone -/
def GoodImg (n : Nat) : Prop := (n < 128 → ¬ (65 ≤ n ∧ n ≤ 90)) ∧ (128 ≤ n → uniLowerNat n = n)

theorem goodImg_uniLower (n : Nat) (hn : 128 ≤ n) : GoodImg (uniLowerNat n) := by
  unfold uniLowerNat
  split
  · rename_i e he
    have hmem := List.mem_of_find?_eq_some he
    have hp := List.find?_some he
    simp only [Bool.and_eq_true, decide_eq_true_eq, beq_iff_eq] at hp
    obtain ⟨⟨h1, h2⟩, h3⟩ := hp
    have hstep : 0 < e.2.2.1 := by
      apply Nat.pos_of_ne_zero
      intro h0
      rw [h0] at h2
      simp at h2
      omega
    have hk : (n - e.1) / e.2.2.1 * e.2.2.1 = n - e.1 := by
      have := Nat.div_add_mod (n - e.1) e.2.2.1
      rw [h3, Nat.mul_comm] at this
      omega
    have hklt : (n - e.1) / e.2.2.1 < e.2.1 := by
      apply Nat.div_lt_of_lt_mul
      rw [Nat.mul_comm]
      omega
    obtain ⟨g1, g2⟩ := tbl_img e hmem _ hklt
    have himg : img e ((n - e.1) / e.2.2.1) = (Int.ofNat n + e.2.2.2).toNat := by
      unfold img
      rw [hk]
      have : e.1 + (n - e.1) = n := by omega
      rw [this]
    rw [himg] at g1 g2
    refine ⟨fun _ hu => ?_, fun _ => uniLower_fix _ g2⟩
    unfold notUpper at g1
    have b1 := Nat.ble_eq_true_of_le hu.1
    have b2 := Nat.ble_eq_true_of_le hu.2
    rw [b1, b2] at g1
    cases g1
  · rename_i he
    refine ⟨fun h => by omega, fun _ => ?_⟩
    unfold uniLowerNat
    rw [he]

theorem toNat_ofNat (n : Nat) : (Char.ofNat n).toNat = if n.isValidChar then n else 0 := by
  unfold Char.ofNat
  by_cases h : n.isValidChar
  · simp only [h, dite_true, if_true]
    rfl
  · simp only [h, dite_false, if_false]
    rfl

theorem lowerChar_ascii : ∀ n : Fin 128, lowerChar (lowerChar (Char.ofNat n.val)) = lowerChar (Char.ofNat n.val) := by
  decide +kernel

theorem lowerChar_small : ∀ n : Fin 128, (!(65 ≤ n.val && n.val ≤ 90)) = true →
    lowerChar (Char.ofNat n.val) = Char.ofNat n.val := by
  decide +kernel

theorem lowerChar_idem (c : Char) : lowerChar (lowerChar c) = lowerChar c := by
  by_cases h : c.toNat < 128
  · have := lowerChar_ascii ⟨c.toNat, h⟩
    simpa using this
  · have hc : lowerChar c = Char.ofNat (uniLowerNat c.toNat) := by
      unfold lowerChar
      simp only [h, if_false]
    rw [hc]
    have hg := goodImg_uniLower c.toNat (by omega)
    generalize uniLowerNat c.toNat = n' at hg ⊢
    by_cases hv : n'.isValidChar
    · by_cases hs : n' < 128
      · exact lowerChar_small ⟨n', hs⟩ (by
          have := hg.1 hs
          simp only [Bool.not_eq_true', Bool.and_eq_false_iff, decide_eq_false_iff_not]
          omega)
      · have hg' := hg.2 (by omega)
        unfold lowerChar
        have ht : (Char.ofNat n').toNat = n' := by rw [toNat_ofNat]; simp [hv]
        rw [ht]
        simp only [hs, if_false]
        rw [hg']
    · have : Char.ofNat n' = Char.ofNat 0 := by
        unfold Char.ofNat
        simp only [hv, dite_false]
        rfl
      rw [this]
      exact lowerChar_small ⟨0, by omega⟩ rfl

end ZCV.LowerTbl

namespace ZCV

/-- **`lower` is idempotent** -/
theorem lower_idem (x : Str) : lower (lower x) = lower x := by
  unfold lower
  rw [List.map_map]
  apply List.map_congr_left
  intro c _
  exact LowerTbl.lowerChar_idem c

end ZCV
