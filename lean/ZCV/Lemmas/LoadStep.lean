import ZCV.Lemmas.LoadInv
/-!
Step 2 (continued): one key line / one closed section against the invariant.
-/
namespace ZCV.Conf
open ZCV ZCV.Cfg

/-! ### `addValueCore`, flattened -/

/-- what `addValueCore` does to the slot it has found -/
def slotStep (ki : KeyInfo) (isArb : Bool) (rk : Str) (vi : VI) : Slot → M Slot
  | .none => if isArb then .ok (.map [(rk, vi)]) else if ki.multi then .ok (.many [vi]) else .ok (.one vi)
  | .one _ =>
    if !ki.multi then
      if !isArb then .error (plainErr "does not support multiple values") else .error (.internal "TypeError")
    else .error (.internal "TypeError")
  | .many vs => .ok (.many (vs ++ [vi]))
  | .map mp => if mp.any (·.1 == rk) then .error (plainErr "too many values") else .ok (.map (mp ++ [(rk, vi)]))
  | .mmap mp =>
    if mp.any (·.1 == rk) then .ok (.mmap (mp.map fun p => if p.1 == rk then (p.1, p.2 ++ [vi]) else p))
    else .ok (.mmap (mp ++ [(rk, [vi])]))
  | _ => .error (.internal "TypeError")

theorem route_eq (ch : List (Option Str × Info)) (rk : Str) : Cfg.route ch rk = Conf.route ch rk := rfl

theorem addValueCore_eq (m : Matcher) (key rk v : Str) (pos : Pos) :
    addValueCore m key rk v pos =
      match route m.ty.children rk with
      | none => .error (plainErr "not a known key name")
      | some (_, .sect _) => .error (plainErr "not a valid key name")
      | some (k, .key ki) =>
        match getSlot m ki.attr with
        | none => .error (.internal "KeyError")
        | some slot => (slotStep ki (k == some ['+']) rk { value := v, pos := pos } slot).map (setSlot m ki.attr) := by
  unfold addValueCore
  rw [search_eq_route, route_eq]
  cases route m.ty.children rk with
  | none => rfl
  | some c =>
    obtain ⟨k, ci⟩ := c
    cases ci with
    | sect si => rfl
    | key ki =>
      simp only
      cases getSlot m ki.attr with
      | none => rfl
      | some slot =>
        cases slot <;> simp only [slotStep] <;> (repeat' split) <;> rfl

/-! ### reading and writing a slot of `mk` -/

theorem find_attr (f : Option Str × Info → Slot) (c0 : Option Str × Info) : ∀ (l : List (Option Str × Info)),
    (l.map (·.2.attr)).Nodup → c0 ∈ l →
    (l.map (fun c => (c.2.attr, f c))).find? (·.1 == c0.2.attr) = some (c0.2.attr, f c0) := by
  intro l
  induction l with
  | nil => intro _ h; cases h
  | cons x l ih =>
    intro hn hm
    simp only [List.map_cons, List.nodup_cons] at hn
    simp only [List.map_cons, List.find?_cons]
    by_cases he : (x.2.attr == c0.2.attr) = true
    · simp only [he]
      have : x = c0 := by
        rcases List.mem_cons.mp hm with h | hm'
        · exact h.symm
        · exfalso
          apply hn.1
          rw [beq_iff_eq.mp he]
          exact List.mem_map_of_mem hm'
      rw [this]
    · simp only [he]
      apply ih hn.2
      rcases List.mem_cons.mp hm with h | hm'
      · exfalso; apply he; rw [h]; exact beq_self_eq_true _
      · exact hm'

theorem getSlot_mk (s : Schema) (t : SType) (nm : Option Str) (kl : List (Option Str × VI)) (secs : List SecR)
    (hT : STypeOK s t) (c0 : Option Str × Info) (hc : c0 ∈ t.children) :
    getSlot (mk s t nm kl secs) c0.2.attr = some (slotFn s t c0 kl secs) := by
  unfold getSlot mk
  simp only
  rw [find_attr _ c0 _ hT.attrs hc]
  rfl

theorem attr_inj (s : Schema) (t : SType) (hT : STypeOK s t) (c c0 : Option Str × Info) (hc : c ∈ t.children)
    (hc0 : c0 ∈ t.children) (h : c.2.attr = c0.2.attr) : c = c0 :=
  nodup_map_inj (fun c : Option Str × Info => c.2.attr) _ hT.attrs c hc c0 hc0 h

theorem setSlot_mk (s : Schema) (t : SType) (nm : Option Str) (kl kl' : List (Option Str × VI)) (secs secs' : List SecR)
    (hT : STypeOK s t) (c0 : Option Str × Info) (hc0 : c0 ∈ t.children) (new : Slot) (used : List Str)
    (h0 : slotFn s t c0 kl' secs' = new)
    (hother : ∀ c ∈ t.children, c.2.attr ≠ c0.2.attr → slotFn s t c kl' secs' = slotFn s t c kl secs)
    (hu : secNames secs' = used) :
    setSlot { mk s t nm kl secs with used := used } c0.2.attr new = mk s t nm kl' secs' := by
  unfold setSlot mk
  simp only [List.map_map, hu, Matcher.mk.injEq, true_and, and_true]
  apply List.map_congr_left
  intro c hc
  simp only [Function.comp]
  by_cases h : c.2.attr = c0.2.attr
  · have := attr_inj s t hT c c0 hc hc0 h
    subst this
    simp [h0]
  · simp [h, hother c hc h]

/-! ### a key line -/

theorem any_fst_eq (rs : List (Str × VI)) (rk : Str) : rs.any (·.1 == rk) = (rs.map (·.1)).contains rk := by
  induction rs with
  | nil => rfl
  | cons a l ih =>
    have : (a.1 == rk) = (rk == a.1) := by
      rw [Bool.eq_iff_iff]; simp only [beq_iff_eq]; exact eq_comm
    simp only [List.any_cons, List.map_cons, List.contains_cons, ih, this]

theorem nodupB_snoc_iff (l : List Str) (x : Str) : nodupB (l ++ [x]) = true ↔ nodupB l = true ∧ x ∉ l := by
  rw [nodupB_iff, nodupB_iff, List.nodup_append]
  constructor
  · intro ⟨h1, _, h3⟩
    exact ⟨h1, fun hx => h3 x hx x (List.mem_singleton.mpr rfl) rfl⟩
  · intro ⟨h1, h2⟩
    refine ⟨h1, by simp, ?_⟩
    intro a ha b hb hab
    rw [List.mem_singleton.mp hb] at hab
    exact h2 (hab ▸ ha)

theorem nodupB_snoc (l : List Str) (x : Str) : nodupB (l ++ [x]) = (nodupB l && !l.contains x) := by
  rw [Bool.eq_iff_iff, nodupB_snoc_iff]
  simp

theorem groupKeys_snoc (rs : List (Str × VI)) (rk : Str) (vi : VI) :
    groupKeys (rs ++ [(rk, vi)]) =
      if (groupKeys rs).any (·.1 == rk) then (groupKeys rs).map (fun p => if p.1 == rk then (p.1, p.2 ++ [vi]) else p)
      else groupKeys rs ++ [(rk, [vi])] := by
  unfold groupKeys
  rw [List.foldl_append]
  rfl

/-- the heart for keys: the slot update is the slot of the extended list, or the extended list overfills the child -/
theorem keySlot_step (ki : KeyInfo) (rs : List (Str × VI)) (rk : Str) (vi : VI) (hov : keyOver ki rs = true) :
    match slotStep ki (ki.name == ['+']) rk vi (keySlot ki rs) with
    | .ok sl => sl = keySlot ki (rs ++ [(rk, vi)]) ∧ keyOver ki (rs ++ [(rk, vi)]) = true
    | .error _ => keyOver ki (rs ++ [(rk, vi)]) = false := by
  unfold keySlot keyOver at *
  by_cases hp : (ki.name == ['+']) = true
  · by_cases hm : ki.multi = true
    · simp only [hp, hm, if_true, slotStep, groupKeys_snoc]
      by_cases ha : (groupKeys rs).any (·.1 == rk) = true
      · simp only [ha, if_true, and_self]
      · simp only [ha, if_false, Bool.false_eq_true, and_self]
    · simp only [hp, hm, if_true, if_false, Bool.false_eq_true, slotStep, any_fst_eq, List.map_append,
        List.map_cons, List.map_nil, nodupB_snoc] at hov ⊢
      by_cases ha : (rs.map (·.1)).contains rk = true
      · simp only [ha, if_true, Bool.not_true, Bool.and_false]
      · simp only [ha, if_false, Bool.false_eq_true, hov, Bool.not_false, Bool.and_self, and_self]
  · by_cases hm : ki.multi = true
    · simp only [hp, hm, if_true, if_false, Bool.false_eq_true, slotStep, List.map_append, List.map_cons, List.map_nil,
        and_self]
    · simp only [hp, hm, if_false, Bool.false_eq_true, decide_eq_true_eq] at hov ⊢
      match rs, hov with
      | [], _ => simp [slotStep, hm]
      | [x], _ => simp [slotStep, hm]
      | x :: y :: l, h => simp at h

theorem route_mem (ch : List (Option Str × Info)) (rk : Str) (c : Option Str × Info) (h : route ch rk = some c) :
    c ∈ ch := by
  unfold route at h
  split at h
  · rename_i c' hf
    cases h
    exact List.mem_of_find?_eq_some hf
  · exact (List.mem_filter.mp (List.mem_of_getLast? h)).1

theorem routed_snoc_some (ch : List (Option Str × Info)) (c : Option Str × Info) (kl : List (Option Str × VI))
    (rk : Str) (vi : VI) (c0 : Option Str × Info) (hr : route ch rk = some c0) :
    routed ch c (kl ++ [(some rk, vi)]) = routed ch c kl ++ (if c0.2.attr == c.2.attr then [(rk, vi)] else []) := by
  rw [routed_append]
  congr 1
  simp only [routed, List.filterMap_cons, List.filterMap_nil, hr]
  by_cases h : (c0.2.attr == c.2.attr) = true
  · simp only [h, if_true]
  · simp only [h, if_false, Bool.false_eq_true]

theorem routed_snoc_none (ch : List (Option Str × Info)) (c : Option Str × Info) (kl : List (Option Str × VI))
    (vi : VI) : routed ch c (kl ++ [(none, vi)]) = routed ch c kl := by
  rw [routed_append]
  simp [routed]

theorem slotFn_of_routed_eq (s : Schema) (t : SType) (c : Option Str × Info) (kl kl' : List (Option Str × VI))
    (secs : List SecR) (h : routed t.children c kl' = routed t.children c kl) :
    slotFn s t c kl' secs = slotFn s t c kl secs := by
  unfold slotFn
  cases c.2 <;> simp only [h]

theorem noOver_of_routed_eq (s : Schema) (t : SType) (c : Option Str × Info) (kl kl' : List (Option Str × VI))
    (subs : List Sub) (h : routed t.children c kl' = routed t.children c kl) :
    noOver s t c kl' subs = noOver s t c kl subs := by
  unfold noOver
  cases c.2 <;> simp only [h]

theorem chk1_snoc (t : SType) (kl : List (Option Str × VI)) (e : Option Str × VI) :
    chk1 t (kl ++ [e]) = (chk1 t kl && chk1 t [e]) := by
  unfold chk1
  rw [List.all_append]

/-- **one key line** against the invariant -/
theorem kv_step (conv : Conv) (s : Schema) (t : SType) (nm : Option Str) (kl : List (Option Str × VI))
    (secs : List SecR) (hT : STypeOK s t) (subs : List Sub) (hg : Good s t kl subs) (k v : Str) (p : Pos) :
    match addValue conv (mk s t nm kl secs) k v p with
    | .ok m' =>
      m' = mk s t nm (kl ++ [((conv.key t.keytype k).toOption, { value := v, pos := p })]) secs ∧
      Good s t (kl ++ [((conv.key t.keytype k).toOption, { value := v, pos := p })]) subs
    | .error _ => ¬ Good s t (kl ++ [((conv.key t.keytype k).toOption, { value := v, pos := p })]) subs := by
  unfold addValue
  have hty : (mk s t nm kl secs).ty = t := rfl
  have hbag : (mk s t nm kl secs).bag = none := rfl
  rw [hty, hbag]
  cases hk : conv.key t.keytype k with
  | error e =>
    simp only [toOption_error]
    intro h
    have := h.c1
    rw [chk1_snoc, Bool.and_eq_true] at this
    simp [chk1] at this
  | ok rk =>
    simp only [toOption_ok]
    rw [addValueCore_eq, hty]
    cases hr : route t.children rk with
    | none =>
      simp only
      intro h
      have := h.c1
      rw [chk1_snoc, Bool.and_eq_true] at this
      simp [chk1, hr] at this
    | some c0 =>
      have hc0 := route_mem _ _ _ hr
      obtain ⟨k0, ci⟩ := c0
      cases ci with
      | sect si =>
        simp only
        intro h
        have := h.c1
        rw [chk1_snoc, Bool.and_eq_true] at this
        simp [chk1, hr, Info.isSection] at this
      | key ki =>
        simp only
        have hgs := getSlot_mk s t nm kl secs hT _ hc0
        simp only [Info.attr] at hgs
        rw [hgs]
        simp only
        have hk0 : k0 = some ki.name := (hT.shape _ hc0).2.2 ki rfl
        have harb : (k0 == some ['+']) = (ki.name == ['+']) := by rw [hk0]; simp
        rw [harb]
        have hsl : slotFn s t (k0, Info.key ki) kl secs = keySlot ki (routed t.children (k0, Info.key ki) kl) := rfl
        rw [hsl]
        have hov : keyOver ki (routed t.children (k0, Info.key ki) kl) = true := hg.over _ hc0
        have step := keySlot_step ki (routed t.children (k0, Info.key ki) kl) rk { value := v, pos := p } hov
        have hrs := routed_snoc_some t.children (k0, Info.key ki) kl rk { value := v, pos := p } _ hr
        simp only [beq_self_eq_true, if_true] at hrs
        cases hst : slotStep ki (ki.name == ['+']) rk { value := v, pos := p }
            (keySlot ki (routed t.children (k0, Info.key ki) kl)) with
        | error e =>
          rw [hst] at step
          simp only at step
          simp only [Except.map]
          intro h
          have := h.over _ hc0
          unfold noOver at this
          simp only [hrs] at this
          rw [step] at this
          cases this
        | ok sl =>
          rw [hst] at step
          simp only at step
          obtain ⟨hsl', hov'⟩ := step
          simp only [Except.map]
          have hother : ∀ c ∈ t.children, c.2.attr ≠ ki.attr →
              routed t.children c (kl ++ [(some rk, { value := v, pos := p })]) = routed t.children c kl := by
            intro c hc hne
            rw [routed_snoc_some t.children c kl rk _ _ hr]
            have : ((k0, Info.key ki).2.attr == c.2.attr) = false := by
              rw [beq_eq_false_iff_ne]
              intro h; exact hne h.symm
            rw [this]
            simp only [Bool.false_eq_true, if_false, List.append_nil]
          refine ⟨?_, ?_⟩
          · have := setSlot_mk s t nm kl (kl ++ [(some rk, { value := v, pos := p })]) secs secs hT
              (k0, Info.key ki) hc0 sl (secNames secs) ?_ ?_ rfl
            · exact this
            · show keySlot ki _ = sl
              rw [hrs, hsl']
            · intro c hc hne
              exact slotFn_of_routed_eq s t c _ _ secs (hother c hc hne)
          · refine ⟨?_, hg.c2, hg.c3, ?_⟩
            · rw [chk1_snoc, hg.c1]
              simp [chk1, hr, Info.isSection]
            · intro c hc
              by_cases hne : c.2.attr = ki.attr
              · have := attr_inj s t hT c (k0, Info.key ki) hc hc0 hne
                subst this
                unfold noOver
                simp only [hrs]
                exact hov'
              · rw [noOver_of_routed_eq s t c _ _ subs (hother c hc hne)]
                exact hg.over c hc

/-! ### a closed section -/

theorem subNames_map (conv : Conv) (s : Schema) (secs : List SecR) :
    subNames (secs.map (toSub conv s)) = secNames secs := by
  induction secs with
  | nil => rfl
  | cons r l ih =>
    unfold subNames secNames at *
    rw [List.map_cons, List.filterMap_cons, List.flatMap_cons, ih]
    simp only [toSub, newName]
    cases r.nm with
    | none => rfl
    | some n => cases n <;> rfl

theorem secNames_snoc (secs : List SecR) (r : SecR) : secNames (secs ++ [r]) = secNames secs ++ newName r.nm := by
  simp [secNames, List.flatMap_append]

theorem filter_toSub (conv : Conv) (s : Schema) (t : SType) (a : Str) (secs : List SecR) :
    (secs.map (toSub conv s)).filter (fun sb => owned s t a sb.ty sb.nm) =
      (secs.filter (fun r => owned s t a r.ty r.nm)).map (toSub conv s) := by
  rw [List.filter_map]
  rfl

theorem filter_snoc {α} (p : α → Bool) (l : List α) (x : α) :
    (l ++ [x]).filter p = l.filter p ++ (if p x then [x] else []) := by
  rw [List.filter_append]
  congr 1
  by_cases h : p x = true <;> simp [h]

theorem chk3'_snoc (s : Schema) (t : SType) (subs : List Sub) (sb : Sub) :
    chk3' s t (subs ++ [sb]) = (chk3' s t subs && chk3' s t [sb]) := by
  unfold chk3'
  rw [List.all_append]

theorem nodupB_append_newName (l : List Str) (nm : Option Str) :
    nodupB (l ++ newName nm) = (nodupB l && !(newName nm).any (fun n => l.contains n)) := by
  unfold newName
  cases nm with
  | none => simp
  | some n =>
    by_cases hn : (n != []) = true
    · simp only [hn, if_true, nodupB_snoc, List.any_cons, List.any_nil, Bool.or_false]
    · simp [hn]

/-- **one closed section** against the invariant -/
theorem sect_step (conv : Conv) (s : Schema) (t : SType) (nm : Option Str) (kl : List (Option Str × VI))
    (secs : List SecR) (hT : STypeOK s t) (hg : Good s t kl (secs.map (toSub conv s))) (r : SecR) (ci : SectInfo)
    (hgi : getsectioninfo s t r.ty r.nm = .ok ci)
    (hc3 : (nameOK ci r.nm && (r.nm.isSome || ci.name == ['*']) && !isAbs s r.ty) = true) :
    match addSection s (mk s t nm kl secs) r.ty r.nm r.raw with
    | .ok m' => m' = mk s t nm kl (secs ++ [r]) ∧ Good s t kl ((secs ++ [r]).map (toSub conv s))
    | .error _ => ¬ Good s t kl ((secs ++ [r]).map (toSub conv s)) := by
  have hslot : slotOf s t r.ty r.nm = some ci := by
    rw [← getsectioninfo_eq_slotOf s t r.ty r.nm hT, hgi]; rfl
  obtain ⟨k, hc0⟩ := slotOf_mem _ _ _ _ _ hslot
  rw [addSection_eq]
  have hty : (mk s t nm kl secs).ty = t := rfl
  have hused : (mk s t nm kl secs).used = secNames secs := rfl
  rw [hty, hused, hgi]
  have hmap : (secs ++ [r]).map (toSub conv s) = secs.map (toSub conv s) ++ [toSub conv s r] := by simp
  have hc2 : nodupB (subNames ((secs ++ [r]).map (toSub conv s))) =
      (nodupB (secNames secs) && !(newName r.nm).any (fun n => (secNames secs).contains n)) := by
    rw [subNames_map, secNames_snoc, nodupB_append_newName]
  have hown : owned s t ci.attr r.ty r.nm = true := by simp [owned, hslot]
  have hownO : ∀ a, a ≠ ci.attr → owned s t a r.ty r.nm = false := by
    intro a ha
    simp only [owned, hslot, beq_eq_false_iff_ne]
    exact fun h => ha h.symm
  -- Good for the extended list, given the slot is not overfilled
  have hgood : (newName r.nm).any (fun n => (secNames secs).contains n) = false →
      sectOver ci ((secs.filter (fun r => owned s t ci.attr r.ty r.nm)).length + 1) = true →
      Good s t kl ((secs ++ [r]).map (toSub conv s)) := by
    intro hcl hov
    refine ⟨hg.c1, ?_, ?_, ?_⟩
    · rw [hc2, hcl]
      have := hg.c2
      rw [subNames_map] at this
      simp [this]
    · rw [hmap, chk3'_snoc, hg.c3]
      simp only [chk3', List.all_cons, List.all_nil, toSub, hslot, Bool.and_true, Bool.true_and]
      exact hc3
    · intro c hc
      have hold := hg.over c hc
      unfold noOver at hold ⊢
      cases hc2 : c.2 with
      | key ki => rw [hc2] at hold; exact hold
      | sect si =>
        rw [hc2] at hold
        simp only [filter_toSub, List.length_map] at hold ⊢
        rw [filter_snoc]
        by_cases hne : si.attr = ci.attr
        · have hcc := attr_inj s t hT c (k, Info.sect ci) hc hc0 (by rw [hc2]; exact hne)
          rw [hcc] at hc2
          cases hc2
          rw [hown]
          simpa using hov
        · rw [hownO _ hne]
          simpa using hold
  by_cases hclash : (newName r.nm).any (fun n => (secNames secs).contains n) = true
  · simp only [hclash, if_true]
    intro h
    have := h.c2
    rw [hc2, hclash] at this
    simp at this
  · have hclash' : (newName r.nm).any (fun n => (secNames secs).contains n) = false := by simpa using hclash
    simp only [hclash, if_false, Bool.false_eq_true]
    have hgs := getSlot_mk s t nm kl secs hT _ hc0
    simp only [Info.attr] at hgs
    rw [hgs]
    have hsl : slotFn s t (k, Info.sect ci) kl secs = sectSlot ci (secs.filter fun r => owned s t ci.attr r.ty r.nm) := rfl
    rw [hsl]
    have hset : ∀ new, sectSlot ci ((secs.filter fun r => owned s t ci.attr r.ty r.nm) ++ [r]) = new →
        setSlot { mk s t nm kl secs with used := secNames secs ++ newName r.nm } ci.attr new = mk s t nm kl (secs ++ [r]) := by
      intro new hnew
      refine setSlot_mk s t nm kl kl secs (secs ++ [r]) hT (k, Info.sect ci) hc0 new _ ?_ ?_ (secNames_snoc secs r)
      · show sectSlot ci _ = new
        rw [filter_snoc, hown]
        exact hnew
      · intro c hc hne
        unfold slotFn
        cases hc2 : c.2 with
        | key ki => rfl
        | sect si =>
          simp only
          rw [filter_snoc, hownO]
          · simp
          · intro h
            apply hne
            rw [hc2]
            exact h
    by_cases hm : ci.multi = true
    · simp only [sectSlot, hm, if_true]
      refine ⟨?_, hgood hclash' (by simp [sectOver, hm])⟩
      exact hset _ (by simp [sectSlot, hm])
    · match hmine : secs.filter (fun r => owned s t ci.attr r.ty r.nm) with
      | [] =>
        simp only [sectSlot, hm, if_false, Bool.false_eq_true, hmine]
        rw [hmine] at hset
        refine ⟨hset _ (by simp [sectSlot, hm]), hgood hclash' ?_⟩
        rw [hmine]
        simp [sectOver]
      | r0 :: rest =>
        simp only [sectSlot, hm, if_false, Bool.false_eq_true, hmine]
        intro h
        have := h.over _ hc0
        unfold noOver at this
        simp only [filter_toSub, List.length_map, filter_snoc, hown, hmine, sectOver, hm] at this
        simp at this

end ZCV.Conf
