import ZCV.Lemmas.LoggerReg
/-!
C20 — exact effect of `reopenFiles` / `closeFiles` in a reachable registry, and the fate of handlers that are no longer live.
-/
namespace ZCV.Log
open ZCV

theorem logreg_live_and_alive (a : H) : (a.live && a.alive) = a.live := by
  unfold H.live; cases a.alive <;> cases a.closed <;> rfl

/-- `reopenFiles` in a state satisfying the invariant: exactly the live handlers get `reopened + 1` -/
theorem logreg_reopen_handlers {r : Reg} (hr : RegInv r) :
    (stepReg r .reopenFiles).handlers =
      r.handlers.map (fun h => if h.live then { h with reopened := h.reopened + 1 } else h) := by
  simp only [stepReg]
  apply List.map_congr_left
  intro a ha
  rw [hr.contains_iff ha, logreg_live_and_alive]

/-- `closeFiles` in a state satisfying the invariant: exactly the live handlers get closed -/
theorem logreg_close_handlers {r : Reg} (hr : RegInv r) :
    (stepReg r .closeFiles).handlers = r.handlers.map (fun h => if h.live then { h with closed := true } else h) := by
  simp only [stepReg]
  apply List.map_congr_left
  intro a ha
  rw [hr.contains_iff ha, logreg_live_and_alive]

theorem logreg_closeFiles_of_empty {r : Reg} (h : r.registry = []) : stepReg r .closeFiles = r := by
  cases r with
  | mk hs reg =>
    simp only at h
    subst h
    simp only [stepReg, List.contains_nil, Bool.false_and, Bool.false_eq_true, ↓reduceIte, List.map_id']

theorem logreg_reopenFiles_of_empty {r : Reg} (h : r.registry = []) : stepReg r .reopenFiles = r := by
  cases r with
  | mk hs reg =>
    simp only at h
    subst h
    simp only [stepReg, List.contains_nil, Bool.false_and, Bool.false_eq_true, ↓reduceIte, List.map_id', List.filter_nil]

/-- the relation "the later state `b` of a handler `a` that was not live": identity, reopen counter and closed flag are
    frozen; the only thing that can still happen is that the last reference goes away -/
def H.frozenTo (a b : H) : Prop :=
  b.id = a.id ∧ b.reopened = a.reopened ∧ b.closed = a.closed ∧ (b.alive = true → a.alive = true)

theorem H.frozenTo_refl (a : H) : a.frozenTo a := ⟨rfl, rfl, rfl, fun h => h⟩

theorem H.frozenTo_trans {a b c : H} (h1 : a.frozenTo b) (h2 : b.frozenTo c) : a.frozenTo c :=
  ⟨h2.1.trans h1.1, h2.2.1.trans h1.2.1, h2.2.2.1.trans h1.2.2.1, fun h => h1.2.2.2 (h2.2.2.2 h)⟩

theorem H.frozenTo_live {a b : H} (h : a.frozenTo b) (ha : a.live = false) : b.live = false := by
  obtain ⟨_, _, hc, hal⟩ := h
  unfold H.live at ha ⊢
  rw [hc]
  cases hb : b.alive
  · rfl
  · rw [hal hb] at ha; exact ha

/-- one operation leaves a non-live handler where it is, frozen -/
theorem logreg_step_dead {r : Reg} (hr : RegInv r) (op : Op) (i : Nat) (a : H) (hi : r.handlers[i]? = some a)
    (hd : a.live = false) : ∃ b, (stepReg r op).handlers[i]? = some b ∧ a.frozenTo b := by
  have hmem : a ∈ r.handlers := List.mem_of_getElem? hi
  have hlt : i < r.handlers.length := (List.getElem?_eq_some_iff.1 hi).1
  have hupd : ∀ (j : Nat) (f : H → H), (a.id = j → a.frozenTo (f a)) →
      ∃ b, (updH r.handlers j f)[i]? = some b ∧ a.frozenTo b := by
    intro j f hf
    refine ⟨if a.id == j then f a else a, ?_, ?_⟩
    · simp only [updH, List.getElem?_map, hi, Option.map_some]
    · split
      · rename_i hj
        exact hf (by simpa using hj)
      · exact a.frozenTo_refl
  cases op with
  | create =>
    refine ⟨a, ?_, a.frozenTo_refl⟩
    simp only [stepReg]
    rw [List.getElem?_append_left hlt, hi]
  | drop j =>
    simp only [stepReg]
    exact hupd j _ (fun _ => ⟨rfl, rfl, rfl, fun hh => by cases hh⟩)
  | close j =>
    simp only [stepReg]
    split
    · split
      · rename_i h0 hget halive
        refine hupd j _ (fun hj => ⟨rfl, rfl, ?_, id⟩)
        have h0a : h0 = a := hr.uniq (logreg_getH_some hget).1 hmem ((logreg_getH_some hget).2.trans hj.symm)
        subst h0a
        simp only [H.live, halive, Bool.true_and, Bool.not_eq_false'] at hd
        exact hd.symm
      · exact ⟨a, hi, a.frozenTo_refl⟩
    · exact ⟨a, hi, a.frozenTo_refl⟩
  | reopenFiles =>
    refine ⟨a, ?_, a.frozenTo_refl⟩
    rw [logreg_reopen_handlers hr]
    simp only [List.getElem?_map, hi, Option.map_some, hd, Bool.false_eq_true, ↓reduceIte]
  | closeFiles =>
    refine ⟨a, ?_, a.frozenTo_refl⟩
    rw [logreg_close_handlers hr]
    simp only [List.getElem?_map, hi, Option.map_some, hd, Bool.false_eq_true, ↓reduceIte]

/-- any number of operations leave a non-live handler where it is, frozen -/
theorem logreg_foldl_dead (ops : List Op) {r : Reg} (hr : RegInv r) (i : Nat) (a : H) (hi : r.handlers[i]? = some a)
    (hd : a.live = false) : ∃ b, (ops.foldl stepReg r).handlers[i]? = some b ∧ a.frozenTo b := by
  induction ops generalizing r a with
  | nil => exact ⟨a, hi, a.frozenTo_refl⟩
  | cons op rest ih =>
    obtain ⟨b, hb, hab⟩ := logreg_step_dead hr op i a hi hd
    obtain ⟨c, hc, hbc⟩ := ih (regInv_step hr op) b hb (H.frozenTo_live hab hd)
    exact ⟨c, hc, H.frozenTo_trans hab hbc⟩

theorem logreg_not_registered {r : Reg} (hr : RegInv r) {a : H} (ha : a ∈ r.handlers) (hd : a.live = false) :
    a.id ∉ r.registry := by
  intro hm
  have := hr.contains_iff ha
  rw [hd, List.contains_iff_mem.2 hm] at this
  cases this

end ZCV.Log
