import ZCV.Lemmas.ElabExpandStart
/-!
C11 (`extends` = written-out expansion), step 9: what `start_sectiontype` without `extends` leaves behind — a fresh,
childless type on top of the stack.
-/
namespace ZCV.Elab
open ZCV ZCV.Cfg

/-- the concrete entry found under `n` (if any) is still found, unchanged -/
def ConcSame (n : Str) (es es' : ES) : Prop :=
  ∀ q t, es.types.find? (·.1 == n) = some (q, .concrete t) → es'.types.find? (·.1 == n) = some (q, .concrete t)

theorem ConcSame.refl (n : Str) (es : ES) : ConcSame n es es := fun _ _ h => h
theorem ConcSame.trans {n : Str} {a b c : ES} (h1 : ConcSame n a b) (h2 : ConcSame n b c) : ConcSame n a c :=
  fun q t h => h2 q t (h1 q t h)
theorem ConcSame.of_types_eq {n : Str} {a b : ES} (h : b.types = a.types) : ConcSame n a b := by
  intro q t hf; rw [h]; exact hf

theorem concSame_updType (es : ES) {n D : Str} (hne : n ≠ D) (f : EType → EType) : ConcSame n es (es.updType D f) := by
  intro q t hf
  unfold ES.updType
  simp only
  rw [find_map_key _ _ (by intro ⟨k, e⟩; dsimp only; split <;> rfl), hf]
  have hq : q = n := by simpa using List.find?_some hf
  have : (q == D) = false := by rw [hq]; simpa using hne
  simp only [Option.map_some, this, Bool.false_eq_true, ↓reduceIte]

/-- a rewrite that leaves concrete entries alone -/
theorem concSame_map (es : ES) (n : Str) (g : Str × EEntry → Str × EEntry) (hk : ∀ p, (g p).1 = p.1)
    (hc : ∀ k t, g (k, .concrete t) = (k, .concrete t)) : ConcSame n es { es with types := es.types.map g } := by
  intro q t hf
  show (es.types.map g).find? _ = _
  rw [find_map_key _ g hk, hf]
  simp [hc]

theorem concSame_append (es : ES) (n : Str) (l : List (Str × EEntry)) : ConcSame n es { es with types := es.types ++ l } := by
  intro q t hf
  show (es.types ++ l).find? _ = _
  rw [List.find?_append, hf]
  rfl

theorem concSame_setTopOf (es : ES) (n : Str) (stack : List Frame) (ch : List (Option Str × EInfo))
    (hne : ∀ D r, stack = .stype D :: r → n ≠ D) : ConcSame n es (setTopOf es stack ch) := by
  cases stack with
  | nil => exact ConcSame.refl _ _
  | cons f r =>
    cases f with
    | schema => exact ConcSame.of_types_eq rfl
    | stype D => exact concSame_updType es (hne D r rfl) _
    | atype m => exact ConcSame.refl _ _
    | key k => exact ConcSame.refl _ _
    | sect a b => exact ConcSame.refl _ _

/-- the type table has exactly one entry called `name`: a concrete type without children -/
structure FreshEntry (es : ES) (name kt dt : Str) : Prop where
  find : ∃ t, es.types.find? (·.1 == name) = some (name, .concrete t) ∧ t.children = [] ∧ t.keytype = kt ∧ t.datatype = dt
  only : ∀ p ∈ es.types, p.1 = name → ∃ t, p.2 = .concrete t ∧ t.children = []

theorem FreshEntry.addType {es es' : ES} {name kt dt : Str}
    (h : addType es name (.concrete { name := some name, keytype := kt, datatype := dt }) = .ok es') :
    FreshEntry es' name kt dt := by
  obtain ⟨hnew, rfl⟩ := addType_eff h
  rw [List.any_eq_false] at hnew
  refine ⟨⟨{ name := some name, keytype := kt, datatype := dt }, ?_, rfl, rfl, rfl⟩, ?_⟩
  · show (es.types ++ [_]).find? _ = _
    have hnone : es.types.find? (·.1 == name) = none := by
      rw [List.find?_eq_none]; intro p hp; exact hnew p hp
    rw [List.find?_append, hnone]
    simp
  · intro p hp hpn
    rcases List.mem_append.mp hp with hp | hp
    · exact absurd (by simpa using hpn) (hnew p hp)
    · simp only [List.mem_singleton] at hp
      subst hp
      exact ⟨_, rfl, rfl⟩

/-- a rewrite of the abstract entries keeps the fresh entry -/
theorem FreshEntry.mapAbstract {es : ES} {name kt dt : Str} (h : FreshEntry es name kt dt) (g : Str × EEntry → Str × EEntry)
    (hk : ∀ p, (g p).1 = p.1) (hc : ∀ k t, g (k, .concrete t) = (k, .concrete t)) :
    FreshEntry { es with types := es.types.map g } name kt dt := by
  obtain ⟨⟨t, hf, ht1, ht2⟩, honly⟩ := h
  refine ⟨⟨t, ?_, ht1, ht2⟩, ?_⟩
  · show (es.types.map g).find? _ = _
    rw [find_map_key _ g hk, hf]
    simp [hc]
  · intro p hp hpn
    simp only [List.mem_map] at hp
    obtain ⟨p0, hp0, rfl⟩ := hp
    rw [hk] at hpn
    obtain ⟨t0, ht0, hch0⟩ := honly p0 hp0 hpn
    obtain ⟨k0, e0⟩ := p0
    simp only at ht0
    subst ht0
    exact ⟨t0, by rw [hc], hch0⟩

theorem implStep_fresh {a : Attrs} {name kt dt : Str} {es2 es3 : ES} (h : implStep a name es2 = .ok es3)
    (hf : FreshEntry es2 name kt dt) : FreshEntry es3 name kt dt ∧ Grows es2 es3 ∧ ∀ n, ConcSame n es2 es3 := by
  unfold implStep at h
  split at h
  · rw [bind_ok] at h
    obtain ⟨ifn, _, h⟩ := h
    split at h
    · cases h
    · cases h
    · simp only [pure, Except.pure, Except.ok.injEq] at h
      subst h
      refine ⟨hf.mapAbstract _ ?_ ?_, Grows.map es2 _ ?_, fun n => concSame_map es2 n _ ?_ ?_⟩
      · intro ⟨k, e⟩; dsimp only; split <;> rfl
      · intro k t; dsimp only; split <;> rfl
      · intro ⟨k, e⟩; dsimp only; split <;> rfl
      · intro ⟨k, e⟩; dsimp only; split <;> rfl
      · intro k t; dsimp only; split <;> rfl
  · simp only [pure, Except.pure, Except.ok.injEq] at h
    subst h
    exact ⟨hf, Grows.refl _, fun n => ConcSame.refl _ _⟩

theorem FreshEntry.topOf {es : ES} {name kt dt : Str} (h : FreshEntry es name kt dt) (r : List Frame) :
    topOf es (.stype name :: r) = .ok [] ∧ ktOf es (.stype name :: r) = .ok kt := by
  obtain ⟨⟨t, hf, ht1, ht2, _⟩, _⟩ := h
  unfold Elab.topOf ktOf
  simp only [hf, ht1, ht2, and_self]

/-- giving the fresh type "no children" changes nothing -/
theorem FreshEntry.setTop_nil {es : ES} {name kt dt : Str} (h : FreshEntry es name kt dt) (r : List Frame) :
    setTopOf es (.stype name :: r) [] = es := by
  show ES.updType es name _ = es
  unfold ES.updType
  have honly := h.only
  cases es with
  | mk types top handler comps =>
    simp only [ES.mk.injEq, and_true]
    conv => rhs; rw [← List.map_id types]
    apply List.map_congr_left
    intro ⟨k, e⟩ hp
    dsimp only
    by_cases hk : (k == name) = true
    · simp only [hk, ↓reduceIte]
      obtain ⟨t, ht, hch⟩ := honly (k, e) hp (by simpa using hk)
      simp only at ht
      subst ht
      simp only [id]
      rw [← hch]
    · simp only [hk, Bool.false_eq_true, ↓reduceIte, id]

/-- **`start_sectiontype` without `extends`**: a fresh childless type is on top of the stack -/
theorem startSectiontype_fresh {env : Env} {S0 s' : PSt} {a : Attrs} (hext : attr a "extends" = none)
    (h : startSectiontype env S0 a = .ok s') :
    ∃ name st1 kt dt, pushPrefix S0 a = .ok st1 ∧ getSectTypeinfo env st1 a none = .ok (kt, dt) ∧
      s'.stack = .stype name :: S0.stack ∧ s'.prefixes = st1.prefixes ∧ FreshEntry s'.es name kt dt ∧ Grows S0.es s'.es ∧
      (∀ n, ConcSame n S0.es s'.es) ∧ (∃ nm, attr a "name" = some nm ∧ basicKeyE nm = .ok name) ∧
      S0.es.types.any (·.1 == name) = false := by
  rw [startSectiontype_eq_steps] at h
  split at h
  · rename_i c0 cs0 hname
    rw [bind_ok] at h
    obtain ⟨name, hbk, h⟩ := h
    rw [bind_ok] at h
    obtain ⟨st1, hpp, h⟩ := h
    rw [bind_ok] at h
    obtain ⟨es2, he2, h⟩ := h
    rw [bind_ok] at h
    obtain ⟨es3, he3, h⟩ := h
    simp only [pure, Except.pure, Except.ok.injEq] at h
    subst h
    unfold stypeEntry at he2
    rw [hext] at he2
    simp only at he2
    rw [bind_ok] at he2
    obtain ⟨⟨kt, dt⟩, hti, he2⟩ := he2
    simp only at he2
    obtain ⟨x, hst1⟩ := pushPrefix_eff hpp
    have hf2 := FreshEntry.addType he2
    obtain ⟨hf3, hg3, hc3⟩ := implStep_fresh he3 hf2
    obtain ⟨hnew, hes2⟩ := addType_eff he2
    refine ⟨name, st1, kt, dt, hpp, hti, by rw [hst1], rfl, hf3, ?_, ?_, ⟨_, hname, hbk⟩, by rw [hst1] at hnew; exact hnew⟩
    · have : Grows st1.es es2 := addType_grows he2
      rw [hst1] at this
      exact this.trans hg3
    · intro n
      have : ConcSame n st1.es es2 := by rw [hes2]; exact concSame_append _ _ _
      rw [hst1] at this
      exact this.trans (hc3 n)
  · cases h

end ZCV.Elab
