import ZCV.Spec.Timedelta
import ZCV.Lemmas.Datatypes2Float
import ZCV.Lemmas.Datatypes2Split
/-!
`timedelta`: the loop of the model computes the contract `DTSpec.IsTimedelta`.
-/
namespace ZCV.DT
open ZCV ZCV.DTSpec

/-- the assignments of the loop over well-formed parts, starting from `acc` -/
def tdOver (acc : TimedeltaVal) (parts : List TdPart) : TimedeltaVal :=
  { weeks := (tdAmount 'w' parts).or acc.weeks, days := (tdAmount 'd' parts).or acc.days,
    hours := (tdAmount 'h' parts).or acc.hours, minutes := (tdAmount 'm' parts).or acc.minutes,
    seconds := (tdAmount 's' parts).or acc.seconds }

theorem td_amount_nil (u : Char) : tdAmount u [] = none := rfl

theorem td_amount_cons (u : Char) (p : TdPart) (ps : List TdPart) :
    tdAmount u (p :: ps) = (tdAmount u ps).or (if p.2 == u then some p.1 else none) := by
  unfold tdAmount
  rw [List.reverse_cons, List.find?_append]
  cases hf : List.find? (fun p => p.2 == u) ps.reverse with
  | some q => simp
  | none =>
    by_cases hu : (p.2 == u) = true
    · simp [List.find?, hu]
    · simp [List.find?, hu]

theorem td_over_nil (acc : TimedeltaVal) : tdOver acc [] = acc := by
  cases acc; simp [tdOver, td_amount_nil]

theorem td_over_empty (parts : List TdPart) : tdOver {} parts = tdValue parts := by
  simp [tdOver, tdValue]

theorem td_over_cons (acc : TimedeltaVal) (p : TdPart) (ps : List TdPart) :
    tdOver (tdOver acc [p]) ps = tdOver acc (p :: ps) := by
  simp only [tdOver, td_amount_cons _ p ps, td_amount_cons _ p [], td_amount_nil, Option.none_or, Option.or_assoc]

theorem td_assign_good (acc : TimedeltaVal) (p : TdPart) (h : p.2 ∈ tdUnits) :
    tdAssign acc p.2 p.1 = .ok (tdOver acc [p]) := by
  obtain ⟨lit, u⟩ := p
  simp only [tdUnits, List.mem_cons, List.not_mem_nil, or_false] at h
  rcases h with rfl | rfl | rfl | rfl | rfl <;> rfl

theorem td_assign_bad (acc : TimedeltaVal) (u : Char) (lit : Str) (h : u ∉ tdUnits) :
    tdAssign acc u lit = .error .typeError := by
  simp only [tdUnits, List.mem_cons, List.not_mem_nil, or_false, not_or] at h
  obtain ⟨h1, h2, h3, h4, h5⟩ := h
  simp [tdAssign, h1, h2, h3, h4, h5]

theorem td_floatOk_nil : floatOk [] = false := by decide

/-- one step of the loop on a well-formed part -/
theorem td_loop_step (acc : TimedeltaVal) (p : TdPart) (rest : List Str) (h : TdGood p) :
    timedeltaLoop (tdText p :: rest) acc = timedeltaLoop rest (tdOver acc [p]) := by
  rw [timedeltaLoop]
  simp only [tdText, List.dropLast_concat, (dt2_floatOk_iff p.1).mpr h.1, Bool.not_true, Bool.false_eq_true,
    if_false, List.getLast?_concat, td_assign_good acc p h.2]

/-- the loop runs through a prefix of well-formed parts, assigning their amounts -/
theorem td_loop_good (good : List TdPart) (acc : TimedeltaVal) (rest : List Str) (h : ∀ p ∈ good, TdGood p) :
    timedeltaLoop (good.map tdText ++ rest) acc = timedeltaLoop rest (tdOver acc good) := by
  induction good generalizing acc with
  | nil => rw [td_over_nil]; rfl
  | cons p ps ih =>
    rw [List.map_cons, List.cons_append, td_loop_step acc p _ (h p (List.mem_cons_self ..)),
      ih _ (fun q hq => h q (List.mem_cons_of_mem _ hq)), td_over_cons]

theorem td_dropLast_getLast (w : Str) (hw : w ≠ []) : ∃ u, w.getLast? = some u ∧ w = w.dropLast ++ [u] := by
  refine ⟨w.getLast hw, List.getLast?_eq_some_getLast hw, ?_⟩
  exact (List.dropLast_concat_getLast hw).symm

/-- a word that is not "float literal + one character" stops the loop with `ValueError` -/
theorem td_loop_badAmount (acc : TimedeltaVal) (w : Str) (rest : List Str)
    (h : ¬ ∃ lit u, w = lit ++ [u] ∧ FloatLit lit) : timedeltaLoop (w :: rest) acc = .error .valueError := by
  rw [timedeltaLoop]
  cases hf : floatOk w.dropLast with
  | false => rfl
  | true =>
    exfalso
    have hw : w ≠ [] := by
      rintro rfl
      rw [List.dropLast_nil, td_floatOk_nil] at hf; cases hf
    obtain ⟨u, _, hu⟩ := td_dropLast_getLast w hw
    exact h ⟨w.dropLast, u, hu, (dt2_floatOk_iff _).mp hf⟩

/-- a float literal followed by a character that is no unit letter stops the loop with `TypeError` -/
theorem td_loop_badUnit (acc : TimedeltaVal) (lit : Str) (u : Char) (rest : List Str)
    (hl : FloatLit lit) (hu : u ∉ tdUnits) : timedeltaLoop ((lit ++ [u]) :: rest) acc = .error .typeError := by
  rw [timedeltaLoop]
  simp only [List.dropLast_concat, (dt2_floatOk_iff lit).mpr hl, Bool.not_true, Bool.false_eq_true,
    if_false, List.getLast?_concat, td_assign_bad acc u lit hu]

/-- every list of non-empty words is: all well-formed parts; or well-formed parts up to a first word that is not a
    float literal plus one character; or up to a first word that is a float literal plus a non-unit character -/
theorem td_classify (ws : List Str) (hne : ∀ w ∈ ws, w ≠ []) :
    (∃ parts : List TdPart, ws = parts.map tdText ∧ ∀ p ∈ parts, TdGood p) ∨
    (∃ (good : List TdPart) (w : Str) (rest : List Str), ws = good.map tdText ++ w :: rest ∧ (∀ p ∈ good, TdGood p) ∧
      ¬ ∃ lit u, w = lit ++ [u] ∧ FloatLit lit) ∨
    (∃ (good : List TdPart) (lit : Str) (u : Char) (rest : List Str), ws = good.map tdText ++ (lit ++ [u]) :: rest ∧
      (∀ p ∈ good, TdGood p) ∧ FloatLit lit ∧ u ∉ tdUnits) := by
  induction ws with
  | nil => exact Or.inl ⟨[], rfl, fun p hp => by cases hp⟩
  | cons w ws ih =>
    have ih := ih (fun x hx => hne x (List.mem_cons_of_mem _ hx))
    obtain ⟨u, _, hu⟩ := td_dropLast_getLast w (hne w (List.mem_cons_self ..))
    by_cases hl : FloatLit w.dropLast
    · by_cases hm : u ∈ tdUnits
      · -- a well-formed part: prepend it to the analysis of the rest
        have hg : TdGood (w.dropLast, u) := ⟨hl, hm⟩
        have hall : ∀ (good : List TdPart), (∀ p ∈ good, TdGood p) → ∀ p ∈ (w.dropLast, u) :: good, TdGood p := by
          intro good h p hp
          rcases List.mem_cons.mp hp with rfl | hp
          · exact hg
          · exact h p hp
        have htx : tdText (w.dropLast, u) = w := hu.symm
        rcases ih with ⟨parts, rfl, hp⟩ | ⟨good, w', rest, rfl, hp, hb⟩ | ⟨good, lit, u', rest, rfl, hp, hb1, hb2⟩
        · exact Or.inl ⟨(w.dropLast, u) :: parts, by rw [List.map_cons, htx], hall parts hp⟩
        · exact Or.inr (Or.inl ⟨(w.dropLast, u) :: good, w', rest, by rw [List.map_cons, htx]; rfl, hall good hp, hb⟩)
        · exact Or.inr (Or.inr ⟨(w.dropLast, u) :: good, lit, u', rest, by rw [List.map_cons, htx]; rfl,
            hall good hp, hb1, hb2⟩)
      · exact Or.inr (Or.inr ⟨[], w.dropLast, u, ws, by rw [← hu]; rfl, (fun p hp => by cases hp), hl, hm⟩)
    · refine Or.inr (Or.inl ⟨[], w, ws, rfl, (fun p hp => by cases hp), ?_⟩)
      rintro ⟨lit, u', hw, hlit⟩
      apply hl
      rw [hw, List.dropLast_concat]; exact hlit

/-- **`timedelta` computes its contract** (up to the arithmetic of the `datetime.timedelta` constructor) -/
theorem td_timedelta_spec (s : Str) (r : R TimedeltaVal) : timedelta s = r ↔ IsTimedelta s r := by
  constructor
  · rintro rfl
    have hw : Words s (splitWS s) := (dt2_splitWS_iff s _).mpr rfl
    have hne : ∀ w ∈ splitWS s, w ≠ [] := fun w hw' => (dt2_words_elems s _ hw w hw').1
    unfold timedelta
    rcases td_classify (splitWS s) hne with ⟨parts, he, hp⟩ | ⟨good, w, rest, he, hp, hb⟩ |
        ⟨good, lit, u, rest, he, hp, hb1, hb2⟩
    · have := td_loop_good parts {} [] hp
      rw [List.append_nil] at this
      rw [he, this, td_over_empty]
      rw [he] at hw
      exact IsTimedelta.ok parts hw hp
    · rw [he, td_loop_good good {} _ hp, td_loop_badAmount _ w rest hb]
      rw [he] at hw
      exact IsTimedelta.badAmount good w rest hw hp hb
    · rw [he, td_loop_good good {} _ hp, td_loop_badUnit _ lit u rest hb1 hb2]
      rw [he] at hw
      exact IsTimedelta.badUnit good lit u rest hw hp hb1 hb2
  · intro h
    unfold timedelta
    cases h with
    | ok parts hw hp =>
      have := td_loop_good parts {} [] hp
      rw [List.append_nil] at this
      rw [(dt2_splitWS_iff s _).mp hw, this, td_over_empty]
      rfl
    | badAmount good w rest hw hp hb =>
      rw [(dt2_splitWS_iff s _).mp hw, td_loop_good good {} _ hp, td_loop_badAmount _ w rest hb]
    | badUnit good lit u rest hw hp hb1 hb2 =>
      rw [(dt2_splitWS_iff s _).mp hw, td_loop_good good {} _ hp, td_loop_badUnit _ lit u rest hb1 hb2]

/-- the three outcomes of the contract are the only ones -/
theorem td_isTimedelta_total (s : Str) (r : R TimedeltaVal) (h : IsTimedelta s r) :
    (∃ v, r = .ok v) ∨ r = .error .valueError ∨ r = .error .typeError := by
  cases h with
  | ok parts _ _ => exact Or.inl ⟨_, rfl⟩
  | badAmount => exact Or.inr (Or.inl rfl)
  | badUnit => exact Or.inr (Or.inr rfl)

end ZCV.DT
