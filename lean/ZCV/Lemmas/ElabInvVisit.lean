import ZCV.Lemmas.ElabInvDoc
/-!
The tree walk (`visitElem` / `visitChildren`) keeps the invariant, for hooks that keep it; `hooks env fuel` do.
-/
namespace ZCV.Elab
open ZCV ZCV.Cfg

/-- hooks (nested documents) that keep the invariant -/
structure HooksOK (h : Hooks) : Prop where
  load : ∀ es tree es', ESInv es → h.loadComponent es tree = .ok es' → ESInv es' ∧ Grows es es'
  extend : ∀ es tree es', ESInv es → h.extendSchema es tree = .ok es' → ESInv es' ∧ Grows es es'

/-- the schema object a base-schema document starts from is well-formed -/
def DocOK : DocKind → Prop
  | .schema (some es) => ESInv es
  | _ => True

/-- the state a document starts from is below the schema object it continues (only asked of the root element) -/
def DocGrow : DocKind → ES → Prop
  | .schema (some es), base => Grows base es
  | .schema none, base => base.types = []
  | .component, _ => True

def isComp : DocKind → Bool
  | .component => true
  | _ => false

/-- the three ways an element can be processed successfully -/
theorem visitElem_cases {env : Env} {h : Hooks} {d : DocKind} {parent : Option Str} {st st' : PSt} {t : Str} {a : Attrs}
    {c : List Node} (hv : visitElem env h d parent st (.elem t a c) = .ok st') :
    (∀ p, parent = some p → nestingCheck p t = .ok ()) ∧
    ((t = d.topLevel ∧ ∃ st1 st2,
        (match d with
          | .schema ext => startSchema env h ext st a
          | .component => pushPrefix { st with stack := [] } a) = .ok st1 ∧
        visitChildren env h d t st1 c = .ok st2 ∧
        (match d with
          | .schema ext => endSchema ext.isSome st2
          | .component => .ok (popPrefix st2)) = .ok st') ∨
     (t ≠ d.topLevel ∧ d.handled.contains t = true ∧ ∃ st1 st2,
        startHandled env h t a st = .ok st1 ∧ visitChildren env h d t st1 c = .ok st2 ∧ endHandled env t st2 = .ok st') ∨
     (t ≠ d.topLevel ∧ d.handled.contains t = false ∧ ∃ data, charactersTag (isComp d) t a data st = .ok st')) := by
  unfold visitElem at hv
  extract_lets chk started at hv
  cases hchk : chk with
  | error e => simp only [hchk] at hv; cases hv
  | ok u =>
    simp only [hchk] at hv
    refine ⟨?_, ?_⟩
    · intro p hp
      subst hp
      exact hchk
    · rcases ite_ok hv with ⟨ht, hv⟩ | ⟨ht, hv⟩
      · left
        refine ⟨by simpa using ht, ?_⟩
        cases hs : started with
        | error e => simp only [hs] at hv; cases hv
        | ok st1 =>
          simp only [hs] at hv
          cases hc : visitChildren env h d t st1 c with
          | error e => simp only [hc] at hv; cases hv
          | ok st2 =>
            simp only [hc] at hv
            exact ⟨st1, st2, hs, hc, hv⟩
      · right
        have ht' : t ≠ d.topLevel := by simpa using ht
        rcases ite_ok hv with ⟨hh, hv⟩ | ⟨hh, hv⟩
        · left
          refine ⟨ht', hh, ?_⟩
          cases hs : startHandled env h t a st with
          | error e => simp only [hs] at hv; cases hv
          | ok st1 =>
            simp only [hs] at hv
            cases hc : visitChildren env h d t st1 c with
            | error e => simp only [hc] at hv; cases hv
            | ok st2 =>
              simp only [hc] at hv
              exact ⟨st1, st2, rfl, hc, hv⟩
        · right
          refine ⟨ht', by simpa using hh, ?_⟩
          rcases ite_ok hv with ⟨_, hv⟩ | ⟨_, hv⟩
          · cases hd : collectText t c with
            | error e => simp only [hd] at hv; cases hv
            | ok data =>
              simp only [hd] at hv
              refine ⟨strip data, ?_⟩
              cases d <;> exact hv
          · cases hv

/-! ### inside `<key>` / `<multikey>`: only character-data elements -/

/-- fact about the generated nesting table: what may stand inside `<key>` / `<multikey>` is neither a top-level element
    nor an element with a start handler -/
theorem keyNestingTable : Gen.allowedParents.all (fun e =>
    !(e.2.contains "key".toList || e.2.contains "multikey".toList) ||
      (e.1 != Gen.schemaTopLevel && e.1 != Gen.componentTopLevel &&
        !Gen.schemaHandledTags.contains e.1 && !Gen.componentHandledTags.contains e.1)) = true := by decide

theorem nesting_key {d : DocKind} {p t : Str} (hp : p = "key".toList ∨ p = "multikey".toList)
    (h : nestingCheck p t = .ok ()) : t ≠ d.topLevel ∧ d.handled.contains t = false := by
  unfold nestingCheck at h
  split at h
  · cases h
  · rename_i n ps hf
    rcases ite_ok h with ⟨hc, _⟩ | ⟨_, h⟩
    · have hmem := List.mem_of_find?_eq_some hf
      have hn : n = t := by simpa using List.find?_some hf
      have := List.all_eq_true.mp keyNestingTable _ hmem
      have hcp : (ps.contains "key".toList || ps.contains "multikey".toList) = true := by
        rcases hp with rfl | rfl
        · simp only [hc, Bool.true_or]
        · simp only [hc, Bool.or_true]
      simp only [hcp, Bool.not_true, Bool.false_or, Bool.and_eq_true, bne_iff_ne, ne_eq, Bool.not_eq_true'] at this
      subst hn
      obtain ⟨⟨⟨h1, h2⟩, h3⟩, h4⟩ := this
      cases d with
      | schema ext => exact ⟨h1, h3⟩
      | component => exact ⟨h2, h4⟩
    · cases h

/-- the children of `<key>` / `<multikey>` only touch the key frame on top of the stack -/
theorem keyChildren {env : Env} {h : Hooks} {d : DocKind} {parent : Str}
    (hp : parent = "key".toList ∨ parent = "multikey".toList) {rest : List Frame} :
    ∀ (children : List Node) (st st' : PSt) (k : EKey), st.stack = .key k :: rest → KeyShape k →
      visitChildren env h d parent st children = .ok st' →
      st'.es = st.es ∧ ∃ k', st'.stack = .key k' :: rest ∧ KeyShape k' ∧ k'.name = k.name ∧ k'.attr = k.attr
  | [], st, st', k, hs, hk, hv => by
    unfold visitChildren at hv
    injection hv with hv; subst hv
    exact ⟨rfl, k, hs, hk, rfl, rfl⟩
  | .text s :: r, st, st', k, hs, hk, hv => by
    unfold visitChildren at hv
    rcases ite_ok hv with ⟨_, hv⟩ | ⟨_, hv⟩
    · exact keyChildren hp r st st' k hs hk hv
    · cases hv
  | .elem t a c :: r, st, st', k, hs, hk, hv => by
    unfold visitChildren at hv
    cases he : visitElem env h d (some parent) st (.elem t a c) with
    | error e => simp only [he] at hv; cases hv
    | ok st1 =>
      simp only [he] at hv
      obtain ⟨hchk, hcases⟩ := visitElem_cases he
      obtain ⟨hnt, hnh⟩ := nesting_key (d := d) hp (hchk parent rfl)
      rcases hcases with ⟨ht, _⟩ | ⟨_, hh, _⟩ | ⟨_, _, data, hch⟩
      · exact absurd ht hnt
      · rw [hnh] at hh; cases hh
      · obtain ⟨hes, k1, hs1, hk1, hn1, ha1⟩ := charactersTag_key hs hk hch
        obtain ⟨hes2, k2, hs2, hk2, hn2, ha2⟩ := keyChildren hp r st1 st' k1 hs1 hk1 hv
        exact ⟨hes2.trans hes, k2, hs2, hk2, hn2.trans hn1, ha2.trans ha1⟩

/-! ### an element with a start handler -/

theorem popFrame_es {st st' : PSt} (h : popFrame st = .ok st') : st'.es = st.es := by
  unfold popFrame at h
  split at h
  · injection h with h; subst h; rfl
  · cases h

theorem handled_inv {env : Env} {h : Hooks} {d : DocKind} {t : Str} {a : Attrs} {c : List Node} {st st1 st2 st' : PSt}
    (hkey : ∀ kt s r, s ≠ [] → env.conv.key kt s = .ok r → r ≠ []) (hlow : ∀ x : Str, lower (lower x) = lower x)
    (hh : HooksOK h) (hinv : ESInv st.es)
    (hs : startHandled env h t a st = .ok st1) (hc : visitChildren env h d t st1 c = .ok st2)
    (ih : ESInv st1.es → ESInv st2.es ∧ Grows st1.es st2.es) (he : endHandled env t st2 = .ok st') :
    ESInv st'.es ∧ Grows st.es st'.es := by
  have fin : ∀ {x : PSt}, ESInv st1.es ∧ Grows st.es st1.es → x.es = st2.es → ESInv x.es ∧ Grows st.es x.es := by
    intro x h1 hx
    obtain ⟨h2, g2⟩ := ih h1.1
    rw [hx]; exact ⟨h2, h1.2.trans g2⟩
  unfold startHandled at hs
  unfold endHandled at he
  rcases ite_ok hs with ⟨ht, hs⟩ | ⟨ht1, hs⟩
  · simp only [ht, ↓reduceIte, Except.ok.injEq] at he
    exact fin (startImport_inv hinv hh.load hs) (by rw [he])
  simp only [ht1, Bool.false_eq_true, ↓reduceIte] at he
  rcases ite_ok hs with ⟨ht, hs⟩ | ⟨ht2, hs⟩
  · simp only [ht, ↓reduceIte] at he
    exact fin (startAbstracttype_inv hinv hs) (popFrame_es he)
  simp only [ht2, Bool.false_eq_true, ↓reduceIte] at he
  rcases ite_ok hs with ⟨ht, hs⟩ | ⟨ht3, hs⟩
  · simp only [ht, ↓reduceIte] at he
    unfold endSectiontype at he
    exact fin (startSectiontype_inv hinv hs) (popFrame_es (st := popPrefix st2) he)
  simp only [ht3, Bool.false_eq_true, ↓reduceIte] at he
  rcases ite_ok hs with ⟨ht, hs⟩ | ⟨ht4, hs⟩
  · simp only [ht, ↓reduceIte] at he
    obtain ⟨h1, g1, k, hst, hk, hl⟩ := startKey_inv hinv hs
    have htk : t = "key".toList := by simpa using ht
    obtain ⟨hes, k', hst', hk', hn, ha⟩ := keyChildren (Or.inl htk) c st1 st2 k hst hk hc
    obtain ⟨ch, key, k0, htop, hn0, ha0⟩ := hl
    obtain ⟨h3, g3⟩ := endKey_inv (hes ▸ h1) hst' hk' ⟨ch, key, k0, hes ▸ htop, hn0.trans hn.symm, ha0.trans ha.symm⟩ he
    exact ⟨h3, g1.trans (hes ▸ g3)⟩
  simp only [ht4, Bool.false_eq_true, ↓reduceIte] at he
  rcases ite_ok hs with ⟨ht, hs⟩ | ⟨ht5, hs⟩
  · simp only [ht, ↓reduceIte] at he
    obtain ⟨h1, g1, k, hst, hk, hl⟩ := startMultikey_inv hinv hs
    have htk : t = "multikey".toList := by simpa using ht
    obtain ⟨hes, k', hst', hk', hn, ha⟩ := keyChildren (Or.inr htk) c st1 st2 k hst hk hc
    obtain ⟨ch, key, k0, htop, hn0, ha0⟩ := hl
    obtain ⟨h3, g3⟩ := endMultikey_inv (hes ▸ h1) hst' hk' ⟨ch, key, k0, hes ▸ htop, hn0.trans hn.symm, ha0.trans ha.symm⟩ he
    exact ⟨h3, g1.trans (hes ▸ g3)⟩
  simp only [ht5, Bool.false_eq_true, ↓reduceIte] at he
  rcases ite_ok hs with ⟨ht, hs⟩ | ⟨ht6, hs⟩
  · simp only [ht, ↓reduceIte] at he
    exact fin (startSection_inv hinv hkey hlow hs) (popFrame_es he)
  simp only [ht6, Bool.false_eq_true, ↓reduceIte] at he
  rcases ite_ok hs with ⟨ht, hs⟩ | ⟨_, hs⟩
  · simp only [ht, ↓reduceIte] at he
    exact fin (startMultisection_inv hinv hlow hs) (popFrame_es he)
  · cases hs

/-- fact about the generated nesting table: a top-level element is never allowed inside another element -/
theorem topNestingTable : Gen.allowedParents.find? (·.1 == Gen.schemaTopLevel) = none := by decide

theorem nesting_schemaTop {p : Str} (h : nestingCheck p Gen.schemaTopLevel = .ok ()) : False := by
  unfold nestingCheck at h
  rw [topNestingTable] at h
  cases h

/-! ### the walk -/

mutual
theorem visitElem_inv {env : Env} {h : Hooks} {d : DocKind}
    (hkey : ∀ kt s r, s ≠ [] → env.conv.key kt s = .ok r → r ≠ []) (hlow : ∀ x : Str, lower (lower x) = lower x)
    (hh : HooksOK h) (hd : DocOK d) :
    ∀ (n : Node) (parent : Option Str) (st st' : PSt), ESInv st.es → (parent = none → DocGrow d st.es) →
      visitElem env h d parent st n = .ok st' → ESInv st'.es ∧ Grows st.es st'.es
  | .text _, parent, st, st', hinv, _, hv => by
    unfold visitElem at hv
    injection hv with hv; subst hv; exact ⟨hinv, Grows.refl _⟩
  | .elem t a c, parent, st, st', hinv, hroot, hv => by
    obtain ⟨hchk, hcases⟩ := visitElem_cases hv
    rcases hcases with ⟨htop, st1, st2, hs, hc, he⟩ | ⟨_, _, st1, st2, hs, hc, he⟩ | ⟨_, _, data, hch⟩
    · cases d with
      | schema ext =>
        dsimp only at hs he
        have hg : ExtGrow ext st.es := by
          cases parent with
          | some p => exact (nesting_schemaTop (htop ▸ hchk p rfl)).elim
          | none =>
            have := hroot rfl
            cases ext <;> exact this
        obtain ⟨h1, g1⟩ := startSchema_inv (fun es hes => by subst hes; exact hd) st.es hg hh.extend hs
        obtain ⟨h2, g2⟩ := visitChildren_inv hkey hlow hh hd c t st1 st2 h1 hc
        obtain ⟨h3, g3⟩ := endSchema_inv h2 he
        exact ⟨h3, (g1.trans g2).trans g3⟩
      | component =>
        dsimp only at hs he
        have hes := (pushPrefix_es hs).1
        have h1 : ESInv st1.es := by rw [hes]; exact hinv
        obtain ⟨h2, g2⟩ := visitChildren_inv hkey hlow hh hd c t st1 st2 h1 hc
        injection he with he; subst he
        exact ⟨h2, by have : Grows st1.es st2.es := g2; rw [hes] at this; exact this⟩
    · exact handled_inv hkey hlow hh hinv hs hc (fun h1 => visitChildren_inv hkey hlow hh hd c t st1 st2 h1 hc) he
    · exact charactersTag_inv hinv hch
theorem visitChildren_inv {env : Env} {h : Hooks} {d : DocKind}
    (hkey : ∀ kt s r, s ≠ [] → env.conv.key kt s = .ok r → r ≠ []) (hlow : ∀ x : Str, lower (lower x) = lower x)
    (hh : HooksOK h) (hd : DocOK d) :
    ∀ (l : List Node) (parent : Str) (st st' : PSt), ESInv st.es → visitChildren env h d parent st l = .ok st' →
      ESInv st'.es ∧ Grows st.es st'.es
  | [], parent, st, st', hinv, hv => by
    unfold visitChildren at hv
    injection hv with hv; subst hv; exact ⟨hinv, Grows.refl _⟩
  | .text s :: r, parent, st, st', hinv, hv => by
    unfold visitChildren at hv
    rcases ite_ok hv with ⟨_, hv⟩ | ⟨_, hv⟩
    · exact visitChildren_inv hkey hlow hh hd r parent st st' hinv hv
    · cases hv
  | .elem t a c :: r, parent, st, st', hinv, hv => by
    unfold visitChildren at hv
    cases he : visitElem env h d (some parent) st (.elem t a c) with
    | error e => simp only [he] at hv; cases hv
    | ok st1 =>
      simp only [he] at hv
      obtain ⟨h1, g1⟩ := visitElem_inv hkey hlow hh hd (.elem t a c) (some parent) st st1 hinv (fun hp => by cases hp) he
      obtain ⟨h2, g2⟩ := visitChildren_inv hkey hlow hh hd r parent st1 st' h1 hv
      exact ⟨h2, g1.trans g2⟩
end

/-! ### nested documents -/

theorem hooks_ok {env : Env} (hkey : ∀ kt s r, s ≠ [] → env.conv.key kt s = .ok r → r ≠ [])
    (hlow : ∀ x : Str, lower (lower x) = lower x) : ∀ fuel, HooksOK (hooks env fuel)
  | 0 => by
    refine ⟨?_, ?_⟩
    · intro es tree es' _ h; cases h
    · intro es tree es' _ h; cases h
  | n + 1 => by
    have ih := hooks_ok hkey hlow n
    refine ⟨?_, ?_⟩
    · intro es tree es' hes h
      simp only [hooks] at h
      cases hv : visitElem env (hooks env n) .component none { es := es } tree with
      | error e => simp [hv, Except.map] at h
      | ok st' =>
        simp only [hv, Except.map, Except.ok.injEq] at h
        subst h
        exact visitElem_inv hkey hlow ih (d := .component) trivial tree none { es := es } st' hes (fun _ => trivial) hv
    · intro es tree es' hes h
      simp only [hooks] at h
      cases hv : visitElem env (hooks env n) (.schema (some es)) none { es := es } tree with
      | error e => simp [hv, Except.map] at h
      | ok st' =>
        simp only [hv, Except.map, Except.ok.injEq] at h
        subst h
        exact visitElem_inv hkey hlow ih (d := .schema (some es)) hes tree none { es := es } st' hes (fun _ => Grows.refl es) hv

/-- every schema state the loader returns satisfies the invariant -/
theorem elabES_inv {env : Env} {fuel : Nat} {t : Node} {es : ES}
    (hkey : ∀ kt s r, s ≠ [] → env.conv.key kt s = .ok r → r ≠ []) (hlow : ∀ x : Str, lower (lower x) = lower x)
    (h : elabES env fuel t = .ok es) : ESInv es := by
  unfold elabES at h
  cases hv : visitElem env (hooks env fuel) (.schema none) none { es := emptyES } t with
  | error e => simp [hv, Except.map] at h
  | ok st' =>
    simp only [hv, Except.map, Except.ok.injEq] at h
    subst h
    exact (visitElem_inv hkey hlow (hooks_ok hkey hlow fuel) (d := .schema none) trivial t none { es := emptyES } st' ESInv.emptyES (fun _ => rfl) hv).1

end ZCV.Elab
