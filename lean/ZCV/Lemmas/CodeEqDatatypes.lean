import ZCV.Gen.CodeDatatypes
import ZCV.Model.Datatypes
import ZCV.Model.Timedelta
import ZCV.Lemmas.PyPrims
/-!
# The generated code of `ZConfig/datatypes.py` equals the hand-written model

For every function `f` translated by `harness/zcv/pytrans.py` (`ZCV/Gen/CodeDatatypes.lean`, regenerated from the
Python source on every run): `Gen.Code.f args = embed (DT.f args)` for ALL arguments, where `embed` only re-tags the
exception type (`ConvErr` of the models → `PyExc` of the generated code) and, for socket addresses, the family enum.
A change to the Python function changes the generated definition and this file no longer checks.
-/
set_option linter.unusedSimpArgs false
namespace ZCV.CodeEq
open ZCV ZCV.Py ZCV.Gen.Code

/-- exception re-tagging, injective -/
def embedErr : ConvErr → PyExc
  | .valueError => .ValueError
  | .typeError => .TypeError
  | .other n => .Other n

theorem embedErr_injective : ∀ a b, embedErr a = embedErr b → a = b := by
  intro a b h; cases a <;> cases b <;> simp_all [embedErr]

/-- result re-tagging: same value, or the same exception class -/
def embed {α} : Except ConvErr α → Except PyExc α
  | .ok v => .ok v
  | .error e => .error (embedErr e)

@[simp] theorem embed_ok {α} (v : α) : embed (.ok v : Except ConvErr α) = .ok v := rfl
@[simp] theorem embed_error {α} (e : ConvErr) : embed (.error e : Except ConvErr α) = .error (embedErr e) := rfl
@[simp] theorem embedErr_value : embedErr .valueError = .ValueError := rfl

theorem embed_injective {α} : ∀ a b : Except ConvErr α, embed a = embed b → a = b := by
  intro a b h
  cases a <;> cases b <;> simp_all [embed]
  exact embedErr_injective _ _ h

theorem embed_map {α β} (f : α → β) (r : Except ConvErr α) : embed (r.map f) = (embed r).map f := by
  cases r <;> rfl

/-! ## plain functions -/

theorem contains_perm {α} [BEq α] [LawfulBEq α] {l₁ l₂ : List α} (h : l₁.Perm l₂) (x : α) : l₁.contains x = l₂.contains x := by
  rw [Bool.eq_iff_iff]; simp only [List.contains_iff_mem]; exact h.mem_iff

theorem contains_of_perm {α} [BEq α] [LawfulBEq α] {l₁ l₂ : List α} {x : α} {b : Bool}
    (h : l₁.contains x = b) (p : l₁.Perm l₂) : l₂.contains x = b := by
  rw [← contains_perm p]; exact h

/-- `asBoolean` (the word tuples of the code are those of `Gen.boolTrue` / `Gen.boolFalse` up to order) -/
theorem code_asBoolean_eq (s : Str) : asBoolean s = embed (DT.asBoolean s) := by
  unfold asBoolean DT.asBoolean
  dsimp only
  generalize lower s = ss
  split
  · next h => rw [contains_of_perm (l₂ := Gen.boolTrue) h (by decide)]; rfl
  · next h =>
    rw [contains_of_perm (l₂ := Gen.boolTrue) (Bool.eq_false_iff.mpr h) (by decide)]
    split
    · next h2 => rw [contains_of_perm (l₂ := Gen.boolFalse) h2 (by decide)]; rfl
    · next h2 => rw [contains_of_perm (l₂ := Gen.boolFalse) (Bool.eq_false_iff.mpr h2) (by decide)]; rfl

theorem code_integer_eq (v : Str) : integer v = embed (DT.integer v) := by
  unfold integer Py.int DT.integer
  cases pyInt v <;> rfl

theorem code_null_conversion_eq (v : Str) : null_conversion v = .ok v := rfl

theorem code_string_list_eq (s : Str) : string_list s = .ok (DT.stringList s) := rfl

/-! ## `RangeCheckedConversion.__call__` and `port_number` -/

theorem code_rangeChecked_eq (mn mx : Option Int) (v : Str) :
    RangeCheckedConversion_call mn mx integer v = embed (DT.rangeChecked mn mx v) := by
  unfold RangeCheckedConversion_call DT.rangeChecked
  rw [code_integer_eq]
  cases DT.integer v with
  | error e => rfl
  | ok n =>
    cases mn <;> cases mx <;>
      simp only [embed_ok, bind, Except.bind, pure, Except.pure, throw, throwThe, MonadExceptOf.throw, decide_eq_true_eq] <;>
      repeat' split <;> first | rfl | simp_all

theorem code_portNumber_eq (v : Str) : port_number v = embed (DT.portNumber v) :=
  code_rangeChecked_eq _ _ v

/-! ## `SuffixMultiplier.__call__`, `byte-size`, `time-interval` -/

theorem slice_sufN (v : Str) (k : Nat) : Py.slice v (some (-(k : Int))) none = DT.sufN v k := by
  unfold DT.sufN
  cases k with
  | zero => simp only [↓reduceIte]; exact Py.slice_last_zero v
  | succ k => simp only [Nat.add_one_ne_zero, ↓reduceIte]; exact Py.slice_last v _ (Nat.succ_pos _)

theorem slice_preN (v : Str) (k : Nat) : Py.slice v none (some (-(k : Int))) = DT.preN v k := by
  unfold DT.preN
  cases k with
  | zero => simp only [↓reduceIte]; exact Py.slice_dropLast_zero v
  | succ k => simp only [Nat.add_one_ne_zero, ↓reduceIte]; exact Py.slice_dropLast v _ (Nat.succ_pos _)

theorem pyInt_eq (x : Str) : Py.int x = embed (DT.integer x) := code_integer_eq x

theorem code_suffixFor_eq (k : Nat) (dflt : Int) (v : Str) (tbl : List (Str × Int)) :
    SuffixMultiplier_call_for (k : Int) dflt v tbl =
      embed (match DT.suffixLoop v k tbl with
             | some r => r
             | none => (DT.integer v).map (· * dflt)) := by
  induction tbl with
  | nil =>
    simp only [SuffixMultiplier_call_for, DT.suffixLoop, pyInt_eq]
    cases DT.integer v <;> rfl
  | cons sm rest ih =>
    obtain ⟨s, m⟩ := sm
    simp only [SuffixMultiplier_call_for, DT.suffixLoop, slice_sufN, slice_preN, pyInt_eq]
    split
    · cases DT.integer (DT.preN v k) <;> rfl
    · exact ih

/-- `SuffixMultiplier.__call__`, any table, any key size `len(key) ≥ 0`, any default -/
theorem code_suffixMult_eq (tbl : List (Str × Int)) (k : Nat) (dflt : Int) (v : Str) :
    SuffixMultiplier_call tbl (k : Int) dflt v = embed (DT.suffixMult tbl k dflt v) := by
  unfold SuffixMultiplier_call DT.suffixMult
  exact code_suffixFor_eq k dflt (lower v) tbl

/-- with pairwise distinct keys at most one entry can match: the order of the table is irrelevant
    (the code iterates in the dictionary's insertion order, `Gen/Datatypes.lean` lists the table sorted) -/
theorem suffixLoop_perm (v : Str) (k : Nat) {l₁ l₂ : List (Str × Int)} (h : l₁.Perm l₂) :
    (l₁.map (·.1)).Nodup → DT.suffixLoop v k l₁ = DT.suffixLoop v k l₂ := by
  induction h with
  | nil => intro _; rfl
  | cons x _ ih =>
    intro nd
    obtain ⟨s, m⟩ := x
    simp only [DT.suffixLoop]
    rw [ih (List.nodup_cons.mp nd).2]
  | swap x y l =>
    intro nd
    obtain ⟨s, m⟩ := x
    obtain ⟨s', m'⟩ := y
    simp only [DT.suffixLoop]
    by_cases h1 : DT.sufN v k == s <;> by_cases h2 : DT.sufN v k == s' <;> simp only [h1, h2, ↓reduceIte, Bool.false_eq_true]
    exfalso
    have e1 := eq_of_beq h1
    have e2 := eq_of_beq h2
    simp only [List.map_cons, List.nodup_cons, List.mem_cons] at nd
    exact nd.1 (Or.inl (e2.symm.trans e1))
  | trans p _ ih1 ih2 =>
    intro nd
    rw [ih1 nd]
    exact ih2 ((p.map _).nodup_iff.mp nd)

theorem suffixMult_perm (k : Nat) (dflt : Int) (v : Str) {l₁ l₂ : List (Str × Int)} (h : l₁.Perm l₂)
    (nd : (l₁.map (·.1)).Nodup) : DT.suffixMult l₁ k dflt v = DT.suffixMult l₂ k dflt v := by
  unfold DT.suffixMult
  dsimp only
  rw [suffixLoop_perm _ _ h nd]

/-- `SuffixMultiplier.__init__` run on the live tables yields the attribute values the instances are applied to
    (in particular the live `_keysz` = `len(reduce(check, d))`, all keys having the same length) -/
theorem code_byteSize_init :
    SuffixMultiplier_init byte_size_d Gen.byteSizeDefault = .ok (byte_size_d, Gen.byteSizeDefault, (Gen.byteSizeKeysz : Int)) := by
  rfl
theorem code_timeInterval_init :
    SuffixMultiplier_init time_interval_d Gen.timeIntervalDefault =
      .ok (time_interval_d, Gen.timeIntervalDefault, (Gen.timeIntervalKeysz : Int)) := by
  rfl

theorem code_byteSize_eq (v : Str) : byte_size v = embed (DT.byteSize v) := by
  unfold byte_size DT.byteSize
  rw [code_suffixMult_eq]
  exact congrArg embed (suffixMult_perm _ _ _ (by decide) (by decide))

theorem code_timeInterval_eq (v : Str) : time_interval v = embed (DT.timeInterval v) := by
  unfold time_interval DT.timeInterval
  rw [code_suffixMult_eq]
  exact congrArg embed (suffixMult_perm _ _ _ (by decide) (by decide))

/-! ## `RegularExpressionConversion.__call__`, `BasicKeyConversion.__call__` and their instances -/

/-- any pattern: `m = rx.match(v); if m and m.group() == v` is the model's `matchesWhole` -/
theorem code_regexConv_eq (r : Rx.RE) (v : Str) : RegularExpressionConversion_call r v = embed (DT.regexConv r v) := by
  unfold RegularExpressionConversion_call DT.regexConv
  rw [← Py.reMatch_whole]
  cases Py.reMatch r v with
  | none => rfl
  | some m => dsimp only; split <;> simp_all

theorem code_identifier_eq (v : Str) : identifier v = embed (DT.identifier v) := code_regexConv_eq _ v
theorem code_dottedName_eq (v : Str) : dotted_name v = embed (DT.dottedName v) := code_regexConv_eq _ v
theorem code_dottedSuffix_eq (v : Str) : dotted_suffix v = embed (DT.dottedSuffix v) := code_regexConv_eq _ v
theorem code_ipaddrRx_eq (v : Str) : ipaddr_or_hostname_rx v = embed (DT.regexConv Gen.ipaddrRx v) := code_regexConv_eq _ v

theorem code_basicKeyConv_eq (r : Rx.RE) (v : Str) :
    BasicKeyConversion_call r v = embed ((DT.regexConv r v).map lower) := by
  unfold BasicKeyConversion_call
  simp only [code_regexConv_eq]
  cases DT.regexConv r v <;> rfl

theorem code_basicKey_eq (v : Str) : basic_key v = embed (DT.basicKey v) := code_basicKeyConv_eq _ v

/-! ## `InetAddress.__call__` and its three instances -/

theorem slice_1_m1 (h : Str) : Py.slice h (some (1 : Int)) (some (-(1 : Int))) = (h.drop 1).take (h.length - 2) := by
  have := Py.slice_nat_neg h 1 1 (by decide)
  simpa [Nat.sub_sub] using this

theorem code_inetAddress_eq (dh : Str) (s : Str) : InetAddress_call dh s = embed (DT.inetAddress dh s) := by
  unfold InetAddress_call DT.inetAddress
  by_cases hc : s.contains ':'
  · simp only [hc, ↓reduceIte, Py.rsplit1_of_contains _ _ hc, slice_1_m1, code_portNumber_eq]
    generalize (rsplit1 s ':').fst = h0
    generalize (rsplit1 s ':').snd = p0
    by_cases hb : (startsWith h0 ['['] && endsWith h0 [']']) = true
    · simp only [hb, ↓reduceIte]
      generalize List.take (List.length h0 - 2) (List.drop 1 h0) = h1
      by_cases hp : p0 = [] <;> by_cases hl : lower h1 = [] <;>
        simp [hp, hl, embed, Except.map, bind, Except.bind, pure, Except.pure] <;>
        cases DT.portNumber p0 <;> simp
    · simp only [hb, Bool.false_eq_true, ↓reduceIte]
      by_cases hc2 : ':' ∈ h0
      · by_cases hl : lower s = [] <;> simp [hc2, hl, embed, bind, Except.bind, pure, Except.pure]
      · by_cases hp : p0 = [] <;> by_cases hl : lower h0 = [] <;>
          simp [hc2, hp, hl, embed, Except.map, bind, Except.bind, pure, Except.pure] <;>
          cases DT.portNumber p0 <;> simp
  · simp only [hc, Bool.false_eq_true, ↓reduceIte, code_portNumber_eq, Py.len_ne_one]
    cases hpn : DT.portNumber s with
    | ok p => simp [embed, bind, Except.bind, pure, Except.pure]
    | error e =>
      cases e with
      | valueError =>
        by_cases hw : (splitWS s).length = 1 <;> by_cases hl : lower s = [] <;>
          simp [hw, hl, embed, embedErr, bind, Except.bind, pure, Except.pure, throw, throwThe, MonadExceptOf.throw]
      | typeError => simp [embed, embedErr, bind, Except.bind, pure, Except.pure, throw, throwThe, MonadExceptOf.throw]
      | other n => simp [embed, embedErr, bind, Except.bind, pure, Except.pure, throw, throwThe, MonadExceptOf.throw]

theorem code_inet_address_eq (s : Str) : inet_address s = embed (DT.inetAddress Gen.inetHost s) := code_inetAddress_eq _ s
theorem code_inet_binding_address_eq (s : Str) : inet_binding_address s = embed (DT.inetAddress Gen.inetBindingHost s) :=
  code_inetAddress_eq _ s
theorem code_inet_connection_address_eq (s : Str) :
    inet_connection_address s = embed (DT.inetAddress Gen.inetConnectionHost s) := code_inetAddress_eq _ s

/-! ## `SocketAddress.__init__` with the three classes' `_parse_address` -/

/-- family re-tagging, injective -/
def embedFam : DT.Family → Py.SockFamily
  | .unix => .AF_UNIX | .inet => .AF_INET | .inet6 => .AF_INET6

theorem embedFam_injective : ∀ a b, embedFam a = embedFam b → a = b := by
  intro a b h; cases a <;> cases b <;> simp_all [embedFam]

/-- result re-tagging for socket addresses: the family enum and the exception class -/
def embedSock (r : Except ConvErr (DT.Family × Sum Str (Str × Option Int))) :
    Except PyExc (Py.SockFamily × Sum Str (Str × Option Int)) :=
  embed (r.map fun (f, a) => (embedFam f, a))

theorem embedSock_injective : ∀ a b, embedSock a = embedSock b → a = b := by
  intro a b h
  cases a with
  | error e => cases b with
    | error e' => simp [embedSock, embed, Except.map] at h; rw [embedErr_injective _ _ h]
    | ok v => simp [embedSock, embed, Except.map] at h
  | ok v => cases b with
    | error e' => simp [embedSock, embed, Except.map] at h
    | ok v' =>
      obtain ⟨f, a⟩ := v; obtain ⟨f', a'⟩ := v'
      simp [embedSock, embed, Except.map] at h
      rw [embedFam_injective _ _ h.1, h.2]

/-- the family's name (`AF_UNIX` …) -/
def famName : Py.SockFamily → String
  | .AF_UNIX => "AF_UNIX" | .AF_INET => "AF_INET" | .AF_INET6 => "AF_INET6"

theorem embedSock_famName (r : Except ConvErr (DT.Family × Sum Str (Str × Option Int))) :
    (embedSock r).map (fun p => (famName p.1, p.2)) = embed (r.map (fun p => (String.ofList (DT.familyStr p.1), p.2))) := by
  cases r with
  | error e => rfl
  | ok v => obtain ⟨f, a⟩ := v; cases f <;> rfl

theorem find1_ge_zero (s : Str) (c : Char) : decide (Py.find1 s c ≥ (0 : Int)) = s.contains c := by
  unfold Py.find1
  by_cases h : s.contains c = true
  · simp only [h, ↓reduceIte]; simp
  · simp only [h, Bool.false_eq_true, ↓reduceIte]; simp at h; simp [h]

/-- `SocketAddress.__init__` with `_parse_address = InetAddress(dh)` -/
theorem code_socketAddress_eq (dh : Str) (s : Str) :
    SocketAddress_init (InetAddress_call dh) s = embedSock (DT.socketAddress dh s) := by
  unfold SocketAddress_init DT.socketAddress
  simp only [find1_ge_zero, code_inetAddress_eq]
  by_cases hc : '/' ∈ s
  · simp [hc, embedSock, embed, Except.map, embedFam]
  · cases DT.inetAddress dh s with
    | error e => simp [hc, embedSock, embed, Except.map, bind, Except.bind]
    | ok a =>
      by_cases h6 : ':' ∈ a.1 <;>
        simp [hc, h6, embedSock, embed, Except.map, bind, Except.bind, pure, Except.pure, embedFam]

theorem code_socket_address_eq (s : Str) : socket_address s = embedSock (DT.socketAddress Gen.inetHost s) :=
  code_socketAddress_eq _ s
theorem code_socket_binding_address_eq (s : Str) :
    socket_binding_address s = embedSock (DT.socketAddress Gen.inetBindingHost s) := code_socketAddress_eq _ s
theorem code_socket_connection_address_eq (s : Str) :
    socket_connection_address s = embedSock (DT.socketAddress Gen.inetConnectionHost s) := code_socketAddress_eq _ s

/-! ## `timedelta` -/

/-- a keyword argument of `datetime.timedelta` as the model records it: `none` = the initial integer `0`, `some lit` = `float(lit)` -/
def tdNum : Option Str → Py.Num
  | none => .int 0
  | some lit => .float lit

theorem tdNum_injective : ∀ a b, tdNum a = tdNum b → a = b := by
  intro a b h; cases a <;> cases b <;> simp_all [tdNum]

/-- the arguments handed to the constructor, re-tagged -/
def embedTD (v : DT.TimedeltaVal) : Py.Timedelta :=
  { weeks := tdNum v.weeks, days := tdNum v.days, hours := tdNum v.hours, minutes := tdNum v.minutes, seconds := tdNum v.seconds }

theorem embedTD_injective : ∀ a b, embedTD a = embedTD b → a = b := by
  intro a b h
  cases a; cases b
  simp only [embedTD, Py.Timedelta.mk.injEq] at h
  simp only [DT.TimedeltaVal.mk.injEq]
  exact ⟨tdNum_injective _ _ h.1, tdNum_injective _ _ h.2.1, tdNum_injective _ _ h.2.2.1, tdNum_injective _ _ h.2.2.2.1,
    tdNum_injective _ _ h.2.2.2.2⟩

/-- the code's last step: call the constructor (a parameter) on the collected arguments; `OverflowError` becomes `ValueError` -/
def tdFinish (ctor : Py.Num → Py.Num → Py.Num → Py.Num → Py.Num → Except PyExc Py.Timedelta) (v : DT.TimedeltaVal) :
    Except PyExc Py.Timedelta :=
  match ctor (tdNum v.weeks) (tdNum v.days) (tdNum v.hours) (tdNum v.minutes) (tdNum v.seconds) with
  | .ok r => .ok r
  | .error .OverflowError => .error .ValueError
  | .error e => .error e

theorem singleton_beq (c d : Char) : (([c] : Str) == [d]) = (c == d) := by
  rw [Bool.eq_iff_iff]; simp

/-- the `for part in s.split()` loop, for ANY acceptance function of `float()` that rejects the empty text and any constructor -/
theorem code_timedeltaFor_eq (ctor : Py.Num → Py.Num → Py.Num → Py.Num → Py.Num → Except PyExc Py.Timedelta)
    (h0 : DT.floatOk [] = false) (parts : List Str) :
    ∀ v : DT.TimedeltaVal,
      timedelta_for DT.floatOk ctor parts (tdNum v.days) (tdNum v.hours) (tdNum v.minutes) (tdNum v.seconds) (tdNum v.weeks) =
        match DT.timedeltaLoop parts v with
        | .ok v' => tdFinish ctor v'
        | .error e => .error (embedErr e) := by
  induction parts with
  | nil =>
    intro v; simp only [timedelta_for, DT.timedeltaLoop, tdFinish]
    generalize ctor _ _ _ _ _ = r
    cases r with
    | ok x => rfl
    | error e => cases e <;> rfl
  | cons part rest ih =>
    intro v
    simp only [timedelta_for, DT.timedeltaLoop, Py.slice_dropLast_one, Py.float, Py.index_neg_one, singleton_beq]
    by_cases hf : DT.floatOk part.dropLast = true
    · simp only [hf, ↓reduceIte, Bool.not_true, Bool.false_eq_true]
      cases hl : part.getLast? with
      | none =>
        exfalso
        have : part = [] := by simpa using hl
        subst this
        simp [h0] at hf
      | some c =>
        simp only [DT.tdAssign, singleton_beq]
        by_cases hw : (c == 'w') = true
        · simp only [hw, ↓reduceIte]; exact ih { v with weeks := some part.dropLast }
        by_cases hd : (c == 'd') = true
        · simp only [hw, hd, ↓reduceIte, Bool.false_eq_true]; exact ih { v with days := some part.dropLast }
        by_cases hh : (c == 'h') = true
        · simp only [hw, hd, hh, ↓reduceIte, Bool.false_eq_true]; exact ih { v with hours := some part.dropLast }
        by_cases hm : (c == 'm') = true
        · simp only [hw, hd, hh, hm, ↓reduceIte, Bool.false_eq_true]; exact ih { v with minutes := some part.dropLast }
        by_cases hs : (c == 's') = true
        · simp only [hw, hd, hh, hm, hs, ↓reduceIte, Bool.false_eq_true]; exact ih { v with seconds := some part.dropLast }
        · simp only [hw, hd, hh, hm, hs, ↓reduceIte, Bool.false_eq_true]; rfl
    · simp only [hf, ↓reduceIte, Bool.false_eq_true, Bool.not_false]; rfl

theorem floatOk_nil : DT.floatOk [] = false := by decide

/-- `timedelta(s)` with `float()` accepting what the model's grammar accepts and ANY `datetime.timedelta` constructor:
    the model's loop, then the constructor on the arguments the model collected -/
theorem code_timedelta_eq (ctor : Py.Num → Py.Num → Py.Num → Py.Num → Py.Num → Except PyExc Py.Timedelta) (s : Str) :
    Gen.Code.timedelta DT.floatOk ctor s =
      match DT.timedelta s with
      | .ok v => tdFinish ctor v
      | .error e => .error (embedErr e) := by
  unfold Gen.Code.timedelta DT.timedelta
  exact code_timedeltaFor_eq ctor floatOk_nil (splitWS s) {}

/-- the constructor's verdict as the model's parameter `fits` -/
def ctorFits (ctor : Py.Num → Py.Num → Py.Num → Py.Num → Py.Num → Except PyExc Py.Timedelta) (v : DT.TimedeltaVal) : Bool :=
  match ctor (tdNum v.weeks) (tdNum v.days) (tdNum v.hours) (tdNum v.minutes) (tdNum v.seconds) with
  | .ok _ => true
  | .error _ => false

/-- a constructor that, like `datetime.timedelta`, returns the object for its arguments or raises `OverflowError`
    (infinite / too many days) or `ValueError` (NaN) -/
def CtorLike (ctor : Py.Num → Py.Num → Py.Num → Py.Num → Py.Num → Except PyExc Py.Timedelta) : Prop :=
  ∀ w d h m s, ctor w d h m s = .ok ⟨w, d, h, m, s⟩ ∨ ctor w d h m s = .error .OverflowError ∨ ctor w d h m s = .error .ValueError

/-- the whole function against `DT.timedeltaChecked`, the constructor's range verdict staying a parameter -/
theorem code_timedeltaChecked_eq (ctor : Py.Num → Py.Num → Py.Num → Py.Num → Py.Num → Except PyExc Py.Timedelta)
    (hc : CtorLike ctor) (s : Str) :
    Gen.Code.timedelta DT.floatOk ctor s = embed ((DT.timedeltaChecked (ctorFits ctor) s).map embedTD) := by
  rw [code_timedelta_eq]
  unfold DT.timedeltaChecked
  cases DT.timedelta s with
  | error e => rfl
  | ok v =>
    simp only [tdFinish, ctorFits]
    rcases hc (tdNum v.weeks) (tdNum v.days) (tdNum v.hours) (tdNum v.minutes) (tdNum v.seconds) with h | h | h <;>
      simp only [h] <;> rfl

end ZCV.CodeEq
