import ZCV.Lemmas.PositionRec
import ZCV.Lemmas.LoadFinish
/-!
C08 for the schema-driven loader (`loaderCtx`): which errors its callbacks raise and which position and text they carry.

* `lsValue_error` — `addValue`: a key that cannot be converted (the error carries the key text and the position handed in), or a
  plain error without position;
* `finishMatcher_conversion` — the conversion errors of `finish()`/`constuct()`: about a value held by the matcher (text and
  position of that value), a schema default, a command-line override, or the section datatype;
* `records_loader` — the loader only stores the `(text, position)` pairs `addValue` hands it.
-/
namespace ZCV.Cfg
open ZCV ZCV.Conf

/-! ### generic `mapM` / `foldlM` facts -/

namespace Pos

theorem mapM_error_mem {ε α β} (f : α → Except ε β) : ∀ (l : List α) (e : ε), l.mapM f = .error e → ∃ a ∈ l, f a = .error e := by
  intro l
  induction l with
  | nil => intro e h; simp [pure, Except.pure] at h
  | cons a l ih =>
    intro e h
    rw [List.mapM_cons] at h
    cases hfa : f a with
    | error e' =>
      simp only [hfa, bind, Except.bind] at h
      cases h
      exact ⟨a, List.mem_cons_self, hfa⟩
    | ok b =>
      cases hl : l.mapM f with
      | error e' =>
        simp only [hfa, hl, bind, Except.bind] at h
        cases h
        obtain ⟨x, hx, hfx⟩ := ih _ hl
        exact ⟨x, List.mem_cons_of_mem _ hx, hfx⟩
      | ok bs => simp [hfa, hl, bind, Except.bind, pure, Except.pure] at h

theorem mapM_ok_mem {ε α β} (f : α → Except ε β) : ∀ (l : List α) (r : List β), l.mapM f = .ok r →
    ∀ b ∈ r, ∃ a ∈ l, f a = .ok b := by
  intro l
  induction l with
  | nil => intro r h b hb; simp [pure, Except.pure] at h; subst h; cases hb
  | cons a l ih =>
    intro r h b hb
    obtain ⟨b0, bs, h1, h2, rfl⟩ := mapM_ok_cons f a l r h
    rcases List.mem_cons.mp hb with rfl | hb
    · exact ⟨a, List.mem_cons_self, h1⟩
    · obtain ⟨x, hx, hfx⟩ := ih _ h2 _ hb
      exact ⟨x, List.mem_cons_of_mem _ hx, hfx⟩

/-- an invariant of the steps of a `foldlM` holds of the result, and a failing `foldlM` fails in a step started from a state
    that satisfies the invariant -/
theorem foldlM_inv {ε α β} (f : β → α → Except ε β) (P : β → Prop)
    (hstep : ∀ acc x acc', P acc → f acc x = .ok acc' → P acc') :
    ∀ (l : List α) (init : β), P init →
      (∀ r, l.foldlM f init = .ok r → P r) ∧
      (∀ e, l.foldlM f init = .error e → ∃ acc x, P acc ∧ x ∈ l ∧ f acc x = .error e) := by
  intro l
  induction l with
  | nil =>
    intro init h0
    constructor
    · intro r h; simp [pure, Except.pure] at h; subst h; exact h0
    · intro e h; simp [pure, Except.pure] at h
  | cons a l ih =>
    intro init h0
    rw [List.foldlM_cons]
    cases hfa : f init a with
    | error e' =>
      constructor
      · intro r h; cases h
      · intro e h
        cases h
        exact ⟨init, a, h0, List.mem_cons_self, hfa⟩
    | ok acc1 =>
      obtain ⟨i1, i2⟩ := ih acc1 (hstep _ _ _ h0 hfa)
      constructor
      · intro r h; exact i1 r h
      · intro e h
        obtain ⟨acc, x, hp, hx, hf⟩ := i2 e h
        exact ⟨acc, x, hp, List.mem_cons_of_mem _ hx, hf⟩

theorem map_error_inv {ε α β} {x : Except ε α} {f : α → β} {e : ε} (h : x.map f = .error e) : x = .error e := by
  cases x with
  | error e' => simp [Except.map] at h; rw [h]
  | ok a => simp [Except.map] at h

end Pos
open Pos

/-! ### the `(text, position)` pairs a matcher holds -/

def slotVIs : Slot → List VI
  | .one v => [v]
  | .many vs => vs
  | .map m => m.map (·.2)
  | .mmap m => m.flatMap (·.2)
  | _ => []

/-- every `ValueInfo` held in the slots of a matcher -/
def matcherVIs (m : Matcher) : List VI := m.values.flatMap fun p => slotVIs p.2

/-- the `ValueInfo`s of a schema default -/
def dfltVIs : Default → List VI
  | .none => []
  | .one v => [v]
  | .many vs => vs
  | .keyed m => m.map (·.2)
  | .keyedMany m => m.flatMap (·.2)

/-- the position given to command-line overrides -/
def cmdPos : Pos := { line := -1, url := some "<command-line option>".toList }

/-- the loader holds text `v` with position `p` in one of its open sections -/
def RecLS (s : LS) (v : Str) (p : Pos) : Prop := ∃ m ∈ s.stack, ({ value := v, pos := p } : VI) ∈ matcherVIs m

theorem mem_matcherVIs_setSlot (m : Matcher) (attr : Str) (s : Slot) (vi : VI)
    (h : vi ∈ matcherVIs (setSlot m attr s)) : vi ∈ matcherVIs m ∨ vi ∈ slotVIs s := by
  unfold matcherVIs setSlot at h
  simp only [List.mem_flatMap, List.mem_map] at h
  obtain ⟨p, ⟨q, hq, rfl⟩, hv⟩ := h
  split at hv
  · exact .inr hv
  · exact .inl (by unfold matcherVIs; exact List.mem_flatMap.mpr ⟨q, hq, hv⟩)

theorem getSlot_mem (m : Matcher) (attr : Str) (sl : Slot) (vi : VI) (h : getSlot m attr = some sl) (hv : vi ∈ slotVIs sl) :
    vi ∈ matcherVIs m := by
  unfold getSlot at h
  cases hf : m.values.find? (·.1 == attr) with
  | none => rw [hf] at h; cases h
  | some p =>
    rw [hf] at h
    cases h
    exact List.mem_flatMap.mpr ⟨p, List.mem_of_find?_eq_some hf, hv⟩

theorem matcherVIs_newMatcher (t : SType) (nm : Option Str) (b : Option Bag) : matcherVIs (newMatcher t nm b) = [] := by
  unfold matcherVIs newMatcher
  simp only [List.flatMap_map, List.flatMap_eq_nil_iff]
  intro c _
  unfold initSlot
  cases c.2 with
  | key k => dsimp only; split <;> split <;> rfl
  | sect s => dsimp only; split <;> rfl

theorem slotStep_vis (ki : KeyInfo) (isArb : Bool) (rk : Str) (vi : VI) (sl r : Slot)
    (h : slotStep ki isArb rk vi sl = .ok r) : ∀ w ∈ slotVIs r, w ∈ slotVIs sl ∨ w = vi := by
  intro w hw
  cases sl with
  | none =>
    simp only [slotStep] at h
    split at h
    · cases h; simp [slotVIs] at hw; exact .inr hw
    · split at h
      · cases h; simp [slotVIs] at hw; exact .inr hw
      · cases h; simp [slotVIs] at hw; exact .inr hw
  | one v => simp only [slotStep] at h; (repeat' split at h) <;> cases h
  | many vs =>
    simp only [slotStep] at h
    cases h
    simp only [slotVIs, List.mem_append, List.mem_singleton] at hw
    exact hw
  | map mp =>
    simp only [slotStep] at h
    split at h
    · cases h
    · cases h
      simp only [slotVIs, List.map_append, List.mem_append, List.map_cons, List.map_nil, List.mem_singleton] at hw
      exact hw
  | mmap mp =>
    simp only [slotStep] at h
    split at h
    · cases h
      simp only [slotVIs, List.mem_flatMap, List.mem_map] at hw
      obtain ⟨q, ⟨p, hp, rfl⟩, hq⟩ := hw
      split at hq
      · simp only [List.mem_append, List.mem_singleton] at hq
        rcases hq with hq | hq
        · exact .inl (List.mem_flatMap.mpr ⟨p, hp, hq⟩)
        · exact .inr hq
      · exact .inl (List.mem_flatMap.mpr ⟨p, hp, hq⟩)
    · cases h
      simp only [slotVIs, List.flatMap_append, List.mem_append, List.flatMap_cons, List.flatMap_nil, List.append_nil,
        List.mem_singleton] at hw
      exact hw
  | sect v => simp only [slotStep] at h; cases h
  | sects vs => simp only [slotStep] at h; cases h
  | done v => simp only [slotStep] at h; cases h

/-- `addValue` (matcher level) adds at most the pair it is given, and keeps the matcher's type -/
theorem addValueCore_ok (m m' : Matcher) (key rk v : Str) (pos : Pos) (h : addValueCore m key rk v pos = .ok m') :
    m'.ty = m.ty ∧ m'.bag = m.bag ∧ ∀ w ∈ matcherVIs m', w ∈ matcherVIs m ∨ w = { value := v, pos := pos } := by
  rw [addValueCore_eq] at h
  split at h
  · cases h
  · cases h
  · rename_i k ki _
    split at h
    · cases h
    · rename_i sl hsl
      obtain ⟨r, hr, rfl⟩ := map_ok_inv h
      refine ⟨rfl, rfl, ?_⟩
      intro w hw
      rcases mem_matcherVIs_setSlot _ _ _ _ hw with hw | hw
      · exact .inl hw
      · rcases slotStep_vis _ _ _ _ _ _ hr w hw with hw | hw
        · exact .inl (getSlot_mem _ _ _ _ hsl hw)
        · exact .inr hw

/-- a configuration error without position, text or special kind (`ConfigurationError(msg)`) -/
def PlainNoPos (e : Err) : Prop := e.kind = .plain ∧ e.line = none ∧ e.url = none ∧ e.value = none

theorem plainErr_inv (tag : String) (e : Err) (h : plainErr tag = .cfg e) : PlainNoPos e := by
  cases h; exact ⟨rfl, rfl, rfl, rfl⟩

theorem addValueCore_error (m : Matcher) (key rk v : Str) (pos : Pos) (e : Err)
    (h : addValueCore m key rk v pos = .error (.cfg e)) : PlainNoPos e := by
  rw [addValueCore_eq] at h
  split at h
  · cases h; exact ⟨rfl, rfl, rfl, rfl⟩
  · cases h; exact ⟨rfl, rfl, rfl, rfl⟩
  · rename_i k ki _
    split at h
    · cases h
    · rename_i sl hsl
      cases hst : slotStep ki (k == some ['+']) rk { value := v, pos := pos } sl with
      | ok r => rw [hst] at h; cases h
      | error f =>
        rw [hst] at h
        cases h
        cases sl <;> simp only [slotStep] at hst <;> (repeat' split at hst) <;> cases hst <;> exact ⟨rfl, rfl, rfl, rfl⟩

/-- the configuration errors of `convFail`: a conversion error with exactly the text and position given -/
theorem convFail_inv (ce : ConvErr) (value : Option Str) (pos : Pos) (tag : String) (e : Err)
    (h : convFail ce value pos tag = .cfg e) :
    e.kind = .conversion ∧ e.value = value ∧ e.line = some pos.line ∧ e.url = pos.url := by
  unfold convFail at h
  split at h
  · cases h; exact ⟨rfl, rfl, rfl, rfl⟩
  · cases h
  · cases h

/-- `addValue` as the loader offers it: the key cannot be converted (the error carries the key text and the position handed
    in), or the error is plain and carries no position -/
theorem lsValue_error (st : LS) (key value : Str) (pos : Pos) (e : Err) (h : lsValue st key value pos = .error (.cfg e)) :
    (e.kind = .conversion ∧ e.value = some key ∧ e.line = some pos.line ∧ e.url = pos.url) ∨ PlainNoPos e := by
  unfold lsValue at h
  split at h
  · rename_i cur below _
    cases ha : addValue st.conv cur key value pos with
    | ok m => rw [ha] at h; cases h
    | error f =>
      rw [ha] at h
      cases h
      unfold addValue at ha
      split at ha
      · injection ha with ha
        exact .inl (convFail_inv _ _ _ _ _ ha)
      · split at ha
        · split at ha
          · cases ha
          · exact .inr (addValueCore_error _ _ _ _ _ _ ha)
        · exact .inr (addValueCore_error _ _ _ _ _ _ ha)
  · cases h

theorem lsValue_ok (st st' : LS) (key value : Str) (pos : Pos) (h : lsValue st key value pos = .ok st') (v : Str) (p : Pos)
    (hr : RecLS st' v p) : RecLS st v p ∨ (v = value ∧ p = pos) := by
  unfold lsValue at h
  split at h
  · rename_i cur below hst
    obtain ⟨m, hm, rfl⟩ := map_ok_inv h
    obtain ⟨m', hm', hv⟩ := hr
    simp only [List.mem_cons] at hm'
    rcases hm' with rfl | hm'
    · unfold addValue at hm
      split at hm
      · cases hm
      · rename_i rk _
        have key : addValueCore cur key rk value pos = .ok m' ∨ cur = m' := by
          split at hm
          · split at hm
            · cases hm; exact .inr rfl
            · exact .inl hm
          · exact .inl hm
        rcases key with hk | rfl
        · rcases (addValueCore_ok _ _ _ _ _ _ hk).2.2 _ hv with h1 | h1
          · exact .inl ⟨cur, by rw [hst]; exact List.mem_cons_self, h1⟩
          · cases h1; exact .inr ⟨rfl, rfl⟩
        · exact .inl ⟨cur, by rw [hst]; exact List.mem_cons_self, hv⟩
    · exact .inl ⟨m', by rw [hst]; exact List.mem_cons_of_mem _ hm', hv⟩
  · cases h

/-! ### `startSection`, `endSection`, `importSchemaComponent` store nothing -/

theorem lsStart_ok_stack (st st' : LS) (ty : Str) (nm : Option Str) (h : lsStart st ty nm = .ok st') :
    ∃ parent below t b ob, st.stack = parent :: below ∧
      st'.stack = newMatcher t nm b :: { parent with bag := ob } :: below ∧
      st.schema.gettype ty = some (.concrete t) ∧ st'.schema = st.schema ∧ st'.conv = st.conv := by
  unfold lsStart at h
  split at h
  · cases h
  · rename_i parent below hst
    split at h
    · cases h
    · cases h
    · rename_i t ht
      simp only [bind, Except.bind, pure, Except.pure] at h
      split at h
      · cases h
      · split at h
        · cases h
        · split at h
          · cases h
          · split at h
            · rename_i hb
              cases h
              exact ⟨parent, below, t, none, none, hst, by rw [← hb], ht, rfl, rfl⟩
            · split at h
              · cases h
              · cases h
                exact ⟨parent, below, t, _, _, hst, rfl, ht, rfl, rfl⟩

theorem lsStart_ok_rec (st st' : LS) (ty : Str) (nm : Option Str) (h : lsStart st ty nm = .ok st') (v : Str) (p : Pos)
    (hr : RecLS st' v p) : RecLS st v p := by
  obtain ⟨parent, below, t, b, ob, hst, hst', _, _, _⟩ := lsStart_ok_stack _ _ _ _ h
  obtain ⟨m, hm, hv⟩ := hr
  rw [hst'] at hm
  simp only [List.mem_cons] at hm
  rcases hm with rfl | rfl | hm
  · rw [matcherVIs_newMatcher] at hv; cases hv
  · exact ⟨parent, by rw [hst]; exact List.mem_cons_self, hv⟩
  · exact ⟨m, by rw [hst]; exact List.mem_cons_of_mem _ hm, hv⟩

theorem getsectioninfo_error (s : Schema) (t : SType) (ty : Str) (name : Option Str) (e : Err)
    (h : getsectioninfo s t ty name = .error (.cfg e)) : PlainNoPos e := by
  unfold getsectioninfo at h
  have hU : ∀ (info : Info) (rest : List (Option Str × Info)),
      (getsectioninfo.go s ty name rest = .error (.cfg e) → PlainNoPos e) →
      getsectioninfo.goUnkeyed s ty name info rest = .error (.cfg e) → PlainNoPos e := by
    intro info rest ih h
    unfold getsectioninfo.goUnkeyed at h
    split at h
    · cases h
    · split at h
      · split at h
        · cases h
        · exact plainErr_inv _ _ (by injection h)
      · split at h
        · split at h
          · cases h
          · exact ih h
        · exact ih h
  generalize t.children = l at h
  induction l with
  | nil => unfold getsectioninfo.go at h; exact plainErr_inv _ _ (by injection h)
  | cons c rest ih =>
    obtain ⟨key, info⟩ := c
    unfold getsectioninfo.go at h
    split at h
    · split at h
      · split at h
        · split at h
          · exact plainErr_inv _ _ (by injection h)
          · split at h
            · split at h
              · cases h
              · exact plainErr_inv _ _ (by injection h)
            · split at h
              · exact plainErr_inv _ _ (by injection h)
              · cases h
        · exact ih h
      · exact hU _ _ ih h
    · exact hU _ _ ih h

/-- the name bookkeeping of `addSection` -/
def addSectionName (m : Matcher) (name : Option Str) : M Matcher :=
  match name with
  | some n =>
    if n != [] then
      if m.used.contains n then throw (plainErr "section names must not be re-used")
      else pure { m with used := m.used ++ [n] }
    else pure m
  | Option.none => pure m

/-- the slot update of `addSection` -/
def addSectionPlace (s : Schema) (m1 : Matcher) (ty : Str) (name : Option Str) (v : Val) : M Matcher := do
  let ci ← getsectioninfo s m1.ty ty name
  match getSlot m1 ci.attr with
  | Option.none => throw (.internal "KeyError")
  | some (.sects vs) => if ci.multi then pure (setSlot m1 ci.attr (.sects (vs ++ [v]))) else throw (.internal "AttributeError")
  | some .none => if ci.multi then throw (.internal "AttributeError") else pure (setSlot m1 ci.attr (.sect v))
  | some _ => if ci.multi then throw (.internal "AttributeError") else throw (plainErr "too many instances of section")

theorem addSection_split (s : Schema) (m : Matcher) (ty : Str) (name : Option Str) (v : Val) :
    addSection s m ty name v = (addSectionName m name >>= fun m1 => addSectionPlace s m1 ty name v) := by
  unfold addSection addSectionName
  cases name with
  | none => rfl
  | some n =>
    dsimp only
    by_cases h1 : (n != []) = true
    · rw [if_pos h1, if_pos h1]
      by_cases h2 : m.used.contains n = true
      · rw [if_pos h2, if_pos h2]; rfl
      · rw [if_neg h2, if_neg h2]; rfl
    · rw [if_neg h1, if_neg h1]; rfl

theorem addSectionName_error (m : Matcher) (name : Option Str) (e : Err) (h : addSectionName m name = .error (.cfg e)) :
    PlainNoPos e := by
  unfold addSectionName at h
  split at h
  · split at h
    · split at h
      · exact plainErr_inv _ _ (by injection h)
      · cases h
    · cases h
  · cases h

theorem addSectionName_ok (m m1 : Matcher) (name : Option Str) (h : addSectionName m name = .ok m1) :
    matcherVIs m1 = matcherVIs m := by
  unfold addSectionName at h
  split at h
  · split at h
    · split at h
      · cases h
      · cases h; rfl
    · cases h; rfl
  · cases h; rfl

theorem addSectionPlace_error (s : Schema) (m1 : Matcher) (ty : Str) (name : Option Str) (v : Val) (e : Err)
    (h : addSectionPlace s m1 ty name v = .error (.cfg e)) : PlainNoPos e := by
  unfold addSectionPlace at h
  simp only [bind, Except.bind, pure, Except.pure, throw, throwThe, MonadExceptOf.throw] at h
  split at h
  · rename_i f hf
    cases h
    exact getsectioninfo_error _ _ _ _ _ hf
  · split at h
    · cases h
    · split at h <;> cases h
    · split at h <;> cases h
    · split at h
      · cases h
      · exact plainErr_inv _ _ (by injection h)

theorem addSectionPlace_ok (s : Schema) (m1 m' : Matcher) (ty : Str) (name : Option Str) (v : Val)
    (h : addSectionPlace s m1 ty name v = .ok m') : ∀ w ∈ matcherVIs m', w ∈ matcherVIs m1 := by
  unfold addSectionPlace at h
  simp only [bind, Except.bind, pure, Except.pure, throw, throwThe, MonadExceptOf.throw] at h
  split at h
  · cases h
  · rename_i ci _
    have key : ∀ sl, slotVIs sl = [] → m' = setSlot m1 ci.attr sl → ∀ w ∈ matcherVIs m', w ∈ matcherVIs m1 := by
      intro sl hsl hm' w hw
      subst hm'
      rcases mem_matcherVIs_setSlot _ _ _ _ hw with hw | hw
      · exact hw
      · rw [hsl] at hw; cases hw
    split at h
    · cases h
    · split at h
      · cases h; exact key _ rfl rfl
      · cases h
    · split at h
      · cases h
      · cases h; exact key _ rfl rfl
    · split at h <;> cases h

theorem addSection_error (s : Schema) (m : Matcher) (ty : Str) (name : Option Str) (v : Val) (e : Err)
    (h : addSection s m ty name v = .error (.cfg e)) : PlainNoPos e := by
  rw [addSection_split] at h
  cases h1 : addSectionName m name with
  | error f => rw [h1] at h; cases h; exact addSectionName_error _ _ _ h1
  | ok m1 => rw [h1] at h; exact addSectionPlace_error _ _ _ _ _ _ h

theorem addSection_ok (s : Schema) (m m' : Matcher) (ty : Str) (name : Option Str) (v : Val)
    (h : addSection s m ty name v = .ok m') : ∀ w ∈ matcherVIs m', w ∈ matcherVIs m := by
  rw [addSection_split] at h
  obtain ⟨m1, h1, h2⟩ := bind_ok_inv h
  intro w hw
  rw [← addSectionName_ok _ _ _ h1]
  exact addSectionPlace_ok _ _ _ _ _ _ h2 w hw

theorem lsStop_ok_rec (st st' : LS) (ty : Str) (nm : Option Str) (h : lsStop st ty nm = .ok st') (v : Str) (p : Pos)
    (hr : RecLS st' v p) : RecLS st v p := by
  unfold lsStop at h
  split at h
  · rename_i child parent below hst
    simp only [bind, Except.bind, pure, Except.pure] at h
    split at h
    · cases h
    · split at h
      · cases h
      · rename_i parent' hp
        cases h
        obtain ⟨m, hm, hv⟩ := hr
        simp only [List.mem_cons] at hm
        rcases hm with rfl | hm
        · exact ⟨parent, by rw [hst]; simp, addSection_ok _ _ _ _ _ _ hp _ hv⟩
        · exact ⟨m, by rw [hst]; simp [hm], hv⟩
  · cases h

/-- a conversion error of `endSection` is a conversion error of `finish()`/`constuct()` on the section being closed -/
theorem lsStop_error_conversion (st : LS) (ty : Str) (nm : Option Str) (e : Err) (h : lsStop st ty nm = .error (.cfg e))
    (hk : e.kind = .conversion) :
    ∃ child parent below, st.stack = child :: parent :: below ∧
      finishMatcher st.conv st.schema child = .error (.cfg e) := by
  unfold lsStop at h
  split at h
  · rename_i child parent below hst
    simp only [bind, Except.bind, pure, Except.pure] at h
    split at h
    · rename_i f hf
      cases h
      exact ⟨child, parent, below, hst, hf⟩
    · split at h
      · rename_i f hf
        cases h
        have := addSection_error _ _ _ _ _ _ hf
        rw [this.1] at hk
        cases hk
      · cases h
  · cases h

theorem lsImport_ok_stack (st st' : LS) (pkg : Str) (h : lsImport st pkg = .ok st') : st'.stack = st.stack := by
  unfold lsImport at h
  split at h
  · cases h
  · cases h
  · cases h
  · cases h
  · split at h
    · cases h; rfl
    · simp only [bind, Except.bind, pure, Except.pure] at h
      split at h
      · cases h
      · cases h; rfl

/-- `importSchemaComponent` only raises schema errors -/
theorem lsImport_error (st : LS) (pkg : Str) (e : Err) (h : lsImport st pkg = .error (.cfg e)) :
    e.kind = .schema ∨ e.kind = .schemaResource := by
  unfold lsImport at h
  split at h
  · cases h; exact .inl rfl
  · cases h; exact .inr rfl
  · cases h; exact .inr rfl
  · cases h; exact .inr rfl
  · split at h
    · cases h
    · simp only [bind, Except.bind, pure, Except.pure] at h
      split at h
      · rename_i f hf
        cases h
        have := (foldlM_inv _ (fun _ => True) (fun _ _ _ _ _ => trivial) _ _ trivial).2 _ hf
        obtain ⟨acc, x, _, _, hx⟩ := this
        split at hx
        · cases hx; exact .inl rfl
        · cases hx
      · cases h

/-! ### the conversion errors of `finish()` / `constuct()` -/


theorem convVI_error (conv : Conv) (dt : Str) (vi : VI) (e : Err) (h : convVI conv dt vi = .error (.cfg e)) :
    e.kind = .conversion ∧ e.value = some vi.value ∧ e.line = some vi.pos.line ∧ e.url = vi.pos.url := by
  unfold convVI at h
  split at h
  · cases h
  · injection h with h
    exact convFail_inv _ _ _ _ _ h

theorem sectConvF_error (conv : Conv) (s : Schema) (v : Val) (e : Err) (h : sectConvF conv s v = .error (.cfg e)) :
    e.kind = .conversion ∧ e.value = none ∧ e.line = some (-1) ∧ e.url = none := by
  unfold sectConvF at h
  split at h
  · split at h
    · split at h
      · cases h
      · injection h with h
        exact convFail_inv _ _ _ _ _ h
    · cases h
  · cases h

/-- what a conversion error of `finish()`/`constuct()` is about -/
inductive ConvAbout (held : List VI) (dflts : List VI) (e : Err) : Prop
  /-- a value the matcher holds: the error carries its text and its position -/
  | held (w : VI) (hw : w ∈ held) (hv : e.value = some w.value) (hl : e.line = some w.pos.line) (hu : e.url = w.pos.url)
  /-- a default of the schema: the error carries its text and its position (in the schema) -/
  | dflt (w : VI) (hw : w ∈ dflts) (hv : e.value = some w.value) (hl : e.line = some w.pos.line) (hu : e.url = w.pos.url)
  /-- the section datatype refused the finished section: no text, no position -/
  | sect (hv : e.value = none) (hl : e.line = some (-1)) (hu : e.url = none)
  /-- a command-line override: its text, the pseudo position of the command line -/
  | cmd (hv : e.value.isSome = true) (hl : e.line = some (-1)) (hu : e.url = some "<command-line option>".toList)

/-- the defaults the schema gives the keys of a section type -/
def typeDflts (t : SType) : List VI :=
  t.children.flatMap fun c => match c.2 with | .key ki => dfltVIs ki.dflt | .sect _ => []

theorem finishChild_error (ci : Info) (sl : Slot) (e : Err) (h : finishChild ci sl = .error (.cfg e)) : PlainNoPos e := by
  unfold finishChild at h
  repeat' (first | (split at h) | (dsimp only at h))
  all_goals first | (cases h; done) | exact plainErr_inv _ _ (by injection h)

theorem finishChild_vis (ci : Info) (sl r : Slot) (h : finishChild ci sl = .ok r) :
    ∀ w ∈ slotVIs r, w ∈ slotVIs sl ∨ ∃ ki, ci = .key ki ∧ w ∈ dfltVIs ki.dflt := by
  intro w hw
  unfold finishChild at h
  repeat' (first | (split at h) | (dsimp only at h))
  all_goals first
    | (cases h; done)
    | (cases h; exact .inl hw)
    | (cases h; simp [slotVIs] at hw; done)
    | (cases h; refine .inr ⟨_, rfl, ?_⟩; simp_all [dfltVIs, slotVIs]; done)

theorem constructChild_error (conv : Conv) (s : Schema) (ci : Info) (sl : Slot) (e : Err)
    (h : constructChild conv s ci sl = .error (.cfg e)) :
    e.kind = .conversion ∧
      ((∃ w, (w ∈ slotVIs sl ∨ ∃ ki, ci = .key ki ∧ w ∈ dfltVIs ki.dflt) ∧
          e.value = some w.value ∧ e.line = some w.pos.line ∧ e.url = w.pos.url) ∨
       (e.value = none ∧ e.line = some (-1) ∧ e.url = none)) := by
  cases ci with
  | sect si =>
    cases sl with
    | sects vs =>
      rw [constructChild_sects] at h
      obtain ⟨v, _, hv⟩ := mapM_error_mem _ _ _ (map_error_inv h)
      obtain ⟨h1, h2⟩ := sectConvF_error _ _ _ _ hv
      exact ⟨h1, .inr h2⟩
    | sect v =>
      rw [constructChild_sect] at h
      obtain ⟨h1, h2⟩ := sectConvF_error _ _ _ _ h
      exact ⟨h1, .inr h2⟩
    | none => cases h
    | one v => cases h
    | many vs => cases h
    | map mp => cases h
    | mmap mp => cases h
    | done v => cases h
  | key ki =>
    cases sl with
    | sects vs => cases h
    | sect v => cases h
    | none => cases h
    | done v => cases h
    | one vi =>
      have h' : convVI conv ki.dt vi = .error (.cfg e) := h
      obtain ⟨h1, h2⟩ := convVI_error _ _ _ _ h'
      exact ⟨h1, .inl ⟨vi, .inl (by simp [slotVIs]), h2⟩⟩
    | many vs =>
      have h' : (vs.mapM (convVI conv ki.dt)).map Val.list = .error (.cfg e) := h
      obtain ⟨vi, hvi, hv⟩ := mapM_error_mem _ _ _ (map_error_inv h')
      obtain ⟨h1, h2⟩ := convVI_error _ _ _ _ hv
      exact ⟨h1, .inl ⟨vi, .inl hvi, h2⟩⟩
    | mmap mp =>
      have h' : (mp.mapM fun (kv : Str × List VI) => (kv.2.mapM (convVI conv ki.dt)).map fun r => (kv.1, Val.list r)).map Val.map
          = .error (.cfg e) := h
      obtain ⟨kv, hkv, hv⟩ := mapM_error_mem _ _ _ (map_error_inv h')
      obtain ⟨vi, hvi, hv⟩ := mapM_error_mem _ _ _ (map_error_inv hv)
      obtain ⟨h1, h2⟩ := convVI_error _ _ _ _ hv
      exact ⟨h1, .inl ⟨vi, .inl (List.mem_flatMap.mpr ⟨kv, hkv, hvi⟩), h2⟩⟩
    | map mp =>
      have h' : ((if mp == [] then (match ki.dflt with | .keyed d => d | _ => []) else mp).mapM
          fun (kv : Str × VI) => (convVI conv ki.dt kv.2).map fun r => (kv.1, r)).map Val.map = .error (.cfg e) := h
      obtain ⟨kv, hkv, hv⟩ := mapM_error_mem _ _ _ (map_error_inv h')
      obtain ⟨h1, h2⟩ := convVI_error _ _ _ _ (map_error_inv hv)
      refine ⟨h1, .inl ⟨kv.2, ?_, h2⟩⟩
      split at hkv
      · split at hkv
        · rename_i d hd
          exact .inr ⟨ki, rfl, by rw [hd]; exact List.mem_map.mpr ⟨kv, hkv, rfl⟩⟩
        · cases hkv
      · exact .inl (List.mem_map.mpr ⟨kv, hkv, rfl⟩)

/-- the configuration errors of `finish_optionbag` -/
def CmdErr (e : Err) : Prop :=
  (e.kind = .conversion ∧ e.value.isSome = true ∧ e.line = some (-1) ∧ e.url = some "<command-line option>".toList) ∨
  PlainNoPos e

/-- one command-line value added to the matcher -/
def bagStep (conv : Conv) (k : Str) (m : Matcher) (v : Str) : M Matcher :=
  match conv.key m.ty.keytype k with
  | .error e => .error (convFail e (some k) { line := -1, url := some "<command-line option>".toList } "key")
  | .ok rk => addValueCore m k rk v { line := -1, url := some "<command-line option>".toList }

theorem finishBag_eq (conv : Conv) (m : Matcher) :
    finishBag conv m =
      match m.bag with
      | none => .ok m
      | some b =>
        (b.keypairs.foldlM (fun (m : Matcher) (kv : Str × List Str) => kv.2.foldlM (bagStep conv kv.1) m) m) >>= fun m' =>
          if !b.sectitems.isEmpty then .error (plainErr "not all command line options were consumed")
          else .ok { m' with bag := none } := by
  unfold finishBag
  cases m.bag with
  | none => rfl
  | some b =>
    dsimp only
    show (_ >>= _) = (_ >>= _)
    congr 1

theorem bagStep_ok (conv : Conv) (k : Str) (m m' : Matcher) (v : Str) (h : bagStep conv k m v = .ok m') :
    m'.ty = m.ty ∧ ∀ w ∈ matcherVIs m', w ∈ matcherVIs m ∨ w.pos = cmdPos := by
  unfold bagStep at h
  split at h
  · cases h
  · obtain ⟨h1, _, h3⟩ := addValueCore_ok _ _ _ _ _ _ h
    refine ⟨h1, fun w hw => ?_⟩
    rcases h3 w hw with h4 | h4
    · exact .inl h4
    · exact .inr (by rw [h4]; rfl)

theorem bagStep_error (conv : Conv) (k : Str) (m : Matcher) (v : Str) (e : Err) (h : bagStep conv k m v = .error (.cfg e)) :
    CmdErr e := by
  unfold bagStep at h
  split at h
  · injection h with h
    obtain ⟨h1, h2, h3, h4⟩ := convFail_inv _ _ _ _ _ h
    exact .inl ⟨h1, by rw [h2]; rfl, h3, h4⟩
  · exact .inr (addValueCore_error _ _ _ _ _ _ h)

/-- `finish_optionbag`: the matcher afterwards holds what it held plus command-line values; its errors are those of the
    command line -/
theorem finishBag_spec (conv : Conv) (m0 : Matcher) :
    (∀ m, finishBag conv m0 = .ok m → m.ty = m0.ty ∧ ∀ w ∈ matcherVIs m, w ∈ matcherVIs m0 ∨ w.pos = cmdPos) ∧
    (∀ e, finishBag conv m0 = .error (.cfg e) → CmdErr e) := by
  rw [finishBag_eq]
  cases hb : m0.bag with
  | none =>
    dsimp only
    constructor
    · intro m h; cases h; exact ⟨rfl, fun w hw => .inl hw⟩
    · intro e h; cases h
  | some b =>
    dsimp only
    let P : Matcher → Prop := fun m => m.ty = m0.ty ∧ ∀ w ∈ matcherVIs m, w ∈ matcherVIs m0 ∨ w.pos = cmdPos
    have hP0 : P m0 := ⟨rfl, fun w hw => .inl hw⟩
    have hin : ∀ k acc x acc', P acc → bagStep conv k acc x = .ok acc' → P acc' := by
      intro k acc x acc' hp h
      obtain ⟨h1, h2⟩ := bagStep_ok _ _ _ _ _ h
      refine ⟨h1.trans hp.1, fun w hw => ?_⟩
      rcases h2 w hw with h3 | h3
      · exact hp.2 w h3
      · exact .inr h3
    have hout : ∀ acc (kv : Str × List Str) acc', P acc → kv.2.foldlM (bagStep conv kv.1) acc = .ok acc' → P acc' := by
      intro acc kv acc' hp h
      exact (foldlM_inv _ P (hin kv.1) _ _ hp).1 _ h
    obtain ⟨o1, o2⟩ := foldlM_inv (fun (m : Matcher) (kv : Str × List Str) => kv.2.foldlM (bagStep conv kv.1) m) P hout
      b.keypairs m0 hP0
    constructor
    · intro m h
      obtain ⟨m', hm', h⟩ := bind_ok_inv h
      split at h
      · cases h
      · cases h
        have := o1 _ hm'
        exact ⟨this.1, this.2⟩
    · intro e h
      cases hf : b.keypairs.foldlM (fun (m : Matcher) (kv : Str × List Str) => kv.2.foldlM (bagStep conv kv.1) m) m0 with
      | error f =>
        rw [hf] at h
        cases h
        obtain ⟨acc, kv, hp, _, hx⟩ := o2 _ hf
        obtain ⟨acc', v, _, _, hx'⟩ := (foldlM_inv _ P (hin kv.1) _ _ hp).2 _ hx
        exact bagStep_error _ _ _ _ _ hx'
      | ok m' =>
        rw [hf, ok_bind] at h
        split at h
        · exact .inr (plainErr_inv _ _ (by injection h))
        · cases h

theorem finishMatcher_eq_bag (conv : Conv) (s : Schema) (m0 : Matcher) :
    finishMatcher conv s m0 = (finishBag conv m0 >>= finishMatcher' conv s) := by
  unfold finishMatcher
  cases finishBag conv m0 <;> rfl

theorem fin1_ok (m : Matcher) (c : Option Str × Info) (p : Info × Slot) (h : fin1 m c = .ok p) :
    p.1 = c.2 ∧ ∀ w ∈ slotVIs p.2, w ∈ matcherVIs m ∨ ∃ ki, c.2 = .key ki ∧ w ∈ dfltVIs ki.dflt := by
  unfold fin1 at h
  split at h
  · rename_i sl hsl
    obtain ⟨r, hr, rfl⟩ := map_ok_inv h
    refine ⟨rfl, fun w hw => ?_⟩
    rcases finishChild_vis _ _ _ hr w hw with h1 | h1
    · exact .inl (getSlot_mem _ _ _ _ hsl h1)
    · exact .inr h1
  · cases h

theorem fin1_error (m : Matcher) (c : Option Str × Info) (e : Err) (h : fin1 m c = .error (.cfg e)) : PlainNoPos e := by
  unfold fin1 at h
  split at h
  · exact finishChild_error _ _ _ (map_error_inv h)
  · cases h

theorem mem_typeDflts (t : SType) (c : Option Str × Info) (hc : c ∈ t.children) (ki : KeyInfo) (hk : c.2 = .key ki) (w : VI)
    (hw : w ∈ dfltVIs ki.dflt) : w ∈ typeDflts t := by
  unfold typeDflts
  refine List.mem_flatMap.mpr ⟨c, hc, ?_⟩
  rw [hk]
  exact hw

/-- **the conversion errors of closing a section.**  A conversion error raised by `finish()`/`constuct()` on matcher `m0` is
    about a value the matcher holds (and then carries the text and the position stored with that value), about a default of
    the schema, about the section datatype, or about a command-line override. -/
theorem finishMatcher_conversion (conv : Conv) (s : Schema) (m0 : Matcher) (e : Err)
    (h : finishMatcher conv s m0 = .error (.cfg e)) (hk : e.kind = .conversion) :
    ConvAbout (matcherVIs m0) (typeDflts m0.ty) e := by
  rw [finishMatcher_eq_bag] at h
  obtain ⟨b1, b2⟩ := finishBag_spec conv m0
  cases hb : finishBag conv m0 with
  | error f =>
    rw [hb] at h
    cases h
    rcases b2 _ hb with ⟨_, h2, h3, h4⟩ | h1
    · exact .cmd h2 h3 h4
    · rw [h1.1] at hk; cases hk
  | ok m =>
    rw [hb, ok_bind] at h
    obtain ⟨hty, hvis⟩ := b1 _ hb
    unfold finishMatcher' at h
    cases h1 : m.ty.children.mapM (fin1 m) with
    | error f =>
      rw [h1] at h
      cases h
      obtain ⟨c, _, hc⟩ := mapM_error_mem _ _ _ h1
      have := fin1_error _ _ _ hc
      rw [this.1] at hk; cases hk
    | ok slots =>
      rw [h1, ok_bind] at h
      cases h2 : slots.mapM (fin2 conv s) with
      | ok vals => rw [h2] at h; cases h
      | error f =>
        rw [h2] at h
        cases h
        obtain ⟨p, hp, hc⟩ := mapM_error_mem _ _ _ h2
        obtain ⟨c, hcm, hcp⟩ := mapM_ok_mem _ _ _ h1 p hp
        obtain ⟨hp1, hp2⟩ := fin1_ok _ _ _ hcp
        unfold fin2 at hc
        obtain ⟨_, hcase⟩ := constructChild_error _ _ _ _ _ (map_error_inv hc)
        rcases hcase with ⟨w, hw, hv, hl, hu⟩ | ⟨hv, hl, hu⟩
        · have hdf : ∀ ki, c.2 = .key ki → w ∈ dfltVIs ki.dflt → ConvAbout (matcherVIs m0) (typeDflts m0.ty) e := by
            intro ki hki hwd
            exact .dflt w (mem_typeDflts _ c (by rw [← hty]; exact hcm) ki hki w hwd) hv hl hu
          rcases hw with hw | ⟨ki, hki, hw⟩
          · rcases hp2 w hw with h3 | ⟨ki, hki, h3⟩
            · rcases hvis w h3 with h4 | h4
              · exact .held w h4 hv hl hu
              · exact .cmd (by rw [hv]; rfl) (by rw [hl, h4]; rfl) (by rw [hu, h4]; rfl)
            · exact hdf ki hki h3
          · exact hdf ki (by rw [← hp1]; exact hki) hw
        · exact .sect hv hl hu

/-- `finish()`/`constuct()` only raises conversion errors and plain errors without position -/
theorem finishMatcher_error (conv : Conv) (s : Schema) (m0 : Matcher) (e : Err)
    (h : finishMatcher conv s m0 = .error (.cfg e)) : e.kind = .conversion ∨ PlainNoPos e := by
  rw [finishMatcher_eq_bag] at h
  cases hb : finishBag conv m0 with
  | error f =>
    rw [hb] at h
    cases h
    rcases (finishBag_spec conv m0).2 _ hb with ⟨h1, _⟩ | h1
    · exact .inl h1
    · exact .inr h1
  | ok m =>
    rw [hb, ok_bind] at h
    unfold finishMatcher' at h
    cases h1 : m.ty.children.mapM (fin1 m) with
    | error f =>
      rw [h1] at h
      cases h
      obtain ⟨c, _, hc⟩ := mapM_error_mem _ _ _ h1
      exact .inr (fin1_error _ _ _ hc)
    | ok slots =>
      rw [h1, ok_bind] at h
      cases h2 : slots.mapM (fin2 conv s) with
      | ok vals => rw [h2] at h; cases h
      | error f =>
        rw [h2] at h
        cases h
        obtain ⟨p, _, hc⟩ := mapM_error_mem _ _ _ h2
        unfold fin2 at hc
        exact .inl (constructChild_error _ _ _ _ _ (map_error_inv hc)).1

/-- the loader only stores the `(text, position)` pairs `addValue` hands it -/
theorem records_loader : Records loaderCtx RecLS where
  start := fun s ty nm s' v p h hr => lsStart_ok_rec s s' ty nm h v p hr
  stop := fun s ty nm s' v p h hr => lsStop_ok_rec s s' ty nm h v p hr
  imp := fun s pkg s' v p h hr => by
    have := lsImport_ok_stack s s' pkg h
    unfold RecLS at hr ⊢
    rw [this] at hr
    exact hr
  value := fun s k w q s' v p h hr => lsValue_ok s s' k w q h v p hr

/-! ### conversion errors of a whole parse driven by the loader -/

/-- the line number after the fix-up -/
def fixLine (n : Nat) (l : Int) : Int := if l < 0 then (n : Int) else l
/-- the URL after the fix-up -/
def fixUrl (u : Option Str) (x : Option Str) : Option Str :=
  match x with
  | some v => if v == [] then u else some v
  | none => u

theorem fixPos_line_eq (url : Option Str) (line : Nat) (e : Err) (l : Int) (h : e.line = some l) :
    (fixPos url line e).line = some (fixLine line l) := by
  unfold fixPos fixLine
  simp only [h]
  split <;> rfl

theorem fixPos_url_eq (url : Option Str) (line : Nat) (e : Err) : (fixPos url line e).url = fixUrl url e.url := rfl

theorem fixLine_nonneg (n : Nat) (l : Int) (h : 0 ≤ l) : fixLine n l = l := by
  unfold fixLine
  rw [if_neg (by omega)]

/-- what a conversion error that ends the loader's parse at line `n` of resource `u` (parser state `sF`) is about, and what it
    carries -/
inductive LoaderConv (u : Option Str) (n : Nat) (sF : PS LS) (e : Err) : Prop
  /-- the key of the culprit line cannot be converted: the key text, this line, this resource -/
  | key (key v : Str) (h : lsValue sF.ctx key v { line := n, url := u } = .error (.cfg e))
      (hv : e.value = some key) (hl : e.line = some (n : Int)) (hu : e.url = u)
  /-- a value held by an open section cannot be converted when the section closes on the culprit line: the text of the value
      and the position stored with it -/
  | held (w : VI) (hr : RecLS sF.ctx w.value w.pos)
      (hv : e.value = some w.value) (hl : e.line = some (fixLine n w.pos.line)) (hu : e.url = fixUrl u w.pos.url)
  /-- a default of the schema cannot be converted when the section closes: its text and its position in the schema -/
  | dflt (t : SType) (w : VI) (hw : w ∈ typeDflts t)
      (hv : e.value = some w.value) (hl : e.line = some (fixLine n w.pos.line)) (hu : e.url = fixUrl u w.pos.url)
  /-- the section datatype refuses the section closed on the culprit line: no text; this line, this resource -/
  | sect (hv : e.value = none) (hl : e.line = some (n : Int)) (hu : e.url = u)
  /-- a command-line override cannot be converted when the section closes: its text, this line, the pseudo URL of the
      command line -/
  | cmd (hv : e.value.isSome = true) (hl : e.line = some (n : Int)) (hu : e.url = some "<command-line option>".toList)

theorem loader_lineErr_conversion {u : Option Str} {n : Nat} {sF : PS LS} {e : Err}
    (h : LineErr loaderCtx u n sF e) (hk : e.kind = .conversion) : LoaderConv u n sF e := by
  cases h with
  | parser hl hu hk' hv => rw [hk] at hk'; rcases hk' with h | h | h <;> cases h
  | value key v e' h he =>
    subst he
    rw [fixPos_kind] at hk
    rcases lsValue_error _ _ _ _ _ h with ⟨_, h2, h3, h4⟩ | h1
    · obtain ⟨f1, f2⟩ := fixPos_same u n e' h3 h4
      have hsame : fixPos u n e' = e' := by
        cases e' with
        | mk kind line url tag value =>
          simp only at h3 h4 f1 f2
          unfold fixPos at f1 f2 ⊢
          simp only at f1 f2 ⊢
          rw [f1, f2, h3, h4]
      rw [hsame]
      exact .key key v h h2 h3 h4
    · rw [h1.1] at hk; cases hk
  | stop ctx ty nm e' hctx h hk' he =>
    subst he
    obtain ⟨child, parent, below, hst, hfin⟩ := lsStop_error_conversion _ _ _ _ h hk'
    have hrec : ∀ v p, RecLS ctx v p → RecLS sF.ctx v p := by
      intro v p hr
      rcases hctx with rfl | hctx
      · exact hr
      · exact lsStart_ok_rec _ _ _ _ hctx v p hr
    have hx := finishMatcher_conversion _ _ _ _ hfin hk'
    cases hx with
    | held w hw hv hl hu =>
      refine .held w (hrec _ _ ⟨child, by rw [hst]; exact List.mem_cons_self, hw⟩) hv ?_ ?_
      · rw [fixPos_line_eq _ _ _ _ hl]
      · rw [fixPos_url_eq, hu]
    | dflt w hw hv hl hu =>
      refine .dflt child.ty w hw hv ?_ ?_
      · rw [fixPos_line_eq _ _ _ _ hl]
      · rw [fixPos_url_eq, hu]
    | sect hv hl hu =>
      obtain ⟨f1, f2⟩ := fixPos_noPos u n e' ⟨fun l h => by rw [hl] at h; cases h; omega, fun x h => by rw [hu] at h; cases h⟩
      exact .sect hv f1 f2
    | cmd hv hl hu =>
      refine .cmd hv ?_ ?_
      · rw [fixPos_line_eq _ _ _ _ hl]; rfl
      · rw [fixPos_url_eq, hu]; rfl
  | imp pkg h =>
    have h' : lsImport sF.ctx pkg = .error (.cfg e) := h
    rcases lsImport_error _ _ _ h' with h1 | h1 <;> rw [hk] at h1 <;> cases h1
  | include_ h => rw [h.1] at hk; cases hk

/-- the loader's `addValue` errors carry no position or the one handed in -/
theorem lsValue_error_pos (st : LS) (key value : Str) (pos : Pos) (e : Err) (h : lsValue st key value pos = .error (.cfg e)) :
    NoPos e ∨ (e.line = some pos.line ∧ e.url = pos.url) := by
  rcases lsValue_error _ _ _ _ _ h with ⟨_, _, h3, h4⟩ | ⟨_, h2, h3, _⟩
  · exact .inr ⟨h3, h4⟩
  · exact .inl ⟨fun l hl => (by rw [h2] at hl; cases hl), fun u hu => (by rw [h3] at hu; cases hu)⟩

/-- errors of the loader's parse that are not conversion errors name the culprit line and its resource, except for the schema
    errors of `%import` and the refusals of `%include` -/
theorem loader_lineErr_position {u : Option Str} {n : Nat} {sF : PS LS} {e : Err}
    (h : LineErr loaderCtx u n sF e) (hk : e.kind ≠ .conversion) :
    (e.line = some (n : Int) ∧ e.url = u) ∨
      ((e.kind = .schema ∨ e.kind = .schemaResource) ∧ ∃ pkg, lsImport sF.ctx pkg = .error (.cfg e)) ∨
      IncludeRefusal e := by
  rcases h.position_nonconv hk (fun key v e' h' => lsValue_error_pos _ _ _ _ _ h') with h1 | ⟨pkg, h2⟩ | h3
  · exact .inl h1
  · exact .inr (.inl ⟨lsImport_error _ _ _ h2, pkg, h2⟩)
  · exact .inr (.inr h3)

/-! ### the whole load (`ConfigLoader.loadResource` with command-line overrides) -/

/-- the error speaks about the command line: pseudo line `-1`, pseudo URL `<command-line option>` -/
def CmdLineErr (e : Err) : Prop := e.line = some (-1) ∧ e.url = some "<command-line option>".toList

theorem addOption_error (spec : Str) (e : Err) (h : addOption spec = .error (.cfg e)) : CmdLineErr e := by
  unfold addOption at h
  split at h
  · cases h; exact ⟨rfl, rfl⟩
  · dsimp only at h
    split at h
    · cases h; exact ⟨rfl, rfl⟩
    · cases h

theorem mkBag_error (conv : Conv) (t : SType) (items : List OptItem) (e : Err) (h : mkBag conv t items = .error (.cfg e)) :
    CmdLineErr e := by
  unfold mkBag at h
  obtain ⟨acc, it, _, _, hx⟩ := (foldlM_inv _ (fun _ => True) (fun _ _ _ _ _ => trivial) _ _ trivial).2 _ h
  split at hx
  · cases hx
  · split at hx
    · cases hx
    · injection hx with hx
      obtain ⟨_, _, h3, h4⟩ := convFail_inv _ _ _ _ _ hx
      exact ⟨h3, h4⟩
  · cases hx

/-- the state in which `load` starts the parse -/
def loadState (conv : Conv) (pkgs : Str → Pkg) (schema : Schema) (bag : Option Bag) : PS LS :=
  { ctx := { schema := schema, privateSchema := false, handlers := [], stack := [newMatcher schema.top Option.none bag],
             pkgs := pkgs, conv := conv, bagSchema := bag.map fun _ => schema },
    stack := [], defs := [] }

/-- the list of resources being read when `load` starts the parse -/
def loadActive (url : Option Str) : List Str := match url with | some u => if u == [] then [] else [u] | none => []

theorem loadState_holds_nothing (conv : Conv) (pkgs : Str → Pkg) (schema : Schema) (bag : Option Bag) (v : Str) (p : Pos) :
    ¬ RecLS (loadState conv pkgs schema bag).ctx v p := by
  rintro ⟨m, hm, hv⟩
  simp only [loadState, List.mem_singleton] at hm
  subst hm
  rw [matcherVIs_newMatcher] at hv
  cases hv

/-- **where the configuration errors of a whole load come from**: the command line (before the parse), the parse, or the final
    `finish()` of the top-level section and the schema's own datatype (after the parse) -/
theorem load_error (conv : Conv) (env : Env) (pkgs : Str → Pkg) (schema : Schema) (url : Option Str)
    (lines : List Str) (specs : List Str) (e : Err) (h : load conv env pkgs schema url lines specs = .error (.cfg e)) :
    CmdLineErr e ∨
    ∃ bag,
      parseLines 64 env loaderCtx (loadActive url) url lines 0 (loadState conv pkgs schema bag) = .error (.cfg e) ∨
      ∃ ps top, parseLines 64 env loaderCtx (loadActive url) url lines 0 (loadState conv pkgs schema bag) = .ok ps ∧
        ps.ctx.stack = [top] ∧
        (finishMatcher conv ps.ctx.schema top = .error (.cfg e) ∨
         (e.kind = .conversion ∧ e.value = none ∧ e.line = some (-1) ∧ e.url = none)) := by
  unfold load at h
  simp only [bind, Except.bind, pure, Except.pure, throw, throwThe, MonadExceptOf.throw] at h
  split at h
  · rename_i f hf
    cases h
    obtain ⟨sp, _, hsp⟩ := mapM_error_mem _ _ _ hf
    exact .inl (addOption_error _ _ hsp)
  · rename_i overrides _
    split at h
    · -- no overrides
      split at h
      · rename_i f hf
        cases h
        exact .inr ⟨_, .inl hf⟩
      · rename_i ps hps
        split at h
        · rename_i top htop
          split at h
          · rename_i f hf
            cases h
            exact .inr ⟨_, .inr ⟨ps, top, hps, htop, .inl hf⟩⟩
          · split at h
            · cases h
            · injection h with h
              obtain ⟨k1, k2, k3, k4⟩ := convFail_inv _ _ _ _ _ h
              exact .inr ⟨_, .inr ⟨ps, top, hps, htop, .inr ⟨k1, k2, k3, k4⟩⟩⟩
        · cases h
    · split at h
      · rename_i f hf
        cases h
        exact .inl (mkBag_error _ _ _ _ (map_error_inv hf))
      · -- overrides
        split at h
        · rename_i f hf
          cases h
          exact .inr ⟨_, .inl hf⟩
        · rename_i ps hps
          split at h
          · rename_i top htop
            split at h
            · rename_i f hf
              cases h
              exact .inr ⟨_, .inr ⟨ps, top, hps, htop, .inl hf⟩⟩
            · split at h
              · cases h
              · injection h with h
                obtain ⟨k1, k2, k3, k4⟩ := convFail_inv _ _ _ _ _ h
                exact .inr ⟨_, .inr ⟨ps, top, hps, htop, .inr ⟨k1, k2, k3, k4⟩⟩⟩
          · cases h

end ZCV.Cfg
