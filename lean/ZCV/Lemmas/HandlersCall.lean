import ZCV.Model.Datatypes
/-!
A small pure model of `CompositeHandler.__call__` (`ZConfig/loader.py`), HAND-WRITTEN HERE, in the proof files:

```python
def __call__(self, handlermap):
    d = {}
    for name, callback in handlermap.items():
        n = self._convert(name)                      # basic-key
        if n in d:
            raise ZConfig.ConfigurationError("handler name not unique when converted to a basic-key: " + repr(name))
        d[n] = callback
    L = []
    for handler, value in self._handlers:
        if handler not in d:
            L.append(handler)
    if L:
        raise ZConfig.ConfigurationError("undefined handlers: " + ", ".join(L))
    for handler, value in self._handlers:
        f = d[handler]
        if f is not None:
            f(value)
```

Tie to the code: the driver op `hcall` runs `callHandlers`, and the C16 check (`harness/zcv/props/c16.py`) compares verdict and
sequence of callables called with the real handler object on random maps (complete, incomplete, with None, case variants,
duplicates, names that are no basic keys) on every run.

The handler map is a list of `(name, callable)` items in iteration order; a callable is `some id` (identified by a
number) or `none` (Python `None`).  A Python `dict` has pairwise distinct names; the model does not need that.  The
result is the outcome (`err`) together with the LOG of calls `(callable id, value)` made up to that point, in order —
so that "raised without having called anything" is a statement about the result.  Callables are assumed not to raise.
-/
namespace ZCV.Call
open ZCV

inductive CallErr
  | badName (name : Str) (e : ConvErr)   -- `basic-key` raised on a supplied name (a ValueError, passed through)
  | notUnique (name : Str)               -- ConfigurationError: handler name not unique when converted to a basic-key
  | undefined (names : List Str)         -- ConfigurationError: undefined handlers: …
deriving Repr

/-- is it an error of the configuration-error family? -/
def CallErr.isCfg : CallErr → Bool
  | .badName _ _ => false
  | _ => true

structure CallResult where
  err : Option CallErr
  log : List (Nat × Val)

abbrev HMap := List (Str × Option Nat)

/-- the first loop: fill `d` with normalised names, refusing a name already there -/
def normMap : HMap → HMap → Except CallErr HMap
  | d, [] => .ok d
  | d, (name, cb) :: rest =>
    match DT.basicKey name with
    | .error e => .error (.badName name e)
    | .ok n => if d.any (·.1 == n) then .error (.notUnique name) else normMap (d ++ [(n, cb)]) rest

/-- `d[h]` -/
def dget (d : HMap) (h : Str) : Option (Option Nat) := (d.find? (·.1 == h)).map (·.2)

/-- `CompositeHandler.__call__` on the handler list `hs` -/
def callHandlers (hs : List (Str × Val)) (hm : HMap) : CallResult :=
  match normMap [] hm with
  | .error e => { err := some e, log := [] }
  | .ok d =>
    let L := hs.filterMap fun e => if d.any (·.1 == e.1) then none else some e.1
    if !L.isEmpty then { err := some (.undefined L), log := [] }
    else { err := none, log := hs.filterMap fun e => match dget d e.1 with | some (some f) => some (f, e.2) | _ => none }

/-! ### the first loop -/

/-- every supplied name is a valid basic-key -/
def Valid (hm : HMap) : Prop := ∀ p ∈ hm, ∃ n, DT.basicKey p.1 = .ok n

/-- the supplied items under their normalised names -/
def keyed (hm : HMap) : HMap :=
  hm.filterMap fun p => match DT.basicKey p.1 with | .ok n => some (n, p.2) | .error _ => none

theorem keyed_cons_ok (name : Str) (cb : Option Nat) (rest : HMap) (n : Str) (h : DT.basicKey name = .ok n) :
    keyed ((name, cb) :: rest) = (n, cb) :: keyed rest := by
  unfold keyed
  rw [List.filterMap_cons]
  simp only [h]

theorem any_false_iff (d : HMap) (n : Str) : d.any (·.1 == n) = false ↔ ∀ x ∈ d, x.1 ≠ n := by
  rw [Bool.eq_false_iff]
  simp only [ne_eq, List.any_eq_true, beq_iff_eq, not_exists, not_and]

/-- what a successful first loop says -/
theorem normMap_ok : ∀ (hm d d' : HMap), normMap d hm = .ok d' →
    d' = d ++ keyed hm ∧ Valid hm ∧ (∀ x ∈ d, ∀ y ∈ keyed hm, x.1 ≠ y.1) ∧ ((keyed hm).map (·.1)).Nodup := by
  intro hm
  induction hm with
  | nil =>
    intro d d' h
    rw [normMap] at h
    cases h
    refine ⟨by simp [keyed], ?_, ?_, by simp [keyed]⟩
    · intro p hp; cases hp
    · intro x _ y hy; simp [keyed] at hy
  | cons p rest ih =>
    intro d d' h
    obtain ⟨name, cb⟩ := p
    rw [normMap] at h
    cases hk : DT.basicKey name with
    | error e => rw [hk] at h; cases h
    | ok n =>
      rw [hk] at h
      simp only at h
      by_cases ha : d.any (·.1 == n) = true
      · rw [if_pos ha] at h; cases h
      · rw [if_neg ha] at h
        have ha' : ∀ x ∈ d, x.1 ≠ n := (any_false_iff d n).mp (Bool.eq_false_iff.mpr ha)
        obtain ⟨h1, h2, h3, h4⟩ := ih _ _ h
        rw [keyed_cons_ok name cb rest n hk]
        refine ⟨by rw [h1]; simp, ?_, ?_, ?_⟩
        · intro q hq
          rcases List.mem_cons.mp hq with rfl | hq
          · exact ⟨n, hk⟩
          · exact h2 q hq
        · intro x hx y hy
          rcases List.mem_cons.mp hy with rfl | hy
          · exact ha' x hx
          · exact h3 x (List.mem_append_left _ hx) y hy
        · rw [List.map_cons, List.nodup_cons]
          refine ⟨?_, h4⟩
          intro hmem
          obtain ⟨y, hy, hyn⟩ := List.mem_map.mp hmem
          exact h3 (n, cb) (List.mem_append_right _ (List.mem_singleton.mpr rfl)) y hy hyn.symm

/-- when the first loop succeeds -/
theorem normMap_of_valid : ∀ (hm d : HMap), Valid hm → (∀ x ∈ d, ∀ y ∈ keyed hm, x.1 ≠ y.1) →
    ((keyed hm).map (·.1)).Nodup → normMap d hm = .ok (d ++ keyed hm) := by
  intro hm
  induction hm with
  | nil => intro d _ _ _; rw [normMap]; simp [keyed]
  | cons p rest ih =>
    intro d hv hd hn
    obtain ⟨name, cb⟩ := p
    obtain ⟨n, hk⟩ := hv (name, cb) List.mem_cons_self
    rw [keyed_cons_ok name cb rest n hk] at hd hn ⊢
    rw [List.map_cons, List.nodup_cons] at hn
    rw [normMap, hk]
    simp only
    have ha : d.any (·.1 == n) = false :=
      (any_false_iff d n).mpr fun x hx => hd x hx (n, cb) List.mem_cons_self
    rw [ha]
    simp only [Bool.false_eq_true, if_false]
    rw [ih (d ++ [(n, cb)]) (fun q hq => hv q (List.mem_cons_of_mem _ hq)) ?_ hn.2]
    · simp
    · intro x hx y hy
      rcases List.mem_append.mp hx with hx | hx
      · exact hd x hx y (List.mem_cons_of_mem _ hy)
      · rw [List.mem_singleton.mp hx]
        intro he
        apply hn.1
        rw [he]
        exact List.mem_map_of_mem hy

/-- with valid names the only possible refusal of the first loop is "not unique" -/
theorem normMap_error_valid : ∀ (hm d : HMap) (e : CallErr), Valid hm → normMap d hm = .error e →
    ∃ p ∈ hm, e = .notUnique p.1 := by
  intro hm
  induction hm with
  | nil => intro d e _ h; rw [normMap] at h; cases h
  | cons p rest ih =>
    intro d e hv h
    obtain ⟨name, cb⟩ := p
    obtain ⟨n, hk⟩ := hv (name, cb) List.mem_cons_self
    rw [normMap, hk] at h
    simp only at h
    by_cases ha : d.any (·.1 == n) = true
    · rw [if_pos ha] at h
      cases h
      exact ⟨(name, cb), List.mem_cons_self, rfl⟩
    · rw [if_neg ha] at h
      obtain ⟨q, hq, he⟩ := ih _ e (fun q hq => hv q (List.mem_cons_of_mem _ hq)) h
      exact ⟨q, List.mem_cons_of_mem _ hq, he⟩

theorem normMap_nil_iff (hm d : HMap) :
    normMap [] hm = .ok d ↔ Valid hm ∧ ((keyed hm).map (·.1)).Nodup ∧ d = keyed hm := by
  constructor
  · intro h
    obtain ⟨h1, h2, _, h4⟩ := normMap_ok hm [] d h
    exact ⟨h2, h4, by simpa using h1⟩
  · intro ⟨h1, h2, h3⟩
    rw [h3, normMap_of_valid hm [] h1 (fun x hx => by cases hx) h2]
    simp

/-! ### lookups in a duplicate-free `d` -/

theorem mem_keyed (hm : HMap) (n : Str) (cb : Option Nat) :
    (n, cb) ∈ keyed hm ↔ ∃ p ∈ hm, DT.basicKey p.1 = .ok n ∧ p.2 = cb := by
  unfold keyed
  rw [List.mem_filterMap]
  constructor
  · intro ⟨p, hp, h⟩
    cases hk : DT.basicKey p.1 with
    | error e => rw [hk] at h; cases h
    | ok n' =>
      rw [hk] at h
      simp only [Option.some.injEq, Prod.mk.injEq] at h
      exact ⟨p, hp, by rw [hk, h.1], h.2⟩
  · intro ⟨p, hp, h1, h2⟩
    exact ⟨p, hp, by rw [h1, h2]⟩

theorem dget_of_mem : ∀ (d : HMap) (n : Str) (cb : Option Nat), (d.map (·.1)).Nodup → (n, cb) ∈ d →
    dget d n = some cb := by
  intro d
  induction d with
  | nil => intro n cb _ h; cases h
  | cons x d ih =>
    intro n cb hn hm
    rw [List.map_cons, List.nodup_cons] at hn
    unfold dget
    rw [List.find?_cons]
    rcases List.mem_cons.mp hm with rfl | hm
    · simp
    · have hne : (x.1 == n) = false := by
        rw [beq_eq_false_iff_ne]
        intro he
        apply hn.1
        rw [he]
        exact List.mem_map_of_mem (f := (·.1)) hm
      rw [hne]
      exact ih n cb hn.2 hm

theorem any_of_mem (d : HMap) (n : Str) (cb : Option Nat) (h : (n, cb) ∈ d) : d.any (·.1 == n) = true := by
  rw [List.any_eq_true]
  exact ⟨(n, cb), h, by simp⟩

end ZCV.Call
