import ZCV.Lemmas.Url
import ZCV.Lemmas.UrlPathDefrag
/-! What `normalizeURL` builds from a path is a URL in `file:///` normal form; paths and these URLs are told apart by
`isPath`; the `ZConfig.url` wrappers leave such URLs alone. -/
namespace ZCV.UrlPath
open ZCV

theorem up_pathToUrl_shape (p : Str) (h : p.head? = some '/') : ∃ t, pathToUrl p = fileSlash3 ++ quote t := by
  cases p with
  | nil => simp at h
  | cons c t =>
    simp only [List.head?_cons, Option.some.injEq] at h
    subst h
    exact ⟨t, up_pathToUrl_abs t⟩

theorem up_startsWith_append (a b : Str) : startsWith (a ++ b) a = true := by
  unfold startsWith
  rw [List.take_left']
  · exact beq_self_eq_true _
  · rfl

theorem up_lower_fileSlash3 : lower fileSlash3 = "file:///".toList := by decide

/-- `"file://" + pathname2url(abspath)` is in the `file:///` normal form -/
theorem up_pathToUrl_normalForm (p : Str) (h : p.head? = some '/') : UrlSpec.normalForm (pathToUrl p) = true := by
  obtain ⟨t, ht⟩ := up_pathToUrl_shape p h
  unfold UrlSpec.normalForm
  rw [ht, Url.lower_append, up_lower_fileSlash3, up_startsWith_append, Bool.or_true]

/-- … so `urlnormalize` (hence `ZConfig.url.urldefrag`) returns it unchanged -/
theorem up_pathToUrl_urlnormalize (p : Str) (h : p.head? = some '/') : Url.urlnormalize (pathToUrl p) = pathToUrl p :=
  Url.urlnormalize_fixed _ (up_pathToUrl_normalForm p h)

/-- the model's own copy of `urlnormalize` is the same function -/
theorem up_znormalize_eq (u : Str) : znormalize u = Url.urlnormalize u := rfl

/-- a `file://…` URL is not a path -/
theorem up_pathToUrl_not_isPath (p : Str) : Url.isPath (pathToUrl p) = false := by
  rw [Url.isPath_eq_spec]
  unfold UrlSpec.isPath UrlSpec.isUrl pathToUrl fileSlashes
  simp only [List.cons_append, List.nil_append]
  rw [List.dropWhile_cons_of_pos (by decide), List.dropWhile_cons_of_pos (by decide),
    List.dropWhile_cons_of_pos (by decide), List.dropWhile_cons_of_neg (by decide),
    List.takeWhile_cons_of_pos (by decide), List.takeWhile_cons_of_pos (by decide),
    List.takeWhile_cons_of_pos (by decide), List.takeWhile_cons_of_neg (by decide)]
  simp only [List.head?_cons, beq_self_eq_true, Bool.and_true, List.length_cons, List.length_nil]
  decide

/-- a string with no colon before its first slash is a path (in particular every absolute POSIX path, and every
    relative path whose first segment has no colon) -/
theorem up_isPath_of_nocolon (p : Str) (h : ∀ c ∈ p.takeWhile (· != '/'), c ≠ ':') : Url.isPath p = true := by
  rw [Url.isPath_eq_spec]
  unfold UrlSpec.isPath
  rw [Bool.not_eq_true', Bool.eq_false_iff]
  intro hu
  unfold UrlSpec.isUrl at hu
  cases p with
  | nil => simp at hu
  | cons c t =>
    simp only [Bool.and_eq_true, beq_iff_eq, decide_eq_true_eq] at hu
    obtain ⟨⟨hc, hd⟩, _⟩ := hu
    have hcs : c ≠ '/' := by
      intro e; subst e; exact absurd hc (by decide)
    have hsplit := (List.takeWhile_append_dropWhile (p := UrlSpec.isSchemeChar) (l := t)).symm
    cases hdw : List.dropWhile UrlSpec.isSchemeChar t with
    | nil => rw [hdw] at hd; simp at hd
    | cons x r =>
      rw [hdw] at hd hsplit
      simp only [List.head?_cons, Option.some.injEq] at hd
      subst hd
      apply h ':' _ rfl
      rw [List.takeWhile_cons_of_pos (by simpa using hcs), hsplit,
        List.takeWhile_append_of_pos (by
          intro a ha
          have := List.all_eq_true.1 (List.all_takeWhile (p := UrlSpec.isSchemeChar) (l := t)) a ha
          simp only [bne_iff_ne, ne_eq]
          intro e; subst e; exact absurd this (by decide)),
        List.takeWhile_cons_of_pos (by decide)]
      simp

theorem up_isPath_abs (p : Str) (h : p.head? = some '/') : Url.isPath p = true := by
  apply up_isPath_of_nocolon
  cases p with
  | nil => simp at h
  | cons c t =>
    simp only [List.head?_cons, Option.some.injEq] at h
    subst h
    rw [List.takeWhile_cons_of_neg (by decide)]
    simp

/-- `ZConfig.url.urljoin` only repairs results that start with `file:/` but not `file:///` -/
theorem up_zjoin_of_slash3 (base rel x : Str) (h : join base rel = fileSlash3 ++ x) : zjoin base rel = join base rel := by
  unfold zjoin
  simp only
  rw [h, up_startsWith_append]
  simp

theorem up_zjoin_pathToUrl (base rel p : Str) (hp : p.head? = some '/') (h : join base rel = pathToUrl p) :
    zjoin base rel = pathToUrl p := by
  obtain ⟨t, ht⟩ := up_pathToUrl_shape p hp
  rw [up_zjoin_of_slash3 base rel (quote t) (by rw [h, ht]), h]

end ZCV.UrlPath
