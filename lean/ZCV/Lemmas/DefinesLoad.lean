import ZCV.Lemmas.DefinesFold
import ZCV.Lemmas.TextLoad
/-! `load` starts its parser from the empty `%define` mapping. -/
namespace ZCV.Cfg
open ZCV ZCV.Conf

/-- `load` with the override bag made explicit: whatever the overrides, the parse starts from `defs := []` -/
theorem load_eq_gen (conv : Conv) (env : Env) (pkgs : Str → Pkg) (s : Schema) (url : Option Str) (lines specs : List Str) :
    load conv env pkgs s url lines specs =
      (specs.mapM addOption >>= fun overrides =>
        (if overrides.isEmpty then pure Option.none else (mkBag conv s.top overrides).map some) >>= fun bag =>
          parseLines 64 env loaderCtx (activeOf url) url lines 0
            { ctx := { schema := s, privateSchema := false, handlers := [], stack := [newMatcher s.top Option.none bag],
                       pkgs := pkgs, conv := conv, bagSchema := bag.map fun _ => s }, stack := [], defs := [] } >>= loadFin conv s) := by
  unfold load
  congr 1
  funext overrides
  generalize overrides.isEmpty = b
  cases b <;> rfl

end ZCV.Cfg
