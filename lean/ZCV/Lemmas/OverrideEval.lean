import ZCV.Lemmas.LoadEval
import ZCV.Lemmas.TextLoadAux
/-!
The tree-driven loader WITH a command-line bag, seen from the top matcher only: `evalItemB` / `evalItemsB` do to one
matcher (whatever its bag) what `runItem` / `runItems` do to the matcher on top of the stack; the rest of the `LS`
state is a frame.  `loadTreeOv` is `loadTree` started with the bag of the overrides, exactly as `load` starts.
-/
namespace ZCV.Conf
open ZCV ZCV.Cfg

/-- the same matcher carrying another bag -/
def withBag (m : Matcher) (b : Option Bag) : Matcher := { m with bag := b }

/-- the checks of `lsStart` that depend on the parent's type only -/
def sectCheck (s : Schema) (pty : SType) (ty : Str) (nm : Option Str) : M SType :=
  match s.gettype ty with
  | none => .error (.cfg { kind := .schema, tag := "unknown type name" })
  | some (.abstract_ _ _) => .error (plainErr "concrete sections cannot match abstract section types")
  | some (.concrete t) =>
    match getsectioninfo s pty (t.name.getD []) nm with
    | .error e => .error e
    | .ok ci =>
      if !isAllowedName ci nm then .error (plainErr "not an allowed name")
      else if !(nm.isSome || allowUnnamed ci) then .error (plainErr "sections may not be unnamed")
      else .ok t

/-- what `lsStart` does with the parent's bag: (parent afterwards, bag of the child) -/
def bagStep (conv : Conv) (s : Schema) (m : Matcher) (ty : Str) (nm : Option Str) : M (Matcher × Option Bag) :=
  match m.bag with
  | none => .ok (m, none)
  | some b =>
    match bagSectionInfo conv s b ty nm with
    | .error e => .error e
    | .ok (b', cb) => .ok ({ m with bag := some b' }, cb)

mutual
def evalItemB (conv : Conv) (s : Schema) (m : Matcher) : Item → M Matcher
  | .kv k v p => addValue conv m k v p
  | .sect ty nm items =>
    match sectCheck s m.ty ty nm with
    | .error e => .error e
    | .ok t =>
      match bagStep conv s m (t.name.getD []) nm with
      | .error e => .error e
      | .ok (m1, cb) =>
        match evalItemsB conv s (newMatcher t nm cb) items with
        | .error e => .error e
        | .ok child =>
          match finishMatcher conv s child with
          | .error e => .error e
          | .ok (v, _) => addSection s m1 ty nm v
def evalItemsB (conv : Conv) (s : Schema) (m : Matcher) : List Item → M Matcher
  | [] => .ok m
  | i :: r =>
    match evalItemB conv s m i with
    | .error e => .error e
    | .ok m' => evalItemsB conv s m' r
end

theorem evalItemsB_nil (conv : Conv) (s : Schema) (m : Matcher) : evalItemsB conv s m [] = .ok m := by
  rw [evalItemsB]

theorem evalItemsB_cons (conv : Conv) (s : Schema) (m : Matcher) (i : Item) (r : List Item) :
    evalItemsB conv s m (i :: r) = evalItemB conv s m i >>= fun m' => evalItemsB conv s m' r := by
  rw [evalItemsB]
  cases evalItemB conv s m i <;> rfl

theorem evalItemsB_single (conv : Conv) (s : Schema) (m : Matcher) (i : Item) :
    evalItemsB conv s m [i] = evalItemB conv s m i := by
  rw [evalItemsB_cons]
  cases evalItemB conv s m i with
  | error e => rfl
  | ok m' => exact evalItemsB_nil conv s m'

theorem evalItemsB_append (conv : Conv) (s : Schema) : ∀ (l r : List Item) (m : Matcher),
    evalItemsB conv s m (l ++ r) = evalItemsB conv s m l >>= fun m' => evalItemsB conv s m' r
  | [], r, m => by rw [List.nil_append, evalItemsB_nil]; rfl
  | i :: l, r, m => by
    rw [List.cons_append, evalItemsB_cons, evalItemsB_cons]
    cases evalItemB conv s m i with
    | error e => rfl
    | ok m' => exact evalItemsB_append conv s l r m'

/-- the section case, as a chain -/
theorem evalItemB_sect (conv : Conv) (s : Schema) (m : Matcher) (ty : Str) (nm : Option Str) (items : List Item) :
    evalItemB conv s m (.sect ty nm items) =
      sectCheck s m.ty ty nm >>= fun t =>
      bagStep conv s m (t.name.getD []) nm >>= fun mc =>
      (evalItemsB conv s (newMatcher t nm mc.2) items >>= finishMatcher conv s) >>= fun r =>
      addSection s mc.1 ty nm r.1 := by
  rw [evalItemB]
  cases sectCheck s m.ty ty nm with
  | error e => rfl
  | ok t =>
    show (match bagStep conv s m (t.name.getD []) nm with
      | .error e => .error e
      | .ok (m1, cb) => _) = (bagStep conv s m (t.name.getD []) nm >>= _)
    cases bagStep conv s m (t.name.getD []) nm with
    | error e => rfl
    | ok mc =>
      obtain ⟨m1, cb⟩ := mc
      show (match evalItemsB conv s (newMatcher t nm cb) items with
        | .error e => .error e
        | .ok child => _) = ((evalItemsB conv s (newMatcher t nm cb) items >>= finishMatcher conv s) >>= _)
      cases evalItemsB conv s (newMatcher t nm cb) items with
      | error e => rfl
      | ok child =>
        show (match finishMatcher conv s child with
          | .error e => .error e
          | .ok (v, _) => addSection s m1 ty nm v) = (finishMatcher conv s child >>= _)
        cases finishMatcher conv s child with
        | error e => rfl
        | ok r => rfl

/-! ### the same evaluation when the option bags consult a schema `S` of their own

In the code every `OptionBag` keeps the schema the load STARTED with (`ExtendedConfigLoader.cook`) and looks the type of the
section it descends into up THERE; after a `%import` the loader's schema is a derived, larger one.  `evalItemBS conv S s`
is `evalItemB conv s` with the bags consulting `S`; with `S = s` (no `%import` so far) it is `evalItemB conv s`. -/

mutual
def evalItemBS (conv : Conv) (S s : Schema) (m : Matcher) : Item → M Matcher
  | .kv k v p => addValue conv m k v p
  | .sect ty nm items =>
    match sectCheck s m.ty ty nm with
    | .error e => .error e
    | .ok t =>
      match bagStep conv S m (t.name.getD []) nm with
      | .error e => .error e
      | .ok (m1, cb) =>
        match evalItemsBS conv S s (newMatcher t nm cb) items with
        | .error e => .error e
        | .ok child =>
          match finishMatcher conv s child with
          | .error e => .error e
          | .ok (v, _) => addSection s m1 ty nm v
def evalItemsBS (conv : Conv) (S s : Schema) (m : Matcher) : List Item → M Matcher
  | [] => .ok m
  | i :: r =>
    match evalItemBS conv S s m i with
    | .error e => .error e
    | .ok m' => evalItemsBS conv S s m' r
end

mutual
theorem evalItemBS_self (conv : Conv) (s : Schema) : ∀ (i : Item) (m : Matcher), evalItemBS conv s s m i = evalItemB conv s m i
  | .kv k v p, m => by rw [evalItemBS, evalItemB]
  | .sect ty nm items, m => by
    rw [evalItemBS, evalItemB]
    cases sectCheck s m.ty ty nm with
    | error e => rfl
    | ok t =>
      simp only
      cases bagStep conv s m (t.name.getD []) nm with
      | error e => rfl
      | ok mc =>
        obtain ⟨m1, cb⟩ := mc
        simp only
        rw [evalItemsBS_self conv s items (newMatcher t nm cb)]
theorem evalItemsBS_self (conv : Conv) (s : Schema) : ∀ (l : List Item) (m : Matcher), evalItemsBS conv s s m l = evalItemsB conv s m l
  | [], m => by rw [evalItemsBS, evalItemsB]
  | i :: r, m => by
    rw [evalItemsBS, evalItemsB, evalItemBS_self conv s i m]
    cases evalItemB conv s m i with
    | error e => rfl
    | ok m' => exact evalItemsBS_self conv s r m'
end

mutual
/-- the handler entries appended to the loader's shared list while item `i` is run with `m` on top of the matcher stack:
    for a section, what its body appends, then what closing it appends (`[]` where the run fails) -/
def hItemBS (conv : Conv) (S s : Schema) (m : Matcher) : Item → List (Str × Val)
  | .kv _ _ _ => []
  | .sect ty nm items =>
    match sectCheck s m.ty ty nm with
    | .error _ => []
    | .ok t =>
      match bagStep conv S m (t.name.getD []) nm with
      | .error _ => []
      | .ok (_, cb) =>
        hItemsBS conv S s (newMatcher t nm cb) items ++
          (match evalItemsBS conv S s (newMatcher t nm cb) items with
           | .error _ => []
           | .ok child =>
             match finishMatcher conv s child with
             | .error _ => []
             | .ok (_, hs) => hs)
def hItemsBS (conv : Conv) (S s : Schema) (m : Matcher) : List Item → List (Str × Val)
  | [] => []
  | i :: r =>
    hItemBS conv S s m i ++
      (match evalItemBS conv S s m i with
       | .error _ => []
       | .ok m' => hItemsBS conv S s m' r)
end

/-! ### frame lemma -/

mutual
theorem runItem_evalBS (conv : Conv) (S s : Schema) :
    ∀ (i : Item) (st : LS) (m : Matcher) (below : List Matcher),
      st.stack = m :: below → st.schema = s → st.conv = conv → st.bagSchema.getD st.schema = S →
      match evalItemBS conv S s m i with
      | .ok m' => runItem st i = .ok (withTop st m' below (st.handlers ++ hItemBS conv S s m i))
      | .error e => runItem st i = .error e
  | .kv k v p, st, m, below, hst, hsch, hconv, hbs => by
    obtain ⟨sch, priv, hd, stk, pk, cv, bs⟩ := st
    simp only at hst hsch hconv hbs
    subst hst hsch hconv hbs
    rw [evalItemBS, runItem, hItemBS]
    unfold lsValue
    simp only
    cases h : addValue cv m k v p with
    | error e => rfl
    | ok m' => simp only [Except.map, withTop, List.append_nil]
  | .sect ty nm items, st, m, below, hst, hsch, hconv, hbs => by
    obtain ⟨sch, priv, hd, stk, pk, cv, bs⟩ := st
    simp only at hst hsch hconv hbs
    subst hst hsch hconv hbs
    rw [evalItemBS, runItem, hItemBS]
    unfold lsStart sectCheck
    simp only
    cases hg : sch.gettype ty with
    | none => rfl
    | some te =>
      cases te with
      | abstract_ n subs => rfl
      | concrete t =>
        simp only [bind, Except.bind, pure, Except.pure, throw, throwThe, MonadExceptOf.throw]
        cases hgi : getsectioninfo sch m.ty (t.name.getD []) nm with
        | error e => rfl
        | ok ci =>
          simp only
          by_cases h1 : (!isAllowedName ci nm) = true
          · simp only [h1, if_true]
          · simp only [h1, if_false, Bool.false_eq_true]
            by_cases h2 : (!(nm.isSome || allowUnnamed ci)) = true
            · simp only [h2, if_true]
            · simp only [h2, if_false, Bool.false_eq_true]
              unfold bagStep
              cases hb : m.bag with
              | none =>
                simp only
                have ih := runItems_evalBS cv (bs.getD sch) sch items
                  { schema := sch, privateSchema := priv, handlers := hd, stack := newMatcher t nm none :: m :: below,
                    pkgs := pk, conv := cv, bagSchema := bs } (newMatcher t nm none) (m :: below) rfl rfl rfl rfl
                cases he : evalItemsBS cv (bs.getD sch) sch (newMatcher t nm none) items with
                | error e =>
                  rw [he] at ih
                  rw [ih]
                | ok child =>
                  rw [he] at ih
                  rw [ih]
                  simp only
                  unfold lsStop
                  simp only [withTop, bind, Except.bind, pure, Except.pure]
                  cases hf : finishMatcher cv sch child with
                  | error e => rfl
                  | ok vh =>
                    obtain ⟨v, hs2⟩ := vh
                    simp only
                    cases ha : addSection sch m ty nm v with
                    | error e => rfl
                    | ok m' => simp only [List.append_assoc]
              | some b =>
                simp only
                cases hbsi : bagSectionInfo cv (bs.getD sch) b (t.name.getD []) nm with
                | error e => rfl
                | ok bc =>
                  obtain ⟨b', cb⟩ := bc
                  simp only
                  have ih := runItems_evalBS cv (bs.getD sch) sch items
                    { schema := sch, privateSchema := priv, handlers := hd,
                      stack := newMatcher t nm cb :: { m with bag := some b' } :: below,
                      pkgs := pk, conv := cv, bagSchema := bs } (newMatcher t nm cb) ({ m with bag := some b' } :: below) rfl rfl rfl rfl
                  cases he : evalItemsBS cv (bs.getD sch) sch (newMatcher t nm cb) items with
                  | error e =>
                    rw [he] at ih
                    rw [ih]
                  | ok child =>
                    rw [he] at ih
                    rw [ih]
                    simp only
                    unfold lsStop
                    simp only [withTop, bind, Except.bind, pure, Except.pure]
                    cases hf : finishMatcher cv sch child with
                    | error e => rfl
                    | ok vh =>
                      obtain ⟨v, hs2⟩ := vh
                      simp only
                      cases ha : addSection sch { m with bag := some b' } ty nm v with
                      | error e => rfl
                      | ok m' => simp only [List.append_assoc]
theorem runItems_evalBS (conv : Conv) (S s : Schema) :
    ∀ (l : List Item) (st : LS) (m : Matcher) (below : List Matcher),
      st.stack = m :: below → st.schema = s → st.conv = conv → st.bagSchema.getD st.schema = S →
      match evalItemsBS conv S s m l with
      | .ok m' => runItems st l = .ok (withTop st m' below (st.handlers ++ hItemsBS conv S s m l))
      | .error e => runItems st l = .error e
  | [], st, m, below, hst, hsch, hconv, hbs => by
    rw [evalItemsBS, runItems, hItemsBS]
    simp [withTop, ← hst]
  | i :: r, st, m, below, hst, hsch, hconv, hbs => by
    rw [evalItemsBS, runItems, hItemsBS]
    have ih := runItem_evalBS conv S s i st m below hst hsch hconv hbs
    cases he : evalItemBS conv S s m i with
    | error e =>
      rw [he] at ih
      rw [ih]
    | ok m1 =>
      rw [he] at ih
      rw [ih]
      simp only
      have ih2 := runItems_evalBS conv S s r (withTop st m1 below (st.handlers ++ hItemBS conv S s m i)) m1 below rfl hsch hconv hbs
      cases he2 : evalItemsBS conv S s m1 r with
      | error e =>
        rw [he2] at ih2
        exact ih2
      | ok m2 =>
        rw [he2] at ih2
        simp only at ih2
        rw [ih2]
        simp only [withTop, List.append_assoc]
end

/-- the frame lemma for a state whose bags consult the schema in force (`S = s`) -/
theorem runItem_evalB (conv : Conv) (s : Schema) (i : Item) (st : LS) (m : Matcher) (below : List Matcher)
    (hst : st.stack = m :: below) (hsch : st.schema = s) (hconv : st.conv = conv) (hbs : st.bagSchema.getD st.schema = s) :
    match evalItemB conv s m i with
    | .ok m' => ∃ hs, runItem st i = .ok (withTop st m' below hs)
    | .error e => runItem st i = .error e := by
  have h := runItem_evalBS conv s s i st m below hst hsch hconv hbs
  rw [evalItemBS_self] at h
  cases he : evalItemB conv s m i with
  | ok m' => rw [he] at h; exact ⟨_, h⟩
  | error e => rw [he] at h; exact h

theorem runItems_evalB (conv : Conv) (s : Schema) (l : List Item) (st : LS) (m : Matcher) (below : List Matcher)
    (hst : st.stack = m :: below) (hsch : st.schema = s) (hconv : st.conv = conv) (hbs : st.bagSchema.getD st.schema = s) :
    match evalItemsB conv s m l with
    | .ok m' => ∃ hs, runItems st l = .ok (withTop st m' below hs)
    | .error e => runItems st l = .error e := by
  have h := runItems_evalBS conv s s l st m below hst hsch hconv hbs
  rw [evalItemsBS_self] at h
  cases he : evalItemsB conv s m l with
  | ok m' => rw [he] at h; exact ⟨_, h⟩
  | error e => rw [he] at h; exact h

/-! ### the tree-driven loader with overrides -/

/-- the bag `load` starts with -/
def bagOf (conv : Conv) (schema : Schema) (ovs : List OptItem) : M (Option Bag) :=
  if ovs.isEmpty then pure none else (mkBag conv schema.top ovs).map some

def stOv (conv : Conv) (pkgs : Str → Pkg) (schema : Schema) (bag : Option Bag) : LS :=
  { schema := schema, privateSchema := false, handlers := [], stack := [newMatcher schema.top none bag],
    pkgs := pkgs, conv := conv, bagSchema := bag.map fun _ => schema }

theorem stOv_bagSchema (conv : Conv) (pkgs : Str → Pkg) (s : Schema) (bag : Option Bag) :
    (stOv conv pkgs s bag).bagSchema.getD (stOv conv pkgs s bag).schema = s := by
  cases bag <;> rfl

/-- what `loadTree` does after the items have been run (`treeFin` of `TextLoad`, restated here to keep the import
    graph small) -/
def treeFinB (conv : Conv) (schema : Schema) (st : LS) : M Val :=
  match st.stack with
  | [top] =>
    match finishMatcher conv st.schema top with
    | .error e => .error e
    | .ok (v, _) =>
      match conv.sect schema.top.datatype v with
      | .ok r => .ok r
      | .error e => .error (convFail e none { line := -1, url := none } "schema datatype")
  | _ => .error (.internal "IndexError")

/-- `ExtendedConfigLoader.loadResource` on a tree: `loadTree` started with the bag made of the overrides, as `load` does -/
def loadTreeOv (conv : Conv) (schema : Schema) (items : List Item) (ovs : List OptItem) : M Val :=
  bagOf conv schema ovs >>= fun bag =>
    runItems (stOv conv (fun _ => .notImportable) schema bag) items >>= treeFinB conv schema

/-- the end of a load, from the top matcher -/
def topFin (conv : Conv) (s : Schema) (m : Matcher) : M Val :=
  finishMatcher conv s m >>= fun r =>
    match conv.sect s.top.datatype r.1 with
    | .ok v => .ok v
    | .error e => .error (convFail e none { line := -1, url := none } "schema datatype")

theorem run_fin_eq (conv : Conv) (pkgs : Str → Pkg) (s : Schema) (bag : Option Bag) (items : List Item) :
    runItems (stOv conv pkgs s bag) items >>= treeFinB conv s =
      evalItemsB conv s (newMatcher s.top none bag) items >>= topFin conv s := by
  have h := runItems_evalB conv s items (stOv conv pkgs s bag) (newMatcher s.top none bag) [] rfl rfl rfl
    (stOv_bagSchema conv pkgs s bag)
  cases he : evalItemsB conv s (newMatcher s.top none bag) items with
  | error e =>
    rw [he] at h
    rw [h]
    rfl
  | ok m =>
    rw [he] at h
    obtain ⟨hs, hr⟩ := h
    rw [hr]
    show treeFinB conv s (withTop (stOv conv pkgs s bag) m [] hs) = topFin conv s m
    unfold treeFinB topFin withTop stOv
    simp only [bind, Except.bind]
    cases finishMatcher conv s m with
    | error e => rfl
    | ok r => rfl

theorem loadTreeOv_eq (conv : Conv) (s : Schema) (items : List Item) (ovs : List OptItem) :
    loadTreeOv conv s items ovs =
      bagOf conv s ovs >>= fun bag => evalItemsB conv s (newMatcher s.top none bag) items >>= topFin conv s := by
  unfold loadTreeOv
  congr 1
  funext bag
  exact run_fin_eq conv _ s bag items

theorem loadTree_evalB (conv : Conv) (s : Schema) (items : List Item) :
    loadTree conv s items = evalItemsB conv s (newMatcher s.top none none) items >>= topFin conv s := by
  rw [← run_fin_eq conv (fun _ => .notImportable) s none items]
  unfold loadTree
  show (match runItems (stOv conv (fun _ => .notImportable) s none) items with
    | .error e => (.error e : M Val)
    | .ok st => treeFinB conv s st) = _
  cases runItems (stOv conv (fun _ => .notImportable) s none) items <;> rfl

theorem loadTreeOv_nil (conv : Conv) (s : Schema) (items : List Item) :
    loadTreeOv conv s items [] = loadTree conv s items := by
  rw [loadTreeOv_eq, loadTree_evalB]
  rfl

end ZCV.Conf
