import ZCV.Gen.CodeUrl
import ZCV.Model.Url
import ZCV.Model.UrlPath
import ZCV.Lemmas.PyPrims
/-!
# The generated code of `ZConfig/url.py` equals the hand-written models

`Gen.Code.urlnormalize`, `urldefrag`, `urljoin` (translated from the Python source by `harness/zcv/pytrans.py` on every
run) against `Url.urlnormalize` / `UrlPath.znormalize`, `UrlPath.zdefragUrl` / `UrlPath.defragFrag`, `UrlPath.zjoin`.  The two
urllib functions are PARAMETERS of the generated code; here they are the models `UrlPath.defrag` and `UrlPath.join`
(total: `urllib`'s `ValueError`s are outside the models' domain, `UrlPath.joinInDomain` / `defragInDomain`), and a raising
parameter is shown to pass through unchanged.  No re-tagging is needed: values are strings.
-/
set_option linter.unusedSimpArgs false
namespace ZCV.CodeEq
open ZCV ZCV.Py ZCV.Gen.Code

theorem slice_from_5 (u : Str) : Py.slice u (some (5 : Int)) none = u.drop 5 := Py.slice_from_nat' u _ 5 rfl

theorem code_urlnormalize_eq (u : Str) : Gen.Code.urlnormalize u = .ok (Url.urlnormalize u) := by
  unfold Gen.Code.urlnormalize Url.urlnormalize
  simp only [slice_from_5, show "file:/".toList = ['f', 'i', 'l', 'e', ':', '/'] from rfl,
    show "file:///".toList = ['f', 'i', 'l', 'e', ':', '/', '/', '/'] from rfl,
    show "file://".toList = ['f', 'i', 'l', 'e', ':', '/', '/'] from rfl]
  split <;> rfl

theorem znormalize_eq (u : Str) : UrlPath.znormalize u = Url.urlnormalize u := rfl

theorem code_urlnormalize_eq_z (u : Str) : Gen.Code.urlnormalize u = .ok (UrlPath.znormalize u) := by
  rw [znormalize_eq]; exact code_urlnormalize_eq u

/-- `urldefrag` with `urllib.parse.urldefrag` = the model `UrlPath.defrag` -/
theorem code_urldefrag_eq (u : Str) :
    Gen.Code.urldefrag (fun x => .ok (UrlPath.defrag x)) u = .ok (UrlPath.zdefragUrl u, UrlPath.defragFrag u) := by
  unfold Gen.Code.urldefrag
  simp only [code_urlnormalize_eq_z]
  rfl

/-- `urljoin` with `urllib.parse.urljoin` = the model `UrlPath.join` -/
theorem code_urljoin_eq (b r : Str) :
    Gen.Code.urljoin (fun x y => .ok (UrlPath.join x y)) b r = .ok (UrlPath.zjoin b r) := by
  unfold Gen.Code.urljoin UrlPath.zjoin
  simp only [slice_from_5, UrlPath.fileSlash1, UrlPath.fileSlash3, UrlPath.fileSlashes]
  split
  · next h => simp only [h, ↓reduceIte]
  · next h => simp only [h, ↓reduceIte, Bool.false_eq_true]

/-- an exception of the urllib function passes through both wrappers unchanged -/
theorem code_url_wrappers_propagate (e : PyExc) (b r : Str) :
    Gen.Code.urljoin (fun _ _ => .error e) b r = .error e ∧ Gen.Code.urldefrag (fun _ => .error e) b = .error e :=
  ⟨rfl, rfl⟩

end ZCV.CodeEq
