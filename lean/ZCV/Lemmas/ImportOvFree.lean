import ZCV.Lemmas.ImportOvFinal
/-!
The notions for texts with `%import` lines (`editI`, `denoteI`, `docHandlersI`) on a text WITHOUT `%import` lines are the
notions of C14 / C02 / C16 (`edit`, `denote`, `docHandlers`): the new theorems specialise to the old ones.
-/
namespace ZCV.Conf
open ZCV ZCV.Cfg

theorem editTops_items (conv : Conv) (S : Schema) (asGiven : Bool) (norm : Str → Except ConvErr Str) (keys : List Str) :
    ∀ (l : List Item) (pend : List OptItem),
      editTops conv S asGiven norm keys (l.map .item) pend =
        (editItems conv S asGiven norm keys l pend).map fun x => (x.1.map .item, x.2)
  | [], pend => by rw [List.map_nil, editTops, editItems]; rfl
  | i :: r, pend => by
    rw [List.map_cons, editTops, editItems]
    cases editItem conv S asGiven norm keys i pend with
    | error e => rfl
    | ok q =>
      obtain ⟨is, pend1⟩ := q
      simp only
      rw [editTops_items conv S asGiven norm keys r pend1]
      cases editItems conv S asGiven norm keys r pend1 with
      | error e => rfl
      | ok q2 =>
        obtain ⟨rs, pend2⟩ := q2
        simp only [Except.map, List.map_append]

/-- **`editI` extends `edit`**: on a text without `%import` lines the edit of the top-level items is the edit of C14 -/
theorem editBodyI_items (conv : Conv) (S : Schema) (asGiven : Bool) (its : List Item) (ovs : List OptItem) :
    editBodyI conv S asGiven (its.map .item) ovs = (editBody conv S asGiven S.top.keytype its ovs).map (List.map .item) := by
  unfold editBodyI editBody
  cases splitOvs (conv.key S.top.keytype) ovs with
  | error e => rfl
  | ok p =>
    obtain ⟨ks, ss⟩ := p
    simp only
    rw [editTops_items]
    cases editItems conv S asGiven (conv.key S.top.keytype) ((groupsOf ks).map (·.1)) its ss with
    | error e => rfl
    | ok q =>
      obtain ⟨is, left⟩ := q
      cases left with
      | nil =>
        show (Except.ok (is.map TopItem.item ++ (newLines asGiven (groupsOf ks)).map TopItem.item) :
            Except Reject (List TopItem)) =
          Except.ok ((is ++ newLines asGiven (groupsOf ks)).map TopItem.item)
        rw [List.map_append]
      | cons o left => rfl

theorem importsOK_items (pkgs : Str → Pkg) (s : Schema) : ∀ (its : List Item), importsOK pkgs s (its.map .item) = schemaOK s
  | [] => rfl
  | i :: r => by rw [List.map_cons, importsOK]; exact importsOK_items pkgs s r

/-- the edit of a body keeps lower-case headers -/
theorem lowItems_editBody (conv : Conv) (S : Schema) (asGiven : Bool) (kt : Str) (items : List Item) (ovs : List OptItem)
    (items' : List Item) (hl : lowItems items = true) (h : editBody conv S asGiven kt items ovs = .ok items') :
    lowItems items' = true := by
  obtain ⟨ks, ss, is, _, h2, rfl⟩ := editBody_ok conv S asGiven kt items ovs items' h
  rw [lowItems_append, lowItems_edit conv S asGiven items hl _ _ _ _ _ h2, lowItems_kvs _ (newLines_kv asGiven _)]
  rfl

theorem topVals_items (conv : Conv) (pkgs : Str → Pkg) (s : Schema) : ∀ (its : List Item),
    topVals conv pkgs s (its.map .item) = itemVals conv s its
  | [] => by rw [List.map_nil, topVals, itemVals]
  | i :: r => by rw [List.map_cons, topVals, itemVals, topVals_items conv pkgs s r]

/-- **`docHandlersI` extends `docHandlers`** -/
theorem docHandlersI_items (conv : Conv) (pkgs : Str → Pkg) (s : Schema) (its : List Item)
    (hs : schemaOK s = true) (hl : lowItems its = true) :
    docHandlersI conv s pkgs (its.map .item) = docHandlers conv s its := by
  unfold docHandlersI docHandlers handlersOf
  have h1 := topHandlers_items_append conv pkgs s its []
  rw [List.append_nil] at h1
  rw [h1, topHandlers, List.append_nil, C12_denoteI_free conv pkgs s its hs hl]
  congr 2
  unfold ownHandlersI ownHandlers
  rw [schemaAt_length, (items_shape pkgs s its).1, (items_shape pkgs s its).2.1, topVals_items]
  simp only
  apply filterMap_congr'
  intro c _
  cases c.2.handler <;>
    cases childVal conv s s.top (keyLines conv s.top its) (subsOf its (itemVals conv s its)) c <;> rfl
where
  C12_denoteI_free (conv : Conv) (pkgs : Str → Pkg) (s : Schema) (its : List Item)
      (hs : schemaOK s = true) (hl : lowItems its = true) : denoteI conv s pkgs (its.map .item) = denote conv s its := by
    have hok : importsOK pkgs s (its.map .item) = true := by rw [importsOK_items]; exact hs
    have := denoteI_imports_first conv pkgs s [] its (by simpa using hok) hl
    simpa [extendBy] using this

end ZCV.Conf
