import ZCV.Lemmas.ElabNoIntKey
/-!
No internal errors, continued: the start/end handlers of `<key>`, `<multikey>`, `<section>`, `<multisection>` — what they
do to the parser state (`…_eff`) and that they do not fail internally when a container is on top of the stack (`…_ni`).
-/
namespace ZCV.Elab
open ZCV ZCV.Cfg

variable {P : String → Prop}

/-! ### `<key>` / `<multikey>` -/

theorem pushKey_eff {st st' : PSt} {k : EKey}
    (h : (addChild st (some k.name) (EInfo.key k) >>= fun st1 => (pure { st1 with stack := .key k :: st1.stack } : EM PSt)) = .ok st') :
    ∃ ch, topOf st.es st.stack = .ok ch ∧
      st' = { st with es := setTopOf st.es st.stack (ch ++ [(some k.name, EInfo.key k)]), stack := .key k :: st.stack } := by
  rw [bind_ok] at h
  obtain ⟨st1, hadd, h⟩ := h
  simp only [pure, Except.pure, Except.ok.injEq] at h
  subst h
  obtain ⟨ch, hch, rfl⟩ := addChild_eff hadd
  exact ⟨ch, hch, rfl⟩

/-- what `start_key` does: a well-shaped key object is appended to the container on top of the stack and pushed -/
theorem startKey_eff {env : Env} {st st' : PSt} {attrs : Attrs} (h : startKey env st attrs = .ok st') :
    ∃ k ch, KeyShape k ∧ topOf st.es st.stack = .ok ch ∧
      st' = { st with es := setTopOf st.es st.stack (ch ++ [(some k.name, EInfo.key k)]), stack := .key k :: st.stack } := by
  unfold startKey at h
  rw [bind_ok] at h
  obtain ⟨⟨name, dt, handler, attrName⟩, hki, h⟩ := h
  obtain ⟨hname, hattr⟩ := getKeyInfo_spec hki
  dsimp -zeta only at h
  rw [bind_ok] at h
  obtain ⟨req, hreq, h⟩ := h
  extract_lets k0 jpAdd jpFin at h
  have hAdd : ∀ k2, KeyShape k2 → k2.name = name → jpAdd k2 = .ok st' →
      ∃ k ch, KeyShape k ∧ topOf st.es st.stack = .ok ch ∧
        st' = { st with es := setTopOf st.es st.stack (ch ++ [(some k.name, EInfo.key k)]), stack := .key k :: st.stack } := by
    intro k2 hk2 hn hj
    subst hn
    obtain ⟨ch, hch, he⟩ := pushKey_eff hj
    exact ⟨k2, ch, hk2, hch, he⟩
  have hFin : ∀ k1, KeyShape k1 → k1.name = name → jpFin k1 = .ok st' →
      ∃ k ch, KeyShape k ∧ topOf st.es st.stack = .ok ch ∧
        st' = { st with es := setTopOf st.es st.stack (ch ++ [(some k.name, EInfo.key k)]), stack := .key k :: st.stack } := by
    intro k1 hk1 hn hj
    simp only [jpFin] at hj
    rcases ite_ok hj with ⟨_, hj⟩ | ⟨_, hj⟩
    · rw [bind_ok] at hj
      obtain ⟨k2, hf, hj⟩ := hj
      obtain ⟨hs2, hsame⟩ := finishKey_shape k1 k2 hk1 hf
      exact hAdd k2 hs2 (hsame.name.trans hn) hj
    · exact hAdd k1 hk1 hn hj
  have hk0 : KeyShape k0 := by
    refine ⟨hname, ?_⟩
    by_cases hp : name = ['+']
    · simp [k0, hp, plusShape]
    · simp [k0, hp]
  split at h
  · rcases ite_ok h with ⟨_, h⟩ | ⟨hr, h⟩
    · simp [serr, bind, Except.bind] at h
    · rw [bind_ok] at h
      obtain ⟨k1, hd, h⟩ := h
      have hr' : req = false := by simpa using hr
      obtain ⟨hs1, hsame, _⟩ := addDefault_shape k0 k1 _ none hk0 (by simp [k0, hr']) hd
      exact hFin k1 hs1 hsame.name h
  · exact hFin k0 hk0 rfl h

theorem startMultikey_eff {env : Env} {st st' : PSt} {attrs : Attrs} (h : startMultikey env st attrs = .ok st') :
    ∃ k ch, KeyShape k ∧ topOf st.es st.stack = .ok ch ∧
      st' = { st with es := setTopOf st.es st.stack (ch ++ [(some k.name, EInfo.key k)]), stack := .key k :: st.stack } := by
  unfold startMultikey at h
  extract_lets jp at h
  obtain ⟨_, h⟩ := guard_jp h
  simp -zeta only [jp] at h
  rw [bind_ok] at h
  obtain ⟨⟨name, dt, handler, attrName⟩, hki, h⟩ := h
  obtain ⟨hname, hattr⟩ := getKeyInfo_spec hki
  dsimp -zeta only at h
  rw [bind_ok] at h
  obtain ⟨req, hreq, h⟩ := h
  extract_lets k at h
  have hk : KeyShape k := by
    refine ⟨hname, ?_⟩
    by_cases hp : name = ['+']
    · simp [k, hp, plusShape]
    · simp [k, hp]
  obtain ⟨ch, hch, he⟩ := pushKey_eff (k := k) h
  exact ⟨k, ch, hk, hch, he⟩

theorem dfltOK_freshKey (name attrName dt : Str) (handler : Option Str) (m : Nat) :
    DfltOK { name := name, attr := attrName, multi := false, minOccurs := m, dt := dt, handler := handler,
             dflt := if name == ['+'] then .keyed [] else .none } := by
  refine ⟨fun hp => ?_, fun hp hm => ?_⟩
  · have : name = ['+'] := hp
    simp [this, plusShape]
  · simp at hm

theorem startKey_ni {env : Env} {st : PSt} (he : EnvNI env) (hp : st.prefixes ≠ [])
    (hc : ContainerOK st.es st.stack) (attrs : Attrs) : NIx P (startKey env st attrs) := by
  unfold startKey
  refine NIx.bind (getKeyInfo_ni he hp hc _) (fun r _ => ?_)
  obtain ⟨name, dt, handler, attrName⟩ := r
  dsimp only
  refine NIx.bind (getRequired_ni _) (fun req _ => ?_)
  ni_steps [first | exact addChild_ni hc _ _ | exact addDefault_ni (dfltOK_freshKey _ _ _ _ _) _ _ | exact finishKey_ni _]

theorem startMultikey_ni {env : Env} {st : PSt} (he : EnvNI env) (hp : st.prefixes ≠ [])
    (hc : ContainerOK st.es st.stack) (attrs : Attrs) : NIx P (startMultikey env st attrs) := by
  unfold startMultikey
  dsimp only
  ni_steps [first | exact addChild_ni hc _ _ | exact getKeyInfo_ni he hp hc _ ]

/-- writing a finished key back over the last child of the container on top of the stack -/
theorem replaceLast_post {st1 st' : PSt} {k' : EKey} {ch : List (Option Str × EInfo)} {key : Option Str} {k0 : EKey}
    (hk' : KeyShape k') (ht : topOf st1.es st1.stack = .ok (ch ++ [(key, EInfo.key k0)])) (hks : KeysOK st1.es)
    (h : replaceLastChild st1 k' = .ok st') :
    st'.stack = st1.stack ∧ st'.prefixes = st1.prefixes ∧ kinds st'.es = kinds st1.es ∧ KeysOK st'.es := by
  have he := replaceLastChild_eff ht h
  subst he
  refine ⟨rfl, rfl, kinds_setTopOf _ _ _, hks.setTopOf _ ?_⟩
  exact ((hks.topOf ht).left).append (ChKeys.single_key hk')

theorem endKey_post {env : Env} {st st' : PSt} {k : EKey} {rest : List Frame}
    (hs : st.stack = .key k :: rest) (hk : KeyShape k) (hl : LastKey st.es rest k) (hks : KeysOK st.es)
    (h : endKey env st = .ok st') :
    st'.stack = rest ∧ st'.prefixes = st.prefixes ∧ kinds st'.es = kinds st.es ∧ KeysOK st'.es := by
  unfold endKey at h
  rw [hs] at h
  dsimp -zeta only at h
  extract_lets st1 jp at h
  obtain ⟨ch, key, k0, htop, _, _⟩ := hl
  have hjp : ∀ k', KeyShape k' → jp k' = .ok st' →
      st'.stack = rest ∧ st'.prefixes = st.prefixes ∧ kinds st'.es = kinds st.es ∧ KeysOK st'.es := by
    intro k' hk' hj
    exact replaceLast_post (st1 := st1) hk' htop hks hj
  rcases ite_ok h with ⟨_, h⟩ | ⟨_, h⟩
  · rw [bind_ok] at h
    obtain ⟨kt, _, h⟩ := h
    rw [bind_ok] at h
    obtain ⟨k1, hc, h⟩ := h
    rw [bind_ok] at h
    obtain ⟨k2, hf, h⟩ := h
    obtain ⟨hs1, _⟩ := computeDefault_shape env kt k k1 hk hc
    obtain ⟨hs2, _⟩ := finishKey_shape k1 k2 hs1 hf
    exact hjp k2 hs2 h
  · exact hjp k hk h

theorem endMultikey_post {env : Env} {st st' : PSt} {k : EKey} {rest : List Frame}
    (hs : st.stack = .key k :: rest) (hk : KeyShape k) (hl : LastKey st.es rest k) (hks : KeysOK st.es)
    (h : endMultikey env st = .ok st') :
    st'.stack = rest ∧ st'.prefixes = st.prefixes ∧ kinds st'.es = kinds st.es ∧ KeysOK st'.es := by
  unfold endMultikey at h
  rw [hs] at h
  dsimp -zeta only at h
  extract_lets st1 jp at h
  obtain ⟨ch, key, k0, htop, _, _⟩ := hl
  have hjp : ∀ k', KeyShape k' → jp k' = .ok st' →
      st'.stack = rest ∧ st'.prefixes = st.prefixes ∧ kinds st'.es = kinds st.es ∧ KeysOK st'.es := by
    intro k' hk' hj
    simp only [jp] at hj
    rw [bind_ok] at hj
    obtain ⟨k2, hf, hj⟩ := hj
    obtain ⟨hs2, _⟩ := finishKey_shape k' k2 hk' hf
    exact replaceLast_post (st1 := st1) hs2 htop hks hj
  rcases ite_ok h with ⟨_, h⟩ | ⟨_, h⟩
  · rw [bind_ok] at h
    obtain ⟨kt, _, h⟩ := h
    rw [bind_ok] at h
    obtain ⟨k1, hc, h⟩ := h
    obtain ⟨hs1, _⟩ := computeDefault_shape env kt k k1 hk hc
    exact hjp k1 hs1 h
  · exact hjp k hk h

theorem computeDefault_ni' {env : Env} (hke : ∀ kt s e, env.conv.key kt s = .error e → e = .valueError) (kt : Str)
    {k : EKey} (hs : KeyShape k) (hp : (k.name == ['+']) = true) : NIx P (computeDefault env kt k) :=
  computeDefault_ni hke kt hs (by simpa using hp)

theorem endKey_ni {env : Env} {st : PSt} {k : EKey} {rest : List Frame} (he : EnvNI env)
    (hs : st.stack = .key k :: rest) (hk : KeyShape k) (hl : LastKey st.es rest k) : NIx P (endKey env st) := by
  unfold endKey
  rw [hs]
  dsimp only
  obtain ⟨ch, key, k0, htop, _, _⟩ := hl
  obtain ⟨kt, hkt⟩ := topKeytype_ok (st := { st with stack := rest }) (topOf_container htop)
  ni_steps [first
    | exact NIx.of_ok hkt
    | exact computeDefault_ni' he.keyErr _ hk (by assumption)
    | exact finishKey_ni _
    | exact replaceLastChild_ni (st := { st with stack := rest }) htop]

theorem endMultikey_ni {env : Env} {st : PSt} {k : EKey} {rest : List Frame} (he : EnvNI env)
    (hs : st.stack = .key k :: rest) (hk : KeyShape k) (hl : LastKey st.es rest k) : NIx P (endMultikey env st) := by
  unfold endMultikey
  rw [hs]
  dsimp only
  obtain ⟨ch, key, k0, htop, _, _⟩ := hl
  obtain ⟨kt, hkt⟩ := topKeytype_ok (st := { st with stack := rest }) (topOf_container htop)
  ni_steps [first
    | exact NIx.of_ok hkt
    | exact computeDefault_ni' he.keyErr _ hk (by assumption)
    | exact finishKey_ni _
    | exact replaceLastChild_ni (st := { st with stack := rest }) htop]

/-- after `start_key` / `start_multikey`: the pushed key is the last child of the container below -/
theorem keyStart_post {st st' : PSt} {k : EKey} {ch : List (Option Str × EInfo)} (hk : KeyShape k)
    (hch : topOf st.es st.stack = .ok ch) (hks : KeysOK st.es)
    (he : st' = { st with es := setTopOf st.es st.stack (ch ++ [(some k.name, EInfo.key k)]), stack := .key k :: st.stack }) :
    st'.stack = .key k :: st.stack ∧ st'.prefixes = st.prefixes ∧ kinds st'.es = kinds st.es ∧ KeysOK st'.es ∧
      LastKey st'.es st.stack k := by
  subst he
  refine ⟨rfl, rfl, kinds_setTopOf _ _ _, hks.setTopOf _ ((hks.topOf hch).append (ChKeys.single_key hk)), ?_⟩
  exact ⟨ch, some k.name, k, topOf_setTopOf hch, rfl, rfl⟩

/-! ### `<section>` / `<multisection>` -/

theorem pushSect_eff {st st' : PSt} {key : Option Str} {si : SectInfo}
    (h : (addChild st key (EInfo.sect si) >>= fun st1 => (pure { st1 with stack := .sect false false :: st1.stack } : EM PSt)) = .ok st') :
    ∃ ch, topOf st.es st.stack = .ok ch ∧
      st' = { st with es := setTopOf st.es st.stack (ch ++ [(key, EInfo.sect si)]), stack := .sect false false :: st.stack } := by
  rw [bind_ok] at h
  obtain ⟨st1, hadd, h⟩ := h
  simp only [pure, Except.pure, Except.ok.injEq] at h
  subst h
  obtain ⟨ch, hch, rfl⟩ := addChild_eff hadd
  exact ⟨ch, hch, rfl⟩

/-- what `start_section` does: a section entry is appended to the container on top of the stack, a frame pushed -/
theorem startSection_eff {env : Env} {st st' : PSt} {attrs : Attrs} (h : startSection env st attrs = .ok st') :
    ∃ key si ch, topOf st.es st.stack = .ok ch ∧
      st' = { st with es := setTopOf st.es st.stack (ch ++ [(key, EInfo.sect si)]), stack := .sect false false :: st.stack } := by
  unfold startSection at h
  rw [bind_ok] at h
  obtain ⟨ty, hty, h⟩ := h
  rw [bind_ok] at h
  obtain ⟨handler, _, h⟩ := h
  rw [bind_ok] at h
  obtain ⟨req, _, h⟩ := h
  rw [bind_ok] at h
  obtain ⟨⟨anyName, name, attrName⟩, hni, h⟩ := h
  dsimp -zeta only at h
  extract_lets si jp at h
  obtain ⟨hassert, h⟩ := guard_jp h
  simp only [jp] at h
  obtain ⟨ch, hch, he⟩ := pushSect_eff h
  exact ⟨_, _, ch, hch, he⟩

theorem startMultisection_eff {env : Env} {st st' : PSt} {attrs : Attrs} (h : startMultisection env st attrs = .ok st') :
    ∃ key si ch, topOf st.es st.stack = .ok ch ∧
      st' = { st with es := setTopOf st.es st.stack (ch ++ [(key, EInfo.sect si)]), stack := .sect false false :: st.stack } := by
  unfold startMultisection at h
  rw [bind_ok] at h
  obtain ⟨ty, hty, h⟩ := h
  rw [bind_ok] at h
  obtain ⟨req, _, h⟩ := h
  rw [bind_ok] at h
  obtain ⟨⟨anyName, name, attrName⟩, hni, h⟩ := h
  dsimp -zeta only at h
  split at h
  · extract_lets jp at h
    obtain ⟨hms, h⟩ := guard_jp h
    simp only [jp] at h
    rw [bind_ok] at h
    obtain ⟨handler, _, h⟩ := h
    obtain ⟨ch, hch, he⟩ := pushSect_eff h
    exact ⟨_, _, ch, hch, he⟩
  · cases h

theorem sectStart_post {st st' : PSt} {key : Option Str} {si : SectInfo} {ch : List (Option Str × EInfo)}
    (hch : topOf st.es st.stack = .ok ch) (hks : KeysOK st.es)
    (he : st' = { st with es := setTopOf st.es st.stack (ch ++ [(key, EInfo.sect si)]), stack := .sect false false :: st.stack }) :
    st'.stack = .sect false false :: st.stack ∧ st'.prefixes = st.prefixes ∧ kinds st'.es = kinds st.es ∧ KeysOK st'.es := by
  subst he
  exact ⟨rfl, rfl, kinds_setTopOf _ _ _, hks.setTopOf _ ((hks.topOf hch).append ChKeys.single_sect)⟩

theorem getSectiontype_ni (st : PSt) (attrs : Attrs) : NIx P (getSectiontype st attrs) := by
  unfold getSectiontype
  repeat' ni_step

/-- `start_section`: the `assert` of `addsection` cannot fail when key types never produce a wildcard name -/
theorem startSection_ni {env : Env} {st : PSt} (he : EnvNI env) (hc : ContainerOK st.es st.stack) (attrs : Attrs) :
    NIx P (startSection env st attrs) := by
  unfold startSection
  refine NIx.bind (getSectiontype_ni _ _) (fun ty _ => ?_)
  refine NIx.bind (getHandler_ni _) (fun handler _ => ?_)
  refine NIx.bind (getRequired_ni _) (fun req _ => ?_)
  refine NIx.bind (getNameInfo_ni he.keyErr hc _ _) (fun r hr => ?_)
  obtain ⟨anyName, name, attrName⟩ := r
  dsimp only
  obtain ⟨name0, aname, _, ht⟩ := getNameInfo_tail hr
  obtain ⟨_, hn⟩ := nameTail_spec ht
  have hname : ¬ ((name == some ['*'] || name == some ['+']) = true) := by
    rcases hn with ⟨n, _, _, rfl⟩ | ⟨_, nm, kt, rfl, hany, hconv⟩
    · simp
    · have := he.keyWild _ _ _ hconv hany
      simp [this.1, this.2]
  rw [if_neg hname]
  ni_steps [exact addChild_ni hc _ _]

theorem startMultisection_ni {env : Env} {st : PSt} (he : EnvNI env) (hc : ContainerOK st.es st.stack) (attrs : Attrs) :
    NIx P (startMultisection env st attrs) := by
  unfold startMultisection
  refine NIx.bind (getSectiontype_ni _ _) (fun ty _ => ?_)
  refine NIx.bind (getRequired_ni _) (fun req _ => ?_)
  refine NIx.bind (getNameInfo_ni he.keyErr hc _ _) (fun r hr => ?_)
  obtain ⟨anyName, name, attrName⟩ := r
  dsimp only
  ni_steps [exact addChild_ni hc _ _]

theorem popFrame_ni {st : PSt} (h : st.stack ≠ []) : NIx P (popFrame st) := by
  unfold popFrame
  split
  · exact NIx.ok _
  · rename_i hnil; exact absurd hnil h

theorem popFrame_eff {st st' : PSt} (h : popFrame st = .ok st') : st' = { st with stack := st.stack.tail } := by
  unfold popFrame at h
  split at h
  · rename_i hs; injection h with h; rw [← h, hs]; rfl
  · cases h

end ZCV.Elab
