import ZCV.Lemmas.OverrideSimS
import ZCV.Lemmas.ImportLoadEval
import ZCV.Spec.EditImport
/-!
A load with `%import` lines AND command-line overrides, seen from the top matcher and the schema:

* `evalTopsBS` / `hTopsBS` — the top-level items evaluated one after the other, the option bags consulting the schema `S`
  the load started with; `runTops_evalBS` ties them to the loader state (`runTops`), handler list included;
* `evalItemB_eq_evalItem`, `evalTopsBS_nobag` — without a bag this is the evaluation of C12 (`evalTops`);
* `simTopsS` — evaluating the items with a bag = evaluating, without one, the items edited against `S` (`editTops`).
-/
namespace ZCV.Conf
open ZCV ZCV.Cfg

/-! ### the top-level items on the top matcher -/

def evalTopsBS (conv : Conv) (pkgs : Str → Pkg) (S : Schema) : Schema → Matcher → List TopItem → Option (Schema × Matcher)
  | s, m, [] => some (s, m)
  | s, m, .item i :: r =>
    match evalItemBS conv S s m i with
    | .ok m' => evalTopsBS conv pkgs S s m' r
    | .error _ => none
  | s, m, .imp p :: r =>
    match extend s (pkgs p) with
    | some s' => evalTopsBS conv pkgs S s' m r
    | none => none

/-- the handler entries appended while the top-level items are run -/
def hTopsBS (conv : Conv) (pkgs : Str → Pkg) (S : Schema) : Schema → Matcher → List TopItem → List (Str × Val)
  | _, _, [] => []
  | s, m, .item i :: r =>
    hItemBS conv S s m i ++
      (match evalItemBS conv S s m i with
       | .ok m' => hTopsBS conv pkgs S s m' r
       | .error _ => [])
  | s, m, .imp p :: r =>
    match extend s (pkgs p) with
    | some s' => hTopsBS conv pkgs S s' m r
    | none => []

theorem runTops_evalBS (conv : Conv) (pkgs : Str → Pkg) (S : Schema) :
    ∀ (tops : List TopItem) (st : LS) (m : Matcher), st.stack = [m] → st.conv = conv → st.pkgs = pkgs →
      st.bagSchema = some S →
      match evalTopsBS conv pkgs S st.schema m tops with
      | some (sF, m') => ∃ st', runTops st tops = .ok st' ∧ st'.stack = [m'] ∧ st'.schema = sF ∧
          st'.handlers = st.handlers ++ hTopsBS conv pkgs S st.schema m tops
      | none => ∃ e, runTops st tops = .error e
  | [], st, m, hst, _, _, _ => by
    rw [evalTopsBS, runTops, hTopsBS]
    exact ⟨st, rfl, hst, rfl, by rw [List.append_nil]⟩
  | .item i :: r, st, m, hst, hconv, hpk, hbs => by
    rw [evalTopsBS, runTops, hTopsBS]
    have h1 := runItem_evalBS conv S st.schema i st m [] hst rfl hconv (by rw [hbs]; rfl)
    simp only [runTop]
    cases he : evalItemBS conv S st.schema m i with
    | error e =>
      rw [he] at h1
      rw [h1]
      exact ⟨e, rfl⟩
    | ok m' =>
      rw [he] at h1
      rw [h1]
      have ih := runTops_evalBS conv pkgs S r (withTop st m' [] (st.handlers ++ hItemBS conv S st.schema m i)) m' rfl hconv hpk hbs
      simp only [withTop] at ih ⊢
      cases hr : evalTopsBS conv pkgs S st.schema m' r with
      | none =>
        rw [hr] at ih
        exact ih
      | some p =>
        obtain ⟨sF, m2⟩ := p
        rw [hr] at ih
        obtain ⟨st', h2, h3, h4, h5⟩ := ih
        exact ⟨st', h2, h3, h4, by rw [h5, List.append_assoc]⟩
  | .imp p :: r, st, m, hst, hconv, hpk, hbs => by
    cases hpk
    rw [evalTopsBS, runTops, hTopsBS]
    simp only [runTop]
    have h1 := lsImport_toOption st p
    cases he : extend st.schema (st.pkgs p) with
    | none =>
      rw [he] at h1
      cases hi : lsImport st p with
      | error e => exact ⟨e, rfl⟩
      | ok x => rw [hi] at h1; cases h1
    | some s' =>
      rw [he] at h1
      simp only [Option.map_some] at h1
      rw [toOption_eq_some] at h1
      rw [h1]
      exact runTops_evalBS conv st.pkgs S r { st with schema := s', privateSchema := true } m hst hconv rfl hbs

theorem evalTopsBS_append (conv : Conv) (pkgs : Str → Pkg) (S : Schema) :
    ∀ (l r : List TopItem) (s : Schema) (m : Matcher),
      evalTopsBS conv pkgs S s m (l ++ r) = (evalTopsBS conv pkgs S s m l).bind fun x => evalTopsBS conv pkgs S x.1 x.2 r
  | [], r, s, m => by rw [List.nil_append, evalTopsBS]; rfl
  | .item i :: l, r, s, m => by
    rw [List.cons_append, evalTopsBS, evalTopsBS]
    cases evalItemBS conv S s m i with
    | error e => rfl
    | ok m' => exact evalTopsBS_append conv pkgs S l r s m'
  | .imp p :: l, r, s, m => by
    rw [List.cons_append, evalTopsBS, evalTopsBS]
    cases extend s (pkgs p) with
    | none => rfl
    | some s' => exact evalTopsBS_append conv pkgs S l r s' m

/-- a list of items without `%import` -/
theorem evalTopsBS_items (conv : Conv) (pkgs : Str → Pkg) (S : Schema) (s : Schema) :
    ∀ (l : List Item) (m : Matcher),
      evalTopsBS conv pkgs S s m (l.map .item) = (evalItemsBS conv S s m l).toOption.map fun m' => (s, m')
  | [], m => by rw [List.map_nil, evalTopsBS, evalItemsBS_nil]; rfl
  | i :: l, m => by
    rw [List.map_cons, evalTopsBS, evalItemsBS_cons]
    cases evalItemBS conv S s m i with
    | error e => rfl
    | ok m' => exact evalTopsBS_items conv pkgs S s l m'

/-- what the imports of `tops` make of the schema does not depend on the matcher -/
theorem evalTopsBS_schema (conv : Conv) (pkgs : Str → Pkg) (S : Schema) :
    ∀ (tops : List TopItem) (s : Schema) (m : Matcher) (sF : Schema) (m' : Matcher),
      evalTopsBS conv pkgs S s m tops = some (sF, m') → extendBy pkgs s tops = some sF
  | [], s, m, sF, m', h => by
    rw [evalTopsBS] at h
    cases h
    rfl
  | .item i :: r, s, m, sF, m', h => by
    rw [evalTopsBS] at h
    rw [extendBy]
    cases he : evalItemBS conv S s m i with
    | error e => rw [he] at h; cases h
    | ok m1 => rw [he] at h; exact evalTopsBS_schema conv pkgs S r s m1 sF m' h
  | .imp p :: r, s, m, sF, m', h => by
    rw [evalTopsBS] at h
    rw [extendBy]
    cases he : extend s (pkgs p) with
    | none => rw [he] at h; cases h
    | some s' => rw [he] at h; exact evalTopsBS_schema conv pkgs S r s' m sF m' h

/-! ### without a bag: the evaluation of C12 -/

/-- a state with `m` alone on the matcher stack -/
def stOf (conv : Conv) (s : Schema) (m : Matcher) : LS :=
  { schema := s, privateSchema := false, handlers := [], stack := [m], pkgs := fun _ => .notImportable, conv := conv }

/-- on a matcher without a bag, `evalItemB` (C14) and `evalItem` (C01) agree on success and on the matcher reached -/
theorem evalItemB_eq_evalItem (conv : Conv) (s : Schema) (m : Matcher) (hb : m.bag = none) (i : Item) :
    (evalItemB conv s m i).toOption = (evalItem conv s m i).toOption := by
  have h1 := runItem_evalB conv s i (stOf conv s m) m [] rfl rfl rfl rfl
  have h2 := runItem_eval conv s i (stOf conv s m) m [] rfl rfl rfl hb
  cases he : evalItemB conv s m i with
  | error e =>
    rw [he] at h1
    cases he2 : evalItem conv s m i with
    | error e2 => rfl
    | ok m2 =>
      rw [he2] at h2
      obtain ⟨_, hs, hr⟩ := h2
      rw [h1] at hr
      cases hr
  | ok m1 =>
    rw [he] at h1
    obtain ⟨hs1, hr1⟩ := h1
    cases he2 : evalItem conv s m i with
    | error e2 =>
      rw [he2] at h2
      obtain ⟨e', hr⟩ := h2
      rw [hr1] at hr
      cases hr
    | ok m2 =>
      rw [he2] at h2
      obtain ⟨_, hs, hr⟩ := h2
      rw [hr1] at hr
      have : m1 :: [] = m2 :: [] := congrArg LS.stack (Except.ok.inj hr)
      cases this
      rfl

theorem evalItemsB_eq_evalItems (conv : Conv) (s : Schema) : ∀ (l : List Item) (m : Matcher), m.bag = none →
    (evalItemsB conv s m l).toOption = (evalItems conv s m l).toOption
  | [], m, _ => by rw [evalItemsB, evalItems]
  | i :: r, m, hb => by
    have h := evalItemB_eq_evalItem conv s m hb i
    rw [evalItemsB, evalItems]
    cases he : evalItemB conv s m i with
    | error e =>
      rw [he] at h
      cases he2 : evalItem conv s m i with
      | error e2 => rfl
      | ok m2 => rw [he2] at h; cases h
    | ok m1 =>
      rw [he] at h
      cases he2 : evalItem conv s m i with
      | error e2 => rw [he2] at h; cases h
      | ok m2 =>
        rw [he2] at h
        cases h
        exact evalItemsB_eq_evalItems conv s r m1 ((evalItemB_pres conv s m m1 i he).2 hb)

theorem evalItemsB_ok_evalItems (conv : Conv) (s : Schema) (l : List Item) (m m' : Matcher) (hb : m.bag = none)
    (h : evalItemsB conv s m l = .ok m') : evalItems conv s m l = .ok m' := by
  have := evalItemsB_eq_evalItems conv s l m hb
  rw [h] at this
  exact toOption_eq_some.mp this.symm

theorem evalTopsBS_nobag (conv : Conv) (pkgs : Str → Pkg) (S : Schema) :
    ∀ (tops : List TopItem) (s : Schema) (m : Matcher), m.bag = none →
      evalTopsBS conv pkgs S s m tops = evalTops conv pkgs s m tops
  | [], s, m, _ => by rw [evalTopsBS, evalTops]
  | .imp p :: r, s, m, hb => by
    rw [evalTopsBS, evalTops]
    cases extend s (pkgs p) with
    | none => rfl
    | some s' => exact evalTopsBS_nobag conv pkgs S r s' m hb
  | .item i :: r, s, m, hb => by
    have h := evalItemB_eq_evalItem conv s m hb i
    rw [evalTopsBS, evalTops, evalItemBS_nobag conv S s i m hb]
    cases he : evalItemB conv s m i with
    | error e =>
      rw [he] at h
      cases he2 : evalItem conv s m i with
      | error e2 => rfl
      | ok m2 => rw [he2] at h; cases h
    | ok m1 =>
      rw [he] at h
      cases he2 : evalItem conv s m i with
      | error e2 => rw [he2] at h; cases h
      | ok m2 =>
        rw [he2] at h
        cases h
        exact evalTopsBS_nobag conv pkgs S r s m1 ((evalItemB_pres conv s m m1 i he).2 hb)

/-! ### the simulation, along the top level -/

theorem SubSchema_extend {S s s' : Schema} (h : SubSchema S s) (pkg : Pkg) (he : extend s pkg = some s') : SubSchema S s' :=
  fun ty t hg => (Grow_of_extend s s' pkg he).conc ty t (h ty t hg)

theorem evalTopsBS_ty (conv : Conv) (pkgs : Str → Pkg) (S : Schema) :
    ∀ (tops : List TopItem) (s : Schema) (m : Matcher) (sF : Schema) (m' : Matcher), m.bag = none →
      evalTopsBS conv pkgs S s m tops = some (sF, m') → m'.ty = m.ty ∧ m'.bag = none
  | [], s, m, sF, m', hb, h => by
    rw [evalTopsBS] at h
    cases h
    exact ⟨rfl, hb⟩
  | .imp p :: r, s, m, sF, m', hb, h => by
    rw [evalTopsBS] at h
    cases he : extend s (pkgs p) with
    | none => rw [he] at h; cases h
    | some s' => rw [he] at h; exact evalTopsBS_ty conv pkgs S r s' m sF m' hb h
  | .item i :: r, s, m, sF, m', hb, h => by
    rw [evalTopsBS, evalItemBS_nobag conv S s i m hb] at h
    cases he : evalItemB conv s m i with
    | error e => rw [he] at h; cases h
    | ok m1 =>
      rw [he] at h
      have hp := evalItemB_pres conv s m m1 i he
      obtain ⟨h1, h2⟩ := evalTopsBS_ty conv pkgs S r s m1 sF m' (hp.2 hb) h
      exact ⟨h1.trans hp.1, h2⟩

/-- the same with the bag put back on the matcher reached -/
def rebag (B : Option Bag) (x : Schema × Matcher) : Schema × Matcher := (x.1, withBag x.2 B)

theorem simTopsS (conv : Conv) (pkgs : Str → Pkg) (S : Schema) (asGiven : Bool) (hsp : SpellOK conv S asGiven) :
    ∀ (tops : List TopItem) (s : Schema), importsOK pkgs s tops = true → lowTops tops = true → SubSchema S s →
      ∀ (m : Matcher) (kp : List (Str × List Str)) (pend : List OptItem), m.bag = none → PendOK pend →
        match editTops conv S asGiven (conv.key m.ty.keytype) (kp.map (·.1)) tops pend with
        | .error _ => evalTopsBS conv pkgs S s (withBag m (some { keypairs := kp, sectitems := pend })) tops = none
        | .ok (tops', pend') =>
          evalTopsBS conv pkgs S s (withBag m (some { keypairs := kp, sectitems := pend })) tops =
            (evalTopsBS conv pkgs S s m tops').map (rebag (some { keypairs := kp, sectitems := pend' }))
  | [], s, _, _, _, m, kp, pend, _, _ => by
    rw [editTops]
    simp only
    rw [evalTopsBS, evalTopsBS]
    rfl
  | .imp p :: r, s, hok, hl, hSs, m, kp, pend, hb, hpend => by
    rw [lowTops] at hl
    rw [editTops]
    cases hx : extend s (pkgs p) with
    | none =>
      -- both sides stop at the refused import
      cases hed : editTops conv S asGiven (conv.key m.ty.keytype) (kp.map (·.1)) r pend with
      | error e =>
        simp only
        rw [evalTopsBS, hx]
      | ok q =>
        obtain ⟨rs, pend1⟩ := q
        simp only
        rw [evalTopsBS, evalTopsBS, hx]
        rfl
    | some s' =>
      have ih := simTopsS conv pkgs S asGiven hsp r s' (importsOK_imp pkgs p r s s' hok hx) hl
        (SubSchema_extend hSs _ hx) m kp pend hb hpend
      cases hed : editTops conv S asGiven (conv.key m.ty.keytype) (kp.map (·.1)) r pend with
      | error e =>
        rw [hed] at ih
        simp only at ih ⊢
        rw [evalTopsBS, hx]
        exact ih
      | ok q =>
        obtain ⟨rs, pend1⟩ := q
        rw [hed] at ih
        simp only at ih ⊢
        rw [evalTopsBS, evalTopsBS, hx]
        exact ih
  | .item i :: r, s, hok, hl, hSs, m, kp, pend, hb, hpend => by
    have hs := importsOK_head pkgs _ s hok
    rw [importsOK] at hok
    rw [lowTops, Bool.and_eq_true] at hl
    have hcan : tyCanon s [i] = true := tyCanon_of_low s hs [i] (by rw [lowItems, hl.1, lowItems]; rfl)
    have h1 := simItemS conv S s asGiven hsp hSs i hcan m kp pend hb hpend
    rw [editTops]
    cases hed : editItem conv S asGiven (conv.key m.ty.keytype) (kp.map (·.1)) i pend with
    | error e =>
      rw [hed] at h1
      obtain ⟨e1, he1⟩ := h1
      simp only
      rw [evalTopsBS, he1]
    | ok q =>
      obtain ⟨is, pend1⟩ := q
      rw [hed] at h1
      obtain ⟨h1, hsub1⟩ := h1
      simp only
      have hp1 : PendOK pend1 := fun o ho => hpend o (hsub1 o ho)
      rw [evalTopsBS, h1]
      cases hev : evalItemsB conv s m is with
      | error e =>
        cases hed2 : editTops conv S asGiven (conv.key m.ty.keytype) (kp.map (·.1)) r pend1 with
        | error e2 => rfl
        | ok q2 =>
          obtain ⟨rs, pend2⟩ := q2
          simp only
          rw [evalTopsBS_append, evalTopsBS_items, evalItemsBS_nobag conv S s is m hb, hev]
          rfl
      | ok m1 =>
        have hp := evalItemsB_pres conv s is m m1 hev
        have h2 := simTopsS conv pkgs S asGiven hsp r s hok hl.2 hSs m1 kp pend1 (hp.2 hb) hp1
        rw [hp.1] at h2
        cases hed2 : editTops conv S asGiven (conv.key m.ty.keytype) (kp.map (·.1)) r pend1 with
        | error e2 =>
          rw [hed2] at h2
          exact h2
        | ok q2 =>
          obtain ⟨rs, pend2⟩ := q2
          rw [hed2] at h2
          simp only at h2 ⊢
          rw [evalTopsBS_append, evalTopsBS_items, evalItemsBS_nobag conv S s is m hb, hev]
          exact h2

end ZCV.Conf
