import ZCV.Lemmas.ElabExpandLocal
import ZCV.Spec.Expand
/-!
C11 (`extends` = written-out expansion), step 5: reading the same `<key>` / `<multikey>` / `<section>` /
`<multisection>` element in two states that agree on the container on top of the stack gives both containers the same
new list of children.
-/
namespace ZCV.Elab
open ZCV ZCV.Cfg

/-- the finished key object of `end_key` -/
def endKeyObj (env : Env) (kt : EM Str) (k : EKey) : EM EKey :=
  if k.name == ['+'] then kt >>= fun kt => computeDefault env kt k >>= fun k1 => finishKey k1 else pure k

theorem endKey_eq_obj {env : Env} {st : PSt} {k : EKey} {rest : List Frame} (hs : st.stack = .key k :: rest) :
    endKey env st = endKeyObj env (ktOf st.es rest) k >>= fun k' => replaceLastChild { st with stack := rest } k' := by
  unfold endKey endKeyObj
  rw [hs]
  dsimp only
  rw [topKeytype_ktOf]
  by_cases hp : (k.name == ['+']) = true
  · simp only [hp, ↓reduceIte, bind, Except.bind]
    cases ktOf st.es rest with
    | error e => rfl
    | ok kt =>
      simp only
      cases computeDefault env kt k with
      | error e => rfl
      | ok k1 =>
        simp only
        try (cases finishKey k1 <;> rfl)
  · simp only [hp, Bool.false_eq_true, ↓reduceIte]
    try rfl

def endMultikeyObj (env : Env) (kt : EM Str) (k : EKey) : EM EKey :=
  (if k.name == ['+'] then kt >>= fun kt => computeDefault env kt k else pure k) >>= fun k1 => finishKey k1

theorem endMultikey_eq_obj {env : Env} {st : PSt} {k : EKey} {rest : List Frame} (hs : st.stack = .key k :: rest) :
    endMultikey env st = endMultikeyObj env (ktOf st.es rest) k >>= fun k' => replaceLastChild { st with stack := rest } k' := by
  unfold endMultikey endMultikeyObj
  rw [hs]
  dsimp only
  rw [topKeytype_ktOf]
  by_cases hp : (k.name == ['+']) = true
  · simp only [hp, ↓reduceIte, bind, Except.bind]
    cases ktOf st.es rest with
    | error e => rfl
    | ok kt =>
      simp only
      cases computeDefault env kt k with
      | error e => rfl
      | ok k1 =>
        simp only
        try (cases finishKey k1 <;> rfl)
  · simp only [hp, Bool.false_eq_true, ↓reduceIte, bind, Except.bind, pure, Except.pure]
    try (cases finishKey k <;> rfl)

/-- a `+` key whose defaults are those `computedefault` gives under the key type `ktm` -/
def FixedUnder (env : Env) (ktm : EM Str) (info : EInfo) : Prop :=
  ∀ k, info = EInfo.key k → k.name = ['+'] → ∃ kt, ktm = .ok kt ∧ computeDefault env kt k = .ok k

/-- both containers got the same new child, nothing else changed -/
def SameTopUpdate (env : Env) (sb sd sb' sd' : PSt) : Prop :=
  ∃ ch key info, topOf sb.es sb.stack = .ok ch ∧
    sb' = { sb with es := setTopOf sb.es sb.stack (ch ++ [(key, info)]) } ∧
    sd' = { sd with es := setTopOf sd.es sd.stack (ch ++ [(key, info)]) } ∧
    FixedUnder env (ktOf sb.es sb.stack) info

theorem SameTopUpdate.sim {env : Env} {sb sd sb' sd' : PSt} (hs : SimTop sb sd) (h : SameTopUpdate env sb sd sb' sd') :
    SimTop sb' sd' := by
  obtain ⟨ch, key, info, _, rfl, rfl, _⟩ := h
  exact hs.setTop _

theorem finishKey_eq {k k' : EKey} (h : finishKey k = .ok k') : k' = { k with finished := true } := by
  unfold finishKey at h
  split at h
  · cases h
  · injection h with h; exact h.symm

theorem endKeyObj_fixed {env : Env} (ktm : EM Str) (k k'' : EKey) (h : endKeyObj env ktm k = .ok k'') :
    FixedUnder env ktm (EInfo.key k'') := by
  intro kk hkk hname
  injection hkk with hkk
  subst hkk
  unfold endKeyObj at h
  rcases ite_ok h with ⟨hp, h⟩ | ⟨hp, h⟩
  · rw [bind_ok] at h
    obtain ⟨kt, hkt, h⟩ := h
    rw [bind_ok] at h
    obtain ⟨k1, hcd, hfin⟩ := h
    rw [finishKey_eq hfin]
    exact ⟨kt, hkt, computeDefault_idem (by simpa using hp) hcd true⟩
  · injection h with h
    subst h
    exact absurd (by simp [hname]) hp

theorem endMultikeyObj_fixed {env : Env} (ktm : EM Str) (k k'' : EKey) (h : endMultikeyObj env ktm k = .ok k'') :
    FixedUnder env ktm (EInfo.key k'') := by
  intro kk hkk hname
  injection hkk with hkk
  subst hkk
  unfold endMultikeyObj at h
  rw [bind_ok] at h
  obtain ⟨k1, h1, hfin⟩ := h
  have hk'' := finishKey_eq hfin
  rcases ite_ok h1 with ⟨hp, h1⟩ | ⟨hp, h1⟩
  · rw [bind_ok] at h1
    obtain ⟨kt, hkt, hcd⟩ := h1
    rw [hk'']
    exact ⟨kt, hkt, computeDefault_idem (by simpa using hp) hcd true⟩
  · injection h1 with h1
    subst h1
    rw [hk''] at hname
    exact absurd (by simpa using hname) hp

/-- writing the finished key back, in two states whose containers agree -/
theorem endLike_sim {xb xd sb' : PSt} {k' : EKey} {rb rd : List Frame} {ch : List (Option Str × EInfo)} {key : Option Str}
    {k0 : EKey} (endObj : EM Str → EKey → EM EKey)
    (htb : topOf xb.es rb = .ok (ch ++ [(key, EInfo.key k0)])) (htd : topOf xd.es rd = .ok (ch ++ [(key, EInfo.key k0)]))
    (hkt : ktOf xb.es rb = ktOf xd.es rd)
    (h : (endObj (ktOf xb.es rb) k' >>= fun k'' => replaceLastChild { xb with stack := rb } k'') = .ok sb') :
    ∃ k'', sb' = { xb with stack := rb, es := setTopOf xb.es rb (ch ++ [(key, EInfo.key k'')]) } ∧
      (endObj (ktOf xd.es rd) k' >>= fun k'' => replaceLastChild { xd with stack := rd } k'') =
        .ok { xd with stack := rd, es := setTopOf xd.es rd (ch ++ [(key, EInfo.key k'')]) } ∧
      endObj (ktOf xb.es rb) k' = .ok k'' := by
  rw [bind_ok] at h
  obtain ⟨k'', hobj, hrep⟩ := h
  have hb' := replaceLastChild_eff (st := { xb with stack := rb }) htb hrep
  refine ⟨k'', hb', ?_, hobj⟩
  rw [← hkt, hobj]
  simp only [bind, Except.bind]
  exact replaceLastChild_congr (st' := { xd with stack := rd }) htd

/-- `<key>` and `<multikey>`: start, character data, end -/
theorem keylike_sim {env : Env} {h : Hooks} {d : DocKind} {t : Str} {c : List Node} {sb sd sb1 sd1 sb' : PSt} {k : EKey}
    {name : Str} {ch : List (Option Str × EInfo)}
    (endObj : EM Str → EKey → EM EKey)
    (hend : ∀ (st : PSt) (k : EKey) (rest : List Frame), st.stack = .key k :: rest →
      endHandled env t st = endObj (ktOf st.es rest) k >>= fun k' => replaceLastChild { st with stack := rest } k')
    (hend_sect : ∀ (st x : PSt) (a b : Bool) (rest : List Frame), st.stack = .sect a b :: rest → endHandled env t st ≠ .ok x)
    (hfix : ∀ ktm k k'', endObj ktm k = .ok k'' → FixedUnder env ktm (EInfo.key k''))
    (hpk : pkOfB (isComp d) t = some .key) (hs : SimTop sb sd)
    (h1 : topOf sb.es sb.stack = .ok ch) (h2 : topOf sd.es sd.stack = .ok ch)
    (hpush : PushedBoth sb sd sb1 sd1 (.key k) (ch ++ [(some name, EInfo.key k)]))
    (hrun : (visitChildren env h d t sb1 c >>= fun st2 => endHandled env t st2) = .ok sb') :
    ∃ sd', (visitChildren env h d t sd1 c >>= fun st2 => endHandled env t st2) = .ok sd' ∧ SameTopUpdate env sb sd sb' sd' := by
  obtain ⟨hb1, hd1⟩ := hpush
  have hsb1 : sb1.stack = .key k :: sb.stack := by rw [hb1]
  have hsd1 : sd1.stack = .key k :: sd.stack := by rw [hd1]
  rw [bind_ok] at hrun
  obtain ⟨sb2, hv, hend_b⟩ := hrun
  obtain ⟨f', hf', e1, e2⟩ := localChildren (Or.inl hpk) c sb1 sb2 (.key k) sb.stack hsb1 rfl hv
  have hv_d := e2 sd1 sd.stack hsd1
  have htb : topOf sb1.es sb.stack = .ok (ch ++ [(some name, EInfo.key k)]) := by rw [hb1]; exact topOf_setTopOf h1
  have htd : topOf sd1.es sd.stack = .ok (ch ++ [(some name, EInfo.key k)]) := by rw [hd1]; exact topOf_setTopOf h2
  have hkt : ktOf sb1.es sb.stack = ktOf sd1.es sd.stack := by
    rw [hb1, hd1]
    show ktOf (setTopOf sb.es sb.stack _) sb.stack = ktOf (setTopOf sd.es sd.stack _) sd.stack
    rw [ktOf_setTopOf, ktOf_setTopOf]; exact hs.kt
  cases f' with
  | key k' =>
    rw [e1, hend _ k' sb.stack rfl] at hend_b
    obtain ⟨k'', hb', hd', hobj⟩ := endLike_sim (xb := { sb1 with stack := .key k' :: sb.stack })
      (xd := { sd1 with stack := .key k' :: sd.stack }) endObj htb htd hkt hend_b
    have hktb : ktOf sb1.es sb.stack = ktOf sb.es sb.stack := by
      rw [hb1]
      show ktOf (setTopOf sb.es sb.stack _) sb.stack = _
      rw [ktOf_setTopOf]
    refine ⟨_, ?_, ch, some name, EInfo.key k'', h1, ?_, rfl, by rw [← hktb]; exact hfix _ _ _ hobj⟩
    · rw [hv_d]
      simp only [bind, Except.bind]
      rw [hend _ k' sd.stack rfl]
      rw [hd', hd1]
      dsimp only
      rw [setTopOf_setTopOf]
    · rw [hb', hb1]
      dsimp only
      rw [setTopOf_setTopOf]
  | sect a b =>
    exfalso
    rw [e1] at hend_b
    exact hend_sect _ sb' a b sb.stack rfl hend_b
  | schema => cases hf'
  | stype n => cases hf'
  | atype n => cases hf'

/-- `<section>` and `<multisection>`: start, character data, end -/
theorem sectlike_sim {env : Env} {h : Hooks} {d : DocKind} {t : Str} {c : List Node} {sb sd sb1 sd1 sb' : PSt}
    {ch : List (Option Str × EInfo)} {key : Option Str} {si : SectInfo}
    (hend : ∀ st, endHandled env t st = popFrame st)
    (hpk : pkOfB (isComp d) t = some .sect) (h1 : topOf sb.es sb.stack = .ok ch)
    (hpush : PushedBoth sb sd sb1 sd1 (.sect false false) (ch ++ [(key, EInfo.sect si)]))
    (hrun : (visitChildren env h d t sb1 c >>= fun st2 => endHandled env t st2) = .ok sb') :
    ∃ sd', (visitChildren env h d t sd1 c >>= fun st2 => endHandled env t st2) = .ok sd' ∧ SameTopUpdate env sb sd sb' sd' := by
  obtain ⟨hb1, hd1⟩ := hpush
  have hsb1 : sb1.stack = .sect false false :: sb.stack := by rw [hb1]
  have hsd1 : sd1.stack = .sect false false :: sd.stack := by rw [hd1]
  rw [bind_ok] at hrun
  obtain ⟨sb2, hv, hend_b⟩ := hrun
  obtain ⟨f', hf', e1, e2⟩ := localChildren (Or.inr hpk) c sb1 sb2 (.sect false false) sb.stack hsb1 rfl hv
  have hv_d := e2 sd1 sd.stack hsd1
  rw [hend] at hend_b
  have hb' := popFrame_eff hend_b
  refine ⟨_, ?_, ch, key, EInfo.sect si, h1, ?_, rfl, by intro k hk; cases hk⟩
  · rw [hv_d]
    simp only [bind, Except.bind]
    rw [hend]
    unfold popFrame
    dsimp only
    rw [hd1]
  · rw [hb', e1, hb1]
    rfl

theorem endKey_not_sect {env : Env} {st x : PSt} {a b : Bool} {rest : List Frame} (hs : st.stack = .sect a b :: rest) :
    endKey env st ≠ .ok x := by
  unfold endKey; rw [hs]; intro h; cases h

theorem endMultikey_not_sect {env : Env} {st x : PSt} {a b : Bool} {rest : List Frame} (hs : st.stack = .sect a b :: rest) :
    endMultikey env st ≠ .ok x := by
  unfold endMultikey; rw [hs]; intro h; cases h

theorem inheritedTags_cases {t : Str} (h : inheritedTags.contains t = true) :
    t = "key".toList ∨ t = "multikey".toList ∨ t = "section".toList ∨ t = "multisection".toList := by
  simp only [inheritedTags, List.contains_iff_mem, List.mem_cons, List.not_mem_nil, or_false] at h
  exact h

/-- **One inherited element, read in two states that agree on the container on top of the stack**: if it is accepted
    in the first, it is accepted in the second, and both containers get the same new list of children. -/
theorem containerElem_sim {env : Env} {h : Hooks} {d : DocKind} {p t : Str} {a : Attrs} {c : List Node} {sb sd sb' : PSt}
    (ht : inheritedTags.contains t = true) (hs : SimTop sb sd)
    (hv : visitElem env h d (some p) sb (.elem t a c) = .ok sb') :
    ∃ sd', visitElem env h d (some p) sd (.elem t a c) = .ok sd' ∧ SameTopUpdate env sb sd sb' sd' := by
  have hn := (visitElem_cases hv).1 p rfl
  rcases inheritedTags_cases ht with rfl | rfl | rfl | rfl
  · have h1 : "key".toList ≠ d.topLevel := by cases d <;> simp only [DocKind.topLevel] <;> decide
    have h2 : d.handled.contains "key".toList = true := by cases d <;> simp only [DocKind.handled] <;> decide
    rw [visitElem_handled_eq hn h1 h2] at hv ⊢
    rw [bind_ok] at hv
    obtain ⟨sb1, hstart, hrun⟩ := hv
    obtain ⟨name, k, ch, sd1, e1, e2, e3, e4⟩ := startKey_sim hs hstart
    obtain ⟨sd', hd', hsame⟩ := keylike_sim (t := "key".toList) (endObj := endKeyObj env)
      (fun st k rest hst => endKey_eq_obj hst) (fun st x a b rest hst => endKey_not_sect hst) endKeyObj_fixed
      (pkOfB_key _) hs e1 e2 e4 hrun
    refine ⟨sd', ?_, hsame⟩
    show (startKey env sd a >>= _) = _
    rw [e3]
    exact hd'
  · have h1 : "multikey".toList ≠ d.topLevel := by cases d <;> simp only [DocKind.topLevel] <;> decide
    have h2 : d.handled.contains "multikey".toList = true := by cases d <;> simp only [DocKind.handled] <;> decide
    rw [visitElem_handled_eq hn h1 h2] at hv ⊢
    rw [bind_ok] at hv
    obtain ⟨sb1, hstart, hrun⟩ := hv
    obtain ⟨name, k, ch, sd1, e1, e2, e3, e4⟩ := startMultikey_sim hs hstart
    obtain ⟨sd', hd', hsame⟩ := keylike_sim (t := "multikey".toList) (endObj := endMultikeyObj env)
      (fun st k rest hst => endMultikey_eq_obj hst) (fun st x a b rest hst => endMultikey_not_sect hst)
      endMultikeyObj_fixed (pkOfB_multikey _) hs e1 e2 e4 hrun
    refine ⟨sd', ?_, hsame⟩
    show (startMultikey env sd a >>= _) = _
    rw [e3]
    exact hd'
  · have h1 : "section".toList ≠ d.topLevel := by cases d <;> simp only [DocKind.topLevel] <;> decide
    have h2 : d.handled.contains "section".toList = true := by cases d <;> simp only [DocKind.handled] <;> decide
    rw [visitElem_handled_eq hn h1 h2] at hv ⊢
    rw [bind_ok] at hv
    obtain ⟨sb1, hstart, hrun⟩ := hv
    obtain ⟨key, si, ch, sd1, e1, e2, e3, e4⟩ := startSection_sim hs hstart
    obtain ⟨sd', hd', hsame⟩ := sectlike_sim (t := "section".toList) (fun st => rfl) (pkOfB_section _) e1 e4 hrun
    refine ⟨sd', ?_, hsame⟩
    show (startSection env sd a >>= _) = _
    rw [e3]
    exact hd'
  · have h1 : "multisection".toList ≠ d.topLevel := by cases d <;> simp only [DocKind.topLevel] <;> decide
    have h2 : d.handled.contains "multisection".toList = true := by cases d <;> simp only [DocKind.handled] <;> decide
    rw [visitElem_handled_eq hn h1 h2] at hv ⊢
    rw [bind_ok] at hv
    obtain ⟨sb1, hstart, hrun⟩ := hv
    obtain ⟨key, si, ch, sd1, e1, e2, e3, e4⟩ := startMultisection_sim hs hstart
    obtain ⟨sd', hd', hsame⟩ := sectlike_sim (t := "multisection".toList) (fun st => rfl) (pkOfB_multisection _) e1 e4 hrun
    refine ⟨sd', ?_, hsame⟩
    show (startMultisection env sd a >>= _) = _
    rw [e3]
    exact hd'

end ZCV.Elab
