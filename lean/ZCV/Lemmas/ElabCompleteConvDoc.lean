import ZCV.Lemmas.ElabCompleteConvType
/-!
C10, converse of completeness, step 5: bodies of `<sectiontype>` and `<schema>`, the document element, and the theorem:
a standalone schema document that the loader model accepts satisfies `DocRules`.
-/
namespace ZCV.SchemaRules
open ZCV ZCV.Elab
open ZCV.Cfg (VI SectInfo Default)

/-! ### which elements the table allows in a container -/

/-- below `parent` the table allows member elements and notes only -/
def typeParent (parent : Str) : Bool :=
  Gen.allowedParents.all fun e => !e.2.contains parent || isKeyTag e.1 || isSectTag e.1 || isNoteTag e.1

/-- below `parent` the table allows type declarations, `<import>`, member elements and notes only -/
def topParent (parent : Str) : Bool :=
  Gen.allowedParents.all fun e => !e.2.contains parent || e.1 == "abstracttype".toList || e.1 == "sectiontype".toList ||
    e.1 == "import".toList || isKeyTag e.1 || isSectTag e.1 || isNoteTag e.1

theorem typeParent_sectiontype : typeParent "sectiontype".toList = true := by decide +kernel
theorem topParent_schema : topParent "schema".toList = true := by decide +kernel
theorem topParent_component : topParent "component".toList = true := by decide +kernel

theorem typeParent_cases {parent t : Str} (hl : typeParent parent = true) (hn : nestingOK parent t = true) :
    isKeyTag t = true ∨ isSectTag t = true ∨ isNoteTag t = true := by
  unfold nestingOK at hn
  rw [List.any_eq_true] at hn
  obtain ⟨e, he, hc⟩ := hn
  simp only [Bool.and_eq_true, beq_iff_eq] at hc
  have := List.all_eq_true.1 hl e he
  rw [hc.2, hc.1] at this
  simp only [Bool.not_true, Bool.false_or, Bool.or_eq_true] at this
  rcases this with (h | h) | h
  · exact Or.inl h
  · exact Or.inr (Or.inl h)
  · exact Or.inr (Or.inr h)

theorem topParent_cases {parent t : Str} (hl : topParent parent = true) (hn : nestingOK parent t = true) :
    t = "abstracttype".toList ∨ t = "sectiontype".toList ∨ t = "import".toList ∨
      isKeyTag t = true ∨ isSectTag t = true ∨ isNoteTag t = true := by
  unfold nestingOK at hn
  rw [List.any_eq_true] at hn
  obtain ⟨e, he, hc⟩ := hn
  simp only [Bool.and_eq_true, beq_iff_eq] at hc
  have := List.all_eq_true.1 hl e he
  rw [hc.2, hc.1] at this
  simp only [Bool.not_true, Bool.false_or, Bool.or_eq_true, beq_iff_eq] at this
  rcases this with ((((h | h) | h) | h) | h) | h
  · exact Or.inl h
  · exact Or.inr (Or.inl h)
  · exact Or.inr (Or.inr (Or.inl h))
  · exact Or.inr (Or.inr (Or.inr (Or.inl h)))
  · exact Or.inr (Or.inr (Or.inr (Or.inr (Or.inl h))))
  · exact Or.inr (Or.inr (Or.inr (Or.inr (Or.inr h))))

theorem noteTag_notMember {t : Str} (h : isNoteTag t = true) : isKeyTag t = false ∧ isSectTag t = false := by
  rcases isNoteTag_cases h with rfl | rfl <;> exact ⟨by decide +kernel, by decide +kernel⟩

theorem memberTag_notNote {t : Str} (h : isKeyTag t = true ∨ isSectTag t = true) : isNoteTag t = false := by
  rcases h with h | h
  · rcases isKeyTag_cases h with rfl | rfl <;> decide +kernel
  · rcases isSectTag_cases h with rfl | rfl <;> decide +kernel

theorem memberElemOK_of_note {env : Env} {strict : Bool} {parent pfx kt t : Str} {names : List Str} {ms : List Member}
    {a : Attrs} {c : List Node} (h : isNoteTag t = true) (hn : nestingOK parent t = true)
    (htxt : c.all isText = true) : memberElemOK env strict parent pfx kt names ms t a c = true := by
  obtain ⟨h1, h2⟩ := noteTag_notMember h
  unfold memberElemOK
  simp only [hn, h1, h2, h, Bool.false_eq_true, ↓reduceIte, htxt, Bool.and_self]

/-- a `<description>` / `<example>` that is read successfully holds text only, and the marking function succeeded -/
theorem visitElem_note_inv {env : Env} {h : Hooks} {d : DocKind} {parent : Str} {st st1 : PSt} {t : Str} {a : Attrs}
    {c : List Node} (hnote : isNoteTag t = true)
    (hv : visitElem env h d (some parent) st (.elem t a c) = .ok st1) :
    nestingOK parent t = true ∧ c.all isText = true ∧
      charactersTag (isComp d) t a (strip (textOf c)) st = .ok st1 := by
  have hn := check_nestingOK (visitElem_ok_nesting hv)
  have hc : Gen.cdataTags.contains t = true := by
    rcases isNoteTag_cases hnote with rfl | rfl
    · exact cdata_description
    · exact cdata_example
  obtain ⟨h1, h2⟩ := cdataTag_dispatch d hc
  rw [visitElem_cdata_eq (nestingOK_check hn) h1 h2 hc] at hv
  obtain ⟨data, hcol, hch⟩ := er_bind_ok hv
  have htxt := collectText_ok_all hcol
  rw [collectText_of_text t c htxt] at hcol
  injection hcol with hcol
  subst hcol
  exact ⟨hn, htxt, hch⟩

/-! ### the body of a `<sectiontype>`, backwards -/

theorem typeBody_inv {env : Env} {h : Hooks} {d : DocKind} {parent pfx kt n : Str} {ps : List Str} {rest : List Frame}
    {names : List Str} (hl : typeParent parent = true) (es0 : ES) (hfresh : n ∉ es0.typeNames)
    (hnames : es0.typeNames ++ [n] = names) :
    ∀ (c : List Node) (ms : List Member) (t : EType) (st st' : PSt),
      st.stack = .stype n :: rest → st.prefixes = pfx :: ps →
      st.es = { es0 with types := es0.types ++ [(n, .concrete t)] } → t.keytype = kt →
      Pointwise MemberRel ms t.children →
      visitChildren env h d parent st c = .ok st' →
      membersOK env (!isComp d) parent pfx kt names ms c = true ∧
        OnceIf (isComp d) t.hasDesc "description".toList c ∧ onceLeft t.hasEx "example".toList c
  | [], _, _, _, _, _, _, _, _, _, _ => ⟨rfl, OnceIf.nil _ _ _, onceLeft_nil _ _⟩
  | .text s :: r, ms, t, st, st', hs, hp, hes, hkt, hms, hv => by
    rw [visitChildren_text] at hv
    by_cases hb : (strip s).isEmpty = true
    · rw [if_pos hb] at hv
      obtain ⟨h1, h2, h3⟩ := typeBody_inv hl es0 hfresh hnames r ms t st st' hs hp hes hkt hms hv
      refine ⟨?_, h2.cons_text, onceLeft_cons_text h3⟩
      rw [membersOK]
      simp only [Bool.and_eq_true]
      exact ⟨hb, h1⟩
    · rw [if_neg hb] at hv; cases hv
  | .elem tg a c0 :: r, ms, t, st, st', hs, hp, hes, hkt, hms, hv => by
    rw [visitChildren_elem] at hv
    obtain ⟨st1, hv1, hv2⟩ := er_bind_ok hv
    have hn := check_nestingOK (visitElem_ok_nesting hv1)
    rw [membersOK]
    by_cases hnote : isNoteTag tg = true
    · -- a note
      obtain ⟨_, htxt, hch⟩ := visitElem_note_inv hnote hv1
      have hok1 : memberElemOK env (!isComp d) parent pfx kt names ms tg a c0 = true :=
        memberElemOK_of_note hnote hn htxt
      rw [hok1, memberElemAdds_note hnote, List.append_nil, Bool.true_and]
      rcases isNoteTag_cases hnote with rfl | rfl
      · rw [charactersTag_description] at hch
        cases hd : (t.hasDesc && !isComp d) with
        | true =>
          exfalso
          unfold markDesc at hch
          rw [hs] at hch
          simp only [find_open hes hfresh, hd, ↓reduceIte] at hch
          cases hch
        | false =>
          rw [markDesc_open hs hes hfresh hd] at hch
          injection hch with hch
          subst hch
          obtain ⟨h1, h2, h3⟩ := typeBody_inv hl es0 hfresh hnames r ms { t with hasDesc := true }
            { st with es := { es0 with types := es0.types ++ [(n, .concrete { t with hasDesc := true })] } } st'
            hs hp rfl hkt hms hv2
          exact ⟨h1, OnceIf.cons_same hd h2, onceLeft_cons_other (by decide +kernel) h3⟩
      · rw [charactersTag_example] at hch
        cases hd : t.hasEx with
        | true =>
          exfalso
          unfold markExample at hch
          rw [hs] at hch
          simp only [find_open hes hfresh, hd, ↓reduceIte] at hch
          cases hch
        | false =>
          rw [markExample_open hs hes hfresh hd] at hch
          injection hch with hch
          subst hch
          obtain ⟨h1, h2, h3⟩ := typeBody_inv hl es0 hfresh hnames r ms { t with hasEx := true }
            { st with es := { es0 with types := es0.types ++ [(n, .concrete { t with hasEx := true })] } } st'
            hs hp rfl hkt hms hv2
          exact ⟨h1, h2.cons_other (by decide +kernel), onceLeft_cons_same h3⟩
    · -- a member element
      have htag : isKeyTag tg = true ∨ isSectTag tg = true := by
        rcases typeParent_cases hl hn with hk | hk | hk
        · exact Or.inl hk
        · exact Or.inr hk
        · exact absurd hk hnote
      have hnote' := memberTag_notNote htag
      have htop : topOf st.es st.stack = .ok t.children := by rw [hs]; exact topOf_open hes hfresh
      have hktop : ktOf st.es st.stack = .ok kt := by rw [hs, ← hkt]; exact ktOf_open hes hfresh
      have hnm : st.es.typeNames = names := by rw [typeNames_open hes]; exact hnames
      have hok1 := memberElem_inv htop hktop hp hnm hms htag hv1
      obtain ⟨xs, g1, g2⟩ := memberElem_ok (h := h) htop hktop hp hnm hms hnote' hok1
      rw [g1] at hv1
      injection hv1 with hv1
      subst hv1
      have hset : setTopOf st.es st.stack (t.children ++ xs) =
          { es0 with types := es0.types ++ [(n, .concrete { t with children := t.children ++ xs })] } := by
        rw [hs]; exact setTopOf_open hes hfresh _
      obtain ⟨h1, h2, h3⟩ := typeBody_inv hl es0 hfresh hnames r (ms ++ memberElemAdds env kt tg a c0)
        { t with children := t.children ++ xs } { st with es := setTopOf st.es st.stack (t.children ++ xs) } st'
        hs hp hset hkt (Pointwise.append hms g2) hv2
      rw [hok1, Bool.true_and]
      refine ⟨h1, OnceIf.cons_other ?_ h2, onceLeft_cons_other ?_ h3⟩
      · intro e; rw [e] at hnote'; exact absurd hnote' (by decide +kernel)
      · intro e; rw [e] at hnote'; exact absurd hnote' (by decide +kernel)

/-- **a `<sectiontype>` element that is read successfully obeys the rules** -/
theorem sectiontypeElem_inv {env : Env} {h : Hooks} {d : DocKind} {parent outer : Str} {ps : List Str} {st st' : PSt} {Γ : Ctx}
    {a : Attrs} {c : List Node} (hrel : TypesRel Γ st.es.types) (hp : st.prefixes = outer :: ps)
    (hv : visitElem env h d (some parent) st (.elem "sectiontype".toList a c) = .ok st') :
    nestingOK parent "sectiontype".toList = true ∧ sectiontypeOK env (!isComp d) outer Γ a c = true := by
  have hn := check_nestingOK (visitElem_ok_nesting hv)
  refine ⟨hn, ?_⟩
  rw [visitElem_handled hn (by decide +kernel), startHandled_sectiontype] at hv
  obtain ⟨st1, hs1, hv⟩ := er_bind_ok hv
  obtain ⟨st2, hs2, _⟩ := er_bind_ok hv
  obtain ⟨r1, r2, r3, r4, r5, r6, r7, r8⟩ := startSectiontype_ok_rules hrel hp hs1
  obtain ⟨pre, t, hstart, hpre, htk, htc, htd, hte⟩ := startSectiontype_of_rules hrel hp r1 r2 r3 r4 r5 r6 r7 r8
  rw [hstart] at hs1
  injection hs1 with hs1
  subst hs1
  have hfresh : typeNameOf a ∉ ({ st.es with types := pre } : ES).typeNames := by
    show typeNameOf a ∉ pre.map (·.1)
    rw [← hpre.names]
    intro hc
    unfold typeNameOK at r1
    simp only [Bool.and_eq_true, Bool.not_eq_true'] at r1
    have := List.contains_iff_mem.mpr hc
    rw [this] at r1
    cases r1.2
  have hnames : ({ st.es with types := pre } : ES).typeNames ++ [typeNameOf a] = Γ.names ++ [typeNameOf a] := by
    show pre.map (·.1) ++ _ = _
    rw [← hpre.names]
  obtain ⟨rbody, ho1, ho2⟩ := typeBody_inv (env := env) (h := h) (d := d) (pfx := prefixOf (some outer) a)
    (ps := st.prefixes)
    (rest := st.stack) typeParent_sectiontype { st.es with types := pre } hfresh hnames c (inheritedOf Γ a) t _ st2
    rfl rfl rfl htk htc hs2
  rw [htd] at ho1
  rw [hte] at ho2
  unfold sectiontypeOK
  simp only [Bool.and_eq_true]
  exact ⟨⟨⟨⟨⟨⟨⟨⟨⟨r1, r2⟩, r3⟩, r4⟩, r5⟩, r6⟩, r7⟩, r8⟩, rbody⟩, onceOK_of_left ho1 ho2⟩

/-! ### `<import>`, backwards -/

/-- what a successful hook tells about the component it read -/
def HookInv (below : Below) (h : Hooks) : Prop :=
  ∀ (Γ : Ctx) (comps : List Str) (tree : Node) (es es' : ES), TypesRel Γ es.types → es.components = comps →
    h.loadComponent es tree = .ok es' → below.ok Γ comps tree = true

/-- the table allows nothing below `<import>` -/
def importParent : Bool := Gen.allowedParents.all fun e => !e.2.contains "import".toList
theorem importParent_ok : importParent = true := by decide +kernel

theorem nestingOK_import_false (t : Str) : nestingOK "import".toList t = false := by
  cases hn : nestingOK "import".toList t with
  | false => rfl
  | true =>
    unfold nestingOK at hn
    rw [List.any_eq_true] at hn
    obtain ⟨e, he, hc⟩ := hn
    simp only [Bool.and_eq_true, beq_iff_eq] at hc
    have := List.all_eq_true.1 importParent_ok e he
    rw [hc.2] at this
    cases this

theorem startImport_ok_wf {env : Env} {h : Hooks} {st st1 : PSt} {a : Attrs} {pfx : Str} {ps : List Str}
    (hp : st.prefixes = pfx :: ps) (hs : startImport env h st a = .ok st1) :
    (attrStrip a "src").isEmpty = true ∧ (attrStrip a "package").isEmpty = false ∧
      (attrStrip a "file").contains '/' = false ∧ (splitOnChar (importPkg pfx a) '.').contains [] = false := by
  unfold startImport at hs
  simp only [bind, Except.bind, pure, Except.pure, serr, getClassname_eq hp] at hs
  cases h1 : (attrStrip a "src").isEmpty <;> cases h2 : (attrStrip a "package").isEmpty <;>
    simp only [h1, h2, Bool.and_self, Bool.and_false, Bool.not_true, Bool.not_false, Bool.false_eq_true,
      ↓reduceIte, Bool.and_true] at hs
  · cases hs
  · split at hs <;> cases hs
  · cases h3 : (attrStrip a "file").contains '/' with
    | true => rw [h3] at hs; simp only [↓reduceIte] at hs; cases hs
    | false =>
      cases h4 : (splitOnChar (importPkg pfx a) '.').contains [] with
      | true =>
        unfold importPkg at h4
        rw [h3, h4] at hs
        simp only [Bool.false_eq_true, ↓reduceIte] at hs
        cases hs
      | false => exact ⟨rfl, rfl, rfl, rfl⟩
  · cases hs

/-- **an `<import>` element that is read successfully obeys the rules** -/
theorem importElem_inv {env : Env} {h : Hooks} {d : DocKind} {below : Below} {parent pfx : Str} {ps : List Str}
    {st st' : PSt} {Γ : Ctx} {comps : List Str} {a : Attrs} {c : List Node} (hi : HookInv below h)
    (hrel : TypesRel Γ st.es.types) (hcomps : st.es.components = comps) (hp : st.prefixes = pfx :: ps)
    (hv : visitElem env h d (some parent) st (.elem "import".toList a c) = .ok st') :
    nestingOK parent "import".toList = true ∧ importOK env below pfx Γ comps a c = true := by
  have hn := check_nestingOK (visitElem_ok_nesting hv)
  refine ⟨hn, ?_⟩
  rw [visitElem_handled hn (by decide +kernel), startHandled_import] at hv
  obtain ⟨st1, hs1, hv⟩ := er_bind_ok hv
  obtain ⟨st2, hs2, _⟩ := er_bind_ok hv
  obtain ⟨w1, w2, w3, w4⟩ := startImport_ok_wf hp hs1
  have hblank : (c.all fun n => match n with | .text s => blank s | .elem _ _ _ => false) = true := by
    rw [List.all_eq_true]
    intro n hn'
    have := visitChildren_ok_all hs2 n hn'
    cases n with
    | text s => exact this
    | elem t a' c' =>
      simp only at this
      have h1 := check_nestingOK this
      rw [nestingOK_import_false] at h1
      cases h1
  have hpkg' : attrStrip a "package" ≠ [] := by
    intro e; rw [e] at w2; cases w2
  have hsrc : attrStrip a "src" = [] := by simpa using w1
  have hcls : getClassname st (attrStrip a "package") = .ok (importPkg pfx a) := getClassname_eq hp _
  rw [startImport_package env h st a (importPkg pfx a) hsrc hpkg' w3 hcls w4] at hs1
  rw [← importSrc_eq pfx a, ← importFileOf_eq a, hcomps] at hs1
  unfold importOK importWF
  simp only [Bool.and_eq_true, Bool.not_eq_true', List.isEmpty_iff]
  refine ⟨⟨⟨⟨⟨hsrc, w2⟩, w3⟩, w4⟩, hblank⟩, ?_⟩
  cases hx : env.comps (importPkg pfx a) (importFileOf a) with
  | notImportable => rw [hx] at hs1; cases hs1
  | notPackage => rw [hx] at hs1; cases hs1
  | noFile =>
    rw [hx] at hs1
    simp only at hs1 ⊢
    cases hin : comps.contains (importSrc pfx a) with
    | true => rfl
    | false => rw [hin] at hs1; simp only [Bool.false_eq_true, ↓reduceIte] at hs1; cases hs1
  | doc tree =>
    rw [hx] at hs1
    simp only at hs1 ⊢
    cases hin : comps.contains (importSrc pfx a) with
    | true => rfl
    | false =>
      rw [hin] at hs1
      simp only [Bool.false_eq_true, ↓reduceIte] at hs1
      rw [Bool.false_or]
      cases hl : h.loadComponent { st.es with components := comps ++ [importSrc pfx a] } tree with
      | error e => rw [hl] at hs1; cases hs1
      | ok es2 =>
        exact hi Γ (comps ++ [importSrc pfx a]) tree { st.es with components := comps ++ [importSrc pfx a] } es2 hrel
          rfl hl

/-! ### the children of `<schema>` / `<component>`, backwards -/

theorem topItems_inv {env : Env} {h : Hooks} {d : DocKind} {below : Below} {parent pfx kt : Str} (hh : HookOK below h)
    (hi : HookInv below h) (hl : topParent parent = true) (hpar : isComp d = true → compParent parent = true) :
    ∀ (c : List Node) (Γ : Ctx) (comps : List Str) (ms : List Member) (st st' : PSt), TopInv d pfx kt Γ comps ms st →
      visitChildren env h d parent st c = .ok st' →
      topItemsOK env below (!isComp d) parent pfx kt Γ comps ms c = true ∧
        OnceIf (isComp d) st.es.top.hasDesc "description".toList c ∧
        OnceIf (isComp d) st.es.top.hasEx "example".toList c
  | [], _, _, _, _, _, _, _ => ⟨rfl, OnceIf.nil _ _ _, OnceIf.nil _ _ _⟩
  | .text s :: r, Γ, comps, ms, st, st', inv, hv => by
    rw [visitChildren_text] at hv
    by_cases hb : (strip s).isEmpty = true
    · rw [if_pos hb] at hv
      obtain ⟨h1, h2, h3⟩ := topItems_inv hh hi hl hpar r Γ comps ms st st' inv hv
      refine ⟨?_, h2.cons_text, h3.cons_text⟩
      rw [topItemsOK]
      simp only [Bool.and_eq_true]
      exact ⟨hb, h1⟩
    · rw [if_neg hb] at hv; cases hv
  | .elem tg a c0 :: r, Γ, comps, ms, st, st', inv, hv => by
    rw [visitChildren_elem] at hv
    obtain ⟨st1, hv1, hv2⟩ := er_bind_ok hv
    have hn := check_nestingOK (visitElem_ok_nesting hv1)
    rw [topItemsOK]
    rcases topParent_cases hl hn with rfl | rfl | rfl | hrest
    · -- abstracttype
      have hb1 : ("abstracttype".toList == "abstracttype".toList) = true := by decide +kernel
      rw [if_pos hb1]
      obtain ⟨_, hok1⟩ := abstracttypeElem_inv inv.types hv1
      obtain ⟨e, g1, g2⟩ := abstracttypeElem_ok (env := env) (h := h) (d := d) (st := st) inv.types hn hok1
      rw [g1] at hv1
      injection hv1 with hv1
      subst hv1
      obtain ⟨h1, h2, h3⟩ := topItems_inv hh hi hl hpar r _ comps ms
        { st with es := { st.es with types := st.es.types ++ [(typeNameOf a, e)] } } st'
        ⟨inv.prefixes, inv.types.snoc g2, inv.comps, inv.schema, inv.component⟩ hv2
      simp only [hn, hok1, Bool.true_and]
      exact ⟨h1, h2.cons_other (by decide +kernel), h3.cons_other (by decide +kernel)⟩
    · -- sectiontype
      have hb0 : ("sectiontype".toList == "abstracttype".toList) = false := by decide +kernel
      have hb1 : ("sectiontype".toList == "sectiontype".toList) = true := by decide +kernel
      rw [hb0, if_pos hb1]
      simp only [Bool.false_eq_true, ↓reduceIte]
      obtain ⟨_, hok1⟩ := sectiontypeElem_inv inv.types inv.prefixes hv1
      obtain ⟨pre, e, g1, g2, g3⟩ := sectiontypeElem_ok (env := env) (h := h) (d := d) (st := st) inv.types
        inv.prefixes hn hok1
      rw [g1] at hv1
      injection hv1 with hv1
      subst hv1
      obtain ⟨h1, h2, h3⟩ := topItems_inv hh hi hl hpar r _ comps ms
        { st with es := { st.es with types := pre ++ [(typeNameOf a, e)] } } st'
        ⟨inv.prefixes, g2.snoc g3, inv.comps, inv.schema, inv.component⟩ hv2
      simp only [hn, hok1, Bool.true_and]
      exact ⟨h1, h2.cons_other (by decide +kernel), h3.cons_other (by decide +kernel)⟩
    · -- import
      have hb0 : ("import".toList == "abstracttype".toList) = false := by decide +kernel
      have hb1 : ("import".toList == "sectiontype".toList) = false := by decide +kernel
      have hb2 : ("import".toList == "import".toList) = true := by decide +kernel
      rw [hb0, hb1, if_pos hb2]
      simp only [Bool.false_eq_true, ↓reduceIte]
      obtain ⟨_, hok1⟩ := importElem_inv (below := below) hi inv.types inv.comps inv.prefixes hv1
      obtain ⟨es', g1, g2, g3, g4, g5⟩ := importElem_ok (env := env) (d := d) (st := st) hh inv.types inv.comps
        inv.prefixes hn hok1
      rw [g1] at hv1
      injection hv1 with hv1
      subst hv1
      obtain ⟨h1, h2, h3⟩ := topItems_inv hh hi hl hpar r _ _ ms { st with es := es' } st'
        ⟨inv.prefixes, g2, g3, fun hc => by rw [show ({ st with es := es' } : PSt).es.top = st.es.top from g4]; exact inv.schema hc,
          inv.component⟩ hv2
      rw [show ({ st with es := es' } : PSt).es.top = st.es.top from g4] at h2 h3
      simp only [hn, hok1, Bool.true_and]
      exact ⟨h1, h2.cons_other (by decide +kernel), h3.cons_other (by decide +kernel)⟩
    have hnab : (tg == "abstracttype".toList) = false := by
      rcases hrest with h' | h' | h'
      · rcases isKeyTag_cases h' with rfl | rfl <;> decide +kernel
      · rcases isSectTag_cases h' with rfl | rfl <;> decide +kernel
      · rcases isNoteTag_cases h' with rfl | rfl <;> decide +kernel
    have hnst : (tg == "sectiontype".toList) = false := by
      rcases hrest with h' | h' | h'
      · rcases isKeyTag_cases h' with rfl | rfl <;> decide +kernel
      · rcases isSectTag_cases h' with rfl | rfl <;> decide +kernel
      · rcases isNoteTag_cases h' with rfl | rfl <;> decide +kernel
    have hnim : (tg == "import".toList) = false := by
      rcases hrest with h' | h' | h'
      · rcases isKeyTag_cases h' with rfl | rfl <;> decide +kernel
      · rcases isSectTag_cases h' with rfl | rfl <;> decide +kernel
      · rcases isNoteTag_cases h' with rfl | rfl <;> decide +kernel
    rw [hnab, hnst, hnim]
    simp only [Bool.false_eq_true, ↓reduceIte]
    cases hcomp : isComp d with
    | true =>
      -- in a component only `<description>` is left, and it changes nothing
      have htag : tg = "description".toList := by
        rcases compParent_cases (hpar hcomp) hn with h' | h' | h' | h'
        · rw [h'] at hnab; exact absurd hnab (by decide +kernel)
        · rw [h'] at hnst; exact absurd hnst (by decide +kernel)
        · rw [h'] at hnim; exact absurd hnim (by decide +kernel)
        · exact h'
      subst htag
      obtain ⟨_, htxt, hch⟩ := visitElem_note_inv (by decide +kernel) hv1
      rw [charactersTag_description, hcomp] at hch
      have hmark : markDesc true st = .ok st := by
        unfold markDesc
        rw [(inv.component hcomp).1]
        rfl
      rw [hmark] at hch
      injection hch with hch
      subst hch
      have hok1 : memberElemOK env (!true) parent pfx kt Γ.names ms "description".toList a c0 = true :=
        memberElemOK_of_note (by decide +kernel) hn htxt
      obtain ⟨h1, _, _⟩ := topItems_inv hh hi hl hpar r Γ comps ms st st' inv hv2
      rw [hcomp] at h1
      rw [hok1, memberElemAdds_note (by decide +kernel), List.append_nil, Bool.true_and]
      exact ⟨h1, fun hc => (by cases hc), fun hc => (by cases hc)⟩
    | false =>
      obtain ⟨hstack, hkt, hmem⟩ := inv.schema hcomp
      by_cases hnote : isNoteTag tg = true
      · obtain ⟨_, htxt, hch⟩ := visitElem_note_inv hnote hv1
        have hok1 : memberElemOK env (!false) parent pfx kt Γ.names ms tg a c0 = true :=
          memberElemOK_of_note hnote hn htxt
        rw [hok1, memberElemAdds_note hnote, List.append_nil, Bool.true_and]
        rw [hcomp] at hch
        rcases isNoteTag_cases hnote with rfl | rfl
        · rw [charactersTag_description] at hch
          cases hd : st.es.top.hasDesc with
          | true =>
            exfalso
            unfold markDesc at hch
            rw [hstack] at hch
            simp only [hd, Bool.not_false, Bool.and_self, ↓reduceIte] at hch
            cases hch
          | false =>
            rw [markDesc_top hstack (by rw [hd]; rfl)] at hch
            injection hch with hch
            subst hch
            obtain ⟨h1, h2, h3⟩ := topItems_inv hh hi hl hpar r Γ comps ms
              { st with es := { st.es with top := { st.es.top with hasDesc := true } } } st'
              ⟨inv.prefixes, inv.types, inv.comps, fun _ => ⟨hstack, hkt, hmem⟩,
                fun hc => (by rw [hcomp] at hc; cases hc)⟩ hv2
            rw [hcomp] at h1 h2 h3
            exact ⟨h1, fun _ => onceLeft_cons_same (h2 rfl), fun _ => onceLeft_cons_other (by decide +kernel) (h3 rfl)⟩
        · rw [charactersTag_example] at hch
          cases hd : st.es.top.hasEx with
          | true =>
            exfalso
            unfold markExample at hch
            rw [hstack] at hch
            simp only [hd, ↓reduceIte] at hch
            cases hch
          | false =>
            rw [markExample_top hstack hd] at hch
            injection hch with hch
            subst hch
            obtain ⟨h1, h2, h3⟩ := topItems_inv hh hi hl hpar r Γ comps ms
              { st with es := { st.es with top := { st.es.top with hasEx := true } } } st'
              ⟨inv.prefixes, inv.types, inv.comps, fun _ => ⟨hstack, hkt, hmem⟩,
                fun hc => (by rw [hcomp] at hc; cases hc)⟩ hv2
            rw [hcomp] at h1 h2 h3
            exact ⟨h1, fun _ => onceLeft_cons_other (by decide +kernel) (h2 rfl), fun _ => onceLeft_cons_same (h3 rfl)⟩
      · -- a member element
        have htag : isKeyTag tg = true ∨ isSectTag tg = true := by
          rcases hrest with hk | hk | hk
          · exact Or.inl hk
          · exact Or.inr hk
          · exact absurd hk hnote
        have hnote' := memberTag_notNote htag
        have htop : topOf st.es st.stack = .ok st.es.top.children := by rw [hstack]; rfl
        have hktop : ktOf st.es st.stack = .ok kt := by rw [hstack, ← hkt]; rfl
        have hnm : st.es.typeNames = Γ.names := inv.types.names.symm
        have hok1 := memberElem_inv htop hktop inv.prefixes hnm hmem htag hv1
        obtain ⟨xs, g1, g2⟩ := memberElem_ok (h := h) (d := d) htop hktop inv.prefixes hnm hmem hnote' hok1
        rw [g1] at hv1
        injection hv1 with hv1
        subst hv1
        have hset : setTopOf st.es st.stack (st.es.top.children ++ xs) =
            { st.es with top := { st.es.top with children := st.es.top.children ++ xs } } := by
          rw [hstack]; rfl
        rw [hset] at hv2
        obtain ⟨h1, h2, h3⟩ := topItems_inv hh hi hl hpar r Γ comps (ms ++ memberElemAdds env kt tg a c0)
          { st with es := { st.es with top := { st.es.top with children := st.es.top.children ++ xs } } } st'
          ⟨inv.prefixes, inv.types, inv.comps, fun _ => ⟨hstack, hkt, Pointwise.append hmem g2⟩,
            fun hc => (by rw [hcomp] at hc; cases hc)⟩ hv2
        rw [hcomp] at hok1 h1 h2 h3
        rw [hok1, Bool.true_and]
        refine ⟨h1, fun _ => onceLeft_cons_other ?_ (h2 rfl), fun _ => onceLeft_cons_other ?_ (h3 rfl)⟩
        · intro e; rw [e] at hnote'; exact absurd hnote' (by decide +kernel)
        · intro e; rw [e] at hnote'; exact absurd hnote' (by decide +kernel)

/-! ### component documents and their nesting, backwards -/

theorem componentRoot_inv {env : Env} {h : Hooks} {below : Below} (hh : HookOK below h) (hi : HookInv below h)
    {Γ : Ctx} {comps : List Str} {tree : Node} {es es' : ES} (hrel : TypesRel Γ es.types) (hc : es.components = comps)
    (hv : (visitElem env h .component none { es := es } tree).map (·.es) = .ok es') :
    componentOK env below Γ comps tree = true := by
  cases tree with
  | text s => rfl
  | elem t a c =>
    cases hv0 : visitElem env h .component none { es := es } (.elem t a c) with
    | error e => rw [hv0] at hv; cases hv
    | ok st' =>
      by_cases ht : t = DocKind.component.topLevel
      · rw [visitElem_root_eq ht] at hv0
        obtain ⟨st1, hs1, hv1⟩ := er_bind_ok hv0
        obtain ⟨st2, hs2, _⟩ := er_bind_ok hv1
        have hs1' : pushPrefix { ({ es := es } : PSt) with stack := [] } a = .ok st1 := hs1
        have r1 := pushPrefix_ok_rules_top (st := { ({ es := es } : PSt) with stack := [] }) rfl hs1'
        rw [pushPrefix_of_rules_top (st := { ({ es := es } : PSt) with stack := [] }) (a := a) rfl r1] at hs1'
        injection hs1' with hs1'
        subst hs1'
        have hpar : t = "component".toList := by rw [ht]; decide +kernel
        subst hpar
        obtain ⟨ritems, _, _⟩ := topItems_inv (env := env) (h := h) (d := .component) (kt := []) hh hi
          topParent_component (fun _ => compParent_component) c Γ comps []
          { es := es, prefixes := [prefixOf none a], stack := [] } st2
          ⟨rfl, hrel, hc, fun hc => (by cases hc), fun _ => ⟨rfl, compParent_component⟩⟩ hs2
        unfold componentOK
        simp only [Bool.and_eq_true, beq_iff_eq]
        exact ⟨⟨ht, r1⟩, ritems⟩
      · rw [visitElem_root_other ht] at hv0
        cases hv0

/-- the hooks of the loader with fuel `n` accept a component only if it obeys the rules at nesting depth `n` -/
theorem hookInv_level (env : Env) : ∀ n : Nat, HookInv (level env n) (hooks env n)
  | 0 => by
    intro Γ comps tree es es' _ _ hl
    cases hl
  | n + 1 => by
    intro Γ comps tree es es' hrel hc hl
    exact componentRoot_inv (h := hooks env n) (hookOK_level env n n (Nat.le_refl _)) (hookInv_level env n) hrel hc hl

/-! ### the document element, backwards -/

theorem startSchema_ok_rules {env : Env} {h : Hooks} {a : Attrs} {st1 : PSt}
    (hs : startSchema env h none { es := emptyES } a = .ok st1) :
    prefixOK none a = true ∧ handlerOK a = true ∧
      dtAttrOK env (prefixOf none a) a "keytype" = true ∧ dtAttrOK env (prefixOf none a) a "valuetype" = true ∧
      dtAttrOK env (prefixOf none a) a "datatype" = true := by
  unfold startSchema at hs
  obtain ⟨s1, hpush, hs⟩ := er_bind_ok hs
  obtain ⟨hd, hhd, hs⟩ := er_bind_ok hs
  obtain ⟨⟨kt, dt⟩, hti, _⟩ := er_bind_ok hs
  have r1 := pushPrefix_ok_rules_top (st := { es := emptyES }) rfl hpush
  rw [pushPrefix_of_rules_top (st := { es := emptyES }) (a := a) rfl r1] at hpush
  injection hpush with hpush
  subst hpush
  obtain ⟨d1, d2, d3⟩ := getSectTypeinfo_ok_rules (pfx := prefixOf none a) (ps := []) rfl hti
  exact ⟨r1, getHandler_ok_rules hhd, d1, d2, d3⟩

/-- **the converse on the level of the parser state**: a schema document without `extends` that is read successfully
obeys the rules, and so do the components it imports -/
theorem visit_docRules {env : Env} {h : Hooks} {below : Below} (hh : HookOK below h) (hi : HookInv below h) {t : Str}
    {a : Attrs} {c : List Node} {st' : PSt} (hx : attr a "extends" = none)
    (hv : visitElem env h (.schema none) none { es := emptyES } (.elem t a c) = .ok st') :
    t = Gen.schemaTopLevel ∧ schemaRootOK env below a c = true := by
  by_cases ht : t = (DocKind.schema none).topLevel
  · refine ⟨ht, ?_⟩
    rw [visitElem_root_eq ht] at hv
    obtain ⟨st1, hs1, hv⟩ := er_bind_ok hv
    obtain ⟨st2, hs2, _⟩ := er_bind_ok hv
    have hs1' : startSchema env h none { es := emptyES } a = .ok st1 := hs1
    obtain ⟨r1, r2, r3, r4, r5⟩ := startSchema_ok_rules hs1'
    obtain ⟨st1', hs1'', inv, hd1, he1⟩ := startSchema_of_rules (env := env) (h := h) hx r1 r2 r3 r4 r5
    rw [hs1''] at hs1'
    injection hs1' with hs1'
    subst hs1'
    have hpar : t = "schema".toList := by rw [ht]; decide +kernel
    subst hpar
    obtain ⟨ritems, ho1, ho2⟩ := topItems_inv (env := env) (h := h) (d := .schema none) hh hi topParent_schema
      (fun hc => (by cases hc)) c [] [] [] st1' st2 inv hs2
    rw [hd1] at ho1
    rw [he1] at ho2
    unfold schemaRootOK
    simp only [Bool.and_eq_true]
    exact ⟨⟨⟨⟨⟨⟨r1, r2⟩, r3⟩, r4⟩, r5⟩, ritems⟩, onceOK_of_left (isC := false) ho1 (ho2 rfl)⟩
  · rw [visitElem_root_other ht] at hv
    cases hv

/-- **An accepted document satisfies the rules**, and so do the components it imports: acceptance with fuel `n` implies
the judgement at nesting depth `n` -/
theorem accepted_rules_imports (env : Env) (fuel : Nat) (root : Node) (S : Cfg.Schema) (hx : noExtends root = true)
    (h : elabSchema env fuel root = .ok S) : DocRulesN env fuel .schema root := by
  cases root with
  | text s => cases hx
  | elem t a c =>
    have hx' : attr a "extends" = none := by
      unfold noExtends at hx
      simpa using hx
    unfold elabSchema elabES at h
    cases hv : visitElem env (hooks env fuel) (.schema none) none { es := emptyES } (.elem t a c) with
    | error e => rw [hv] at h; cases h
    | ok st' =>
      obtain ⟨h1, h2⟩ := visit_docRules (hookOK_level env fuel fuel (Nat.le_refl _)) (hookInv_level env fuel) hx' hv
      unfold DocRulesN docRulesN
      simp only [Bool.and_eq_true, beq_iff_eq]
      exact ⟨h1, h2⟩

/-! ### one document -/

/-- no `<import>` among the nodes -/
def noImport (c : List Node) : Bool :=
  c.all fun n => match n with
    | .elem t _ _ => t != "import".toList
    | .text _ => true

/-- without `<import>` children, the components play no role -/
theorem topItemsOK_noImport {env : Env} (b1 b2 : Below) {strict : Bool} {parent pfx kt : Str} :
    ∀ (c : List Node) (Γ : Ctx) (comps : List Str) (ms : List Member), noImport c = true →
      topItemsOK env b1 strict parent pfx kt Γ comps ms c = topItemsOK env b2 strict parent pfx kt Γ comps ms c
  | [], _, _, _, _ => by rw [topItemsOK, topItemsOK]
  | .text s :: r, Γ, comps, ms, hni => by
    simp only [noImport, List.all_cons, Bool.true_and] at hni
    rw [topItemsOK, topItemsOK, topItemsOK_noImport b1 b2 r Γ comps ms hni]
  | .elem t a c :: r, Γ, comps, ms, hni => by
    simp only [noImport, List.all_cons, Bool.and_eq_true, bne_iff_ne, ne_eq] at hni
    have him : (t == "import".toList) = false := by simpa using hni.1
    rw [topItemsOK, topItemsOK]
    simp only [him, Bool.false_eq_true, ↓reduceIte]
    rw [topItemsOK_noImport b1 b2 r _ comps ms hni.2, topItemsOK_noImport b1 b2 r Γ comps _ hni.2,
      topItemsOK_noImport b1 b2 r (Γ ++ [(typeNameOf a, sectiontypeSig env pfx Γ a c)]) comps ms hni.2]

/-- **An accepted document satisfies the rules** (one document, any fuel) -/
theorem accepted_rules (env : Env) (fuel : Nat) (root : Node) (S : Cfg.Schema) (hst : standalone root = true)
    (h : elabSchema env fuel root = .ok S) : DocRules env .schema root := by
  have hn := accepted_rules_imports env fuel root S (standalone_noExtends hst) h
  cases root with
  | text s => cases hst
  | elem t a c =>
    unfold standalone at hst
    simp only [Bool.and_eq_true] at hst
    have hn' : (t == Gen.schemaTopLevel && schemaRootOK env (level env fuel) a c) = true := hn
    show (t == Gen.schemaTopLevel && schemaRootOK env (level env 0) a c) = true
    unfold schemaRootOK at hn' ⊢
    dsimp only at hn' ⊢
    rw [topItemsOK_noImport (level env 0) (level env fuel) c [] [] [] hst.2]
    exact hn'

end ZCV.SchemaRules
