import ZCV.Lemmas.LoggerSetup
/-!
C20 — what calling a logger factory does in ANY state of its handler factories and ANY logging world
(no freshness / well-formedness hypothesis): name, level, propagate, the other loggers, and the old handlers.
-/
namespace ZCV.LogSetup
open ZCV

/-- `w'` differs from `w` on the logger `k` only by appended handlers, and not at all on the other loggers -/
structure OnlyAdds (k : Str) (w w' : World) : Prop where
  level : (w'.get k).level = (w.get k).level
  propagate : (w'.get k).propagate = (w.get k).propagate
  handlers : (w.get k).handlers <+: (w'.get k).handlers
  other : ∀ k', k' ≠ k → w'.get k' = w.get k'
  nextId : w.nextId ≤ w'.nextId

theorem OnlyAdds.refl (k : Str) (w : World) : OnlyAdds k w w :=
  ⟨rfl, rfl, List.prefix_refl _, fun _ _ => rfl, Nat.le_refl _⟩

theorem OnlyAdds.trans {k : Str} {w1 w2 w3 : World} (h12 : OnlyAdds k w1 w2) (h23 : OnlyAdds k w2 w3) : OnlyAdds k w1 w3 :=
  ⟨h23.level.trans h12.level, h23.propagate.trans h12.propagate, h12.handlers.trans h23.handlers,
   fun k' hk' => (h23.other k' hk').trans (h12.other k' hk'), Nat.le_trans h12.nextId h23.nextId⟩

/-- `addHandler`, in general: only adds, and afterwards the handler object is on the logger -/
theorem lgs_addHandler_onlyAdds (w : World) (k : Str) (h : Handler) :
    OnlyAdds k w (addHandler w k h) ∧ ∃ x ∈ ((addHandler w k h).get k).handlers, x.id = h.id := by
  by_cases hold : ∃ x ∈ (w.get k).handlers, x.id = h.id
  · rw [lgs_addHandler_old w k h hold]
    exact ⟨OnlyAdds.refl k w, hold⟩
  · have hnew : ∀ x ∈ (w.get k).handlers, x.id ≠ h.id := fun x hx hid => hold ⟨x, hx, hid⟩
    have hg := lgs_addHandler_new w k h hnew
    refine ⟨⟨by rw [hg], by rw [hg], by rw [hg]; exact List.prefix_append _ _,
      fun k' hk' => lgs_addHandler_other w hk' h, Nat.le_of_eq (lgs_addHandler_nextId w k h).symm⟩, ?_⟩
    rw [hg]
    exact ⟨h, List.mem_append_right _ List.mem_cons_self, rfl⟩

/-- `handler_factory()`, in general: the loggers are untouched, the memo is filled with the returned handler -/
theorem lgs_handler_call_gen (hf : HandlerFactory) (w : World) :
    (hf.call w).2.2.loggers = w.loggers ∧ w.nextId ≤ (hf.call w).2.2.nextId ∧
    (hf.call w).2.1.inst = some (hf.call w).1 ∧ (hf.call w).2.1.cfg = hf.cfg := by
  cases hi : hf.inst with
  | some h =>
    have : hf.call w = (h, hf, w) := lgs_factoryCall_some _ _ _ hf w h hi
    rw [this]
    exact ⟨rfl, Nat.le_refl _, hi, rfl⟩
  | none =>
    rw [lgs_handler_call_fresh hf w hi]
    exact ⟨rfl, Nat.le_succ _, rfl, rfl⟩

theorem lgs_get_of_loggers_eq {w w' : World} (h : w'.loggers = w.loggers) (k : Str) : w'.get k = w.get k := by
  unfold World.get; rw [h]

theorem lgs_onlyAdds_of_loggers_eq {w w' : World} (h : w'.loggers = w.loggers) (hn : w.nextId ≤ w'.nextId) (k : Str) :
    OnlyAdds k w w' :=
  ⟨by rw [lgs_get_of_loggers_eq h], by rw [lgs_get_of_loggers_eq h], by rw [lgs_get_of_loggers_eq h]; exact List.prefix_refl _,
   fun k' _ => lgs_get_of_loggers_eq h k', hn⟩

/-- the loop of `create`, in general: only adds handlers to the logger `k`; every handler factory ends up with its memo
    filled, its product on the logger, and the same section -/
theorem lgs_addConfigured_gen (k : Str) (hfs : List HandlerFactory) (w : World) :
    OnlyAdds k w (addConfiguredHandlers k hfs w).2 ∧
    (addConfiguredHandlers k hfs w).1.map (·.cfg) = hfs.map (·.cfg) ∧
    ∀ hf ∈ (addConfiguredHandlers k hfs w).1, ∃ h, hf.inst = some h ∧
      ∃ x ∈ ((addConfiguredHandlers k hfs w).2.get k).handlers, x.id = h.id := by
  induction hfs generalizing w with
  | nil => exact ⟨OnlyAdds.refl k w, rfl, fun hf hm => absurd hm List.not_mem_nil⟩
  | cons hf rest ih =>
    obtain ⟨hc1, hc2, hc3, hc4⟩ := lgs_handler_call_gen hf w
    obtain ⟨ha1, ha2⟩ := lgs_addHandler_onlyAdds (hf.call w).2.2 k (hf.call w).1
    obtain ⟨ih1, ih2, ih3⟩ := ih (addHandler (hf.call w).2.2 k (hf.call w).1)
    have hunf : addConfiguredHandlers k (hf :: rest) w =
        ((hf.call w).2.1 :: (addConfiguredHandlers k rest (addHandler (hf.call w).2.2 k (hf.call w).1)).1,
         (addConfiguredHandlers k rest (addHandler (hf.call w).2.2 k (hf.call w).1)).2) := by
      rw [addConfiguredHandlers]
    rw [hunf]
    refine ⟨((lgs_onlyAdds_of_loggers_eq hc1 hc2 k).trans ha1).trans ih1, ?_, ?_⟩
    · simp only [List.map_cons, hc4, ih2]
    · intro g hg
      rcases List.mem_cons.1 hg with rfl | hg
      · refine ⟨_, hc3, ?_⟩
        obtain ⟨x, hx, hid⟩ := ha2
        exact ⟨x, ih1.handlers.subset hx, hid⟩
      · exact ih3 g hg

theorem lgs_setLevel_sets (w : World) (k : Str) (lv : Int) :
    ((setLevel w k lv).get k).level = lv ∧ ((setLevel w k lv).get k).propagate = (w.get k).propagate ∧
    ((setLevel w k lv).get k).handlers = (w.get k).handlers := by
  rw [lgs_setLevel_get]; exact ⟨rfl, rfl, rfl⟩

/-- `LoggerFactoryBase.create`, in general -/
theorem lgs_baseCreate_gen (f : LoggerFactory) (w : World) :
    (f.baseCreate w).1 = loggerKey f.name ∧
    ((f.baseCreate w).2.2.get (loggerKey f.name)).level = f.level ∧
    ((f.baseCreate w).2.2.get (loggerKey f.name)).propagate = (w.get (loggerKey f.name)).propagate ∧
    (w.get (loggerKey f.name)).handlers <+: ((f.baseCreate w).2.2.get (loggerKey f.name)).handlers ∧
    (∀ k', k' ≠ loggerKey f.name → (f.baseCreate w).2.2.get k' = w.get k') ∧
    (f.baseCreate w).2.1.inst = f.inst ∧
    (f.baseCreate w).2.1.handlerFactories.map (·.cfg) = f.handlerFactories.map (·.cfg) ∧
    (f.handlerFactories ≠ [] → ∀ hf ∈ (f.baseCreate w).2.1.handlerFactories, ∃ h, hf.inst = some h ∧
      ∃ x ∈ ((f.baseCreate w).2.2.get (loggerKey f.name)).handlers, x.id = h.id) := by
  generalize hk : loggerKey f.name = k
  obtain ⟨hl1, hl2, hl3⟩ := lgs_setLevel_sets w k f.level
  unfold LoggerFactory.baseCreate
  simp only [hk]
  by_cases he : f.handlerFactories.isEmpty = true
  · have hnil : f.handlerFactories = [] := List.isEmpty_iff.1 he
    simp only [he, ↓reduceIte]
    have hb : ∀ k', (⟨(setLevel w k f.level).loggers, (setLevel w k f.level).nextId + 1⟩ : World).get k' =
        (setLevel w k f.level).get k' := fun _ => rfl
    obtain ⟨ha1, ha2⟩ := lgs_addHandler_onlyAdds ⟨(setLevel w k f.level).loggers, (setLevel w k f.level).nextId + 1⟩ k
      ⟨(setLevel w k f.level).nextId, none⟩
    have hL := ha1.level; have hP := ha1.propagate; have hH := ha1.handlers; have hO := ha1.other
    rw [hb] at hL hP hH
    refine ⟨trivial, ?_, ?_, ?_, ?_, trivial, trivial, fun h => absurd hnil h⟩
    · unfold addNullHandler; rw [hL, hl1]
    · unfold addNullHandler; rw [hP, hl2]
    · unfold addNullHandler; rw [← hl3]; exact hH
    · intro k' hk'
      unfold addNullHandler
      rw [hO k' hk', hb, lgs_setLevel_other w hk']
  · have hne : f.handlerFactories ≠ [] := fun h => he (List.isEmpty_iff.2 h)
    simp only [he, Bool.false_eq_true, ↓reduceIte]
    obtain ⟨g1, g2, g3⟩ := lgs_addConfigured_gen k f.handlerFactories (setLevel w k f.level)
    refine ⟨trivial, ?_, ?_, ?_, ?_, trivial, g2, fun _ => g3⟩
    · rw [g1.level, hl1]
    · rw [g1.propagate, hl2]
    · rw [← hl3]; exact g1.handlers
    · intro k' hk'
      rw [g1.other k' hk', lgs_setLevel_other w hk']

/-- what a call of a not-yet-called logger factory guarantees in every world and every state of its handler factories -/
structure SetupResult (f : LoggerFactory) (w : World) (r : Str × LoggerFactory × World) : Prop where
  name : r.1 = loggerKey f.name
  level : (r.2.2.get (loggerKey f.name)).level = f.level
  propagate : (r.2.2.get (loggerKey f.name)).propagate = f.propagate.getD (w.get (loggerKey f.name)).propagate
  oldHandlers : (w.get (loggerKey f.name)).handlers <+: (r.2.2.get (loggerKey f.name)).handlers
  other : ∀ k', k' ≠ loggerKey f.name → r.2.2.get k' = w.get k'
  sections : r.2.1.handlerFactories.map (·.cfg) = f.handlerFactories.map (·.cfg)
  products : f.handlerFactories ≠ [] → ∀ hf ∈ r.2.1.handlerFactories, ∃ h, hf.inst = some h ∧
      ∃ x ∈ (r.2.2.get (loggerKey f.name)).handlers, x.id = h.id

theorem lgs_create_gen (f : LoggerFactory) (w : World) : SetupResult f w (f.create w) ∧ (f.create w).2.1.inst = f.inst := by
  obtain ⟨h1, h2, h3, h4, h5, h6, h7, h8⟩ := lgs_baseCreate_gen f w
  unfold LoggerFactory.create
  cases hp : f.propagate with
  | none => exact ⟨⟨h1, h2, by rw [h3, hp]; rfl, h4, h5, h7, h8⟩, h6⟩
  | some p =>
    simp only
    have hg := lgs_setPropagate_get (f.baseCreate w).2.2 (f.baseCreate w).1 p
    rw [h1] at hg ⊢
    refine ⟨⟨rfl, ?_, ?_, ?_, ?_, h7, ?_⟩, h6⟩
    · simp only [hg, h2]
    · simp only [hg, hp]; rfl
    · simp only [hg]; exact h4
    · intro k' hk'
      simp only [lgs_setPropagate_other _ hk', h5 k' hk']
    · intro hne hf hm
      obtain ⟨h, hh1, hh2⟩ := h8 hne hf hm
      refine ⟨h, hh1, ?_⟩
      simp only [hg]; exact hh2

theorem lgs_call_gen (f : LoggerFactory) (w : World) (hi : f.inst = none) :
    SetupResult f w (f.call w) ∧ (f.call w).2.1.inst = some (loggerKey f.name) := by
  obtain ⟨hc, _⟩ := lgs_create_gen f w
  rw [lgs_call_fresh f w hi]
  exact ⟨⟨hc.name, hc.level, hc.propagate, hc.oldHandlers, hc.other, hc.sections, hc.products⟩, by simp only [hc.name]⟩

end ZCV.LogSetup
