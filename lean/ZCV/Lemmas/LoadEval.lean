import ZCV.Model.TreeLoad
import ZCV.Lemmas.Misc
import ZCV.Lemmas.Except
/-!
The tree-driven loader seen from the top matcher only: `evalItem` / `evalItems` do to ONE matcher what
`runItem` / `runItems` do to the matcher on top of the stack (no command-line bag).  The rest of the `LS`
state is a frame.
-/
namespace ZCV.Conf
open ZCV ZCV.Cfg

mutual
def evalItem (conv : Conv) (s : Schema) (m : Matcher) : Item → M Matcher
  | .kv k v p => addValue conv m k v p
  | .sect ty nm items =>
    match s.gettype ty with
    | none => .error (.cfg { kind := .schema, tag := "unknown type name" })
    | some (.abstract_ _ _) => .error (plainErr "concrete sections cannot match abstract section types")
    | some (.concrete t) =>
      match getsectioninfo s m.ty (t.name.getD []) nm with
      | .error e => .error e
      | .ok ci =>
        if !isAllowedName ci nm then .error (plainErr "not an allowed name")
        else if !(nm.isSome || allowUnnamed ci) then .error (plainErr "sections may not be unnamed")
        else
          match evalItems conv s (newMatcher t nm none) items with
          | .error e => .error e
          | .ok child =>
            match finishMatcher conv s child with
            | .error e => .error e
            | .ok (v, _) => addSection s m ty nm v
def evalItems (conv : Conv) (s : Schema) (m : Matcher) : List Item → M Matcher
  | [] => .ok m
  | i :: r =>
    match evalItem conv s m i with
    | .error e => .error e
    | .ok m' => evalItems conv s m' r
end

/-! ### the bag stays absent -/

theorem setSlot_bag (m : Matcher) (a : Str) (sl : Slot) : (setSlot m a sl).bag = m.bag := rfl
theorem setSlot_ty (m : Matcher) (a : Str) (sl : Slot) : (setSlot m a sl).ty = m.ty := rfl

/-- split every `if`/`match` in hypothesis `h` (zeta-reducing `have`s on the way) -/
macro "split_hyp " h:ident : tactic =>
  `(tactic| repeat' (first | split at $h:ident | (dsimp only at $h:ident; split at $h:ident)))

theorem addValueCore_bag (m m' : Matcher) (key rk v : Str) (pos : Pos)
    (h : addValueCore m key rk v pos = .ok m') : m'.bag = m.bag := by
  unfold addValueCore at h
  split_hyp h
  all_goals first | (cases h; rfl) | cases h

theorem addValue_bag (conv : Conv) (m m' : Matcher) (k v : Str) (pos : Pos) (hb : m.bag = none)
    (h : addValue conv m k v pos = .ok m') : m'.bag = none := by
  unfold addValue at h
  split at h
  · cases h
  · rw [hb] at h
    simp only at h
    rw [addValueCore_bag _ _ _ _ _ _ h, hb]

/-- the names a header adds to `_sectionnames` -/
def newName (nm : Option Str) : List Str :=
  match nm with
  | some n => if n != [] then [n] else []
  | none => []

/-- `addSection`, flattened -/
theorem addSection_eq (s : Schema) (m : Matcher) (ty : Str) (nm : Option Str) (v : Val) :
    addSection s m ty nm v =
      if (newName nm).any (fun n => m.used.contains n) then .error (plainErr "section names must not be re-used")
      else
        match getsectioninfo s m.ty ty nm with
        | .error e => .error e
        | .ok ci =>
          let m1 : Matcher := { m with used := m.used ++ newName nm }
          match getSlot m ci.attr with
          | Option.none => .error (.internal "KeyError")
          | some (.sects vs) => if ci.multi then .ok (setSlot m1 ci.attr (.sects (vs ++ [v]))) else .error (.internal "AttributeError")
          | some .none => if ci.multi then .error (.internal "AttributeError") else .ok (setSlot m1 ci.attr (.sect v))
          | some _ => if ci.multi then .error (.internal "AttributeError") else .error (plainErr "too many instances of section") := by
  unfold addSection newName
  simp only [bind, Except.bind, pure, Except.pure, throw, throwThe, MonadExceptOf.throw]
  cases nm with
  | none =>
    simp only [List.any_nil, List.append_nil, Bool.false_eq_true, ↓reduceIte]
    (cases getsectioninfo s m.ty ty _ with
      | error e => rfl
      | ok ci =>
        simp only [getSlot]
        cases (List.find? (fun x => x.fst == ci.attr) m.values) with
        | none => rfl
        | some p => obtain ⟨a, sl⟩ := p; cases sl <;> rfl)
  | some n =>
    by_cases hn : (n != []) = true
    · simp only [hn, if_true, List.any_cons, List.any_nil, Bool.or_false]
      by_cases hu : m.used.contains n = true
      · simp only [hu, if_true]
      · simp only [hu, Bool.false_eq_true, ↓reduceIte]
        (cases getsectioninfo s m.ty ty _ with
      | error e => rfl
      | ok ci =>
        simp only [getSlot]
        cases (List.find? (fun x => x.fst == ci.attr) m.values) with
        | none => rfl
        | some p => obtain ⟨a, sl⟩ := p; cases sl <;> rfl)
    · simp only [hn, List.any_nil, List.append_nil, Bool.false_eq_true, ↓reduceIte]
      (cases getsectioninfo s m.ty ty _ with
      | error e => rfl
      | ok ci =>
        simp only [getSlot]
        cases (List.find? (fun x => x.fst == ci.attr) m.values) with
        | none => rfl
        | some p => obtain ⟨a, sl⟩ := p; cases sl <;> rfl)

theorem addSection_bag (s : Schema) (m m' : Matcher) (ty : Str) (nm : Option Str) (v : Val) (hb : m.bag = none)
    (h : addSection s m ty nm v = .ok m') : m'.bag = none := by
  rw [addSection_eq] at h
  split_hyp h
  all_goals first | (cases h; exact hb) | cases h

/-! ### frame lemma -/

/-- the state `st` with a new top matcher and a new handler list -/
def withTop (st : LS) (m : Matcher) (below : List Matcher) (hs : List (Str × Val)) : LS :=
  { st with stack := m :: below, handlers := hs }

mutual
theorem runItem_eval (conv : Conv) (s : Schema) :
    ∀ (i : Item) (st : LS) (m : Matcher) (below : List Matcher),
      st.stack = m :: below → st.schema = s → st.conv = conv → m.bag = none →
      match evalItem conv s m i with
      | .ok m' => m'.bag = none ∧ ∃ hs, runItem st i = .ok (withTop st m' below hs)
      | .error _ => ∃ e, runItem st i = .error e
  | .kv k v p, st, m, below, hst, hsch, hconv, hb => by
    obtain ⟨sch, priv, hd, stk, pk, cv, bs⟩ := st
    simp only at hst hsch hconv
    subst hst hsch hconv
    rw [evalItem, runItem]
    unfold lsValue
    simp only
    cases h : addValue cv m k v p with
    | error e => exact ⟨_, rfl⟩
    | ok m' => exact ⟨addValue_bag _ _ _ _ _ _ hb h, hd, rfl⟩
  | .sect ty nm items, st, m, below, hst, hsch, hconv, hb => by
    obtain ⟨sch, priv, hd, stk, pk, cv, bs⟩ := st
    simp only at hst hsch hconv
    subst hst hsch hconv
    rw [evalItem, runItem]
    unfold lsStart
    simp only
    cases hg : sch.gettype ty with
    | none => exact ⟨_, rfl⟩
    | some te =>
      cases te with
      | abstract_ n subs => exact ⟨_, rfl⟩
      | concrete t =>
        simp only [bind, Except.bind, pure, Except.pure, throw, throwThe, MonadExceptOf.throw]
        cases hgi : getsectioninfo sch m.ty (t.name.getD []) nm with
        | error e => exact ⟨_, rfl⟩
        | ok ci =>
          simp only
          by_cases h1 : (!isAllowedName ci nm) = true
          · simp only [h1, if_true]; exact ⟨_, rfl⟩
          · simp only [h1, if_false, Bool.false_eq_true]
            by_cases h2 : (!(nm.isSome || allowUnnamed ci)) = true
            · simp only [h2, if_true]; exact ⟨_, rfl⟩
            · simp only [h2, if_false, Bool.false_eq_true, hb]
              have ih := runItems_eval cv sch items
                { schema := sch, privateSchema := priv, handlers := hd, stack := newMatcher t nm none :: m :: below,
                  pkgs := pk, conv := cv, bagSchema := bs } (newMatcher t nm none) (m :: below)
                rfl rfl rfl rfl
              cases he : evalItems cv sch (newMatcher t nm none) items with
              | error e =>
                rw [he] at ih
                obtain ⟨e', he'⟩ := ih
                rw [he']
                exact ⟨_, rfl⟩
              | ok child =>
                rw [he] at ih
                obtain ⟨hcb, hs1, hr⟩ := ih
                rw [hr]
                simp only
                unfold lsStop
                simp only [withTop, bind, Except.bind, pure, Except.pure]
                cases hf : finishMatcher cv sch child with
                | error e => exact ⟨_, rfl⟩
                | ok vh =>
                  obtain ⟨v, hs2⟩ := vh
                  simp only
                  cases ha : addSection sch m ty nm v with
                  | error e => exact ⟨_, rfl⟩
                  | ok m' =>
                    exact ⟨addSection_bag _ _ _ _ _ _ hb ha, hs1 ++ hs2, rfl⟩
theorem runItems_eval (conv : Conv) (s : Schema) :
    ∀ (l : List Item) (st : LS) (m : Matcher) (below : List Matcher),
      st.stack = m :: below → st.schema = s → st.conv = conv → m.bag = none →
      match evalItems conv s m l with
      | .ok m' => m'.bag = none ∧ ∃ hs, runItems st l = .ok (withTop st m' below hs)
      | .error _ => ∃ e, runItems st l = .error e
  | [], st, m, below, hst, hsch, hconv, hb => by
    rw [evalItems, runItems]
    refine ⟨hb, st.handlers, ?_⟩
    simp [withTop, ← hst]
  | i :: r, st, m, below, hst, hsch, hconv, hb => by
    rw [evalItems, runItems]
    have ih := runItem_eval conv s i st m below hst hsch hconv hb
    cases he : evalItem conv s m i with
    | error e =>
      rw [he] at ih
      obtain ⟨e', he'⟩ := ih
      rw [he']
      exact ⟨_, rfl⟩
    | ok m1 =>
      rw [he] at ih
      obtain ⟨hb1, hs1, hr⟩ := ih
      rw [hr]
      simp only
      have ih2 := runItems_eval conv s r (withTop st m1 below hs1) m1 below rfl hsch hconv hb1
      cases he2 : evalItems conv s m1 r with
      | error e =>
        rw [he2] at ih2
        exact ih2
      | ok m2 =>
        rw [he2] at ih2
        obtain ⟨hb2, hs2, hr2⟩ := ih2
        exact ⟨hb2, hs2, by simp only [hr2]; rfl⟩
end

end ZCV.Conf
