import ZCV.Lemmas.Position
import ZCV.Lemmas.Grammar
/-!
A small concrete instance for the C08 theorems (non-vacuity): a resource that `%include`s another one whose second line is a
key line the context refuses with a position-less error.
-/
namespace ZCV.Cfg.PosEx
open ZCV ZCV.Cfg

/-- the model's classification of a physical line from the specification's (which is computable by `decide`) -/
theorem lineShape_of_classify (line : Str) (hn : '\n' ∉ line) (sh : LineShape)
    (hs : Grammar.classify line = toSpec sh) (hb : toSpec sh ≠ .bad) : lineShape (strip line) = sh := by
  have h := lineShape_eq_classify line hn
  rw [hs] at h
  cases hx : lineShape (strip line) <;> rw [hx] at h <;> cases sh <;> simp only [toSpec] at h hb <;>
    first | (cases h; rfl) | (exact absurd rfl hb) | (cases h)

/-- refuses key `k` with a plain error that names no position; accepts everything else -/
def ctx : PCtx Unit :=
  { start := fun s _ _ => .ok s, stop := fun s _ _ => .ok s,
    value := fun s k _ _ => if k == ['k'] then .error (.cfg { kind := .plain, tag := "not a known key name" }) else .ok s,
    imp := fun s _ => .ok s, canInclude := true, canDefine := true }

def incl : List Str := ["# included".toList, "k v".toList]
def main : List Str := ["# main".toList, "%include x".toList]

def env : Env :=
  { res := fun u => if u == ['x'] then some incl else none, resolve := fun _ a => .url a, getenv := fun _ => none }

def st0 : PS Unit := { ctx := (), stack := [], defs := [] }

/-- the error the parser delivers: the context's error with the position of line 2 of resource `x` -/
def err : Err := { kind := .plain, line := some 2, url := some ['x'], tag := "not a known key name" }

theorem shape_comment_main : lineShape (strip "# main".toList) = .skip := by decide
theorem shape_comment_incl : lineShape (strip "# included".toList) = .skip := by decide
theorem shape_include : lineShape (strip "%include x".toList) = .include_ ['x'] :=
  lineShape_of_classify _ (by decide) _ (by decide) (by decide)
theorem shape_kv : lineShape (strip "k v".toList) = .kv ['k'] ['v'] :=
  lineShape_of_classify _ (by decide) _ (by decide) (by decide)

theorem enters : Enters 1 env ctx [['m']] (some ['m']) 2 (strip "%include x".toList) st0 0 ['x'] incl :=
  ⟨['x'], ['x'], shape_include, replace_nodollar _ _ _ _ _ (by decide), rfl, rfl, rfl, by decide, rfl⟩

theorem step_kv : stepLine 0 env ctx [['x'], ['m']] (some ['x']) 2 (strip "k v".toList) (subState st0) = .error (.cfg err) := by
  rw [stepLine]
  simp only [shape_kv]
  rw [keyValue_eq]
  have hr : replace env (subState st0).defs (some ['x']) 2 ['v'] = .ok ['v'] := replace_nodollar _ _ _ _ _ (by decide)
  have hne : (['v'] == ([] : Str)) = false := by decide
  simp only [hne, Bool.false_eq_true, if_false, hr, ok_bind]
  rfl

/-- the failing parse of `main`: the culprit is line 2 of the included resource `x` -/
theorem culprit : Culprit env ctx 1 [['m']] (some ['m']) main 0 st0 (.cfg err) (some ['x']) 2 (subState st0) := by
  refine .next _ _ _ _ _ _ _ st0 _ _ _ _ ?_ ?_
  · rw [stepLine]; simp only [shape_comment_main]
  · refine .inner _ _ _ _ _ _ _ _ _ _ _ _ _ _ enters ?_
    refine .next _ _ _ _ _ _ _ (subState st0) _ _ _ _ ?_ ?_
    · rw [stepLine]; simp only [shape_comment_incl]
    · refine .here _ _ _ _ _ _ _ _ ?_ step_kv
      intro f' u sub ⟨arg, _, hs, _⟩
      rw [shape_kv] at hs
      cases hs

theorem parse_fails : parseLines 1 env ctx [['m']] (some ['m']) main 0 st0 = .error (.cfg err) := culprit_sound culprit

end ZCV.Cfg.PosEx
