import ZCV.Lemmas.RoundtripLine
import ZCV.Lemmas.RoundtripSort
/-!
The stripped non-blank lines of `str(config)` (C17): `essOf (slStr t imps) = essTop t imps`, by recursion
over the tree, through the blank-line policy, the indentation, `'\n'.join`, `rstrip` and the final newline.
-/
namespace ZCV.Roundtrip
open ZCV ZCV.Cfg

/-- the key lines `Section.__str__` writes at indentation `pre1` -/
def kvText (pre1 : Str) (kvs : List (Str × List Str)) : List Str :=
  (sortKeys kvs).flatMap (fun p => p.2.map (fun v => pre1 ++ p.1 ++ ' ' :: escDollar v))

theorem dropLastN_two (pre : Str) : dropLastN (pre ++ [' ', ' ']) 2 = pre := by
  simp [dropLastN]

/-- `Section.__str__(pre)` of a section with a type, as one expression -/
theorem secStr_sub (pre ty : Str) (nm : Option Str) (kvs : List (Str × List Str)) (ss : List Sec) (hty : ty ≠ []) :
    secStr [] pre (.mk ty nm kvs ss) =
      rstrip (joinLines ([closeHeader (pre ++ '<' :: hdrBody ty nm)] ++ kvText (pre ++ [' ', ' ']) kvs ++
        (if !ss.isEmpty && !kvs.isEmpty then [[]] else []) ++ secStrs (pre ++ [' ', ' ']) ss ++
        [pre ++ '<' :: '/' :: ty ++ ['>'], []])) ++ (if pre.isEmpty then ['\n'] else []) := by
  have hE : ty.isEmpty = false := by
    cases ty with
    | nil => exact absurd rfl hty
    | cons _ _ => rfl
  cases nm with
  | none =>
    unfold secStr kvText hdrBody
    simp only [List.isEmpty_nil, ↓reduceIte, hE, Bool.not_false, List.nil_append, dropLastN_two]
    by_cases hc : (!ss.isEmpty && !kvs.isEmpty) = true <;> by_cases hp : pre.isEmpty = true <;>
      simp only [hc, hp, ↓reduceIte, List.append_assoc, List.append_nil, Bool.false_eq_true]
  | some n =>
    unfold secStr kvText hdrBody
    simp only [List.isEmpty_nil, ↓reduceIte, hE, Bool.not_false, List.nil_append, dropLastN_two]
    by_cases hn : n.isEmpty = true <;> by_cases hc : (!ss.isEmpty && !kvs.isEmpty) = true <;>
      by_cases hp : pre.isEmpty = true <;>
      simp only [hn, hc, hp, ↓reduceIte, List.append_assoc, List.append_nil, Bool.false_eq_true, List.cons_append]

/-- the same for the top section (no type): imports first -/
theorem secStr_top (imps : List Str) (nm : Option Str) (kvs : List (Str × List Str)) (ss : List Sec) :
    secStr imps [] (.mk [] nm kvs ss) =
      rstrip (joinLines ((if imps.isEmpty then [] else imps.map (fun p => "%import ".toList ++ escDollar p) ++ [[]]) ++
        kvText [] kvs ++ (if !ss.isEmpty && !kvs.isEmpty then [[]] else []) ++ secStrs [] ss)) ++ ['\n'] := by
  unfold secStr kvText
  generalize "%import ".toList = imp
  simp only [List.isEmpty_nil, Bool.not_true, Bool.false_eq_true, ↓reduceIte]
  by_cases hc : (!ss.isEmpty && !kvs.isEmpty) = true
  · simp only [hc, ↓reduceIte, List.append_assoc]
  · simp only [hc, ↓reduceIte, List.append_assoc, List.append_nil, Bool.false_eq_true]


theorem flatMap_singleton_map {α β} (l : List α) (f : α → List β) (g : α → β) (h : ∀ x ∈ l, f x = [g x]) :
    l.flatMap f = l.map g := by
  induction l with
  | nil => rfl
  | cons a r ih =>
    rw [List.flatMap_cons, List.map_cons, h a List.mem_cons_self, ih (fun x hx => h x (List.mem_cons_of_mem _ hx))]
    rfl

theorem flatMap_congr' {α β} (l : List α) (f g : α → List β) (h : ∀ x ∈ l, f x = g x) :
    l.flatMap f = l.flatMap g := by
  induction l with
  | nil => rfl
  | cons a r ih =>
    rw [List.flatMap_cons, List.flatMap_cons, h a List.mem_cons_self, ih (fun x hx => h x (List.mem_cons_of_mem _ hx))]

theorem kvLine_ne {k : Str} (v : Str) (hk : wordTok k = true) : kvLine k v ≠ [] := by
  unfold kvLine
  split
  · exact wordTok_ne hk
  · simp [wordTok_ne hk]

/-- one key line -/
theorem essOf_kv (pre k v : Str) (hpre : pre.all (· == ' ') = true) (hk : keyOK k = true) (hv : cleanVal v = true) :
    essOf (pre ++ k ++ ' ' :: escDollar v) = [kvLine k v] := by
  have hw := keyOK_word hk
  have hn : '\n' ∉ pre ++ k ++ ' ' :: escDollar v := by
    intro hm
    rcases List.mem_append.1 hm with h | h
    · rcases List.mem_append.1 h with h | h
      · exact blanks_nonl hpre h
      · exact wordTok_nonl hw h
    · rcases List.mem_cons.1 h with h | h
      · cases h
      · exact cleanVal_nonl hv (mem_esc h)
  rw [essOf_line _ hn, strip_kv pre k v hpre hk hv, if_neg (kvLine_ne v hw)]

theorem essOf_kvText (pre : Str) (kvs : List (Str × List Str)) (hpre : pre.all (· == ' ') = true)
    (h : kvsOK kvs = true) : (kvText pre kvs).flatMap essOf = kvLines kvs := by
  unfold kvText kvLines pairsOf
  rw [List.flatMap_assoc, List.map_flatMap]
  apply flatMap_congr'
  intro p hp
  have hp' := kvsOK_all h p (mem_sortKeys.1 hp)
  rw [List.flatMap_map, List.map_map]
  apply flatMap_singleton_map
  intro v hv
  exact essOf_kv pre p.1 v hpre hp'.1 (hp'.2.2 v hv)

theorem essOf_hdr (pre ty : Str) (nm : Option Str) (hpre : pre.all (· == ' ') = true)
    (hty : tyOK ty = true) (hnm : nameOK nm = true) :
    essOf (closeHeader (pre ++ '<' :: hdrBody ty nm)) = [hdrLine ty nm] := by
  obtain ⟨hw, _, _⟩ := tyOK_parts hty
  have hn : '\n' ∉ closeHeader (pre ++ '<' :: hdrBody ty nm) := by
    rw [closeHeader_eq _ _ (hdrBody_ne nm (wordTok_ne hw))]
    intro hm
    rcases List.mem_append.1 hm with h | h
    · exact blanks_nonl hpre h
    · rcases List.mem_append.1 h with h | h
      · rcases List.mem_cons.1 h with h | h
        · cases h
        · exact hdrBody_nonl hw hnm h
      · split at h
        · revert h; decide
        · revert h; decide
  rw [essOf_line _ hn, strip_hdr pre ty nm hpre hty]
  have : hdrLine ty nm ≠ [] := by unfold hdrLine; simp
  rw [if_neg this]

theorem essOf_close (pre ty : Str) (hpre : pre.all (· == ' ') = true) (hty : tyOK ty = true) :
    essOf (pre ++ '<' :: '/' :: ty ++ ['>']) = [closeLine ty] := by
  obtain ⟨hw, _, _⟩ := tyOK_parts hty
  have hn : '\n' ∉ pre ++ '<' :: '/' :: ty ++ ['>'] := by
    intro hm
    rcases List.mem_append.1 hm with h | h
    · rcases List.mem_append.1 h with h | h
      · exact blanks_nonl hpre h
      · rcases List.mem_cons.1 h with h | h
        · cases h
        · rcases List.mem_cons.1 h with h | h
          · cases h
          · exact wordTok_nonl hw h
    · revert h; decide
  rw [essOf_line _ hn, strip_close pre ty hpre]
  have : closeLine ty ≠ [] := by unfold closeLine; simp
  rw [if_neg this]

theorem essOf_blank_opt (c : Bool) : (if c = true then [([] : Str)] else []).flatMap essOf = [] := by
  cases c <;> rfl

theorem essOf_tail (x : Str) (c : Bool) : essOf (x ++ (if c = true then ['\n'] else [])) = essOf x := by
  cases c
  · simp
  · exact essOf_final_nl x

theorem blanks_two {pre : Str} (h : pre.all (· == ' ') = true) : (pre ++ [' ', ' ']).all (· == ' ') = true := by
  simp [h]

theorem wfSub_parts {ty : Str} {nm : Option Str} {kvs : List (Str × List Str)} {ss : List Sec}
    (h : wfSub (.mk ty nm kvs ss) = true) :
    tyOK ty = true ∧ nameOK nm = true ∧ kvsOK kvs = true ∧ wfSubs ss = true := by
  rw [wfSub] at h
  simp only [Bool.and_eq_true] at h
  exact ⟨h.1.1.1, h.1.1.2, h.1.2, h.2⟩

theorem wfSubs_cons {s : Sec} {r : List Sec} (h : wfSubs (s :: r) = true) : wfSub s = true ∧ wfSubs r = true := by
  rw [wfSubs] at h
  simpa using h

mutual
/-- the lines of a printed section -/
theorem essOf_secStr : ∀ (s : Sec) (pre : Str), wfSub s = true → pre.all (· == ' ') = true →
    essOf (secStr [] pre s) = essSec s
  | .mk ty nm kvs ss, pre, h, hpre => by
    obtain ⟨hty, hnm, hkv, hss⟩ := wfSub_parts h
    obtain ⟨hw, _, _⟩ := tyOK_parts hty
    have ih := essOf_secStrs ss (pre ++ [' ', ' ']) hss (blanks_two hpre)
    rw [secStr_sub pre ty nm kvs ss (wordTok_ne hw), essOf_tail, essOf_rstrip, essOf_joinLines]
    simp only [List.flatMap_append, List.flatMap_cons, List.flatMap_nil, List.append_nil]
    rw [essOf_hdr pre ty nm hpre hty hnm, essOf_kvText _ kvs (blanks_two hpre) hkv, essOf_blank_opt, ih,
      essOf_close pre ty hpre hty, essOf_nil, essSec]
    simp
/-- the lines of the printed sub-sections -/
theorem essOf_secStrs : ∀ (l : List Sec) (pre : Str), wfSubs l = true → pre.all (· == ' ') = true →
    (secStrs pre l).flatMap essOf = essSecs l
  | [], _, _, _ => by simp [secStrs, essSecs]
  | s :: r, pre, h, hpre => by
    obtain ⟨h1, h2⟩ := wfSubs_cons h
    rw [secStrs, List.flatMap_cons, essOf_secStr s pre h1 hpre, essOf_secStrs r pre h2 hpre, essSecs]
end

theorem essOf_imp (p : Str) (hne : p ≠ []) (hp : cleanVal p = true) :
    essOf ("%import ".toList ++ escDollar p) = [impLine p] := by
  have hn : '\n' ∉ "%import ".toList ++ escDollar p := by
    intro hm
    rcases List.mem_append.1 hm with h | h
    · revert h; decide
    · exact cleanVal_nonl hp (mem_esc h)
  rw [essOf_line _ hn, strip_imp p hne hp]
  have : impLine p ≠ [] := by unfold impLine; simp
  rw [if_neg this]

/-- the lines of `str(config)` -/
theorem essOf_slStr (t : Sec) (imps : List Str) (h : WF t imps) : essOf (slStr t imps) = essTop t imps := by
  obtain ⟨ty, nm, kvs, ss⟩ := t
  obtain ⟨hty, _, hkv, hss, himp⟩ := h
  simp only [Sec.type, Sec.kvs, Sec.sections] at hty hkv hss
  subst hty
  unfold slStr essTop
  rw [secStr_top, essOf_final_nl, essOf_rstrip, essOf_joinLines]
  simp only [List.flatMap_append, Sec.kvs, Sec.sections]
  rw [essOf_kvText [] kvs (by rfl) hkv, essOf_blank_opt, essOf_secStrs ss [] hss (by rfl)]
  have hI : (if imps.isEmpty = true then [] else imps.map (fun p => "%import ".toList ++ escDollar p) ++ [[]]).flatMap essOf
      = imps.map impLine := by
    cases imps with
    | nil => rfl
    | cons a r =>
      simp only [List.isEmpty_cons, Bool.false_eq_true, ↓reduceIte, List.flatMap_append, List.flatMap_cons,
        List.flatMap_nil, essOf_nil, List.append_nil]
      rw [List.flatMap_map]
      apply flatMap_singleton_map
      intro p hp
      exact essOf_imp p (impsOK_all himp p hp).1 (impsOK_all himp p hp).2
  rw [hI]
  simp

end ZCV.Roundtrip
