import ZCV.Lemmas.UrlPathAbs
/-! Path-level statements for references that start at the root, and "the joined URL is the URL of the resolved path". -/
namespace ZCV.UrlPath
open ZCV
open ZCV.UrlPathSpec (step normalize resolve isName render segments absDir relFileRef absFilePath normalFilePath)

theorem up_normalize_map_quote (xs : List Str) : normalize (xs.map quote) = (normalize xs).map quote := by
  have := up_foldl_step_map quote [] xs (fun x _ => up_respects_quote x)
  simpa [normalize] using this

/-- `"file://" + quote("/" + names joined)` -/
theorem up_pathToUrl_render (names : List Str) :
    pathToUrl (render names) = fileSlashes ++ '/' :: joinWith '/' (names.map quote) := by
  unfold pathToUrl render
  rw [up_unsegments_eq, up_quote_cons, up_quote_single_slash, up_quote_joinWith]
  rfl

theorem up_quote_chars_clean (t : Str) : ∀ c ∈ quote t, cleanChar c = true :=
  fun c hc => (up_quotedChar_clean c (up_quote_chars t c hc)).1

theorem up_pathToUrl_abs (t : Str) : pathToUrl ('/' :: t) = fileSlashes ++ '/' :: quote t := by
  unfold pathToUrl
  rw [up_quote_cons, up_quote_single_slash]
  rfl

/-- the URL segments of an absolute path to a file -/
theorem up_absFilePath_quote (q : Str) (mid : List Str) (l : Str) (hseg : segments q = [] :: (mid ++ [l]))
    (hmne : ∀ m ∈ mid, m ≠ []) (hl : isName l = true) :
    quote q = '/' :: joinWith '/' (mid.map quote ++ [quote l]) ∧
    (∀ s ∈ mid.map quote ++ [quote l], ∀ c ∈ s, segChar c = true) ∧
    (∀ s ∈ mid.map quote, s ≠ []) ∧ isName (quote l) = true := by
  rw [up_segments_eq] at hseg
  refine ⟨?_, ?_, ?_, by rw [up_isName_quote]; exact hl⟩
  · have e := up_joinWith_splitOn '/' q
    rw [← e, up_quote_joinWith, hseg, List.map_cons, up_quote_nil, up_joinWith_cons '/' [] _ (by simp)]
    simp
  · intro s hs
    simp only [List.mem_append, List.mem_map, List.mem_cons, List.not_mem_nil, or_false] at hs
    rcases hs with ⟨p, hp, rfl⟩ | rfl
    · exact (up_goodSeg_quote p (up_splitOn_pieces '/' q p (by rw [hseg]; simp [hp]))).2.1
    · exact (up_goodSeg_quote l (up_splitOn_pieces '/' q l (by rw [hseg]; simp))).2.1
  · intro s hs
    simp only [List.mem_map] at hs
    obtain ⟨p, hp, rfl⟩ := hs
    exact fun e => hmne p hp ((up_quote_eq_nil p).1 e)

/-- an absolute path, quoted, as reference: the result is the URL of its lexical normal form, whatever the base -/
theorem up_join_absolute_path (b q : Str) (hb : b.head? = some '/') (hq : absFilePath q) :
    join (pathToUrl b) (quote q) = pathToUrl (render (normalize (segments q))) := by
  obtain ⟨mid, l, hseg, hmne, hl⟩ := hq
  obtain ⟨hq1, hq2, hq3, hq4⟩ := up_absFilePath_quote q mid l hseg hmne hl
  cases b with
  | nil => simp at hb
  | cons c t =>
    simp only [List.head?_cons, Option.some.injEq] at hb
    subst hb
    rw [up_pathToUrl_abs, hq1, up_join_abs_segments (quote t) _ _ (up_quote_chars_clean t) hq2 hq3 hq4,
      up_pathToUrl_render, hseg, up_normalize_nil_cons, ← up_normalize_map_quote]
    simp

/-- a whole `file:///` URL as reference: the same -/
theorem up_join_absolute_url (b q : Str) (hb : b.head? = some '/') (hq : absFilePath q) :
    join (pathToUrl b) (pathToUrl q) = pathToUrl (render (normalize (segments q))) := by
  obtain ⟨mid, l, hseg, hmne, hl⟩ := hq
  obtain ⟨hq1, hq2, hq3, hq4⟩ := up_absFilePath_quote q mid l hseg hmne hl
  cases b with
  | nil => simp at hb
  | cons c t =>
    simp only [List.head?_cons, Option.some.injEq] at hb
    subst hb
    have e : pathToUrl q = fileSlashes ++ '/' :: joinWith '/' (mid.map quote ++ [quote l]) := by
      unfold pathToUrl; rw [hq1]
    rw [up_pathToUrl_abs, e, up_join_url_segments (quote t) _ _ (up_quote_chars_clean t) hq2 hq3 hq4,
      up_pathToUrl_render, hseg, up_normalize_nil_cons, ← up_normalize_map_quote]
    simp

/-- a path in normal form is its own normal form -/
theorem up_render_normal (q : Str) (hq : normalFilePath q) : render (normalize (segments q)) = q := by
  obtain ⟨names, hne, hseg, hnames⟩ := hq
  rw [hseg, up_normalize_nil_cons]
  have := up_foldl_step_names [] names hnames
  rw [List.nil_append] at this
  unfold normalize
  rw [this]
  unfold render
  rw [up_unsegments_eq]
  have e := up_joinWith_splitOn '/' q
  rw [← up_segments_eq, hseg, up_joinWith_cons '/' [] _ hne] at e
  exact e

theorem up_normal_abs (q : Str) (hq : normalFilePath q) : absFilePath q := by
  obtain ⟨names, hne, hseg, hnames⟩ := hq
  obtain ⟨l, hl⟩ : ∃ l, names.getLast? = some l := by
    cases h : names.getLast? with
    | none => exact absurd (List.getLast?_eq_none_iff.1 h) hne
    | some l => exact ⟨l, rfl⟩
  obtain ⟨ys, hys⟩ := List.getLast?_eq_some_iff.1 hl
  refine ⟨ys, l, by rw [hseg, hys], ?_, hnames l (by rw [hys]; simp)⟩
  intro m hm
  have := hnames m (by rw [hys]; simp [hm])
  unfold isName at this
  simp only [Bool.and_eq_true, bne_iff_ne, ne_eq] at this
  exact this.1.1

/-- **the joined URL is the URL of the resolved path**: for a quoted relative reference to a file, `urljoin` returns
    exactly what `normalizeURL` would build from the lexically resolved path -/
theorem up_join_is_pathToUrl (dir file ref : Str) (hd : absDir dir) (hf : '/' ∉ file) (hr : relFileRef ref) :
    join (pathToUrl (dir ++ '/' :: file)) (quote ref) = pathToUrl (render (resolve (segments dir) (segments ref))) := by
  obtain ⟨ds, hds, hdsl, hbase⟩ := up_pathToUrl_segments dir file hd hf
  obtain ⟨rinit, l, hform, hseg⟩ := up_refForm_quote ref hr
  have h0 := hform.head
  have hns := hform.nocolon
  rw [hform.text] at h0 hns
  rw [hbase, hform.text, up_join_segments (ds.map quote) (quote file) (rinit.map quote) (quote l)
    (by intro u hu; simp only [List.mem_map] at hu; obtain ⟨p, hp, rfl⟩ := hu; exact (up_goodSeg_quote p (hdsl p hp)).2.1)
    (up_goodSeg_quote file hf).2.1 (fun s hs => (hform.good s hs).2.1) hform.name h0 hns,
    up_pathToUrl_render, hds, hseg]
  have e1 : ([] : Str) :: ds.map quote = ([] :: ds).map quote := by simp [up_quote_nil]
  have e2 : rinit.map quote ++ [quote l] = (rinit ++ [l]).map quote := by simp
  rw [e1, e2, up_resolve_map quote _ _ (fun x _ => up_respects_quote x)]

end ZCV.UrlPath
