import ZCV.Model.Schemaless
import ZCV.Spec.Grammar
/-!
Vocabulary of the schema-less round trip (C17): the trees the loader can produce (`WF`), the tree a reload
yields (`canon`: the same tree with every section's keys in the order `sorted()` gives), the order-blind
comparison of trees (`Sec.Same`), and the stripped non-blank lines of the printed text (`essTop`).
-/
namespace ZCV.Roundtrip
open ZCV ZCV.Cfg

/-- what `strip` and the key/value pattern leave of a value: no newline, no whitespace at either end (may be empty) -/
def cleanVal (v : Str) : Bool := !v.contains '\n' && !(v.head?.any pySpace) && !(v.getLast?.any pySpace)

/-- a non-empty run of word characters (neither whitespace nor a parenthesis) -/
def wordTok (s : Str) : Bool := !s.isEmpty && s.all Grammar.isWord

/-- a key: a word that does not start like a comment, a section or a directive -/
def keyOK (k : Str) : Bool := wordTok k && k.take 1 != ['#'] && k.take 1 != ['<'] && k.take 1 != ['%']

/-- a section type or name: a lower-case word -/
def tokOK (s : Str) : Bool := wordTok s && lower s == s

/-- a section type moreover does not start with `/` (that would be a section end) -/
def tyOK (s : Str) : Bool := tokOK s && s.take 1 != ['/']

def nameOK : Option Str → Bool
  | none => true
  | some n => tokOK n

/-- keys are distinct, every key has at least one value, values are clean -/
def kvsOK (kvs : List (Str × List Str)) : Bool :=
  kvs.all (fun p => keyOK p.1 && !p.2.isEmpty && p.2.all cleanVal) && decide (kvs.map (·.1)).Nodup

mutual
/-- a section below the top -/
def wfSub : Sec → Bool
  | .mk ty nm kvs ss => tyOK ty && nameOK nm && kvsOK kvs && wfSubs ss
def wfSubs : List Sec → Bool
  | [] => true
  | s :: r => wfSub s && wfSubs r
end

/-- imported package names: distinct, non-empty, clean -/
def impsOK (imps : List Str) : Bool := imps.all (fun p => !p.isEmpty && cleanVal p) && decide imps.Nodup

/-- the trees (with their import lists) the schema-less loader produces: the top section has neither type nor name -/
def WF (t : Sec) (imps : List Str) : Prop :=
  t.type = [] ∧ t.name = none ∧ kvsOK t.kvs = true ∧ wfSubs t.sections = true ∧ impsOK imps = true

instance (t : Sec) (imps : List Str) : Decidable (WF t imps) := by unfold WF; infer_instance

mutual
/-- the same tree with the keys of every section in `sorted()` order -/
def canon : Sec → Sec
  | .mk ty nm kvs ss => .mk ty nm (sortKeys kvs) (canonL ss)
def canonL : List Sec → List Sec
  | [] => []
  | s :: r => canon s :: canonL r
end

mutual
/-- equality of `Section` trees as Python sees their parts: type, name, the key ↦ value-list dictionary
    (a permutation of the association list, keys being distinct), and the sections in order -/
def Same : Sec → Sec → Prop
  | .mk ty nm kvs ss, .mk ty' nm' kvs' ss' => ty = ty' ∧ nm = nm' ∧ kvs.Perm kvs' ∧ SameL ss ss'
def SameL : List Sec → List Sec → Prop
  | [], [] => True
  | s :: r, s' :: r' => Same s s' ∧ SameL r r'
  | _, _ => False
end

mutual
/-- every section's keys are in `sorted()` order already -/
def sortedSec : Sec → Prop
  | .mk _ _ kvs ss => sortKeys kvs = kvs ∧ sortedSecs ss
def sortedSecs : List Sec → Prop
  | [] => True
  | s :: r => sortedSec s ∧ sortedSecs r
end

/-! ### the lines of the printed text, stripped, blank ones left out -/

def kvLine (k v : Str) : Str := if v = [] then k else k ++ ' ' :: escDollar v

def hdrBody (ty : Str) (nm : Option Str) : Str :=
  match nm with
  | some n => if n.isEmpty then ty else ty ++ ' ' :: n
  | none => ty

def hdrLine (ty : Str) (nm : Option Str) : Str :=
  '<' :: hdrBody ty nm ++ (if (hdrBody ty nm).getLast? = some '/' then [' ', '>'] else ['>'])

def closeLine (ty : Str) : Str := '<' :: '/' :: ty ++ ['>']

def impLine (p : Str) : Str := "%import ".toList ++ escDollar p

/-- one key with its values -/
def pairsOf (kvs : List (Str × List Str)) : List (Str × Str) := kvs.flatMap (fun p => p.2.map (fun v => (p.1, v)))

def kvLines (kvs : List (Str × List Str)) : List Str := (pairsOf (sortKeys kvs)).map (fun q => kvLine q.1 q.2)

mutual
def essSec : Sec → List Str
  | .mk ty nm kvs ss => hdrLine ty nm :: (kvLines kvs ++ (essSecs ss ++ [closeLine ty]))
def essSecs : List Sec → List Str
  | [] => []
  | s :: r => essSec s ++ essSecs r
end

def essTop (t : Sec) (imps : List Str) : List Str := imps.map impLine ++ (kvLines t.kvs ++ essSecs t.sections)

end ZCV.Roundtrip
