import ZCV.Lemmas.SlotsInfo
import ZCV.Lemmas.IncludeAux
/-!
C12, `%import` side: `lsImport` taken apart.  A component's types are appended one by one (`addStep`), each followed by
the registrations its `implements` attribute asks for (`regAll` / `regImpl` / `regEntry`).  `Ext impls N sc sc'` says how
the schema `sc'` after such steps relates to `sc`: old types kept, abstract tables only grow, and they grow only by
names in `N` that the component declares as implementers.
-/
namespace ZCV.Cfg
open ZCV ZCV.Conf

/-! ### the pieces of `lsImport` -/

/-- `AbstractType.addsubtype` on the table entry `p`, for the pair `ia = (concrete, abstract)` -/
def regEntry (ia : Str × Str) (p : Str × TypeEntry) : Str × TypeEntry :=
  match p.2 with
  | .abstract_ n subs => if p.1 == ia.2 && !subs.contains ia.1 then (p.1, .abstract_ n (subs ++ [ia.1])) else p
  | _ => p

def regImpl (sc : Schema) (ia : Str × Str) : Schema := { sc with types := sc.types.map (regEntry ia) }

/-- the registrations done for the type named `n` -/
def regAll (impls : List (Str × Str)) (n : Str) (sc1 : Schema) : Schema :=
  impls.foldl (fun sc ia => if ia.1 == n then regImpl sc ia else sc) sc1

/-- one `<sectiontype>` / `<abstracttype>` of the component -/
def addStep (impls : List (Str × Str)) (sc : Schema) (te : Str × TypeEntry) : M Schema :=
  if sc.types.any (·.1 == te.1) then .error (.cfg { kind := .schema, tag := "type name cannot be redefined" })
  else .ok (regAll impls te.1 { sc with types := sc.types ++ [te] })

theorem lsImport_component (st : LS) (pkg url : Str) (types : List (Str × TypeEntry)) (impls : List (Str × Str))
    (hp : st.pkgs pkg = .component url types impls) :
    lsImport st pkg =
      if st.schema.components.contains url then .ok { st with privateSchema := true }
      else (types.foldlM (addStep impls) { st.schema with components := st.schema.components ++ [url] }).map
             fun sch => { st with schema := sch, privateSchema := true } := by
  unfold lsImport
  rw [hp]
  simp only
  split
  · rfl
  · show (do let sch ← List.foldlM (addStep impls) _ types; pure _) = _
    cases List.foldlM (addStep impls) { st.schema with components := st.schema.components ++ [url] } types <;> rfl

/-! ### looking a name up after a registration -/

theorem regEntry_fst (ia : Str × Str) (p : Str × TypeEntry) : (regEntry ia p).1 = p.1 := by
  unfold regEntry
  split
  · split <;> rfl
  · rfl

theorem find_regImpl (sc : Schema) (ia : Str × Str) (k : Str) :
    (regImpl sc ia).types.find? (·.1 == k) = (sc.types.find? (·.1 == k)).map (regEntry ia) := by
  unfold regImpl
  have : ((fun x : Str × TypeEntry => x.1 == k) ∘ regEntry ia) = (fun x => x.1 == k) := by
    funext p
    simp only [Function.comp, regEntry_fst]
  simp only [List.find?_map, this]

/-- the found entry, before `(·.2)` -/
def findType (s : Schema) (x : Str) : Option (Str × TypeEntry) := s.types.find? (·.1 == lower x)

theorem gettype_eq_find (s : Schema) (x : Str) : s.gettype x = (findType s x).map (·.2) := rfl

theorem findType_key (s : Schema) (x : Str) (p : Str × TypeEntry) (h : findType s x = some p) : p.1 = lower x := by
  have := List.find?_some h
  simpa using this

theorem implementers_regImpl (sc : Schema) (ia : Str × Str) (x : Str) :
    implementers (regImpl sc ia) x =
      if isAbstract sc x && lower x == ia.2 && !(implementers sc x).contains ia.1
      then implementers sc x ++ [ia.1] else implementers sc x := by
  unfold implementers isAbstract
  rw [gettype_eq_find, gettype_eq_find]
  unfold findType
  rw [find_regImpl]
  cases hf : sc.types.find? (·.1 == lower x) with
  | none => simp
  | some p =>
    obtain ⟨k, te⟩ := p
    have hk : k = lower x := findType_key sc x _ hf
    subst hk
    cases te with
    | concrete t => simp [regEntry]
    | abstract_ n subs =>
      simp only [Option.map_some, regEntry]
      by_cases hc : (lower x == ia.2 && !subs.contains ia.1) = true
      · simp only [hc, if_true, Bool.true_and]
      · simp only [hc, Bool.false_eq_true, if_false, Bool.true_and]

theorem isAbstract_regImpl (sc : Schema) (ia : Str × Str) (x : Str) :
    isAbstract (regImpl sc ia) x = isAbstract sc x := by
  unfold isAbstract
  rw [gettype_eq_find, gettype_eq_find]
  unfold findType
  rw [find_regImpl]
  cases hf : sc.types.find? (·.1 == lower x) with
  | none => simp
  | some p =>
    obtain ⟨k, te⟩ := p
    cases te with
    | concrete t => simp [regEntry]
    | abstract_ n subs =>
      simp only [Option.map_some, regEntry]
      by_cases hc : (k == ia.2 && !subs.contains ia.1) = true
      · simp only [hc, if_true]
      · simp only [hc, Bool.false_eq_true, if_false]

theorem concrete_regImpl (sc : Schema) (ia : Str × Str) (x : Str) (t : SType)
    (h : sc.gettype x = some (.concrete t)) : (regImpl sc ia).gettype x = some (.concrete t) := by
  rw [gettype_eq_find] at h ⊢
  unfold findType at h ⊢
  rw [find_regImpl]
  cases hf : sc.types.find? (·.1 == lower x) with
  | none => rw [hf] at h; cases h
  | some p =>
    rw [hf] at h
    obtain ⟨k, te⟩ := p
    simp only [Option.map_some, Option.some.injEq] at h
    subst h
    simp [regEntry]

theorem regImpl_keys (sc : Schema) (ia : Str × Str) : (regImpl sc ia).types.map (·.1) = sc.types.map (·.1) := by
  unfold regImpl
  simp only [List.map_map]
  apply List.map_congr_left
  intro p _
  exact regEntry_fst ia p

/-! ### looking a name up after a type has been appended -/

/-- `SchemaType.addtype` (the name is new) -/
def addEntry (sc : Schema) (te : Str × TypeEntry) : Schema := { sc with types := sc.types ++ [te] }

theorem gettype_addEntry_old (sc : Schema) (te : Str × TypeEntry) (x : Str) (e : TypeEntry)
    (h : sc.gettype x = some e) : (addEntry sc te).gettype x = some e := by
  unfold Schema.gettype addEntry at *
  simp only [List.find?_append]
  cases hf : sc.types.find? (·.1 == lower x) with
  | none => rw [hf] at h; cases h
  | some p => rw [hf] at h; simpa using h

theorem gettype_addEntry_new (sc : Schema) (te : Str × TypeEntry) (x : Str)
    (h : sc.gettype x = none) : (addEntry sc te).gettype x = if te.1 == lower x then some te.2 else none := by
  unfold Schema.gettype addEntry at *
  simp only [List.find?_append]
  cases hf : sc.types.find? (·.1 == lower x) with
  | some p => rw [hf] at h; cases h
  | none =>
    simp only [Option.none_or, List.find?_cons, List.find?_nil]
    split <;> simp_all

theorem isAbstract_addEntry (sc : Schema) (te : Str × TypeEntry) (x : Str) (h : isAbstract sc x = true) :
    isAbstract (addEntry sc te) x = true := by
  unfold isAbstract at *
  split at h
  · rename_i n subs heq
    rw [gettype_addEntry_old sc te x _ heq]
  · cases h

theorem implementers_addEntry (sc : Schema) (te : Str × TypeEntry) (x : Str) (h : isAbstract sc x = true) :
    implementers (addEntry sc te) x = implementers sc x := by
  unfold isAbstract at h
  unfold implementers
  split at h
  · rename_i n subs heq
    rw [gettype_addEntry_old sc te x _ heq, heq]
  · cases h

/-! ### how a schema grows -/

/-- `sc'` is `sc` after some types named in `N` have been added and registered as `impls` says -/
structure Ext (impls : List (Str × Str)) (N : List Str) (sc sc' : Schema) : Prop where
  comps : sc'.components = sc.components
  top : sc'.top = sc.top
  handler : sc'.handler = sc.handler
  abs : ∀ x, isAbstract sc x = true → isAbstract sc' x = true
  conc : ∀ x t, sc.gettype x = some (.concrete t) → sc'.gettype x = some (.concrete t)
  mono : ∀ x y, isAbstract sc x = true → y ∈ implementers sc x → y ∈ implementers sc' x
  only : ∀ x y, isAbstract sc x = true → y ∈ implementers sc' x →
    y ∈ implementers sc x ∨ (y ∈ N ∧ (y, lower x) ∈ impls)

theorem Ext.refl (impls : List (Str × Str)) (sc : Schema) : Ext impls [] sc sc :=
  ⟨rfl, rfl, rfl, fun _ h => h, fun _ _ h => h, fun _ _ _ h => h, fun _ _ _ h => .inl h⟩

theorem Ext.trans {impls : List (Str × Str)} {N1 N2 : List Str} {a b c : Schema}
    (h1 : Ext impls N1 a b) (h2 : Ext impls N2 b c) : Ext impls (N1 ++ N2) a c := by
  refine ⟨h2.comps.trans h1.comps, h2.top.trans h1.top, h2.handler.trans h1.handler,
    fun x h => h2.abs x (h1.abs x h), fun x t h => h2.conc x t (h1.conc x t h),
    fun x y ha h => h2.mono x y (h1.abs x ha) (h1.mono x y ha h), ?_⟩
  intro x y ha h
  rcases h2.only x y (h1.abs x ha) h with h | ⟨hy, hi⟩
  · rcases h1.only x y ha h with h | ⟨hy, hi⟩
    · exact .inl h
    · exact .inr ⟨List.mem_append_left _ hy, hi⟩
  · exact .inr ⟨List.mem_append_right _ hy, hi⟩

theorem Ext.weaken {impls : List (Str × Str)} {N N' : List Str} {a b : Schema}
    (h : Ext impls N a b) (hs : ∀ y ∈ N, y ∈ N') : Ext impls N' a b :=
  ⟨h.comps, h.top, h.handler, h.abs, h.conc, h.mono, fun x y ha hy => by
    rcases h.only x y ha hy with h | ⟨hy, hi⟩
    · exact .inl h
    · exact .inr ⟨hs y hy, hi⟩⟩

theorem Ext_regImpl (impls : List (Str × Str)) (sc : Schema) (ia : Str × Str) (hia : ia ∈ impls) :
    Ext impls [ia.1] sc (regImpl sc ia) := by
  refine ⟨rfl, rfl, rfl, fun x h => by rw [isAbstract_regImpl]; exact h, fun x t h => concrete_regImpl sc ia x t h, ?_, ?_⟩
  · intro x y _ hy
    rw [implementers_regImpl]
    split
    · exact List.mem_append_left _ hy
    · exact hy
  · intro x y _ hy
    rw [implementers_regImpl] at hy
    split at hy
    · rename_i hc
      simp only [Bool.and_eq_true, beq_iff_eq] at hc
      rcases List.mem_append.mp hy with h | h
      · exact .inl h
      · simp only [List.mem_singleton] at h
        subst h
        refine .inr ⟨List.mem_singleton.mpr rfl, ?_⟩
        rw [hc.1.2]
        exact hia
    · exact .inl hy

theorem Ext_regAll_aux (impls : List (Str × Str)) (n : Str) :
    ∀ (l : List (Str × Str)) (sc : Schema), (∀ ia ∈ l, ia ∈ impls) →
      Ext impls [n] sc (l.foldl (fun sc ia => if ia.1 == n then regImpl sc ia else sc) sc) := by
  intro l
  induction l with
  | nil => intro sc _; exact (Ext.refl impls sc).weaken (fun _ h => by cases h)
  | cons ia rest ih =>
    intro sc hsub
    rw [List.foldl_cons]
    have hrest := ih (if ia.1 == n then regImpl sc ia else sc) (fun x hx => hsub x (List.mem_cons_of_mem _ hx))
    by_cases hn : (ia.1 == n) = true
    · simp only [hn, if_true] at hrest ⊢
      have h1 := Ext_regImpl impls sc ia (hsub ia List.mem_cons_self)
      have : ia.1 = n := by simpa using hn
      rw [this] at h1
      exact (h1.trans hrest).weaken (fun y hy => by simpa using hy)
    · simp only [hn, Bool.false_eq_true, if_false] at hrest ⊢
      exact hrest

theorem Ext_regAll (impls : List (Str × Str)) (n : Str) (sc : Schema) : Ext impls [n] sc (regAll impls n sc) :=
  Ext_regAll_aux impls n impls sc (fun _ h => h)

theorem Ext_addEntry (impls : List (Str × Str)) (sc : Schema) (te : Str × TypeEntry) : Ext impls [] sc (addEntry sc te) :=
  ⟨rfl, rfl, rfl, fun x h => isAbstract_addEntry sc te x h, fun x t h => gettype_addEntry_old sc te x _ h,
   fun x y ha hy => by rw [implementers_addEntry sc te x ha]; exact hy,
   fun x y ha hy => by rw [implementers_addEntry sc te x ha] at hy; exact .inl hy⟩

theorem addStep_ok (impls : List (Str × Str)) (sc sc' : Schema) (te : Str × TypeEntry)
    (h : addStep impls sc te = .ok sc') :
    sc.types.any (·.1 == te.1) = false ∧ sc' = regAll impls te.1 (addEntry sc te) := by
  unfold addStep at h
  split at h
  · cases h
  · rename_i hany
    cases h
    exact ⟨Bool.eq_false_iff.mpr hany, rfl⟩

theorem Ext_addStep (impls : List (Str × Str)) (sc sc' : Schema) (te : Str × TypeEntry)
    (h : addStep impls sc te = .ok sc') : Ext impls [te.1] sc sc' := by
  obtain ⟨_, rfl⟩ := addStep_ok impls sc sc' te h
  exact ((Ext_addEntry impls sc te).trans (Ext_regAll impls te.1 _)).weaken (fun y hy => by simpa using hy)

theorem Ext_fold (impls : List (Str × Str)) :
    ∀ (types : List (Str × TypeEntry)) (sc sc' : Schema), types.foldlM (addStep impls) sc = .ok sc' →
      Ext impls (types.map (·.1)) sc sc' := by
  intro types
  induction types with
  | nil =>
    intro sc sc' h
    simp only [List.foldlM_nil, pure, Except.pure, Except.ok.injEq] at h
    subst h
    exact Ext.refl impls sc
  | cons te rest ih =>
    intro sc sc' h
    rw [List.foldlM_cons] at h
    obtain ⟨sc1, h1, h2⟩ := bind_ok_inv h
    exact (Ext_addStep impls sc sc1 te h1).trans (ih sc1 sc' h2)

/-! ### the declared implementers are registered -/

theorem regAll_registers_aux (n a : Str) (hla : lower a = a) :
    ∀ (l : List (Str × Str)) (sc : Schema), isAbstract sc a = true →
      ((n, a) ∈ l ∨ n ∈ implementers sc a) →
      n ∈ implementers (l.foldl (fun sc ia => if ia.1 == n then regImpl sc ia else sc) sc) a := by
  intro l
  induction l with
  | nil =>
    intro sc _ h
    rcases h with h | h
    · cases h
    · exact h
  | cons ia rest ih =>
    intro sc habs h
    rw [List.foldl_cons]
    by_cases hn : (ia.1 == n) = true
    · simp only [hn, if_true]
      apply ih _ (by rw [isAbstract_regImpl]; exact habs)
      have hn' : ia.1 = n := by simpa using hn
      rcases h with h | h
      · rcases List.mem_cons.mp h with h | h
        · right
          rw [implementers_regImpl, ← h]
          simp only [habs, hla, beq_self_eq_true, Bool.true_and]
          split
          · exact List.mem_append_right _ (List.mem_singleton.mpr rfl)
          · rename_i hc
            simpa using hc
        · exact .inl h
      · right
        rw [implementers_regImpl]
        split
        · exact List.mem_append_left _ h
        · exact h
    · simp only [hn, Bool.false_eq_true, if_false]
      apply ih _ habs
      rcases h with h | h
      · rcases List.mem_cons.mp h with h | h
        · rw [← h] at hn
          simp at hn
        · exact .inl h
      · exact .inr h

theorem regAll_registers (impls : List (Str × Str)) (n a : Str) (sc : Schema) (hla : lower a = a)
    (habs : isAbstract sc a = true) (hmem : (n, a) ∈ impls) : n ∈ implementers (regAll impls n sc) a :=
  regAll_registers_aux n a hla impls sc habs (.inl hmem)

theorem foldlM_append_ok {α β} (f : β → α → M β) (l1 l2 : List α) (b b' : β)
    (h : (l1 ++ l2).foldlM f b = .ok b') : ∃ b1, l1.foldlM f b = .ok b1 ∧ l2.foldlM f b1 = .ok b' := by
  rw [List.foldlM_append] at h
  exact bind_ok_inv h

/-- the abstract type is there when the implementer is added: either the schema had it, or the component defined it
    earlier -/
theorem fold_registers (impls : List (Str × Str)) (c a : Str) (hla : lower a = a) (hmem : (c, a) ∈ impls)
    (pre post : List (Str × TypeEntry)) (e : TypeEntry) (sc sc' : Schema)
    (h : (pre ++ (c, e) :: post).foldlM (addStep impls) sc = .ok sc')
    (habs : ∀ sc1, pre.foldlM (addStep impls) sc = .ok sc1 → isAbstract sc1 a = true) :
    c ∈ implementers sc' a := by
  obtain ⟨sc1, h1, h2⟩ := foldlM_append_ok _ _ _ _ _ h
  rw [List.foldlM_cons] at h2
  obtain ⟨sc2, h3, h4⟩ := bind_ok_inv h2
  obtain ⟨_, rfl⟩ := addStep_ok impls sc1 sc2 _ h3
  have ha1 := habs sc1 h1
  have ha2 : isAbstract (addEntry sc1 (c, e)) a = true := isAbstract_addEntry sc1 _ a ha1
  have hreg := regAll_registers impls c a _ hla ha2 hmem
  have hext := Ext_fold impls post _ _ h4
  exact hext.mono a c ((Ext_regAll impls c _).abs a ha2) hreg

/-! ### the component's own types are known afterwards -/

theorem regAll_keys (impls : List (Str × Str)) (n : Str) (sc : Schema) :
    (regAll impls n sc).types.map (·.1) = sc.types.map (·.1) := by
  unfold regAll
  generalize impls = l
  induction l generalizing sc with
  | nil => rfl
  | cons ia rest ih =>
    rw [List.foldl_cons, ih]
    split
    · exact regImpl_keys sc ia
    · rfl

theorem gettype_none_iff_keys (sc : Schema) (x : Str) :
    sc.gettype x = none ↔ lower x ∉ sc.types.map (·.1) := by
  unfold Schema.gettype
  simp only [Option.map_eq_none_iff, List.find?_eq_none, List.mem_map, not_exists, not_and]
  constructor
  · intro h p hp heq
    have := h p hp
    simp [heq] at this
  · intro h p hp
    have := h p hp
    simpa using this

theorem regAll_concrete_new (impls : List (Str × Str)) (n : Str) (sc : Schema) (x : Str) (t : SType)
    (h : sc.gettype x = some (.concrete t)) : (regAll impls n sc).gettype x = some (.concrete t) :=
  (Ext_regAll impls n sc).conc x t h

/-- a concrete type the component defines is in the table after the import -/
theorem fold_defines (impls : List (Str × Str)) (c : Str) (t : SType) (hlc : lower c = c)
    (pre post : List (Str × TypeEntry)) (sc sc' : Schema)
    (h : (pre ++ (c, .concrete t) :: post).foldlM (addStep impls) sc = .ok sc') :
    sc'.gettype c = some (.concrete t) := by
  obtain ⟨sc1, h1, h2⟩ := foldlM_append_ok _ _ _ _ _ h
  rw [List.foldlM_cons] at h2
  obtain ⟨sc2, h3, h4⟩ := bind_ok_inv h2
  obtain ⟨hnew, rfl⟩ := addStep_ok impls sc1 sc2 _ h3
  have hnone : sc1.gettype c = none := by
    rw [gettype_none_iff_keys, hlc]
    intro hm
    obtain ⟨p, hp, hpe⟩ := List.mem_map.mp hm
    have := (List.any_eq_false.mp hnew) p hp
    simp [hpe] at this
  have hadd : (addEntry sc1 (c, .concrete t)).gettype c = some (.concrete t) := by
    rw [gettype_addEntry_new sc1 _ c hnone]
    simp [hlc]
  exact (Ext_fold impls post _ _ h4).conc c t (regAll_concrete_new impls c _ c t hadd)

/-- an abstract type the component defines is abstract in the table after the import -/
theorem fold_defines_abstract (impls : List (Str × Str)) (a n : Str) (subs : List Str) (hla : lower a = a)
    (pre post : List (Str × TypeEntry)) (sc sc' : Schema)
    (h : (pre ++ (a, .abstract_ n subs) :: post).foldlM (addStep impls) sc = .ok sc') :
    isAbstract sc' a = true := by
  obtain ⟨sc1, h1, h2⟩ := foldlM_append_ok _ _ _ _ _ h
  rw [List.foldlM_cons] at h2
  obtain ⟨sc2, h3, h4⟩ := bind_ok_inv h2
  obtain ⟨hnew, rfl⟩ := addStep_ok impls sc1 sc2 _ h3
  have hnone : sc1.gettype a = none := by
    rw [gettype_none_iff_keys, hla]
    intro hm
    obtain ⟨p, hp, hpe⟩ := List.mem_map.mp hm
    have := (List.any_eq_false.mp hnew) p hp
    simp [hpe] at this
  have hadd : isAbstract (addEntry sc1 (a, .abstract_ n subs)) a = true := by
    unfold isAbstract
    rw [gettype_addEntry_new sc1 _ a hnone]
    simp [hla]
  exact (Ext_fold impls post _ _ h4).abs a ((Ext_regAll impls a _).abs a hadd)

/-! ### a component may not redefine a type -/

theorem any_key_iff (sc : Schema) (k : Str) : sc.types.any (·.1 == k) = true ↔ k ∈ sc.types.map (·.1) := by
  simp only [List.any_eq_true, List.mem_map, beq_iff_eq]

theorem addStep_keys (impls : List (Str × Str)) (sc sc' : Schema) (te : Str × TypeEntry)
    (h : addStep impls sc te = .ok sc') : sc'.types.map (·.1) = sc.types.map (·.1) ++ [te.1] := by
  obtain ⟨_, rfl⟩ := addStep_ok impls sc sc' te h
  rw [regAll_keys]
  simp [addEntry]

/-- the only way the component's types can fail to be added -/
theorem fold_error (impls : List (Str × Str)) :
    ∀ (types : List (Str × TypeEntry)) (sc : Schema) (f : Fail), types.foldlM (addStep impls) sc = .error f →
      f = .cfg { kind := .schema, tag := "type name cannot be redefined" } := by
  intro types
  induction types with
  | nil => intro sc f h; cases h
  | cons te rest ih =>
    intro sc f h
    rw [List.foldlM_cons] at h
    cases hstep : addStep impls sc te with
    | error g =>
      rw [hstep] at h
      cases h
      unfold addStep at hstep
      split at hstep
      · cases hstep; rfl
      · cases hstep
    | ok sc1 =>
      rw [hstep] at h
      exact ih sc1 f h

theorem fold_clash_fails (impls : List (Str × Str)) :
    ∀ (types : List (Str × TypeEntry)) (sc : Schema), (∃ te ∈ types, te.1 ∈ sc.types.map (·.1)) →
      types.foldlM (addStep impls) sc = .error (.cfg { kind := .schema, tag := "type name cannot be redefined" }) := by
  intro types
  induction types with
  | nil => intro sc ⟨te, hte, _⟩; cases hte
  | cons te0 rest ih =>
    intro sc ⟨te, hte, hk⟩
    rw [List.foldlM_cons]
    cases hstep : addStep impls sc te0 with
    | error g =>
      have := fold_error impls [te0] sc g (by rw [List.foldlM_cons, hstep]; rfl)
      rw [this]
      rfl
    | ok sc1 =>
      show rest.foldlM (addStep impls) sc1 = _
      rcases List.mem_cons.mp hte with rfl | hrest
      · obtain ⟨hnew, _⟩ := addStep_ok impls sc sc1 te hstep
        have := (any_key_iff sc te.1).mpr hk
        rw [hnew] at this
        cases this
      · apply ih sc1 ⟨te, hrest, ?_⟩
        rw [addStep_keys impls sc sc1 te0 hstep]
        exact List.mem_append_left _ hk

/-! ### `lsImport` as a whole -/

/-- a successful `%import` of a component not seen before: the state afterwards -/
theorem lsImport_ok_new (st st' : LS) (pkg url : Str) (types : List (Str × TypeEntry)) (impls : List (Str × Str))
    (hp : st.pkgs pkg = .component url types impls) (hnew : st.schema.components.contains url = false)
    (h : lsImport st pkg = .ok st') :
    ∃ sch, types.foldlM (addStep impls) { st.schema with components := st.schema.components ++ [url] } = .ok sch ∧
      st' = { st with schema := sch, privateSchema := true } := by
  rw [lsImport_component st pkg url types impls hp, hnew] at h
  simp only [Bool.false_eq_true, if_false] at h
  obtain ⟨sch, h1, h2⟩ := map_ok_inv h
  exact ⟨sch, h1, h2.symm⟩

/-- whatever is imported, only the schema and the "private copy" flag of the load change -/
theorem lsImport_frame (st st' : LS) (pkg : Str) (h : lsImport st pkg = .ok st') :
    st'.stack = st.stack ∧ st'.handlers = st.handlers ∧ st'.pkgs = st.pkgs ∧ st'.conv = st.conv ∧
      st'.privateSchema = true := by
  cases hp : st.pkgs pkg with
  | component url types impls =>
    rw [lsImport_component st pkg url types impls hp] at h
    split at h
    · cases h; exact ⟨rfl, rfl, rfl, rfl, rfl⟩
    · obtain ⟨sch, _, rfl⟩ := map_ok_inv h
      exact ⟨rfl, rfl, rfl, rfl, rfl⟩
  | notImportable => unfold lsImport at h; rw [hp] at h; cases h
  | notPackage => unfold lsImport at h; rw [hp] at h; cases h
  | noComponent => unfold lsImport at h; rw [hp] at h; cases h
  | illegalName => unfold lsImport at h; rw [hp] at h; cases h

/-- the component list after a successful `%import` of a component: the old list, plus the component's URL if new -/
theorem lsImport_components (st st' : LS) (pkg url : Str) (types : List (Str × TypeEntry)) (impls : List (Str × Str))
    (hp : st.pkgs pkg = .component url types impls) (h : lsImport st pkg = .ok st') :
    st'.schema.components = if st.schema.components.contains url then st.schema.components
      else st.schema.components ++ [url] := by
  rw [lsImport_component st pkg url types impls hp] at h
  split at h
  · rename_i hc
    cases h
    simp only [hc, if_true]
  · rename_i hc
    obtain ⟨sch, h1, rfl⟩ := map_ok_inv h
    rw [if_neg hc]
    exact (Ext_fold impls types _ _ h1).comps

end ZCV.Cfg
