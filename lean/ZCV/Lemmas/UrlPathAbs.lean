import ZCV.Lemmas.UrlPathTop
/-! `urljoin` with a reference that starts at the root: an absolute path or a whole `file:///` URL. -/
namespace ZCV.UrlPath
open ZCV
open ZCV.UrlPathSpec (step normalize resolve isName render segments)

/-- `urljoin("file://" + abspath, ref)` when `ref` parses (with default scheme `file`) to a bare non-empty path `p` -/
theorem up_join_file_parsed (t r p : Str) (ht : ∀ c ∈ t, cleanChar c = true) (hrne : r ≠ [])
    (hparse : urlparse r fileScheme = ⟨fileScheme, [], p, [], [], []⟩) (hp : p ≠ []) :
    join (fileSlashes ++ '/' :: t) r = urlunparse ⟨fileScheme, [], mergePath ('/' :: t) p, [], [], []⟩ := by
  unfold join
  have hb : (fileSlashes ++ '/' :: t == []) = false := by simp [fileSlashes]
  have hr : (r == []) = false := by simpa using hrne
  have hp' : (p == []) = false := by simpa using hp
  have h1 : usesNetloc.contains fileScheme = true := by decide
  have h2 : usesRelative.contains fileScheme = true := by decide
  simp only [hb, hr, hp', Bool.false_eq_true, ↓reduceIte, up_urlparse_file t [] ht, hparse,
    bne_self_eq_false, h1, h2, Bool.not_true, Bool.or_self, Bool.and_false, Bool.false_and]

theorem up_normalize_name_last (xs : List Str) (l : Str) (h : isName l = true) :
    normalize (xs ++ [l]) = normalize xs ++ [l] := by
  unfold normalize
  rw [List.foldl_append, List.foldl_cons, List.foldl_nil, up_step_name _ _ h]

theorem up_normalize_nil_cons (xs : List Str) : normalize ([] :: xs) = normalize xs := by
  unfold normalize
  rw [List.foldl_cons, up_step_nil]

/-- the path part when the reference path starts at the root, has no empty segment and ends with a name:
    the base path plays no role, the reference's own segments are normalised -/
theorem up_merge_abs (bp : Str) (mid : List Str) (l : Str)
    (hm : ∀ s ∈ mid ++ [l], ∀ c ∈ s, segChar c = true) (hmne : ∀ s ∈ mid, s ≠ []) (hl : isName l = true) :
    urlunparse ⟨fileScheme, [], mergePath bp ('/' :: joinWith '/' (mid ++ [l])), [], [], []⟩ =
      fileSlashes ++ '/' :: joinWith '/' (normalize (mid ++ [l])) := by
  have hl' := hl
  unfold isName at hl'
  simp only [Bool.and_eq_true, bne_iff_ne, ne_eq] at hl'
  have hns : ∀ s ∈ mid ++ [l], '/' ∉ s := fun s hs hmem => up_segChar_ne_slash _ (hm s hs _ hmem) rfl
  have hseg : mergeSegments bp ('/' :: joinWith '/' (mid ++ [l])) = filterMiddle (([] :: []) ++ (mid ++ [l])) := by
    unfold mergeSegments
    rw [if_pos (by rfl), up_splitOn_cons_sep, up_splitOn_joinWith '/' _ (by simp) hns]
    have e : ([] :: []) ++ (mid ++ [l]) = [] :: (mid ++ [l]) := rfl
    rw [e, up_filterMiddle, List.filter_eq_self.2 (by intro s hs; simpa using hmne s hs)]
  obtain ⟨m, hrel, hrd⟩ := up_removeDots_rel [] mid l hl
  unfold mergePath
  rw [hseg, hrd, up_normalize_name_last _ _ hl]
  rw [List.nil_append] at hrel
  apply up_render_rel
  · rcases hrel with h | h
    · left; rw [h]; rfl
    · right; rw [h]
  · simp
  · intro x hx
    simp only [List.mem_append, List.mem_cons, List.not_mem_nil, or_false] at hx
    rcases hx with hx | rfl
    · obtain ⟨hmem, hname⟩ := up_normalize_names _ x hx
      exact ⟨hmne x hmem, hns x (by simp [hmem])⟩
    · exact ⟨hl'.1.1, hns x (by simp)⟩

/-- an absolute-path reference (URL text) replaces the base path -/
theorem up_join_abs_segments (t : Str) (mid : List Str) (l : Str) (ht : ∀ c ∈ t, cleanChar c = true)
    (hm : ∀ s ∈ mid ++ [l], ∀ c ∈ s, segChar c = true) (hmne : ∀ s ∈ mid, s ≠ []) (hl : isName l = true) :
    join (fileSlashes ++ '/' :: t) ('/' :: joinWith '/' (mid ++ [l])) =
      fileSlashes ++ '/' :: joinWith '/' (normalize (mid ++ [l])) := by
  have hl' := hl
  unfold isName at hl'
  simp only [Bool.and_eq_true, bne_iff_ne, ne_eq] at hl'
  have hc : ∀ c ∈ '/' :: joinWith '/' (mid ++ [l]), cleanChar c = true := by
    intro c hc
    simp only [List.mem_cons] at hc
    rcases hc with rfl | hc
    · exact up_cleanChar_slash
    · exact up_joinWith_clean _ hm c hc
  -- the first segment is not empty: no `//`
  have hnl : ('/' :: joinWith '/' (mid ++ [l])).take 2 ≠ ['/', '/'] := by
    have hfirst : ∃ c a rest, mid ++ [l] = (c :: a) :: rest ∧ c ≠ '/' := by
      cases mid with
      | nil =>
        cases l with
        | nil => exact absurd rfl hl'.1.1
        | cons c a => exact ⟨c, a, [], rfl, up_segChar_ne_slash c (hm (c :: a) (by simp) c (by simp))⟩
      | cons x mid' =>
        cases x with
        | nil => exact absurd rfl (hmne [] (by simp))
        | cons c a => exact ⟨c, a, mid' ++ [l], rfl, up_segChar_ne_slash c (hm (c :: a) (by simp) c (by simp))⟩
    obtain ⟨c, a, rest, he, hcne⟩ := hfirst
    obtain ⟨w, hw⟩ := up_joinWith_head c a rest
    rw [he, hw]
    simp [hcne]
  rw [up_join_file_ref t _ ht (by simp) (by intro c hh; simp only [List.head?_cons, Option.some.injEq] at hh; subst hh; decide)
    hc (by rw [List.takeWhile_cons_of_neg (by decide)]; simp) hnl]
  exact up_merge_abs _ mid l hm hmne hl

/-- a whole `file:///` URL as reference replaces the base -/
theorem up_join_url_segments (t : Str) (mid : List Str) (l : Str) (ht : ∀ c ∈ t, cleanChar c = true)
    (hm : ∀ s ∈ mid ++ [l], ∀ c ∈ s, segChar c = true) (hmne : ∀ s ∈ mid, s ≠ []) (hl : isName l = true) :
    join (fileSlashes ++ '/' :: t) (fileSlashes ++ '/' :: joinWith '/' (mid ++ [l])) =
      fileSlashes ++ '/' :: joinWith '/' (normalize (mid ++ [l])) := by
  rw [up_join_file_parsed t _ ('/' :: joinWith '/' (mid ++ [l])) ht (by simp [fileSlashes])
    (up_urlparse_file _ _ (up_joinWith_clean _ hm)) (by simp)]
  exact up_merge_abs _ mid l hm hmne hl

end ZCV.UrlPath
