import ZCV.Spec.SchemaRules
import ZCV.Lemmas.ElabRulesDoc
import ZCV.Lemmas.ElabExpandElem
import ZCV.Lemmas.ElabNoIntVisit
/-!
C10, completeness ("every document that satisfies the rules is accepted"), step 1: each attribute-level rule of
`ZCV/Spec/SchemaRules.lean` makes the corresponding helper of the loader model succeed, with the value the signature
functions of the specification predict.
-/
namespace ZCV.SchemaRules
open ZCV ZCV.Elab
open ZCV.Cfg (VI SectInfo Default)

/-! ### datatype names -/

theorem resolve_regGet {env : Env} {name c : Str} (h : resolve env name = some c) : regGet env name = .ok c := by
  unfold resolve at h
  by_cases hd : name.contains '.' = true
  · rw [if_pos hd] at h
    cases hx : env.dotted name with
    | found c' =>
      rw [hx] at h
      injection h with h
      subst h
      exact (regGet_cases env name).2.2.2.2.1 c' hd hx
    | valueError => rw [hx] at h; cases h
    | raises e => rw [hx] at h; cases h
  · rw [if_neg hd] at h
    have hd' : name.contains '.' = false := by simpa using hd
    split at h
    · rename_i hc
      injection h with h
      subst h
      simp only [Bool.and_eq_true] at hc
      exact (regGet_cases env name).2.2.1 hd' hc.1 hc.2
    · cases h

theorem regGet_resolve {env : Env} {name c : Str} (h : regGet env name = .ok c) : resolve env name = some c := by
  unfold resolve
  by_cases hd : name.contains '.' = true
  · rw [if_pos hd]
    cases hx : env.dotted name with
    | found c' =>
      rw [(regGet_cases env name).2.2.2.2.1 c' hd hx] at h
      injection h with h
      rw [h]
    | valueError => rw [(regGet_cases env name).2.2.2.1 hd hx] at h; cases h
    | raises e => rw [(regGet_cases env name).2.2.2.2.2 e hd hx] at h; cases h
  · rw [if_neg hd]
    have hd' : name.contains '.' = false := by simpa using hd
    cases hb : DTSpec.isBasicKey name with
    | false => rw [(regGet_cases env name).1 hd' hb] at h; cases h
    | true =>
      cases hs : Gen.stockNames.contains (asciiLower name) with
      | false => rw [(regGet_cases env name).2.1 hd' hb hs] at h; cases h
      | true =>
        rw [(regGet_cases env name).2.2.1 hd' hb hs] at h
        injection h with h
        simp [h]

theorem regGet_basicKey (env : Env) : regGet env "basic-key".toList = .ok "basic-key".toList :=
  regGet_stock env _ (by decide) (by decide) (by decide +kernel)
theorem regGet_string (env : Env) : regGet env "string".toList = .ok "string".toList :=
  regGet_stock env _ (by decide) (by decide) (by decide +kernel)
theorem regGet_null (env : Env) : regGet env "null".toList = .ok "null".toList :=
  regGet_stock env _ (by decide) (by decide) (by decide +kernel)

theorem getClassname_eq {st : PSt} {pfx : Str} {ps : List Str} (hp : st.prefixes = pfx :: ps) (v : Str) :
    getClassname st v = .ok (classname pfx v) := by
  unfold getClassname classname
  rw [hp]
  split <;> rfl

/-- the value `get_datatype` returns for a rule-abiding attribute -/
def dtValue (env : Env) (pfx : Str) (a : Attrs) (k : String) (fallback : Str) : Str :=
  match attr a k with
  | some v => (resolve env (classname pfx v)).getD []
  | none => fallback

theorem getDatatype_of_rules {env : Env} {st : PSt} {pfx : Str} {ps : List Str} {a : Attrs} {k dflt : String}
    {d : Str} (base : Option Str) (hp : st.prefixes = pfx :: ps) (hd : regGet env dflt.toList = .ok d)
    (h : dtAttrOK env pfx a k = true) :
    getDatatype env st a k dflt base = .ok (dtValue env pfx a k (base.getD d)) := by
  unfold dtAttrOK at h
  unfold getDatatype dtValue
  cases ha : attr a k with
  | none =>
    simp only
    cases base with
    | none => simpa using hd
    | some b => rfl
  | some v =>
    rw [ha] at h
    simp only [getClassname_eq hp, bind, Except.bind]
    cases hr : resolve env (classname pfx v) with
    | none => simp [hr] at h
    | some c => rw [resolve_regGet hr]; rfl

theorem keytypeOf_eq (env : Env) (pfx : Str) (a : Attrs) (base : Option Str) :
    keytypeOf env pfx a base = dtValue env pfx a "keytype" (base.getD "basic-key".toList) := rfl

theorem getSectTypeinfo_of_rules {env : Env} {st : PSt} {pfx : Str} {ps : List Str} {a : Attrs}
    (base : Option (Str × Str)) (hp : st.prefixes = pfx :: ps)
    (h1 : dtAttrOK env pfx a "keytype" = true) (h2 : dtAttrOK env pfx a "valuetype" = true)
    (h3 : dtAttrOK env pfx a "datatype" = true) :
    ∃ dt, getSectTypeinfo env st a base = .ok (keytypeOf env pfx a (base.map (·.1)), dt) := by
  unfold getSectTypeinfo
  rw [getDatatype_of_rules (base.map (·.1)) hp (regGet_basicKey env) h1,
    getDatatype_of_rules none hp (regGet_string env) h2,
    getDatatype_of_rules (base.map (·.2)) hp (regGet_null env) h3]
  exact ⟨_, rfl⟩

/-! ### `handler`, `required` -/

theorem getHandler_of_rules {a : Attrs} (h : handlerOK a = true) : ∃ r, getHandler a = .ok r := by
  unfold handlerOK at h
  unfold getHandler
  cases ha : attr a "handler" with
  | none => exact ⟨none, rfl⟩
  | some v =>
    rw [ha] at h
    simp only at h ⊢
    rw [basicKeyE_eq, if_pos h]
    exact ⟨_, rfl⟩

theorem getRequired_of_rules {a : Attrs} (h : requiredOK a = true) : getRequired a = .ok (isRequired a) := by
  unfold requiredOK at h
  unfold isRequired
  rw [getRequired_eq]
  cases ha : attr a "required" with
  | none => rfl
  | some v =>
    rw [ha] at h
    simp only [Bool.or_eq_true, beq_iff_eq] at h
    simp only
    rcases h with h | h
    · subst h; rfl
    · subst h; rfl

/-! ### prefixes -/

theorem isDottedName_head {c : Char} {cs : Str} (h : DTSpec.isDottedName (c :: cs) = true) : c ≠ '.' := by
  intro hc
  subst hc
  simp [DTSpec.isDottedName, DTSpec.splitDots, DTSpec.isIdent] at h

theorem pushPrefix_of_rules_top {st : PSt} {a : Attrs} (hp : st.prefixes = []) (h : prefixOK none a = true) :
    pushPrefix st a = .ok { st with prefixes := [prefixOf none a] } := by
  unfold prefixOK at h
  unfold prefixOf
  cases ha : attr a "prefix" with
  | none =>
    rw [pushPrefix_none st a (by rw [ha]; rfl), hp]; rfl
  | some v =>
    cases v with
    | nil => rw [pushPrefix_none st a (by rw [ha]; rfl), hp]; rfl
    | cons c cs =>
      rw [ha] at h
      simp only [Option.isNone_none, ↓reduceIte] at h
      have hc := isDottedName_head h
      rw [pushPrefix_absolute st a c cs ha hc (by rw [hp]; exact h), hp]
      simp [hc]

theorem pushPrefix_of_rules_inner {st : PSt} {a : Attrs} {p : Str} {ps : List Str} (hp : st.prefixes = p :: ps)
    (h : prefixOK (some p) a = true) :
    pushPrefix st a = .ok { st with prefixes := prefixOf (some p) a :: st.prefixes } := by
  unfold prefixOK at h
  unfold prefixOf
  cases ha : attr a "prefix" with
  | none =>
    rw [pushPrefix_none st a (by rw [ha]; rfl), hp]; rfl
  | some v =>
    cases v with
    | nil => rw [pushPrefix_none st a (by rw [ha]; rfl), hp]; rfl
    | cons c cs =>
      rw [ha] at h
      simp only [Option.isNone_some, Bool.false_eq_true, ↓reduceIte] at h
      by_cases hc : c = '.'
      · subst hc
        rw [pushPrefix_relative st a cs p ps ha hp h]
        simp
      · rw [pushPrefix_absolute st a c cs ha hc (by rw [hp]; exact h)]
        simp [hc]

/-! ### names -/

theorem isWild_iff (n : Str) : isWild n = true ↔ n = ['*'] ∨ n = ['+'] := anyNames_iff n

theorem effName_nameOf {a : Attrs} {dflt : Option Str} (h : nameGiven a dflt = true) :
    effName a dflt = some (nameOf a dflt) ∧ nameOf a dflt ≠ [] := by
  unfold nameGiven at h
  have hne : nameOf a dflt ≠ [] := by
    intro he; rw [he] at h; cases h
  refine ⟨?_, hne⟩
  unfold effName
  unfold nameOf at hne ⊢
  cases ha : attr a "name" with
  | some v => rfl
  | none =>
    rw [ha] at hne
    cases dflt with
    | none => exact absurd rfl hne
    | some d => rfl

theorem attrNameE_of_rules {a : Attrs} (h : attributeWF a = true) : attrNameE a = .ok (givenAttr a) := by
  unfold attributeWF at h
  unfold attrNameE givenAttr at *
  cases ha : attr a "attribute" with
  | none => rfl
  | some v =>
    cases v with
    | nil => rfl
    | cons c cs =>
      rw [ha] at h
      simp only [Bool.and_eq_true, Bool.not_eq_true'] at h
      simp only [h.1, h.2, ↓reduceIte, Bool.false_eq_true]

theorem givenAttr_ne_nil {a : Attrs} {x : Str} (h : givenAttr a = some x) : x ≠ [] := by
  unfold givenAttr at h
  split at h
  · injection h with h; subst h; simp
  · cases h

/-- the result of `get_name_info` for a rule-abiding element -/
def nameInfoOf (env : Env) (kt : Str) (a : Attrs) (dflt : Option Str) : Option Str × Option Str × Option Str :=
  let n := nameOf a dflt
  let nm := (storedName env kt n).getD []
  if isWild n then (some n, none, some (attrOf a nm)) else (none, some nm, some (attrOf a nm))

theorem getNameInfo_of_rules {env : Env} {st : PSt} {kt : Str} {a : Attrs} {dflt : Option Str}
    (hkt : topKeytype st = .ok kt) (h1 : nameGiven a dflt = true) (h2 : attributeWF a = true)
    (h3 : wildHasAttr a (nameOf a dflt) = true) (h4 : fixedNameOK env kt a (nameOf a dflt) = true) :
    getNameInfo env st a dflt = .ok (nameInfoOf env kt a dflt) := by
  obtain ⟨hn, hne⟩ := effName_nameOf h1
  have hA := attrNameE_of_rules h2
  unfold nameInfoOf
  by_cases hw : isWild (nameOf a dflt) = true
  · simp only [hw, ↓reduceIte]
    unfold wildHasAttr at h3
    simp only [hw, Bool.not_true, Bool.false_or] at h3
    cases hg : givenAttr a with
    | none => rw [hg] at h3; cases h3
    | some x =>
      rw [hg] at hA
      rw [getNameInfo_wild_attr env st a dflt _ x hn ((isWild_iff _).1 hw) hA]
      simp only [attrOf, hg, Option.getD_some]
  · have hw' : isWild (nameOf a dflt) = false := by simpa using hw
    simp only [hw', Bool.false_eq_true, ↓reduceIte]
    unfold fixedNameOK at h4
    simp only [hw', Bool.false_or] at h4
    have hnw : ¬ (nameOf a dflt = ['*'] ∨ nameOf a dflt = ['+']) := fun hc => hw ((isWild_iff _).2 hc)
    cases hs : storedName env kt (nameOf a dflt) with
    | none => rw [hs] at h4; cases h4
    | some nm =>
      rw [hs] at h4
      simp only at h4
      have hconv : convKeyName env kt (nameOf a dflt) = .ok nm := by
        unfold storedName at hs
        rw [hw'] at hs
        simp only [Bool.false_eq_true, ↓reduceIte] at hs
        cases hk : env.conv.key kt (nameOf a dflt) with
        | ok r =>
          rw [hk] at hs
          injection hs with hs
          subst hs
          exact (convKeyName_cases env kt _).1 r hk
        | error e => rw [hk] at hs; cases hs
      simp only [Option.getD_some]
      cases hg : givenAttr a with
      | some x =>
        rw [hg] at hA
        rw [getNameInfo_fixed env st a dflt _ kt nm (some x) hn hne hnw hA hkt hconv]
        simp only [attrOf, hg, Option.getD_some]
      | none =>
        rw [hg] at hA
        rw [getNameInfo_fixed env st a dflt _ kt nm none hn hne hnw hA hkt hconv]
        rw [hg] at h4
        simp only [Option.isSome_none, Bool.false_or, Bool.and_eq_true] at h4
        simp only [basicKeyE_eq, h4.1, ↓reduceIte, bind, Except.bind]
        have : (asciiLower nm).map (fun ch => if ch == '-' then '_' else ch) = derivedAttr nm := rfl
        rw [this, identifierE_eq, if_pos h4.2]
        simp only [attrOf, hg, Option.getD_none]
        rfl

/-- the attribute name of a rule-abiding named element is not empty -/
theorem attrOf_ne_nil {env : Env} {kt : Str} {a : Attrs} {n : Str}
    (h3 : wildHasAttr a n = true) (h4 : fixedNameOK env kt a n = true) :
    attrOf a ((storedName env kt n).getD []) ≠ [] := by
  unfold attrOf
  cases hg : givenAttr a with
  | some x => simpa using givenAttr_ne_nil hg
  | none =>
    simp only [Option.getD_none]
    unfold wildHasAttr at h3
    rw [hg] at h3
    simp only [Option.isSome_none, Bool.or_false, Bool.not_eq_true'] at h3
    unfold fixedNameOK at h4
    rw [h3, hg] at h4
    simp only [Bool.false_or] at h4
    cases hs : storedName env kt n with
    | none => rw [hs] at h4; cases h4
    | some nm =>
      rw [hs] at h4
      simp only [Option.isSome_none, Bool.false_or, Bool.and_eq_true] at h4
      exact isIdent_ne_nil h4.2

end ZCV.SchemaRules
