import ZCV.Lemmas.Grammar
import ZCV.Lemmas.Include
import ZCV.Lemmas.NestingTree
/-!
The parser model (`stepLine`/`parseLines` driving the recording context `rec0`) follows the stack discipline of
`ZCV.Lemmas.NestingTree` on texts of `Plain` lines: same stack of open sections, same events, and a syntax error at
the very line where the discipline gets stuck (or at the end of the text, for sections left open).
-/
namespace ZCV.Nesting
open ZCV ZCV.Cfg

/-- the recorded events are the spec's events -/
def toEv : Ev0 → Nesting.Ev
  | .start t n => .start t n
  | .stop t n => .stop t n
  | .value k v => .value k v
  | .imp p => .imp p

/-- the `AttributeError` arm of `handle_directive` is dead: every accepted directive name has a handler -/
theorem lineShape_ne_internal (l : Str) (e : String) : lineShape l ≠ .internal e := by
  intro h
  unfold lineShape at h
  repeat' split at h
  all_goals first | cases h | skip
  all_goals dsimp only at h
  all_goals repeat' split at h
  all_goals first | cases h | skip
  rename_i h4 h3 h2 h1 _
  rw [directives_eq] at h4
  simp only [String.reduceToList, ↓Char.isValue, List.contains_eq_mem, List.mem_cons, List.not_mem_nil,
    or_false, Bool.decide_or, Bool.not_or, Bool.and_eq_true, Bool.not_eq_eq_eq_not, Bool.not_true,
    decide_eq_false_iff_not, not_and, Decidable.not_not, beq_iff_eq] at h4 h3 h2 h1
  exact h1 (h4 h3 h2)

/-- `Plain`, read off the classification of the line -/
def plainShape : Grammar.Shape → Bool
  | .define _ => false
  | .include_ _ => false
  | .kv _ v => !v.contains '$'
  | .import_ a => !a.contains '$'
  | _ => true

theorem plain_iff (l : Str) : Plain l ↔ '\n' ∉ l ∧ plainShape (Grammar.classify l) = true := by
  constructor
  · intro h
    refine ⟨h.nonl, ?_⟩
    cases hc : Grammar.classify l with
    | define a => exact absurd hc (h.nodef a)
    | include_ a => exact absurd hc (h.noinc a)
    | kv k v => simpa only [plainShape, Bool.not_eq_true', List.contains_eq_mem, decide_eq_false_iff_not] using h.kvd k v hc
    | import_ a => simpa only [plainShape, Bool.not_eq_true', List.contains_eq_mem, decide_eq_false_iff_not] using h.impd a hc
    | _ => rfl
  · rintro ⟨h1, h2⟩
    refine ⟨h1, fun a hc => ?_, fun a hc => ?_, fun k v hc => ?_, fun a hc => ?_⟩
    · rw [hc] at h2; cases h2
    · rw [hc] at h2; cases h2
    · rw [hc] at h2; simpa only [plainShape, Bool.not_eq_true', List.contains_eq_mem, decide_eq_false_iff_not] using h2
    · rw [hc] at h2; simpa only [plainShape, Bool.not_eq_true', List.contains_eq_mem, decide_eq_false_iff_not] using h2

theorem shapes_nil : shapes [] = [] := rfl

theorem shapes_cons_skip {l : Str} (rest : List Str) (h : Grammar.classify l = .skip) : shapes (l :: rest) = shapes rest := by
  simp [shapes, h]

theorem shapes_cons {l : Str} (rest : List Str) (h : Grammar.classify l ≠ .skip) :
    shapes (l :: rest) = Grammar.classify l :: shapes rest := by
  simp [shapes, h]

theorem shapes_append (a b : List Str) : shapes (a ++ b) = shapes a ++ shapes b := by
  simp [shapes]

/-- one `Plain` line: skipped, or one move of the stack discipline, or a syntax error on this line -/
theorem step_sim (fuel : Nat) (env : Env) (active : List Str) (url : Option Str) (line : Nat) (l : Str)
    (hp : Plain l) (st : PS (List Ev0)) :
    (Grammar.classify l = .skip → stepLine fuel env rec0 active url line (strip l) st = .ok st) ∧
    (Grammar.classify l ≠ .skip →
      (∀ S' E, mstep st.stack (Grammar.classify l) = some (S', E) →
        ∃ st', stepLine fuel env rec0 active url line (strip l) st = .ok st' ∧ st'.stack = S' ∧
          st'.ctx.map toEv = st.ctx.map toEv ++ E ∧ st'.defs = st.defs) ∧
      (mstep st.stack (Grammar.classify l) = none →
        ∃ e, stepLine fuel env rec0 active url line (strip l) st = .error (.cfg e) ∧ e.kind = .syntax ∧
          e.line = some (line : Int) ∧ e.url = url)) := by
  have hc := lineShape_eq_classify l hp.nonl
  cases hs : lineShape (strip l) with
  | skip =>
    rw [hs] at hc
    simp only [toSpec] at hc
    refine ⟨fun _ => ?_, fun h => absurd hc.symm h⟩
    rw [stepLine]; simp only [hs]
  | bad t =>
    rw [hs] at hc
    simp only [toSpec] at hc
    rw [← hc]
    refine ⟨fun h => (by cases h), fun _ => ⟨fun S' E h => (by simp only [mstep] at h; cases h), fun _ => ?_⟩⟩
    rw [stepLine]; simp only [hs]
    exact ⟨_, rfl, rfl, rfl, rfl⟩
  | internal t => exact absurd hs (lineShape_ne_internal _ _)
  | define a =>
    rw [hs] at hc
    exact absurd hc.symm (hp.nodef a)
  | include_ a =>
    rw [hs] at hc
    exact absurd hc.symm (hp.noinc a)
  | close ty =>
    rw [hs] at hc
    simp only [toSpec] at hc
    rw [← hc]
    refine ⟨fun h => (by cases h), fun _ => ?_⟩
    rw [stepLine]; simp only [hs]
    rw [closeSection_rec0]
    cases hst : st.stack with
    | nil =>
      refine ⟨fun S' E h => (by simp only [mstep] at h; cases h), fun _ => ⟨_, rfl, rfl, rfl, rfl⟩⟩
    | cons f T =>
      obtain ⟨ot, nm⟩ := f
      simp only [mstep]
      by_cases hty : ty = ot
      · subst hty
        simp only [if_true, bne_self_eq_false, Bool.false_eq_true, if_false]
        refine ⟨fun S' E h => ?_, fun h => by cases h⟩
        simp only [Option.some.injEq, Prod.mk.injEq] at h
        obtain ⟨rfl, rfl⟩ := h
        exact ⟨_, rfl, rfl, by simp only [List.map_append, List.map_cons, List.map_nil, toEv], rfl⟩
      · have hb : (ty != ot) = true := by simp only [bne_iff_ne, ne_eq, hty, not_false_eq_true]
        simp only [hty, if_false, hb, if_true]
        exact ⟨fun S' E h => (by cases h), fun _ => ⟨_, rfl, rfl, rfl, rfl⟩⟩
  | open_ ty nm e =>
    rw [hs] at hc
    simp only [toSpec] at hc
    rw [← hc]
    refine ⟨fun h => (by cases h), fun _ => ⟨fun S' E h => ?_, fun h => ?_⟩⟩
    · rw [stepLine]; simp only [hs]
      rw [openSection_rec0]
      cases e with
      | true =>
        simp only [mstep, Option.some.injEq, Prod.mk.injEq] at h
        obtain ⟨rfl, rfl⟩ := h
        exact ⟨_, rfl, rfl, by simp only [if_true, List.map_append, List.map_cons, List.map_nil, toEv, List.append_assoc,
          List.cons_append, List.nil_append], rfl⟩
      | false =>
        simp only [mstep, Option.some.injEq, Prod.mk.injEq] at h
        obtain ⟨rfl, rfl⟩ := h
        exact ⟨_, rfl, rfl, by simp only [Bool.false_eq_true, if_false, List.map_append, List.map_cons, List.map_nil, toEv],
          rfl⟩
    · cases e <;> simp only [mstep] at h <;> cases h
  | kv k raw =>
    rw [hs] at hc
    simp only [toSpec] at hc
    rw [← hc]
    refine ⟨fun h => (by cases h), fun _ => ⟨fun S' E h => ?_, fun h => by simp only [mstep] at h; cases h⟩⟩
    simp only [mstep, Option.some.injEq, Prod.mk.injEq] at h
    obtain ⟨rfl, rfl⟩ := h
    rw [stepLine]; simp only [hs]
    rw [keyValue_eq]
    have hv : (if raw == [] then (pure [] : M Str) else replace env st.defs url line raw) = .ok raw := by
      split
      · rename_i hr
        have : raw = [] := by simpa using hr
        rw [this]; rfl
      · exact replace_nodollar _ _ _ _ _ (hp.kvd k raw hc.symm)
    rw [hv, ok_bind, kvCore_rec0]
    exact ⟨_, rfl, rfl, by simp only [List.map_append, List.map_cons, List.map_nil, toEv], rfl⟩
  | import_ a =>
    rw [hs] at hc
    simp only [toSpec] at hc
    rw [← hc]
    refine ⟨fun h => (by cases h), fun _ => ⟨fun S' E h => ?_, fun h => by simp only [mstep] at h; cases h⟩⟩
    simp only [mstep, Option.some.injEq, Prod.mk.injEq] at h
    obtain ⟨rfl, rfl⟩ := h
    rw [stepLine_import _ _ _ _ _ _ _ _ _ hs]
    unfold impStep
    rw [replace_nodollar _ _ _ _ _ (fun hm => hp.impd a hc.symm (mem_strip hm)), ok_bind]
    exact ⟨_, rfl, rfl, by simp only [List.map_append, List.map_cons, List.map_nil, toEv], rfl⟩

theorem mrun_single (S : List Frame) (x : Grammar.Shape) : mrun S [x] = (mstep S x).map fun p => (p.1, p.2) := by
  rw [mrun_cons]
  cases mstep S x with
  | none => rfl
  | some p => simp only [Option.bind_some, mrun_nil, Option.map_some, List.append_nil]

/-- a text of `Plain` lines, without the end-of-text check: the parser follows the stack discipline; where the discipline
    gets stuck — at the `k+1`-th line — the parser raises a syntax error carrying that line number -/
theorem run_sim (fuel : Nat) (env : Env) (active : List Str) (url : Option Str) :
    ∀ (lines : List Str) (n : Nat) (st : PS (List Ev0)), (∀ l ∈ lines, Plain l) →
      (∀ S' E, mrun st.stack (shapes lines) = some (S', E) →
        ∃ st', runLines fuel env rec0 active url lines n st = .ok st' ∧ st'.stack = S' ∧
          st'.ctx.map toEv = st.ctx.map toEv ++ E ∧ st'.defs = st.defs) ∧
      (mrun st.stack (shapes lines) = none →
        ∃ e k, runLines fuel env rec0 active url lines n st = .error (.cfg e) ∧ e.kind = .syntax ∧ e.url = url ∧
          k < lines.length ∧ e.line = some ((n + k + 1 : Nat) : Int) ∧
          (mrun st.stack (shapes (lines.take k))).isSome = true ∧
          mrun st.stack (shapes (lines.take (k + 1))) = none) := by
  intro lines
  induction lines with
  | nil =>
    intro n st _
    refine ⟨fun S' E h => ?_, fun h => by cases h⟩
    simp only [shapes_nil, mrun_nil, Option.some.injEq, Prod.mk.injEq] at h
    obtain ⟨rfl, rfl⟩ := h
    exact ⟨st, rfl, rfl, by simp only [List.append_nil], rfl⟩
  | cons l rest ih =>
    intro n st hp
    have hpl : Plain l := hp l (List.mem_cons_self)
    have hpr : ∀ x ∈ rest, Plain x := fun x hx => hp x (List.mem_cons_of_mem _ hx)
    obtain ⟨hskip, hstep⟩ := step_sim fuel env active url (n + 1) l hpl st
    by_cases hc : Grammar.classify l = .skip
    · -- a skipped line
      have h1 := hskip hc
      obtain ⟨ihok, iherr⟩ := ih (n + 1) st hpr
      rw [shapes_cons_skip rest hc]
      refine ⟨fun S' E h => ?_, fun h => ?_⟩
      · obtain ⟨st', hr, h2⟩ := ihok S' E h
        refine ⟨st', ?_, h2⟩
        simp only [runLines, h1, ok_bind, hr]
      · obtain ⟨e, k, hr, hk, hu, hlt, hline, hsome, hnone⟩ := iherr h
        refine ⟨e, k + 1, ?_, hk, hu, by simp only [List.length_cons]; omega, ?_, ?_, ?_⟩
        · simp only [runLines, h1, ok_bind, hr]
        · rw [hline]; congr 2; omega
        · rw [List.take_succ_cons, shapes_cons_skip _ hc]; exact hsome
        · rw [List.take_succ_cons, shapes_cons_skip _ hc]; exact hnone
    · -- a line that counts
      obtain ⟨hok, herr⟩ := hstep hc
      rw [shapes_cons rest hc, mrun_cons]
      cases hm : mstep st.stack (Grammar.classify l) with
      | none =>
        refine ⟨fun S' E h => (by cases h), fun _ => ?_⟩
        obtain ⟨e, he, hk, hline, hu⟩ := herr hm
        refine ⟨e, 0, ?_, hk, hu, by simp only [List.length_cons]; omega, ?_, rfl, ?_⟩
        · simp only [runLines, he]; rfl
        · rw [hline]
        · rw [List.take_succ_cons, List.take_zero, shapes_cons _ hc, shapes_nil, mrun_single, hm]; rfl
      | some p =>
        obtain ⟨S1, E1⟩ := p
        obtain ⟨st1, h1, hS1, hE1, hd1⟩ := hok S1 E1 hm
        obtain ⟨ihok, iherr⟩ := ih (n + 1) st1 hpr
        rw [hS1] at ihok iherr
        simp only [Option.bind_some]
        refine ⟨fun S' E h => ?_, fun h => ?_⟩
        · cases hr : mrun S1 (shapes rest) with
          | none => rw [hr] at h; cases h
          | some q =>
            rw [hr] at h
            simp only [Option.map_some, Option.some.injEq, Prod.mk.injEq] at h
            obtain ⟨rfl, rfl⟩ := h
            obtain ⟨st', hrun, h2, h3, h4⟩ := ihok q.1 q.2 hr
            refine ⟨st', ?_, h2, ?_, by rw [h4, hd1]⟩
            · simp only [runLines, h1, ok_bind, hrun]
            · rw [h3, hE1, List.append_assoc]
        · have hr : mrun S1 (shapes rest) = none := by
            cases hr : mrun S1 (shapes rest) with
            | none => rfl
            | some q => rw [hr] at h; cases h
          obtain ⟨e, k, hrun, hk, hu, hlt, hline, hsome, hnone⟩ := iherr hr
          refine ⟨e, k + 1, ?_, hk, hu, by simp only [List.length_cons]; omega, ?_, ?_, ?_⟩
          · simp only [runLines, h1, ok_bind, hrun]
          · rw [hline]; congr 2; omega
          · rw [List.take_succ_cons, shapes_cons _ hc, mrun_cons, hm, Option.bind_some]
            cases hq : mrun S1 (shapes (List.take k rest)) with
            | none => rw [hq] at hsome; cases hsome
            | some q => rfl
          · rw [List.take_succ_cons, shapes_cons _ hc, mrun_cons, hm, Option.bind_some, hnone]; rfl

/-- the whole `parse` loop on a text of `Plain` lines: accepted when the stack discipline ends with every section closed;
    "unclosed sections" at the last line number when it ends with sections open; otherwise a syntax error on the line
    where it got stuck -/
theorem parse_sim (fuel : Nat) (env : Env) (active : List Str) (url : Option Str)
    (lines : List Str) (n : Nat) (st : PS (List Ev0)) (hp : ∀ l ∈ lines, Plain l) :
    (∀ E, mrun st.stack (shapes lines) = some ([], E) →
      ∃ st', parseLines fuel env rec0 active url lines n st = .ok st' ∧ st'.stack = [] ∧
        st'.ctx.map toEv = st.ctx.map toEv ++ E ∧ st'.defs = st.defs) ∧
    (∀ S' E, mrun st.stack (shapes lines) = some (S', E) → S' ≠ [] →
      parseLines fuel env rec0 active url lines n st = .error (synErr url (n + lines.length) "unclosed sections")) ∧
    (mrun st.stack (shapes lines) = none →
      ∃ e k, parseLines fuel env rec0 active url lines n st = .error (.cfg e) ∧ e.kind = .syntax ∧ e.url = url ∧
        k < lines.length ∧ e.line = some ((n + k + 1 : Nat) : Int) ∧
        (mrun st.stack (shapes (lines.take k))).isSome = true ∧
        mrun st.stack (shapes (lines.take (k + 1))) = none) := by
  obtain ⟨hok, herr⟩ := run_sim fuel env active url lines n st hp
  rw [parseLines_eq_run]
  refine ⟨fun E h => ?_, fun S' E h hne => ?_, fun h => ?_⟩
  · obtain ⟨st', hr, h1, h2, h3⟩ := hok [] E h
    refine ⟨st', ?_, h1, h2, h3⟩
    rw [hr, ok_bind]
    simp only [finish, h1, bne_self_eq_false, Bool.false_eq_true, if_false]
  · obtain ⟨st', hr, h1, _, _⟩ := hok S' E h
    rw [hr, ok_bind]
    have : (st'.stack != []) = true := by rw [h1]; simpa only [bne_iff_ne, ne_eq] using hne
    simp only [finish, this, if_true]
  · obtain ⟨e, k, hr, h1⟩ := herr h
    refine ⟨e, k, ?_, h1⟩
    rw [hr]; rfl

end ZCV.Nesting
