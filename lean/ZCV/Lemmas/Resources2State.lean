import ZCV.Lemmas.Resources2
/-!
Lemmas about `ZCV/Model/Resources2.lean`, part 2: loads that leave the whole state as it was; loads in which nothing can fail.
-/
namespace ZCV.Res2
open ZCV.Res (Pt)

/-! ## the whole state is as before (configuration loads without a new `%import`) -/

/-- started with component list `C`, the block leaves the state exactly as it found it -/
def Fix (C : List Nat) (g : LState → Out) : Prop := ∀ st, st.comps = C → (g st).st = st

theorem withResource_fix (C : List Nat) (f : Pt → Bool) (o : Opener) (r : Nat) (ex : Bool) (body : LState → Out) (hb : Fix C body) :
    Fix C (withResource f o r ex body) := by
  intro st hc
  unfold withResource
  cases o with
  | url =>
    simp only
    split
    · rfl
    · split
      · rfl
      · split
        · rfl
        · exact hb st hc
  | pkg =>
    simp only
    split
    · rfl
    · exact hb st hc
  | file => exact hb st hc

theorem stepLoop_fix {α : Type} (C : List Nat) (f : Pt → Bool) (r : Nat) (act : α → LState → Out) :
    ∀ (steps : List α) (_ : ∀ s ∈ steps, Fix C (act s)) (k : Nat), Fix C (stepLoop f r act k steps)
  | [], _, k => fun st _ => by simp only [stepLoop]
  | s :: rest, ha, k => fun st hc => by
    have hs : (act s st).st = st := ha s (List.mem_cons_self) st hc
    simp only [stepLoop]
    split
    · rfl
    · split
      · have ih := stepLoop_fix C f r act rest (fun s' h' => ha s' (List.mem_cons_of_mem _ h')) (k + 1) (act s st).st (by rw [hs]; exact hc)
        exact ih.trans hs
      · exact hs

theorem cfgLine_fix (C : List Nat) (rec : Rec) (hr : ∀ c, Fix C (rec .incl c)) (s : CStep) (hs : ∀ c, s = .imp c → c ∈ C) :
    Fix C (cfgLine rec s) := by
  intro st hc
  cases s with
  | work => rfl
  | incl c => exact hr c st hc
  | imp c =>
    have : st.comps.contains c = true := by rw [hc]; exact List.contains_iff_mem.mpr (hs c rfl)
    simp only [cfgLine, this, if_true]

theorem restore_active (st : LState) (r : Nat) :
    ({ ({ st with active := st.active ++ [r] } : LState) with active := (st.active ++ [r]).dropLast } : LState) = st := by
  cases st; simp

theorem parseCfg_fix (C : List Nat) (f : Pt → Bool) (rec : Rec) (hr : ∀ c, Fix C (rec .incl c)) (r : Nat) (doc : Option Doc)
    (hd : ∀ lines c, doc = some (.cfg lines) → CStep.imp c ∈ lines → c ∈ C) : Fix C (parseCfg f rec r doc) := by
  intro st hc
  unfold parseCfg
  split
  · rfl
  · simp only
    split
    · rename_i lines
      have h := stepLoop_fix C f r (cfgLine rec) lines
        (fun s hs => cfgLine_fix C rec hr s (fun c hsc => hd lines c rfl (hsc ▸ hs))) 0 { st with active := st.active ++ [r] } hc
      rw [h]; exact restore_active st r
    · exact restore_active st r

theorem loadCfg_fix (C : List Nat) (f : Pt → Bool) (rec : Rec) (hr : ∀ c, Fix C (rec .incl c)) (r : Nat) (doc : Option Doc)
    (hd : ∀ lines c, doc = some (.cfg lines) → CStep.imp c ∈ lines → c ∈ C) : Fix C (loadCfg f rec r doc) := by
  intro st hc
  unfold loadCfg
  simp only
  split <;> exact parseCfg_fix C f rec hr r doc hd st hc

theorem runRes_incl_fix (f : Pt → Bool) (docs : List (Nat × Doc)) (C : List Nat) (hk : ImportsKnown docs C) :
    ∀ (fuel : Nat) (r : Nat), Fix C (runRes f docs fuel .incl r)
  | 0, _ => fun _ _ => rfl
  | fuel + 1, r =>
    withResource_fix C f _ r _ _ (parseCfg_fix C f _ (runRes_incl_fix f docs C hk fuel) r _ (fun lines c h => hk r lines c h))

theorem runRes_top_fix (f : Pt → Bool) (docs : List (Nat × Doc)) (C : List Nat) (hk : ImportsKnown docs C)
    (fuel : Nat) (file : Bool) (r : Nat) : Fix C (runRes f docs fuel (.top file) r) := by
  cases fuel with
  | zero => exact fun _ _ => rfl
  | succ fuel =>
    exact withResource_fix C f _ r _ _ (loadCfg_fix C f _ (runRes_incl_fix f docs C hk fuel) r _ (fun lines c h => hk r lines c h))

/-! ## nothing fails -/

theorem withResource_ok (f : Pt → Bool) (hf : ∀ p, f p = false) (o : Opener) (r : Nat) (body : LState → Out) (st : LState) :
    (withResource f o r true body st).ok = (body st).ok := by
  unfold withResource
  cases o <;> simp [hf]

theorem stepLoop_ok {α : Type} (f : Pt → Bool) (hf : ∀ p, f p = false) (r : Nat) (act : α → LState → Out) (A : List Nat) :
    ∀ (steps : List α) (_ : ∀ s ∈ steps, ∀ st, st.active = A → (act s st).ok = true ∧ (act s st).st.active = A)
      (k : Nat) (st : LState), st.active = A → (stepLoop f r act k steps st).ok = true
  | [], _, k, st, _ => by simp [stepLoop, hf]
  | s :: rest, ha, k, st, hA => by
    have hs := ha s (List.mem_cons_self) st hA
    have ih := stepLoop_ok f hf r act A rest (fun s' h' => ha s' (List.mem_cons_of_mem _ h')) (k + 1) (act s st).st hs.2
    simp [stepLoop, hf, hs.1, ih]

section
variable (f : Pt → Bool) (hf : ∀ p, f p = false) (docs : List (Nat × Doc)) (rank : Nat → Nat)
  (hrefs : ∀ r d, lookup docs r = some d → ∀ m c, (m, c) ∈ d.refs →
    rank c < rank r ∧ ∃ d', lookup docs c = some d' ∧ kindOK m d' = true)

/-- what the induction over the nesting depth provides about the recursive call -/
def RecOK (docs : List (Nat × Doc)) (rank : Nat → Nat) (fuel : Nat) (rec : Rec) : Prop :=
  (∀ m c, Keeps (rec m c)) ∧
  ∀ m c st d, lookup docs c = some d → kindOK m d = true → rank c < fuel → (∀ a ∈ st.active, rank c < rank a) → (rec m c st).ok = true

include hrefs in
theorem cfgLine_ok (fuel : Nat) (rec : Rec) (hrec : RecOK docs rank fuel rec) (r : Nat) (lines : List CStep)
    (hd : lookup docs r = some (.cfg lines)) (hfuel : rank r < fuel + 1) (A : List Nat) (hA : ∀ a ∈ A, rank r ≤ rank a)
    (s : CStep) (hs : s ∈ lines) (st : LState) (hst : st.active = A) :
    (cfgLine rec s st).ok = true ∧ (cfgLine rec s st).st.active = A := by
  refine ⟨?_, by rw [(cfgLine_keeps rec hrec.1 s st).active, hst]⟩
  cases s with
  | work => rfl
  | incl c =>
    have hm : (Mode.incl, c) ∈ (Doc.cfg lines).refs := List.mem_filterMap.mpr ⟨_, hs, rfl⟩
    obtain ⟨hlt, d', hd', hk'⟩ := hrefs r _ hd _ _ hm
    exact hrec.2 _ c st d' hd' hk' (by omega) (fun a ha => by have := hA a (hst ▸ ha); omega)
  | imp c =>
    have hm : (Mode.comp, c) ∈ (Doc.cfg lines).refs := List.mem_filterMap.mpr ⟨_, hs, rfl⟩
    obtain ⟨hlt, d', hd', hk'⟩ := hrefs r _ hd _ _ hm
    simp only [cfgLine]
    split
    · rfl
    · have h := hrec.2 .comp c { st with comps := dictSet st.comps c } d' hd' hk' (by omega)
        (fun a ha => by have := hA a (hst ▸ ha); omega)
      simp only [h, if_true]

include hrefs in
theorem schLine_ok (fuel : Nat) (rec : Rec) (hrec : RecOK docs rank fuel rec) (r : Nat) (d : Doc) (steps : List SStep)
    (hd : lookup docs r = some d) (hsub : ∀ m c s, s ∈ steps → sref s = some (m, c) → (m, c) ∈ d.refs)
    (hfuel : rank r < fuel + 1) (A : List Nat) (hA : ∀ a ∈ A, rank r ≤ rank a)
    (s : SStep) (hs : s ∈ steps) (st : LState) (hst : st.active = A) :
    (schLine rec s st).ok = true ∧ (schLine rec s st).st.active = A := by
  refine ⟨?_, by rw [(schLine_keeps rec hrec.1 s st).active, hst]⟩
  cases s with
  | work => rfl
  | ext c =>
    obtain ⟨hlt, d', hd', hk'⟩ := hrefs r _ hd _ _ (hsub _ _ _ hs rfl)
    exact hrec.2 _ c st d' hd' hk' (by omega) (fun a ha => by have := hA a (hst ▸ ha); omega)
  | importSrc c =>
    obtain ⟨hlt, d', hd', hk'⟩ := hrefs r _ hd _ _ (hsub _ _ _ hs rfl)
    exact hrec.2 _ c st d' hd' hk' (by omega) (fun a ha => by have := hA a (hst ▸ ha); omega)
  | importPkg c =>
    obtain ⟨hlt, d', hd', hk'⟩ := hrefs r _ hd _ _ (hsub _ _ _ hs rfl)
    simp only [schLine]
    split
    · rfl
    · exact hrec.2 _ c _ d' hd' hk' (by omega) (fun a ha => by have := hA a (hst ▸ ha); omega)

include hf hrefs in
theorem parseCfg_ok (fuel : Nat) (rec : Rec) (hrec : RecOK docs rank fuel rec) (r : Nat) (lines : List CStep)
    (hd : lookup docs r = some (.cfg lines)) (hfuel : rank r < fuel + 1) (st : LState) (hact : ∀ a ∈ st.active, rank r < rank a) :
    (parseCfg f rec r (some (.cfg lines)) st).ok = true := by
  have hnot : st.active.contains r = false := by
    cases h : st.active.contains r with
    | false => rfl
    | true => have := hact r (List.contains_iff_mem.mp h); omega
  simp only [parseCfg, hnot, Bool.false_eq_true, if_false]
  refine stepLoop_ok f hf r _ (st.active ++ [r]) lines ?_ 0 _ rfl
  intro s hs st' hst'
  refine cfgLine_ok docs rank hrefs fuel rec hrec r lines hd hfuel _ ?_ s hs st' hst'
  intro a ha
  rcases List.mem_append.mp ha with h | h
  · exact Nat.le_of_lt (hact a h)
  · simp only [List.mem_singleton] at h; rw [h]; exact Nat.le_refl _

include hf hrefs in
theorem schemaBody_ok (fuel : Nat) (rec : Rec) (hrec : RecOK docs rank fuel rec) (r : Nat) (bases : List Nat) (body : List SStep)
    (hd : lookup docs r = some (.schema bases body)) (hfuel : rank r < fuel + 1) (st : LState) (hact : ∀ a ∈ st.active, rank r < rank a) :
    (schemaBody f rec r (some (.schema bases body)) st).ok = true := by
  simp only [schemaBody]
  refine stepLoop_ok f hf r _ st.active _ ?_ 0 _ rfl
  intro s hs st' hst'
  exact schLine_ok docs rank hrefs fuel rec hrec r _ _ hd (fun m c s hs h => List.mem_filterMap.mpr ⟨s, hs, h⟩) hfuel _
    (fun a ha => Nat.le_of_lt (hact a ha)) s hs st' hst'

include hf hrefs in
theorem compBody_ok (fuel : Nat) (rec : Rec) (hrec : RecOK docs rank fuel rec) (r : Nat) (body : List SStep)
    (hd : lookup docs r = some (.comp body)) (hfuel : rank r < fuel + 1) (st : LState) (hact : ∀ a ∈ st.active, rank r < rank a) :
    (compBody f rec r (some (.comp body)) st).ok = true := by
  simp only [compBody]
  refine stepLoop_ok f hf r _ st.active _ ?_ 0 _ rfl
  intro s hs st' hst'
  exact schLine_ok docs rank hrefs fuel rec hrec r _ _ hd (fun m c s hs h => List.mem_filterMap.mpr ⟨s, hs, h⟩) hfuel _
    (fun a ha => Nat.le_of_lt (hact a ha)) s hs st' hst'

include hf hrefs in
theorem runRes_ok : ∀ (fuel : Nat), RecOK docs rank fuel (runRes f docs fuel)
  | 0 => ⟨runRes_keeps f docs 0, fun _ _ _ _ _ _ h _ => absurd h (Nat.not_lt_zero _)⟩
  | fuel + 1 => by
    have ih := runRes_ok fuel
    refine ⟨runRes_keeps f docs (fuel + 1), ?_⟩
    intro m r st d hd hk hfuel hact
    simp only [runRes, hd, Option.isSome_some]
    cases m <;> cases d <;> simp only [kindOK, Bool.false_eq_true] at hk <;> simp only [] <;> rw [withResource_ok f hf]
    · -- top, cfg
      simp only [loadCfg, parseCfg_ok f hf docs rank hrefs fuel _ ih r _ hd hfuel st hact, if_true, hf, Bool.not_false]
    · exact parseCfg_ok f hf docs rank hrefs fuel _ ih r _ hd hfuel st hact
    · -- load, schema
      simp only [loadSchemaRes]
      split
      · rfl
      · have h := schemaBody_ok f hf docs rank hrefs fuel _ ih r _ _ hd hfuel { st with comps := [] } hact
        simp only [h, if_true]
    · exact schemaBody_ok f hf docs rank hrefs fuel _ ih r _ _ hd hfuel st hact
    · exact compBody_ok f hf docs rank hrefs fuel _ ih r _ hd hfuel st hact
end

theorem mem_of_lookup {docs : List (Nat × Doc)} {r : Nat} {d : Doc} (h : lookup docs r = some d) : (r, d) ∈ docs := by
  unfold lookup at h
  cases hf : docs.find? (fun p => p.1 == r) with
  | none => simp [hf] at h
  | some p =>
    simp only [hf, Option.map_some, Option.some.injEq] at h
    have h1 := List.find?_some hf
    have h2 := List.mem_of_find?_eq_some hf
    simp only [beq_iff_eq] at h1
    cases p with
    | mk a b => simp only at h1 h; rw [← h1, ← h]; exact h2

theorem sound_of_soundB {sc : Scenario} {rank : Nat → Nat} (h : soundB sc rank = true) : Sound sc rank := by
  simp only [soundB, Bool.and_eq_true, List.all_eq_true, decide_eq_true_eq] at h
  constructor
  · cases hl : lookup sc.docs sc.entry.res with
    | none => simp [hl] at h
    | some d =>
      have h1 := h.1
      simp only [hl, Bool.and_eq_true, decide_eq_true_eq] at h1
      exact ⟨d, rfl, h1.1, h1.2⟩
  · intro r d hd m c hm
    have h2 := h.2 (r, d) (mem_of_lookup hd) (m, c) hm
    simp only at h2
    refine ⟨h2.1, ?_⟩
    cases hl : lookup sc.docs c with
    | none => simp [hl] at h2
    | some d' => exact ⟨d', rfl, by simpa [hl] using h2.2⟩

theorem run_ok (sc : Scenario) (rank : Nat → Nat) (hs : Sound sc rank) (st : LState) (hact : st.active = []) :
    (run [] sc st).ok = true := by
  obtain ⟨d, hd, hk, hlim⟩ := hs.entry
  have h := runRes_ok (fun p => ([] : List Pt).contains p) (fun _ => rfl) sc.docs rank hs.refs sc.limit
  exact h.2 _ _ st d hd hk hlim (by simp [hact])

end ZCV.Res2
