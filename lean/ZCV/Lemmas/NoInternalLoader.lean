import ZCV.Lemmas.NoInternalMatcher
/-!
C07, loader part: the invariant `LSInv n` of the loader state (the matcher stack has `n + 1` well-typed matchers, all
but the bottom one belong to a section type that can be looked up under its own name; the — possibly extended —
schema is well-formed; the importable components are well-formed) is preserved by the four callbacks of `loaderCtx`,
none of which ends in `.internal` under it.  Then `load`.

`hlow` (lower-casing is idempotent) is a fact about the generated Unicode table; it is proved in
`ZCV.Lemmas.NoInternalLower` and discharged in `ZCV.Props.C07`.
-/
namespace ZCV.Cfg
open ZCV ZCV.Conf

/-! ### the matcher stack -/

/-- the section type can be found again under its own name (child bags, section datatypes) -/
def NamedT (s : Schema) (t : SType) : Prop := ∃ t', s.gettype (t.name.getD []) = some (.concrete t')

def stackOK (s : Schema) : List Matcher → Prop
  | [] => False
  | m :: rest => MOK s m ∧ (match rest with | [] => True | _ :: _ => NamedT s m.ty ∧ stackOK s rest)

theorem stackOK_one {s : Schema} {m : Matcher} : stackOK s [m] ↔ MOK s m := by
  unfold stackOK
  simp

theorem stackOK_two {s : Schema} {m r : Matcher} {rs : List Matcher} :
    stackOK s (m :: r :: rs) ↔ MOK s m ∧ NamedT s m.ty ∧ stackOK s (r :: rs) := by
  rw [stackOK]

theorem stackOK_head {s : Schema} {m : Matcher} {rest : List Matcher} (h : stackOK s (m :: rest)) : MOK s m := by
  cases rest with
  | nil => exact stackOK_one.mp h
  | cons r rs => exact (stackOK_two.mp h).1

theorem stackOK_replace {s : Schema} {p p' : Matcher} {below : List Matcher} (h : stackOK s (p :: below))
    (hp : MOK s p') (hty : p'.ty = p.ty) : stackOK s (p' :: below) := by
  cases below with
  | nil => exact stackOK_one.mpr hp
  | cons r rs =>
    have h' := stackOK_two.mp h
    exact stackOK_two.mpr ⟨hp, hty ▸ h'.2.1, h'.2.2⟩

theorem stackOK_mono {s s' : Schema} (hx : SExt s s') : ∀ (l : List Matcher), stackOK s l → stackOK s' l := by
  intro l
  induction l with
  | nil => intro h; exact absurd h (by unfold stackOK; exact id)
  | cons m rest ih =>
    intro h
    cases rest with
    | nil => exact stackOK_one.mpr (MOK.mono hx (stackOK_one.mp h))
    | cons r rs =>
      obtain ⟨h1, ⟨t', ht'⟩, h3⟩ := stackOK_two.mp h
      exact stackOK_two.mpr ⟨MOK.mono hx h1, ⟨t', hx _ _ ht'⟩, ih h3⟩

/-- an abstract type stays an abstract type -/
def AExt (s s' : Schema) : Prop :=
  ∀ name a l, s.gettype name = some (.abstract_ a l) → ∃ a' l', s'.gettype name = some (.abstract_ a' l')

theorem AExt.refl (s : Schema) : AExt s s := fun _ a l h => ⟨a, l, h⟩
theorem AExt.trans {a b c : Schema} (h1 : AExt a b) (h2 : AExt b c) : AExt a c := fun n x l h => by
  obtain ⟨x', l', h'⟩ := h1 n x l h
  exact h2 n x' l' h'

/-- the schema the option bags consult (`OptionBag.schema`, the one the load started with) is an earlier stage of the
    schema of the load: its concrete types are still what they were, its abstract types are still abstract -/
def BagSchOK (bs : Option Schema) (s : Schema) : Prop := ∀ S0, bs = some S0 → SExt S0 s ∧ AExt S0 s

theorem BagSchOK.lookup {bs : Option Schema} {s : Schema} (h : BagSchOK bs s) (n : Str) (t : SType)
    (hn : s.gettype n = some (.concrete t)) :
    (bs.getD s).gettype n = none ∨ ∃ t', (bs.getD s).gettype n = some (.concrete t') := by
  cases bs with
  | none => exact .inr ⟨t, hn⟩
  | some S0 =>
    obtain ⟨h1, h2⟩ := h S0 rfl
    show S0.gettype n = none ∨ ∃ t', S0.gettype n = some (.concrete t')
    cases hg : S0.gettype n with
    | none => exact .inl rfl
    | some te =>
      cases te with
      | concrete t' => exact .inr ⟨t', rfl⟩
      | abstract_ a l =>
        obtain ⟨a', l', h'⟩ := h2 n a l hg
        rw [hn] at h'
        cases h'

structure LSInv (n : Nat) (st : LS) : Prop where
  len : st.stack.length = n + 1
  sok : SOK st.schema
  stk : stackOK st.schema st.stack
  pkgs : ∀ p, pkgWF (st.pkgs p) = true
  bsx : BagSchOK st.bagSchema st.schema

/-! ### looking types up -/

theorem gettype_mem (s : Schema) (name : Str) (te : TypeEntry) (h : s.gettype name = some te) :
    ∃ n, (n, te) ∈ s.types ∧ n = lower name := by
  unfold Schema.gettype at h
  cases hf : s.types.find? (·.1 == lower name) with
  | none => rw [hf] at h; cases h
  | some p =>
    rw [hf] at h
    simp only [Option.map_some, Option.some.injEq] at h
    obtain ⟨n, te'⟩ := p
    simp only at h
    subst h
    have h1 := List.mem_of_find?_eq_some hf
    have h2 := List.find?_some hf
    exact ⟨n, h1, by simpa using h2⟩

theorem named_of_gettype (hlow : ∀ x : Str, lower (lower x) = lower x) (s : Schema) (hs : SOK s) (ty : Str) (t : SType)
    (h : s.gettype ty = some (.concrete t)) : TOK t ∧ s.gettype (t.name.getD []) = some (.concrete t) := by
  obtain ⟨n, hmem, hn⟩ := gettype_mem s ty _ h
  obtain ⟨hname, htok⟩ := hs.2 n t hmem
  refine ⟨htok, ?_⟩
  rw [hname]
  simp only [Option.getD_some]
  unfold Schema.gettype at h ⊢
  rw [hn, hlow]
  exact h

/-! ### `startSection`, `endSection`, `addValue` -/

theorem lsStart_ok (hlow : ∀ x : Str, lower (lower x) = lower x) (n : Nat) (st : LS) (ty : Str) (nm : Option Str)
    (hinv : LSInv n st) :
    (∀ e, lsStart st ty nm ≠ .error (.internal e)) ∧ (∀ st', lsStart st ty nm = .ok st' → LSInv (n + 1) st') := by
  unfold lsStart
  cases hstk : st.stack with
  | nil =>
    have := hinv.len
    rw [hstk] at this
    simp at this
  | cons parent below =>
    have hso := hinv.stk
    rw [hstk] at hso
    have hpar := stackOK_head hso
    dsimp only
    split
    · exact err_res _ _ (cfg_ni _)
    · exact err_res _ _ (plainErr_ni _)
    · rename_i t hgt
      obtain ⟨htok, hnamed⟩ := named_of_gettype hlow st.schema hinv.sok ty t hgt
      obtain ⟨G1, _⟩ := getsectioninfo_ok st.schema parent.ty hpar.tok (t.name.getD []) nm
      simp only [bind, Except.bind, pure, Except.pure, throw, throwThe, MonadExceptOf.throw]
      split
      · rename_i x hx
        exact err_res _ _ (fun e h => G1 e (by rw [← h]; exact hx))
      · split
        · exact err_res _ _ (plainErr_ni _)
        · split
          · exact err_res _ _ (plainErr_ni _)
          · have hnew : ∀ cb : Option Bag, (∀ b, cb = some b → BagOK b) → MOK st.schema (newMatcher t nm cb) :=
              fun cb hcb => MOK.new st.schema t htok nm cb hcb
            split
            · refine ok_res _ _ ⟨?_, hinv.sok, ?_, hinv.pkgs, hinv.bsx⟩
              · simp only [List.length_cons]
                have := hinv.len
                rw [hstk] at this
                simpa using this
              · exact stackOK_two.mpr ⟨hnew none (fun b hb => by cases hb), ⟨t, hnamed⟩, hso⟩
            · rename_i b hb
              obtain ⟨B1, B2⟩ := bagSectionInfo_ok st.conv (st.bagSchema.getD st.schema) b (t.name.getD []) nm (hpar.bag b hb)
                (hinv.bsx.lookup _ t hnamed)
              split
              · rename_i x hx
                exact err_res _ _ (fun e h => B1 e (by rw [← h]; exact hx))
              · rename_i v hv
                obtain ⟨b', cb⟩ := v
                obtain ⟨C1, C2⟩ := B2 b' cb hv
                refine ok_res _ _ ⟨?_, hinv.sok, ?_, hinv.pkgs, hinv.bsx⟩
                · simp only [List.length_cons]
                  have := hinv.len
                  rw [hstk] at this
                  simpa using this
                · refine stackOK_two.mpr ⟨hnew cb C2, ⟨t, hnamed⟩, ?_⟩
                  refine stackOK_replace hso ⟨hpar.tok, hpar.fits, fun b0 hb0 => ?_⟩ rfl
                  cases hb0
                  exact C1

theorem ni_lsValue_ok (n : Nat) (st : LS) (k v : Str) (pos : Pos) (hinv : LSInv n st) :
    (∀ e, lsValue st k v pos ≠ .error (.internal e)) ∧ (∀ st', lsValue st k v pos = .ok st' → LSInv n st') := by
  unfold lsValue
  cases hstk : st.stack with
  | nil =>
    have := hinv.len
    rw [hstk] at this
    simp at this
  | cons cur below =>
    have hso := hinv.stk
    rw [hstk] at hso
    obtain ⟨A1, A2⟩ := addValue_ok st.schema st.conv cur (stackOK_head hso) k v pos
    dsimp only
    constructor
    · intro e h
      exact A1 e (map_no_internal _ _ _ h)
    · intro st' h
      obtain ⟨m, hm, rfl⟩ := map_ok_inv h
      obtain ⟨D1, D2⟩ := A2 m hm
      refine ⟨?_, hinv.sok, stackOK_replace hso D1 D2.1, hinv.pkgs, hinv.bsx⟩
      have := hinv.len
      rw [hstk] at this
      simpa using this

theorem lsStop_ok (n : Nat) (st : LS) (ty : Str) (nm : Option Str) (hinv : LSInv (n + 1) st) :
    (∀ e, lsStop st ty nm ≠ .error (.internal e)) ∧ (∀ st', lsStop st ty nm = .ok st' → LSInv n st') := by
  unfold lsStop
  have hlen := hinv.len
  have hso := hinv.stk
  match hstk : st.stack with
  | [] => rw [hstk] at hlen; simp at hlen
  | [x] => rw [hstk] at hlen; simp at hlen
  | child :: parent :: below =>
    rw [hstk] at hso hlen
    obtain ⟨hchild, ⟨tc, htc⟩, hrest⟩ := stackOK_two.mp hso
    obtain ⟨F1, F2⟩ := finishMatcher_ok st.conv st.schema child hchild
    simp only [bind, Except.bind, pure, Except.pure]
    split
    · rename_i x hx
      exact err_res _ _ (fun e h => F1 e (by rw [← h]; exact hx))
    · rename_i vh hvh
      obtain ⟨v, hs⟩ := vh
      obtain ⟨attrs, rfl⟩ := F2 v hs hvh
      obtain ⟨A1, A2⟩ := ni_addSection_ok st.schema parent (stackOK_head hrest) ty nm
        (.sect (child.ty.name.getD []) child.name attrs) ⟨tc, htc⟩
      dsimp only
      split
      · rename_i x hx
        exact err_res _ _ (fun e h => A1 e (by rw [← h]; exact hx))
      · rename_i p' hp'
        obtain ⟨D1, D2⟩ := A2 p' hp'
        refine ok_res _ _ ⟨?_, hinv.sok, stackOK_replace hrest D1 D2.1, hinv.pkgs, hinv.bsx⟩
        simp only [List.length_cons] at hlen ⊢
        omega

/-! ### `%import`: the schema grows -/

/-- registering an implementation: the abstract type's entry gets one more subtype -/
def ni_regImpl (ia : Str × Str) (p : Str × TypeEntry) : Str × TypeEntry :=
  match p.2 with
  | .abstract_ n subs => if p.1 == ia.2 && !subs.contains ia.1 then (p.1, .abstract_ n (subs ++ [ia.1])) else p
  | _ => p

/-- one element of a component: the type is added, then registered with the abstract types it implements -/
def impOne (impls : List (Str × Str)) (sc : Schema) (te : Str × TypeEntry) : M Schema :=
  if sc.types.any (·.1 == te.1) then .error (.cfg { kind := .schema, tag := "type name cannot be redefined" })
  else
    .ok (impls.foldl (fun (sc : Schema) (ia : Str × Str) =>
      if ia.1 == te.1 then { sc with types := sc.types.map (ni_regImpl ia) } else sc)
      { sc with types := sc.types ++ [te] })

theorem lsImport_eq (st : LS) (pkg : Str) :
    lsImport st pkg =
      match st.pkgs pkg with
      | .illegalName => .error (.cfg { kind := .schema, tag := "illegal schema component name" })
      | .notImportable => .error (.cfg { kind := .schemaResource, tag := "could not load package" })
      | .notPackage => .error (.cfg { kind := .schemaResource, tag := "import name does not refer to a package" })
      | .noComponent => .error (.cfg { kind := .schemaResource, tag := "schema component not found" })
      | .component url types impls =>
        if st.schema.components.contains url then .ok { st with privateSchema := true }
        else
          (types.foldlM (impOne impls) { st.schema with components := st.schema.components ++ [url] }) >>= fun sch =>
            pure { st with schema := sch, privateSchema := true } := by
  unfold lsImport
  rfl

theorem regImpl_fst (ia : Str × Str) (p : Str × TypeEntry) : (ni_regImpl ia p).1 = p.1 := by
  unfold ni_regImpl
  split
  · split <;> rfl
  · rfl

theorem regImpl_concrete (ia : Str × Str) (p : Str × TypeEntry) (t : SType) (h : (ni_regImpl ia p).2 = .concrete t) :
    ni_regImpl ia p = p := by
  unfold ni_regImpl at h ⊢
  split
  · rename_i n subs hp
    simp only [hp] at h
    split at h <;> first | cases h | (rw [hp] at h; cases h)
  · rfl

theorem regImpl_of_concrete (ia : Str × Str) (p : Str × TypeEntry) (t : SType) (h : p.2 = .concrete t) :
    ni_regImpl ia p = p := by
  unfold ni_regImpl
  rw [h]

theorem find_map_key (G : Str × TypeEntry → Str × TypeEntry) (hG : ∀ p, (G p).1 = p.1) (k : Str) :
    ∀ (l : List (Str × TypeEntry)), (l.map G).find? (·.1 == k) = (l.find? (·.1 == k)).map G := by
  intro l
  induction l with
  | nil => rfl
  | cons p t ih =>
    simp only [List.map_cons, List.find?_cons, hG]
    split
    · rfl
    · exact ih

/-- the invariant of the schema while a component is read: well-formed, and an extension of the initial one -/
def SchQ (s0 sc : Schema) : Prop := SOK sc ∧ SExt s0 sc

theorem SchQ_regImpl (s0 sc : Schema) (ia : Str × Str) (h : SchQ s0 sc) :
    SchQ s0 { sc with types := sc.types.map (ni_regImpl ia) } := by
  obtain ⟨⟨htop, hty⟩, hx⟩ := h
  refine ⟨⟨htop, ?_⟩, ?_⟩
  · intro n t hm
    simp only at hm
    obtain ⟨p, hp, hpe⟩ := List.mem_map.mp hm
    have : ni_regImpl ia p = p := regImpl_concrete ia p t (by rw [hpe])
    rw [this] at hpe
    subst hpe
    exact hty n t hp
  · intro name t hg
    have h1 := hx name t hg
    unfold Schema.gettype at h1 ⊢
    simp only
    rw [find_map_key _ (regImpl_fst ia)]
    cases hf : sc.types.find? (·.1 == lower name) with
    | none => rw [hf] at h1; cases h1
    | some p =>
      rw [hf] at h1
      simp only [Option.map_some, Option.some.injEq] at h1 ⊢
      rw [regImpl_of_concrete ia p t h1]
      exact h1

theorem SchQ_foldl (s0 : Schema) (te1 : Str) : ∀ (impls : List (Str × Str)) (sc : Schema), SchQ s0 sc →
    SchQ s0 (impls.foldl (fun (sc : Schema) (ia : Str × Str) =>
      if ia.1 == te1 then { sc with types := sc.types.map (ni_regImpl ia) } else sc) sc) := by
  intro impls
  induction impls with
  | nil => intro sc h; exact h
  | cons ia rest ih =>
    intro sc h
    rw [List.foldl_cons]
    apply ih
    split
    · exact SchQ_regImpl s0 sc ia h
    · exact h

theorem SchQ_append (s0 sc : Schema) (te : Str × TypeEntry) (h : SchQ s0 sc)
    (hte : ∀ t, te.2 = .concrete t → t.name = some te.1 ∧ TOK t) :
    SchQ s0 { sc with types := sc.types ++ [te] } := by
  obtain ⟨⟨htop, hty⟩, hx⟩ := h
  refine ⟨⟨htop, ?_⟩, ?_⟩
  · intro n t hm
    simp only [List.mem_append, List.mem_singleton] at hm
    rcases hm with hm | hm
    · exact hty n t hm
    · subst hm
      exact hte t rfl
  · intro name t hg
    have h1 := hx name t hg
    unfold Schema.gettype at h1 ⊢
    simp only
    rw [List.find?_append]
    cases hf : sc.types.find? (·.1 == lower name) with
    | none => rw [hf] at h1; cases h1
    | some p =>
      rw [hf] at h1
      simpa using h1

theorem impOne_ok (s0 : Schema) (impls : List (Str × Str)) (sc : Schema) (te : Str × TypeEntry) (h : SchQ s0 sc)
    (hte : ∀ t, te.2 = .concrete t → t.name = some te.1 ∧ TOK t) :
    (∀ e, impOne impls sc te ≠ .error (.internal e)) ∧ (∀ sc', impOne impls sc te = .ok sc' → SchQ s0 sc') := by
  unfold impOne
  split
  · exact err_res _ _ (cfg_ni _)
  · exact ok_res _ _ (SchQ_foldl s0 te.1 impls _ (SchQ_append s0 sc te h hte))

/-! ### abstract types stay abstract while a component is read -/

theorem gettype_components (sc : Schema) (c : List Str) (n : Str) :
    ({ sc with components := c } : Schema).gettype n = sc.gettype n := rfl

theorem AExt_regImpl (sc : Schema) (ia : Str × Str) : AExt sc { sc with types := sc.types.map (ni_regImpl ia) } := by
  intro name a l hg
  unfold Schema.gettype at hg ⊢
  simp only
  rw [find_map_key _ (regImpl_fst ia)]
  cases hf : sc.types.find? (·.1 == lower name) with
  | none => rw [hf] at hg; cases hg
  | some p =>
    rw [hf] at hg
    simp only [Option.map_some, Option.some.injEq] at hg ⊢
    unfold ni_regImpl
    rw [hg]
    simp only
    split
    · exact ⟨_, _, rfl⟩
    · exact ⟨_, _, hg⟩

theorem AExt_foldl (te1 : Str) : ∀ (impls : List (Str × Str)) (sc : Schema),
    AExt sc (impls.foldl (fun (sc : Schema) (ia : Str × Str) =>
      if ia.1 == te1 then { sc with types := sc.types.map (ni_regImpl ia) } else sc) sc) := by
  intro impls
  induction impls with
  | nil => intro sc; exact AExt.refl sc
  | cons ia rest ih =>
    intro sc
    rw [List.foldl_cons]
    refine AExt.trans ?_ (ih _)
    split
    · exact AExt_regImpl sc ia
    · exact AExt.refl sc

theorem AExt_append (sc : Schema) (te : Str × TypeEntry) : AExt sc { sc with types := sc.types ++ [te] } := by
  intro name a l hg
  unfold Schema.gettype at hg ⊢
  simp only
  rw [List.find?_append]
  cases hf : sc.types.find? (·.1 == lower name) with
  | none => rw [hf] at hg; cases hg
  | some p =>
    rw [hf] at hg
    exact ⟨a, l, by simpa using hg⟩

theorem AExt_impOne (impls : List (Str × Str)) (sc sc' : Schema) (te : Str × TypeEntry)
    (h : impOne impls sc te = .ok sc') : AExt sc sc' := by
  unfold impOne at h
  split at h
  · cases h
  · cases h
    exact AExt.trans (AExt_append sc te) (AExt_foldl te.1 impls _)

theorem AExt_foldlM (impls : List (Str × Str)) : ∀ (types : List (Str × TypeEntry)) (sc sc' : Schema),
    types.foldlM (impOne impls) sc = .ok sc' → AExt sc sc' := by
  intro types
  induction types with
  | nil =>
    intro sc sc' h
    simp only [List.foldlM_nil, pure, Except.pure, Except.ok.injEq] at h
    subst h
    exact AExt.refl sc
  | cons te rest ih =>
    intro sc sc' h
    rw [List.foldlM_cons] at h
    cases h1 : impOne impls sc te with
    | error e => rw [h1] at h; cases h
    | ok sc1 =>
      rw [h1] at h
      exact AExt.trans (AExt_impOne impls sc sc1 te h1) (ih sc1 sc' h)

theorem lsImport_ok (n : Nat) (st : LS) (pkg : Str) (hinv : LSInv n st) :
    (∀ e, lsImport st pkg ≠ .error (.internal e)) ∧ (∀ st', lsImport st pkg = .ok st' → LSInv n st') := by
  rw [lsImport_eq]
  have hpk := hinv.pkgs pkg
  split
  · exact err_res _ _ (cfg_ni _)
  · exact err_res _ _ (cfg_ni _)
  · exact err_res _ _ (cfg_ni _)
  · exact err_res _ _ (cfg_ni _)
  · rename_i url types impls hcomp
    rw [hcomp] at hpk
    have htypes : TypesOK types := typesWF_TypesOK types hpk
    split
    · exact ok_res _ _ ⟨hinv.len, hinv.sok, hinv.stk, hinv.pkgs, hinv.bsx⟩
    · obtain ⟨F1, F2⟩ := foldlM_inv (impOne impls) (SchQ st.schema) types
        { st.schema with components := st.schema.components ++ [url] }
        ⟨hinv.sok, fun _ _ h => h⟩
        (fun sc te hte hsc => impOne_ok st.schema impls sc te hsc (fun t ht => by
          obtain ⟨n', te'⟩ := te
          simp only at ht
          subst ht
          exact htypes n' t hte))
      simp only [bind, Except.bind, pure, Except.pure]
      split
      · rename_i x hx
        exact err_res _ _ (fun e h => F1 e (by rw [← h]; exact hx))
      · rename_i sch hsch
        obtain ⟨Q1, Q2⟩ := F2 sch hsch
        refine ok_res _ _ ⟨hinv.len, Q1, stackOK_mono Q2 _ hinv.stk, hinv.pkgs, ?_⟩
        intro S0 hS0
        obtain ⟨b1, b2⟩ := hinv.bsx S0 hS0
        have hA : AExt st.schema sch := by
          have h0 := AExt_foldlM impls types _ sch hsch
          intro name a l hg
          exact h0 name a l (by rw [gettype_components]; exact hg)
        exact ⟨SExt.trans b1 Q2, AExt.trans b2 hA⟩

/-- the callbacks of the loader context satisfy what the generic parser theorem asks for -/
theorem loaderCtx_ok (hlow : ∀ x : Str, lower (lower x) = lower x) : CtxOK loaderCtx LSInv :=
  { start := fun n a ty nm h => lsStart_ok hlow n a ty nm h
    stop := fun n a ty nm h => lsStop_ok n a ty nm h
    value := fun n a k v p h => ni_lsValue_ok n a k v p h
    imp := fun n a pkg h => lsImport_ok n a pkg h }

/-! ### `addOption` and `load` -/

theorem splitOn_ne_nil (c : Char) : ∀ (s : Str), addOption.splitOn s c ≠ [] := by
  intro s
  cases s with
  | nil => rw [addOption.splitOn]; simp
  | cons x t =>
    rw [addOption.splitOn]
    split
    · simp
    · split <;> simp

theorem addOption_ok (spec : Str) :
    (∀ e, addOption spec ≠ .error (.internal e)) ∧ (∀ it, addOption spec = .ok it → it.path ≠ []) := by
  unfold addOption
  dsimp only
  split
  · exact err_res _ _ (cfg_ni _)
  · split
    · exact err_res _ _ (cfg_ni _)
    · exact ok_res _ _ (splitOn_ne_nil _ _)

theorem remaining_le (urls active : List Str) : remaining urls active ≤ urls.length :=
  List.length_filter_le _ _

/-- `load` once the option bag has been cooked -/
def loadTail (conv : Conv) (env : Env) (pkgs : Str → Pkg) (schema : Schema) (url : Option Str)
    (lines : List Str) (bag : Option Bag) : M LoadResult := do
  let st0 : LS := { schema := schema, privateSchema := false, handlers := [], stack := [newMatcher schema.top Option.none bag],
                    pkgs := pkgs, conv := conv, bagSchema := bag.map fun _ => schema }
  let active := match url with | some u => if u == [] then [] else [u] | none => []
  let ps ← parseLines 64 env loaderCtx active url lines 0 { ctx := st0, stack := [], defs := [] }
  match ps.ctx.stack with
  | [top] =>
    let (v, hs) ← finishMatcher conv ps.ctx.schema top
    let v' ← match conv.sect schema.top.datatype v with
      | .ok r => pure r
      | .error e => throw (convFail e Option.none { line := -1, url := Option.none } "schema datatype")
    let hs' := match schema.handler with | some h => [(h, v')] | Option.none => []
    pure { value := v', handlers := ps.ctx.handlers ++ hs ++ hs', schemaAfter := ps.ctx.schema }
  | _ => throw (.internal "IndexError")

theorem load_eq (conv : Conv) (env : Env) (pkgs : Str → Pkg) (schema : Schema) (url : Option Str)
    (lines : List Str) (specs : List Str) :
    load conv env pkgs schema url lines specs =
      specs.mapM addOption >>= fun overrides =>
        (if overrides.isEmpty then pure Option.none else (mkBag conv schema.top overrides).map some) >>= fun bag =>
          loadTail conv env pkgs schema url lines bag := by
  unfold load
  cases specs.mapM addOption with
  | error x => rfl
  | ok overrides =>
    by_cases h : overrides.isEmpty = true
    · simp only [bind, Except.bind, h, if_true]
      rfl
    · simp only [bind, Except.bind, h, if_false, Bool.false_eq_true]
      rfl

theorem loadTail_no_internal (hlow : ∀ x : Str, lower (lower x) = lower x)
    (conv : Conv) (env : Env) (pkgs : Str → Pkg) (s : Schema) (url : Option Str) (lines : List Str) (bag : Option Bag)
    (urls : List Str)
    (hsok : SOK s) (hp : ∀ p, pkgWF (pkgs p) = true) (henv : EnvOK env urls) (hlen : urls.length ≤ 64)
    (hbagok : ∀ b, bag = some b → BagOK b)
    (e : String) : loadTail conv env pkgs s url lines bag ≠ .error (.internal e) := by
  unfold loadTail
  let st0 : LS := { schema := s, privateSchema := false, handlers := [], stack := [newMatcher s.top Option.none bag], pkgs := pkgs, conv := conv,
                    bagSchema := bag.map fun _ => s }
  have hinv0 : LSInv 0 st0 :=
    ⟨rfl, hsok, stackOK_one.mpr (MOK.new s s.top hsok.1 none bag hbagok), hp, by
      intro S0 hS0
      cases bag with
      | none => cases hS0
      | some b => cases hS0; exact ⟨SExt.refl s, AExt.refl s⟩⟩
  obtain ⟨P1, P2⟩ := parseLines_no_internal loaderCtx LSInv (loaderCtx_ok hlow) env urls (fun _ => henv) 64
    (match url with | some u => if u == [] then [] else [u] | none => []) url lines 0
    { ctx := st0, stack := [], defs := [] } 0
    (Nat.le_trans (remaining_le _ _) hlen) hinv0
  simp only [bind, Except.bind, pure, Except.pure, throw, throwThe, MonadExceptOf.throw]
  split
  · rename_i x hx
    intro h
    cases h
    obtain ⟨⟨_, hni⟩, _⟩ := P1 e hx
    rcases hni with hni | hni <;> cases hni
  · rename_i ps hps
    obtain ⟨_, hinv⟩ := P2 ps hps
    have hlen1 := hinv.len
    match hst : ps.ctx.stack with
    | [] => rw [hst] at hlen1; simp at hlen1
    | _ :: _ :: _ => rw [hst] at hlen1; simp at hlen1
    | [top] =>
      have htop : MOK ps.ctx.schema top := by
        have := hinv.stk
        rw [hst] at this
        exact stackOK_one.mp this
      obtain ⟨F1, _⟩ := finishMatcher_ok conv ps.ctx.schema top htop
      dsimp only
      split
      · rename_i x hx
        intro h
        cases h
        exact F1 e hx
      · split
        · intro h; cases h
        · intro h
          injection h with h
          exact convFail_no_internal _ _ _ _ e h

/-- **`load` never ends in an internal exception** (hypotheses discussed in `ZCV.Props.C07`) -/
theorem load_no_internal (hlow : ∀ x : Str, lower (lower x) = lower x)
    (conv : Conv) (env : Env) (pkgs : Str → Pkg) (s : Schema) (url : Option Str) (lines : List Str) (specs : List Str)
    (urls : List Str)
    (hs : schemaWF s = true) (hp : ∀ p, pkgWF (pkgs p) = true) (henv : EnvOK env urls) (hlen : urls.length ≤ 64)
    (e : String) : load conv env pkgs s url lines specs ≠ .error (.internal e) := by
  have hsok := schemaWF_SOK s hs
  rw [load_eq]
  have O1 := mapM_no_internal addOption specs (fun x _ => (addOption_ok x).1)
  cases hov : specs.mapM addOption with
  | error x =>
    intro h
    cases h
    exact O1 e hov
  | ok overrides =>
    have hpaths : ∀ it ∈ overrides, it.path ≠ [] := by
      intro it hit
      obtain ⟨sp, _, hsp⟩ := mapM_ok_mem addOption specs overrides hov it hit
      exact (addOption_ok sp).2 it hsp
    obtain ⟨B1, B2⟩ := mkBag_ok conv s.top overrides hpaths
    simp only [bind, Except.bind]
    split
    · rename_i x hx
      intro h
      cases h
      split at hx
      · cases hx
      · exact B1 e (map_no_internal _ _ _ hx)
    · rename_i bag hbag
      apply loadTail_no_internal hlow conv env pkgs s url lines bag urls hsok hp henv hlen
      intro b hb
      subst hb
      split at hbag
      · cases hbag
      · obtain ⟨b1, hb1, he⟩ := map_ok_inv hbag
        have he' := Option.some.inj he
        rw [← he']
        exact B2 b1 hb1

end ZCV.Cfg
