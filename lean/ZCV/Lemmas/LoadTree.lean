import ZCV.Lemmas.LoadFinish
/-!
Step 4 of `loadTree_eq_denote`: induction over the tree.
-/
namespace ZCV.Conf
open ZCV ZCV.Cfg

/-- the sections of a container with their spec values -/
def subsI (conv : Conv) (s : Schema) (items : List Item) : List Sub := subsOf items (itemVals conv s items)

theorem subsI_nil (conv : Conv) (s : Schema) : subsI conv s [] = [] := by
  simp [subsI, subsOf]

theorem subsI_kv (conv : Conv) (s : Schema) (k v : Str) (p : Pos) (r : List Item) :
    subsI conv s (.kv k v p :: r) = subsI conv s r := by
  simp [subsI, itemVals, subsOf]

theorem subsI_sect (conv : Conv) (s : Schema) (ty : Str) (nm : Option Str) (sub r : List Item) :
    subsI conv s (.sect ty nm sub :: r) =
      { ty := ty, nm := nm, val := itemVal conv s (.sect ty nm sub) } :: subsI conv s r := by
  simp [subsI, itemVals, subsOf]

theorem keyLines_nil (conv : Conv) (t : SType) : keyLines conv t [] = [] := rfl

theorem keyLines_kv (conv : Conv) (t : SType) (k v : Str) (p : Pos) (r : List Item) :
    keyLines conv t (.kv k v p :: r) = ((conv.key t.keytype k).toOption, { value := v, pos := p }) :: keyLines conv t r := by
  simp [keyLines]

theorem keyLines_sect (conv : Conv) (t : SType) (ty : Str) (nm : Option Str) (sub r : List Item) :
    keyLines conv t (.sect ty nm sub :: r) = keyLines conv t r := by
  simp [keyLines]

/-- the loader on one container: run the items on a fresh matcher, then finish it -/
def evalContainer (conv : Conv) (s : Schema) (t : SType) (nm : Option Str) (items : List Item) : M Val :=
  match evalItems conv s (newMatcher t nm none) items with
  | .error e => .error e
  | .ok m => (finishMatcher conv s m).map (·.1)

/-- the statement for one container's items -/
def PItems (conv : Conv) (s : Schema) (items : List Item) : Prop :=
  tyCanon s items = true → ∀ (t : SType) (nm : Option Str), STypeOK s t →
    (evalContainer conv s t nm items).toOption = containerVal conv s t nm items (itemVals conv s items)

theorem newMatcher_eq_mk (s : Schema) (t : SType) (nm : Option Str) : newMatcher t nm none = mk s t nm [] [] := by
  unfold newMatcher mk
  simp only [Matcher.mk.injEq, true_and, and_true]
  refine ⟨?_, rfl⟩
  apply List.map_congr_left
  intro c _
  unfold slotFn initSlot keySlot sectSlot
  cases c.2 with
  | key ki =>
    simp only [routed, List.filterMap_nil, groupKeys, List.foldl_nil, List.map_nil]
  | sect si =>
    simp only [List.filter_nil, List.map_nil]

theorem good_nil (s : Schema) (t : SType) : Good s t [] [] := by
  refine ⟨rfl, rfl, rfl, ?_⟩
  intro c _
  unfold noOver keyOver sectOver
  cases c.2 with
  | key ki => simp [routed, nodupB]
  | sect si => simp

theorem schemaOK_gettype (s : Schema) (hs : schemaOK s = true) (ty : Str) (tc : SType)
    (h : s.gettype ty = some (.concrete tc)) : STypeOK s tc := by
  unfold Schema.gettype at h
  cases hf : s.types.find? (fun x => x.1 == lower ty) with
  | none => rw [hf] at h; cases h
  | some p =>
    rw [hf] at h
    have hmem := List.mem_of_find?_eq_some hf
    unfold schemaOK at hs
    simp only [Bool.and_eq_true, List.all_eq_true] at hs
    have := hs.2 p hmem
    obtain ⟨n, te⟩ := p
    simp only [Option.map_some, Option.some.injEq] at h
    subst h
    simp only [Bool.and_eq_true] at this
    exact stypeOK_prop s tc this.2

theorem containerVal_shape (conv : Conv) (s : Schema) (t : SType) (nm : Option Str) (items : List Item)
    (sv : List (Option Val)) (v : Val) (h : containerVal conv s t nm items sv = some v) :
    ∃ attrs, v = Val.sect (t.name.getD []) nm attrs := by
  rw [containerVal_eq] at h
  split_hyp h
  all_goals first | cases h | skip
  rw [Option.map_eq_some_iff] at h
  obtain ⟨attrs, _, h2⟩ := h
  exact ⟨attrs, h2.symm⟩

theorem not_goodFull_of_prefix {s : Schema} {t : SType} {kl kl2 : List (Option Str × VI)} {subs subs2 : List Sub}
    (h : ¬ GoodFull s t kl subs) : ¬ GoodFull s t (kl ++ kl2) (subs ++ subs2) :=
  fun hg => h hg.prefix

/-- **one section item** against the invariant -/
theorem sect_item_step (conv : Conv) (s : Schema) (hs : schemaOK s = true) (t : SType) (nm : Option Str)
    (hT : STypeOK s t) (ty : Str) (nm' : Option Str) (sub : List Item)
    (hcan : ∀ tc, s.gettype ty = some (.concrete tc) → tc.name = some ty)
    (hcsub : tyCanon s sub = true) (hsub : PItems conv s sub)
    (kl : List (Option Str × VI)) (secs : List SecR) (hg : Good s t kl (secs.map (toSub conv s))) :
    match evalItem conv s (mk s t nm kl secs) (.sect ty nm' sub) with
    | .ok m' => ∃ r, m' = mk s t nm kl (secs ++ [r]) ∧
        toSub conv s r = { ty := ty, nm := nm', val := itemVal conv s (.sect ty nm' sub) } ∧
        Good s t kl ((secs ++ [r]).map (toSub conv s))
    | .error _ => ¬ GoodFull s t kl
        (secs.map (toSub conv s) ++ [{ ty := ty, nm := nm', val := itemVal conv s (.sect ty nm' sub) }]) := by
  rw [evalItem]
  have hval_none : itemVal conv s (.sect ty nm' sub) = none →
      ¬ GoodFull s t kl (secs.map (toSub conv s) ++ [{ ty := ty, nm := nm', val := itemVal conv s (.sect ty nm' sub) }]) := by
    intro hn hgf
    have := hgf.2
    rw [List.all_append, Bool.and_eq_true] at this
    simp [hn] at this
  have hc3_false : ∀ v, chk3' s t [{ ty := ty, nm := nm', val := v }] = false →
      ¬ GoodFull s t kl (secs.map (toSub conv s) ++ [{ ty := ty, nm := nm', val := v }]) := by
    intro v hf hgf
    have := hgf.1.c3
    rw [chk3'_snoc, Bool.and_eq_true] at this
    have h2 := this.2
    rw [hf] at h2
    cases h2
  cases hgt : s.gettype ty with
  | none =>
    simp only
    apply hval_none
    rw [itemVal, hgt]
  | some te =>
    cases te with
    | abstract_ n subs' =>
      simp only
      apply hval_none
      rw [itemVal, hgt]
    | concrete tc =>
      simp only
      have hname : tc.name = some ty := hcan tc hgt
      have hTc : STypeOK s tc := schemaOK_gettype s hs ty tc hgt
      have hmty : (mk s t nm kl secs).ty = t := rfl
      rw [hmty, hname]
      simp only [Option.getD_some]
      have hslot := getsectioninfo_eq_slotOf s t ty nm' hT
      cases hgi : getsectioninfo s t ty nm' with
      | error e =>
        simp only
        rw [hgi] at hslot
        apply hc3_false
        simp only [chk3', List.all_cons, List.all_nil, Bool.and_true, ← hslot]
        rfl
      | ok ci =>
        simp only
        rw [hgi] at hslot
        simp only [toOption_ok] at hslot
        have hnotabs : isAbs s ty = false := by unfold isAbs; rw [hgt]
        by_cases h1 : (!isAllowedName ci nm') = true
        · simp only [h1, if_true]
          apply hc3_false
          simp only [chk3', List.all_cons, List.all_nil, Bool.and_true, ← hslot]
          simp only [isAllowedName_eq_nameOK] at h1
          simp only [Bool.not_eq_true'] at h1
          simp [h1]
        · simp only [h1, if_false, Bool.false_eq_true]
          by_cases h2 : (!(nm'.isSome || allowUnnamed ci)) = true
          · simp only [h2, if_true]
            apply hc3_false
            simp only [chk3', List.all_cons, List.all_nil, Bool.and_true, ← hslot]
            simp only [allowUnnamed, Bool.not_eq_true'] at h2
            simp [h2]
          · simp only [h2, if_false, Bool.false_eq_true]
            have hP := hsub hcsub tc nm' hTc
            unfold evalContainer at hP
            have hitem : itemVal conv s (.sect ty nm' sub) =
                match containerVal conv s tc nm' sub (itemVals conv s sub) with
                | some v => (conv.sect tc.datatype v).toOption
                | none => none := by
              rw [itemVal, hgt]
              rfl
            cases hev : evalItems conv s (newMatcher tc nm' none) sub with
            | error e =>
              simp only
              rw [hev] at hP
              simp only [toOption_error] at hP
              apply hval_none
              rw [hitem, ← hP]
            | ok child =>
              simp only
              rw [hev] at hP
              simp only at hP
              cases hfin : finishMatcher conv s child with
              | error e =>
                simp only
                rw [hfin] at hP
                apply hval_none
                rw [hitem, ← hP]
                rfl
              | ok vh =>
                obtain ⟨v, hh⟩ := vh
                simp only
                rw [hfin] at hP
                simp only [Except.map, toOption_ok] at hP
                obtain ⟨attrs, hv⟩ := containerVal_shape conv s tc nm' sub _ v hP.symm
                rw [hname] at hv
                simp only [Option.getD_some] at hv
                let r : SecR := { ty := ty, nm := nm', attrs := attrs }
                have hraw : v = r.raw := hv
                have hsubr : toSub conv s r = { ty := ty, nm := nm', val := itemVal conv s (.sect ty nm' sub) } := by
                  unfold toSub sectVal
                  simp only [r, hgt, Sub.mk.injEq, true_and]
                  rw [hitem, ← hP, hraw]
                have hc3 : (nameOK ci nm' && (nm'.isSome || ci.name == ['*']) && !isAbs s ty) = true := by
                  simp only [isAllowedName_eq_nameOK, Bool.not_eq_true', Bool.not_eq_false] at h1
                  simp only [allowUnnamed, Bool.not_eq_true', Bool.not_eq_false] at h2
                  simp [h1, h2, hnotabs]
                have step := sect_step conv s t nm kl secs hT hg r ci hgi hc3
                rw [hraw]
                cases hadd : addSection s (mk s t nm kl secs) ty nm' r.raw with
                | error e =>
                  have hadd' : addSection s (mk s t nm kl secs) r.ty r.nm r.raw = .error e := hadd
                  rw [hadd'] at step
                  simp only at step ⊢
                  intro hgf
                  apply step
                  have := hgf.1
                  rw [← hsubr] at this
                  simpa using this
                | ok m' =>
                  have hadd' : addSection s (mk s t nm kl secs) r.ty r.nm r.raw = .ok m' := hadd
                  rw [hadd'] at step
                  simp only at step ⊢
                  exact ⟨r, step.1, hsubr, step.2⟩

/-- **the items of one container** against the invariant, given the statement for every nested container -/
theorem evalItems_inv (conv : Conv) (s : Schema) (hs : schemaOK s = true) (t : SType) (nm : Option Str)
    (hT : STypeOK s t) : ∀ (items : List Item), tyCanon s items = true →
    (∀ ty nm' sub, Item.sect ty nm' sub ∈ items → PItems conv s sub) →
    ∀ (kl : List (Option Str × VI)) (secs : List SecR), Good s t kl (secs.map (toSub conv s)) →
    match evalItems conv s (mk s t nm kl secs) items with
    | .ok m' => ∃ secs', m' = mk s t nm (kl ++ keyLines conv t items) (secs ++ secs') ∧
        secs'.map (toSub conv s) = subsI conv s items ∧
        Good s t (kl ++ keyLines conv t items) ((secs ++ secs').map (toSub conv s))
    | .error _ => ¬ GoodFull s t (kl ++ keyLines conv t items) (secs.map (toSub conv s) ++ subsI conv s items) := by
  intro items
  induction items with
  | nil =>
    intro _ _ kl secs hg
    rw [evalItems]
    refine ⟨[], ?_, ?_, ?_⟩
    · simp [keyLines_nil]
    · simp [subsI_nil]
    · simpa [keyLines_nil] using hg
  | cons i rest ih =>
    intro hcan hsubs kl secs hg
    rw [evalItems]
    cases i with
    | kv k v p =>
      have hcan' : tyCanon s rest = true := by simpa [tyCanon] using hcan
      have hsubs' : ∀ ty nm' sub, Item.sect ty nm' sub ∈ rest → PItems conv s sub :=
        fun ty nm' sub h => hsubs ty nm' sub (List.mem_cons_of_mem _ h)
      rw [evalItem]
      have step := kv_step conv s t nm kl secs hT _ hg k v p
      rw [keyLines_kv, subsI_kv]
      cases hadd : addValue conv (mk s t nm kl secs) k v p with
      | error e =>
        rw [hadd] at step
        simp only at step ⊢
        have : ¬ GoodFull s t (kl ++ [((conv.key t.keytype k).toOption, { value := v, pos := p })])
            (secs.map (toSub conv s)) := fun h => step h.1
        have := not_goodFull_of_prefix (kl2 := keyLines conv t rest) (subs2 := subsI conv s rest) this
        simpa using this
      | ok m1 =>
        rw [hadd] at step
        simp only at step ⊢
        obtain ⟨hm1, hg1⟩ := step
        rw [hm1]
        have := ih hcan' hsubs' _ secs hg1
        simpa using this
    | sect ty nm' sub =>
      have hcan3 : (∀ tc, s.gettype ty = some (.concrete tc) → tc.name = some ty) ∧
          tyCanon s sub = true ∧ tyCanon s rest = true := by
        unfold tyCanon at hcan
        simp only [Bool.and_eq_true] at hcan
        obtain ⟨⟨h1, h2⟩, h3⟩ := hcan
        refine ⟨?_, h2, h3⟩
        intro tc htc
        rw [htc] at h1
        simpa using h1
      have hsubs' : ∀ ty nm' sub, Item.sect ty nm' sub ∈ rest → PItems conv s sub :=
        fun ty nm' sub h => hsubs ty nm' sub (List.mem_cons_of_mem _ h)
      have step := sect_item_step conv s hs t nm hT ty nm' sub hcan3.1 hcan3.2.1
        (hsubs ty nm' sub List.mem_cons_self) kl secs hg
      rw [keyLines_sect, subsI_sect]
      cases hev : evalItem conv s (mk s t nm kl secs) (.sect ty nm' sub) with
      | error e =>
        rw [hev] at step
        simp only at step ⊢
        have := not_goodFull_of_prefix (kl2 := keyLines conv t rest) (subs2 := subsI conv s rest) step
        simpa using this
      | ok m1 =>
        rw [hev] at step
        simp only at step ⊢
        obtain ⟨r, hm1, hr, hg1⟩ := step
        rw [hm1]
        have := ih hcan3.2.2 hsubs' kl (secs ++ [r]) hg1
        cases hev2 : evalItems conv s (mk s t nm kl (secs ++ [r])) rest with
        | error e =>
          rw [hev2] at this
          simp only at this ⊢
          rw [List.map_append, List.map_cons, List.map_nil, hr] at this
          simpa using this
        | ok m2 =>
          rw [hev2] at this
          simp only at this ⊢
          obtain ⟨secs', h1, h2, h3⟩ := this
          refine ⟨r :: secs', ?_, ?_, ?_⟩
          · rw [h1]; simp
          · rw [List.map_cons, hr, h2]
          · simpa using h3

/-- the statement for a container follows from the statement for the containers nested in it -/
theorem pItems_of_subs (conv : Conv) (s : Schema) (hs : schemaOK s = true) (items : List Item)
    (hsubs : ∀ ty nm' sub, Item.sect ty nm' sub ∈ items → PItems conv s sub) : PItems conv s items := by
  intro hcan t nm hT
  have inv := evalItems_inv conv s hs t nm hT items hcan hsubs [] [] (by simpa using good_nil s t)
  unfold evalContainer
  rw [newMatcher_eq_mk s]
  cases hev : evalItems conv s (mk s t nm [] []) items with
  | error e =>
    rw [hev] at inv
    simp only [List.nil_append, List.map_nil] at inv
    simp only [toOption_error]
    exact (containerVal_none conv s t nm items _ inv).symm
  | ok m' =>
    rw [hev] at inv
    simp only [List.nil_append] at inv
    obtain ⟨secs', h1, h2, h3⟩ := inv
    simp only
    rw [h1, finish_mk conv s t nm _ secs' hT h3, containerVal_good conv s t nm items _ (by rw [← subsI, ← h2]; exact h3)]
    rw [h2]
    rfl

theorem pItems_all (conv : Conv) (s : Schema) (hs : schemaOK s = true) :
    ∀ (l : List Item) (ty : Str) (nm' : Option Str) (sub : List Item), Item.sect ty nm' sub ∈ l → PItems conv s sub
  | [], _, _, _, h => by cases h
  | .kv _ _ _ :: r, ty, nm', sub, h => by
    rcases List.mem_cons.mp h with h | h
    · cases h
    · exact pItems_all conv s hs r ty nm' sub h
  | .sect ty0 nm0 sub0 :: r, ty, nm', sub, h => by
    rcases List.mem_cons.mp h with h | h
    · cases h
      exact pItems_of_subs conv s hs sub0 (pItems_all conv s hs sub0)
    · exact pItems_all conv s hs r ty nm' sub h

theorem pItems (conv : Conv) (s : Schema) (hs : schemaOK s = true) (items : List Item) : PItems conv s items :=
  pItems_of_subs conv s hs items (pItems_all conv s hs items)

end ZCV.Conf
