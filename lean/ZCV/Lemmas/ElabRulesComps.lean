import ZCV.Lemmas.ElabRulesDoc
/-!
The component registry of a schema only grows while documents are read: every handler leaves `es.components` alone
except `start_import`, which appends.  Consequence: once a component is recorded, every later `<import>` of it — also
one met while the component itself is being read — is skipped.
-/
namespace ZCV.Elab
open ZCV ZCV.Cfg

/-- the component registry (`SchemaType._components`) in a loader state -/
def comps (st : PSt) : List Str := st.es.components

/-- hooks that never forget a component -/
def Hooks.Mono (h : Hooks) : Prop :=
  (∀ es tree es', h.loadComponent es tree = .ok es' → es.components ⊆ es'.components) ∧
  (∀ es tree es', h.extendSchema es tree = .ok es' → es.components ⊆ es'.components)

theorem setTopChildren_comps (st : PSt) (ch : List (Option Str × EInfo)) : comps (setTopChildren st ch) = comps st := by
  unfold setTopChildren comps
  split <;> rfl

theorem addChild_comps {st st' : PSt} {key : Option Str} {info : EInfo} (h : addChild st key info = .ok st') :
    comps st' = comps st := by
  obtain ⟨ch, _, _, _, rfl⟩ := addChild_ok h
  exact setTopChildren_comps _ _

theorem startSection_comps {env : Env} {st st' : PSt} {attrs : Attrs} (h : startSection env st attrs = .ok st') :
    comps st' = comps st := by
  unfold startSection at h
  simp only [bind, Except.bind, pure, Except.pure] at h
  repeat' split at h
  all_goals first | (cases h; done) | skip
  rename_i x v hadd
  cases h
  exact (addChild_comps hadd : comps v = comps st)

theorem startMultisection_comps {env : Env} {st st' : PSt} {attrs : Attrs}
    (h : startMultisection env st attrs = .ok st') : comps st' = comps st := by
  unfold startMultisection at h
  simp only [bind, Except.bind, pure, Except.pure, serr] at h
  repeat' split at h
  all_goals first | (cases h; done) | skip
  rename_i x v hadd
  cases h
  exact (addChild_comps hadd : comps v = comps st)

theorem startKey_comps {env : Env} {st st' : PSt} {attrs : Attrs} (h : startKey env st attrs = .ok st') :
    comps st' = comps st := by
  rw [startKey_eq] at h
  obtain ⟨r, _, h⟩ := er_bind_ok h
  obtain ⟨req, _, h⟩ := er_bind_ok h
  obtain ⟨k1, _, h⟩ := er_bind_ok h
  obtain ⟨k2, _, h⟩ := er_bind_ok h
  obtain ⟨st1, hst1, h⟩ := er_bind_ok h
  cases h
  exact (addChild_comps hst1 : comps st1 = comps st)

theorem startMultikey_comps {env : Env} {st st' : PSt} {attrs : Attrs} (h : startMultikey env st attrs = .ok st') :
    comps st' = comps st := by
  rw [startMultikey_eq] at h
  split at h
  · cases h
  obtain ⟨r, _, h⟩ := er_bind_ok h
  obtain ⟨req, _, h⟩ := er_bind_ok h
  obtain ⟨st1, hst1, h⟩ := er_bind_ok h
  cases h
  exact (addChild_comps hst1 : comps st1 = comps st)

theorem startAbstracttype_comps {st st' : PSt} {attrs : Attrs} (h : startAbstracttype st attrs = .ok st') :
    comps st' = comps st := by
  unfold startAbstracttype at h
  split at h
  · obtain ⟨n, _, h⟩ := er_bind_ok h
    obtain ⟨es, hes, h⟩ := er_bind_ok h
    cases h
    obtain ⟨_, rfl⟩ := addType_ok hes
    rfl
  · cases h

theorem startSectiontype_comps {env : Env} {st st' : PSt} {attrs : Attrs}
    (h : startSectiontype env st attrs = .ok st') : comps st' = comps st := by
  obtain ⟨v, name, st1, es2, es3, _, _, h3, h4, h5, rfl⟩ := startSectiontype_ok h
  obtain ⟨p, rfl⟩ := pushPrefix_ok h3
  obtain ⟨_, t, _, rfl⟩ := sectiontypeBase_ok h4
  cases hi : attr attrs "implements" with
  | none => rw [sectiontypeImplements_none _ _ _ hi] at h5; cases h5; rfl
  | some i =>
    obtain ⟨_, an, _, _, _, _, _, rfl⟩ := sectiontypeImplements_some_ok hi h5
    rfl

theorem startImport_comps {env : Env} {h : Hooks} {st st' : PSt} {attrs : Attrs} (hm : h.Mono)
    (hs : startImport env h st attrs = .ok st') : comps st ⊆ comps st' := by
  unfold startImport at hs
  simp only [bind, Except.bind, pure, Except.pure, serr] at hs
  repeat' split at hs
  all_goals first
    | (cases hs; done)
    | (cases hs; exact fun x hx => hx)
    | (rename_i es2 hl; cases hs; intro x hx; exact hm.1 _ _ _ hl (List.mem_append_left _ hx))

theorem startHandled_comps {env : Env} {h : Hooks} {t : Str} {a : Attrs} {st st' : PSt} (hm : h.Mono)
    (hs : startHandled env h t a st = .ok st') : comps st ⊆ comps st' := by
  unfold startHandled at hs
  repeat' split at hs
  · exact startImport_comps hm hs
  · rw [startAbstracttype_comps hs]; exact fun x hx => hx
  · rw [startSectiontype_comps hs]; exact fun x hx => hx
  · rw [startKey_comps hs]; exact fun x hx => hx
  · rw [startMultikey_comps hs]; exact fun x hx => hx
  · rw [startSection_comps hs]; exact fun x hx => hx
  · rw [startMultisection_comps hs]; exact fun x hx => hx
  · cases hs

theorem popFrame_comps {st st' : PSt} (h : popFrame st = .ok st') : comps st' = comps st := by
  unfold popFrame at h
  split at h
  · cases h; rfl
  · cases h

theorem replaceLastChild_comps {st st' : PSt} {k : EKey} (h : replaceLastChild st k = .ok st') :
    comps st' = comps st := by
  unfold replaceLastChild at h
  obtain ⟨ch, _, h⟩ := er_bind_ok h
  split at h
  · cases h; exact setTopChildren_comps _ _
  · cases h

theorem endKey_comps {env : Env} {st st' : PSt} (h : endKey env st = .ok st') : comps st' = comps st := by
  cases hs : st.stack with
  | nil => unfold endKey at h; rw [hs] at h; cases h
  | cons f rest =>
    cases f with
    | key k =>
      rw [endKey_eq env st k rest hs] at h
      obtain ⟨k', _, h⟩ := er_bind_ok h
      rw [replaceLastChild_comps h]; rfl
    | schema => unfold endKey at h; rw [hs] at h; cases h
    | stype n => unfold endKey at h; rw [hs] at h; cases h
    | atype n => unfold endKey at h; rw [hs] at h; cases h
    | sect a b => unfold endKey at h; rw [hs] at h; cases h

theorem endMultikey_comps {env : Env} {st st' : PSt} (h : endMultikey env st = .ok st') : comps st' = comps st := by
  unfold endMultikey at h
  split at h
  · simp only [bind, Except.bind, pure, Except.pure] at h
    repeat' split at h
    all_goals first | (cases h; done) | skip
    all_goals (rw [replaceLastChild_comps h]; rfl)
  · cases h

theorem endHandled_comps {env : Env} {t : Str} {st st' : PSt} (h : endHandled env t st = .ok st') :
    comps st' = comps st := by
  unfold endHandled at h
  repeat' split at h
  · cases h; rfl
  · exact popFrame_comps h
  · unfold endSectiontype at h; rw [popFrame_comps h]; rfl
  · exact endKey_comps h
  · exact endMultikey_comps h
  · exact popFrame_comps h
  · exact popFrame_comps h
  · cases h

theorem markDesc_comps {isC : Bool} {st st' : PSt} (h : markDesc isC st = .ok st') : comps st' = comps st := by
  unfold markDesc at h
  simp only at h
  repeat' split at h
  all_goals first | (cases h; done) | (cases h; rfl)

theorem markExample_comps {st st' : PSt} (h : markExample st = .ok st') : comps st' = comps st := by
  unfold markExample at h
  simp only at h
  repeat' split at h
  all_goals first | (cases h; done) | (cases h; rfl)

theorem charactersTag_comps {isC : Bool} {t : Str} {a : Attrs} {data : Str} {st st' : PSt}
    (h : charactersTag isC t a data st = .ok st') : comps st' = comps st := by
  unfold charactersTag at h
  split at h
  · split at h
    · split at h
      · cases h
      · obtain ⟨k', _, h⟩ := er_bind_ok h
        cases h; rfl
    · cases h
    · cases h
  · split at h
    · exact markDesc_comps h
    · split at h
      · exact markExample_comps h
      · split at h
        · cases h; rfl
        · cases h

/-- `start_schema` of a base schema (`ext = some es`) keeps the extending schema's components -/
theorem startSchema_comps {env : Env} {h : Hooks} {es : ES} {st st' : PSt} {attrs : Attrs} (hm : h.Mono)
    (hs : startSchema env h (some es) st attrs = .ok st') : es.components ⊆ comps st' := by
  unfold startSchema at hs
  obtain ⟨st1, _, hs⟩ := er_bind_ok hs
  obtain ⟨hd, _, hs⟩ := er_bind_ok hs
  obtain ⟨⟨kt, dt⟩, _, hs⟩ := er_bind_ok hs
  simp only at hs
  split at hs
  · rename_i ex hex
    obtain ⟨st4, h4, hs⟩ := er_bind_ok hs
    obtain ⟨k, _, hs⟩ := er_bind_ok hs
    obtain ⟨d', _, hs⟩ := er_bind_ok hs
    cases hs
    show es.components ⊆ st4.es.components
    refine foldlM_inv (fun (acc : PSt) => es.components ⊆ acc.es.components) _ ?_ _ _ _ (fun x hx => hx) h4
    intro b src b' hb hstep
    simp only [bind, Except.bind, pure, Except.pure, serr] at hstep
    repeat' split at hstep
    all_goals first | (cases hstep; done) | skip
    rename_i es' hes'
    cases hstep
    exact fun x hx => hm.2 _ _ _ hes' (hb hx)
  · cases hs; exact fun x hx => hx

theorem endSchema_comps {ext : Bool} {st st' : PSt} (h : endSchema ext st = .ok st') : comps st' = comps st := by
  unfold endSchema at h
  repeat' split at h
  all_goals first | (cases h; done) | (cases h; rfl)

theorem nestingCheck_topLevel (d : DocKind) (par : Str) : nestingCheck par d.topLevel ≠ .ok () := by
  intro h
  obtain ⟨ps, h1, _⟩ := (nestingCheck_ok_iff par d.topLevel).1 h
  have : ∀ q ∈ Gen.allowedParents, q.1 ≠ Gen.schemaTopLevel ∧ q.1 ≠ Gen.componentTopLevel := by decide +kernel
  cases d with
  | schema ext => exact (this _ h1).1 rfl
  | component => exact (this _ h1).2 rfl

/-- where a pass starts: below an element, or at the root of a component, or at the root of a base schema that
continues the extending schema `es` (the way `hooks` call it) -/
def StartOk (d : DocKind) (p : Option Str) (st : PSt) : Prop :=
  match p, d with
  | some _, _ => True
  | none, .component => True
  | none, .schema (some es) => es = st.es
  | none, .schema none => False

mutual
/-- reading an element (with everything inside) never removes a component from the registry -/
theorem visitElem_comps {env : Env} {h : Hooks} {d : DocKind} (hm : h.Mono) :
    ∀ (n : Node) (p : Option Str) (st st' : PSt), StartOk d p st → visitElem env h d p st n = .ok st' →
      comps st ⊆ comps st'
  | .text _, p, st, st', _, hv => by
    unfold visitElem at hv; cases hv; exact fun x hx => hx
  | .elem t a c, p, st, st', hok, hv => by
    obtain ⟨hplace, hp⟩ := visitElem_ok_processed hv
    rcases hp.inv with ⟨ht, s1, s2, hs, hc, he⟩ | ⟨_, s1, s2, hs, hc, he⟩ | ⟨_, _, data, _, hch⟩
    · cases p with
      | some par => exact absurd (ht ▸ hplace) (nestingCheck_topLevel d par)
      | none =>
        have h2 := visitChildren_comps hm c t s1 s2 hc
        cases d with
        | component =>
          simp only at hs he
          obtain ⟨q, rfl⟩ := pushPrefix_ok hs
          cases he
          exact h2
        | schema ext =>
          simp only at hs he
          cases ext with
          | none => exact absurd hok (by simp [StartOk])
          | some es =>
            have hes : es = st.es := hok
            have h1 := startSchema_comps hm hs
            intro x hx
            have : x ∈ comps st' := by
              rw [endSchema_comps he]
              exact h2 (h1 (by rw [hes]; exact hx))
            exact this
    · have h1 := startHandled_comps hm hs
      have h2 := visitChildren_comps hm c t s1 s2 hc
      intro x hx
      rw [endHandled_comps he]
      exact h2 (h1 hx)
    · rw [charactersTag_comps hch]; exact fun x hx => hx
/-- the same for the children of an element -/
theorem visitChildren_comps {env : Env} {h : Hooks} {d : DocKind} (hm : h.Mono) :
    ∀ (l : List Node) (parent : Str) (st st' : PSt), visitChildren env h d parent st l = .ok st' →
      comps st ⊆ comps st'
  | [], parent, st, st', hv => by
    rw [visitChildren] at hv; cases hv; exact fun x hx => hx
  | .text s :: r, parent, st, st', hv => by
    rw [visitChildren_text] at hv
    split at hv
    · exact visitChildren_comps hm r parent st st' hv
    · cases hv
  | .elem t a c :: r, parent, st, st', hv => by
    rw [visitChildren_elem] at hv
    obtain ⟨st1, h1, h2⟩ := er_bind_ok hv
    have g1 := visitElem_comps hm (.elem t a c) (some parent) st st1 trivial h1
    have g2 := visitChildren_comps hm r parent st1 st' h2
    exact fun x hx => g2 (g1 hx)
end

/-- the hooks the loader really uses (nested documents read with one unit of fuel less) never forget a component -/
theorem hooks_mono (env : Env) : ∀ n, (hooks env n).Mono
  | 0 => by constructor <;> (intro es tree es' h; simp only [hooks] at h; cases h)
  | n + 1 => by
    constructor
    · intro es tree es' h
      simp only [hooks] at h
      cases hv : visitElem env (hooks env n) .component none { es := es } tree with
      | error e => rw [hv] at h; cases h
      | ok st' =>
        rw [hv] at h; cases h
        exact visitElem_comps (d := .component) (hooks_mono env n) tree none { es := es } st' trivial hv
    · intro es tree es' h
      simp only [hooks] at h
      cases hv : visitElem env (hooks env n) (.schema (some es)) none { es := es } tree with
      | error e => rw [hv] at h; cases h
      | ok st' =>
        rw [hv] at h; cases h
        exact visitElem_comps (d := .schema (some es)) (hooks_mono env n) tree none { es := es } st' rfl hv

theorem visitChildren_ok_mem_comps {env : Env} {h : Hooks} {d : DocKind} {parent : Str} (hm : h.Mono) (C : List Str) :
    ∀ {l : List Node} {st st' : PSt}, C ⊆ comps st → visitChildren env h d parent st l = .ok st' →
      ∀ t a c, Node.elem t a c ∈ l →
        ∃ sa sb, C ⊆ comps sa ∧ visitElem env h d (some parent) sa (.elem t a c) = .ok sb := by
  intro l
  induction l with
  | nil => intro st st' _ _ t a c hn; cases hn
  | cons x l ih =>
    intro st st' hC hv t a c hn
    cases x with
    | text s =>
      rw [visitChildren_text] at hv
      by_cases hb : (strip s).isEmpty = true
      · rw [if_pos hb] at hv
        rcases List.mem_cons.1 hn with h0 | hn
        · cases h0
        · exact ih hC hv t a c hn
      · rw [if_neg hb] at hv; cases hv
    | elem t0 a0 c0 =>
      rw [visitChildren_elem] at hv
      obtain ⟨st1, h1, h2⟩ := er_bind_ok hv
      rcases List.mem_cons.1 hn with h0 | hn
      · cases h0; exact ⟨st, st1, hC, h1⟩
      · have hC1 : C ⊆ comps st1 :=
          fun x hx => visitElem_comps hm (.elem t0 a0 c0) (some parent) st st1 trivial h1 (hC hx)
        exact ih hC1 h2 t a c hn

/-- every element with a handler in an accepted (sub)document had its start handler run in a state that still lists
every component that was listed when the pass started -/
theorem accepted_start_comps {env : Env} {h : Hooks} {d : DocKind} (hm : h.Mono) (C : List Str) :
    ∀ {p : Option Str} {root : Node} {q : Option Str} {n : Node}, Occurs p root q n →
      ∀ {st st' : PSt}, StartOk d p st → C ⊆ comps st → visitElem env h d p st root = .ok st' →
      ∀ t a c, n = .elem t a c → t ∈ Gen.handledTags →
        ∃ s0 s1, C ⊆ comps s0 ∧ startHandled env h t a s0 = .ok s1 := by
  intro p root q n ho
  induction ho with
  | here =>
    intro st st' _ hC hv t a c hn ht
    subst hn
    obtain ⟨h1, h2⟩ := handledTag d t ht
    rcases (visitElem_ok_processed hv).2.inv with ⟨ht', _⟩ | ⟨_, s1, s2, hs, _, _⟩ | ⟨hh, _⟩
    · exact absurd ht' h1
    · exact ⟨st, s1, hC, hs⟩
    · rw [h2] at hh; cases hh
  | @child p t0 a0 children c0 q n hmem hocc ih =>
    intro st st' hok hC hv t a c hn ht
    obtain ⟨hplace, hp⟩ := visitElem_ok_processed hv
    cases c0 with
    | text s =>
      cases hocc with
      | here => cases hn
    | elem t1 a1 c1 =>
      have key : ∀ s1 s2, C ⊆ comps s1 → visitChildren env h d t0 s1 children = .ok s2 →
          ∃ s0 s1, C ⊆ comps s0 ∧ startHandled env h t a s0 = .ok s1 := by
        intro s1 s2 hC1 hc
        obtain ⟨sa, sb, hCa, hx⟩ := visitChildren_ok_mem_comps hm C hC1 hc t1 a1 c1 hmem
        exact ih trivial hCa hx t a c hn ht
      rcases hp.inv with ⟨ht', s1, s2, hs, hc, _⟩ | ⟨_, s1, s2, hs, hc, _⟩ | ⟨_, _, data, hct, _⟩
      · cases p with
        | some par => exact absurd (ht' ▸ hplace) (nestingCheck_topLevel d par)
        | none =>
          cases d with
          | component =>
            simp only at hs
            obtain ⟨q', rfl⟩ := pushPrefix_ok hs
            refine key _ s2 ?_ hc
            exact fun x hx => hC hx
          | schema ext =>
            simp only at hs
            cases ext with
            | none => exact absurd hok (by simp [StartOk])
            | some es =>
              have hes : es = st.es := hok
              have h1 := startSchema_comps hm hs
              exact key s1 s2 (fun x hx => h1 (by rw [hes]; exact hC hx)) hc
      · exact key s1 s2 (fun x hx => startHandled_comps hm hs (hC hx)) hc
      · obtain ⟨x, hx⟩ := collectText_ok_text hct _ hmem
        cases hx

end ZCV.Elab
