import ZCV.Lemmas.ElabRulesComps
import ZCV.Lemmas.NoInternalLower
/-!
The keys of the type table of every schema the schema loader returns are fixed points of `lower`
(`elab_types_keys_lower`): a type name enters the table only through `addtype`, with a name that went through the
`basic-key` datatype (`… .lower()`), and no handler renames an entry.

Route (parallel to `ElabRulesComps`): `KeysLower es` is kept by every handler, hence by the tree walk and by nested
documents.  Nothing is asked of the key types.
-/
namespace ZCV.Elab
open ZCV ZCV.Cfg

/-- every key of the type table is a fixed point of `str.lower` -/
def KeysLower (es : ES) : Prop := ∀ k ∈ es.typeNames, lower k = k

/-- hooks (nested documents) that keep `KeysLower` -/
def Hooks.KeepLower (h : Hooks) : Prop :=
  (∀ es tree es', KeysLower es → h.loadComponent es tree = .ok es' → KeysLower es') ∧
  (∀ es tree es', KeysLower es → h.extendSchema es tree = .ok es' → KeysLower es')

theorem dis_keysLower_of_names {a b : ES} (h : b.typeNames = a.typeNames) (ha : KeysLower a) : KeysLower b := by
  unfold KeysLower; rw [h]; exact ha

theorem dis_keysLower_snoc {es : ES} {n : Str} {e : EEntry} (hes : KeysLower es) (hn : lower n = n) :
    KeysLower { es with types := es.types ++ [(n, e)] } := by
  intro k hk
  simp only [ES.typeNames, List.map_append, List.map_cons, List.map_nil, List.mem_append, List.mem_singleton] at hk
  rcases hk with hk | hk
  · exact hes k hk
  · rw [hk]; exact hn

/-- what `basic-key` returns is lower-cased -/
theorem dis_basicKeyE_lower {s r : Str} (h : basicKeyE s = .ok r) : lower r = r := by
  unfold basicKeyE at h
  split at h
  · rename_i r' hr
    cases h
    unfold DT.basicKey DT.regexConv at hr
    split at hr
    · simp only [Except.map, Except.ok.injEq] at hr; subst hr; exact lower_idem _
    · simp [Except.map] at hr
  · cases h

/-! ### handlers that leave the keys of the type table alone -/

theorem dis_addChild_typeNames {st st' : PSt} {key : Option Str} {info : EInfo} (h : addChild st key info = .ok st') :
    st'.es.typeNames = st.es.typeNames := by
  obtain ⟨ch, _, _, _, rfl⟩ := addChild_ok h
  exact setTopChildren_typeNames _ _

theorem dis_startSection_typeNames {env : Env} {st st' : PSt} {attrs : Attrs} (h : startSection env st attrs = .ok st') :
    st'.es.typeNames = st.es.typeNames := by
  unfold startSection at h
  simp only [bind, Except.bind, pure, Except.pure] at h
  repeat' split at h
  all_goals first | (cases h; done) | skip
  rename_i x v hadd
  cases h
  exact (dis_addChild_typeNames hadd : v.es.typeNames = st.es.typeNames)

theorem dis_startMultisection_typeNames {env : Env} {st st' : PSt} {attrs : Attrs}
    (h : startMultisection env st attrs = .ok st') : st'.es.typeNames = st.es.typeNames := by
  unfold startMultisection at h
  simp only [bind, Except.bind, pure, Except.pure, serr] at h
  repeat' split at h
  all_goals first | (cases h; done) | skip
  rename_i x v hadd
  cases h
  exact (dis_addChild_typeNames hadd : v.es.typeNames = st.es.typeNames)

theorem dis_startKey_typeNames {env : Env} {st st' : PSt} {attrs : Attrs} (h : startKey env st attrs = .ok st') :
    st'.es.typeNames = st.es.typeNames := by
  rw [startKey_eq] at h
  obtain ⟨r, _, h⟩ := er_bind_ok h
  obtain ⟨req, _, h⟩ := er_bind_ok h
  obtain ⟨k1, _, h⟩ := er_bind_ok h
  obtain ⟨k2, _, h⟩ := er_bind_ok h
  obtain ⟨st1, hst1, h⟩ := er_bind_ok h
  cases h
  exact (dis_addChild_typeNames hst1 : st1.es.typeNames = st.es.typeNames)

theorem dis_startMultikey_typeNames {env : Env} {st st' : PSt} {attrs : Attrs}
    (h : startMultikey env st attrs = .ok st') : st'.es.typeNames = st.es.typeNames := by
  rw [startMultikey_eq] at h
  split at h
  · cases h
  obtain ⟨r, _, h⟩ := er_bind_ok h
  obtain ⟨req, _, h⟩ := er_bind_ok h
  obtain ⟨st1, hst1, h⟩ := er_bind_ok h
  cases h
  exact (dis_addChild_typeNames hst1 : st1.es.typeNames = st.es.typeNames)

theorem dis_popFrame_es {st st' : PSt} (h : popFrame st = .ok st') : st'.es = st.es := by
  unfold popFrame at h
  split at h
  · cases h; rfl
  · cases h

theorem dis_replaceLastChild_typeNames {st st' : PSt} {k : EKey} (h : replaceLastChild st k = .ok st') :
    st'.es.typeNames = st.es.typeNames := by
  unfold replaceLastChild at h
  obtain ⟨ch, _, h⟩ := er_bind_ok h
  split at h
  · cases h; exact setTopChildren_typeNames _ _
  · cases h

theorem dis_endKey_typeNames {env : Env} {st st' : PSt} (h : endKey env st = .ok st') :
    st'.es.typeNames = st.es.typeNames := by
  cases hs : st.stack with
  | nil => unfold endKey at h; rw [hs] at h; cases h
  | cons f rest =>
    cases f with
    | key k =>
      rw [endKey_eq env st k rest hs] at h
      obtain ⟨k', _, h⟩ := er_bind_ok h
      rw [dis_replaceLastChild_typeNames h]
    | schema => unfold endKey at h; rw [hs] at h; cases h
    | stype n => unfold endKey at h; rw [hs] at h; cases h
    | atype n => unfold endKey at h; rw [hs] at h; cases h
    | sect a b => unfold endKey at h; rw [hs] at h; cases h

theorem dis_endMultikey_typeNames {env : Env} {st st' : PSt} (h : endMultikey env st = .ok st') :
    st'.es.typeNames = st.es.typeNames := by
  unfold endMultikey at h
  split at h
  · simp only [bind, Except.bind, pure, Except.pure] at h
    repeat' split at h
    all_goals first | (cases h; done) | skip
    all_goals (rw [dis_replaceLastChild_typeNames h])
  · cases h

theorem dis_endHandled_typeNames {env : Env} {t : Str} {st st' : PSt} (h : endHandled env t st = .ok st') :
    st'.es.typeNames = st.es.typeNames := by
  unfold endHandled at h
  repeat' split at h
  · cases h; rfl
  · rw [dis_popFrame_es h]
  · unfold endSectiontype at h; rw [dis_popFrame_es h]; rfl
  · exact dis_endKey_typeNames h
  · exact dis_endMultikey_typeNames h
  · rw [dis_popFrame_es h]
  · rw [dis_popFrame_es h]
  · cases h

theorem dis_map_typeNames (es : ES) (g : Str × EEntry → Str × EEntry) (hk : ∀ p, (g p).1 = p.1) :
    ({ es with types := es.types.map g } : ES).typeNames = es.typeNames := by
  simp only [ES.typeNames, List.map_map]
  apply List.map_congr_left
  intro x _
  exact hk x

theorem dis_markDesc_typeNames {isC : Bool} {st st' : PSt} (h : markDesc isC st = .ok st') :
    st'.es.typeNames = st.es.typeNames := by
  unfold markDesc at h
  simp only at h
  repeat' split at h
  all_goals first
    | (cases h; done)
    | (cases h; rfl)
    | (cases h; exact updType_typeNames _ _ _)
    | (cases h; refine dis_map_typeNames _ _ ?_; intro ⟨k, e⟩; dsimp only; split <;> rfl)

theorem dis_markExample_typeNames {st st' : PSt} (h : markExample st = .ok st') :
    st'.es.typeNames = st.es.typeNames := by
  unfold markExample at h
  simp only at h
  repeat' split at h
  all_goals first
    | (cases h; done)
    | (cases h; rfl)
    | (cases h; exact updType_typeNames _ _ _)

theorem dis_charactersTag_typeNames {isC : Bool} {t : Str} {a : Attrs} {data : Str} {st st' : PSt}
    (h : charactersTag isC t a data st = .ok st') : st'.es.typeNames = st.es.typeNames := by
  unfold charactersTag at h
  split at h
  · split at h
    · split at h
      · cases h
      · obtain ⟨k', _, h⟩ := er_bind_ok h
        cases h; rfl
    · cases h
    · cases h
  · split at h
    · exact dis_markDesc_typeNames h
    · split at h
      · exact dis_markExample_typeNames h
      · split at h
        · cases h; rfl
        · cases h

theorem dis_endSchema_typeNames {ext : Bool} {st st' : PSt} (h : endSchema ext st = .ok st') :
    st'.es.typeNames = st.es.typeNames := by
  unfold endSchema at h
  repeat' split at h
  all_goals first | (cases h; done) | (cases h; rfl)

/-! ### handlers that add a type -/

theorem dis_startAbstracttype_lower {st st' : PSt} {attrs : Attrs} (hes : KeysLower st.es)
    (h : startAbstracttype st attrs = .ok st') : KeysLower st'.es := by
  unfold startAbstracttype at h
  split at h
  · obtain ⟨n, hn, h⟩ := er_bind_ok h
    obtain ⟨es, hadd, h⟩ := er_bind_ok h
    cases h
    obtain ⟨_, rfl⟩ := addType_ok hadd
    exact dis_keysLower_snoc hes (dis_basicKeyE_lower hn)
  · cases h

theorem dis_startSectiontype_lower {env : Env} {st st' : PSt} {attrs : Attrs} (hes : KeysLower st.es)
    (h : startSectiontype env st attrs = .ok st') : KeysLower st'.es := by
  obtain ⟨v, name, t, _, hb, _, hnames, _⟩ := startSectiontype_result h
  intro k hk
  rw [hnames, List.mem_append, List.mem_singleton] at hk
  rcases hk with hk | hk
  · exact hes k hk
  · rw [hk]; exact dis_basicKeyE_lower hb

theorem dis_startImport_lower {env : Env} {h : Hooks} {st st' : PSt} {attrs : Attrs} (hm : h.KeepLower)
    (hes : KeysLower st.es) (hs : startImport env h st attrs = .ok st') : KeysLower st'.es := by
  unfold startImport at hs
  simp only [bind, Except.bind, pure, Except.pure, serr] at hs
  repeat' split at hs
  all_goals first
    | (cases hs; done)
    | (cases hs; exact hes)
    | (rename_i es2 hl; cases hs; refine hm.1 _ _ _ ?_ hl; exact fun k hk => hes k hk)

theorem dis_startHandled_lower {env : Env} {h : Hooks} {t : Str} {a : Attrs} {st st' : PSt} (hm : h.KeepLower)
    (hes : KeysLower st.es) (hs : startHandled env h t a st = .ok st') : KeysLower st'.es := by
  unfold startHandled at hs
  repeat' split at hs
  · exact dis_startImport_lower hm hes hs
  · exact dis_startAbstracttype_lower hes hs
  · exact dis_startSectiontype_lower hes hs
  · exact dis_keysLower_of_names (dis_startKey_typeNames hs) hes
  · exact dis_keysLower_of_names (dis_startMultikey_typeNames hs) hes
  · exact dis_keysLower_of_names (dis_startSection_typeNames hs) hes
  · exact dis_keysLower_of_names (dis_startMultisection_typeNames hs) hes
  · cases hs

/-- the schema object a base-schema document continues has lower-case keys -/
def DocLower : DocKind → Prop
  | .schema (some es) => KeysLower es
  | _ => True

theorem dis_es0_lower {ext : Option ES} (top : EType) (hdl : Option Str) :
    DocLower (.schema ext) → KeysLower (match ext with
      | some es => es
      | none => { types := [], top := top, handler := hdl, components := [] }) := by
  intro hext
  cases ext with
  | some es => exact hext
  | none => intro k hk; cases hk

/-- `start_schema` starts from the extending schema's object (base schema) or from an empty type table; the base
schemas named by `extends` are read through the hooks -/
theorem dis_startSchema_lower {env : Env} {h : Hooks} {ext : Option ES} {st st' : PSt} {attrs : Attrs} (hm : h.KeepLower)
    (hext : DocLower (.schema ext)) (hs : startSchema env h ext st attrs = .ok st') : KeysLower st'.es := by
  unfold startSchema at hs
  obtain ⟨st1, _, hs⟩ := er_bind_ok hs
  obtain ⟨hd, _, hs⟩ := er_bind_ok hs
  obtain ⟨⟨kt, dt⟩, _, hs⟩ := er_bind_ok hs
  simp only at hs
  have h0 := fun top hdl => dis_es0_lower (ext := ext) top hdl hext
  split at hs
  · rename_i ex hex
    obtain ⟨st4, h4, hs⟩ := er_bind_ok hs
    obtain ⟨k, _, hs⟩ := er_bind_ok hs
    obtain ⟨d', _, hs⟩ := er_bind_ok hs
    cases hs
    show KeysLower { st4.es with top := _ }
    refine dis_keysLower_of_names (a := st4.es) rfl ?_
    refine foldlM_inv (fun (acc : PSt) => KeysLower acc.es) _ ?_ _ _ _ (h0 _ _) h4
    intro b src b' hb hstep
    simp only [bind, Except.bind, pure, Except.pure, serr] at hstep
    repeat' split at hstep
    all_goals first | (cases hstep; done) | skip
    rename_i es' hes'
    cases hstep
    exact hm.2 _ _ _ hb hes'
  · cases hs
    exact dis_keysLower_of_names (b := { (_ : ES) with top := _ }) rfl (h0 _ _)

/-! ### the walk -/

mutual
/-- reading an element (with everything inside) keeps the keys of the type table lower-cased -/
theorem dis_visitElem_lower {env : Env} {h : Hooks} {d : DocKind} (hm : h.KeepLower) (hd : DocLower d) :
    ∀ (n : Node) (p : Option Str) (st st' : PSt), KeysLower st.es → visitElem env h d p st n = .ok st' →
      KeysLower st'.es
  | .text _, p, st, st', hes, hv => by
    unfold visitElem at hv; cases hv; exact hes
  | .elem t a c, p, st, st', hes, hv => by
    obtain ⟨_, hp⟩ := visitElem_ok_processed hv
    rcases hp.inv with ⟨_, s1, s2, hs, hc, he⟩ | ⟨_, s1, s2, hs, hc, he⟩ | ⟨_, _, data, _, hch⟩
    · cases d with
      | component =>
        simp only at hs he
        obtain ⟨q, rfl⟩ := pushPrefix_ok hs
        cases he
        refine dis_visitChildren_lower hm hd c t _ s2 ?_ hc
        exact hes
      | schema ext =>
        simp only at hs he
        have h1 := dis_startSchema_lower hm hd hs
        have h2 := dis_visitChildren_lower hm hd c t s1 s2 h1 hc
        exact dis_keysLower_of_names (dis_endSchema_typeNames he) h2
    · have h1 := dis_startHandled_lower hm hes hs
      have h2 := dis_visitChildren_lower hm hd c t s1 s2 h1 hc
      exact dis_keysLower_of_names (dis_endHandled_typeNames he) h2
    · exact dis_keysLower_of_names (dis_charactersTag_typeNames hch) hes
/-- the same for the children of an element -/
theorem dis_visitChildren_lower {env : Env} {h : Hooks} {d : DocKind} (hm : h.KeepLower) (hd : DocLower d) :
    ∀ (l : List Node) (parent : Str) (st st' : PSt), KeysLower st.es → visitChildren env h d parent st l = .ok st' →
      KeysLower st'.es
  | [], parent, st, st', hes, hv => by
    rw [visitChildren] at hv; cases hv; exact hes
  | .text s :: r, parent, st, st', hes, hv => by
    rw [visitChildren_text] at hv
    split at hv
    · exact dis_visitChildren_lower hm hd r parent st st' hes hv
    · cases hv
  | .elem t a c :: r, parent, st, st', hes, hv => by
    rw [visitChildren_elem] at hv
    obtain ⟨st1, h1, h2⟩ := er_bind_ok hv
    have g1 := dis_visitElem_lower hm hd (.elem t a c) (some parent) st st1 hes h1
    exact dis_visitChildren_lower hm hd r parent st1 st' g1 h2
end

/-- the hooks the loader really uses keep the keys lower-cased -/
theorem dis_hooks_keepLower (env : Env) : ∀ n, (hooks env n).KeepLower
  | 0 => by constructor <;> (intro es tree es' _ h; simp only [hooks] at h; cases h)
  | n + 1 => by
    constructor
    · intro es tree es' hes h
      simp only [hooks] at h
      cases hv : visitElem env (hooks env n) .component none { es := es } tree with
      | error e => rw [hv] at h; cases h
      | ok st' =>
        rw [hv] at h; cases h
        exact dis_visitElem_lower (d := .component) (dis_hooks_keepLower env n) trivial tree none { es := es } st' hes hv
    · intro es tree es' hes h
      simp only [hooks] at h
      cases hv : visitElem env (hooks env n) (.schema (some es)) none { es := es } tree with
      | error e => rw [hv] at h; cases h
      | ok st' =>
        rw [hv] at h; cases h
        exact dis_visitElem_lower (d := .schema (some es)) (dis_hooks_keepLower env n) hes tree none { es := es } st' hes hv

/-- every schema state the loader returns has a type table keyed by lower-case names -/
theorem dis_elabES_keysLower {env : Env} {fuel : Nat} {t : Node} {es : ES} (h : elabES env fuel t = .ok es) :
    KeysLower es := by
  unfold elabES at h
  cases hv : visitElem env (hooks env fuel) (.schema none) none { es := emptyES } t with
  | error e => rw [hv] at h; cases h
  | ok st' =>
    rw [hv] at h; cases h
    exact dis_visitElem_lower (d := .schema none) (dis_hooks_keepLower env fuel) trivial t none { es := emptyES } st'
      (by intro k hk; cases hk) hv

/-- **The type table of a loaded schema is keyed by lower-case names** — `hkeys` of the text-level theorems
(C01/C02/C14/C15/C16), for every schema object that comes out of the schema loader; nothing is assumed of the key
types or of the documents read. -/
theorem elab_types_keys_lower {env : Env} {fuel : Nat} {t : Node} {S : Cfg.Schema}
    (h : elabSchema env fuel t = .ok S) : ∀ p ∈ S.types, lower p.1 = p.1 := by
  unfold elabSchema at h
  cases he : elabES env fuel t with
  | error e => rw [he] at h; cases h
  | ok es =>
    rw [he] at h; cases h
    intro p hp
    unfold ES.toSchema at hp
    simp only [List.mem_map] at hp
    obtain ⟨q, hq, rfl⟩ := hp
    exact dis_elabES_keysLower he q.1 (List.mem_map.mpr ⟨q, hq, rfl⟩)

end ZCV.Elab
