import ZCV.Lemmas.Handlers
import ZCV.Lemmas.TextLoad
/-!
C16 from trees to TEXT: the result of `Cfg.load` (value AND handler list) on a text without `%import` and without
overrides is the result of `loadTreeH` on the tree the parser builds from the text.
-/
namespace ZCV.Conf
open ZCV ZCV.Cfg

theorem toOption_eq_some {ε α} {x : Except ε α} {a : α} (h : x.toOption = some a) : x = .ok a := by
  cases x with
  | error e => cases h
  | ok b => cases h; rfl

/-- an accepted text: the tree the parser builds, the loader state reached by running that tree, and the final phase -/
theorem load_ok_replay (conv : Conv) (env : Env) (pkgs : Str → Pkg) (s : Schema) (url : Option Str) (lines : List Str)
    (hni : ∀ l ∈ lines, NoImportLine l)
    (hres : ∀ u ls, env.res u = some ls → ∀ l ∈ ls, NoImportLine l) (r : LoadResult)
    (h : load conv env pkgs s url lines [] = .ok r) :
    ∃ (items : List Item) (ps : PS LS), treeOf env url lines = .ok items ∧
      runItems (loadSt0 conv pkgs s) items = .ok ps.ctx ∧ loadFin conv s ps = .ok r := by
  have hsim := parse_sim loaderCtx treeCtx (R (loadSt0 conv pkgs s)) (D (loadSt0 conv pkgs s))
    (loaderSim (loadSt0 conv pkgs s)) env hres 64 (activeOf url) url lines 0
    { ctx := loadSt0 conv pkgs s, stack := [], defs := [] }
    { ctx := { stack := [([], none, [])] }, stack := [], defs := [] } [] hni
    ⟨rfl, rfl, by
      refine ⟨?_, ⟨_, rfl⟩, rfl⟩
      show runItems (loadSt0 conv pkgs s) [] = _
      rw [runItems]⟩
  rw [load_nil_eq] at h
  obtain ⟨psL, hL, hfin⟩ := bind_ok_inv h
  rw [hL] at hsim
  obtain ⟨psT, hT, ⟨_, _, hrep, _, hlen⟩, _⟩ := hsim
  have hT' := toOption_eq_some hT
  cases hstk : psT.ctx.stack with
  | nil => rw [hstk] at hrep; exact absurd rfl (replay_ok_ne _ _ _ hrep)
  | cons x rest =>
    obtain ⟨ty0, nm0, its⟩ := x
    cases rest with
    | nil =>
      rw [hstk, replay] at hrep
      refine ⟨its.reverse, psL, ?_, hrep, hfin⟩
      rw [treeOf_eq, hT']
      simp only [bind, Except.bind]
      rw [hstk]
      rfl
    | cons y rest =>
      exfalso
      rw [hstk] at hlen
      unfold loadFin at hfin
      split at hfin
      · rename_i top ht
        rw [ht] at hlen
        simp at hlen
      · cases hfin

/-- running a canonical tree from the initial state of a load (any package table) and finishing as `load` does gives
    what `loadTreeH` gives -/
theorem loadFin_eq_loadTreeH (conv : Conv) (pkgs : Str → Pkg) (s : Schema) (items : List Item)
    (hs : schemaOK s = true) (ht : tyCanon s items = true) (ps : PS LS) (r : LoadResult)
    (hrun : runItems (loadSt0 conv pkgs s) items = .ok ps.ctx) (hfin : loadFin conv s ps = .ok r) :
    loadTreeH conv s items = .ok (r.value, r.handlers) := by
  have hev0 := runItems_eval conv s items (loadSt0 conv pkgs s) (newMatcher s.top none none) [] rfl rfl rfl rfl
  cases hev : evalItems conv s (newMatcher s.top none none) items with
  | error e =>
    rw [hev] at hev0
    obtain ⟨e', he'⟩ := hev0
    rw [he'] at hrun
    cases hrun
  | ok m' =>
    have h1 := runItems_H conv s hs items (loadSt0 conv pkgs s) (newMatcher s.top none none) m' [] ht rfl rfl rfl rfl hev
    have h2 := runItems_H conv s hs items (loadSt0 conv (fun _ => .notImportable) s) (newMatcher s.top none none) m' []
      ht rfl rfl rfl rfl hev
    rw [h1] at hrun
    simp only [Except.ok.injEq] at hrun
    unfold loadTreeH
    simp only
    simp only [loadSt0] at h2
    rw [h2]
    unfold loadFin at hfin
    rw [← hrun] at hfin
    simp only [withTop, loadSt0, List.nil_append, bind, Except.bind, pure, Except.pure, throw, throwThe,
      MonadExceptOf.throw] at hfin ⊢
    cases hf : finishMatcher conv s m' with
    | error e => rw [hf] at hfin; cases hfin
    | ok vh =>
      obtain ⟨v0, hs0⟩ := vh
      rw [hf] at hfin
      simp only at hfin ⊢
      cases hc : conv.sect s.top.datatype v0 with
      | error e => rw [hc] at hfin; cases hfin
      | ok v' =>
        rw [hc] at hfin
        simp only [Except.ok.injEq] at hfin ⊢
        rw [← hfin]
        rfl

/-- **text to tree, with the handler list.**  For a text without `%import` (here and in everything it can include) and
    without overrides, loaded under a well-formed schema: the configuration and the handler list `load` returns are
    those `loadTreeH` returns on the tree of the text. -/
theorem load_ok_loadTreeH (conv : Conv) (env : Env) (pkgs : Str → Pkg) (s : Schema) (url : Option Str) (lines : List Str)
    (hs : schemaOK s = true) (hlow : ∀ x : Str, lower (lower x) = lower x) (hkeys : ∀ p ∈ s.types, lower p.1 = p.1)
    (hni : ∀ l ∈ lines, NoImportLine l)
    (hres : ∀ u ls, env.res u = some ls → ∀ l ∈ ls, NoImportLine l) (r : LoadResult)
    (h : load conv env pkgs s url lines [] = .ok r) :
    ∃ items, treeOf env url lines = .ok items ∧ tyCanon s items = true ∧
      loadTreeH conv s items = .ok (r.value, r.handlers) := by
  obtain ⟨items, ps, htree, hrun, hfin⟩ := load_ok_replay conv env pkgs s url lines hni hres r h
  have hc := treeOf_tyCanon env url lines s items hs hlow hkeys htree
  exact ⟨items, htree, hc, loadFin_eq_loadTreeH conv pkgs s items hs hc ps r hrun hfin⟩

end ZCV.Conf
