import ZCV.Lemmas.ElabExpandFresh
/-!
C11, "a section type that extends another equals the type with the base's keys and sections written out first":

* `sectiontype_extends_eq_expanded` — the LOCAL theorem: in any parser state, reading
  `<sectiontype name=d extends=b …> c </sectiontype>` gives exactly the same outcome (state or error) as reading the
  written-out element `<sectiontype name=d … [keytype=b's] [datatype=b's]> b's key/section elements ++ c </sectiontype>`
  (`Spec/Expand.lean`), provided the derived type keeps the base's key type, has no `prefix` attribute, and `b`'s
  children in the type table are what reading `b`'s (written-out) child elements produced.
-/
namespace ZCV.Elab
open ZCV ZCV.Cfg

theorem SimTop.refl {sb : PSt} {ch : List (Option Str × EInfo)} (h : topOf sb.es sb.stack = .ok ch) : SimTop sb sb :=
  ⟨⟨ch, h, h⟩, rfl, rfl, Grows.refl _⟩

/-- how the base type `base` (found under `nb` in the current state `S0`) came about: by reading the child elements
    `bc` of a `<sectiontype>` on a fresh type with the same key type, in a state `sbH` that `S0` extends -/
structure BaseHistory (env : Env) (h : Hooks) (d : DocKind) (S0 : PSt) (base : EType) (bc : List Node) : Prop where
  run : ∃ sbH sbH', visitChildren env h d "sectiontype".toList sbH bc = .ok sbH' ∧
    (∃ B r, sbH.stack = .stype B :: r) ∧ topOf sbH.es sbH.stack = .ok [] ∧ ktOf sbH.es sbH.stack = .ok base.keytype ∧
    topOf sbH'.es sbH'.stack = .ok base.children ∧ sbH.prefixes.head? = S0.prefixes.head? ∧ Grows sbH.es S0.es

/-- the children of a type with such a history have defaults computed under its key type -/
theorem BaseHistory.computed {env : Env} {h : Hooks} {d : DocKind} {S0 : PSt} {base : EType} {bc : List Node}
    (hH : BaseHistory env h d S0 base bc) : ComputedUnder env base.keytype base.children := by
  obtain ⟨sbH, sbH', hrun, hB, hfresh, hkt, hch, _, _⟩ := hH.run
  have hp : pkOfB (isComp d) "sectiontype".toList = some .stype := pkOfB_sectiontype _
  have hc0 : TopComputed env base.keytype sbH := by
    refine ⟨hkt, ?_⟩
    intro ch hch'
    rw [hfresh] at hch'
    injection hch' with hch'
    subst hch'
    intro c hc; cases hc
  obtain ⟨_, _, _, _, hc', _⟩ := replay hp base.keytype bc sbH sbH' sbH (SimTop.refl hfresh) hB hc0 hrun
  exact hc'.2 _ hch

theorem pushPrefix_noattr {st st1 : PSt} {a : Attrs} (hnp : attr a "prefix" = none) (hne : st.prefixes ≠ [])
    (h : pushPrefix st a = .ok st1) : st1.prefixes.head? = st.prefixes.head? := by
  unfold pushPrefix at h
  rw [hnp] at h
  simp only at h
  cases hp : st.prefixes with
  | nil => exact absurd hp hne
  | cons p r =>
    simp only [hp] at h
    injection h with h
    subst h
    rfl

/-- **`extends` = written-out expansion, for one section type.** -/
theorem sectiontype_extends_eq_expanded {env : Env} {h : Hooks} {d : DocKind} {p : Str} {S0 : PSt} {a ba : Attrs}
    {b nb q : Str} {base : EType} {c bc : List Node}
    (hext : attr a "extends" = some b) (hb : DTSpec.basicKey b = .ok nb)
    (hg : S0.es.gettype nb = some (q, .concrete base)) (hnokt : attr a "keytype" = none)
    (hnoprefix : attr a "prefix" = none) (hS0pre : S0.prefixes ≠ [])
    (hkB : ∀ st1, pushPrefix S0 a = .ok st1 → getDatatype env st1 ba "keytype" "basic-key" none = .ok base.keytype)
    (hdB : ∀ st1, pushPrefix S0 a = .ok st1 → getDatatype env st1 ba "datatype" "null" none = .ok base.datatype)
    (hH : BaseHistory env h d S0 base bc) :
    visitElem env h d (some p) S0 (.elem "sectiontype".toList a c) =
      visitElem env h d (some p) S0 (.elem "sectiontype".toList (expandedAttrs a ba) (inheritedChildren bc ++ c)) := by
  cases hn : nestingCheck p "sectiontype".toList with
  | error e => rw [visitElem_nest_err hn, visitElem_nest_err hn]
  | ok u =>
    have h1 : "sectiontype".toList ≠ d.topLevel := by cases d <;> simp only [DocKind.topLevel] <;> decide
    have h2 : d.handled.contains "sectiontype".toList = true := by cases d <;> simp only [DocKind.handled] <;> decide
    rw [visitElem_handled_eq hn h1 h2, visitElem_handled_eq hn h1 h2]
    have hcu := hH.computed
    show (startSectiontype env S0 a >>= _) = (startSectiontype env S0 (expandedAttrs a ba) >>= _)
    rw [startSectiontype_extends_eq hext hb hg hnokt hcu hkB hdB]
    cases hs' : startSectiontype env S0 (expandedAttrs a ba) with
    | error e => rfl
    | ok s' =>
      simp only [Except.map, bind, Except.bind]
      rw [visitChildren_append]
      -- the fresh type on top of the stack
      obtain ⟨name, st1, kt, dt, hpp', hti', hstack, hpre, hfresh, hgrow, _, _, _⟩ :=
        startSectiontype_fresh (attr_expanded_extends a ba) hs'
      have hpp : pushPrefix S0 a = .ok st1 := by
        rw [← pushPrefix_congr S0 (attr_expanded_other a ba "prefix" (by decide) (by decide) (by decide))]; exact hpp'
      have hkt : kt = base.keytype := by
        have hT : getSectTypeinfo env st1 (expandedAttrs a ba) none =
            getSectTypeinfo env st1 a (some (base.keytype, base.datatype)) := by
          unfold getSectTypeinfo
          simp only [Option.map_none, Option.map_some]
          rw [getDatatype_inherit (hkB st1 hpp) (attr_expanded_keytype a ba),
            getDatatype_inherit (hdB st1 hpp) (attr_expanded_datatype a ba),
            getDatatype_attr_congr (attr_expanded_other a ba "valuetype" (by decide) (by decide) (by decide))]
        rw [hT] at hti'
        exact getSectTypeinfo_kt hnokt hti'
      subst hkt
      obtain ⟨sbH, sbH', hrun, hB, hHfresh, hHkt, hHch, hHpre, hHgrow⟩ := hH.run
      obtain ⟨htop', hkt'⟩ := hfresh.topOf S0.stack
      have hsim : SimTop sbH s' := by
        refine ⟨⟨[], hHfresh, by rw [hstack]; exact htop'⟩, by rw [hHkt, hstack, hkt'], ?_, hHgrow.trans hgrow⟩
        rw [hpre, pushPrefix_noattr hnoprefix hS0pre hpp]
        exact hHpre
      have hc0 : TopComputed env base.keytype sbH := by
        refine ⟨hHkt, ?_⟩
        intro ch hch'
        rw [hHfresh] at hch'
        injection hch' with hch'
        subst hch'
        intro c hc; cases hc
      obtain ⟨sd', hd', hs2, hu, _, _⟩ :=
        replay (pkOfB_sectiontype _) base.keytype bc sbH sbH' s' hsim hB hc0 hrun
      have hsd' : sd' = { s' with es := setTopOf s'.es s'.stack base.children } := by
        obtain ⟨ch2, e1, e2⟩ := hs2.ch
        rw [hHch] at e1
        injection e1 with e1
        subst e1
        rcases hu with rfl | ⟨cs, rfl⟩
        · rw [hstack, htop'] at e2
          injection e2 with e2
          have hself : setTopOf sd'.es sd'.stack [] = sd'.es := by rw [hstack]; exact hfresh.setTop_nil _
          rw [← e2, hself]
        · have : topOf (setTopOf s'.es s'.stack cs) s'.stack = .ok cs :=
            topOf_setTopOf (ch := []) (by rw [hstack]; exact htop')
          have e2' : topOf (setTopOf s'.es s'.stack cs) s'.stack = .ok base.children := e2
          rw [this] at e2'
          injection e2' with e2'
          rw [e2']
      rw [hd', hsd']
      rfl

end ZCV.Elab
