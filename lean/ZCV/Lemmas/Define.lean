import ZCV.Model.Parser
namespace ZCV.Cfg
open ZCV

theorem lookupDef_setDef_same (defs : List (Str × Str)) (k v : Str) :
    lookupDef (setDef defs k v) k = some v := by
  induction defs with
  | nil => simp [setDef, lookupDef]
  | cons p t ih =>
    unfold setDef
    by_cases hp : p.1 == k
    · simp [hp, lookupDef]
    · simp only [hp, Bool.false_eq_true, ↓reduceIte]
      unfold lookupDef at ih ⊢
      simp only [List.find?_cons, hp]
      exact ih

theorem lookupDef_setDef_other (defs : List (Str × Str)) (k k' v : Str) (hk : (k == k') = false) :
    lookupDef (setDef defs k v) k' = lookupDef defs k' := by
  induction defs with
  | nil => simp [setDef, lookupDef, hk]
  | cons p t ih =>
    unfold setDef
    by_cases hp : p.1 == k
    · have hpk : p.1 = k := beq_iff_eq.mp hp
      have : (p.1 == k') = false := by rw [hpk]; exact hk
      simp [hp, lookupDef, List.find?_cons, hk, this]
    · simp only [hp, Bool.false_eq_true, ↓reduceIte]
      unfold lookupDef at ih ⊢
      simp only [List.find?_cons]
      split
      · rfl
      · exact ih

end ZCV.Cfg
