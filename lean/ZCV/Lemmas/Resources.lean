import ZCV.Model.Resources
namespace ZCV.Res

mutual
theorem wb_runRes (f : Pt → Bool) (r : Nat) (steps : List Step) (rest : List Ev) (st : List Nat) :
    wb ((runRes f r steps).1 ++ rest) st = wb rest st := by
  unfold runRes
  split
  · rfl
  · split
    · simp [wb]
    · split
      · simp [wb]
      · have ih := wb_runSteps f r 0 steps (.rclose r :: rest) (r :: st)
        simp only [List.cons_append, List.nil_append, List.append_assoc, wb]
        rw [ih]
        simp [wb]
theorem wb_runSteps (f : Pt → Bool) (r : Nat) (k : Nat) (steps : List Step) (rest : List Ev) (st : List Nat) :
    wb ((runSteps f r k steps).1 ++ rest) st = wb rest st := by
  match steps with
  | [] => simp [runSteps]
  | .work :: tl =>
    unfold runSteps
    split
    · rfl
    · exact wb_runSteps f r (k+1) tl rest st
  | .sub c cs :: tl =>
    unfold runSteps
    have ih1 := wb_runRes f c cs
    have ih2 := wb_runSteps f r (k+1) tl rest st
    simp only
    split
    · exact ih1 rest st
    · simp only [List.append_assoc]
      rw [ih1, ih2]
end

/-- every resource opened during a load is closed by the time the call returns or raises — for every resource graph
    (any size, any nesting depth) and every set of fault points; and each URL stream is closed before anything else happens -/
theorem run_wellBracketed (f : Pt → Bool) (r : Nat) (steps : List Step) : wb (runRes f r steps).1 [] = true := by
  have := wb_runRes f r steps [] []
  simpa [wb] using this

def isOpen : Ev → Bool | .ropen _ => true | _ => false
def isClose : Ev → Bool | .rclose _ => true | _ => false

mutual
theorem cnt_runRes (f : Pt → Bool) (r : Nat) (steps : List Step) :
    ((runRes f r steps).1.filter isOpen).length = ((runRes f r steps).1.filter isClose).length := by
  unfold runRes
  split
  · rfl
  · split
    · simp [isOpen, isClose]
    · split
      · simp [isOpen, isClose]
      · have ih := cnt_runSteps f r 0 steps
        simp [List.filter_cons, List.filter_append, isOpen, isClose, ih]
theorem cnt_runSteps (f : Pt → Bool) (r : Nat) (k : Nat) (steps : List Step) :
    ((runSteps f r k steps).1.filter isOpen).length = ((runSteps f r k steps).1.filter isClose).length := by
  match steps with
  | [] => simp [runSteps]
  | .work :: tl =>
    unfold runSteps
    split
    · rfl
    · exact cnt_runSteps f r (k+1) tl
  | .sub c cs :: tl =>
    unfold runSteps
    have ih1 := cnt_runRes f c cs
    have ih2 := cnt_runSteps f r (k+1) tl
    simp only
    split
    · exact ih1
    · simp [List.filter_append, ih1, ih2]
end

/-- number of resource openings = number of closings -/
theorem run_open_close_count (f : Pt → Bool) (r : Nat) (steps : List Step) :
    ((runRes f r steps).1.filter (fun e => match e with | .ropen _ => true | _ => false)).length =
    ((runRes f r steps).1.filter (fun e => match e with | .rclose _ => true | _ => false)).length := by
  have h := cnt_runRes f r steps
  have e1 : (fun e => match e with | Ev.ropen _ => true | _ => false) = isOpen := by
    funext e; cases e <;> rfl
  have e2 : (fun e => match e with | Ev.rclose _ => true | _ => false) = isClose := by
    funext e; cases e <;> rfl
  rw [e1, e2]; exact h

mutual
theorem ok_runRes (r : Nat) (steps : List Step) : (runRes (fun _ => false) r steps).2 = true := by
  unfold runRes
  simp only [Bool.false_eq_true, if_false]
  exact ok_runSteps r 0 steps
theorem ok_runSteps (r : Nat) (k : Nat) (steps : List Step) : (runSteps (fun _ => false) r k steps).2 = true := by
  match steps with
  | [] => simp [runSteps]
  | .work :: tl =>
    unfold runSteps
    simp only [Bool.false_eq_true, if_false]
    exact ok_runSteps r (k+1) tl
  | .sub c cs :: tl =>
    unfold runSteps
    have ih1 := ok_runRes c cs
    have ih2 := ok_runSteps r (k+1) tl
    simp [ih1, ih2]
end

/-- without faults the load completes -/
theorem run_no_fault_ok (r : Nat) (steps : List Step) : (runRes (fun _ => false) r steps).2 = true :=
  ok_runRes r steps

end ZCV.Res
