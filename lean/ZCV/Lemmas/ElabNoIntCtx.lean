import ZCV.Lemmas.ElabNoIntCdata
/-!
No internal errors, continued: the stack discipline.  Which frame is on top of the stack while the children of an
element are read (`CtxOK`), and — from the generated nesting table `Gen.allowedParents`, by `decide` — that every
element that passes the nesting check finds the frame its handler expects.
-/
namespace ZCV.Elab
open ZCV ZCV.Cfg

variable {P : String → Prop}

/-- the kinds of element whose children are being read -/
inductive PK where
  | topS | topC | stype | atype | key | sect | imp
deriving DecidableEq, Repr

/-- the kinds of element by what their handler needs -/
inductive CK where
  | cKey | cMultikey | cSection | cMultisection | cSectiontype | cAbstracttype | cImport | cDesc | cEx | cMeta | cDflt
deriving DecidableEq, Repr

def pkOfB (comp : Bool) (p : Str) : Option PK :=
  if p == Gen.schemaTopLevel then (if comp then none else some .topS)
  else if p == Gen.componentTopLevel then (if comp then some .topC else none)
  else if p == "sectiontype".toList then some .stype
  else if p == "abstracttype".toList then some .atype
  else if p == "key".toList || p == "multikey".toList then some .key
  else if p == "section".toList || p == "multisection".toList then some .sect
  else if p == "import".toList then some .imp
  else none

def ckTable : List (Str × CK) :=
  [("key".toList, .cKey), ("multikey".toList, .cMultikey), ("section".toList, .cSection), ("multisection".toList, .cMultisection),
   ("sectiontype".toList, .cSectiontype), ("abstracttype".toList, .cAbstracttype), ("import".toList, .cImport),
   ("description".toList, .cDesc), ("example".toList, .cEx), ("metadefault".toList, .cMeta), ("default".toList, .cDflt)]

def ckOf (t : Str) : Option CK := (ckTable.find? (·.1 == t)).map (·.2)

def CK.container : CK → Bool
  | .cKey | .cMultikey | .cSection | .cMultisection => true
  | _ => false
def CK.decl : CK → Bool
  | .cSectiontype | .cAbstracttype | .cImport => true
  | _ => false

/-- which child may stand below which parent, as far as the handlers are concerned -/
def compat : PK → CK → Bool
  | .topS, ck => ck.container || ck.decl || ck == .cDesc || ck == .cEx
  | .topC, ck => ck.decl || ck == .cDesc
  | .stype, ck => ck.container || ck == .cDesc || ck == .cEx
  | .atype, ck => ck == .cDesc
  | .key, ck => ck == .cDesc || ck == .cEx || ck == .cMeta || ck == .cDflt
  | .sect, ck => ck == .cDesc || ck == .cEx || ck == .cMeta
  | .imp, _ => false

/-- the generated nesting table only allows compatible pairs -/
def tableCheck : Bool :=
  Gen.allowedParents.all fun e => e.2.all fun p => [true, false].all fun comp =>
    match pkOfB comp p with
    | none => true
    | some pk => match ckOf e.1 with
      | some ck => compat pk ck
      | none => false

theorem tableCheck_ok : tableCheck = true := by decide

theorem nestingCheck_ni (p t : Str) : NIx P (nestingCheck p t) := by
  unfold nestingCheck
  repeat' ni_step

theorem nesting_compat {comp : Bool} {p t : Str} {pk : PK} (h : nestingCheck p t = .ok ()) (hpk : pkOfB comp p = some pk) :
    ∃ ck, ckOf t = some ck ∧ compat pk ck = true := by
  unfold nestingCheck at h
  split at h
  · cases h
  · rename_i n ps hf
    rcases ite_ok h with ⟨hc, _⟩ | ⟨_, h⟩
    · have hmem := List.mem_of_find?_eq_some hf
      have hn : n = t := by simpa using List.find?_some hf
      subst hn
      have h1 := List.all_eq_true.mp tableCheck_ok _ hmem
      have h2 := List.all_eq_true.mp h1 p (List.contains_iff_mem.mp hc)
      have h3 := List.all_eq_true.mp h2 comp (by cases comp <;> simp)
      simp only [hpk] at h3
      cases hck : ckOf n with
      | none => simp [hck] at h3
      | some ck => exact ⟨ck, rfl, by simpa [hck] using h3⟩
    · cases h

theorem ckOf_tag {t : Str} {ck : CK} (h : ckOf t = some ck) : (t, ck) ∈ ckTable := by
  unfold ckOf at h
  cases hf : ckTable.find? (·.1 == t) with
  | none => simp [hf] at h
  | some q =>
    simp only [hf, Option.map_some, Option.some.injEq] at h
    have hm := List.mem_of_find?_eq_some hf
    have hq : q.1 = t := by simpa using List.find?_some hf
    rw [← hq, ← h]
    exact hm

/-! ### the frame on top of the stack -/

def FrameOK (st : PSt) : PK → Prop
  | .topS => st.stack = [.schema]
  | .topC => st.stack = []
  | .stype => ∃ n rest, st.stack = .stype n :: rest ∧ kindAt st.es n = some true
  | .atype => ∃ n rest, st.stack = .atype n :: rest ∧ kindAt st.es n = some false
  | .key => ∃ k rest, st.stack = .key k :: rest ∧ KeyShape k ∧ LastKey st.es rest k
  | .sect => ∃ a b rest, st.stack = .sect a b :: rest
  | .imp => st.stack = [.schema] ∨ st.stack = []

/-- the parser state while the children of a `parent` element are read -/
def CtxOK (d : DocKind) (parent : Str) (st : PSt) : Prop :=
  st.prefixes ≠ [] ∧ ∃ pk, pkOfB (isComp d) parent = some pk ∧ FrameOK st pk

theorem frame_container {st : PSt} {pk : PK} {ck : CK} (hf : FrameOK st pk) (hc : compat pk ck = true)
    (hck : ck.container = true) : ContainerOK st.es st.stack ∧ (pk = .topS ∨ pk = .stype) := by
  cases pk <;> cases ck <;> simp [compat, CK.container, CK.decl] at hc hck
  all_goals simp only [FrameOK] at hf
  all_goals first
    | (refine ⟨?_, Or.inl rfl⟩; rw [hf]; trivial)
    | (obtain ⟨n, rest, hs, hk⟩ := hf; refine ⟨?_, Or.inr rfl⟩; rw [hs]; exact hk)

theorem frame_decl {pk : PK} {ck : CK} (hc : compat pk ck = true) (hck : ck.decl = true) : pk = .topS ∨ pk = .topC := by
  cases pk <;> cases ck <;> simp [compat, CK.container, CK.decl] at hc hck ⊢

theorem pkOfB_topC {comp : Bool} {p : Str} (h : pkOfB comp p = some .topC) : comp = true := by
  unfold pkOfB at h
  (repeat' split at h) <;> simp_all

theorem frame_desc {comp : Bool} {p : Str} {st : PSt} {pk : PK} (hpk : pkOfB comp p = some pk) (hf : FrameOK st pk)
    (hc : compat pk .cDesc = true) : DescOK comp st := by
  unfold DescOK
  cases pk <;> simp [compat, CK.container, CK.decl] at hc <;> simp only [FrameOK] at hf
  · rw [hf]; trivial
  · rw [hf]; exact pkOfB_topC hpk
  · obtain ⟨n, rest, hs, hk⟩ := hf; rw [hs]; exact hk
  · obtain ⟨n, rest, hs, hk⟩ := hf; rw [hs]; exact hk
  · obtain ⟨k, rest, hs, _⟩ := hf; rw [hs]; trivial
  · obtain ⟨a, b, rest, hs⟩ := hf; rw [hs]; trivial

theorem frame_ex {st : PSt} {pk : PK} (hf : FrameOK st pk) (hc : compat pk .cEx = true) : ExOK st := by
  unfold ExOK
  cases pk <;> simp [compat, CK.container, CK.decl] at hc <;> simp only [FrameOK] at hf
  · rw [hf]; trivial
  · obtain ⟨n, rest, hs, hk⟩ := hf; rw [hs]; exact hk
  · obtain ⟨k, rest, hs, _⟩ := hf; rw [hs]; trivial
  · obtain ⟨a, b, rest, hs⟩ := hf; rw [hs]; trivial

theorem frame_dflt {st : PSt} {pk : PK} (hf : FrameOK st pk) (hc : compat pk .cDflt = true) :
    ∃ k rest, st.stack = .key k :: rest ∧ KeyShape k := by
  cases pk <;> simp [compat, CK.container, CK.decl] at hc
  obtain ⟨k, rest, hs, hk, _⟩ := hf
  exact ⟨k, rest, hs, hk⟩

theorem frame_keyShape {st : PSt} {pk : PK} (hf : FrameOK st pk) : ∀ k rest, st.stack = .key k :: rest → KeyShape k := by
  intro k rest hs
  cases pk <;> simp only [FrameOK] at hf
  · rw [hf] at hs; cases hs
  · rw [hf] at hs; cases hs
  · obtain ⟨n, r, h1, _⟩ := hf; rw [h1] at hs; cases hs
  · obtain ⟨n, r, h1, _⟩ := hf; rw [h1] at hs; cases hs
  · obtain ⟨k', r, h1, hk, _⟩ := hf; rw [h1] at hs; cases hs; exact hk
  · obtain ⟨a, b, r, h1⟩ := hf; rw [h1] at hs; cases hs
  · rcases hf with hf | hf <;> (rw [hf] at hs; cases hs)

end ZCV.Elab
