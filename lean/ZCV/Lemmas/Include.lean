import ZCV.Model.Schemaless
import ZCV.Lemmas.Misc
import ZCV.Lemmas.IncludeAux
/-!
`%include` = textual inclusion of a balanced fragment (C06), stated on the stream of position-free events the
parser delivers to its context, and: only `%import` changes the schema during a parse (C13).
-/
namespace ZCV.Cfg
open ZCV

/-- events without positions -/
inductive Ev0
  | start (ty : Str) (nm : Option Str)
  | stop (ty : Str) (nm : Option Str)
  | value (key value : Str)
  | imp (pkg : Str)
deriving Repr, DecidableEq

/-- the recording context: every operation succeeds and is logged; positions are dropped -/
def rec0 : PCtx (List Ev0) :=
  { start := fun s t n => .ok (s ++ [.start t n]), stop := fun s t n => .ok (s ++ [.stop t n]),
    value := fun s k v _ => .ok (s ++ [.value k v]), imp := fun s p => .ok (s ++ [.imp p]),
    canInclude := true, canDefine := true }

/-- net nesting effect of one physical line, as the parser classifies it -/
def lineDelta (l : Str) : Int :=
  match lineShape (strip l) with
  | .open_ _ _ false => 1
  | .close _ => -1
  | _ => 0

/-- never closes what it did not open … -/
def neverBelow : List Str → Int → Bool
  | [], _ => true
  | l :: r, d => let d' := d + lineDelta l; decide (0 ≤ d') && neverBelow r d'
/-- … and leaves nothing open -/
def Balanced (f : List Str) : Prop := neverBelow f 0 = true ∧ (f.map lineDelta).sum = 0

def NoInclude (f : List Str) : Prop := ∀ l ∈ f, ∀ a, lineShape (strip l) ≠ .include_ a

/-- what a successful parse leaves behind, positions aside -/
def outcome (r : M (PS (List Ev0))) : Option (List Ev0 × List (Str × Str) × List (Str × Option Str)) :=
  match r with
  | .ok p => some (p.ctx, p.defs, p.stack)
  | .error _ => none

/-! ### auxiliary: the recording context -/

theorem replace_toOption (env : Env) (defs) (url : Option Str) (line : Nat) (t : Str) :
    (replace env defs url line t).toOption = (Subst.substitute (lookupDef defs) env.getenv t).toOption := by
  unfold replace
  generalize Subst.substitute (lookupDef defs) env.getenv t = r
  cases r with
  | ok v => rfl
  | error e => cases e <;> rfl

theorem replace_indep (env : Env) (defs) (url url' : Option Str) (line line' : Nat) (t : Str) :
    (replace env defs url line t).toOption = (replace env defs url' line' t).toOption := by
  rw [replace_toOption, replace_toOption]

theorem define_indep (env : Env) (url url' : Option Str) (line line' : Nat) (rest : Str) (defs : List (Str × Str)) :
    (define env url line rest defs).toOption = (define env url' line' rest defs).toOption := by
  unfold define
  split
  · rfl
  · rename_i p0 more _
    unfold replace
    dsimp only
    generalize Subst.substitute (lookupDef defs) env.getenv (defValue more) = r
    generalize lookupDef defs (lower p0) = o
    generalize (!Subst.isname (lower p0)) = b
    cases r with
    | ok v =>
      cases o with
      | none => cases b <;> rfl
      | some cur =>
        generalize hc : (cur != v) = b2
        cases b2 <;> cases b <;> simp [hc, bind, Except.bind, pure, Except.pure, throw, throwThe, MonadExceptOf.throw]
    | error e =>
      cases e <;> cases o <;> cases b <;> rfl

/-- put `S` under the parser's own stack of open sections -/
def addStack {σ} (S : List (Str × Option Str)) (st : PS σ) : PS σ := { st with stack := st.stack ++ S }

theorem addStack_nil {σ} (st : PS σ) : addStack [] st = st := by
  cases st; simp [addStack]

theorem closeSection_rec0 (url : Option Str) (line : Nat) (ty : Str) (st : PS (List Ev0)) :
    closeSection rec0 url line ty st =
      match st.stack with
      | [] => .error (synErr url line "unexpected section end")
      | (ot, name) :: T =>
        if ty != ot then .error (synErr url line "unbalanced section end")
        else .ok { st with ctx := st.ctx ++ [.stop ty name], stack := T } := by
  unfold closeSection
  cases st.stack with
  | nil => rfl
  | cons p T =>
    obtain ⟨ot, name⟩ := p
    dsimp only
    generalize (ty != ot) = b
    cases b <;> rfl

theorem openSection_rec0 (url : Option Str) (line : Nat) (ty : Str) (nm : Option Str) (e : Bool) (st : PS (List Ev0)) :
    openSection rec0 url line ty nm e st =
      .ok (if e then { st with ctx := st.ctx ++ [.start ty nm] ++ [.stop ty nm] }
           else { st with ctx := st.ctx ++ [.start ty nm], stack := (ty, nm) :: st.stack }) := by
  unfold openSection
  cases e <;> rfl

theorem kvCore_rec0 (url : Option Str) (line : Nat) (k v : Str) (st : PS (List Ev0)) :
    kvCore rec0 url line k v st = .ok { st with ctx := st.ctx ++ [.value k v] } := rfl

/-- frame lemma for one line that is not an `%include`: the outcome does not depend on fuel, the active list, the url
    or the line number, and entries below the part of the stack the line can touch are carried along -/
theorem step_frame (fuel fuel' : Nat) (env : Env) (active active' : List Str) (url url' : Option Str) (line line' : Nat)
    (l : Str) (S : List (Str × Option Str)) (st : PS (List Ev0))
    (hni : ∀ a, lineShape l ≠ .include_ a) (hcl : ∀ ty, lineShape l = .close ty → st.stack ≠ []) :
    (stepLine fuel env rec0 active url line l (addStack S st)).toOption =
      (stepLine fuel' env rec0 active' url' line' l st).toOption.map (addStack S) := by
  cases hs : lineShape l with
  | skip => rw [stepLine, stepLine]; simp only [hs]; rfl
  | bad t => rw [stepLine, stepLine]; simp only [hs]; rfl
  | internal t => rw [stepLine, stepLine]; simp only [hs]; rfl
  | include_ a => exact absurd hs (hni a)
  | close ty =>
    rw [stepLine, stepLine]; simp only [hs]
    rw [closeSection_rec0, closeSection_rec0]
    have hne := hcl ty hs
    cases hst : st.stack with
    | nil => exact absurd hst hne
    | cons p T =>
      obtain ⟨ot, name⟩ := p
      simp only [addStack, hst, List.cons_append]
      split <;> rfl
  | open_ ty nm e =>
    rw [stepLine, stepLine]; simp only [hs]
    rw [openSection_rec0, openSection_rec0]
    cases e <;> rfl
  | kv k raw =>
    rw [stepLine, stepLine]; simp only [hs]
    rw [keyValue_eq, keyValue_eq, toOption_bind, toOption_bind]
    have h1 : (if raw == [] then (pure [] : M Str) else replace env (addStack S st).defs url line raw).toOption =
        (if raw == [] then (pure [] : M Str) else replace env st.defs url' line' raw).toOption := by
      split
      · rfl
      · exact replace_indep _ _ _ _ _ _ _
    rw [h1]
    cases (if raw == [] then (pure [] : M Str) else replace env st.defs url' line' raw).toOption <;> rfl
  | define a =>
    rw [stepLine_define _ _ _ _ _ _ _ _ _ hs, stepLine_define _ _ _ _ _ _ _ _ _ hs]
    unfold defStep
    show ((define env url line a st.defs).map _).toOption = ((define env url' line' a st.defs).map _).toOption.map _
    rw [toOption_map, toOption_map, define_indep env url url' line line']
    cases (define env url' line' a st.defs).toOption <;> rfl
  | import_ a =>
    rw [stepLine_import _ _ _ _ _ _ _ _ _ hs, stepLine_import _ _ _ _ _ _ _ _ _ hs]
    unfold impStep
    rw [toOption_bind, toOption_bind]
    show (replace env st.defs url line (strip a)).toOption.bind _ = _
    rw [replace_indep env st.defs url url' line line']
    cases (replace env st.defs url' line' (strip a)).toOption <;> rfl

/-- the stack of open sections grows and shrinks as `lineDelta` says -/
theorem step_len (fuel : Nat) (env : Env) (active : List Str) (url : Option Str) (line : Nat)
    (l : Str) (st st' : PS (List Ev0)) (hni : ∀ a, lineShape (strip l) ≠ .include_ a)
    (h : stepLine fuel env rec0 active url line (strip l) st = .ok st') :
    (st'.stack.length : Int) = st.stack.length + lineDelta l := by
  unfold lineDelta
  cases hs : lineShape (strip l) with
  | skip => rw [stepLine] at h; simp only [hs] at h; cases h; simp
  | bad t => rw [stepLine] at h; simp only [hs] at h; cases h
  | internal t => rw [stepLine] at h; simp only [hs] at h; cases h
  | include_ a => exact absurd hs (hni a)
  | close ty =>
    rw [stepLine] at h; simp only [hs] at h
    rw [closeSection_rec0] at h
    split at h
    · cases h
    · rename_i hst
      split at h
      · cases h
      · cases h; simp [hst]; omega
  | open_ ty nm e =>
    rw [stepLine] at h; simp only [hs] at h
    rw [openSection_rec0] at h
    cases h
    cases e <;> simp
  | kv k raw =>
    rw [stepLine] at h; simp only [hs] at h
    rw [keyValue_eq] at h
    obtain ⟨v, _, h⟩ := bind_ok_inv h
    cases h; simp
  | define a =>
    rw [stepLine_define _ _ _ _ _ _ _ _ _ hs] at h
    unfold defStep at h
    split at h
    · cases h
    · obtain ⟨d, _, rfl⟩ := map_ok_inv h
      simp
  | import_ a =>
    rw [stepLine_import _ _ _ _ _ _ _ _ _ hs] at h
    unfold impStep at h
    obtain ⟨v, _, h⟩ := bind_ok_inv h
    obtain ⟨d, _, rfl⟩ := map_ok_inv h
    simp

/-- the line number does not matter for the recording context (an included resource restarts at line 0 anyway) -/
theorem step_line_indep (fuel : Nat) (env : Env) (active : List Str) (url : Option Str) (line line' : Nat)
    (l : Str) (st : PS (List Ev0)) :
    (stepLine fuel env rec0 active url line l st).toOption = (stepLine fuel env rec0 active url line' l st).toOption := by
  cases hs : lineShape l with
  | include_ a =>
    rw [stepLine_include _ _ _ _ _ _ _ _ _ hs, stepLine_include _ _ _ _ _ _ _ _ _ hs]
    unfold incStep
    rw [toOption_bind, toOption_bind, replace_indep env st.defs url url line line']
  | close ty =>
    rw [stepLine, stepLine]; simp only [hs]
    rw [closeSection_rec0, closeSection_rec0]
    split
    · rfl
    · split <;> rfl
  | _ =>
    have := step_frame fuel fuel env active active url url line line' l [] st (by simp [hs]) (by simp [hs])
    rw [addStack_nil] at this
    rw [this]
    cases (stepLine fuel env rec0 active url line' l st).toOption with
    | none => rfl
    | some s => simp [addStack_nil]

theorem parse_line_indep (fuel : Nat) (env : Env) (active : List Str) (url : Option Str) :
    ∀ (lines : List Str) (n n' : Nat) (st : PS (List Ev0)),
      (parseLines fuel env rec0 active url lines n st).toOption =
        (parseLines fuel env rec0 active url lines n' st).toOption := by
  intro lines
  induction lines with
  | nil =>
    intro n n' st
    rw [parseLines, parseLines]
    split <;> rfl
  | cons l rest ih =>
    intro n n' st
    rw [parseLines, parseLines, toOption_bind, toOption_bind, step_line_indep fuel env active url (n + 1) (n' + 1)]
    apply option_bind_congr
    intro s _
    exact ih _ _ _

/-- frame lemma for a run of lines without `%include` that never closes more than it opened -/
theorem run_frame (fuel fuel' : Nat) (env : Env) (active active' : List Str) (url url' : Option Str)
    (S : List (Str × Option Str)) :
    ∀ (F : List Str) (n n' : Nat) (st : PS (List Ev0)) (d : Int),
      NoInclude F → neverBelow F d = true → (st.stack.length : Int) = d →
      (runLines fuel env rec0 active url F n (addStack S st)).toOption =
        (runLines fuel' env rec0 active' url' F n' st).toOption.map (addStack S) ∧
      ∀ st', runLines fuel' env rec0 active' url' F n' st = .ok st' →
        (st'.stack.length : Int) = d + (F.map lineDelta).sum := by
  intro F
  induction F with
  | nil =>
    intro n n' st d _ _ hd
    refine ⟨rfl, ?_⟩
    intro st' h
    cases h
    simp [hd]
  | cons l rest ih =>
    intro n n' st d hni hnb hd
    have hni_l : ∀ a, lineShape (strip l) ≠ .include_ a := hni l (by simp)
    have hni_r : NoInclude rest := fun x hx => hni x (by simp [hx])
    simp only [neverBelow, Bool.and_eq_true, decide_eq_true_eq] at hnb
    obtain ⟨hd0, hnb'⟩ := hnb
    have hcl : ∀ ty, lineShape (strip l) = .close ty → st.stack ≠ [] := by
      intro ty hty hnil
      have : lineDelta l = -1 := by unfold lineDelta; rw [hty]
      rw [this] at hd0
      rw [hnil] at hd
      simp at hd
      omega
    have hstep := step_frame fuel fuel' env active active' url url' (n + 1) (n' + 1) (strip l) S st hni_l hcl
    have hlen : ∀ s, stepLine fuel' env rec0 active' url' (n' + 1) (strip l) st = .ok s →
        (s.stack.length : Int) = d + lineDelta l := by
      intro s hs
      rw [step_len _ _ _ _ _ _ _ _ hni_l hs, hd]
    constructor
    · simp only [runLines]
      rw [toOption_bind, toOption_bind, hstep, Option.map_bind, Option.bind_map]
      apply option_bind_congr
      intro s hs
      rw [toOption_eq_some] at hs
      exact (ih (n + 1) (n' + 1) s _ hni_r hnb' (hlen s hs)).1
    · intro st' h
      simp only [runLines] at h
      obtain ⟨s, hs, h⟩ := bind_ok_inv h
      have := (ih (n + 1) (n' + 1) s _ hni_r hnb' (hlen s hs)).2 st' h
      rw [this]
      simp only [List.map_cons, List.sum_cons]
      omega

theorem replace_nodollar (env : Env) (defs) (url : Option Str) (line : Nat) (t : Str) (h : '$' ∉ t) :
    replace env defs url line t = .ok t := by
  unfold replace Subst.substitute
  simp [h]

theorem outcome_eq (r : M (PS (List Ev0))) : outcome r = r.toOption.map (fun p => (p.ctx, p.defs, p.stack)) := by
  cases r <;> rfl

theorem option_bind_eq_map {α β} {x : Option α} {f : α → Option β} {g : α → β}
    (h : ∀ a, x = some a → f a = some (g a)) : x.bind f = x.map g := by
  cases x with
  | none => rfl
  | some a => exact h a rfl

theorem ok_bind {ε α β} (a : α) (f : α → Except ε β) : (Except.ok a >>= f) = f a := rfl

theorem incStep_found {σ} (fuel : Nat) (env : Env) (c : PCtx σ) (active : List Str) (url : Option Str) (line : Nat)
    (arg u : Str) (F : List Str) (st : PS σ) (hci : c.canInclude = true)
    (hnodollar : '$' ∉ strip arg)
    (hres : env.resolve url (strip arg) = .url u)
    (hfile : env.res u = some F)
    (hact : u ∉ active) :
    incStep (fuel + 1) env c active url line arg st =
      parseLines fuel env c (u :: active) (some u) F 0 { ctx := st.ctx, stack := [], defs := st.defs } >>= fun sub =>
        .ok { st with ctx := sub.ctx, defs := sub.defs } := by
  unfold incStep
  have hg : (u != [] && active.contains u) = false := by simp [hact]
  rw [replace_nodollar _ _ _ _ _ hnodollar, ok_bind]
  simp only [hci, Bool.not_true, Bool.false_eq_true, if_false, hres, hfile, hg]

/-- the `%include` line does what the lines of the (balanced, include-free) resource do in its place -/
theorem include_step_eq_run (fuel : Nat) (env : Env) (active : List Str) (url : Option Str)
    (F : List Str) (inc arg u : Str) (m k : Nat) (st : PS (List Ev0))
    (hshape : lineShape (strip inc) = .include_ arg)
    (hnodollar : '$' ∉ strip arg)
    (hres : env.resolve url (strip arg) = .url u)
    (hfile : env.res u = some F)
    (hact : u ∉ active)
    (hbal : Balanced F) (hni : NoInclude F) :
    (stepLine (fuel + 1) env rec0 active url k (strip inc) st).toOption =
      (runLines (fuel + 1) env rec0 active url F m st).toOption := by
  rw [stepLine_include _ _ _ _ _ _ _ _ _ hshape, incStep_found fuel env rec0 active url k arg u F st rfl hnodollar hres hfile hact]
  rw [parseLines_eq_run, bind_assoc, toOption_bind]
  let s0 : PS (List Ev0) := { ctx := st.ctx, stack := [], defs := st.defs }
  have hst : st = addStack st.stack s0 := by cases st; simp [addStack, s0]
  obtain ⟨hb1, hb2⟩ := hbal
  have hf := run_frame (fuel + 1) fuel env active (u :: active) url (some u) st.stack F m 0 s0 0 hni hb1 (by simp [s0])
  conv => rhs; rw [hst]
  rw [hf.1]
  show Option.bind (runLines fuel env rec0 (u :: active) (some u) F 0 s0).toOption _ = _
  apply option_bind_eq_map
  intro s hs
  rw [toOption_eq_some] at hs
  have hl := hf.2 s hs
  rw [hb2] at hl
  have hnil : s.stack = [] := by
    cases hss : s.stack with
    | nil => rfl
    | cons a b => rw [hss] at hl; simp at hl; omega
  have hfin : finish (some u) (0 + F.length) s = .ok s := by simp [finish, hnil]
  rw [hfin, ok_bind]
  simp [addStack, hnil]

/-- **C06 (partial: the fragment itself contains no further `%include`; rejections are compared as rejections).**
    Replacing a balanced run of lines `F` by an `%include` of a resource holding exactly `F` gives the same events,
    the same definitions afterwards and the same open sections — or both texts are rejected. -/
theorem include_eq_inline (fuel : Nat) (env : Env) (active : List Str) (url : Option Str)
    (A F B : List Str) (inc arg u : Str) (n : Nat) (st : PS (List Ev0))
    (hshape : lineShape (strip inc) = .include_ arg)
    (hnodollar : '$' ∉ strip arg)
    (hres : env.resolve url (strip arg) = .url u)
    (hfile : env.res u = some F)
    (hu : u ≠ []) (hact : u ∉ active)
    (hbal : Balanced F) (hni : NoInclude F) :
    outcome (parseLines (fuel + 1) env rec0 active url (A ++ [inc] ++ B) n st) =
    outcome (parseLines (fuel + 1) env rec0 active url (A ++ F ++ B) n st) := by
  rw [outcome_eq, outcome_eq]
  congr 1
  rw [List.append_assoc, List.append_assoc, parseLines_append, parseLines_append, toOption_bind, toOption_bind]
  apply option_bind_congr
  intro sA _
  rw [List.singleton_append, parseLines, parseLines_append _ _ _ _ _ F B, toOption_bind, toOption_bind,
    include_step_eq_run fuel env active url F inc arg u (n + A.length) _ sA hshape hnodollar hres hfile hact hbal hni]
  apply option_bind_congr
  intro s _
  exact parse_line_indep _ _ _ _ _ _ _ _


/-- a fragment that closes a section it did not open is rejected inside the fragment, whatever surrounds the `%include` -/
theorem include_stray_close_rejected (fuel : Nat) (env : Env) (active : List Str) (url : Option Str)
    (F : List Str) (ty : Str) (n : Nat) (st : PS (List Ev0)) (hstack : st.stack = [])
    (h : ∃ l r, F = l :: r ∧ lineShape (strip l) = .close ty) :
    ∃ e, parseLines fuel env rec0 active url F n st = .error (.cfg e) ∧ e.kind = .syntax := by
  obtain ⟨l, r, rfl, hl⟩ := h
  rw [parseLines, stepLine]
  simp only [hl]
  rw [closeSection_rec0, hstack]
  exact ⟨_, rfl, rfl⟩

/-! ### only `%import` touches the schema (loader context) -/

def NoImportLine (l : Str) : Prop := ∀ a, lineShape (strip l) ≠ .import_ a

/-- one line: the schema is untouched (the `%include` arm needs the statement for the included resource, at smaller fuel) -/
theorem stepLine_schema (env : Env) (fuel : Nat)
    (hres : ∀ u ls, env.res u = some ls → ∀ l ∈ ls, NoImportLine l)
    (ih : ∀ f, fuel = f + 1 → ∀ (active : List Str) (url : Option Str) (lines : List Str) (n : Nat) (st st' : PS LS),
      (∀ l ∈ lines, NoImportLine l) →
      parseLines f env loaderCtx active url lines n st = .ok st' → st'.ctx.schema = st.ctx.schema)
    (active : List Str) (url : Option Str) (line : Nat) (l : Str) (st st' : PS LS)
    (hl : NoImportLine l)
    (h : stepLine fuel env loaderCtx active url line (strip l) st = .ok st') : st'.ctx.schema = st.ctx.schema := by
  cases hs : lineShape (strip l) with
  | skip => rw [stepLine] at h; simp only [hs] at h; cases h; rfl
  | bad t => rw [stepLine] at h; simp only [hs] at h; cases h
  | internal t => rw [stepLine] at h; simp only [hs] at h; cases h
  | close ty => rw [stepLine] at h; simp only [hs] at h; exact closeSection_schema _ _ _ _ _ h
  | open_ ty nm e => rw [stepLine] at h; simp only [hs] at h; exact openSection_schema _ _ _ _ _ _ _ h
  | kv k v => rw [stepLine] at h; simp only [hs] at h; exact keyValue_schema _ _ _ _ _ _ _ h
  | import_ a => exact absurd hs (hl a)
  | define a =>
    rw [stepLine_define _ _ _ _ _ _ _ _ _ hs] at h
    unfold defStep at h
    split at h
    · cases h
    · obtain ⟨d, _, rfl⟩ := map_ok_inv h
      rfl
  | include_ a =>
    rw [stepLine_include _ _ _ _ _ _ _ _ _ hs] at h
    unfold incStep at h
    obtain ⟨a', _, h⟩ := bind_ok_inv h
    split at h
    · cases h
    · split at h
      · cases h
      · cases h
      · split at h
        · cases h
        · rename_i u _ lines hlines
          split at h
          · cases h
          · split at h
            · cases h
            · obtain ⟨sub, hsub, h⟩ := bind_ok_inv h
              cases h
              have := ih _ rfl _ _ _ _ _ _ (hres _ _ hlines) hsub
              exact this

/-- if neither the text nor any resource it can include contains an `%import` line, a successful parse leaves the
    loader's schema exactly as it was -/
theorem parse_without_import_keeps_schema (env : Env)
    (hres : ∀ u ls, env.res u = some ls → ∀ l ∈ ls, NoImportLine l) :
    ∀ (fuel : Nat) (active : List Str) (url : Option Str) (lines : List Str) (n : Nat) (st st' : PS LS),
      (∀ l ∈ lines, NoImportLine l) →
      parseLines fuel env loaderCtx active url lines n st = .ok st' → st'.ctx.schema = st.ctx.schema := by
  intro fuel
  induction fuel with
  | zero =>
    intro active url lines
    induction lines with
    | nil =>
      intro n st st' _ h
      rw [parseLines] at h
      split at h
      · cases h
      · cases h; rfl
    | cons l rest ihl =>
      intro n st st' hl h
      rw [parseLines] at h
      obtain ⟨s1, h1, h2⟩ := bind_ok_inv h
      have e1 := stepLine_schema env 0 hres (fun f hf => by omega) _ _ _ _ _ _ (hl l (by simp)) h1
      have e2 := ihl _ _ _ (fun x hx => hl x (by simp [hx])) h2
      rw [e2, e1]
  | succ f ihf =>
    intro active url lines
    induction lines with
    | nil =>
      intro n st st' _ h
      rw [parseLines] at h
      split at h
      · cases h
      · cases h; rfl
    | cons l rest ihl =>
      intro n st st' hl h
      rw [parseLines] at h
      obtain ⟨s1, h1, h2⟩ := bind_ok_inv h
      have e1 := stepLine_schema env (f + 1) hres (fun f' hf => by
        have : f = f' := by omega
        subst this; exact ihf) _ _ _ _ _ _ (hl l (by simp)) h1
      have e2 := ihl _ _ _ (fun x hx => hl x (by simp [hx])) h2
      rw [e2, e1]

end ZCV.Cfg
