import ZCV.Lemmas.ImportLoadText
import ZCV.Lemmas.ImportLoadWF
import ZCV.Lemmas.ImportLoadFree
import ZCV.Lemmas.SlotsEx
import ZCV.Lemmas.NoInternalMatcher
/-!
Closed examples for the text-level C12 theorems, in the small world of `ZCV/Lemmas/SlotsEx.lean` (schema with one abstract
type `ab` and a `*` slot for it; package `p` whose component adds the implementer `leak`).
-/
namespace ZCV.Cfg.Ex
open ZCV ZCV.Cfg ZCV.Conf

def linesIU : List Str := ["%import p".toList, "<leak/>".toList]
def linesUI : List Str := ["<leak/>".toList, "%import p".toList]
def topsIU : List TopItem := [.imp "p".toList, .item (.sect "leak".toList none [])]
def topsUI : List TopItem := [.item (.sect "leak".toList none []), .imp "p".toList]

theorem shape_import : lineShape (strip "%import p".toList) = .import_ "p".toList :=
  shape_of_classify _ (by decide) (.import_ "p".toList) (by simp) (by decide)
theorem shape_leak : lineShape (strip "<leak/>".toList) = .open_ "leak".toList none true :=
  shape_of_classify _ (by decide) (.open_ "leak".toList none true) (by simp) (by decide)

theorem parse_IU : parseI env none linesIU =
    .ok { ctx := { tops := topsIU.reverse, stack := [], nested := false }, stack := [], defs := [] } := by
  have hstrip : strip "p".toList = "p".toList := by decide
  unfold parseI linesIU
  simp only
  rw [parseLines, stepLine_import _ _ _ _ _ _ _ _ _ shape_import]
  unfold impStep
  rw [replace_nodollar _ _ _ _ _ (by decide), hstrip]
  simp only [bind, Except.bind, treeCtxI, tbiImport, Except.map]
  rw [parseLines, stepLine]
  simp only [shape_leak, openSection, tbiStart, tbiStop, closeFixup, Except.map, if_true, bind, Except.bind]
  rw [parseLines]
  rfl

theorem parse_UI : parseI env none linesUI =
    .ok { ctx := { tops := topsUI.reverse, stack := [], nested := false }, stack := [], defs := [] } := by
  have hstrip : strip "p".toList = "p".toList := by decide
  unfold parseI linesUI
  simp only
  rw [parseLines, stepLine]
  simp only [shape_leak, openSection, treeCtxI, tbiStart, tbiStop, closeFixup, Except.map, if_true, bind, Except.bind]
  rw [parseLines, stepLine_import _ _ _ _ _ _ _ _ _ shape_import]
  unfold impStep
  rw [replace_nodollar _ _ _ _ _ (by decide), hstrip]
  simp only [bind, Except.bind, tbiImport, Except.map]
  rw [parseLines]
  rfl

theorem tree_IU : treeOfI env none linesIU = .ok topsIU := by
  unfold treeOfI; rw [parse_IU]; rfl
theorem tree_UI : treeOfI env none linesUI = .ok topsUI := by
  unfold treeOfI; rw [parse_UI]; rfl

theorem atTop_IU : importsAtTop env none linesIU := by
  intro ps h; rw [parse_IU] at h; cases h; rfl
theorem atTop_UI : importsAtTop env none linesUI := by
  intro ps h; rw [parse_UI] at h; cases h; rfl

theorem ok_IU : ∀ tops, treeOfI env none linesIU = .ok tops → importsOK pkgs schema tops = true := by
  intro tops h; rw [tree_IU] at h; cases h; decide
theorem ok_UI : ∀ tops, treeOfI env none linesUI = .ok tops → importsOK pkgs schema tops = true := by
  intro tops h; rw [tree_UI] at h; cases h; decide

theorem compsOK_IU : compsOK pkgs schema topsIU = true := by decide

theorem conformsI_IU : conformsI conv schema pkgs topsIU = true := by decide
theorem conformsI_UI : conformsI conv schema pkgs topsUI = false := by decide

/-! ### `pkgWF` is not enough: a component type with a section child stored under the EMPTY key -/

/-- `<section type="leak" name="*" attribute="a"/>` … -/
def boxSlot : SectInfo :=
  { name := ['*'], attr := "a".toList, multi := false, minOccurs := 0, ty := "leak".toList, handler := none }
/-- … stored under the key `""` (the schema loader never does that; `pkgWF` does not exclude it, `schemaOK` does) -/
def box : SType :=
  { name := some "box".toList, keytype := "basic-key".toList, datatype := "null".toList,
    children := [(some [], .sect boxSlot)] }
def pkgsW : Str → Pkg := fun n =>
  if n == "p".toList then
    .component "u".toList [("leak".toList, .concrete leak), ("box".toList, .concrete box)]
      [("leak".toList, "ab".toList), ("box".toList, "ab".toList)]
  else .notImportable
/-- `%import p` / `<box>` `<leak/>` `</box>` -/
def topsW : List TopItem := [.imp "p".toList, .item (.sect "box".toList none [.sect "leak".toList none []])]

/-- the schema after `%import p` -/
def sW : Schema :=
  { types := [("ab".toList, .abstract_ "ab".toList ["leak".toList, "box".toList]), ("leak".toList, .concrete leak),
              ("box".toList, .concrete box)],
    top := top, handler := none, components := ["u".toList] }
theorem extW : extend schema (pkgsW "p".toList) = some sW := by rfl
theorem g1 : getsectioninfo sW box "leak".toList none = .ok boxSlot := by
  unfold getsectioninfo
  rw [show box.children = [(some [], .sect boxSlot)] from rfl, getsectioninfo.go.eq_def]
  simp only [bne_self_eq_false, Bool.false_eq_true, if_false]
  unfold getsectioninfo.goUnkeyed
  simp only [show (boxSlot.ty == "leak".toList) = true by decide, if_true]
  rfl
theorem g2 : getsectioninfo sW top "box".toList none = .ok slot := by
  unfold getsectioninfo
  rw [show top.children = [(none, .sect slot)] from rfl, getsectioninfo.go.eq_def]
  simp only
  unfold getsectioninfo.goUnkeyed
  simp only [show (slot.ty == "box".toList) = false by decide, show isAbstract sW slot.ty = true by decide,
    show isSubtype sW slot.ty "box".toList = true by decide, if_true, Bool.false_eq_true, if_false]
def mBox : Matcher := setSlot (newMatcher box none none) "a".toList (.sect vLeak)
def vBox : Val := .sect "box".toList none [("a".toList, vLeak)]
def mTopW : Matcher := setSlot (newMatcher top none none) "s".toList (.sects [vBox])
theorem add_leak : addSection sW (newMatcher box none none) "leak".toList none vLeak = .ok mBox := by
  rw [addSection_eq]
  simp only [newName, List.any_nil, Bool.false_eq_true, if_false]
  rw [show (newMatcher box none none).ty = box from rfl, g1]
  rfl
theorem ev_leak : evalItem conv sW (newMatcher box none none) (.sect "leak".toList none []) = .ok mBox := by
  rw [evalItem]
  rw [show sW.gettype "leak".toList = some (.concrete leak) by rfl]
  simp only
  rw [show (newMatcher box none none).ty = box from rfl, show leak.name.getD [] = "leak".toList from rfl, g1]
  simp only [show isAllowedName boxSlot none = true by decide, show allowUnnamed boxSlot = true by decide,
    Bool.not_true, Bool.false_eq_true, if_false, Option.isSome_none, Bool.or_true]
  rw [evalItems]
  simp only [show finishMatcher conv sW (newMatcher leak none none) = .ok (vLeak, []) from rfl]
  exact add_leak
theorem fin_box : finishMatcher conv sW mBox = .ok (vBox, []) := by rfl
theorem add_box : addSection sW (newMatcher top none none) "box".toList none vBox = .ok mTopW := by
  rw [addSection_eq]
  simp only [newName, List.any_nil, Bool.false_eq_true, if_false]
  rw [show (newMatcher top none none).ty = top from rfl, g2]
  rfl
theorem ev_box : evalItem conv sW (newMatcher top none none) (.sect "box".toList none [.sect "leak".toList none []]) = .ok mTopW := by
  rw [evalItem]
  rw [show sW.gettype "box".toList = some (.concrete box) by rfl]
  simp only
  rw [show (newMatcher top none none).ty = top from rfl, show box.name.getD [] = "box".toList from rfl, g2]
  simp only [show isAllowedName slot none = true by decide, show allowUnnamed slot = true by decide,
    Bool.not_true, Bool.false_eq_true, if_false, Option.isSome_none, Bool.or_true]
  rw [evalItems, ev_leak]
  simp only
  rw [evalItems]
  simp only [fin_box]
  exact add_box
theorem accW : acceptsTops conv pkgsW schema topsW = true := by
  unfold acceptsTops topsW
  rw [evalTops, extW]
  simp only
  rw [evalTops, show schema.top = top from rfl, ev_box]
  simp only
  rw [evalTops]
  rfl

theorem witness_pkgWF : (∀ n, pkgWF (pkgsW n) = true) ∧ schemaOK schema = true ∧ lowTops topsW = true ∧
    (∃ r, loadTops conv pkgsW schema topsW = .ok r) ∧ conformsI conv schema pkgsW topsW = false ∧
    importsOK pkgsW schema topsW = false := by
  refine ⟨?_, by decide, by decide, loadTops_of_accepts _ _ _ _ accW, by decide, by decide⟩
  intro n
  unfold pkgsW
  split
  · decide
  · rfl

end ZCV.Cfg.Ex
