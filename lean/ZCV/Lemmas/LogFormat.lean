import ZCV.Model.LogFormat
import ZCV.Spec.LogFormat
/-!
Lemmas for the classic log format model (C20): evaluation of one conversion specifier, the link between the sample
record of `FormatterFactory` and the kind table of the specification, acceptance and safety of item lists.
-/
namespace ZCV.LogFormatLemmas
open ZCV ZCV.LogFormat ZCV.LogFormatSpec

/-- the pending argument between items: the mapping itself (`ok` = its `repr()` works) until the first conversion
    specifier, nothing afterwards -/
def stOf (ok first : Bool) : Option Arg := if first then some (.mapping ok) else none

/-- the argument a specifier formats: the value of its key, or the pending argument -/
def argOf (d : Dict) (st : Option Arg) : Option Str → Option Arg
  | none => st
  | some k => (d k).map Arg.val

def precOf : Spec → Option Nat
  | .num n => some n
  | _ => none

theorem lf_evalWidth_of_ok {st st2 : Option Arg} {w : Spec} (h : evalWidth st w = .ok st2) :
    (SpecOk ssizeMax w ∧ st2 = st) ∨ st2 = none := by
  cases w with
  | absent => simp_all [evalWidth, SpecOk]
  | num n =>
    simp only [evalWidth] at h
    split at h
    · cases h
    · left; simp_all [SpecOk]
  | star =>
    right
    simp only [evalWidth] at h
    cases h2 : evalStar st (-(ssizeMax : Int) - 1) ssizeMax <;> simp_all [Except.map]

theorem lf_evalWidth_specOk {st : Option Arg} {w : Spec} (h : SpecOk ssizeMax w) : evalWidth st w = .ok st := by
  cases w with
  | absent => rfl
  | num n => simp only [SpecOk] at h; simp only [evalWidth]; rw [if_neg (by omega)]
  | star => cases h

theorem lf_evalPrec_of_ok {st : Option Arg} {p : Spec} {r : Option Arg × Option Nat} (h : evalPrec st p = .ok r) :
    (SpecOk cIntMax p ∧ r = (st, precOf p)) ∨ r.1 = none := by
  cases p with
  | absent => simp_all [evalPrec, SpecOk, precOf]
  | num n =>
    simp only [evalPrec] at h
    split at h
    · cases h
    · left; simp_all [SpecOk, precOf]
  | star =>
    right
    simp only [evalPrec] at h
    cases h2 : evalStar st (-(cIntMax : Int) - 1) cIntMax <;> simp_all [Except.map]
    rw [← h]

theorem lf_evalPrec_specOk {st : Option Arg} {p : Spec} (h : SpecOk cIntMax p) :
    evalPrec st p = .ok (st, precOf p) := by
  cases p with
  | absent => rfl
  | num n => simp only [SpecOk] at h; simp only [evalPrec, precOf]; rw [if_neg (by omega)]
  | star => cases h

/-- `evalItem` on a specifier, with the key lookup factored out -/
def evalTail (st1 : Option Arg) (w p : Spec) (conv : Option Char) : Except PyErr (Option Arg) :=
  match evalWidth st1 w with
  | .error e => .error e
  | .ok st2 =>
    match evalPrec st2 p with
    | .error e => .error e
    | .ok (st3, pv) =>
      match conv with
      | none => .error .valueError
      | some c =>
        match st3 with
        | none => .error .typeError
        | some v =>
          match argCheck c pv v with
          | .error e => .error e
          | .ok _ => .ok none

theorem lf_evalTail_ok (st1 : Option Arg) (w p : Spec) (conv : Option Char) (st' : Option Arg) :
    evalTail st1 w p conv = .ok st' ↔
      st' = none ∧ SpecOk ssizeMax w ∧ SpecOk cIntMax p ∧
      ∃ c v, conv = some c ∧ st1 = some v ∧ argCheck c (precOf p) v = .ok () := by
  constructor
  · intro h
    unfold evalTail at h
    split at h
    · cases h
    · rename_i st2 hw
      split at h
      · cases h
      · rename_i st3 pv hp
        split at h
        · cases h
        · rename_i c
          split at h
          · cases h
          · rename_i v
            split at h
            · cases h
            · rename_i hc
              rcases lf_evalPrec_of_ok hp with ⟨hpo, hr⟩ | hr
              · simp only [Prod.mk.injEq] at hr
                obtain ⟨hr1, hr2⟩ := hr
                rcases lf_evalWidth_of_ok hw with ⟨hwo, hs⟩ | hs
                · subst hs hr1 hr2
                  simp only [Except.ok.injEq] at h
                  exact ⟨h.symm, hwo, hpo, c, v, rfl, rfl, hc⟩
                · subst hs; cases hr1
              · cases hr
  · rintro ⟨rfl, hw, hp, c, v, rfl, rfl, hc⟩
    unfold evalTail
    rw [lf_evalWidth_specOk hw]
    simp only [lf_evalPrec_specOk hp, hc]

theorem lf_evalItem_field (d : Dict) (st : Option Arg) (key : Option Str) (fl : Str) (w p : Spec)
    (lm : Option Char) (conv : Option Char) :
    evalItem d st (.field key fl w p lm conv) =
      match key with
      | none => evalTail st w p conv
      | some k => match d k with
                  | none => .error .keyError
                  | some v => evalTail (some (.val v)) w p conv := by
  cases key with
  | none => rfl
  | some k =>
    simp only [evalItem]
    cases d k <;> rfl

theorem lf_evalItem_field_ok (d : Dict) (st : Option Arg) (key : Option Str) (fl : Str) (w p : Spec)
    (lm : Option Char) (conv : Option Char) (st' : Option Arg) :
    evalItem d st (.field key fl w p lm conv) = .ok st' ↔
      st' = none ∧ SpecOk ssizeMax w ∧ SpecOk cIntMax p ∧
      ∃ c v, conv = some c ∧ argOf d st key = some v ∧ argCheck c (precOf p) v = .ok () := by
  rw [lf_evalItem_field]
  cases key with
  | none => exact lf_evalTail_ok st w p conv st'
  | some k =>
    simp only [argOf]
    cases hd : d k with
    | none => simp
    | some v => exact lf_evalTail_ok (some (.val v)) w p conv st'

/-! ## The sample record and the kind table -/

/-- the kind of attribute a sample value stands for -/
def kindOfValue : Value → Kind
  | .str _ => .text
  | .int n => if 0 ≤ n ∧ n ≤ maxUnicode then .smallInt else .bigInt
  | .float _ => .real
  | .none => .object
  | .other => .object

/-- what makes a sample value representative of its kind: a `str` sample is not a single character (so `%c` is
    refused), an `int` sample converts to `float`, a `float` sample is finite -/
def goodSample : Value → Bool
  | .str s => s.length != 1
  | .int n => decide (-floatLimit < n ∧ n < floatLimit)
  | .float k => k == .finite
  | _ => true

theorem lf_fieldKinds_eq : fieldKinds = sampleVars.map (fun p => (p.1, kindOfValue p.2)) := by decide +kernel
theorem lf_sample_good : ∀ p ∈ sampleVars, goodSample p.2 = true := by decide +kernel
theorem lf_sample_keys_nodup : (sampleVars.map (·.1)).Nodup := by decide +kernel

theorem lf_lookup_mem {tbl : List (Str × Value)} {k : Str} {v : Value} (h : lookup tbl k = some v) : (k, v) ∈ tbl := by
  unfold lookup at h
  cases hf : tbl.find? (fun p => p.1 == k) with
  | none => simp [hf] at h
  | some p =>
    simp only [hf, Option.map_some, Option.some.injEq] at h
    have h1 := List.mem_of_find?_eq_some hf
    have h2 := List.find?_some hf
    simp only [beq_iff_eq] at h2
    subst h2 h
    exact h1

theorem lf_lookup_of_mem {tbl : List (Str × Value)} {k : Str} {v : Value} (hn : (tbl.map (·.1)).Nodup)
    (h : (k, v) ∈ tbl) : lookup tbl k = some v := by
  induction tbl with
  | nil => cases h
  | cons a t ih =>
    simp only [List.map_cons, List.nodup_cons] at hn
    simp only [lookup, List.find?_cons]
    rcases List.mem_cons.mp h with h | h
    · subst h; simp
    · have hne : (a.1 == k) = false := by
        apply Bool.eq_false_iff.mpr
        intro he
        simp only [beq_iff_eq] at he
        exact hn.1 (by rw [he]; exact List.mem_map.mpr ⟨(k, v), h, rfl⟩)
      simp only [hne]
      exact ih hn.2 h

theorem lf_sample_iff (k : Str) (v : Value) : sampleDict k = some v ↔ (k, v) ∈ sampleVars :=
  ⟨lf_lookup_mem, lf_lookup_of_mem lf_sample_keys_nodup⟩

theorem lf_fieldKinds_mem (k : Str) (kind : Kind) :
    (k, kind) ∈ fieldKinds ↔ ∃ v, sampleDict k = some v ∧ kindOfValue v = kind := by
  rw [lf_fieldKinds_eq, List.mem_map]
  constructor
  · rintro ⟨⟨k', v⟩, hm, he⟩
    simp only [Prod.mk.injEq] at he
    obtain ⟨rfl, rfl⟩ := he
    exact ⟨v, (lf_sample_iff _ _).mpr hm, rfl⟩
  · rintro ⟨v, hs, rfl⟩
    exact ⟨(k, v), (lf_sample_iff _ _).mp hs, rfl⟩

theorem lf_sample_good_of (k : Str) (v : Value) (h : sampleDict k = some v) : goodSample v = true :=
  lf_sample_good (k, v) ((lf_sample_iff k v).mp h)

/-- explicit precision bound for the integer conversions, on the evaluated precision -/
def PrecFitsV (cls : ConvClass) (prec : Option Nat) : Prop :=
  (cls = .dec ∨ cls = .radix) → ∀ n, prec = some n → n ≤ cIntMax - 3

theorem lf_precFits_iff (cls : ConvClass) (p : Spec) : PrecFitsV cls (precOf p) ↔ PrecFits cls p := by
  unfold PrecFitsV PrecFits
  cases p <;> simp [precOf]

theorem lf_precCheck_ok (prec : Option Nat) : precCheck prec = .ok () ↔ ∀ n, prec = some n → n ≤ cIntMax - 3 := by
  cases prec with
  | none => simp [precCheck]
  | some p =>
    simp only [precCheck, Option.some.injEq, forall_eq']
    split <;> simp <;> omega

theorem lf_strCheck_int (n : Int) : strCheck (.int n) = .ok () ↔ n.natAbs < 10 ^ 4300 := by
  have h1 : strCheck (.int n) = if n.natAbs < 10 ^ intMaxStrDigits then .ok () else .error .valueError := rfl
  have h2 : intMaxStrDigits = 4300 := rfl
  rw [h1, h2]
  generalize (10 ^ 4300 : Nat) = B
  by_cases h : n.natAbs < B <;> simp [h]

/-- `strCheck` is the readable `Prints` of the specification -/
theorem lf_strCheck_ok (v : Value) : strCheck v = .ok () ↔ Prints v := by
  cases v with
  | int n => exact lf_strCheck_int n
  | _ => simp [strCheck, Prints]

theorem lf_strCheck_error (v : Value) (e : PyErr) (h : strCheck v = .error e) : e = .valueError := by
  cases v with
  | int n =>
    simp only [strCheck] at h
    split at h
    · cases h
    · injection h with h; exact h.symm
  | _ => simp [strCheck] at h

theorem lf_floatLimit_small : floatLimit ≤ ((10 ^ 4300 : Nat) : Int) := by decide +kernel

/-- an `int` that converts to `float` has at most 309 digits: far below the 4300-digit limit -/
theorem lf_strCheck_of_float (n : Int) (h : -floatLimit < n ∧ n < floatLimit) : strCheck (.int n) = .ok () := by
  rw [lf_strCheck_int]
  have hL := lf_floatLimit_small
  generalize (10 ^ 4300 : Nat) = B at hL ⊢
  generalize floatLimit = F at hL h
  omega

theorem lf_decCheck_ok (prec : Option Nat) (n : Int) :
    decCheck prec n = .ok () ↔ (∀ m, prec = some m → m ≤ cIntMax - 3) ∧ strCheck (.int n) = .ok () := by
  unfold decCheck
  rw [← lf_precCheck_ok]
  cases precCheck prec <;> simp

/-- a representative sample value passes exactly the conversions its kind allows -/
theorem lf_classCheck_sample (v : Value) (hg : goodSample v = true) (cls : ConvClass) (prec : Option Nat) :
    classCheck cls prec v = .ok () ↔ (kindOfValue v).allows cls = true ∧ PrecFitsV cls prec := by
  cases v with
  | str s =>
    simp only [goodSample, bne_iff_ne, ne_eq] at hg
    cases cls <;> simp [classCheck, strCheck, kindOfValue, Kind.allows, PrecFitsV, hg]
  | int n =>
    simp only [goodSample, decide_eq_true_eq] at hg
    have hs := lf_strCheck_of_float n hg
    by_cases hc : 0 ≤ n ∧ n ≤ maxUnicode
    · cases cls <;> simp [classCheck, kindOfValue, Kind.allows, PrecFitsV, hg, hc, hs, lf_precCheck_ok, lf_decCheck_ok]
    · cases cls <;> simp [classCheck, kindOfValue, Kind.allows, PrecFitsV, hg, hc, hs, lf_precCheck_ok, lf_decCheck_ok]
  | float k =>
    simp only [goodSample, beq_iff_eq] at hg
    subst hg
    cases cls <;> simp [classCheck, strCheck, kindOfValue, Kind.allows, PrecFitsV, lf_precCheck_ok]
  | none => cases cls <;> simp [classCheck, strCheck, kindOfValue, Kind.allows, PrecFitsV]
  | other => cases cls <;> simp [classCheck, strCheck, kindOfValue, Kind.allows, PrecFitsV]

/-! ## Acceptance of one item against the sample record -/

theorem lf_convCheck_ok (c : Char) (prec : Option Nat) (v : Value) :
    convCheck c prec v = .ok () ↔ ∃ cls, classOf c = some cls ∧ classCheck cls prec v = .ok () := by
  unfold convCheck
  cases classOf c <;> simp

theorem lf_classCheck_other (cls : ConvClass) (prec : Option Nat) :
    classCheck cls prec .other = .ok () ↔ cls = .text := by
  cases cls <;> simp [classCheck, strCheck]

theorem lf_stOf_some (ok first : Bool) (a : Arg) : stOf ok first = some a ↔ first = true ∧ a = .mapping ok := by
  cases first <;> simp [stOf, eq_comm]

/-- a conversion of the mapping itself: only `s r a`, and the mapping must print -/
theorem lf_argCheck_mapping (c : Char) (prec : Option Nat) (ok : Bool) :
    argCheck c prec (.mapping ok) = .ok () ↔ (∃ cls, classOf c = some cls ∧ cls = .text) ∧ ok = true := by
  unfold argCheck
  cases hc : convCheck c prec .other with
  | error e =>
    simp only [reduceCtorEq, false_iff, not_and]
    rintro ⟨cls, hcls, rfl⟩
    have := (lf_convCheck_ok c prec .other).mpr ⟨.text, hcls, rfl⟩
    rw [hc] at this; cases this
  | ok u =>
    obtain ⟨cls, hcls, hck⟩ := (lf_convCheck_ok c prec .other).mp hc
    have := (lf_classCheck_other cls prec).mp hck
    cases ok <;> simp [hcls, this]

theorem lf_argOf_key (d : Dict) (st : Option Arg) (k : Str) (a : Arg) :
    argOf d st (some k) = some a ↔ ∃ v, d k = some v ∧ a = .val v := by
  simp only [argOf]
  cases d k <;> simp [eq_comm]

theorem lf_item_sample (first : Bool) (it : Item) (st' : Option Arg) :
    evalItem sampleDict (stOf true first) it = .ok st' ↔
      ItemAccepted first it ∧ st' = stOf true (first && !isSpecifier it) := by
  cases it with
  | lit s => simp [evalItem, ItemAccepted, isSpecifier, eq_comm]
  | percent => simp [evalItem, ItemAccepted, isSpecifier, eq_comm]
  | badKey s => simp [evalItem, ItemAccepted]
  | field key fl w p lm conv =>
    rw [lf_evalItem_field_ok]
    simp only [ItemAccepted, isSpecifier, Bool.not_true, Bool.and_false]
    have hst : stOf true false = none := rfl
    rw [hst]
    constructor
    · rintro ⟨rfl, hw, hp, c, a, rfl, harg, hc⟩
      refine ⟨⟨hw, hp, c, ?_⟩, rfl⟩
      cases key with
      | none =>
        simp only [argOf] at harg
        obtain ⟨hf, rfl⟩ := (lf_stOf_some _ _ _).mp harg
        obtain ⟨⟨cls, hcls, rfl⟩, _⟩ := (lf_argCheck_mapping _ _ _).mp hc
        exact ⟨.text, rfl, hcls, hf, rfl⟩
      | some k =>
        obtain ⟨v, hv, rfl⟩ := (lf_argOf_key _ _ _ _).mp harg
        obtain ⟨cls, hcls, hck⟩ := (lf_convCheck_ok _ _ _).mp hc
        refine ⟨cls, rfl, hcls, ?_⟩
        obtain ⟨hal, hpf⟩ := (lf_classCheck_sample v (lf_sample_good_of k v hv) cls _).mp hck
        exact ⟨kindOfValue v, (lf_fieldKinds_mem _ _).mpr ⟨v, hv, rfl⟩, hal, (lf_precFits_iff _ _).mp hpf⟩
    · rintro ⟨⟨hw, hp, c, cls, rfl, hcls, hk⟩, rfl⟩
      refine ⟨rfl, hw, hp, c, ?_⟩
      cases key with
      | none =>
        obtain ⟨hf, rfl⟩ := hk
        exact ⟨.mapping true, rfl, (lf_stOf_some _ _ _).mpr ⟨hf, rfl⟩,
          (lf_argCheck_mapping _ _ _).mpr ⟨⟨.text, hcls, rfl⟩, rfl⟩⟩
      | some k =>
        obtain ⟨kind, hmem, hal, hpf⟩ := hk
        obtain ⟨v, hv, rfl⟩ := (lf_fieldKinds_mem _ _).mp hmem
        refine ⟨.val v, rfl, (lf_argOf_key _ _ _ _).mpr ⟨v, hv, rfl⟩, (lf_convCheck_ok _ _ _).mpr ⟨cls, hcls, ?_⟩⟩
        exact (lf_classCheck_sample v (lf_sample_good_of k v hv) cls _).mpr ⟨hal, (lf_precFits_iff _ _).mpr hpf⟩

theorem lf_items_sample (first : Bool) (items : List Item) :
    runItems sampleDict (stOf true first) items = .ok () ↔ ItemsAccepted first items := by
  induction items generalizing first with
  | nil => simp [runItems, ItemsAccepted]
  | cons it rest ih =>
    simp only [runItems, ItemsAccepted]
    cases he : evalItem sampleDict (stOf true first) it with
    | error e =>
      simp only [reduceCtorEq, false_iff, not_and]
      intro ha
      have := (lf_item_sample first it (stOf true (first && !isSpecifier it))).mpr ⟨ha, rfl⟩
      rw [he] at this; cases this
    | ok st' =>
      obtain ⟨ha, rfl⟩ := (lf_item_sample first it st').mp he
      simp only [ih, ha, true_and]

/-! ## Safety of accepted items on a record -/

/-- conversions of the specifier satisfy `good` -/
def itemGood (good : ConvClass → Prop) : Item → Prop
  | .field _ _ _ _ _ (some c) => ∀ cls, classOf c = some cls → good cls
  | _ => True

theorem lf_itemGood_true (it : Item) : itemGood (fun _ => True) it := by
  cases it with
  | field key fl w p lm conv =>
    cases conv with
    | none => trivial
    | some c => intro _ _; trivial
  | _ => trivial

/-- `ok` = `repr()` of the record's attribute dictionary works; it is needed for a specifier without `(key)` only -/
theorem lf_item_safe (adm : Kind → Value → Prop) (good : ConvClass → Prop) (it : Item)
    (H : ∀ kind v cls prec, adm kind v → kind.allows cls = true → good cls → PrecFitsV cls prec →
      classCheck cls prec v = .ok ())
    (r : Dict) (hr : ∀ k kind, (k, kind) ∈ fieldKinds → itemKey it = some k → ∃ v, r k = some v ∧ adm kind v)
    (ok : Bool) (hb : isBare it = true → ok = true)
    (first : Bool) (ha : ItemAccepted first it) (hg : itemGood good it) :
    evalItem r (stOf ok first) it = .ok (stOf ok (first && !isSpecifier it)) := by
  cases it with
  | lit s => simp [evalItem, isSpecifier]
  | percent => simp [evalItem, isSpecifier]
  | badKey s => cases ha
  | field key fl w p lm conv =>
    rw [lf_evalItem_field_ok]
    obtain ⟨hw, hp, c, cls, rfl, hcls, hk⟩ := ha
    refine ⟨by simp [isSpecifier, stOf], hw, hp, c, ?_⟩
    cases key with
    | none =>
      obtain ⟨hf, rfl⟩ := hk
      exact ⟨.mapping ok, rfl, (lf_stOf_some _ _ _).mpr ⟨hf, rfl⟩,
        (lf_argCheck_mapping _ _ _).mpr ⟨⟨.text, hcls, rfl⟩, hb rfl⟩⟩
    | some k =>
      obtain ⟨kind, hmem, hal, hpf⟩ := hk
      obtain ⟨v, hv, hadm⟩ := hr k kind hmem rfl
      refine ⟨.val v, rfl, (lf_argOf_key _ _ _ _).mpr ⟨v, hv, rfl⟩, (lf_convCheck_ok _ _ _).mpr ⟨cls, hcls, ?_⟩⟩
      exact H kind v cls _ hadm hal (hg cls hcls) ((lf_precFits_iff _ _).mpr hpf)

theorem lf_items_safe (adm : Kind → Value → Prop) (good : ConvClass → Prop)
    (H : ∀ kind v cls prec, adm kind v → kind.allows cls = true → good cls → PrecFitsV cls prec →
      classCheck cls prec v = .ok ())
    (r : Dict) (items : List Item)
    (hr : ∀ k kind, (k, kind) ∈ fieldKinds → (∃ it ∈ items, itemKey it = some k) → ∃ v, r k = some v ∧ adm kind v)
    (ok : Bool) (hb : (∃ it ∈ items, isBare it = true) → ok = true)
    (first : Bool) (ha : ItemsAccepted first items) (hg : ∀ it ∈ items, itemGood good it) :
    runItems r (stOf ok first) items = .ok () := by
  induction items generalizing first with
  | nil => rfl
  | cons it rest ih =>
    simp only [runItems]
    rw [lf_item_safe adm good it H r (fun k kind hm hk => hr k kind hm ⟨it, List.mem_cons_self, hk⟩) ok
      (fun h => hb ⟨it, List.mem_cons_self, h⟩) first ha.1 (hg it List.mem_cons_self)]
    exact ih (fun k kind hm ⟨x, hx, hk⟩ => hr k kind hm ⟨x, List.mem_cons_of_mem _ hx, hk⟩)
      (fun ⟨x, hx, h⟩ => hb ⟨x, List.mem_cons_of_mem _ hx, h⟩) _ ha.2
      (fun x hx => hg x (List.mem_cons_of_mem _ hx))

theorem lf_floatLimit_big : (2 : Int) ^ 64 ≤ floatLimit := by decide +kernel

/-- values of an ordinary record pass every conversion their kind allows -/
theorem lf_classCheck_admitsWide (kind : Kind) (v : Value) (cls : ConvClass) (prec : Option Nat)
    (hadm : kind.admitsWide v) (hal : kind.allows cls = true) (_ : True) (hpf : PrecFitsV cls prec) :
    classCheck cls prec v = .ok () := by
  have hL := lf_floatLimit_big
  cases kind with
  | text =>
    have hs := (lf_strCheck_ok v).mpr hadm
    cases cls <;> simp_all [Kind.allows, classCheck]
  | object =>
    have hs := (lf_strCheck_ok v).mpr hadm
    cases cls <;> simp_all [Kind.allows, classCheck]
  | smallInt =>
    obtain ⟨n, rfl, h0, h1⟩ := hadm
    have h2 : -floatLimit < n ∧ n < floatLimit := by omega
    have h3 : 0 ≤ n ∧ n ≤ maxUnicode := by simp only [maxUnicode]; omega
    have hs := lf_strCheck_of_float n h2
    cases cls <;> simp_all [Kind.allows, classCheck, PrecFitsV, lf_precCheck_ok, lf_decCheck_ok]
  | bigInt =>
    obtain ⟨n, rfl, h0, h1⟩ := hadm
    have h2 : -floatLimit < n ∧ n < floatLimit := ⟨h0, h1⟩
    have hs := lf_strCheck_of_float n h2
    cases cls <;> simp_all [Kind.allows, classCheck, PrecFitsV, lf_precCheck_ok, lf_decCheck_ok]
  | real =>
    cases hadm
    cases cls <;> simp_all [Kind.allows, classCheck, strCheck, PrecFitsV, lf_precCheck_ok]

theorem lf_admits_wide (kind : Kind) (v : Value) (h : kind.admits v) : kind.admitsWide v := by
  have hL := lf_floatLimit_big
  cases kind with
  | text => obtain ⟨s, rfl⟩ := h; trivial
  | object => exact h
  | smallInt => exact h
  | bigInt =>
    obtain ⟨n, rfl, h0, h1⟩ := h
    exact ⟨n, rfl, by omega, by omega⟩
  | real => exact h


/-- with the right types only, every allowed conversion except `%c` passes -/
theorem lf_classCheck_admitsTyped (kind : Kind) (v : Value) (cls : ConvClass) (prec : Option Nat)
    (hadm : kind.admitsTyped v) (hal : kind.allows cls = true) (hc : cls ≠ .char) (hpf : PrecFitsV cls prec) :
    classCheck cls prec v = .ok () := by
  cases kind with
  | smallInt =>
    obtain ⟨n, rfl, h0, h1⟩ := hadm
    have h2 : -floatLimit < n ∧ n < floatLimit := ⟨h0, h1⟩
    have hs := lf_strCheck_of_float n h2
    cases cls <;> simp_all [Kind.allows, classCheck, PrecFitsV, lf_precCheck_ok, lf_decCheck_ok]
  | text => exact lf_classCheck_admitsWide .text v cls prec hadm hal trivial hpf
  | object => exact lf_classCheck_admitsWide .object v cls prec hadm hal trivial hpf
  | bigInt => exact lf_classCheck_admitsWide .bigInt v cls prec hadm hal trivial hpf
  | real => exact lf_classCheck_admitsWide .real v cls prec hadm hal trivial hpf

theorem lf_admitsB (kind : Kind) (v : Value) (h : kind.admitsB v = true) : kind.admits v := by
  cases kind <;> cases v <;> simp_all [-Nat.reducePow, Kind.admitsB, Kind.admits, Prints]
  rename_i k
  cases k <;> simp_all

theorem lf_ordinary_of_table (tbl : List (Str × Value)) (h : ordinaryTable tbl = true) : Ordinary (lookup tbl) := by
  intro k kind hm
  unfold ordinaryTable at h
  have := List.all_eq_true.mp h (k, kind) hm
  simp only at this
  cases hl : lookup tbl k with
  | none => simp [hl] at this
  | some v =>
    rw [hl] at this
    exact ⟨v, rfl, lf_admitsB kind v this⟩

theorem lf_ordinaryFor_of_table (fmt : Str) (tbl : List (Str × Value)) (h : ordinaryTableFor fmt tbl = true) :
    OrdinaryFor fmt (lookup tbl) := by
  intro k kind hm hu
  unfold ordinaryTableFor at h
  have := List.all_eq_true.mp h (k, kind) hm
  simp only [Bool.or_eq_true, Bool.and_eq_true, beq_iff_eq, Bool.not_eq_true'] at this
  rcases this with ⟨hk, hn⟩ | this
  · rw [hu hk] at hn; cases hn
  · cases hl : lookup tbl k with
    | none => simp [hl] at this
    | some v =>
      rw [hl] at this
      exact ⟨v, rfl, lf_admitsB kind v this⟩

/-! ## The mapping itself: `MappingPrints`, tables -/

theorem lf_mappingPrints_iff (d : Dict) : MappingPrints d ↔ Printable d := by
  unfold MappingPrints Printable
  exact ⟨fun h k v hv => (lf_strCheck_ok v).mp (h k v hv), fun h k v hv => (lf_strCheck_ok v).mpr (h k v hv)⟩

theorem lf_tablePrints_iff (tbl : List (Str × Value)) : tablePrints tbl = true ↔ MappingPrints (lookup tbl) := by
  unfold tablePrints MappingPrints
  rw [List.all_eq_true]
  constructor
  · intro h k v hv
    have := h (k, v) (lf_lookup_mem hv)
    simpa only [hv, decide_eq_true_eq] using this
  · intro h p _
    cases hl : lookup tbl p.1 with
    | none => rfl
    | some v => simpa only [decide_eq_true_eq] using h p.1 v hl

theorem lf_printable_of_table (tbl : List (Str × Value)) (h : tablePrints tbl = true) : Printable (lookup tbl) :=
  (lf_mappingPrints_iff _).mp ((lf_tablePrints_iff tbl).mp h)

open Classical in
theorem lf_formatRun_on (fmt : Str) (d : Dict) (ok : Bool) (h : ok = true ↔ MappingPrints d) :
    formatRun fmt d = formatRunOn ok fmt d := by
  unfold formatRun
  congr 1
  cases ok with
  | true => exact decide_eq_true (h.mp rfl)
  | false => exact decide_eq_false (fun hp => by have := h.mpr hp; cases this)

/-- the noncomputable `formatRun` on a mapping given as a table is the executable `formatRunTable` -/
theorem lf_formatRun_table (fmt : Str) (tbl : List (Str × Value)) :
    formatRun fmt (lookup tbl) = formatRunTable fmt tbl :=
  lf_formatRun_on fmt (lookup tbl) (tablePrints tbl) (lf_tablePrints_iff tbl)

theorem lf_formatSafe_table (fmt : Str) (tbl : List (Str × Value)) :
    formatSafe fmt (lookup tbl) = formatSafeTable fmt tbl := by
  unfold formatSafe formatSafeTable
  rw [lf_formatRun_table]

theorem lf_sample_prints : tablePrints sampleVars = true := by decide +kernel

theorem lf_formatRun_sample (fmt : Str) : formatRun fmt sampleDict = runItems sampleDict (stOf true true) (parse fmt) := by
  unfold sampleDict
  rw [lf_formatRun_table]
  unfold formatRunTable formatRunOn
  rw [lf_sample_prints]
  rfl

/-- what `formatRun` is on a record: the items are evaluated with the mapping pending, `ok` = the mapping prints -/
theorem lf_formatRun_eq (fmt : Str) (r : Dict) :
    ∃ ok : Bool, (ok = true ↔ Printable r) ∧ formatRun fmt r = runItems r (stOf ok true) (parse fmt) := by
  by_cases h : MappingPrints r
  · exact ⟨true, by simp [← lf_mappingPrints_iff, h], lf_formatRun_on fmt r true (by simp [h])⟩
  · exact ⟨false, by simp [← lf_mappingPrints_iff, h], lf_formatRun_on fmt r false (by simp [h])⟩

theorem lf_accepts_iff (fmt : Str) :
    accepts fmt = true ↔ formatRun (effective fmt) sampleDict = .ok () ∧ validatorSearch (effective fmt) = true := by
  unfold accepts loadCheck buildFormatter
  rw [← lf_formatRun_table]
  change (match (match formatRun (effective fmt) sampleDict with
                 | .error e => Except.error e
                 | .ok _ => if validatorSearch (effective fmt) = true then Except.ok () else Except.error PyErr.valueError) with
          | .ok _ => true
          | .error _ => false) = true ↔ _
  cases formatRun (effective fmt) sampleDict with
  | error e => simp
  | ok u => cases h : validatorSearch (effective fmt) <;> simp

theorem lf_formatSafe_iff (fmt : Str) (r : Dict) : formatSafe fmt r = true ↔ formatRun (effective fmt) r = .ok () := by
  unfold formatSafe
  cases formatRun (effective fmt) r <;> simp

end ZCV.LogFormatLemmas
