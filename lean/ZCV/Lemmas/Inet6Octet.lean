import ZCV.Spec.Inet6
import ZCV.Inet
/-!
glibc's `inet_pton4` (the re-implementation `pton4`) accepts exactly the dotted quads `DTSpec.V4Text`.
-/
namespace ZCV.DT
open ZCV ZCV.DTSpec

/-- the digits `ds` appended to the number `cur` -/
def v6ValFrom (cur : Nat) (ds : Str) : Nat := ds.foldl (fun a c => a * 10 + (c.toNat - 48)) cur

theorem v6_valFrom_nil (cur : Nat) : v6ValFrom cur [] = cur := rfl
theorem v6_valFrom_cons (cur : Nat) (d : Char) (ds : Str) :
    v6ValFrom cur (d :: ds) = v6ValFrom (cur * 10 + (d.toNat - 48)) ds := by
  unfold v6ValFrom; rw [List.foldl_cons]
theorem v6_decVal_eq (o : Str) : decVal o = v6ValFrom 0 o := rfl

theorem v6_valFrom_ge (ds : Str) : ∀ cur, cur ≤ v6ValFrom cur ds := by
  induction ds with
  | nil => intro cur; exact Nat.le_refl _
  | cons d ds ih =>
    intro cur
    rw [v6_valFrom_cons]
    have := ih (cur * 10 + (d.toNat - 48))
    omega

theorem v6_digit_bounds (c : Char) (h : isAsciiDigit c = true) : 48 ≤ c.toNat ∧ c.toNat ≤ 57 := by
  simp only [isAsciiDigit, inRange, Bool.and_eq_true, decide_eq_true_eq, Char.reduceToNat] at h
  exact h

theorem v6_digit_zero (c : Char) (h : c.toNat = 48) : c = '0' := by
  have h1 : c = Char.ofNat c.toNat := (Char.ofNat_toNat c).symm
  rw [h1, h]

/-- inside a field (`saw = true`): the machine reads further digits, refusing a leading zero and a value above 255 -/
theorem v6_pton4_scan (ds : Str) (hd : ∀ c ∈ ds, isAsciiDigit c = true) (r : Str) (k : Nat) :
    ∀ cur, cur ≤ 255 → pton4Go (ds ++ r) true k cur =
      if (ds ≠ [] ∧ cur = 0) ∨ 255 < v6ValFrom cur ds then false else pton4Go r true k (v6ValFrom cur ds) := by
  induction ds with
  | nil =>
    intro cur hc
    have : ¬ (([] : Str) ≠ [] ∧ cur = 0 ∨ 255 < v6ValFrom cur []) := by
      rw [v6_valFrom_nil]; rintro (⟨h, _⟩ | h)
      · exact h rfl
      · omega
    rw [if_neg this]; rfl
  | cons d ds ih =>
    intro cur hc
    have hdig := hd d (List.mem_cons_self ..)
    have ih := ih (fun c hc' => hd c (List.mem_cons_of_mem _ hc'))
    rw [List.cons_append, pton4Go, if_pos hdig, v6_valFrom_cons]
    by_cases h0 : cur = 0
    · subst h0
      simp
    · have hb : ((true && cur == 0) = true) = False := by simp [h0]
      simp only [hb, if_false]
      by_cases hn : cur * 10 + (d.toNat - 48) > 255
      · have hge := v6_valFrom_ge ds (cur * 10 + (d.toNat - 48))
        have : (d :: ds ≠ [] ∧ cur = 0) ∨ 255 < v6ValFrom (cur * 10 + (d.toNat - 48)) ds := Or.inr (by omega)
        rw [if_pos hn, if_pos this]
      · rw [if_neg hn]
        simp only [Bool.not_true, Bool.false_eq_true, if_false]
        rw [ih _ (by omega)]
        have hne : cur * 10 + (d.toNat - 48) ≠ 0 := by omega
        by_cases hv : 255 < v6ValFrom (cur * 10 + (d.toNat - 48)) ds
        · rw [if_pos (Or.inr hv), if_pos (Or.inr hv)]
        · rw [if_neg, if_neg]
          · rintro (⟨_, h⟩ | h)
            · exact h0 h
            · exact hv h
          · rintro (⟨_, h⟩ | h)
            · exact hne h
            · exact hv h

/-- at the start of a field (`saw = false`), `k ≤ 3` fields done: a whole non-empty run of digits is read -/
theorem v6_pton4_octet (a : Str) (ha : a ≠ []) (hd : ∀ c ∈ a, isAsciiDigit c = true) (r : Str) (k : Nat) (hk : k ≤ 3) :
    pton4Go (a ++ r) false k 0 =
      if (1 < a.length ∧ a.head? = some '0') ∨ 255 < decVal a then false else pton4Go r true (k + 1) (decVal a) := by
  cases a with
  | nil => exact absurd rfl ha
  | cons d ds =>
    have hdig := hd d (List.mem_cons_self ..)
    have hb := v6_digit_bounds d hdig
    rw [List.cons_append, pton4Go, if_pos hdig]
    have h1 : ¬ (0 * 10 + (d.toNat - 48) > 255) := by omega
    have h2 : ¬ (k + 1 > 4) := by omega
    simp only [Bool.false_and, Bool.false_eq_true, if_false, h1, Bool.not_false, if_true, h2]
    rw [v6_pton4_scan ds (fun c hc => hd c (List.mem_cons_of_mem _ hc)) r (k + 1) _ (by omega),
      v6_decVal_eq, v6_valFrom_cons]
    have hiff : (ds ≠ [] ∧ 0 * 10 + (d.toNat - 48) = 0) ↔ (1 < (d :: ds).length ∧ (d :: ds).head? = some '0') := by
      simp only [List.length_cons, List.head?_cons, Option.some.injEq]
      constructor
      · rintro ⟨h, hz⟩
        refine ⟨?_, v6_digit_zero d (by omega)⟩
        cases ds with
        | nil => exact absurd rfl h
        | cons _ _ => simp
      · rintro ⟨h, rfl⟩
        refine ⟨?_, by decide⟩
        rintro rfl
        simp at h
    by_cases hc : (ds ≠ [] ∧ 0 * 10 + (d.toNat - 48) = 0) ∨ 255 < v6ValFrom (0 * 10 + (d.toNat - 48)) ds
    · rw [if_pos hc, if_pos (hc.imp hiff.mp id)]
    · rw [if_neg hc, if_neg (fun h => hc (h.imp hiff.mpr id))]

theorem v6_decOctet_iff (a : Str) :
    DecOctet a ↔ a ≠ [] ∧ (∀ c ∈ a, isAsciiDigit c = true) ∧ ¬ ((1 < a.length ∧ a.head? = some '0') ∨ 255 < decVal a) := by
  unfold DecOctet
  constructor
  · rintro ⟨h1, h2, h3, h4⟩
    refine ⟨h1, h2, ?_⟩
    rintro (⟨h, h'⟩ | h)
    · exact h3 h h'
    · omega
  · rintro ⟨h1, h2, h3⟩
    exact ⟨h1, h2, fun h h' => h3 (Or.inl ⟨h, h'⟩), by
      have : ¬ 255 < decVal a := fun h => h3 (Or.inr h)
      omega⟩

/-- what follows a field: the end (then it must be the fourth), or a period and the next field -/
theorem v6_pton4_after (r : Str) (hr : r = [] ∨ ∃ c r', r = c :: r' ∧ isAsciiDigit c = false) (k v : Nat) :
    pton4Go r true (k + 1) v = true ↔
      (r = [] ∧ 3 ≤ k) ∨ (∃ r', r = '.' :: r' ∧ k ≠ 3 ∧ pton4Go r' false (k + 1) 0 = true) := by
  rcases hr with rfl | ⟨c, r', rfl, hc⟩
  · rw [pton4Go]
    simp only [ge_iff_le, decide_eq_true_eq, true_and, reduceCtorEq, false_and, exists_false, or_false]
    omega
  · rw [pton4Go, if_neg (by rw [hc]; exact Bool.false_ne_true)]
    by_cases hdot : c = '.'
    · subst hdot
      simp only [beq_self_eq_true, Bool.and_self, if_true, reduceCtorEq, false_and, List.cons.injEq, true_and,
        exists_eq_left', false_or]
      by_cases hk : k + 1 = 4
      · have : k = 3 := by omega
        simp [this]
      · have : k ≠ 3 := by omega
        simp [this]
    · have : (c == '.') = false := by simpa using hdot
      simp only [this, Bool.false_and, Bool.false_eq_true, if_false, reduceCtorEq, false_and, List.cons.injEq,
        false_or, false_iff, not_exists, not_and]
      intro r'' h
      exact absurd h.1 hdot

theorem v6_span_digits (s : Str) : ∃ a r, s = a ++ r ∧ (∀ c ∈ a, isAsciiDigit c = true) ∧
    (r = [] ∨ ∃ c r', r = c :: r' ∧ isAsciiDigit c = false) := by
  induction s with
  | nil => exact ⟨[], [], rfl, (fun c hc => by cases hc), Or.inl rfl⟩
  | cons c s ih =>
    cases hc : isAsciiDigit c with
    | false => exact ⟨[], c :: s, rfl, (fun c hc => by cases hc), Or.inr ⟨c, s, rfl, hc⟩⟩
    | true =>
      obtain ⟨a, r, rfl, ha, hr⟩ := ih
      refine ⟨c :: a, r, rfl, ?_, hr⟩
      intro x hx
      rcases List.mem_cons.mp hx with rfl | hx
      · exact hc
      · exact ha x hx

theorem v6_pton4_start_false (r : Str) (hr : r = [] ∨ ∃ c r', r = c :: r' ∧ isAsciiDigit c = false) (k : Nat)
    (hk : k ≤ 3) : pton4Go r false k 0 = false := by
  rcases hr with rfl | ⟨c, r', rfl, hc⟩
  · rw [pton4Go]; simp; omega
  · rw [pton4Go, if_neg (by rw [hc]; exact Bool.false_ne_true)]
    simp

/-- one field of the dotted quad -/
theorem v6_pton4_step (s : Str) (k : Nat) (hk : k ≤ 3) :
    pton4Go s false k 0 = true ↔
      ∃ a r, s = a ++ r ∧ DecOctet a ∧
        ((r = [] ∧ k = 3) ∨ (∃ r', r = '.' :: r' ∧ k < 3 ∧ pton4Go r' false (k + 1) 0 = true)) := by
  constructor
  · intro h
    obtain ⟨a, r, rfl, ha, hr⟩ := v6_span_digits s
    by_cases hne : a = []
    · subst hne
      rw [List.nil_append, v6_pton4_start_false r hr k hk] at h; cases h
    · rw [v6_pton4_octet a hne ha r k hk] at h
      split at h
      · cases h
      · rename_i hc
        refine ⟨a, r, rfl, (v6_decOctet_iff a).mpr ⟨hne, ha, hc⟩, ?_⟩
        rcases (v6_pton4_after r hr k _).mp h with ⟨h1, h2⟩ | ⟨r', h1, h2, h3⟩
        · exact Or.inl ⟨h1, by omega⟩
        · exact Or.inr ⟨r', h1, by omega, h3⟩
  · rintro ⟨a, r, rfl, hoct, hr⟩
    obtain ⟨hne, ha, hc⟩ := (v6_decOctet_iff a).mp hoct
    rw [v6_pton4_octet a hne ha r k hk, if_neg hc]
    have hr' : r = [] ∨ ∃ c r', r = c :: r' ∧ isAsciiDigit c = false := by
      rcases hr with ⟨h, _⟩ | ⟨r', h, _⟩
      · exact Or.inl h
      · exact Or.inr ⟨'.', r', h, by decide⟩
    rw [v6_pton4_after r hr' k _]
    rcases hr with ⟨h1, h2⟩ | ⟨r', h1, h2, h3⟩
    · exact Or.inl ⟨h1, by omega⟩
    · exact Or.inr ⟨r', h1, by omega, h3⟩

/-- **`inet_pton4` accepts exactly the dotted quads of canonical decimal fields** -/
theorem v6_pton4_iff (s : Str) : pton4 s = true ↔ V4Text s := by
  unfold pton4 V4Text
  rw [v6_pton4_step s 0 (by omega)]
  constructor
  · rintro ⟨a, r, rfl, ha, hr⟩
    rcases hr with ⟨_, h⟩ | ⟨r1, rfl, _, h1⟩
    · omega
    obtain ⟨b, r, rfl, hb, hr⟩ := (v6_pton4_step r1 1 (by omega)).mp h1
    rcases hr with ⟨_, h⟩ | ⟨r2, rfl, _, h2⟩
    · omega
    obtain ⟨c, r, rfl, hc, hr⟩ := (v6_pton4_step r2 2 (by omega)).mp h2
    rcases hr with ⟨_, h⟩ | ⟨r3, rfl, _, h3⟩
    · omega
    obtain ⟨d, r, rfl, hd, hr⟩ := (v6_pton4_step r3 3 (by omega)).mp h3
    rcases hr with ⟨rfl, _⟩ | ⟨_, _, h, _⟩
    · exact ⟨a, b, c, d, by simp, ha, hb, hc, hd⟩
    · omega
  · rintro ⟨a, b, c, d, rfl, ha, hb, hc, hd⟩
    refine ⟨a, _, rfl, ha, Or.inr ⟨_, rfl, by omega, ?_⟩⟩
    refine (v6_pton4_step _ 1 (by omega)).mpr ⟨b, _, rfl, hb, Or.inr ⟨_, rfl, by omega, ?_⟩⟩
    refine (v6_pton4_step _ 2 (by omega)).mpr ⟨c, _, rfl, hc, Or.inr ⟨_, rfl, by omega, ?_⟩⟩
    exact (v6_pton4_step _ 3 (by omega)).mpr ⟨d, [], by simp, hd, Or.inl ⟨rfl, rfl⟩⟩

/-- a canonical decimal field has at most three digits -/
theorem v6_decOctet_length (o : Str) (h : DecOctet o) : o.length ≤ 3 := by
  obtain ⟨_, hd, hz, hv⟩ := h
  match o, hd, hz, hv with
  | [], _, _, _ => simp
  | [_], _, _, _ => simp
  | [_, _], _, _, _ => simp
  | [_, _, _], _, _, _ => simp
  | a :: b :: c :: d :: rest, hd, hz, hv =>
    exfalso
    have ha := v6_digit_bounds a (hd a (by simp))
    have hne : a.toNat ≠ 48 := by
      intro h
      exact hz (by simp) (by rw [v6_digit_zero a h]; rfl)
    rw [v6_decVal_eq, v6_valFrom_cons, v6_valFrom_cons, v6_valFrom_cons, v6_valFrom_cons] at hv
    have := v6_valFrom_ge rest ((((0 * 10 + (a.toNat - 48)) * 10 + (b.toNat - 48)) * 10 + (c.toNat - 48)) * 10 +
      (d.toNat - 48))
    omega

end ZCV.DT
