import ZCV.Lemmas.NoInternalParse
/-!
C07 for the schema-less loader: the only internal outcome of `slLoad` is the deliberate `NotImplementedError`, and it
needs a `%define` or `%include` line in the text.
-/
namespace ZCV.Cfg
open ZCV

/-- `n` sections may be closed: the stack of open `Section`s has `n + 1` elements -/
def SLInv (n : Nat) (s : SL) : Prop := s.stack.length = n + 1

theorem schemalessCtx_ok : CtxOK schemalessCtx SLInv where
  start := by
    intro n a ty nm h
    refine ⟨fun e h' => (by cases h'), fun a' h' => ?_⟩
    cases h'
    show (Sec.mk ty nm [] [] :: a.stack).length = n + 1 + 1
    rw [List.length_cons, h]
  stop := by
    intro n a ty nm h
    show (∀ e, slStop a ty nm ≠ _) ∧ (∀ a', slStop a ty nm = .ok a' → _)
    unfold slStop
    unfold SLInv at h
    match hs : a.stack with
    | [] => rw [hs] at h; simp at h
    | [x] => rw [hs] at h; simp at h
    | child :: Sec.mk t nn k ss :: rest =>
      refine ⟨fun e h' => (by cases h'), fun a' h' => ?_⟩
      cases h'
      rw [hs] at h
      simp only [List.length_cons] at h
      show (Sec.mk t nn k (ss ++ [child]) :: rest).length = n + 1
      simp only [List.length_cons]
      omega
  value := by
    intro n a k v p h
    show (∀ e, slValue a k v p ≠ _) ∧ (∀ a', slValue a k v p = .ok a' → _)
    unfold slValue
    unfold SLInv at h
    match hs : a.stack with
    | [] => rw [hs] at h; simp at h
    | Sec.mk t nn kk ss :: rest =>
      refine ⟨fun e h' => (by cases h'), fun a' h' => ?_⟩
      cases h'
      rw [hs] at h
      show (Sec.mk t nn (secAddValue kk k v) ss :: rest).length = n + 1
      simpa using h
  imp := by
    intro n a pkg h
    show (∀ e, slImport a pkg ≠ _) ∧ (∀ a', slImport a pkg = .ok a' → _)
    unfold slImport
    refine ⟨fun e h' => (by cases h'), fun a' h' => ?_⟩
    cases h'
    unfold SLInv at h ⊢
    split
    · exact h
    · exact h

/-- **schema-less loader**: the only internal outcome is `NotImplementedError`, and then some line of the text is a
    `%define` or an `%include` -/
theorem slLoad_internal (getenv : Str → Option Str) (url : Option Str) (lines : List Str) (e : String)
    (h : slLoad getenv url lines = .error (.internal e)) :
    e = "NotImplementedError" ∧ ∃ l ∈ lines, Directive (strip l) := by
  unfold slLoad at h
  obtain ⟨P1, P2⟩ := parseLines_no_internal schemalessCtx SLInv schemalessCtx_ok { noEnv with getenv := getenv } []
    (fun hc => by cases hc) 8 [] url lines 0
    { ctx := { stack := [Sec.mk [] none [] []], imports := [] }, stack := [], defs := [] } 0
    (Nat.zero_le _) rfl
  simp only [bind, Except.bind, pure, Except.pure, throw, throwThe, MonadExceptOf.throw] at h
  split at h
  · rename_i x hx
    cases h
    obtain ⟨⟨he, _⟩, hd⟩ := P1 e hx
    exact ⟨he, hd rfl⟩
  · rename_i ps hps
    obtain ⟨_, hinv⟩ := P2 ps hps
    unfold SLInv at hinv
    split at h
    · cases h
    · rename_i hne
      match hst : ps.ctx.stack with
      | [] => rw [hst] at hinv; simp at hinv
      | [top] => exact absurd hst (hne top)
      | _ :: _ :: _ => rw [hst] at hinv; simp at hinv

end ZCV.Cfg
