import ZCV.Lemmas.Datatypes2IpSpec
/-!
What `inet_pton(AF_INET6, ·)` (the re-implementation `pton6`) accepts is over `[0-9A-Fa-f:.]` and contains a colon;
together with a fact about the `lower` table this makes the two side conditions of the `ipaddr-or-hostname` contract
redundant: the datatype accepts exactly dotted quads, host names and texts whose lower-casing is a valid IPv6 address.
-/
namespace ZCV.DT
open ZCV

theorem dt2_isV6Char_eq (c : Char) : DTSpec.isV6Char c = (isHexDigit c || c == ':' || c == '.') := by
  simp only [DTSpec.isV6Char, isHexDigit, Bool.or_assoc]

theorem dt2_pton4_chars : ∀ (s : Str) (saw : Bool) (octets cur : Nat), pton4Go s saw octets cur = true →
    s.all (fun c => isAsciiDigit c || c == '.') = true := by
  intro s
  induction s with
  | nil => intros; rfl
  | cons ch r ih =>
    intro saw octets cur h
    rw [pton4Go] at h
    by_cases hd : isAsciiDigit ch = true
    · rw [if_pos hd] at h
      simp only [List.all_cons, hd, Bool.true_or, Bool.true_and]
      simp only at h
      split at h
      · cases h
      · split at h
        · cases h
        · split at h
          · split at h
            · cases h
            · exact ih _ _ _ h
          · exact ih _ _ _ h
    · rw [if_neg hd] at h
      split at h
      · rename_i hdot
        simp only [Bool.and_eq_true] at hdot
        simp only [List.all_cons, hdot.1, Bool.or_true, Bool.true_and]
        split at h
        · cases h
        · exact ih _ _ _ h
      · cases h

theorem dt2_isAsciiDigit_v6 (c : Char) (h : (isAsciiDigit c || c == '.') = true) : DTSpec.isV6Char c = true := by
  simp only [DTSpec.isV6Char]
  rcases Bool.or_eq_true _ _ ▸ h with h | h
  · simp [h]
  · simp [h]

/-- every character the IPv6 loop consumes — including the embedded IPv4 tail it hands to `pton4` — is in the alphabet -/
theorem dt2_pton6Loop_chars : ∀ (r curtok : Str) (tp : Nat) (colon : Bool) (xd : Nat),
    (∃ pre, curtok = pre ++ r) → pton6Loop r curtok tp colon xd = true → r.all DTSpec.isV6Char = true := by
  intro r
  induction r with
  | nil => intros; rfl
  | cons ch r ih =>
    intro curtok tp colon xd hpre h
    obtain ⟨pre, hpre⟩ := hpre
    rw [pton6Loop] at h
    by_cases hx : isHexDigit ch = true
    · rw [if_pos hx] at h
      simp only [List.all_cons, dt2_isV6Char_eq ch, hx, Bool.true_or, Bool.true_and]
      split at h
      · cases h
      · exact ih curtok _ _ _ ⟨pre ++ [ch], by rw [hpre]; simp⟩ h
    · rw [if_neg hx] at h
      by_cases hc : (ch == ':') = true
      · rw [if_pos hc] at h
        simp only [List.all_cons, dt2_isV6Char_eq ch, hc, Bool.or_true, Bool.true_or, Bool.true_and]
        split at h
        · split at h
          · cases h
          · exact ih r _ _ _ ⟨[], rfl⟩ h
        · split at h
          · cases h
          · split at h
            · cases h
            · exact ih r _ _ _ ⟨[], rfl⟩ h
      · rw [if_neg hc] at h
        split at h
        · rename_i hdot
          simp only [Bool.and_eq_true] at hdot
          have h4 := dt2_pton4_chars curtok false 0 0 hdot.2
          rw [hpre, List.all_append, Bool.and_eq_true] at h4
          have h5 := List.all_eq_true.mp h4.2
          rw [List.all_eq_true]
          intro c hm
          exact dt2_isAsciiDigit_v6 c (h5 c hm)
        · cases h

theorem dt2_pton6Finish_nocolon (tp xd : Nat) (h : tp + 2 < 16) : pton6Finish tp false xd = false := by
  unfold pton6Finish
  by_cases hx : xd > 0
  · have : ¬ (tp + 2 > 16) := by omega
    simp [hx, this]; omega
  · simp [hx]; omega

/-- without a colon the byte counter never leaves 0, so the address is refused -/
theorem dt2_pton6Loop_nocolon : ∀ (r curtok : Str) (xd : Nat), ':' ∉ r → pton6Loop r curtok 0 false xd = false := by
  intro r
  induction r with
  | nil => intro curtok xd _; rw [pton6Loop]; exact dt2_pton6Finish_nocolon 0 xd (by omega)
  | cons ch r ih =>
    intro curtok xd hn
    simp only [List.mem_cons, not_or] at hn
    have hc : (ch == ':') = false := by simpa using fun e => hn.1 e.symm
    rw [pton6Loop]
    split
    · split
      · rfl
      · exact ih curtok _ hn.2
    · rw [if_neg (by simp [hc])]
      split
      · exact dt2_pton6Finish_nocolon 4 0 (by omega)
      · rfl

/-- a valid IPv6 address is over `[0-9A-Fa-f:.]` and contains a colon -/
theorem dt2_pton6_shape (s : Str) (h : pton6 s = true) : s.all DTSpec.isV6Char = true ∧ ':' ∈ s := by
  unfold pton6 at h
  split at h
  · cases h
  · rename_i r
    split at h
    · rename_i r'
      have := dt2_pton6Loop_chars _ _ _ _ _ ⟨[], rfl⟩ h
      exact ⟨by rw [List.all_cons, this]; rfl, by simp⟩
    · cases h
  · refine ⟨dt2_pton6Loop_chars _ _ _ _ _ ⟨[], rfl⟩ h, ?_⟩
    cases hm : s.contains ':' with
    | true => exact List.contains_iff_mem.mp hm
    | false =>
      have hn : ':' ∉ s := by
        intro hmem
        rw [List.contains_iff_mem.mpr hmem] at hm; cases hm
      rw [dt2_pton6Loop_nocolon s s 0 hn] at h; cases h

/-! ### `lower` does not create alphabet characters -/

theorem dt2_tbl_lower_gt_f : Gen.lowerTbl.all (fun e => decide ((102 : Int) < (e.1 : Int) + e.2.2.2)) = true := by
  decide +kernel

theorem dt2_isV6Char_bound (c : Char) (h : DTSpec.isV6Char c = true) : 46 ≤ c.toNat ∧ c.toNat ≤ 102 := by
  revert h
  simp only [DTSpec.isV6Char, isAsciiDigit, inRange, ceq, Char.reduceToNat]
  generalize c.toNat = n
  simp
  omega

/-- lower-casing a non-ASCII character never gives a character of the IPv6 alphabet -/
theorem dt2_lower_nonascii_not_v6 (c : Char) (h : ¬ c.toNat < 128) : DTSpec.isV6Char (lowerChar c) = false := by
  cases hv : DTSpec.isV6Char (lowerChar c) with
  | false => rfl
  | true =>
    exfalso
    have hb := dt2_isV6Char_bound _ hv
    unfold lowerChar at hb
    rw [if_neg h] at hb
    have hk : 46 ≤ uniLowerNat c.toNat ∧ uniLowerNat c.toNat ≤ 102 := by
      rcases dt2_toNat_ofNat (uniLowerNat c.toNat) with h1 | h1 <;> omega
    unfold uniLowerNat at hk
    split at hk
    · rename_i e0 hf
      have hmem := List.mem_of_find?_eq_some hf
      have hp := List.find?_some hf
      simp only [Bool.and_eq_true, decide_eq_true_eq] at hp
      have := List.all_eq_true.mp dt2_tbl_lower_gt_f e0 hmem
      simp only [decide_eq_true_eq] at this
      rw [Int.ofNat_eq_natCast] at hk
      omega
    · omega

theorem dt2_v6_of_lower (s : Str) (h : (lower s).all DTSpec.isV6Char = true) : s.all DTSpec.isV6Char = true := by
  unfold lower at h
  rw [List.all_map, List.all_eq_true] at h
  rw [List.all_eq_true]
  intro c hc
  have hl := h c hc
  simp only [Function.comp] at hl
  by_cases hn : c.toNat < 128
  · rw [dt2_lowerChar_ascii c hn, dt2_isV6Char_lower] at hl; exact hl
  · rw [dt2_lower_nonascii_not_v6 c hn] at hl; cases hl

/-- the acceptance condition of the contract, without the redundant side conditions -/
theorem dt2_ipAcc_iff (s : Str) :
    dt2IpAcc s ↔ (DTSpec.isDottedQuad s = true ∨ DTSpec.isHostname s = true ∨ pton6 (lower s) = true) := by
  unfold dt2IpAcc
  constructor
  · rintro (h | h | ⟨_, _, h⟩)
    · exact Or.inl h
    · exact Or.inr (Or.inl h)
    · exact Or.inr (Or.inr h)
  · rintro (h | h | h)
    · exact Or.inl h
    · exact Or.inr (Or.inl h)
    · obtain ⟨h1, h2⟩ := dt2_pton6_shape _ h
      refine Or.inr (Or.inr ⟨dt2_v6_of_lower s h1, ?_, h⟩)
      rw [← dt2_lower_contains_colon]; exact List.contains_iff_mem.mpr h2

/-- **`ipaddr-or-hostname` accepts exactly dotted-quad IPv4, valid IPv6 addresses and host names, lower-casing them** -/
theorem dt2_ipaddrOrHostname_exact (s r : Str) :
    ipaddrOrHostname s = .ok r ↔
      r = lower s ∧ (DTSpec.isDottedQuad s = true ∨ DTSpec.isHostname s = true ∨ pton6 (lower s) = true) := by
  rw [dt2_ipaddrOrHostname_eq_spec, dt2_spec_ok_iff, dt2_ipAcc_iff]

theorem dt2_ipaddrOrHostname_exact_err (s : Str) :
    ipaddrOrHostname s = .error .valueError ↔
      ¬ (DTSpec.isDottedQuad s = true ∨ DTSpec.isHostname s = true ∨ pton6 (lower s) = true) := by
  constructor
  · intro h hacc
    rw [(dt2_ipaddrOrHostname_exact s (lower s)).mpr ⟨rfl, hacc⟩] at h; cases h
  · intro hn
    rw [dt2_ipaddrOrHostname_eq_spec]
    cases hr : DTSpec.ipaddrOrHostname s with
    | ok r =>
      rw [← dt2_ipaddrOrHostname_eq_spec] at hr
      exact absurd ((dt2_ipaddrOrHostname_exact s r).mp hr).2 hn
    | error e =>
      unfold DTSpec.ipaddrOrHostname at hr
      split at hr
      · cases hr
      · split at hr
        · cases hr
        · split at hr
          · cases hr
          · injection hr with hr; rw [hr]

/-! ### `inet_pton` does not look at the case of hexadecimal letters -/

theorem dt2_isHexDigit_lower (c : Char) : isHexDigit (asciiLowerChar c) = isHexDigit c := by
  simp only [isHexDigit, isAsciiDigit, inRange, asciiLowerChar_toNat, Char.reduceToNat]
  rw [Bool.eq_iff_iff]
  split <;> simp <;> omega

theorem dt2_isAsciiDigit_lower (c : Char) : isAsciiDigit (asciiLowerChar c) = isAsciiDigit c := by
  simp only [isAsciiDigit, inRange, asciiLowerChar_toNat, Char.reduceToNat]
  rw [Bool.eq_iff_iff]
  split <;> simp <;> omega

theorem dt2_colon_lower (c : Char) : (asciiLowerChar c == ':') = (c == ':') := by
  simp only [ceq, asciiLowerChar_toNat, Char.reduceToNat]
  rw [Bool.eq_iff_iff]
  split <;> simp <;> omega

theorem dt2_dot_lower (c : Char) : (asciiLowerChar c == '.') = (c == '.') := by
  simp only [ceq, asciiLowerChar_toNat, Char.reduceToNat]
  rw [Bool.eq_iff_iff]
  split <;> simp <;> omega

theorem dt2_digit_lower_toNat (c : Char) (h : isAsciiDigit c = true) : (asciiLowerChar c).toNat = c.toNat := by
  rw [asciiLowerChar_toNat]
  simp only [isAsciiDigit, inRange, Char.reduceToNat, Bool.and_eq_true, decide_eq_true_eq] at h
  split
  · omega
  · rfl

theorem dt2_pton4Go_lower : ∀ (s : Str) (saw : Bool) (octets cur : Nat),
    pton4Go (asciiLower s) saw octets cur = pton4Go s saw octets cur := by
  intro s
  induction s with
  | nil => intros; rfl
  | cons ch r ih =>
    intro saw octets cur
    show pton4Go (asciiLowerChar ch :: asciiLower r) saw octets cur = _
    rw [pton4Go, pton4Go, dt2_isAsciiDigit_lower, dt2_dot_lower]
    by_cases hd : isAsciiDigit ch = true
    · simp only [hd, ↓reduceIte, dt2_digit_lower_toNat ch hd, ih]
    · simp only [hd, Bool.false_eq_true, ↓reduceIte, ih]

theorem dt2_asciiLower_nil (r : Str) : (asciiLower r == []) = (r == []) := by
  cases r <;> rfl

theorem dt2_pton6Loop_lower : ∀ (r curtok : Str) (tp : Nat) (colon : Bool) (xd : Nat),
    pton6Loop (asciiLower r) (asciiLower curtok) tp colon xd = pton6Loop r curtok tp colon xd := by
  intro r
  induction r with
  | nil => intros; rfl
  | cons ch r ih =>
    intro curtok tp colon xd
    show pton6Loop (asciiLowerChar ch :: asciiLower r) (asciiLower curtok) tp colon xd = _
    rw [pton6Loop, pton6Loop, dt2_isHexDigit_lower, dt2_colon_lower, dt2_dot_lower, dt2_asciiLower_nil]
    simp only [ih]
    have : pton4 (asciiLower curtok) = pton4 curtok := dt2_pton4Go_lower curtok false 0 0
    rw [this]

/-- `inet_pton(AF_INET6, ·)` gives the same verdict on a text and on its ASCII lower-casing -/
theorem dt2_pton6_lower (s : Str) : pton6 (asciiLower s) = pton6 s := by
  cases s with
  | nil => rfl
  | cons c r =>
    show pton6 (asciiLowerChar c :: asciiLower r) = _
    by_cases hc : c = ':'
    · subst hc
      have : asciiLowerChar ':' = ':' := by decide
      rw [this]
      cases r with
      | nil => rfl
      | cons d r' =>
        show pton6 (':' :: asciiLowerChar d :: asciiLower r') = _
        by_cases hd : d = ':'
        · subst hd
          rw [this]
          show pton6Loop (asciiLower (':' :: r')) (asciiLower (':' :: r')) 0 false 0 = pton6Loop (':' :: r') (':' :: r') 0 false 0
          exact dt2_pton6Loop_lower _ _ _ _ _
        · have hd' : asciiLowerChar d ≠ ':' := by
            intro e
            have := dt2_colon_lower d
            rw [e] at this
            simp at this; exact hd this
          unfold pton6
          simp only
          split
          · rename_i heq; injection heq with h1 _; exact absurd h1 hd'
          · split
            · rename_i heq; injection heq with h1 _; exact absurd h1 hd
            · rfl
    · have hc' : asciiLowerChar c ≠ ':' := by
        intro e
        have := dt2_colon_lower c
        rw [e] at this
        simp at this; exact hc this
      have h1 : pton6 (c :: r) = pton6Loop (c :: r) (c :: r) 0 false 0 := by
        unfold pton6
        split
        · rename_i heq; cases heq
        · rename_i heq; injection heq with h _; exact absurd h hc
        · rfl
      have h2 : pton6 (asciiLowerChar c :: asciiLower r) =
          pton6Loop (asciiLowerChar c :: asciiLower r) (asciiLowerChar c :: asciiLower r) 0 false 0 := by
        unfold pton6
        split
        · rename_i heq; cases heq
        · rename_i heq; injection heq with h _; exact absurd h hc'
        · rfl
      rw [h1, h2]
      exact dt2_pton6Loop_lower (c :: r) (c :: r) 0 false 0

/-- lower-casing (full Unicode `lower`) does not change whether a text is a valid IPv6 address -/
theorem dt2_pton6_lower_iff (s : Str) : pton6 (lower s) = true ↔ pton6 s = true := by
  constructor
  · intro h
    have hall := dt2_v6_of_lower s (dt2_pton6_shape _ h).1
    have hasc : ∀ c ∈ s, c.toNat < 128 := fun c hc => dt2_isV6Char_ascii c (List.all_eq_true.mp hall c hc)
    rw [lower_ascii s hasc, dt2_pton6_lower] at h
    exact h
  · intro h
    have hall := (dt2_pton6_shape _ h).1
    have hasc : ∀ c ∈ s, c.toNat < 128 := fun c hc => dt2_isV6Char_ascii c (List.all_eq_true.mp hall c hc)
    rw [lower_ascii s hasc, dt2_pton6_lower]
    exact h

/-- **`ipaddr-or-hostname` accepts exactly dotted-quad IPv4, valid IPv6 addresses and host names, lower-casing them**,
    with validity stated on the text itself -/
theorem dt2_ipaddrOrHostname_exact' (s r : Str) :
    ipaddrOrHostname s = .ok r ↔
      r = lower s ∧ (DTSpec.isDottedQuad s = true ∨ DTSpec.isHostname s = true ∨ pton6 s = true) := by
  rw [dt2_ipaddrOrHostname_exact, dt2_pton6_lower_iff]

theorem dt2_ipaddrOrHostname_exact_err' (s : Str) :
    ipaddrOrHostname s = .error .valueError ↔
      ¬ (DTSpec.isDottedQuad s = true ∨ DTSpec.isHostname s = true ∨ pton6 s = true) := by
  rw [dt2_ipaddrOrHostname_exact_err, dt2_pton6_lower_iff]

end ZCV.DT
