import ZCV.Lemmas.LogStrFormat
/-!
The plain fragment of the `format` style (bare keys, brace-free specs): acceptance read off the format string, and safety
of accepted formats on the records a formatter gets to see.
-/
namespace ZCV.LogStrFormatLemmas
open ZCV ZCV.LogFormatSpec ZCV.LogStrFormat ZCV.LogStrFormatSpec ZCV.LogFormatLemmas
open ZCV.LogFormat (Value Dict FloatKind PyErr strCheck floatLimit maxUnicode hasInfix lookup sampleVars sampleDict
  intMaxStrDigits ctrlCharInsert isWord)

/-- an accepted plain field, unpacked: the key is a name of the sample record, the conversion works on the sample value,
    and `format()` takes the spec as it is written -/
theorem sf_plain_field_unpack (name : Str) (conv : Option Char) (spec : Str) (hn : name.all notDotBracket = true)
    (hs : spec.all notBrace = true) (h : ItemAcceptedS (.field name conv spec)) :
    ∃ v o t, getInteger name = .notInt ∧ name ≠ [] ∧ sampleSDict name = some v ∧ convert v conv = .ok o ∧
      formatObj o spec = .ok t := by
  obtain ⟨_, v, o, st, t, hg, hc, hx, hf⟩ := h
  rw [sf_getField_plain _ _ _ hn, sf_lookupFirst_plain _ _ _ hn] at hg
  rw [sf_evalStr_plain _ _ 1 _ hs] at hx
  injection hx with hx; injection hx with hx
  subst hx
  exact ⟨v, o, t, hg.1, hg.2.1, hg.2.2, hc, hf⟩

theorem sf_strCheck_of_good (w : Value) (h : goodSample w = true) : strCheck w = .ok () := by
  cases w with
  | int n => simp only [goodSample, decide_eq_true_eq] at h; exact lf_strCheck_of_float n h
  | _ => rfl

theorem sf_floatLimit_gt : (0x110000 : Int) < floatLimit := by
  have := lf_floatLimit_big
  generalize floatLimit = F at this ⊢
  omega

/-- the sample value of an attribute takes a non-empty spec exactly when the kind of the attribute allows it -/
theorem sf_sample_spec (v : Val) (hg : goodSample v.toValue = true) (spec : Str) (hne : spec ≠ []) :
    (∃ t, formatObj (.val v) spec = .ok t) ↔ SpecAllowed (kindOfValue v.toValue) none spec := by
  unfold SpecAllowed
  simp only [hne, false_or, Option.isSome_none, Bool.false_eq_true, if_false]
  rw [sf_formatObj_val_nonempty v spec hne]
  cases v with
  | str s => simp only [Val.toValue, kindOfValue]; exact sf_map_ok_unit _ _
  | float k r => simp only [Val.toValue, kindOfValue]; exact sf_map_ok_unit _ _
  | none => simp [Val.toValue, kindOfValue]
  | other => simp [Val.toValue, kindOfValue]
  | int n =>
    simp only [Val.toValue, goodSample, decide_eq_true_eq] at hg
    have hs : strCheck (.int n) = .ok () := lf_strCheck_of_float n hg
    simp only [Val.toValue, kindOfValue]
    rw [sf_map_ok_unit]
    have hL := sf_floatLimit_gt
    by_cases hr : (0 ≤ n ∧ n ≤ maxUnicode)
    · simp only [hr, and_self, if_true]
      constructor
      · intro h
        have h0 : -floatLimit < (0 : Int) ∧ (0 : Int) < floatLimit := by generalize floatLimit = F at hL ⊢; omega
        exact sf_intFormat_mono spec n 0 h (fun _ => by simp [maxUnicode]) (lf_strCheck_of_float 0 h0) h0
      · intro h
        exact sf_intFormat_mono spec 0 n h (fun _ => hr) hs hg
    · simp only [hr, if_false]
      constructor
      · intro h
        refine sf_intFormat_mono spec n 0x110000 h (fun hx => absurd hx hr) ?_ ?_
        · apply lf_strCheck_of_float; generalize floatLimit = F at hL ⊢; omega
        · generalize floatLimit = F at hL ⊢; omega
      · intro h
        exact sf_intFormat_mono spec 0x110000 n h (fun hx => by simp [maxUnicode] at hx) hs hg

/-- for a plain field the step-by-step acceptance is the readable one -/
theorem sf_plain_item_iff (name : Str) (conv : Option Char) (spec : Str) (hn : name.all notDotBracket = true)
    (hs : spec.all notBrace = true) :
    ItemAcceptedS (.field name conv spec) ↔ PlainItemAccepted (.field name conv spec) := by
  constructor
  · intro h
    have hv := h.1
    obtain ⟨v, o, t, hi, hne, hsm, hc, hf⟩ := sf_plain_field_unpack name conv spec hn hs h
    obtain ⟨hk, hg⟩ := sf_sample_kind name v hsm
    have hco := sf_convOk_of_convert v conv o hc
    simp only [itemValid, Bool.and_eq_true, Bool.or_eq_true, List.isEmpty_iff] at hv
    refine ⟨_, hk, hco, ?_, hv.2⟩
    by_cases he : spec = []
    · exact .inl he
    · cases conv with
      | none =>
        simp only [convert, Except.ok.injEq] at hc
        subst hc
        exact (sf_sample_spec v hg spec he).mp ⟨t, hf⟩
      | some c =>
        right
        simp only [Option.isSome_some, if_true]
        obtain h1 | ⟨t1, t2, ho, _⟩ := sf_convert_transfer v v (some c) o hc (sf_strCheck_of_good _ hg)
        · cases h1.1
        · subst ho
          rw [sf_formatObj_text_nonempty _ _ he] at hf
          exact (sf_map_ok_unit _ _).mp ⟨t, hf⟩
  · rintro ⟨kind, hk, hco, hsa, hre⟩
    obtain ⟨v, hsm, hkv, hg⟩ := sf_sample_of_kind name kind hk
    obtain ⟨hfm, hi, hne, _⟩ := sf_fieldKinds_names _ hk
    have hp : strCheck v.toValue = .ok () := sf_strCheck_of_good _ hg
    refine ⟨?_, ?_⟩
    · simp only [itemValid, Bool.and_eq_true, Bool.or_eq_true, List.isEmpty_iff]
      refine ⟨⟨.inr hfm, ?_⟩, hre⟩
      cases conv with
      | none => rfl
      | some c => exact hco
    · have hgf : getField .vformat sampleSDict name = .ok v := by
        rw [sf_getField_plain _ _ _ hn, sf_lookupFirst_plain _ _ _ hn]; exact ⟨hi, hne, hsm⟩
      have hx : evalStr .vformat sampleSDict 2 spec = .ok (some spec) := sf_evalStr_plain _ _ 1 _ hs
      cases conv with
      | none =>
        refine ⟨v, .val v, spec, ?_⟩
        by_cases he : spec = []
        · subst he
          exact ⟨strText v, hgf, rfl, hx, by simp only [formatObj, List.isEmpty_nil, if_true, hp]⟩
        · subst hkv
          obtain ⟨t, ht⟩ := (sf_sample_spec v hg spec he).mpr hsa
          exact ⟨t, hgf, rfl, hx, ht⟩
      | some c =>
        have hcv : ∃ t, convert v (some c) = .ok (.text t) := by
          simp only [convOk, Bool.or_eq_true, beq_iff_eq] at hco
          simp only [convert, hp]
          rcases hco with (h1 | h1) | h1 <;> subst h1 <;> simp
        obtain ⟨t0, hcv⟩ := hcv
        refine ⟨v, .text t0, spec, ?_⟩
        by_cases he : spec = []
        · subst he
          exact ⟨t0, hgf, hcv, hx, rfl⟩
        · rcases hsa with hsa | hsa
          · exact absurd hsa he
          · simp only [Option.isSome_some, if_true] at hsa
            exact ⟨none, hgf, hcv, hx, by rw [sf_formatObj_text_nonempty _ _ he, hsa]; rfl⟩


/-! ## Safety of accepted plain formats -/

/-- run time: one accepted plain field on a record the formatter gets to see -/
theorem sf_plain_field_safe (fmt : Str) (r : SDict) (hr : RecordForStr fmt r) (name : Str) (conv : Option Char) (spec : Str)
    (hmem : Item.field name conv spec ∈ parse (effectiveStr fmt)) (hn : name.all notDotBracket = true)
    (hs : spec.all notBrace = true) (h : ItemAcceptedS (.field name conv spec)) :
    ∃ t, evalField .cformat r (fun sp => evalStr .cformat r 1 sp) name conv spec = .ok t := by
  obtain ⟨v, o, t, hi, hne, hsm, hc, hf⟩ := sf_plain_field_unpack name conv spec hn hs h
  obtain ⟨hk, hg⟩ := sf_sample_kind name v hsm
  obtain ⟨v', hv', ha⟩ := hr name _ hk (fun he => sf_usesTime_of_field fmt conv spec (he ▸ hmem))
  have hp := sf_admitsStr_prints _ _ ha
  have hgf : getField .cformat r name = .ok v' := by
    rw [sf_getField_plain _ _ _ hn, sf_lookupFirst_plain _ _ _ hn]; exact ⟨hi, hne, hv'⟩
  have hm : (Mode.cformat == Mode.cformat) = true := rfl
  unfold evalField
  simp only [hgf, hm, sf_no_open_plain spec hs, Bool.not_false, Bool.and_self, if_true]
  obtain ⟨hcn, ho, hc'⟩ | ⟨t1, t2, ho, hc'⟩ := sf_convert_transfer v v' conv o hc hp
  · subst ho
    obtain ⟨t', ht'⟩ := sf_formatObj_transfer v v' hg ha spec t hf
    exact ⟨t', by simp only [hc', ht']⟩
  · subst ho
    obtain ⟨t', ht'⟩ := sf_formatObj_text t1 t2 spec t hf
    exact ⟨t', by simp only [hc', ht']⟩

theorem sf_formatStr_ok (fmt : Str) (r : SDict) :
    formatStr fmt r = .ok () ↔ ∃ t, evalStr .cformat r 2 (effectiveStr fmt) = .ok t := by
  unfold formatStr cformatRun
  cases hx : evalStr .cformat r 2 (effectiveStr fmt) with
  | error e => cases e <;> simp [toUnit]
  | ok t => simp [toUnit]

/-- accepted plain formats never raise on the records the formatter gets to see -/
theorem sf_plain_safe (fmt : Str) (h : acceptsStrFormat fmt = true) (hp : Plain fmt) (r : SDict) (hr : RecordForStr fmt r) :
    formatStr fmt r = .ok () := by
  rw [sf_formatStr_ok]
  unfold evalStr
  rw [sf_runItems_ok]
  obtain ⟨hi, _⟩ := (sf_accepts_items fmt).mp h
  refine ⟨fun hm => hi _ hm, fun n c s hm => ?_⟩
  have hpl := List.all_eq_true.mp hp _ hm
  simp only [plainItem, Bool.and_eq_true] at hpl
  exact sf_plain_field_safe fmt r hr n c s hm hpl.1 hpl.2 (hi _ hm)

/-- the same field through ZConfig's own stylist (`string.Formatter().vformat`) -/
theorem sf_plain_field_safe_v (fmt : Str) (r : SDict) (hr : RecordForStr fmt r) (name : Str) (conv : Option Char) (spec : Str)
    (hmem : Item.field name conv spec ∈ parse (effectiveStr fmt)) (hn : name.all notDotBracket = true)
    (hs : spec.all notBrace = true) (h : ItemAcceptedS (.field name conv spec)) :
    ∃ t, evalField .vformat r (fun sp => evalStr .vformat r 2 sp) name conv spec = .ok t := by
  obtain ⟨v, o, t, hi, hne, hsm, hc, hf⟩ := sf_plain_field_unpack name conv spec hn hs h
  obtain ⟨hk, hg⟩ := sf_sample_kind name v hsm
  obtain ⟨v', hv', ha⟩ := hr name _ hk (fun he => sf_usesTime_of_field fmt conv spec (he ▸ hmem))
  have hp := sf_admitsStr_prints _ _ ha
  have hgf : getField .vformat r name = .ok v' := by
    rw [sf_getField_plain _ _ _ hn, sf_lookupFirst_plain _ _ _ hn]; exact ⟨hi, hne, hv'⟩
  rw [sf_evalField_vformat_ok]
  obtain ⟨hcn, ho, hc'⟩ | ⟨t1, t2, ho, hc'⟩ := sf_convert_transfer v v' conv o hc hp
  · subst ho
    obtain ⟨t', ht'⟩ := sf_formatObj_transfer v v' hg ha spec t hf
    exact ⟨v', _, spec, t', hgf, hc', sf_evalStr_plain _ _ 1 _ hs, ht'⟩
  · subst ho
    obtain ⟨t', ht'⟩ := sf_formatObj_text t1 t2 spec t hf
    exact ⟨v', _, spec, t', hgf, hc', sf_evalStr_plain _ _ 1 _ hs, ht'⟩

/-- accepted plain formats never raise either when ZConfig's stylist formats the record -/
theorem sf_plain_safe_stylist (fmt : Str) (h : acceptsStrFormat fmt = true) (hp : Plain fmt) (r : SDict)
    (hr : RecordForStr fmt r) : formatStrStylist fmt r = .ok () := by
  unfold formatStrStylist vformatRun
  rw [sf_toUnit_ok]
  unfold evalStr
  rw [sf_runItems_ok]
  obtain ⟨hi, _⟩ := (sf_accepts_items fmt).mp h
  refine ⟨fun hm => hi _ hm, fun n c s hm => ?_⟩
  have hpl := List.all_eq_true.mp hp _ hm
  simp only [plainItem, Bool.and_eq_true] at hpl
  exact sf_plain_field_safe_v fmt r hr n c s hm hpl.1 hpl.2 (hi _ hm)

theorem sf_ordinaryFor_record (fmt : Str) (r : SDict) (h : OrdinaryStrFor fmt r) : RecordForStr fmt r := by
  intro k kind hk ht
  obtain ⟨v, hv, ha⟩ := h k kind hk ht
  exact ⟨v, hv, sf_admits_admitsStr kind v ha⟩

theorem sf_ordinary_for (fmt : Str) (r : SDict) (h : OrdinaryStr r) : OrdinaryStrFor fmt r := by
  intro k kind hk _
  obtain ⟨w, hw, ha⟩ := h k kind hk
  simp only [SDict.erase] at hw
  cases hv : r k with
  | none => simp [hv] at hw
  | some v =>
    simp only [hv, Option.map_some, Option.some.injEq] at hw
    subst hw
    exact ⟨v, rfl, ha⟩

theorem sf_admitsStrB (kind : Kind) (v : Val) (h : kind.admitsStrB v = true) : kind.admitsStr v := by
  cases kind <;> cases v <;> simp only [Kind.admitsStrB, decide_eq_true_eq] at h <;>
    simp_all [-Nat.reducePow, Kind.admitsStr, Prints, Val.toValue]

theorem sf_record_of_table (fmt : Str) (tbl : List (Str × Val)) (h : recordTableFor fmt tbl = true) :
    RecordForStr fmt (lookupS tbl) := by
  intro k kind hm ht
  have := List.all_eq_true.mp h _ hm
  simp only [Bool.or_eq_true, Bool.and_eq_true, beq_iff_eq, Bool.not_eq_true'] at this
  rcases this with ⟨he, hu⟩ | hx
  · rw [ht he] at hu; cases hu
  · cases hl : lookupS tbl k with
    | none => simp [hl] at hx
    | some v => simp only [hl] at hx; exact ⟨v, rfl, sf_admitsStrB kind v hx⟩


theorem sf_erase_table (tbl : List (Str × Val)) :
    SDict.erase (lookupS tbl) = lookup (tbl.map (fun p => (p.1, p.2.toValue))) := by
  funext k
  rw [sf_lookupS_map]
  rfl

/-- a record given as a table is ordinary when its erasure passes the test of the classic style -/
theorem sf_ordinary_of_table (tbl : List (Str × Val))
    (h : ordinaryTable (tbl.map (fun p => (p.1, p.2.toValue))) = true) : OrdinaryStr (lookupS tbl) := by
  unfold OrdinaryStr
  rw [sf_erase_table]
  exact lf_ordinary_of_table _ h

/-! ## Evaluating a one-field format on an arbitrary record (for the counterexamples) -/

theorem sf_getField_of (m : Mode) (d : SDict) (name key : Str) (path : List Acc) (v : Val) (hf : firstOf name = key)
    (hp : pathOf name = path) (hi : getInteger key = .notInt) (hne : key.isEmpty = false) (hd : d key = some v) :
    getField m d name = walk v path := by
  unfold getField lookupFirst
  rw [hf, hp, hi]
  simp only [hne, Bool.false_and, Bool.false_eq_true, if_false, hd]

/-- `fmt.format(**r)` for a format that consists of one replacement field -/
theorem sf_formatStr_single (fmt : Str) (r : SDict) (name : Str) (conv : Option Char) (spec : Str)
    (hp : parse (effectiveStr fmt) = [.field name conv spec]) (e : SErr) (hk : e ≠ .keyError)
    (h : evalField .cformat r (fun sp => evalStr .cformat r 1 sp) name conv spec = .error e) :
    formatStr fmt r = .error e := by
  unfold formatStr cformatRun evalStr
  rw [hp]
  simp only [runItems, h, toUnit]

theorem sf_formatStr_single_ok (fmt : Str) (r : SDict) (name : Str) (conv : Option Char) (spec : Str)
    (hp : parse (effectiveStr fmt) = [.field name conv spec]) (t : Option Str)
    (h : evalField .cformat r (fun sp => evalStr .cformat r 1 sp) name conv spec = .ok t) :
    formatStr fmt r = .ok () := by
  unfold formatStr cformatRun evalStr
  rw [hp]
  simp only [runItems, h, toUnit]

/-- one field of `str.format` whose spec has no `{`: look the object up, convert it, format it -/
theorem sf_evalField_cformat (r : SDict) (expand : Str → Except SErr (Option Str)) (name : Str) (conv : Option Char)
    (spec : Str) (hs : spec.contains '{' = false) (v : Val) (hg : getField .cformat r name = .ok v) :
    evalField .cformat r expand name conv spec =
      match convert v conv with
      | .error e => .error e
      | .ok o => formatObj o spec := by
  unfold evalField
  have hm : (Mode.cformat == Mode.cformat) = true := rfl
  simp only [hg, hm, hs, Bool.not_false, Bool.and_self, if_true]
  cases convert v conv <;> rfl

theorem sf_evalField_getField_error (m : Mode) (r : SDict) (expand : Str → Except SErr (Option Str)) (name : Str)
    (conv : Option Char) (spec : Str) (e : SErr) (hg : getField m r name = .error e) :
    evalField m r expand name conv spec = .error e := by
  unfold evalField
  simp only [hg]

end ZCV.LogStrFormatLemmas
