import ZCV.Lemmas.ElabExpandReplay
/-!
C11 (`extends` = written-out expansion), step 7: `start_sectiontype` with `extends` is `start_sectiontype` without it
followed by "set the children of the new type to the base's".
-/
namespace ZCV.Elab
open ZCV ZCV.Cfg

/-- the type table after the new type has been entered (with the base's children, when it extends) -/
def stypeEntry (env : Env) (st1 : PSt) (attrs : Attrs) (name : Str) : EM ES :=
  match attr attrs "extends" with
  | some b => do
    let basename ← basicKeyE b
    match st1.es.gettype basename with
    | none => serr "unknown type name"
    | some (_, .abstract_ _ _ _) => serr "sectiontype cannot extend an abstract type"
    | some (_, .concrete base) =>
      let (kt, dt) ← getSectTypeinfo env st1 attrs (some (base.keytype, base.datatype))
      let es' ← addType st1.es name (.concrete { name := some name, keytype := kt, datatype := dt })
      let ch ← deriveChildren env kt base.children
      pure (es'.updType name fun t => { t with children := ch })
  | none => do
    let (kt, dt) ← getSectTypeinfo env st1 attrs none
    addType st1.es name (.concrete { name := some name, keytype := kt, datatype := dt })

/-- `implements`: the new type is registered with the abstract type -/
def implStep (attrs : Attrs) (name : Str) (es2 : ES) : EM ES :=
  match attr attrs "implements" with
  | some i => do
    let ifname ← basicKeyE i
    match es2.gettype ifname with
    | none => serr "unknown type name"
    | some (_, .concrete _) => serr "type specified by implements is not an abstracttype"
    | some (an, .abstract_ _ _ _) =>
      pure { es2 with types := es2.types.map fun (k, e) =>
               if k == an then
                 (k, match e with
                     | .abstract_ nm subs d => .abstract_ nm (if subs.contains name then subs else subs ++ [name]) d
                     | o => o)
               else (k, e) }
  | none => pure es2

/-- case analysis of the `implements` step, for the type table `es` -/
macro "impl_cases" attrs:term "," es:term : tactic =>
  `(tactic| (cases attr $attrs "implements" with
    | none => rfl
    | some i =>
      simp only
      cases basicKeyE i with
      | error e => rfl
      | ok ifn =>
        simp only
        cases ES.gettype $es ifn with
        | none => rfl
        | some q =>
          obtain ⟨an, e⟩ := q
          cases e <;> rfl))

theorem startSectiontype_eq_steps (env : Env) (st : PSt) (attrs : Attrs) :
    startSectiontype env st attrs =
      match attr attrs "name" with
      | some (c :: cs) =>
        basicKeyE (c :: cs) >>= fun name => pushPrefix st attrs >>= fun st1 =>
          stypeEntry env st1 attrs name >>= fun es2 => implStep attrs name es2 >>= fun es3 =>
            pure { st1 with es := es3, stack := .stype name :: st1.stack }
      | _ => serr "sectiontype name must not be omitted or empty" := by
  unfold startSectiontype stypeEntry implStep
  cases attr attrs "name" with
  | none => rfl
  | some n =>
    cases n with
    | nil => rfl
    | cons c cs =>
      simp only [bind, Except.bind, pure, Except.pure]
      cases basicKeyE (c :: cs) with
      | error e => rfl
      | ok name =>
        simp only
        cases pushPrefix st attrs with
        | error e => rfl
        | ok st1 =>
          simp only
          cases attr attrs "extends" with
          | none =>
            simp only
            cases getSectTypeinfo env st1 attrs none with
            | error e => rfl
            | ok r =>
              obtain ⟨kt, dt⟩ := r
              simp only
              cases addType st1.es name (.concrete { name := some name, keytype := kt, datatype := dt }) with
              | error e => rfl
              | ok es2 =>
                simp only
                impl_cases attrs, es2
          | some b =>
            simp only
            cases basicKeyE b with
            | error e => rfl
            | ok basename =>
              simp only
              cases st1.es.gettype basename with
              | none => rfl
              | some q =>
                obtain ⟨q1, q2⟩ := q
                cases q2 with
                | abstract_ x y z => rfl
                | concrete base =>
                  simp only
                  cases getSectTypeinfo env st1 attrs (some (base.keytype, base.datatype)) with
                  | error e => rfl
                  | ok r =>
                    obtain ⟨kt, dt⟩ := r
                    simp only
                    cases addType st1.es name (.concrete { name := some name, keytype := kt, datatype := dt }) with
                    | error e => rfl
                    | ok es' =>
                      simp only
                      cases deriveChildren env kt base.children with
                      | error e => rfl
                      | ok ch =>
                        simp only
                        generalize ES.updType es' name _ = es2
                        impl_cases attrs, es2

/-! ### attributes of the written-out type -/

theorem attr_append (l1 l2 : Attrs) (k : String) : attr (l1 ++ l2) k = (attr l1 k).or (attr l2 k) := by
  unfold attr
  rw [List.find?_append]
  cases l1.find? (·.1 == k.toList) <;> rfl

theorem find_filter_key (a : Attrs) (x kk : Str) (hk : kk ≠ x) :
    (a.filter (fun p => p.1 != x)).find? (·.1 == kk) = a.find? (·.1 == kk) := by
  induction a with
  | nil => rfl
  | cons p r ih =>
    by_cases hp : (p.1 != x) = true
    · rw [List.filter_cons]
      simp only [hp, ↓reduceIte]
      rw [List.find?_cons, List.find?_cons, ih]
    · rw [List.filter_cons]
      simp only [hp, Bool.false_eq_true, ↓reduceIte]
      rw [List.find?_cons, ih]
      have hpx : p.1 = x := by simpa using hp
      have : (p.1 == kk) = false := by rw [hpx]; simpa using fun h => hk h.symm
      simp only [this]

theorem attr_filter_ne (a : Attrs) (k : String) (x : Str) (hk : k.toList ≠ x) :
    attr (a.filter (fun p => p.1 != x)) k = attr a k := by
  unfold attr
  rw [find_filter_key a x k.toList hk]

theorem attr_filter_self (a : Attrs) (k : String) : attr (a.filter (fun p => p.1 != k.toList)) k = none := by
  unfold attr
  have : (a.filter (fun p => p.1 != k.toList)).find? (·.1 == k.toList) = none := by
    rw [List.find?_eq_none]
    intro p hp
    rw [List.mem_filter] at hp
    simpa using hp.2
  rw [this]; rfl

theorem attr_inheritAttr_ne (own base : Attrs) (k' k : String) (hk : k.toList ≠ k'.toList) :
    attr (inheritAttr own base k') k = none := by
  unfold inheritAttr
  split
  · rfl
  · split
    · unfold attr
      rename_i v _
      have : ((k'.toList, v) :: ([] : Attrs)).find? (·.1 == k.toList) = none := by
        rw [List.find?_eq_none]
        intro p hp
        simp only [List.mem_singleton] at hp
        subst hp
        simpa using fun h => hk h.symm
      rw [this]; rfl
    · rfl

theorem attr_inheritAttr_self (own base : Attrs) (k : String) :
    attr (inheritAttr own base k) k = if (attr own k).isSome then none else attr base k := by
  unfold inheritAttr
  cases ho : attr own k with
  | some v => rfl
  | none =>
    cases hb : attr base k with
    | none => rfl
    | some v =>
      simp only [Option.isSome_none, Bool.false_eq_true, ↓reduceIte]
      unfold attr
      simp

/-- the attributes of the written-out type -/
def expandedAttrs (a ba : Attrs) : Attrs :=
  a.filter (fun p => p.1 != "extends".toList) ++ inheritAttr a ba "keytype" ++ inheritAttr a ba "datatype"

theorem attr_expanded_other (a ba : Attrs) (k : String) (h1 : k.toList ≠ "extends".toList)
    (h2 : k.toList ≠ "keytype".toList) (h3 : k.toList ≠ "datatype".toList) : attr (expandedAttrs a ba) k = attr a k := by
  unfold expandedAttrs
  rw [attr_append, attr_append, attr_filter_ne a k _ h1, attr_inheritAttr_ne _ _ _ _ h2, attr_inheritAttr_ne _ _ _ _ h3]
  cases attr a k <;> rfl

theorem attr_expanded_extends (a ba : Attrs) : attr (expandedAttrs a ba) "extends" = none := by
  unfold expandedAttrs
  rw [attr_append, attr_append, attr_filter_self, attr_inheritAttr_ne _ _ _ _ (by decide),
    attr_inheritAttr_ne _ _ _ _ (by decide)]
  rfl

theorem attr_expanded_keytype (a ba : Attrs) :
    attr (expandedAttrs a ba) "keytype" = (attr a "keytype").or (attr ba "keytype") := by
  unfold expandedAttrs
  rw [attr_append, attr_append, attr_filter_ne a "keytype" _ (by decide), attr_inheritAttr_self,
    attr_inheritAttr_ne _ _ _ _ (by decide)]
  cases attr a "keytype" <;> cases attr ba "keytype" <;> rfl

theorem attr_expanded_datatype (a ba : Attrs) :
    attr (expandedAttrs a ba) "datatype" = (attr a "datatype").or (attr ba "datatype") := by
  unfold expandedAttrs
  rw [attr_append, attr_append, attr_filter_ne a "datatype" _ (by decide), attr_inheritAttr_ne _ _ _ _ (by decide),
    attr_inheritAttr_self]
  cases attr a "datatype" <;> cases attr ba "datatype" <;> rfl

/-- a datatype attribute inherited in writing is the base's value -/
theorem getDatatype_inherit {env : Env} {st : PSt} {a a' ba : Attrs} {key dflt : String} {bv : Str}
    (hB : getDatatype env st ba key dflt none = .ok bv) (ha' : attr a' key = (attr a key).or (attr ba key)) :
    getDatatype env st a' key dflt none = getDatatype env st a key dflt (some bv) := by
  unfold getDatatype at hB ⊢
  rw [ha']
  cases hk : attr a key with
  | some v => rfl
  | none =>
    simp only [Option.none_or]
    cases hb : attr ba key with
    | some v => simp only [hb] at hB; exact hB
    | none => simp only [hb] at hB; exact hB

end ZCV.Elab
