import ZCV.Lemmas.UrlPathResolve
/-! `urljoin` on a `file:///…` base and a relative path reference, at the level of URL text. -/
namespace ZCV.UrlPath
open ZCV
open ZCV.UrlPathSpec (step normalize resolve isName)

/-- `urlunparse(("file", "", p, "", "", ""))` -/
theorem up_urlunparse_file (p : Str) (h2 : p.take 2 ≠ ['/', '/']) :
    urlunparse ⟨fileScheme, [], p, [], [], []⟩ =
      fileSlashes ++ (if p != [] && p.take 1 != ['/'] then '/' :: p else p) := by
  unfold urlunparse urlunsplit
  have h1 : usesNetloc.contains fileScheme = true := by decide
  have h3 : (fileScheme != []) = true := by decide
  have h4 : (p.take 2 != ['/', '/']) = true := by simpa using h2
  simp only [bne_self_eq_false, Bool.false_eq_true, ↓reduceIte, h1, h3, h4, Bool.and_self, Bool.or_true,
    List.nil_append]
  rfl

/-- `urljoin("file://" + abspath, ref)` for a path reference: only the path is worked on -/
theorem up_join_file_ref (t r : Str) (ht : ∀ c ∈ t, cleanChar c = true)
    (hrne : r ≠ [])
    (h0 : ∀ c, r.head? = some c → c0OrSpace c = false)
    (hc : ∀ c ∈ r, cleanChar c = true) (hns : ∀ c ∈ r.takeWhile (· != '/'), c ≠ ':')
    (hnl : r.take 2 ≠ ['/', '/']) :
    join (fileSlashes ++ '/' :: t) r = urlunparse ⟨fileScheme, [], mergePath ('/' :: t) r, [], [], []⟩ := by
  unfold join
  have hb : (fileSlashes ++ '/' :: t == []) = false := by simp [fileSlashes]
  have hr : (r == []) = false := by simpa using hrne
  have h1 : usesNetloc.contains fileScheme = true := by decide
  have h2 : usesRelative.contains fileScheme = true := by decide
  simp only [hb, hr, Bool.false_eq_true, ↓reduceIte, up_urlparse_file t [] ht,
    up_urlparse_ref r h0 hc hns hnl, bne_self_eq_false, h1, h2, Bool.not_true, Bool.or_self,
    Bool.and_false, beq_self_eq_true, Bool.and_true]

/-! ## the path part -/

theorem up_getLast?_concat_ne (l : List Str) (x : Str) : (l ++ [x]).getLast? = some x := List.getLast?_concat

theorem up_baseParts (d : List Str) (file : Str) (hd : ∀ s ∈ d, '/' ∉ s) (hf : '/' ∉ file) :
    baseParts (joinWith '/' (d ++ [file])) = if file = [] then d ++ [[]] else d := by
  unfold baseParts
  have hs : splitOn '/' (joinWith '/' (d ++ [file])) = d ++ [file] :=
    up_splitOn_joinWith '/' _ (by simp) (by
      intro s hs
      simp only [List.mem_append, List.mem_cons, List.not_mem_nil, or_false] at hs
      rcases hs with hs | rfl
      · exact hd s hs
      · exact hf)
  simp only [hs, List.getLast?_concat, List.dropLast_concat]
  by_cases hfile : file = []
  · subst hfile; simp
  · simp [hfile]

/-- where the loop ends for a base directory `[""] ++ bsegs (+ [""])` and a reference `rinit ++ [rlast]` whose last
    segment is a name -/
theorem up_removeDots_rel (bs rinit : List Str) (rlast : Str) (hl : isName rlast = true) :
    ∃ m, StackRel m (normalize (bs ++ rinit)) ∧
      removeDots (filterMiddle (([] :: bs) ++ (rinit ++ [rlast]))) = m ++ [rlast] := by
  have hl' := hl
  unfold isName at hl'
  simp only [Bool.and_eq_true, bne_iff_ne, ne_eq] at hl'
  have e1 : ([] :: bs) ++ (rinit ++ [rlast]) = [] :: ((bs ++ rinit) ++ [rlast]) := by simp
  rw [e1, up_filterMiddle]
  refine ⟨((bs ++ rinit).filter (· != [])).foldl dotStep [[]], ?_, ?_⟩
  · have := up_stackRel_foldl [[]] [] ((bs ++ rinit).filter (· != []))
      (by intro x hx; simp only [List.mem_filter, bne_iff_ne, ne_eq] at hx; exact hx.2) (Or.inl rfl)
    rw [up_foldl_step_filter] at this
    exact this
  · unfold removeDots
    have hlast : ([] :: ((bs ++ rinit).filter (· != []) ++ [rlast])).getLast? = some rlast := by
      rw [← List.cons_append, List.getLast?_concat]
    simp only [hlast]
    rw [if_neg (by
      simp only [Bool.or_eq_true, beq_iff_eq, Option.some.injEq, dot, dotdot]
      intro hh; rcases hh with hh | hh
      · exact hl'.1.2 hh
      · exact hl'.2 hh)]
    rw [List.foldl_cons, up_dotStep_nil_nil, List.foldl_append, List.foldl_cons, List.foldl_nil]
    unfold dotStep dotdot dot
    rw [if_neg hl'.2, if_neg hl'.1.2]

theorem up_joinWith_head (c : Char) (a : Str) (l : List Str) : ∃ w, joinWith '/' ((c :: a) :: l) = c :: w := by
  cases l with
  | nil => exact ⟨a, rfl⟩
  | cons b l => exact ⟨a ++ '/' :: joinWith '/' (b :: l), rfl⟩

/-- the rendering of the final stack: `'/'.join(resolved_path) or '/'`, then `urlunparse` -/
theorem up_render_rel (m s : List Str) (h : StackRel m s) (hne : s ≠ [])
    (hs : ∀ x ∈ s, x ≠ [] ∧ '/' ∉ x) :
    urlunparse ⟨fileScheme, [], (let r := joinWith '/' m; if r == [] then ['/'] else r), [], [], []⟩ =
      fileSlashes ++ '/' :: joinWith '/' s := by
  obtain ⟨x, l, rfl⟩ : ∃ x l, s = x :: l := by
    cases s with
    | nil => exact absurd rfl hne
    | cons x l => exact ⟨x, l, rfl⟩
  obtain ⟨hx1, hx2⟩ := hs x (by simp)
  obtain ⟨c, a, rfl⟩ : ∃ c a, x = c :: a := by
    cases x with
    | nil => exact absurd rfl hx1
    | cons c a => exact ⟨c, a, rfl⟩
  have hc : c ≠ '/' := fun e => hx2 (by simp [e])
  obtain ⟨w, hw⟩ := up_joinWith_head c a l
  rcases h with h | h
  · subst h
    rw [up_joinWith_cons '/' [] _ (by simp), hw]
    simp only [List.nil_append]
    rw [up_urlunparse_file _ (by simp [hc])]
    simp
  · subst h
    rw [hw]
    simp only
    rw [up_urlunparse_file _ (by simp [hc])]
    simp [hc]

/-- **joining at URL level.**  Base `file:///b1/…/bn/file`, reference `r1/…/rk/name` made of clean segments
    (no `/ # ?`, tab, CR, LF), not starting with `/` or a C0/space character, no colon before its first slash:
    the result is `file:///` + the lexical resolution of the reference segments against the directory segments. -/
theorem up_join_segments (bsegs : List Str) (file : Str) (rinit : List Str) (rlast : Str)
    (hb : ∀ s ∈ bsegs, ∀ c ∈ s, segChar c = true) (hf : ∀ c ∈ file, segChar c = true)
    (hr : ∀ s ∈ rinit ++ [rlast], ∀ c ∈ s, segChar c = true)
    (hl : isName rlast = true)
    (h0 : ∀ c, (joinWith '/' (rinit ++ [rlast])).head? = some c → c0OrSpace c = false ∧ c ≠ '/')
    (hns : ∀ c ∈ (joinWith '/' (rinit ++ [rlast])).takeWhile (· != '/'), c ≠ ':') :
    join (fileSlashes ++ joinWith '/' (([] :: bsegs) ++ [file])) (joinWith '/' (rinit ++ [rlast])) =
      fileSlashes ++ '/' :: joinWith '/' (resolve ([] :: bsegs) (rinit ++ [rlast])) := by
  have hl' := hl
  unfold isName at hl'
  simp only [Bool.and_eq_true, bne_iff_ne, ne_eq] at hl'
  -- the reference
  have hrs : ∀ s ∈ rinit ++ [rlast], '/' ∉ s := fun s hs hm => up_segChar_ne_slash _ (hr s hs _ hm) rfl
  have hrne : joinWith '/' (rinit ++ [rlast]) ≠ [] := by
    cases rinit with
    | nil => exact hl'.1.1
    | cons a t =>
      rw [up_joinWith_concat '/' _ _ (by simp)]
      simp
  have hrc := up_joinWith_clean _ hr
  have hnl : (joinWith '/' (rinit ++ [rlast])).take 2 ≠ ['/', '/'] := by
    intro hh
    cases hj : joinWith '/' (rinit ++ [rlast]) with
    | nil => exact hrne hj
    | cons c w =>
      rw [hj] at hh
      have := (h0 c (by rw [hj]; rfl)).2
      cases w with
      | nil => simp at hh
      | cons d w => simp only [List.take_succ_cons, List.take_zero, List.cons.injEq, and_true] at hh; exact this hh.1
  have ht1 : (joinWith '/' (rinit ++ [rlast])).take 1 ≠ ['/'] := by
    intro hh
    cases hj : joinWith '/' (rinit ++ [rlast]) with
    | nil => exact hrne hj
    | cons c w =>
      rw [hj] at hh
      have := (h0 c (by rw [hj]; rfl)).2
      simp only [List.take_succ_cons, List.take_zero, List.cons.injEq, and_true] at hh
      exact this hh
  -- the base
  have hbp : joinWith '/' (([] :: bsegs) ++ [file]) = '/' :: joinWith '/' (bsegs ++ [file]) := by
    rw [List.cons_append, up_joinWith_cons '/' [] _ (by simp)]; rfl
  have hbs : ∀ s ∈ bsegs ++ [file], ∀ c ∈ s, segChar c = true := by
    intro s hs
    simp only [List.mem_append, List.mem_cons, List.not_mem_nil, or_false] at hs
    rcases hs with hs | rfl
    · exact hb s hs
    · exact hf
  rw [hbp, up_join_file_ref _ _ (up_joinWith_clean _ hbs) hrne (fun c hc => (h0 c hc).1) hrc hns hnl]
  -- the segments
  have hbp' : '/' :: joinWith '/' (bsegs ++ [file]) = joinWith '/' (([] :: bsegs) ++ [file]) := hbp.symm
  have hbparts := up_baseParts ([] :: bsegs) file
    (by
      intro s hs
      simp only [List.mem_cons] at hs
      rcases hs with rfl | hs
      · simp
      · exact fun hm => up_segChar_ne_slash _ (hb s hs _ hm) rfl)
    (fun hm => up_segChar_ne_slash _ (hf _ hm) rfl)
  have hsplit : splitOn '/' (joinWith '/' (rinit ++ [rlast])) = rinit ++ [rlast] :=
    up_splitOn_joinWith '/' _ (by simp) hrs
  have hms : ∃ bs, mergeSegments ('/' :: joinWith '/' (bsegs ++ [file])) (joinWith '/' (rinit ++ [rlast])) =
      filterMiddle (([] :: bs) ++ (rinit ++ [rlast])) ∧ normalize (bs ++ rinit) = normalize (([] :: bsegs) ++ rinit) := by
    unfold mergeSegments
    rw [if_neg (by simpa using ht1), hbp', hbparts, hsplit]
    by_cases hfile : file = []
    · refine ⟨bsegs ++ [[]], by simp [hfile], ?_⟩
      simp only [normalize, List.foldl_append, List.foldl_cons, List.foldl_nil, up_step_nil, List.cons_append]
    · refine ⟨bsegs, by simp [hfile], ?_⟩
      simp only [normalize, List.cons_append, List.foldl_cons, up_step_nil]
  obtain ⟨bs, hms1, hms2⟩ := hms
  obtain ⟨m, hrel, hrd⟩ := up_removeDots_rel bs rinit rlast hl
  have hres : resolve ([] :: bsegs) (rinit ++ [rlast]) = normalize (bs ++ rinit) ++ [rlast] := by
    rw [up_resolve_name_last _ _ _ hl, hms2]; rfl
  unfold mergePath
  rw [hms1, hrd, hres]
  apply up_render_rel
  · rcases hrel with h | h
    · left; rw [h]; rfl
    · right; rw [h]
  · simp
  · intro x hx
    simp only [List.mem_append, List.mem_cons, List.not_mem_nil, or_false] at hx
    rcases hx with hx | rfl
    · rw [hms2] at hx
      obtain ⟨hmem, hname⟩ := up_normalize_names _ x hx
      unfold isName at hname
      simp only [Bool.and_eq_true, bne_iff_ne, ne_eq] at hname
      refine ⟨hname.1.1, ?_⟩
      simp only [List.cons_append, List.mem_cons, List.mem_append] at hmem
      rcases hmem with rfl | hmem | hmem
      · exact absurd rfl hname.1.1
      · exact fun hm => up_segChar_ne_slash _ (hb x hmem _ hm) rfl
      · exact hrs x (by simp [hmem])
    · exact ⟨hl'.1.1, hrs x (by simp)⟩

end ZCV.UrlPath
