import ZCV.Lemmas.ImportOvText
/-!
The load of top-level items WITH overrides against the declarative `denoteI` of the items edited by hand
(`editBodyI`, against the schema `S` the load started with):

* what the edit keeps: the `%import` lines (`importsOK`, `extendBy`), lower-case headers (`lowTops`);
* `valTops` — the value a (bag-free) evaluation ends with, and `loadTops` / `denoteI` in its terms;
* `runTopsOv_value` — overrides = edit, then `denoteI`.
-/
namespace ZCV.Conf
open ZCV ZCV.Cfg

/-! ### what the edit keeps -/

theorem lowItems_append : ∀ (a b : List Item), lowItems (a ++ b) = (lowItems a && lowItems b)
  | [], b => by rw [List.nil_append, lowItems, Bool.true_and]
  | i :: a, b => by rw [List.cons_append, lowItems, lowItems, lowItems_append a b, Bool.and_assoc]

theorem lowItems_kvs : ∀ (l : List Item), (∀ i ∈ l, ∃ k v p, i = .kv k v p) → lowItems l = true
  | [], _ => by rw [lowItems]
  | i :: r, h => by
    obtain ⟨k, v, p, rfl⟩ := h i List.mem_cons_self
    rw [lowItems, lowItem, lowItems_kvs r (fun j hj => h j (List.mem_cons_of_mem _ hj))]
    rfl

mutual
theorem lowItem_edit (conv : Conv) (S : Schema) (asGiven : Bool) :
    ∀ (i : Item), lowItem i = true → ∀ norm keys pend is pend',
      editItem conv S asGiven norm keys i pend = .ok (is, pend') → lowItems is = true
  | .kv k v p, _, norm, keys, pend, is, pend', h => by
    rw [editItem] at h
    cases h
    split
    · rw [lowItems]
    · rw [lowItems, lowItem, lowItems]; rfl
  | .sect ty nm sub, hl, norm, keys, pend, is, pend', h => by
    have hl' := hl
    rw [lowItem, Bool.and_eq_true] at hl'
    rw [editItem_sect] at h
    split at h
    · cases h
      rw [lowItems, hl, lowItems]; rfl
    · split at h
      · rename_i t hg
        split at h
        · cases h
        · rename_i sub' hed
          cases h
          obtain ⟨ks, ss, is, _, h2, rfl⟩ := editBody_ok conv S asGiven t.keytype sub _ sub' hed
          have h3 := lowItems_edit conv S asGiven sub hl'.2 _ _ _ _ _ h2
          rw [lowItems, lowItem, hl'.1, lowItems_append, h3, lowItems_kvs _ (newLines_kv asGiven _), lowItems]
          rfl
      · cases h
theorem lowItems_edit (conv : Conv) (S : Schema) (asGiven : Bool) :
    ∀ (l : List Item), lowItems l = true → ∀ norm keys pend is pend',
      editItems conv S asGiven norm keys l pend = .ok (is, pend') → lowItems is = true
  | [], _, norm, keys, pend, is, pend', h => by
    rw [editItems] at h
    cases h
    rw [lowItems]
  | i :: r, hl, norm, keys, pend, is, pend', h => by
    rw [lowItems, Bool.and_eq_true] at hl
    rw [editItems] at h
    split at h
    · cases h
    · rename_i is1 pend1 h1
      split at h
      · cases h
      · rename_i rs pend2 h2
        cases h
        rw [lowItems_append, lowItem_edit conv S asGiven i hl.1 _ _ _ _ _ h1,
          lowItems_edit conv S asGiven r hl.2 _ _ _ _ _ h2]
        rfl
end

theorem lowTops_append : ∀ (a b : List TopItem), lowTops (a ++ b) = (lowTops a && lowTops b)
  | [], b => by rw [List.nil_append, lowTops, Bool.true_and]
  | .item i :: a, b => by rw [List.cons_append, lowTops, lowTops, lowTops_append a b, Bool.and_assoc]
  | .imp p :: a, b => by rw [List.cons_append, lowTops, lowTops, lowTops_append a b]

theorem lowTops_items : ∀ (l : List Item), lowTops (l.map .item) = lowItems l
  | [] => by rw [List.map_nil, lowTops, lowItems]
  | i :: r => by rw [List.map_cons, lowTops, lowItems, lowTops_items r]

theorem lowTops_editTops (conv : Conv) (S : Schema) (asGiven : Bool) (norm : Str → Except ConvErr Str) (keys : List Str) :
    ∀ (tops : List TopItem), lowTops tops = true → ∀ pend tops' pend',
      editTops conv S asGiven norm keys tops pend = .ok (tops', pend') → lowTops tops' = true
  | [], _, pend, tops', pend', h => by
    rw [editTops] at h
    cases h
    rw [lowTops]
  | .imp p :: r, hl, pend, tops', pend', h => by
    rw [lowTops] at hl
    rw [editTops] at h
    split at h
    · cases h
    · rename_i rs pend1 h1
      cases h
      rw [lowTops]
      exact lowTops_editTops conv S asGiven norm keys r hl _ _ _ h1
  | .item i :: r, hl, pend, tops', pend', h => by
    rw [lowTops, Bool.and_eq_true] at hl
    rw [editTops] at h
    split at h
    · cases h
    · rename_i is pend1 h1
      split at h
      · cases h
      · rename_i rs pend2 h2
        cases h
        rw [lowTops_append, lowTops_items, lowItem_edit conv S asGiven i hl.1 _ _ _ _ _ h1,
          lowTops_editTops conv S asGiven norm keys r hl.2 _ _ _ h2]
        rfl

/-- items do not touch the schema -/
theorem extendBy_items_append (pkgs : Str → Pkg) (s : Schema) : ∀ (l : List Item) (r : List TopItem),
    extendBy pkgs s (l.map .item ++ r) = extendBy pkgs s r
  | [], r => by rw [List.map_nil, List.nil_append]
  | i :: l, r => by rw [List.map_cons, List.cons_append, extendBy]; exact extendBy_items_append pkgs s l r

theorem importsOK_items_append (pkgs : Str → Pkg) (s : Schema) : ∀ (l : List Item) (r : List TopItem),
    importsOK pkgs s (l.map .item ++ r) = importsOK pkgs s r
  | [], r => by rw [List.map_nil, List.nil_append]
  | i :: l, r => by rw [List.map_cons, List.cons_append, importsOK]; exact importsOK_items_append pkgs s l r

theorem extendBy_append_items (pkgs : Str → Pkg) (l : List Item) : ∀ (tops : List TopItem) (s : Schema),
    extendBy pkgs s (tops ++ l.map .item) = extendBy pkgs s tops
  | [], s => by
    have := extendBy_items_append pkgs s l []
    rw [List.append_nil] at this
    rw [List.nil_append, this]
  | .item i :: r, s => by rw [List.cons_append, extendBy, extendBy]; exact extendBy_append_items pkgs l r s
  | .imp p :: r, s => by
    rw [List.cons_append, extendBy, extendBy]
    cases extend s (pkgs p) with
    | none => rfl
    | some s' => exact extendBy_append_items pkgs l r s'

theorem importsOK_append_items (pkgs : Str → Pkg) (l : List Item) : ∀ (tops : List TopItem) (s : Schema),
    importsOK pkgs s (tops ++ l.map .item) = importsOK pkgs s tops
  | [], s => by
    have := importsOK_items_append pkgs s l []
    rw [List.append_nil] at this
    rw [List.nil_append, this]
  | .item i :: r, s => by rw [List.cons_append, importsOK, importsOK]; exact importsOK_append_items pkgs l r s
  | .imp p :: r, s => by
    rw [List.cons_append, importsOK, importsOK]
    cases extend s (pkgs p) with
    | none => rfl
    | some s' =>
      simp only
      rw [importsOK_append_items pkgs l r s']

/-- the edit keeps the `%import` lines where they are: same schemas along the text -/
theorem editTops_imports (conv : Conv) (S : Schema) (asGiven : Bool) (norm : Str → Except ConvErr Str) (keys : List Str)
    (pkgs : Str → Pkg) : ∀ (tops : List TopItem) (pend : List OptItem) (tops' : List TopItem) (pend' : List OptItem),
      editTops conv S asGiven norm keys tops pend = .ok (tops', pend') →
      ∀ s, extendBy pkgs s tops' = extendBy pkgs s tops ∧ importsOK pkgs s tops' = importsOK pkgs s tops
  | [], pend, tops', pend', h, s => by
    rw [editTops] at h
    cases h
    exact ⟨rfl, rfl⟩
  | .imp p :: r, pend, tops', pend', h, s => by
    rw [editTops] at h
    split at h
    · cases h
    · rename_i rs pend1 h1
      cases h
      rw [extendBy, extendBy, importsOK, importsOK]
      cases extend s (pkgs p) with
      | none => exact ⟨rfl, rfl⟩
      | some s' =>
        obtain ⟨e1, e2⟩ := editTops_imports conv S asGiven norm keys pkgs r _ _ _ h1 s'
        simp only
        exact ⟨e1, by rw [e2]⟩
  | .item i :: r, pend, tops', pend', h, s => by
    rw [editTops] at h
    split at h
    · cases h
    · rename_i is pend1 h1
      split at h
      · cases h
      · rename_i rs pend2 h2
        cases h
        rw [extendBy_items_append, importsOK_items_append, extendBy, importsOK]
        exact editTops_imports conv S asGiven norm keys pkgs r _ _ _ h2 s

theorem closeTops_ok (asGiven : Bool) (G : List (Str × List (Str × Str))) (r : Except Reject (List TopItem × List OptItem))
    (tops' : List TopItem) (h : closeTops asGiven G r = .ok tops') :
    ∃ ts, r = .ok (ts, []) ∧ tops' = ts ++ (newLines asGiven G).map .item := by
  unfold closeTops at h
  split at h
  · cases h
  · cases h; exact ⟨_, rfl, rfl⟩
  · cases h

theorem editBodyI_ok (conv : Conv) (S : Schema) (asGiven : Bool) (tops : List TopItem) (ovs : List OptItem)
    (tops' : List TopItem) (h : editBodyI conv S asGiven tops ovs = .ok tops') :
    ∃ ks ss ts, splitOvs (conv.key S.top.keytype) ovs = .ok (ks, ss) ∧
      editTops conv S asGiven (conv.key S.top.keytype) ((groupsOf ks).map (·.1)) tops ss = .ok (ts, []) ∧
      tops' = ts ++ (newLines asGiven (groupsOf ks)).map .item := by
  unfold editBodyI at h
  split at h
  · cases h
  · rename_i ks ss hs
    obtain ⟨ts, h1, h2⟩ := closeTops_ok _ _ _ _ h
    exact ⟨ks, ss, ts, hs, h1, h2⟩

/-- the edited items import what the original items import, and spell their headers in lower case -/
theorem editBodyI_keeps (conv : Conv) (S : Schema) (asGiven : Bool) (pkgs : Str → Pkg) (tops : List TopItem)
    (ovs : List OptItem) (tops' : List TopItem) (h : editBodyI conv S asGiven tops ovs = .ok tops') (s : Schema) :
    extendBy pkgs s tops' = extendBy pkgs s tops ∧ importsOK pkgs s tops' = importsOK pkgs s tops ∧
      (lowTops tops = true → lowTops tops' = true) := by
  obtain ⟨ks, ss, ts, _, h2, rfl⟩ := editBodyI_ok conv S asGiven tops ovs tops' h
  obtain ⟨e1, e2⟩ := editTops_imports conv S asGiven _ _ pkgs tops ss ts [] h2 s
  refine ⟨by rw [extendBy_append_items, e1], by rw [importsOK_append_items, e2], ?_⟩
  intro hl
  rw [lowTops_append, lowTops_editTops conv S asGiven _ _ tops hl _ _ _ h2, lowTops_items,
    lowItems_kvs _ (newLines_kv asGiven _)]
  rfl

/-! ### no overrides: nothing to edit -/

theorem editTops_nopend (conv : Conv) (S : Schema) (asGiven : Bool) (norm : Str → Except ConvErr Str) :
    ∀ (tops : List TopItem), editTops conv S asGiven norm [] tops [] = .ok (tops, [])
  | [] => by rw [editTops]
  | .imp p :: r => by rw [editTops, editTops_nopend conv S asGiven norm r]
  | .item (.kv k v p) :: r => by
    rw [editTops, editItem, overridden_nil]
    simp only [Bool.false_eq_true, if_false]
    rw [editTops_nopend conv S asGiven norm r]
    rfl
  | .item (.sect ty nm sub) :: r => by
    rw [editTops, editItem]
    simp only [List.filter_nil, List.isEmpty_nil, if_true]
    rw [editTops_nopend conv S asGiven norm r]
    rfl

theorem editBodyI_nil (conv : Conv) (S : Schema) (asGiven : Bool) (tops : List TopItem) :
    editBodyI conv S asGiven tops [] = .ok tops := by
  unfold editBodyI
  rw [splitOvs]
  simp only
  rw [show groupsOf [] = [] from rfl, List.map_nil, editTops_nopend]
  show Except.ok (tops ++ (newLines asGiven []).map .item) = _
  rw [show newLines asGiven [] = [] from rfl, List.map_nil, List.append_nil]

/-! ### the value an evaluation ends with -/

/-- the last two steps of a load, on the outcome of an evaluation -/
def finV (conv : Conv) (S : Schema) (x : Option (Schema × Matcher)) : Option Val :=
  x.bind fun p =>
    match finishMatcher conv p.1 p.2 with
    | .ok (v, _) => (conv.sect S.top.datatype v).toOption
    | .error _ => none

/-- the value of the bag-free load of top-level items, computed on the top matcher -/
def valTops (conv : Conv) (pkgs : Str → Pkg) (S : Schema) (tops : List TopItem) : Option Val :=
  finV conv S (evalTops conv pkgs S (newMatcher S.top none none) tops)

theorem loadTops_eq_valTops (conv : Conv) (pkgs : Str → Pkg) (s : Schema) (tops : List TopItem) :
    (loadTops conv pkgs s tops).toOption.map (·.1) = valTops conv pkgs s tops := by
  have hrun := runTops_eval conv pkgs tops (loadSt0 conv pkgs s) (newMatcher s.top none none) rfl rfl rfl rfl
  rw [show (loadSt0 conv pkgs s).schema = s from rfl] at hrun
  unfold valTops finV loadTops
  cases he : evalTops conv pkgs s (newMatcher s.top none none) tops with
  | none =>
    rw [he] at hrun
    obtain ⟨e, hr⟩ := hrun
    rw [hr]
    rfl
  | some p =>
    obtain ⟨sF, m'⟩ := p
    rw [he] at hrun
    obtain ⟨st', hr, hstk, hsch⟩ := hrun
    rw [hr]
    show (topsFin conv s st').toOption.map (·.1) = _
    unfold topsFin
    rw [hstk, hsch]
    simp only [Option.bind_some]
    cases finishMatcher conv sF m' with
    | error e => rfl
    | ok vh =>
      obtain ⟨v, hs⟩ := vh
      simp only
      cases conv.sect s.top.datatype v <;> rfl

/-- … which is `denoteI` -/
theorem valTops_eq_denoteI (conv : Conv) (pkgs : Str → Pkg) (s : Schema) (tops : List TopItem)
    (hok : importsOK pkgs s tops = true) (hl : lowTops tops = true) :
    valTops conv pkgs s tops = denoteI conv s pkgs tops := by
  rw [← loadTops_eq_valTops, loadTops_eq_denoteI conv pkgs s tops hok hl]

/-! ### overrides = edit, then `denoteI` -/

theorem finV_rebag_left (conv : Conv) (S : Schema) (kp : List (Str × List Str)) (o : OptItem) (left : List OptItem)
    (x : Option (Schema × Matcher)) (hx : ∀ p, x = some p → p.2.bag = none) :
    finV conv S (x.map (rebag (some { keypairs := kp, sectitems := o :: left }))) = none := by
  unfold finV
  cases x with
  | none => rfl
  | some p =>
    obtain ⟨sF, m2⟩ := p
    have hb2 : m2.bag = none := hx _ rfl
    simp only [Option.map_some, Option.bind_some, rebag]
    rw [finishMatcher_split, finishBag_some conv _ { keypairs := kp, sectitems := o :: left } rfl]
    simp only [bind, Except.bind]
    cases List.foldlM (bagOuter conv) (withBag m2 (some { keypairs := kp, sectitems := o :: left })) kp with
    | error e => rfl
    | ok v => rfl

theorem topsFinH_fst (conv : Conv) (S : Schema) (x : M LS) :
    (x >>= topsFinH conv S).toOption.map (·.1) = (x >>= topsFin conv S).toOption.map (·.1) := by
  cases x with
  | error e => rfl
  | ok st =>
    show (topsFinH conv S st).toOption.map (·.1) = (topsFin conv S st).toOption.map (·.1)
    unfold topsFinH topsFin
    rcases st.stack with _ | ⟨top, _ | ⟨y, rest⟩⟩
    · rfl
    · simp only
      cases finishMatcher conv st.schema top with
      | error e => rfl
      | ok vh =>
        obtain ⟨v, hs⟩ := vh
        simp only
        cases conv.sect S.top.datatype v <;> rfl
    · rfl

/-- the value of a run, from the evaluation on the top matcher -/
theorem run_finV (conv : Conv) (pkgs : Str → Pkg) (S : Schema) (tops : List TopItem) (st : LS) (m : Matcher)
    (hst : st.stack = [m]) (hconv : st.conv = conv) (hpk : st.pkgs = pkgs) (hbs : st.bagSchema = some S) :
    (runTops st tops >>= topsFinH conv S).toOption.map (·.1) = finV conv S (evalTopsBS conv pkgs S st.schema m tops) := by
  have hrun := runTops_evalBS conv pkgs S tops st m hst hconv hpk hbs
  unfold finV
  cases he : evalTopsBS conv pkgs S st.schema m tops with
  | none =>
    rw [he] at hrun
    obtain ⟨e, hr⟩ := hrun
    rw [hr]
    rfl
  | some p =>
    obtain ⟨sF, m'⟩ := p
    rw [he] at hrun
    obtain ⟨st', hr, hstk, hsch, _⟩ := hrun
    rw [hr]
    show (topsFinH conv S st').toOption.map (·.1) = _
    unfold topsFinH
    rw [hstk, hsch]
    simp only [Option.bind_some]
    cases finishMatcher conv sF m' with
    | error e => rfl
    | ok vh =>
      obtain ⟨v, hs⟩ := vh
      simp only
      cases conv.sect S.top.datatype v <;> rfl

/-- the bag that has met all its sections supplies its lines: finishing with the bag = evaluating the supplied lines,
    then finishing without one -/
theorem finV_rebag_nil (conv : Conv) (pkgs : Str → Pkg) (S : Schema) (asGiven : Bool) (ks : List KeyOv)
    (x : Option (Schema × Matcher)) (hx : ∀ p, x = some p → p.2.bag = none ∧ p.2.ty = S.top)
    (hG : GroupsOK conv asGiven S.top.keytype (groupsOf ks)) :
    finV conv S (x.map (rebag (some { keypairs := strip (groupsOf ks), sectitems := [] }))) =
      finV conv S (x.bind fun p => evalTopsBS conv pkgs S p.1 p.2 ((newLines asGiven (groupsOf ks)).map .item)) := by
  cases x with
  | none => rfl
  | some p =>
    obtain ⟨sF, m2⟩ := p
    obtain ⟨hb2, hty2⟩ := hx _ rfl
    simp only at hb2 hty2
    have hG2 : GroupsOK conv asGiven m2.ty.keytype (groupsOf ks) := by rw [hty2]; exact hG
    simp only [Option.map_some, Option.bind_some, rebag]
    rw [evalTopsBS_items, evalItemsBS_nobag conv S sF _ m2 hb2]
    unfold finV
    simp only [Option.bind_some]
    rw [finishMatcher_split, finishBag_groups conv sF asGiven (groupsOf ks) [] m2 hb2 hG2]
    cases hnl : evalItemsB conv sF m2 (newLines asGiven (groupsOf ks)) with
    | error e => rfl
    | ok m3 =>
      have hp3 := evalItemsB_pres conv sF _ m2 m3 hnl
      simp only [toOption_ok, Option.map_some, Option.bind_some]
      rw [finishMatcher_nobag conv sF m3 (hp3.2 hb2)]
      rfl

/-- **Overrides act like the edit, with `%import` lines**, at the level of top-level items.  `stOv` is the state the load
    starts with; the value of the load is the value `denoteI` gives the items edited against the schema `S` the load
    starts with. -/
theorem runTopsOv_value (conv : Conv) (pkgs : Str → Pkg) (S : Schema) (asGiven : Bool) (hsp : SpellOK conv S asGiven)
    (tops : List TopItem) (ovs : List OptItem) (hok : importsOK pkgs S tops = true) (hl : lowTops tops = true)
    (hovs : OvsOK ovs) :
    ((bagOf conv S ovs >>= fun bag => runTops (stOv conv pkgs S bag) tops >>= topsFinH conv S).toOption.map (·.1)) =
      (editBodyI conv S asGiven tops ovs).toOption.bind (denoteI conv S pkgs) := by
  cases ovs with
  | nil =>
    rw [editBodyI_nil]
    show ((runTops (loadSt0 conv pkgs S) tops >>= topsFinH conv S).toOption.map (·.1)) = denoteI conv S pkgs tops
    rw [topsFinH_fst, ← loadTops_eq_denoteI conv pkgs S tops hok hl]
    rfl
  | cons o ovs' =>
    have hb : bagOf conv S (o :: ovs') = (mkBag conv S.top (o :: ovs')).map some := rfl
    have hmk := mkBag_spec conv S.top (o :: ovs')
    have hkeep := editBodyI_keeps conv S asGiven pkgs tops (o :: ovs')
    unfold editBodyI at hkeep ⊢
    cases hsp' : splitOvs (conv.key S.top.keytype) (o :: ovs') with
    | error r =>
      rw [hsp'] at hmk
      obtain ⟨e, he⟩ := hmk
      rw [hb, he]
      rfl
    | ok p =>
      obtain ⟨ks, ss⟩ := p
      rw [hsp'] at hmk hkeep
      simp only at hmk hkeep ⊢
      rw [hb, hmk]
      show ((runTops (stOv conv pkgs S (some { keypairs := strip (groupsOf ks), sectitems := ss })) tops >>=
        topsFinH conv S).toOption.map (·.1)) = _
      have hinv := splitOvs_inv _ _ ks ss hsp'
      have hpend := pendOK_of_ovsOK _ ss hovs hinv.2
      have hG := groupsOK_of conv S asGiven hsp S.top (Or.inl rfl) ks hinv.1
      rw [run_finV conv pkgs S tops _ (newMatcher S.top none (some { keypairs := strip (groupsOf ks), sectitems := ss }))
        rfl rfl rfl rfl]
      have hs := simTopsS conv pkgs S asGiven hsp tops S hok hl (SubSchema.refl S) (newMatcher S.top none none)
        (strip (groupsOf ks)) ss rfl hpend
      rw [strip_keys] at hs
      rw [show (stOv conv pkgs S (some { keypairs := strip (groupsOf ks), sectitems := ss })).schema = S from rfl,
        newMatcher_withBag]
      cases hed : editTops conv S asGiven (conv.key S.top.keytype) ((groupsOf ks).map (·.1)) tops ss with
      | error r =>
        rw [show (newMatcher S.top none none).ty.keytype = S.top.keytype from rfl, hed] at hs
        simp only at hs
        rw [hs]
        rfl
      | ok q =>
        obtain ⟨ts, left⟩ := q
        rw [show (newMatcher S.top none none).ty.keytype = S.top.keytype from rfl, hed] at hs
        simp only at hs
        rw [hs]
        have hx : ∀ p, evalTopsBS conv pkgs S S (newMatcher S.top none none) ts = some p → p.2.bag = none ∧ p.2.ty = S.top := by
          intro p hp
          obtain ⟨sF, m2⟩ := p
          obtain ⟨h1, h2⟩ := evalTopsBS_ty conv pkgs S ts S _ sF m2 rfl hp
          exact ⟨h2, h1⟩
        cases left with
        | cons o' left' =>
          rw [finV_rebag_left conv S _ o' left' _ (fun p hp => (hx p hp).1)]
          rfl
        | nil =>
          rw [hed] at hkeep
          obtain ⟨_, k2, k3⟩ := hkeep _ rfl S
          show _ = denoteI conv S pkgs (ts ++ (newLines asGiven (groupsOf ks)).map .item)
          rw [← valTops_eq_denoteI conv pkgs S _ (by rw [k2]; exact hok) (k3 hl)]
          unfold valTops
          rw [← evalTopsBS_nobag conv pkgs S _ S _ rfl, evalTopsBS_append]
          exact finV_rebag_nil conv pkgs S asGiven ks _ hx hG

end ZCV.Conf
