import ZCV.Lemmas.ElabNoIntVisit
/-!
No internal errors, continued: one element of each kind, given the induction hypothesis for its children.
-/
namespace ZCV.Elab
open ZCV ZCV.Cfg

variable {P : String → Prop}

/-- the induction hypothesis for the children of a `t` element -/
def ChildrenIH (P : String → Prop) (env : Env) (h : Hooks) (d : DocKind) (t : Str) (c : List Node) : Prop :=
  ∀ st1, CtxOK d t st1 → KeysOK st1.es → NIx P (visitChildren env h d t st1 c) ∧
    ∀ st2, visitChildren env h d t st1 c = .ok st2 → Post d t st1 st2

theorem pkOfB_key (comp : Bool) : pkOfB comp "key".toList = some .key := by cases comp <;> decide
theorem pkOfB_multikey (comp : Bool) : pkOfB comp "multikey".toList = some .key := by cases comp <;> decide
theorem pkOfB_section (comp : Bool) : pkOfB comp "section".toList = some .sect := by cases comp <;> decide
theorem pkOfB_multisection (comp : Bool) : pkOfB comp "multisection".toList = some .sect := by cases comp <;> decide
theorem pkOfB_sectiontype (comp : Bool) : pkOfB comp "sectiontype".toList = some .stype := by cases comp <;> decide
theorem pkOfB_abstracttype (comp : Bool) : pkOfB comp "abstracttype".toList = some .atype := by cases comp <;> decide
theorem pkOfB_import (comp : Bool) : pkOfB comp "import".toList = some .imp := by cases comp <;> decide

theorem ctx_pk {d : DocKind} {t : Str} {st : PSt} {pk : PK} (hctx : CtxOK d t st) (hpk : ∀ comp, pkOfB comp t = some pk) :
    FrameOK st pk := by
  obtain ⟨_, pk', hpk', hf⟩ := hctx
  rw [hpk] at hpk'
  injection hpk' with hpk'
  subst hpk'
  exact hf

/-- `<key>` and `<multikey>` -/
theorem elem_keylike {env : Env} {h : Hooks} {d : DocKind} {p : Str} {st : PSt} {t : Str} {a : Attrs} {c : List Node} {pk : PK}
    (hpkt : ∀ comp, pkOfB comp t = some .key) (ht : t ≠ d.topLevel) (hh : d.handled.contains t = true)
    (hs_ni : NIx P (startHandled env h t a st))
    (hs_eff : ∀ st1, startHandled env h t a st = .ok st1 → ∃ k ch, KeyShape k ∧ topOf st.es st.stack = .ok ch ∧
      st1 = { st with es := setTopOf st.es st.stack (ch ++ [(some k.name, EInfo.key k)]), stack := .key k :: st.stack })
    (he_ni : ∀ st2 k rest, st2.stack = .key k :: rest → KeyShape k → LastKey st2.es rest k → NIx P (endHandled env t st2))
    (he_post : ∀ st2 st' k rest, st2.stack = .key k :: rest → KeyShape k → LastKey st2.es rest k → KeysOK st2.es →
      endHandled env t st2 = .ok st' →
      st'.stack = rest ∧ st'.prefixes = st2.prefixes ∧ kinds st'.es = kinds st2.es ∧ KeysOK st'.es)
    (hpre : st.prefixes ≠ []) (hpk : pkOfB (isComp d) p = some pk) (hf : FrameOK st pk)
    (hpkc : pk = .topS ∨ pk = .stype) (hks : KeysOK st.es) (hn : nestingCheck p t = .ok ())
    (ih : ChildrenIH P env h d t c) :
    NIx P (visitElem env h d (some p) st (.elem t a c)) ∧
      ∀ st', visitElem env h d (some p) st (.elem t a c) = .ok st' → Post d p st st' := by
  refine handledElem_ni_post
    (Q := fun st1 => st1.stack.tail = st.stack ∧ st1.prefixes = st.prefixes ∧ kinds st1.es = kinds st.es)
    ht hh hn hs_ni ?_ ih ?_ ?_
  · intro st1 hs1
    obtain ⟨k, ch, hk, hch, heq⟩ := hs_eff st1 hs1
    obtain ⟨h1, h2, h3, h4, h5⟩ := keyStart_post hk hch hks heq
    exact ⟨⟨by rw [h1]; rfl, h2, h3⟩, ⟨by rw [h2]; exact hpre, .key, hpkt _, k, st.stack, h1, hk, h5⟩, h4⟩
  · intro st1 st2 hq hpost
    obtain ⟨k', rest, hs2, hk', hl'⟩ := ctx_pk hpost.ctx hpkt
    exact he_ni st2 k' rest hs2 hk' hl'
  · intro st1 st2 st' hq hpost hend
    obtain ⟨k', rest, hs2, hk', hl'⟩ := ctx_pk hpost.ctx hpkt
    obtain ⟨e1, e2, e3, e4⟩ := he_post st2 st' k' rest hs2 hk' hl' hpost.keys hend
    have hrest : rest = st.stack := by
      have := hpost.tail
      rw [hs2] at this
      simp only [List.tail_cons] at this
      rw [this]; exact hq.1
    refine post_of_handled hpre hpk hf (e1.trans hrest) (e2.trans (hpost.prefixes.trans hq.2.1)) e4 ?_
    have hkk : kinds st'.es = kinds st.es :=
      e3.trans ((hpost.kinds .key (hpkt _) (by decide) (by decide)).trans hq.2.2)
    rcases hpkc with rfl | rfl
    · exact Or.inl (Or.inl rfl)
    · exact Or.inr ⟨rfl, hkk⟩

/-- `<section>` and `<multisection>` -/
theorem elem_sectlike {env : Env} {h : Hooks} {d : DocKind} {p : Str} {st : PSt} {t : Str} {a : Attrs} {c : List Node} {pk : PK}
    (hpkt : ∀ comp, pkOfB comp t = some .sect) (ht : t ≠ d.topLevel) (hh : d.handled.contains t = true)
    (hs_ni : NIx P (startHandled env h t a st))
    (hs_eff : ∀ st1, startHandled env h t a st = .ok st1 → ∃ key si ch, topOf st.es st.stack = .ok ch ∧
      st1 = { st with es := setTopOf st.es st.stack (ch ++ [(key, EInfo.sect si)]), stack := .sect false false :: st.stack })
    (hend : ∀ st2, endHandled env t st2 = popFrame st2)
    (hpre : st.prefixes ≠ []) (hpk : pkOfB (isComp d) p = some pk) (hf : FrameOK st pk)
    (hpkc : pk = .topS ∨ pk = .stype) (hks : KeysOK st.es) (hn : nestingCheck p t = .ok ())
    (ih : ChildrenIH P env h d t c) :
    NIx P (visitElem env h d (some p) st (.elem t a c)) ∧
      ∀ st', visitElem env h d (some p) st (.elem t a c) = .ok st' → Post d p st st' := by
  refine handledElem_ni_post
    (Q := fun st1 => st1.stack.tail = st.stack ∧ st1.prefixes = st.prefixes ∧ kinds st1.es = kinds st.es)
    ht hh hn hs_ni ?_ ih ?_ ?_
  · intro st1 hs1
    obtain ⟨key, si, ch, hch, heq⟩ := hs_eff st1 hs1
    obtain ⟨h1, h2, h3, h4⟩ := sectStart_post hch hks heq
    exact ⟨⟨by rw [h1]; rfl, h2, h3⟩, ⟨by rw [h2]; exact hpre, .sect, hpkt _, false, false, st.stack, h1⟩, h4⟩
  · intro st1 st2 hq hpost
    obtain ⟨a', b', rest, hs2⟩ := ctx_pk hpost.ctx hpkt
    rw [hend]
    exact popFrame_ni (by rw [hs2]; simp)
  · intro st1 st2 st' hq hpost hendok
    rw [hend] at hendok
    have heq := popFrame_eff hendok
    subst heq
    refine post_of_handled hpre hpk hf (hpost.tail.trans hq.1) (hpost.prefixes.trans hq.2.1) hpost.keys ?_
    have hkk : kinds st2.es = kinds st.es := (hpost.kinds .sect (hpkt _) (by decide) (by decide)).trans hq.2.2
    rcases hpkc with rfl | rfl
    · exact Or.inl (Or.inl rfl)
    · exact Or.inr ⟨rfl, hkk⟩

theorem elem_sectiontype {env : Env} {h : Hooks} {d : DocKind} {p : Str} {st : PSt} {a : Attrs} {c : List Node} {pk : PK}
    (he : EnvNI env) (hpre : st.prefixes ≠ []) (hpk : pkOfB (isComp d) p = some pk) (hf : FrameOK st pk)
    (hpkc : pk = .topS ∨ pk = .topC) (hks : KeysOK st.es) (hn : nestingCheck p "sectiontype".toList = .ok ())
    (ih : ChildrenIH P env h d "sectiontype".toList c) :
    NIx P (visitElem env h d (some p) st (.elem "sectiontype".toList a c)) ∧
      ∀ st', visitElem env h d (some p) st (.elem "sectiontype".toList a c) = .ok st' → Post d p st st' := by
  refine handledElem_ni_post
    (Q := fun st1 => st1.stack.tail = st.stack ∧ st1.prefixes.drop 1 = st.prefixes)
    (by cases d <;> simp only [DocKind.topLevel] <;> decide) (by cases d <;> simp only [DocKind.handled] <;> decide) hn
    (startSectiontype_ni he hks a) ?_ ih ?_ ?_
  · intro st1 hs1
    obtain ⟨name, x, h1, h2, h3, h4⟩ := startSectiontype_post hks hs1
    exact ⟨⟨by rw [h1]; rfl, by rw [h2]; rfl⟩, ⟨by rw [h2]; simp, .stype, pkOfB_sectiontype _, name, st.stack, h1, h3⟩, h4⟩
  · intro st1 st2 hq hpost
    obtain ⟨n, rest, hs2, _⟩ := ctx_pk hpost.ctx pkOfB_sectiontype
    show NIx P (popFrame (popPrefix st2))
    exact popFrame_ni (st := popPrefix st2) (by show st2.stack ≠ []; rw [hs2]; simp)
  · intro st1 st2 st' hq hpost hendok
    have heq := popFrame_eff (st := popPrefix st2) hendok
    subst heq
    refine post_of_handled hpre hpk hf (hpost.tail.trans hq.1) ?_ hpost.keys (Or.inl hpkc)
    show st2.prefixes.drop 1 = st.prefixes
    rw [hpost.prefixes]; exact hq.2

theorem elem_abstracttype {env : Env} {h : Hooks} {d : DocKind} {p : Str} {st : PSt} {a : Attrs} {c : List Node} {pk : PK}
    (hpre : st.prefixes ≠ []) (hpk : pkOfB (isComp d) p = some pk) (hf : FrameOK st pk)
    (hpkc : pk = .topS ∨ pk = .topC) (hks : KeysOK st.es) (hn : nestingCheck p "abstracttype".toList = .ok ())
    (ih : ChildrenIH P env h d "abstracttype".toList c) :
    NIx P (visitElem env h d (some p) st (.elem "abstracttype".toList a c)) ∧
      ∀ st', visitElem env h d (some p) st (.elem "abstracttype".toList a c) = .ok st' → Post d p st st' := by
  refine handledElem_ni_post
    (Q := fun st1 => st1.stack.tail = st.stack ∧ st1.prefixes = st.prefixes)
    (by cases d <;> simp only [DocKind.topLevel] <;> decide) (by cases d <;> simp only [DocKind.handled] <;> decide) hn
    (startAbstracttype_ni st a) ?_ ih ?_ ?_
  · intro st1 hs1
    obtain ⟨n, h1, h2, h3, h4⟩ := startAbstracttype_post hks hs1
    exact ⟨⟨by rw [h1]; rfl, h2⟩, ⟨by rw [h2]; exact hpre, .atype, pkOfB_abstracttype _, n, st.stack, h1, h3⟩, h4⟩
  · intro st1 st2 hq hpost
    obtain ⟨n, rest, hs2, _⟩ := ctx_pk hpost.ctx pkOfB_abstracttype
    show NIx P (popFrame st2)
    exact popFrame_ni (by rw [hs2]; simp)
  · intro st1 st2 st' hq hpost hendok
    have heq := popFrame_eff (st := st2) hendok
    subst heq
    exact post_of_handled hpre hpk hf (hpost.tail.trans hq.1) (hpost.prefixes.trans hq.2) hpost.keys (Or.inl hpkc)

theorem elem_import {env : Env} {h : Hooks} {T : Node → Prop} {d : DocKind} {p : Str} {st : PSt} {a : Attrs} {c : List Node}
    {pk : PK} (hh : HooksNI P T h) (ht : EnvTrees T env) (hsrc : (attrStrip a "src").isEmpty = true)
    (hpre : st.prefixes ≠ []) (hpk : pkOfB (isComp d) p = some pk) (hf : FrameOK st pk)
    (hpkc : pk = .topS ∨ pk = .topC) (hks : KeysOK st.es) (hn : nestingCheck p "import".toList = .ok ())
    (ih : ChildrenIH P env h d "import".toList c) :
    NIx P (visitElem env h d (some p) st (.elem "import".toList a c)) ∧
      ∀ st', visitElem env h d (some p) st (.elem "import".toList a c) = .ok st' → Post d p st st' := by
  refine handledElem_ni_post
    (Q := fun st1 => st1.stack = st.stack ∧ st1.prefixes = st.prefixes)
    (by cases d <;> simp only [DocKind.topLevel] <;> decide) (by cases d <;> simp only [DocKind.handled] <;> decide) hn
    (startImport_ni hh ht hks hpre hsrc) ?_ ih ?_ ?_
  · intro st1 hs1
    obtain ⟨h1, h2, h3⟩ := startImport_post hh ht hks hs1
    refine ⟨⟨h1, h2⟩, ⟨by rw [h2]; exact hpre, .imp, pkOfB_import _, ?_⟩, h3⟩
    simp only [FrameOK]
    rw [h1]
    rcases hpkc with rfl | rfl
    · exact Or.inl hf
    · exact Or.inr hf
  · intro st1 st2 hq hpost
    exact NIx.ok _
  · intro st1 st2 st' hq hpost hendok
    have heq : st' = st2 := by
      have : (Except.ok st2 : EM PSt) = .ok st' := hendok
      injection this with this
      exact this.symm
    have h12 := hpost.same (pkOfB_import _)
    subst heq h12
    exact post_of_handled hpre hpk hf hq.1 hq.2 hpost.keys (Or.inl hpkc)

/-- fact about the generated nesting table: nothing may stand inside a character-data element -/
theorem cdataNestingTable :
    Gen.allowedParents.all (fun e => Gen.cdataTags.all (fun c => !e.2.contains c)) = true := by decide

theorem nesting_cdata {p t : Str} (hp : Gen.cdataTags.contains p = true) : nestingCheck p t ≠ .ok () := by
  intro h
  unfold nestingCheck at h
  split at h
  · cases h
  · rename_i n ps hf
    rcases ite_ok h with ⟨hc, _⟩ | ⟨_, h⟩
    · have hmem := List.mem_of_find?_eq_some hf
      have h1 := List.all_eq_true.mp cdataNestingTable _ hmem
      have h2 := List.all_eq_true.mp h1 p (List.contains_iff_mem.mp hp)
      simp only [hc, Bool.not_true] at h2
      cases h2
    · cases h

/-- the four character-data elements -/
theorem elem_cdata {env : Env} {h : Hooks} {d : DocKind} {p : Str} {st : PSt} {t : Str} {a : Attrs} {c : List Node} {pk : PK}
    (hcd : Gen.cdataTags.contains t = true) (ht : t ≠ d.topLevel) (hh : d.handled.contains t = false)
    (hdef : t = "default".toList → ∃ k rest, st.stack = .key k :: rest ∧ KeyShape k)
    (hdesc : t = "description".toList → DescOK (isComp d) st)
    (hex : t = "example".toList → ExOK st)
    (hpre : st.prefixes ≠ []) (hpk : pkOfB (isComp d) p = some pk) (hf : FrameOK st pk) (hni : pk ≠ .imp)
    (hks : KeysOK st.es) (hn : nestingCheck p t = .ok ()) :
    NIx P (visitElem env h d (some p) st (.elem t a c)) ∧
      ∀ st', visitElem env h d (some p) st (.elem t a c) = .ok st' → Post d p st st' := by
  rw [visitElem_cdata_eq hn ht hh hcd]
  refine ⟨?_, ?_⟩
  · refine NIx.bind (collectText_ni (fun t' => nesting_cdata hcd) c) (fun data _ => ?_)
    exact charactersTag_ni hcd hdef hdesc hex
  · intro st' hv
    rw [bind_ok] at hv
    obtain ⟨data, _, hv⟩ := hv
    exact post_of_cdata hpre hpk hf hni hks (charactersTag_step (frame_keyShape hf) hv)

end ZCV.Elab
