import ZCV.Lemmas.ElabNoIntCtx
/-!
No internal errors, continued: the tree walk.  One element below a parent whose frame is in place (`CtxOK`) is read
without internal error and leaves the frame in place (`Post`).
-/
namespace ZCV.Elab
open ZCV ZCV.Cfg

variable {P : String → Prop}

/-- what reading some children of a `p` element does to the parser state -/
structure Post (d : DocKind) (p : Str) (st st' : PSt) : Prop where
  ctx : CtxOK d p st'
  keys : KeysOK st'.es
  prefixes : st'.prefixes = st.prefixes
  tail : st'.stack.tail = st.stack.tail
  kinds : ∀ pk, pkOfB (isComp d) p = some pk → pk ≠ .topS → pk ≠ .topC → kinds st'.es = kinds st.es
  same : pkOfB (isComp d) p = some .imp → st' = st

theorem Post.refl {d : DocKind} {p : Str} {st : PSt} (hctx : CtxOK d p st) (hks : KeysOK st.es) : Post d p st st :=
  ⟨hctx, hks, rfl, rfl, fun _ _ _ _ => rfl, fun _ => rfl⟩

theorem Post.trans {d : DocKind} {p : Str} {a b c : PSt} (h1 : Post d p a b) (h2 : Post d p b c) : Post d p a c :=
  ⟨h2.ctx, h2.keys, h2.prefixes.trans h1.prefixes, h2.tail.trans h1.tail,
   fun pk hpk n1 n2 => (h2.kinds pk hpk n1 n2).trans (h1.kinds pk hpk n1 n2),
   fun hp => (h2.same hp).trans (h1.same hp)⟩

/-- after a character-data child -/
theorem post_of_cdata {d : DocKind} {p : Str} {st st' : PSt} {pk : PK} (hpre : st.prefixes ≠ [])
    (hpk : pkOfB (isComp d) p = some pk) (hf : FrameOK st pk) (hni : pk ≠ .imp) (hks : KeysOK st.es)
    (hstep : CdataStep st st') : Post d p st st' := by
  have hk := hstep.kinds
  refine ⟨⟨by rw [hstep.prefixes]; exact hpre, pk, hpk, ?_⟩, hstep.keys hks, hstep.prefixes, ?_, fun _ _ _ _ => hk,
    fun hp => by rw [hpk] at hp; injection hp with hp; exact absurd hp hni⟩
  · rcases hstep.top with ⟨hs, hes⟩ | ⟨k, k', rest, hs, hs', hes, hk', hn, ha⟩ | ⟨a, b, a', b', rest, hs, hs'⟩
    · cases pk <;> simp only [FrameOK] at hf ⊢
      · rw [hs]; exact hf
      · rw [hs]; exact hf
      · obtain ⟨n, rest, h1, h2⟩ := hf
        exact ⟨n, rest, by rw [hs]; exact h1, by rw [kindAt_congr hk]; exact h2⟩
      · obtain ⟨n, rest, h1, h2⟩ := hf
        exact ⟨n, rest, by rw [hs]; exact h1, by rw [kindAt_congr hk]; exact h2⟩
      · obtain ⟨k, rest, h1, h2, h3⟩ := hf
        have := hes ⟨k, rest, h1⟩
        exact ⟨k, rest, by rw [hs]; exact h1, h2, by rw [this]; exact h3⟩
      · obtain ⟨a, b, rest, h1⟩ := hf
        exact ⟨a, b, rest, by rw [hs]; exact h1⟩
      · exact absurd rfl hni
    · cases pk <;> simp only [FrameOK] at hf ⊢
      · rw [hf] at hs; cases hs
      · rw [hf] at hs; cases hs
      · obtain ⟨n, r, h1, _⟩ := hf; rw [h1] at hs; cases hs
      · obtain ⟨n, r, h1, _⟩ := hf; rw [h1] at hs; cases hs
      · obtain ⟨k0, r, h1, h2, ch, key, kk, h3, h4, h5⟩ := hf
        rw [h1] at hs
        injection hs with hs1 hs2
        injection hs1 with hs1
        subst hs1 hs2
        exact ⟨k', r, hs', hk', ch, key, kk, by rw [hes]; exact h3, h4.trans hn.symm, h5.trans ha.symm⟩
      · obtain ⟨a, b, r, h1⟩ := hf; rw [h1] at hs; cases hs
      · exact absurd rfl hni
    · cases pk <;> simp only [FrameOK] at hf ⊢
      · rw [hf] at hs; cases hs
      · rw [hf] at hs; cases hs
      · obtain ⟨n, r, h1, _⟩ := hf; rw [h1] at hs; cases hs
      · obtain ⟨n, r, h1, _⟩ := hf; rw [h1] at hs; cases hs
      · obtain ⟨k0, r, h1, _⟩ := hf; rw [h1] at hs; cases hs
      · exact ⟨a', b', rest, hs'⟩
      · exact absurd rfl hni
  · rcases hstep.top with ⟨hs, _⟩ | ⟨k, k', rest, hs, hs', _⟩ | ⟨a, b, a', b', rest, hs, hs'⟩
    · rw [hs]
    · rw [hs, hs']; rfl
    · rw [hs, hs']; rfl

/-- after a child element with start and end handlers: the stack and the prefixes are as before -/
theorem post_of_handled {d : DocKind} {p : Str} {st st' : PSt} {pk : PK} (hpre : st.prefixes ≠ [])
    (hpk : pkOfB (isComp d) p = some pk) (hf : FrameOK st pk) (hs : st'.stack = st.stack) (hp : st'.prefixes = st.prefixes)
    (hks : KeysOK st'.es) (hcase : (pk = .topS ∨ pk = .topC) ∨ (pk = .stype ∧ kinds st'.es = kinds st.es)) :
    Post d p st st' := by
  refine ⟨⟨by rw [hp]; exact hpre, pk, hpk, ?_⟩, hks, hp, by rw [hs], ?_, ?_⟩
  · rcases hcase with (rfl | rfl) | ⟨rfl, hk⟩ <;> simp only [FrameOK] at hf ⊢
    · rw [hs]; exact hf
    · rw [hs]; exact hf
    · obtain ⟨n, rest, h1, h2⟩ := hf
      exact ⟨n, rest, by rw [hs]; exact h1, by rw [kindAt_congr hk]; exact h2⟩
  · intro pk' hpk' n1 n2
    rw [hpk] at hpk'
    injection hpk' with hpk'
    subst hpk'
    rcases hcase with (rfl | rfl) | ⟨_, hk⟩
    · exact absurd rfl n1
    · exact absurd rfl n2
    · exact hk
  · intro himp
    rw [hpk] at himp
    injection himp with himp
    subst himp
    rcases hcase with (h | h) | ⟨h, _⟩ <;> cases h

/-! ### `visitElem` unfolded -/

theorem visitElem_nest_err {env : Env} {h : Hooks} {d : DocKind} {p : Str} {st : PSt} {t : Str} {a : Attrs} {c : List Node}
    {e : EFail} (hn : nestingCheck p t = .error e) : visitElem env h d (some p) st (.elem t a c) = .error e := by
  unfold visitElem
  simp only [hn]

theorem nestingCheck_err_schema {p t : Str} {e : EFail} (hn : nestingCheck p t = .error e) : ∃ s, e = .schema s := by
  unfold nestingCheck at hn
  split at hn
  · injection hn with hn; exact ⟨_, hn.symm⟩
  · split at hn
    · cases hn
    · injection hn with hn; exact ⟨_, hn.symm⟩

theorem visitElem_handled_eq {env : Env} {h : Hooks} {d : DocKind} {p : Str} {st : PSt} {t : Str} {a : Attrs} {c : List Node}
    (hn : nestingCheck p t = .ok ()) (ht : t ≠ d.topLevel) (hh : d.handled.contains t = true) :
    visitElem env h d (some p) st (.elem t a c) =
      (startHandled env h t a st >>= fun st1 => visitChildren env h d t st1 c >>= fun st2 => endHandled env t st2) := by
  unfold visitElem
  have ht' : (t == d.topLevel) = false := by simpa using ht
  simp only [hn, ht', Bool.false_eq_true, ↓reduceIte, hh]
  cases startHandled env h t a st with
  | error e => rfl
  | ok st1 =>
    simp only [bind, Except.bind]
    cases visitChildren env h d t st1 c <;> rfl

theorem visitElem_cdata_eq {env : Env} {h : Hooks} {d : DocKind} {p : Str} {st : PSt} {t : Str} {a : Attrs} {c : List Node}
    (hn : nestingCheck p t = .ok ()) (ht : t ≠ d.topLevel) (hh : d.handled.contains t = false)
    (hc : Gen.cdataTags.contains t = true) :
    visitElem env h d (some p) st (.elem t a c) =
      (collectText t c >>= fun data => charactersTag (isComp d) t a (strip data) st) := by
  unfold visitElem
  have ht' : (t == d.topLevel) = false := by simpa using ht
  simp only [hn, ht', Bool.false_eq_true, ↓reduceIte, hh, hc]
  cases collectText t c with
  | error e => rfl
  | ok data => cases d <;> rfl

/-- the flow through an element with start and end handlers -/
theorem handledElem_ni_post {env : Env} {h : Hooks} {d : DocKind} {p : Str} {st : PSt} {t : Str} {a : Attrs} {c : List Node}
    {R Q : PSt → Prop}
    (ht : t ≠ d.topLevel) (hh : d.handled.contains t = true) (hn : nestingCheck p t = .ok ())
    (hs_ni : NIx P (startHandled env h t a st))
    (hs : ∀ st1, startHandled env h t a st = .ok st1 → Q st1 ∧ CtxOK d t st1 ∧ KeysOK st1.es)
    (ih : ∀ st1, CtxOK d t st1 → KeysOK st1.es → NIx P (visitChildren env h d t st1 c) ∧
        ∀ st2, visitChildren env h d t st1 c = .ok st2 → Post d t st1 st2)
    (he_ni : ∀ st1 st2, Q st1 → Post d t st1 st2 → NIx P (endHandled env t st2))
    (he : ∀ st1 st2 st', Q st1 → Post d t st1 st2 → endHandled env t st2 = .ok st' → R st') :
    NIx P (visitElem env h d (some p) st (.elem t a c)) ∧
      ∀ st', visitElem env h d (some p) st (.elem t a c) = .ok st' → R st' := by
  rw [visitElem_handled_eq hn ht hh]
  refine ⟨?_, ?_⟩
  · refine NIx.bind hs_ni (fun st1 h1 => ?_)
    obtain ⟨hq, hc1, hk1⟩ := hs st1 h1
    refine NIx.bind (ih st1 hc1 hk1).1 (fun st2 h2 => ?_)
    exact he_ni st1 st2 hq ((ih st1 hc1 hk1).2 st2 h2)
  · intro st' hv
    rw [bind_ok] at hv
    obtain ⟨st1, h1, hv⟩ := hv
    rw [bind_ok] at hv
    obtain ⟨st2, h2, hv⟩ := hv
    obtain ⟨hq, hc1, hk1⟩ := hs st1 h1
    exact he st1 st2 st' hq ((ih st1 hc1 hk1).2 st2 h2) hv

end ZCV.Elab
