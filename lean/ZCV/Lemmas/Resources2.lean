import ZCV.Model.Resources2
/-!
Lemmas about `ZCV/Model/Resources2.lean`, part 1: the trace is well bracketed; what a load does to the loader's state.
-/
namespace ZCV.Res2
open ZCV.Res (Pt)

/-! ## well-bracketed traces -/

/-- events that leave the stack of open resources as they found it, whatever it is -/
def Bal (evs : List Ev) : Prop := ∀ rest stk, wb (evs ++ rest) stk = wb rest stk
/-- the same, provided `r` is the innermost open resource (parse steps of `r` are allowed) -/
def BalIn (r : Nat) (evs : List Ev) : Prop := ∀ rest stk, wb (evs ++ rest) (r :: stk) = wb rest (r :: stk)

theorem Bal.nil : Bal [] := fun _ _ => rfl
theorem BalIn.nil (r : Nat) : BalIn r [] := fun _ _ => rfl
theorem Bal.balIn {evs : List Ev} (h : Bal evs) (r : Nat) : BalIn r evs := fun rest stk => h rest (r :: stk)
theorem Bal.append {a b : List Ev} (ha : Bal a) (hb : Bal b) : Bal (a ++ b) := by
  intro rest stk; rw [List.append_assoc, ha, hb]
theorem BalIn.append {r : Nat} {a b : List Ev} (ha : BalIn r a) (hb : BalIn r b) : BalIn r (a ++ b) := by
  intro rest stk; rw [List.append_assoc, ha, hb]
theorem BalIn.parse (r k : Nat) : BalIn r [.parse r k] := by
  intro rest stk; simp [wb]
theorem BalIn.parse_cons {r : Nat} (k : Nat) {a : List Ev} (ha : BalIn r a) : BalIn r (.parse r k :: a) :=
  BalIn.append (BalIn.parse r k) ha
theorem Bal.stream (r : Nat) : Bal [.sopen r, .sclose r] := by
  intro rest stk; simp [wb]
/-- `ropen r … rclose r` around events that are balanced inside `r` -/
theorem BalIn.resource {r : Nat} {a : List Ev} (ha : BalIn r a) : Bal ([.ropen r] ++ a ++ [.rclose r]) := by
  intro rest stk
  simp only [List.cons_append, List.nil_append, List.append_assoc, wb]
  rw [ha]; simp [wb]
theorem BalIn.stream_resource {r : Nat} {a : List Ev} (ha : BalIn r a) :
    Bal ([.sopen r, .sclose r, .ropen r] ++ a ++ [.rclose r]) := by
  have h := Bal.append (Bal.stream r) (BalIn.resource ha)
  simpa using h

theorem withResource_bal (f : Pt → Bool) (o : Opener) (r : Nat) (ex : Bool) (body : LState → Out)
    (hb : ∀ st, BalIn r (body st).evs) (st : LState) : Bal (withResource f o r ex body st).evs := by
  unfold withResource
  cases o with
  | url =>
    simp only
    split
    · exact Bal.nil
    · split
      · exact Bal.stream r
      · split
        · exact Bal.stream r
        · exact BalIn.stream_resource (hb st)
  | pkg =>
    simp only
    split
    · exact Bal.nil
    · exact BalIn.resource (hb st)
  | file => exact BalIn.resource (hb st)

theorem stepLoop_balIn {α : Type} (f : Pt → Bool) (r : Nat) (act : α → LState → Out)
    (ha : ∀ s st, Bal (act s st).evs) : ∀ (steps : List α) (k : Nat) (st : LState), BalIn r (stepLoop f r act k steps st).evs
  | [], k, st => by simp only [stepLoop]; exact BalIn.parse r k
  | s :: rest, k, st => by
    simp only [stepLoop]
    split
    · exact BalIn.parse r k
    · split
      · have h := BalIn.append ((ha s st).balIn r) (stepLoop_balIn f r act ha rest (k + 1) (act s st).st)
        exact BalIn.parse_cons k h
      · exact BalIn.parse_cons k ((ha s st).balIn r)

theorem cfgLine_bal (rec : Rec) (hr : ∀ m c st, Bal (rec m c st).evs) (s : CStep) (st : LState) : Bal (cfgLine rec s st).evs := by
  cases s with
  | work => exact Bal.nil
  | incl c => exact hr _ _ _
  | imp c =>
    simp only [cfgLine]
    split
    · exact Bal.nil
    · split <;> exact hr _ _ _

theorem schLine_bal (rec : Rec) (hr : ∀ m c st, Bal (rec m c st).evs) (s : SStep) (st : LState) : Bal (schLine rec s st).evs := by
  cases s with
  | work => exact Bal.nil
  | ext b => exact hr _ _ _
  | importSrc c => exact hr _ _ _
  | importPkg c =>
    simp only [schLine]
    split
    · exact Bal.nil
    · exact hr _ _ _

theorem parseCfg_balIn (f : Pt → Bool) (rec : Rec) (hr : ∀ m c st, Bal (rec m c st).evs) (r : Nat) (doc : Option Doc) (st : LState) :
    BalIn r (parseCfg f rec r doc st).evs := by
  unfold parseCfg
  split
  · exact BalIn.nil r
  · simp only
    split
    · exact stepLoop_balIn f r _ (cfgLine_bal rec hr) _ _ _
    · exact BalIn.parse r 0

theorem loadCfg_balIn (f : Pt → Bool) (rec : Rec) (hr : ∀ m c st, Bal (rec m c st).evs) (r : Nat) (doc : Option Doc) (st : LState) :
    BalIn r (loadCfg f rec r doc st).evs := by
  unfold loadCfg
  simp only
  split
  · exact BalIn.append (parseCfg_balIn f rec hr r doc st) (BalIn.parse r _)
  · exact parseCfg_balIn f rec hr r doc st

theorem schemaBody_balIn (f : Pt → Bool) (rec : Rec) (hr : ∀ m c st, Bal (rec m c st).evs) (r : Nat) (doc : Option Doc) (st : LState) :
    BalIn r (schemaBody f rec r doc st).evs := by
  unfold schemaBody
  split
  · exact stepLoop_balIn f r _ (schLine_bal rec hr) _ _ _
  · exact BalIn.parse r 0

theorem compBody_balIn (f : Pt → Bool) (rec : Rec) (hr : ∀ m c st, Bal (rec m c st).evs) (r : Nat) (doc : Option Doc) (st : LState) :
    BalIn r (compBody f rec r doc st).evs := by
  unfold compBody
  split
  · exact stepLoop_balIn f r _ (schLine_bal rec hr) _ _ _
  · exact BalIn.parse r 0

theorem loadSchemaRes_balIn (f : Pt → Bool) (rec : Rec) (hr : ∀ m c st, Bal (rec m c st).evs) (r : Nat) (doc : Option Doc) (st : LState) :
    BalIn r (loadSchemaRes f rec r doc st).evs := by
  unfold loadSchemaRes
  split
  · exact BalIn.nil r
  · simp only
    split <;> exact schemaBody_balIn f rec hr r doc _

theorem runRes_bal (f : Pt → Bool) (docs : List (Nat × Doc)) :
    ∀ (fuel : Nat) (m : Mode) (r : Nat) (st : LState), Bal (runRes f docs fuel m r st).evs
  | 0, _, _, _ => Bal.nil
  | fuel + 1, m, r, st => by
    have ih := runRes_bal f docs fuel
    cases m with
    | top file => exact withResource_bal f _ r _ _ (loadCfg_balIn f _ ih r _) st
    | incl => exact withResource_bal f _ r _ _ (parseCfg_balIn f _ ih r _) st
    | load file => exact withResource_bal f _ r _ _ (loadSchemaRes_balIn f _ ih r _) st
    | extend => exact withResource_bal f _ r _ _ (schemaBody_balIn f _ ih r _) st
    | comp => exact withResource_bal f _ r _ _ (compBody_balIn f _ ih r _) st

theorem run_wb (faults : List Pt) (sc : Scenario) (st : LState) : wb (run faults sc st).evs [] = true := by
  have h := runRes_bal (fun p => faults.contains p) sc.docs sc.limit sc.entry.mode sc.entry.res st [] []
  simpa [wb, run] using h

/-- the projection to the events of the first model is well bracketed in the sense of the first model -/
theorem ioTrace_wb : ∀ (evs : List Ev) (stk : List Nat), wb evs stk = true → Res.wb (ioTrace evs) stk = true
  | [], stk, h => by simpa [wb, ioTrace, Res.wb] using h
  | .ropen r :: t, stk, h => by
    simp only [wb] at h; simp only [ioTrace, Res.wb]; exact ioTrace_wb t _ h
  | .rclose r :: t, stk, h => by
    cases stk with
    | nil => simp [wb] at h
    | cons x stk =>
      simp only [wb, Bool.and_eq_true] at h
      simp only [ioTrace, Res.wb, Bool.and_eq_true]
      exact ⟨h.1, ioTrace_wb t _ h.2⟩
  | .parse r k :: t, stk, h => by
    cases stk with
    | nil => simp [wb] at h
    | cons x stk =>
      simp only [wb, Bool.and_eq_true] at h
      simp only [ioTrace]
      exact ioTrace_wb t _ h.2
  | .sclose r :: t, stk, h => by simp [wb] at h
  | [.sopen r], stk, h => by simp [wb] at h
  | .sopen r :: .sclose r' :: t, stk, h => by
    simp only [wb, Bool.and_eq_true] at h
    simp only [ioTrace, Res.wb, Bool.and_eq_true]
    exact ⟨h.1, ioTrace_wb t _ h.2⟩
  | .sopen r :: .sopen _ :: t, stk, h => by simp [wb] at h
  | .sopen r :: .ropen _ :: t, stk, h => by simp [wb] at h
  | .sopen r :: .rclose _ :: t, stk, h => by simp [wb] at h
  | .sopen r :: .parse _ _ :: t, stk, h => by simp [wb] at h

/-- in a well-bracketed trace no URL stream is open when a parse step starts: before it, every stream was opened exactly as
    often as it was closed -/
theorem wb_streams_closed_at_parse (r k : Nat) (post : List Ev) (r' : Nat) :
    ∀ (pre : List Ev) (stk : List Nat), wb (pre ++ .parse r k :: post) stk = true →
      pre.count (.sopen r') = pre.count (.sclose r')
  | [], _, _ => rfl
  | .ropen x :: pre, stk, h => by
    simp only [List.cons_append, wb] at h
    have ih := wb_streams_closed_at_parse r k post r' pre _ h
    simpa [List.count_cons] using ih
  | .rclose x :: pre, stk, h => by
    cases stk with
    | nil => simp [wb] at h
    | cons y stk =>
      simp only [List.cons_append, wb, Bool.and_eq_true] at h
      have ih := wb_streams_closed_at_parse r k post r' pre _ h.2
      simpa [List.count_cons] using ih
  | .parse x j :: pre, stk, h => by
    cases stk with
    | nil => simp [wb] at h
    | cons y stk =>
      simp only [List.cons_append, wb, Bool.and_eq_true] at h
      have ih := wb_streams_closed_at_parse r k post r' pre _ h.2
      simpa [List.count_cons] using ih
  | .sclose x :: pre, stk, h => by simp [wb] at h
  | [.sopen x], stk, h => by simp [wb] at h
  | .sopen x :: .sclose y :: pre, stk, h => by
    simp only [List.cons_append, wb, Bool.and_eq_true, beq_iff_eq] at h
    have ih := wb_streams_closed_at_parse r k post r' pre _ h.2
    have hxy : x = y := h.1
    subst hxy
    by_cases hx : x = r' <;> simp [hx, ih]
  | .sopen x :: .sopen _ :: pre, stk, h => by simp [wb] at h
  | .sopen x :: .ropen _ :: pre, stk, h => by simp [wb] at h
  | .sopen x :: .rclose _ :: pre, stk, h => by simp [wb] at h
  | .sopen x :: .parse _ _ :: pre, stk, h => by simp [wb] at h

/-- in a well-bracketed trace a URL stream is closed by the very next event -/
theorem wb_stream_closed_next (r : Nat) (post : List Ev) :
    ∀ (pre : List Ev) (stk : List Nat), wb (pre ++ .sopen r :: post) stk = true → ∃ post', post = .sclose r :: post'
  | [], stk, h => by
    cases post with
    | nil => simp [wb] at h
    | cons e post =>
      cases e <;> simp [wb] at h
      exact ⟨post, by rw [h.1]⟩
  | .ropen x :: pre, stk, h => by
    simp only [List.cons_append, wb] at h
    exact wb_stream_closed_next r post pre _ h
  | .rclose x :: pre, stk, h => by
    cases stk with
    | nil => simp [wb] at h
    | cons y stk =>
      simp only [List.cons_append, wb, Bool.and_eq_true] at h
      exact wb_stream_closed_next r post pre _ h.2
  | .parse x j :: pre, stk, h => by
    cases stk with
    | nil => simp [wb] at h
    | cons y stk =>
      simp only [List.cons_append, wb, Bool.and_eq_true] at h
      exact wb_stream_closed_next r post pre _ h.2
  | .sclose x :: pre, stk, h => by simp [wb] at h
  | [.sopen x], stk, h => by simp [wb] at h
  | .sopen x :: .sclose y :: pre, stk, h => by
    simp only [List.cons_append, wb, Bool.and_eq_true] at h
    exact wb_stream_closed_next r post pre _ h.2
  | .sopen x :: .sopen _ :: pre, stk, h => by simp [wb] at h
  | .sopen x :: .ropen _ :: pre, stk, h => by simp [wb] at h
  | .sopen x :: .rclose _ :: pre, stk, h => by simp [wb] at h
  | .sopen x :: .parse _ _ :: pre, stk, h => by simp [wb] at h

/-! ## the loader's state -/

/-- what a block may do to the loader's state: `_active_urls` is as before; components and cached schemas are only added -/
structure Rel (a b : LState) : Prop where
  active : b.active = a.active
  comps : a.comps <+: b.comps
  cache : a.cache <+: b.cache

theorem Rel.refl (a : LState) : Rel a a := ⟨rfl, List.prefix_refl _, List.prefix_refl _⟩
theorem Rel.trans {a b c : LState} (h1 : Rel a b) (h2 : Rel b c) : Rel a c :=
  ⟨h2.active.trans h1.active, h1.comps.trans h2.comps, h1.cache.trans h2.cache⟩

theorem prefix_dictSet (l : List Nat) (x : Nat) : l <+: dictSet l x := by
  unfold dictSet; split
  · exact List.prefix_refl _
  · exact List.prefix_append _ _

def Keeps (g : LState → Out) : Prop := ∀ st, Rel st (g st).st

theorem withResource_keeps (f : Pt → Bool) (o : Opener) (r : Nat) (ex : Bool) (body : LState → Out) (hb : Keeps body) :
    Keeps (withResource f o r ex body) := by
  intro st
  unfold withResource
  cases o with
  | url =>
    simp only
    split
    · exact Rel.refl _
    · split
      · exact Rel.refl _
      · split
        · exact Rel.refl _
        · exact hb st
  | pkg =>
    simp only
    split
    · exact Rel.refl _
    · exact hb st
  | file => exact hb st

theorem stepLoop_keeps {α : Type} (f : Pt → Bool) (r : Nat) (act : α → LState → Out) (ha : ∀ s, Keeps (act s)) :
    ∀ (steps : List α) (k : Nat), Keeps (stepLoop f r act k steps)
  | [], k => fun st => by simp only [stepLoop]; exact Rel.refl _
  | s :: rest, k => fun st => by
    simp only [stepLoop]
    split
    · exact Rel.refl _
    · split
      · exact (ha s st).trans (stepLoop_keeps f r act ha rest (k + 1) _)
      · exact ha s st

theorem rel_addComp (st : LState) (c : Nat) : Rel st { st with comps := dictSet st.comps c } :=
  ⟨rfl, prefix_dictSet _ _, List.prefix_refl _⟩

theorem cfgLine_keeps (rec : Rec) (hr : ∀ m c, Keeps (rec m c)) (s : CStep) : Keeps (cfgLine rec s) := by
  intro st
  cases s with
  | work => exact Rel.refl _
  | incl c => exact hr _ _ _
  | imp c =>
    simp only [cfgLine]
    split
    · exact Rel.refl _
    · have h := (rel_addComp st c).trans (hr .comp c _)
      split
      · exact h
      · exact ⟨h.active, List.prefix_refl _, h.cache⟩

theorem schLine_keeps (rec : Rec) (hr : ∀ m c, Keeps (rec m c)) (s : SStep) : Keeps (schLine rec s) := by
  intro st
  cases s with
  | work => exact Rel.refl _
  | ext b => exact hr _ _ _
  | importSrc c => exact hr _ _ _
  | importPkg c =>
    simp only [schLine]
    split
    · exact Rel.refl _
    · exact (rel_addComp st c).trans (hr _ _ _)

/-- the parser body of `_parse_resource` runs with `r` pushed and leaves it pushed; the `finally` pops it -/
theorem parseCfg_keeps (f : Pt → Bool) (rec : Rec) (hr : ∀ m c, Keeps (rec m c)) (r : Nat) (doc : Option Doc) :
    Keeps (parseCfg f rec r doc) := by
  intro st
  unfold parseCfg
  split
  · exact Rel.refl _
  · simp only
    split
    · have h := stepLoop_keeps f r _ (cfgLine_keeps rec hr) ‹List CStep› 0 { st with active := st.active ++ [r] }
      exact ⟨by simp [h.active], h.comps, h.cache⟩
    · exact ⟨by simp, List.prefix_refl _, List.prefix_refl _⟩

theorem loadCfg_keeps (f : Pt → Bool) (rec : Rec) (hr : ∀ m c, Keeps (rec m c)) (r : Nat) (doc : Option Doc) :
    Keeps (loadCfg f rec r doc) := by
  intro st
  unfold loadCfg
  simp only
  split <;> exact parseCfg_keeps f rec hr r doc st

theorem schemaBody_keeps (f : Pt → Bool) (rec : Rec) (hr : ∀ m c, Keeps (rec m c)) (r : Nat) (doc : Option Doc) :
    Keeps (schemaBody f rec r doc) := by
  intro st
  unfold schemaBody
  split
  · exact stepLoop_keeps f r _ (schLine_keeps rec hr) _ _ _
  · exact Rel.refl _

theorem compBody_keeps (f : Pt → Bool) (rec : Rec) (hr : ∀ m c, Keeps (rec m c)) (r : Nat) (doc : Option Doc) :
    Keeps (compBody f rec r doc) := by
  intro st
  unfold compBody
  split
  · exact stepLoop_keeps f r _ (schLine_keeps rec hr) _ _ _
  · exact Rel.refl _

/-- the new schema's components are its own: the caller's list is exactly as before; the cache may have grown -/
theorem loadSchemaRes_keeps (f : Pt → Bool) (rec : Rec) (hr : ∀ m c, Keeps (rec m c)) (r : Nat) (doc : Option Doc) :
    Keeps (loadSchemaRes f rec r doc) := by
  intro st
  unfold loadSchemaRes
  split
  · exact Rel.refl _
  · have h := schemaBody_keeps f rec hr r doc { st with comps := [] }
    simp only
    split
    · exact ⟨h.active, List.prefix_refl _, h.cache.trans (prefix_dictSet _ _)⟩
    · exact ⟨h.active, List.prefix_refl _, h.cache⟩

theorem runRes_keeps (f : Pt → Bool) (docs : List (Nat × Doc)) : ∀ (fuel : Nat) (m : Mode) (r : Nat), Keeps (runRes f docs fuel m r)
  | 0, _, _ => fun st => Rel.refl st
  | fuel + 1, m, r => by
    have ih := runRes_keeps f docs fuel
    cases m with
    | top file => exact withResource_keeps f _ r _ _ (loadCfg_keeps f _ ih r _)
    | incl => exact withResource_keeps f _ r _ _ (parseCfg_keeps f _ ih r _)
    | load file => exact withResource_keeps f _ r _ _ (loadSchemaRes_keeps f _ ih r _)
    | extend => exact withResource_keeps f _ r _ _ (schemaBody_keeps f _ ih r _)
    | comp => exact withResource_keeps f _ r _ _ (compBody_keeps f _ ih r _)

/-- a `SchemaLoader` call (`loadURL` / `loadFile`, `<import src>`) leaves the component list it was called with -/
theorem runRes_load_comps (f : Pt → Bool) (docs : List (Nat × Doc)) (fuel : Nat) (file : Bool) (r : Nat) (st : LState) :
    (runRes f docs fuel (.load file) r st).st.comps = st.comps := by
  cases fuel with
  | zero => rfl
  | succ fuel =>
    simp only [runRes]
    have key : ∀ st, (loadSchemaRes f (runRes f docs fuel) r (lookup docs r) st).st.comps = st.comps := by
      intro st
      unfold loadSchemaRes
      split
      · rfl
      · simp only
        split <;> rfl
    unfold withResource
    cases file <;> simp only [if_true, Bool.false_eq_true, if_false]
    · split
      · rfl
      · split
        · rfl
        · split
          · rfl
          · exact key st
    · exact key st

end ZCV.Res2
