import ZCV.Lemmas.Datatypes2Int
/-! `str.split()` (`splitWS`, the `string-list` datatype) against the grammar `DTSpec.Words`. -/
namespace ZCV.DT
open ZCV ZCV.DTSpec

theorem dt2_splitAux_space (g x : Str) (h : AllSpace g) : splitWSAux [] (g ++ x) = splitWSAux [] x := by
  induction g with
  | nil => rfl
  | cons c t ih =>
    have hc : pySpace c = true := h c (by simp)
    rw [List.cons_append, splitWSAux, if_pos hc, if_pos (by rfl)]
    exact ih (fun d hd => h d (List.mem_cons_of_mem _ hd))

theorem dt2_splitAux_word (w rest cur : Str) (h : NoSpace w) :
    splitWSAux cur (w ++ rest) = splitWSAux (w.reverse ++ cur) rest := by
  induction w generalizing cur with
  | nil => rfl
  | cons c t ih =>
    have hc : pySpace c = false := h c (by simp)
    rw [List.cons_append, splitWSAux, hc, if_neg (by simp), ih _ (fun d hd => h d (List.mem_cons_of_mem _ hd))]
    simp

theorem dt2_splitAux_end (cur rest : Str) (hcur : cur ≠ [])
    (hr : rest = [] ∨ ∃ c t, rest = c :: t ∧ pySpace c = true) :
    splitWSAux cur rest = cur.reverse :: splitWSAux [] rest := by
  have hne : (cur == []) = false := by simpa using hcur
  rcases hr with rfl | ⟨c, t, rfl, hc⟩
  · simp [splitWSAux, hne]
  · rw [splitWSAux, if_pos hc, hne, splitWSAux, if_pos hc]
    simp

/-- one step of `split()`: whitespace, a word, and the rest -/
theorem dt2_splitWS_step (g w rest : Str) (hg : AllSpace g) (hw : w ≠ []) (hn : NoSpace w)
    (hr : rest = [] ∨ ∃ c t, rest = c :: t ∧ pySpace c = true) :
    splitWS (g ++ w ++ rest) = w :: splitWS rest := by
  unfold splitWS
  rw [List.append_assoc, dt2_splitAux_space _ _ hg, dt2_splitAux_word _ _ _ hn,
    dt2_splitAux_end _ _ (by simpa using hw) hr]
  simp

theorem dt2_splitWS_allSpace (g : Str) (hg : AllSpace g) : splitWS g = [] := by
  have := dt2_splitAux_space g [] hg
  rw [List.append_nil] at this
  unfold splitWS; rw [this]; rfl

/-- the grammar determines the words: they are what `split()` returns -/
theorem dt2_words_splitWS (s : Str) (ws : List Str) (h : Words s ws) : splitWS s = ws := by
  induction h with
  | nil g hg => exact dt2_splitWS_allSpace g hg
  | word g w rest ws hg hw hn hr _ ih => rw [dt2_splitWS_step g w rest hg hw hn hr, ih]

theorem dt2_takeWhile_noSpace (s : Str) : NoSpace (s.takeWhile (fun c => !pySpace c)) := by
  induction s with
  | nil => intro c hc; simp at hc
  | cons a t ih =>
    intro c hc
    rw [List.takeWhile_cons] at hc
    split at hc
    · rename_i ha
      rcases List.mem_cons.mp hc with rfl | h
      · simpa using ha
      · exact ih c h
    · simp at hc

theorem dt2_words_exist : ∀ (n : Nat) (s : Str), s.length ≤ n → Words s (splitWS s) := by
  intro n
  induction n with
  | zero =>
    intro s hs
    have : s = [] := List.eq_nil_of_length_eq_zero (by omega)
    subst this
    exact Words.nil [] (fun c hc => by simp at hc)
  | succ n ih =>
    intro s hs
    have hg := dt2_takeWhile_allSpace s
    have hsplit : s = s.takeWhile pySpace ++ s.dropWhile pySpace := List.takeWhile_append_dropWhile.symm
    cases hs1 : s.dropWhile pySpace with
    | nil =>
      rw [hs1, List.append_nil] at hsplit
      have hg' : AllSpace s := by rw [hsplit]; exact hg
      rw [dt2_splitWS_allSpace s hg']
      exact Words.nil s hg'
    | cons a t =>
      have ha : pySpace a = false := Rx.dropWhile_head_not pySpace s a t hs1
      let w := a :: t.takeWhile (fun c => !pySpace c)
      let rest := t.dropWhile (fun c => !pySpace c)
      have hwr : a :: t = w ++ rest := by
        show a :: t = a :: (t.takeWhile _ ++ t.dropWhile _)
        rw [List.takeWhile_append_dropWhile]
      have hn : NoSpace w := by
        intro c hc
        rcases List.mem_cons.mp hc with rfl | h
        · exact ha
        · exact dt2_takeWhile_noSpace t c h
      have hr : rest = [] ∨ ∃ c t', rest = c :: t' ∧ pySpace c = true := by
        cases hrest : rest with
        | nil => exact Or.inl rfl
        | cons c t' =>
          have := Rx.dropWhile_head_not (fun c => !pySpace c) t c t' hrest
          exact Or.inr ⟨c, t', rfl, by simpa using this⟩
      have hlen : rest.length ≤ n := by
        have h1 := Rx.length_dropWhile_le (fun c => !pySpace c) t
        have h2 := Rx.length_dropWhile_le pySpace s
        rw [hs1] at h2
        simp only [List.length_cons] at h2
        show (t.dropWhile _).length ≤ n
        omega
      have hs' : s = s.takeWhile pySpace ++ w ++ rest := by
        rw [List.append_assoc, ← hwr, ← hs1]; exact hsplit
      have hstep := dt2_splitWS_step (s.takeWhile pySpace) w rest hg (by simp [w]) hn hr
      rw [← hs'] at hstep
      rw [hstep]
      have := Words.word (s.takeWhile pySpace) w rest (splitWS rest) hg (by simp [w]) hn hr (ih rest hlen)
      rw [← hs'] at this
      exact this

/-- **`split()`**: the result is the word decomposition of the text, and the only one -/
theorem dt2_splitWS_iff (s : Str) (ws : List Str) : Words s ws ↔ splitWS s = ws := by
  constructor
  · exact dt2_words_splitWS s ws
  · rintro rfl; exact dt2_words_exist s.length s (Nat.le_refl _)

theorem dt2_words_elems (s : Str) (ws : List Str) (h : Words s ws) : ∀ w ∈ ws, w ≠ [] ∧ NoSpace w := by
  induction h with
  | nil g hg => intro w hw; simp at hw
  | word g w rest ws hg hw hn hr _ ih =>
    intro x hx
    rcases List.mem_cons.mp hx with rfl | hx
    · exact ⟨hw, hn⟩
    · exact ih x hx

theorem dt2_filter_allSpace (g : Str) (h : AllSpace g) : g.filter (fun c => !pySpace c) = [] := by
  rw [List.filter_eq_nil_iff]
  intro c hc
  simp [h c hc]

theorem dt2_filter_noSpace (w : Str) (h : NoSpace w) : w.filter (fun c => !pySpace c) = w := by
  rw [List.filter_eq_self]
  intro c hc
  simp [h c hc]

theorem dt2_words_flatten (s : Str) (ws : List Str) (h : Words s ws) :
    ws.flatten = s.filter (fun c => !pySpace c) := by
  induction h with
  | nil g hg => rw [dt2_filter_allSpace g hg]; rfl
  | word g w rest ws hg hw hn hr _ ih =>
    rw [List.filter_append, List.filter_append, dt2_filter_allSpace g hg, dt2_filter_noSpace w hn, ← ih]
    simp

end ZCV.DT
